import StraxModel.Model.Mailbox
/-
  Helper lemmas and the inductive invariant of the mailbox transition system (T6).
  Property theorems live in Props/C05.lean, Props/C13.lean (and C06 for the kill theorems).
-/
namespace Strax.Mailbox
open Strax

/-! ### minNext -/

theorem minNext_le_of_mem {subs : List Sub} {sub : Sub} (h : sub ∈ subs) : minNext subs ≤ sub.next := by
  induction subs with
  | nil => cases h
  | cons a r ih =>
    cases r with
    | nil => simp at h; subst h; simp [minNext]
    | cons b r' =>
      simp only [minNext]
      rcases List.mem_cons.mp h with h | h
      · subst h; exact Nat.min_le_left _ _
      · exact Nat.le_trans (Nat.min_le_right _ _) (ih h)

theorem minNext_mem {subs : List Sub} (h : subs ≠ []) : ∃ sub ∈ subs, sub.next = minNext subs := by
  induction subs with
  | nil => exact absurd rfl h
  | cons a r ih =>
    cases r with
    | nil => exact ⟨a, by simp, by simp [minNext]⟩
    | cons b r' =>
      simp only [minNext]
      obtain ⟨s, hs, he⟩ := ih (by simp)
      by_cases hab : a.next ≤ minNext (b :: r')
      · exact ⟨a, by simp, by omega⟩
      · exact ⟨s, List.mem_cons_of_mem _ hs, by omega⟩

theorem le_minNext {subs : List Sub} {k : Nat} (hne : subs ≠ []) (h : ∀ sub ∈ subs, k ≤ sub.next) :
    k ≤ minNext subs := by
  obtain ⟨s, hs, he⟩ := minNext_mem hne
  rw [← he]; exact h s hs

/-- replacing one subscriber by one that has read at least as much never lowers the minimum -/
theorem minNext_set_mono {subs : List Sub} {i : Nat} {old new : Sub} (hi : subs[i]? = some old)
    (hle : old.next ≤ new.next) : minNext subs ≤ minNext (subs.set i new) := by
  have hlt : i < subs.length := (List.getElem?_eq_some_iff.mp hi).1
  have hne : subs.set i new ≠ [] := by
    intro h; have := congrArg List.length h; simp only [List.length_set, List.length_nil] at this; omega
  apply le_minNext hne
  intro s hs
  rcases List.mem_or_eq_of_mem_set hs with h | h
  · exact minNext_le_of_mem h
  · subst h
    have : old ∈ subs := List.mem_of_getElem? hi
    exact Nat.le_trans (minNext_le_of_mem this) hle

theorem minNext_map_notify (subs : List Sub) : minNext (subs.map Sub.notify) = minNext subs := by
  induction subs with
  | nil => rfl
  | cons a r ih =>
    cases r with
    | nil => simp [minNext, Sub.notify]
    | cons b r' =>
      simp only [List.map_cons, minNext] at ih ⊢
      rw [ih]; simp [Sub.notify]

/-- a set that keeps `next` keeps the minimum -/
theorem minNext_set_same {subs : List Sub} {i : Nat} {old new : Sub} (hi : subs[i]? = some old)
    (he : new.next = old.next) : minNext (subs.set i new) = minNext subs := by
  induction subs generalizing i with
  | nil => simp
  | cons a r ih =>
    cases i with
    | zero =>
      simp at hi; subst hi
      cases r with
      | nil => simp [minNext, he]
      | cons b r' => simp [minNext, he]
    | succ j =>
      simp at hi
      cases r with
      | nil => simp at hi
      | cons b r' =>
        have := ih hi
        simp only [List.set_cons_succ]
        cases j with
        | zero => simp at hi; subst hi; simp [minNext] at this ⊢; cases r' <;> simp_all [minNext]
        | succ k =>
          simp only [minNext]
          cases r' with
          | nil => simp at hi
          | cons c r'' => simp only [List.set_cons_succ, minNext] at this ⊢; omega

/-! ### getMsg, hasNum, filter -/

theorem getMsg_append_of_isSome {l : List (Nat × Msg)} {e : Nat × Msg} {k : Nat}
    (h : (getMsg l k).isSome) : getMsg (l ++ [e]) k = getMsg l k := by
  induction l with
  | nil => simp [getMsg] at h
  | cons a r ih =>
    simp only [List.cons_append, getMsg] at h ⊢
    split
    · rfl
    · rename_i hne; simp [hne] at h; exact ih h

theorem getMsg_filter {l : List (Nat × Msg)} {m k : Nat} (h : m ≤ k) :
    getMsg (l.filter (fun e => decide (m ≤ e.1))) k = getMsg l k := by
  induction l with
  | nil => rfl
  | cons a r ih =>
    simp only [List.filter_cons]
    by_cases ha : m ≤ a.1
    · simp only [ha, decide_true, if_true, getMsg]; split <;> simp_all
    · simp only [ha, decide_false, Bool.false_eq_true, if_false, getMsg]
      have : a.1 ≠ k := by omega
      simp [this, ih]

theorem hasNum_iff_getMsg (l : List (Nat × Msg)) (k : Nat) : hasNum l k = (getMsg l k).isSome := by
  induction l with
  | nil => rfl
  | cons a r ih =>
    simp only [hasNum, List.any_cons, getMsg] at ih ⊢
    by_cases h : a.1 = k
    · simp [h]
    · simp [h, ih]

theorem hasNum_filter_le (l : List (Nat × Msg)) (p : Nat × Msg → Bool) (k : Nat) :
    hasNum (l.filter p) k = true → hasNum l k = true := by
  simp only [hasNum, List.any_eq_true, List.mem_filter]
  rintro ⟨x, ⟨hx, _⟩, hk⟩
  exact ⟨x, hx, hk⟩

/-! ### the messages numbered `0 … k-1` in number order -/

/-- messages with numbers `0, …, k-1` of the log, in number order (numbers never sent are skipped) -/
def inOrder (sent : List (Nat × Msg)) : Nat → List Msg
  | 0 => []
  | k + 1 => inOrder sent k ++ (getMsg sent k).toList

theorem inOrder_append_stable {sent : List (Nat × Msg)} {e : Nat × Msg} {k : Nat}
    (h : ∀ j, j < k → (getMsg sent j).isSome) : inOrder (sent ++ [e]) k = inOrder sent k := by
  induction k with
  | zero => rfl
  | succ k ih =>
    simp only [inOrder]
    rw [ih (fun j hj => h j (by omega)), getMsg_append_of_isSome (h k (by omega))]

/-- what `collect` returns extends `inOrder`, and everything it returned was present -/
theorem collect_spec {heap sent : List (Nat × Msg)} {m : Nat}
    (hh : ∀ k, m ≤ k → getMsg heap k = getMsg sent k) (fuel n : Nat) (hn : m ≤ n) :
    inOrder sent (n + (collect heap fuel n).length) = inOrder sent n ++ collect heap fuel n ∧
    (∀ j, n ≤ j → j < n + (collect heap fuel n).length → (getMsg sent j).isSome) := by
  induction fuel generalizing n with
  | zero => simp only [collect, List.length_nil, Nat.add_zero, List.append_nil, true_and]; intro j h1 h2; omega
  | succ f ih =>
    simp only [collect]
    cases hg : getMsg heap n with
    | none => simp only [List.length_nil, Nat.add_zero, List.append_nil, true_and]; intro j h1 h2; omega
    | some msg =>
      simp only [List.length_cons]
      have h1 := ih (n + 1) (by omega)
      have hs : getMsg sent n = some msg := by rw [← hh n hn]; exact hg
      constructor
      · have : n + ((collect heap f (n + 1)).length + 1) = (n + 1) + (collect heap f (n + 1)).length := by omega
        rw [this, h1.1]
        simp [inOrder, hs]
      · intro j hj1 hj2
        by_cases hjn : j = n
        · subst hjn; simp [hs]
        · exact h1.2 j (by omega) (by omega)

theorem collect_ne_nil {heap : List (Nat × Msg)} {n : Nat} (h : hasNum heap n = true) :
    collect heap heap.length n ≠ [] := by
  cases heap with
  | nil => simp [hasNum] at h
  | cons a r =>
    rw [hasNum_iff_getMsg] at h
    simp only [List.length_cons, collect]
    cases hg : getMsg (a :: r) n with
    | none => simp [hg] at h
    | some m => simp

/-! ### delivery to the consumer; what `_can_fetch` depends on -/

def tailOf : RPc → List Msg
  | .read => []
  | .futW p => p
  | .done r => .stop :: r
  | .dead _ => []

theorem deliver_spec (fd : List Nat) (msgs g : List Msg) (hg : Msg.stop ∉ g) :
    Msg.stop ∉ (deliver fd msgs g).got ∧ (deliver fd msgs g).got ++ tailOf (deliver fd msgs g).pc = g ++ msgs := by
  induction msgs generalizing g with
  | nil => simp [deliver, tailOf, hg]
  | cons m r ih =>
    cases m with
    | stop => simp [deliver, tailOf, hg]
    | plain v =>
      simp only [deliver]
      have := ih (g ++ [.plain v]) (by simp [hg])
      simpa using this
    | fut id v =>
      simp only [deliver]
      split
      · have := ih (g ++ [.fut id v]) (by simp [hg])
        simpa using this
      · simp [tailOf, hg]

/-- what `_can_fetch` looks at -/
def MB.fetchView (mb : MB) : Bool × GateRule × List (Nat × Msg) × List (Option Nat × Bool) :=
  (mb.killed, mb.gateRule, mb.heap, mb.subs.map (fun s => (s.waitingFor, s.canDrive)))

theorem any_view (g : Option Nat → Bool → Bool) (la lb : List Sub)
    (h : la.map (fun s => (s.waitingFor, s.canDrive)) = lb.map (fun s => (s.waitingFor, s.canDrive))) :
    la.any (fun s => g s.waitingFor s.canDrive) = lb.any (fun s => g s.waitingFor s.canDrive) := by
  induction la generalizing lb with
  | nil => cases lb with
    | nil => rfl
    | cons b r => simp at h
  | cons a r ih => cases lb with
    | nil => simp at h
    | cons b r' =>
      simp only [List.map_cons, List.cons.injEq, Prod.mk.injEq] at h
      simp only [List.any_cons, h.1.1, h.1.2, ih r' h.2]

theorem canFetch_congr {a b : MB} (h : a.fetchView = b.fetchView) : a.canFetch = b.canFetch := by
  simp only [MB.fetchView, Prod.mk.injEq] at h
  obtain ⟨hk, hr, hh, hs⟩ := h
  have hd : a.driverWaits = b.driverWaits := any_view (fun w d => d && w.isSome) _ _ hs
  have hst : a.staleWaiter = b.staleWaiter := by
    simp only [MB.staleWaiter, hr, hh]
    exact any_view (fun w _ => staleTest b.gateRule b.heap w) _ _ hs
  simp only [MB.canFetch, hk, hd, hst]

/-! ### the mailbox-level invariant and the critical sections that preserve it -/

/-- the part of the invariant that only speaks about the mailbox and the log of pushed messages -/
structure MBInv (mb : MB) (sent : List (Nat × Msg)) : Prop where
  heapEq : ∀ k, minNext mb.subs ≤ k → getMsg mb.heap k = getMsg sent k
  capOk : ∀ c, mb.cap = some c → mb.heap.length ≤ c
  found : ∀ (i : Nat) (sub : Sub), mb.subs[i]? = some sub → ∀ j, j < sub.next → (getMsg sent j).isSome
  wakeR : ∀ (i : Nat) (sub : Sub), mb.subs[i]? = some sub → sub.flag = some false → hasNum mb.heap sub.next = false ∧ mb.killed = false
  wakeW : mb.writeFlag = some false → mb.canWrite = false
  wakeF : mb.fetchFlag = some false → mb.canFetch = false
  waitFor : ∀ (i : Nat) (sub : Sub), mb.subs[i]? = some sub → sub.waitingFor = (if sub.flag = none then none else some sub.next)
  eagerF : mb.lazy = false → mb.fetchFlag = none
  fk : mb.forceKilled = true → mb.killed = true

theorem MBInv.gateStep {mb mb' : MB} {sent} {ok : Bool} (h : MBInv mb sent) (hl : mb.lazy = true)
    (hs : mb.gateStep = some (ok, mb')) : MBInv mb' sent ∧ mb'.lazy = true ∧ (mb'.fetchFlag ≠ none → ok = false) ∧ mb'.writeFlag = mb.writeFlag
      ∧ mb'.subs = mb.subs := by
  simp only [MB.gateStep] at hs
  have hcf : ∀ f, ({ mb with fetchFlag := f } : MB).canFetch = mb.canFetch := fun f => canFetch_congr rfl
  split at hs
  · simp at hs
  · split at hs
    · simp only [Option.some.injEq, Prod.mk.injEq] at hs; obtain ⟨rfl, rfl⟩ := hs
      exact ⟨⟨h.heapEq, h.capOk, h.found, h.wakeR, h.wakeW, by simp, h.waitFor, by simp [hl], h.fk⟩, hl, by simp, rfl, rfl⟩
    · rename_i hc
      simp only [Option.some.injEq, Prod.mk.injEq] at hs; obtain ⟨rfl, rfl⟩ := hs
      exact ⟨⟨h.heapEq, h.capOk, h.found, h.wakeR, h.wakeW, by intro _; rw [hcf]; simpa using hc, h.waitFor, by simp [hl], h.fk⟩, hl, by simp, rfl, rfl⟩


theorem getMsg_append (l : List (Nat × Msg)) (n : Nat) (m : Msg) (k : Nat) :
    getMsg (l ++ [(n, m)]) k = if (getMsg l k).isSome then getMsg l k else if n = k then some m else none := by
  induction l with
  | nil => simp [getMsg]
  | cons a r ih =>
    simp only [List.cons_append, getMsg]
    by_cases h : a.1 = k
    · simp [h]
    · simp [h, ih]

theorem getElem?_map_notify {subs : List Sub} {i : Nat} {s' : Sub} (h : (subs.map Sub.notify)[i]? = some s') :
    ∃ s, subs[i]? = some s ∧ s' = s.notify := by
  rw [List.getElem?_map] at h
  cases hs : subs[i]? with
  | none => simp [hs] at h
  | some s => simp [hs] at h; exact ⟨s, rfl, h.symm⟩

theorem notifyFlag_ne (f : Option Bool) : notifyFlag f ≠ some false := by
  cases f <;> simp [notifyFlag]

theorem notifyFlag_none (f : Option Bool) : notifyFlag f = none ↔ f = none := by
  cases f <;> simp [notifyFlag]

/-- `notify_all` on the three conditions + setting the kill flags keeps the invariant -/
theorem MBInv.kill {mb : MB} {sent} (h : MBInv mb sent) (up : Bool) : MBInv (mb.kill up) sent := by
  have key : ∀ (fk : Bool), (fk = true → mb.killed = true ∨ True) →
      MBInv (({ mb with forceKilled := fk, killed := true } : MB).notifyRead.notifyWrite.notifyFetch) sent := by
    intro fk _
    refine ⟨?_, ?_, ?_, ?_, ?_, ?_, ?_, ?_, ?_⟩
    · intro k hk; simp only [MB.notifyFetch, MB.notifyWrite, MB.notifyRead, minNext_map_notify] at hk ⊢; exact h.heapEq k hk
    · exact h.capOk
    · intro i s' hs' j hj
      obtain ⟨s, hs, rfl⟩ := getElem?_map_notify hs'
      exact h.found i s hs j (by simpa [Sub.notify] using hj)
    · intro i s' hs' hf
      obtain ⟨s, hs, rfl⟩ := getElem?_map_notify hs'
      exact absurd hf (notifyFlag_ne _)
    · intro hf; exact absurd hf (notifyFlag_ne _)
    · intro hf; exact absurd hf (notifyFlag_ne _)
    · intro i s' hs'
      obtain ⟨s, hs, rfl⟩ := getElem?_map_notify hs'
      have := h.waitFor i s hs
      simp only [Sub.notify, notifyFlag_none]; exact this
    · intro hl; simp only [MB.notifyFetch, MB.notifyWrite, MB.notifyRead, notifyFlag_none]; exact h.eagerF hl
    · intro _; rfl
  have hfk1 : mb.killed = true → MBInv ({ mb with forceKilled := true } : MB) sent := fun hk =>
    ⟨h.heapEq, h.capOk, h.found, h.wakeR, h.wakeW, h.wakeF, h.waitFor, h.eagerF, fun _ => hk⟩
  cases up with
  | true =>
    by_cases hk : mb.killed = true
    · have e : mb.kill true = { mb with forceKilled := true } := by simp [MB.kill, hk]
      rw [e]; exact hfk1 hk
    · have e : mb.kill true = ({ mb with forceKilled := true, killed := true } : MB).notifyRead.notifyWrite.notifyFetch := by
        simp [MB.kill, hk]
      rw [e]; exact key true (fun _ => Or.inr trivial)
  | false =>
    by_cases hk : mb.killed = true
    · have e : mb.kill false = mb := by simp [MB.kill, hk]
      rw [e]; exact h
    · have hfk : mb.forceKilled = false := by
        cases hf : mb.forceKilled with
        | false => rfl
        | true => exact absurd (h.fk hf) hk
      have e : mb.kill false = ({ mb with forceKilled := false, killed := true } : MB).notifyRead.notifyWrite.notifyFetch := by
        simp [MB.kill, hk, hfk]
      rw [e]; exact key false (fun h => by cases h)

/-- shape facts about `kill` needed at the thread level -/
theorem kill_shape (mb : MB) (up : Bool) :
    (mb.kill up).lazy = mb.lazy ∧ ((mb.kill up).writeFlag = none ↔ mb.writeFlag = none) ∧
    ((mb.kill up).fetchFlag = none ↔ mb.fetchFlag = none) ∧ (mb.kill up).heap = mb.heap ∧
    (mb.kill up).cap = mb.cap ∧
    ((mb.kill up).subs = mb.subs ∨ (mb.kill up).subs = mb.subs.map Sub.notify) := by
  simp only [MB.kill]
  cases up <;> by_cases hk : mb.killed = true <;>
    simp [hk, MB.notifyFetch, MB.notifyWrite, MB.notifyRead, notifyFlag_none]


theorem MBInv.push {mb : MB} {sent} (h : MBInv mb sent) (hf : mb.fetchFlag = none) (hk : mb.killed = false)
    (hw : mb.canWrite = true) (n : Nat) (m : Msg) : MBInv (mb.push n m) (sent ++ [(n, m)]) := by
  refine ⟨?_, ?_, ?_, ?_, ?_, ?_, ?_, ?_, ?_⟩
  · intro k hk'
    simp only [MB.push, MB.notifyRead, minNext_map_notify] at hk' ⊢
    rw [getMsg_append, getMsg_append, h.heapEq k hk']
  · intro c hc
    simp only [MB.push, MB.notifyRead] at hc ⊢
    simp only [MB.canWrite, hc, hk, Bool.or_false, decide_eq_true_eq] at hw
    simp only [List.length_append, List.length_cons, List.length_nil]; omega
  · intro i s' hs' j hj
    obtain ⟨s, hs, rfl⟩ := getElem?_map_notify hs'
    rw [getMsg_append_of_isSome (h.found i s hs j (by simpa [Sub.notify] using hj))]
    exact h.found i s hs j (by simpa [Sub.notify] using hj)
  · intro i s' hs' hfl
    obtain ⟨s, hs, rfl⟩ := getElem?_map_notify hs'
    exact absurd hfl (notifyFlag_ne _)
  · intro hfl; simp [MB.push, MB.notifyRead] at hfl
  · intro hfl; simp [MB.push, MB.notifyRead, hf] at hfl
  · intro i s' hs'
    obtain ⟨s, hs, rfl⟩ := getElem?_map_notify hs'
    have := h.waitFor i s hs
    simp only [Sub.notify, notifyFlag_none]; exact this
  · intro _; simp [MB.push, MB.notifyRead, hf]
  · exact h.fk

/-- the log after a `sendStep` -/
def sentAfter (sent : List (Nat × Msg)) (m : Msg) : SendOut → List (Nat × Msg)
  | .sent n => sent ++ [(n, m)]
  | _ => sent

theorem MBInv.sendCore {mb mb' : MB} {sent} {n : Nat} {m : Msg} {out : SendOut}
    (h : MBInv mb sent) (hf : mb.fetchFlag = none) (hs : mb.sendCore n m = some (out, mb')) :
    MBInv mb' (sentAfter sent m out) ∧ mb'.lazy = mb.lazy ∧ mb'.fetchFlag = none ∧
    (mb'.writeFlag ≠ none → ∃ n, out = .waiting n) ∧
    (mb'.subs = mb.subs ∨ mb'.subs = mb.subs.map Sub.notify) := by
  have hsame : ∀ (w : Option Bool), (w = some false → mb.canWrite = false) →
      MBInv ({ mb with writeFlag := w } : MB) sent := fun w hw =>
    ⟨h.heapEq, h.capOk, h.found, h.wakeR, hw, h.wakeF, h.waitFor, h.eagerF, h.fk⟩
  have hpush : ∀ n, mb.killed = false → mb.canWrite = true →
      MBInv (mb.push n m) (sentAfter sent m (.sent n)) ∧ (mb.push n m).lazy = mb.lazy ∧ (mb.push n m).fetchFlag = none ∧
      ((mb.push n m).writeFlag ≠ none → ∃ k, SendOut.sent n = .waiting k) ∧
      ((mb.push n m).subs = mb.subs ∨ (mb.push n m).subs = mb.subs.map Sub.notify) := fun n hk hw =>
    ⟨h.push hf hk hw n m, rfl, by simp [MB.push, MB.notifyRead, hf], by simp [MB.push, MB.notifyRead], Or.inr rfl⟩
  simp only [MB.sendCore] at hs
  split at hs
  · simp at hs
  · rename_i hwf
    split at hs
    · simp only [Option.some.injEq, Prod.mk.injEq] at hs; obtain ⟨rfl, rfl⟩ := hs
      exact ⟨h, rfl, hf, by simp [hwf], Or.inl rfl⟩
    · split at hs
      · simp only [Option.some.injEq, Prod.mk.injEq] at hs; obtain ⟨rfl, rfl⟩ := hs
        exact ⟨h, rfl, hf, by simp [hwf], Or.inl rfl⟩
      · split at hs
        · simp only [Option.some.injEq, Prod.mk.injEq] at hs; obtain ⟨rfl, rfl⟩ := hs
          exact ⟨h, rfl, hf, by simp [hwf], Or.inl rfl⟩
        · split at hs
          · simp only [Option.some.injEq, Prod.mk.injEq] at hs; obtain ⟨rfl, rfl⟩ := hs
            exact ⟨h, rfl, hf, by simp [hwf], Or.inl rfl⟩
          · rename_i hk _
            split at hs
            · rename_i hw
              simp only [Option.some.injEq, Prod.mk.injEq] at hs; obtain ⟨rfl, rfl⟩ := hs
              exact hpush _ (by simpa using hk) hw
            · rename_i hw
              simp only [Option.some.injEq, Prod.mk.injEq] at hs; obtain ⟨rfl, rfl⟩ := hs
              exact ⟨hsame _ (fun _ => by simpa using hw), rfl, hf, fun _ => ⟨_, rfl⟩, Or.inl rfl⟩
  · split at hs
    · rename_i hw
      simp only [Option.some.injEq, Prod.mk.injEq] at hs; obtain ⟨rfl, rfl⟩ := hs
      exact ⟨hsame _ (fun _ => by simpa using hw), rfl, hf, fun _ => ⟨_, rfl⟩, Or.inl rfl⟩
    · rename_i hw
      split at hs
      · split at hs
        · simp only [Option.some.injEq, Prod.mk.injEq] at hs; obtain ⟨rfl, rfl⟩ := hs
          exact ⟨hsame _ (by simp), rfl, hf, by simp, Or.inl rfl⟩
        · simp only [Option.some.injEq, Prod.mk.injEq] at hs; obtain ⟨rfl, rfl⟩ := hs
          exact ⟨hsame _ (by simp), rfl, hf, by simp, Or.inl rfl⟩
      · rename_i hk
        simp only [Option.some.injEq, Prod.mk.injEq] at hs; obtain ⟨rfl, rfl⟩ := hs
        exact hpush _ (by simpa using hk) (by simpa using hw)


theorem MBInv.sendStep {mb mb' : MB} {sent} {num : Option Nat} {m : Msg} {out : SendOut}
    (h : MBInv mb sent) (hf : mb.fetchFlag = none) (hs : mb.sendStep num m = some (out, mb')) :
    MBInv mb' (sentAfter sent m out) ∧ mb'.lazy = mb.lazy ∧ mb'.fetchFlag = none ∧
    (mb'.writeFlag ≠ none → ∃ n, out = .waiting n) ∧
    (mb'.subs = mb.subs ∨ mb'.subs = mb.subs.map Sub.notify) := by
  unfold MB.sendStep at hs
  exact h.sendCore hf hs


/-! ### the reader's critical section -/

/-- the invariant without the two wake-up clauses that a reader re-establishes by notifying -/
structure MBCore (mb : MB) (sent : List (Nat × Msg)) : Prop where
  heapEq : ∀ k, minNext mb.subs ≤ k → getMsg mb.heap k = getMsg sent k
  capOk : ∀ c, mb.cap = some c → mb.heap.length ≤ c
  found : ∀ (i : Nat) (sub : Sub), mb.subs[i]? = some sub → ∀ j, j < sub.next → (getMsg sent j).isSome
  wakeR : ∀ (i : Nat) (sub : Sub), mb.subs[i]? = some sub → sub.flag = some false → hasNum mb.heap sub.next = false ∧ mb.killed = false
  waitFor : ∀ (i : Nat) (sub : Sub), mb.subs[i]? = some sub → sub.waitingFor = (if sub.flag = none then none else some sub.next)
  eagerF : mb.lazy = false → mb.fetchFlag = none
  fk : mb.forceKilled = true → mb.killed = true

theorem MBInv.core {mb : MB} {sent} (h : MBInv mb sent) : MBCore mb sent :=
  ⟨h.heapEq, h.capOk, h.found, h.wakeR, h.waitFor, h.eagerF, h.fk⟩

theorem MBCore.inv {mb : MB} {sent} (h : MBCore mb sent) (hw : mb.writeFlag = some false → mb.canWrite = false)
    (hf : mb.fetchFlag = some false → mb.canFetch = false) : MBInv mb sent :=
  ⟨h.heapEq, h.capOk, h.found, h.wakeR, hw, hf, h.waitFor, h.eagerF, h.fk⟩

@[simp] theorem nfic_subs (mb : MB) : mb.notifyFetchIfCan.subs = mb.subs := by unfold MB.notifyFetchIfCan; split <;> rfl
@[simp] theorem nfic_heap (mb : MB) : mb.notifyFetchIfCan.heap = mb.heap := by unfold MB.notifyFetchIfCan; split <;> rfl
@[simp] theorem nfic_cap (mb : MB) : mb.notifyFetchIfCan.cap = mb.cap := by unfold MB.notifyFetchIfCan; split <;> rfl
@[simp] theorem nfic_killed (mb : MB) : mb.notifyFetchIfCan.killed = mb.killed := by unfold MB.notifyFetchIfCan; split <;> rfl
@[simp] theorem nfic_fk (mb : MB) : mb.notifyFetchIfCan.forceKilled = mb.forceKilled := by unfold MB.notifyFetchIfCan; split <;> rfl
@[simp] theorem nfic_lazy (mb : MB) : mb.notifyFetchIfCan.lazy = mb.lazy := by unfold MB.notifyFetchIfCan; split <;> rfl
@[simp] theorem nfic_write (mb : MB) : mb.notifyFetchIfCan.writeFlag = mb.writeFlag := by unfold MB.notifyFetchIfCan; split <;> rfl
@[simp] theorem nfic_rule (mb : MB) : mb.notifyFetchIfCan.gateRule = mb.gateRule := by unfold MB.notifyFetchIfCan; split <;> rfl
@[simp] theorem nfic_nsent (mb : MB) : mb.notifyFetchIfCan.nSent = mb.nSent := by unfold MB.notifyFetchIfCan; split <;> rfl
@[simp] theorem nfic_closed (mb : MB) : mb.notifyFetchIfCan.closed = mb.closed := by unfold MB.notifyFetchIfCan; split <;> rfl
theorem nfic_fetch_none (mb : MB) : mb.notifyFetchIfCan.fetchFlag = none ↔ mb.fetchFlag = none := by
  unfold MB.notifyFetchIfCan; split <;> simp [MB.notifyFetch, notifyFlag_none]
theorem nfic_canFetch (mb : MB) : mb.notifyFetchIfCan.canFetch = mb.canFetch :=
  canFetch_congr (by simp [MB.fetchView])
theorem canWrite_congr {a b : MB} (h1 : a.cap = b.cap) (h2 : a.heap = b.heap) (h3 : a.killed = b.killed) :
    a.canWrite = b.canWrite := by simp [MB.canWrite, h1, h2, h3]

/-- `if lazy and can_fetch: notify_all(fetch)` re-establishes the fetch wake-up clause -/
theorem MBCore.nfic {mb : MB} {sent} (h : MBCore mb sent) :
    MBCore mb.notifyFetchIfCan sent ∧ (mb.notifyFetchIfCan.fetchFlag = some false → mb.notifyFetchIfCan.canFetch = false) := by
  refine ⟨⟨by simpa using h.heapEq, by simpa using h.capOk, by simpa using h.found, by simpa using h.wakeR,
    by simpa using h.waitFor, ?_, by simpa using h.fk⟩, ?_⟩
  · intro hl; rw [nfic_fetch_none]; exact h.eagerF (by simpa using hl)
  · intro hf
    rw [nfic_canFetch]
    cases hl : mb.lazy with
    | false =>
      have := (nfic_fetch_none mb).mpr (h.eagerF hl); rw [this] at hf; cases hf
    | true =>
      cases hc : mb.canFetch with
      | false => rfl
      | true =>
        simp only [MB.notifyFetchIfCan, hl, hc, Bool.and_self, if_true, MB.notifyFetch] at hf
        exact absurd hf (notifyFlag_ne _)

theorem MBCore.setSub {mb : MB} {sent} {i : Nat} {sub s' : Sub} (h : MBCore mb sent) (hi : mb.subs[i]? = some sub)
    (hn : s'.next = sub.next)
    (hwr : s'.flag = some false → hasNum mb.heap sub.next = false ∧ mb.killed = false)
    (hwf : s'.waitingFor = (if s'.flag = none then none else some s'.next)) :
    MBCore ({ mb with subs := mb.subs.set i s' } : MB) sent := by
  have hlt : i < mb.subs.length := (List.getElem?_eq_some_iff.mp hi).1
  have hget : ∀ (j : Nat) (s : Sub), (mb.subs.set i s')[j]? = some s → (j = i ∧ s = s') ∨ (j ≠ i ∧ mb.subs[j]? = some s) := by
    intro j s hs
    rw [List.getElem?_set] at hs
    by_cases hij : i = j
    · subst hij; simp [hlt] at hs; exact Or.inl ⟨rfl, hs.symm⟩
    · simp [hij] at hs; exact Or.inr ⟨fun e => hij e.symm, hs⟩
  refine ⟨?_, h.capOk, ?_, ?_, ?_, h.eagerF, h.fk⟩
  · intro k hk
    simp only [minNext_set_same hi hn] at hk
    exact h.heapEq k hk
  · intro j s hs k hk
    rcases hget j s hs with ⟨_, rfl⟩ | ⟨_, hs⟩
    · exact h.found i sub hi k (by omega)
    · exact h.found j s hs k hk
  · intro j s hs hf
    rcases hget j s hs with ⟨_, rfl⟩ | ⟨_, hs⟩
    · rw [hn]; exact hwr hf
    · exact h.wakeR j s hs hf
  · intro j s hs
    rcases hget j s hs with ⟨_, rfl⟩ | ⟨_, hs⟩
    · exact hwf
    · exact h.waitFor j s hs

theorem MBCore.take {mb : MB} {sent} {i : Nat} {sub : Sub} (h : MBCore mb sent) (hi : mb.subs[i]? = some sub) (msgs : List Msg)
    (hm : msgs = collect mb.heap mb.heap.length sub.next) :
    MBCore ({ mb with subs := mb.subs.set i { sub with next := sub.next + msgs.length, waitingFor := none, flag := none },
                       heap := gc mb.heap (mb.subs.set i { sub with next := sub.next + msgs.length, waitingFor := none, flag := none }) } : MB) sent
    ∧ inOrder sent (sub.next + msgs.length) = inOrder sent sub.next ++ msgs := by
  have hlt : i < mb.subs.length := (List.getElem?_eq_some_iff.mp hi).1
  have hmem : sub ∈ mb.subs := List.mem_of_getElem? hi
  have hmin : minNext mb.subs ≤ sub.next := minNext_le_of_mem hmem
  have hspec := collect_spec h.heapEq mb.heap.length sub.next hmin
  rw [← hm] at hspec
  generalize hs' : ({ sub with next := sub.next + msgs.length, waitingFor := none, flag := none } : Sub) = s'
  have hmono : minNext mb.subs ≤ minNext (mb.subs.set i s') := minNext_set_mono hi (by subst hs'; simp)
  have hget : ∀ (j : Nat) (s : Sub), (mb.subs.set i s')[j]? = some s → (j = i ∧ s = s') ∨ (j ≠ i ∧ mb.subs[j]? = some s) := by
    intro j s hs
    rw [List.getElem?_set] at hs
    by_cases hij : i = j
    · subst hij; simp [hlt] at hs; exact Or.inl ⟨rfl, hs.symm⟩
    · simp [hij] at hs; exact Or.inr ⟨fun e => hij e.symm, hs⟩
  refine ⟨⟨?_, ?_, ?_, ?_, ?_, h.eagerF, h.fk⟩, hspec.1⟩
  · intro k hk
    simp only [gc] at hk ⊢
    rw [getMsg_filter hk]
    exact h.heapEq k (by omega)
  · intro c hc
    have := h.capOk c hc
    have h2 : (gc mb.heap (mb.subs.set i s')).length ≤ mb.heap.length := List.length_filter_le _ _
    simp only at this h2 ⊢; omega
  · intro j s hs k hk
    rcases hget j s hs with ⟨_, rfl⟩ | ⟨_, hs⟩
    · subst hs'
      simp only at hk
      by_cases hlt2 : k < sub.next
      · exact h.found i sub hi k hlt2
      · exact hspec.2 k (by omega) hk
    · exact h.found j s hs k hk
  · intro j s hs hf
    rcases hget j s hs with ⟨_, rfl⟩ | ⟨_, hs⟩
    · subst hs'; simp at hf
    · have := h.wakeR j s hs hf
      refine ⟨?_, this.2⟩
      cases hh : hasNum (gc mb.heap (mb.subs.set i s')) s.next with
      | false => rfl
      | true => rw [hasNum_filter_le _ _ _ hh] at this; exact absurd this.1 (by simp)
  · intro j s hs
    rcases hget j s hs with ⟨_, rfl⟩ | ⟨_, hs⟩
    · subst hs'; simp
    · exact h.waitFor j s hs


theorem map_set_same {α β} (f : α → β) (l : List α) (i : Nat) (a a' : α) (hi : l[i]? = some a) (hf : f a' = f a) :
    (l.set i a').map f = l.map f := by
  induction l generalizing i with
  | nil => rfl
  | cons b r ih =>
    cases i with
    | zero => simp at hi; subst hi; simp [hf]
    | succ j => simp at hi; simp [ih j hi]

/-- what a reader's critical section returns, for the thread level -/
def ReadPost (sent : List (Nat × Msg)) (sub s' : Sub) : ReadOut → Prop
  | .waiting => s'.next = sub.next ∧ s'.flag = some false
  | .killed => s'.next = sub.next ∧ s'.flag = none
  | .took msgs => s'.next = sub.next + msgs.length ∧ s'.flag = none ∧ msgs ≠ [] ∧
      inOrder sent (sub.next + msgs.length) = inOrder sent sub.next ++ msgs

theorem MBInv.readStep {mb mb' : MB} {sent} {i : Nat} {out : ReadOut} (h : MBInv mb sent)
    (hs : mb.readStep i = some (out, mb')) :
    MBInv mb' sent ∧ mb'.lazy = mb.lazy ∧ (mb'.writeFlag = none ↔ mb.writeFlag = none) ∧
    (mb'.fetchFlag = none ↔ mb.fetchFlag = none) ∧
    ∃ sub s', mb.subs[i]? = some sub ∧ mb'.subs = mb.subs.set i s' ∧ sub.flag ≠ some false ∧ ReadPost sent sub s' out := by
  simp only [MB.readStep] at hs
  split at hs
  · simp at hs
  · rename_i sub hi
    split at hs
    · simp at hs
    · rename_i flag hflag
      split at hs
      · -- not ready
        rename_i hnr
        have hnr' : hasNum mb.heap sub.next = false ∧ mb.killed = false := by
          simpa [Bool.or_eq_false_iff] using hnr
        split at hs
        · -- enter the wait
          rename_i hfn
          simp only [Option.some.injEq, Prod.mk.injEq] at hs; obtain ⟨rfl, rfl⟩ := hs
          have hc := (h.core.setSub (s' := { sub with waitingFor := some sub.next, flag := some false }) hi rfl
            (fun _ => hnr') (by simp)).nfic
          refine ⟨hc.1.inv ?_ hc.2, by simp [MB.readWaitEnter], by simp [MB.readWaitEnter],
            by simp only [MB.readWaitEnter, nfic_fetch_none], sub, { sub with waitingFor := some sub.next, flag := some false }, hi,
            by simp [MB.readWaitEnter], by simp [hfn], ⟨rfl, rfl⟩⟩
          intro hw
          simp only [nfic_write] at hw
          rw [canWrite_congr (b := mb) (by simp) (by simp) (by simp)]
          exact h.wakeW hw
        · -- notified, still not there: wait again
          rename_i b hfs
          simp only [Option.some.injEq, Prod.mk.injEq] at hs; obtain ⟨rfl, rfl⟩ := hs
          have hwf0 := h.waitFor i sub hi
          have hc := h.core.setSub (s' := { sub with flag := some false }) hi rfl (fun _ => hnr')
            (by simp only [hwf0, hfs]; simp)
          refine ⟨hc.inv h.wakeW ?_, rfl, Iff.rfl, Iff.rfl, sub, { sub with flag := some false }, hi, rfl, hflag, ⟨rfl, rfl⟩⟩
          intro hf
          rw [canFetch_congr (b := mb) ?_]; exact h.wakeF hf
          simp only [MB.fetchView]
          rw [map_set_same (fun s => (s.waitingFor, s.canDrive)) mb.subs i sub { sub with flag := some false } hi rfl]
      · split at hs
        · -- killed
          rename_i hk
          simp only [Option.some.injEq, Prod.mk.injEq] at hs; obtain ⟨rfl, rfl⟩ := hs
          have hc := h.core.setSub (s' := { sub with waitingFor := none, flag := none }) hi rfl (by simp) (by simp)
          refine ⟨hc.inv h.wakeW ?_, rfl, Iff.rfl, Iff.rfl, sub, { sub with waitingFor := none, flag := none }, hi, rfl, hflag, ⟨rfl, rfl⟩⟩
          intro hf
          have : mb.canFetch = true := by simp [MB.canFetch, hk]
          rw [h.wakeF hf] at this; cases this
        · -- take
          rename_i hready hk
          simp only [Option.some.injEq, Prod.mk.injEq] at hs; obtain ⟨rfl, rfl⟩ := hs
          have hk' : mb.killed = false := by simpa using hk
          have hhas : hasNum mb.heap sub.next = true := by simpa [hk'] using hready
          have ht := h.core.take hi _ rfl
          have hc := ht.1.nfic
          refine ⟨⟨?_, ?_, ?_, ?_, ?_, ?_, ?_, ?_, ?_⟩, by simp [MB.readTake, MB.notifyWrite],
            by simp [MB.readTake, MB.notifyWrite, notifyFlag_none],
            by simp only [MB.readTake, MB.notifyWrite, nfic_fetch_none], sub,
            { sub with next := sub.next + (collect mb.heap mb.heap.length sub.next).length, waitingFor := none, flag := none },
            hi, by simp [MB.readTake, MB.notifyWrite], hflag, ⟨rfl, rfl, collect_ne_nil hhas, ht.2⟩⟩
          · simpa [MB.readTake, MB.notifyWrite] using hc.1.heapEq
          · simpa [MB.readTake, MB.notifyWrite] using hc.1.capOk
          · simpa [MB.readTake, MB.notifyWrite] using hc.1.found
          · simpa [MB.readTake, MB.notifyWrite] using hc.1.wakeR
          · intro hw; simp only [MB.readTake, MB.notifyWrite] at hw; exact absurd hw (notifyFlag_ne _)
          · intro hf
            simp only [MB.readTake, MB.notifyWrite] at hf ⊢
            rw [← hc.2 hf]
            exact canFetch_congr rfl
          · simpa [MB.readTake, MB.notifyWrite] using hc.1.waitFor
          · simpa [MB.readTake, MB.notifyWrite] using hc.1.eagerF
          · simpa [MB.readTake, MB.notifyWrite] using hc.1.fk

/-! ### the system-level invariant -/

/-- reader threads vs their mailbox entries: delivery and "who holds a waiter flag is inside `_read`" -/
structure RInv (subs : List Sub) (readers : List Reader) (sent : List (Nat × Msg)) : Prop where
  len : readers.length = subs.length
  deliv : ∀ (i : Nat) (sub : Sub) (r : Reader), subs[i]? = some sub → readers[i]? = some r →
    Msg.stop ∉ r.got ∧ r.got ++ tailOf r.pc = inOrder sent sub.next
  flagPc : ∀ (i : Nat) (sub : Sub) (r : Reader), subs[i]? = some sub → readers[i]? = some r → sub.flag ≠ none → r.pc = .read

/-- `subs'` is `subs` up to notification flags being raised -/
def SubsSim (subs subs' : List Sub) : Prop :=
  subs'.length = subs.length ∧
  ∀ (i : Nat) (s' : Sub), subs'[i]? = some s' → ∃ s, subs[i]? = some s ∧ s'.next = s.next ∧ (s'.flag ≠ none → s.flag ≠ none)

theorem SubsSim.refl (subs : List Sub) : SubsSim subs subs := ⟨rfl, fun _ s' h => ⟨s', h, rfl, id⟩⟩

theorem SubsSim.notify (subs : List Sub) : SubsSim subs (subs.map Sub.notify) := by
  refine ⟨by simp, fun i s' h => ?_⟩
  obtain ⟨s, hs, rfl⟩ := getElem?_map_notify h
  exact ⟨s, hs, rfl, by simp [Sub.notify, notifyFlag_none]⟩

theorem SubsSim.of_or {subs subs' : List Sub} (h : subs' = subs ∨ subs' = subs.map Sub.notify) : SubsSim subs subs' := by
  rcases h with rfl | rfl
  · exact SubsSim.refl _
  · exact SubsSim.notify _

theorem RInv.sim {subs subs' : List Sub} {readers sent} (h : RInv subs readers sent) (hs : SubsSim subs subs') :
    RInv subs' readers sent := by
  refine ⟨by rw [h.len, hs.1], ?_, ?_⟩
  · intro i s' r hs' hr
    obtain ⟨s, hsi, hn, _⟩ := hs.2 i s' hs'
    rw [hn]; exact h.deliv i s r hsi hr
  · intro i s' r hs' hr hf
    obtain ⟨s, hsi, _, hfl⟩ := hs.2 i s' hs'
    exact h.flagPc i s r hsi hr (hfl hf)

theorem RInv.append {subs : List Sub} {readers sent} (h : RInv subs readers sent) (e : Nat × Msg)
    (hf : ∀ (i : Nat) (sub : Sub), subs[i]? = some sub → ∀ j, j < sub.next → (getMsg sent j).isSome) :
    RInv subs readers (sent ++ [e]) := by
  refine ⟨h.len, ?_, h.flagPc⟩
  intro i s r hs hr
  rw [inOrder_append_stable (hf i s hs)]
  exact h.deliv i s r hs hr

/-- the inductive invariant of the whole system -/
structure Inv (s : Sys) : Prop where
  mb : MBInv s.mb s.sent
  rd : RInv s.mb.subs s.readers s.sent
  wPc : s.mb.writeFlag ≠ none → (∃ n m, s.spc = .send (some n) m) ∨ s.spc = .close
  fPc : s.mb.fetchFlag ≠ none → s.spc = .gate
  gateLazy : s.spc = .gate → s.mb.lazy = true

theorem Inv.init (c : Config) : Inv (init c) := by
  refine ⟨⟨?_, ?_, ?_, ?_, ?_, ?_, ?_, ?_, ?_⟩, ⟨?_, ?_, ?_⟩, ?_, ?_, ?_⟩
  · intro k _; rfl
  · intro c' _; simp [Mailbox.init]
  · intro i sub hs j hj
    simp only [Mailbox.init, List.getElem?_map] at hs
    cases hd : c.drive[i]? with
    | none => simp [hd] at hs
    | some d => simp [hd] at hs; subst hs; simp at hj
  · intro i sub hs hf
    simp only [Mailbox.init, List.getElem?_map] at hs
    cases hd : c.drive[i]? with
    | none => simp [hd] at hs
    | some d => simp [hd] at hs; subst hs; simp at hf
  · intro h; simp [Mailbox.init] at h
  · intro h; simp [Mailbox.init] at h
  · intro i sub hs
    simp only [Mailbox.init, List.getElem?_map] at hs
    cases hd : c.drive[i]? with
    | none => simp [hd] at hs
    | some d => simp [hd] at hs; subst hs; simp
  · intro _; rfl
  · intro h; simp [Mailbox.init] at h
  · simp [Mailbox.init]
  · intro i sub r hs hr
    simp only [Mailbox.init, List.getElem?_map] at hs hr
    cases hd : c.drive[i]? with
    | none => simp [hd] at hs
    | some d => simp [hd] at hs hr; subst hs; subst hr; simp [tailOf, inOrder]
  · intro i sub r hs hr hf
    simp only [Mailbox.init, List.getElem?_map] at hs hr
    cases hd : c.drive[i]? with
    | none => simp [hd] at hs
    | some d => simp [hd] at hs hr; subst hs; simp at hf
  · intro h; simp [Mailbox.init] at h
  · intro h; simp [Mailbox.init] at h
  · intro h
    simp only [Mailbox.init] at h ⊢
    cases hl : c.lazy with
    | true => rfl
    | false => simp [hl] at h


theorem MBInv.setClosed {mb : MB} {sent} (h : MBInv mb sent) : MBInv ({ mb with closed := true } : MB) sent :=
  ⟨h.heapEq, h.capOk, h.found, h.wakeR, h.wakeW, h.wakeF, h.waitFor, h.eagerF, h.fk⟩

theorem Inv.stepSender {s s' : Sys} (h : Inv s) (hs : stepSender s = some s') : Inv s' := by
  unfold Mailbox.stepSender at hs
  split at hs
  · -- gate
    rename_i hpc
    split at hs
    · simp at hs
    · rename_i ok mb hg
      simp only [Option.some.injEq] at hs; subst hs
      obtain ⟨hmb, hl, hff, hwf, hsubs⟩ := h.mb.gateStep (h.gateLazy hpc) hg
      have hw0 : s.mb.writeFlag = none := by
        cases hw : s.mb.writeFlag with
        | none => rfl
        | some b =>
          rcases h.wPc (by simp [hw]) with ⟨n, m, e⟩ | e <;> simp [hpc] at e
      refine ⟨hmb, by simpa [hsubs] using h.rd, ?_, ?_, ?_⟩
      · intro hw; simp only [hwf, hw0] at hw; exact absurd rfl hw
      · intro hf; simp only at hf ⊢; simp [hff hf]
      · intro _; exact hl
  · -- fetch
    rename_i hpc
    have hw0 : s.mb.writeFlag = none := by
      cases hw : s.mb.writeFlag with
      | none => rfl
      | some b => rcases h.wPc (by simp [hw]) with ⟨n, m, e⟩ | e <;> simp [hpc] at e
    have hf0 : s.mb.fetchFlag = none := by
      cases hf : s.mb.fetchFlag with
      | none => rfl
      | some b => have := h.fPc (by simp [hf]); simp [hpc] at this
    split at hs <;> (simp only [Option.some.injEq] at hs; subst hs) <;>
      exact ⟨h.mb, h.rd, fun hw => absurd hw0 hw, fun hf => absurd hf0 hf, fun e => by simp at e⟩
  · -- send
    rename_i num m hpc
    have hf0 : s.mb.fetchFlag = none := by
      cases hf : s.mb.fetchFlag with
      | none => rfl
      | some b => have := h.fPc (by simp [hf]); simp [hpc] at this
    split at hs
    · simp at hs
    · rename_i n mb hst
      simp only [Option.some.injEq] at hs; subst hs
      obtain ⟨hmb, hl, hff, hwf, hsubs⟩ := h.mb.sendStep hf0 hst
      refine ⟨hmb, ((h.rd.append _ h.mb.found).sim (SubsSim.of_or hsubs)), ?_, ?_, ?_⟩
      · intro hw; obtain ⟨k, hk⟩ := hwf hw; cases hk
      · intro hf; exact absurd hff hf
      · intro e; simp only [Sys.afterSend] at e ⊢; rw [hl]
        cases hz : s.mb.lazy with
        | true => rfl
        | false => simp [hz] at e
    · rename_i mb hst
      simp only [Option.some.injEq] at hs; subst hs
      obtain ⟨hmb, hl, hff, hwf, hsubs⟩ := h.mb.sendStep hf0 hst
      refine ⟨hmb, (h.rd.sim (SubsSim.of_or hsubs)), ?_, ?_, ?_⟩
      · intro hw; obtain ⟨k, hk⟩ := hwf hw; cases hk
      · intro hf; exact absurd hff hf
      · intro e; simp only [Sys.afterSend] at e ⊢; rw [hl]
        cases hz : s.mb.lazy with
        | true => rfl
        | false => simp [hz] at e
    · rename_i n mb hst
      simp only [Option.some.injEq] at hs; subst hs
      obtain ⟨hmb, hl, hff, hwf, hsubs⟩ := h.mb.sendStep hf0 hst
      exact ⟨hmb, (h.rd.sim (SubsSim.of_or hsubs)), fun _ => Or.inl ⟨n, m, rfl⟩, fun hf => absurd hff hf, fun e => by simp at e⟩
    · rename_i e mb hst
      simp only [Option.some.injEq] at hs; subst hs
      obtain ⟨hmb, hl, hff, hwf, hsubs⟩ := h.mb.sendStep hf0 hst
      refine ⟨hmb, (h.rd.sim (SubsSim.of_or hsubs)), ?_, fun hf => absurd hff hf, fun e => by simp at e⟩
      intro hw; obtain ⟨k, hk⟩ := hwf hw; cases hk
  · -- close
    rename_i hpc
    have hf0 : s.mb.fetchFlag = none := by
      cases hf : s.mb.fetchFlag with
      | none => rfl
      | some b => have := h.fPc (by simp [hf]); simp [hpc] at this
    split at hs
    · simp at hs
    · rename_i n mb hst
      simp only [Option.some.injEq] at hs; subst hs
      obtain ⟨hmb, hl, hff, hwf, hsubs⟩ := h.mb.sendStep hf0 hst
      refine ⟨hmb.setClosed, ((h.rd.append _ h.mb.found).sim (SubsSim.of_or hsubs)), ?_, fun hf => absurd hff hf, fun e => by simp at e⟩
      intro hw; obtain ⟨k, hk⟩ := hwf hw; cases hk
    · rename_i mb hst
      simp only [Option.some.injEq] at hs; subst hs
      obtain ⟨hmb, hl, hff, hwf, hsubs⟩ := h.mb.sendStep hf0 hst
      refine ⟨hmb.setClosed, (h.rd.sim (SubsSim.of_or hsubs)), ?_, fun hf => absurd hff hf, fun e => by simp at e⟩
      intro hw; obtain ⟨k, hk⟩ := hwf hw; cases hk
    · rename_i n mb hst
      simp only [Option.some.injEq] at hs; subst hs
      obtain ⟨hmb, hl, hff, hwf, hsubs⟩ := h.mb.sendStep hf0 hst
      exact ⟨hmb, (h.rd.sim (SubsSim.of_or hsubs)), fun _ => Or.inr hpc, fun hf => absurd hff hf, fun e => by simp [hpc] at e⟩
    · rename_i e mb hst
      simp only [Option.some.injEq] at hs; subst hs
      obtain ⟨hmb, hl, hff, hwf, hsubs⟩ := h.mb.sendStep hf0 hst
      refine ⟨hmb, (h.rd.sim (SubsSim.of_or hsubs)), ?_, fun hf => absurd hff hf, fun e => by simp at e⟩
      intro hw; obtain ⟨k, hk⟩ := hwf hw; cases hk
  · -- exc
    rename_i e hpc
    simp only [Option.some.injEq] at hs; subst hs
    obtain ⟨hl, hwn, hfn, _, _, hsubs⟩ := kill_shape s.mb true
    refine ⟨h.mb.kill true, h.rd.sim (SubsSim.of_or hsubs), ?_, ?_, ?_⟩
    · intro hw
      have := h.wPc (fun x => hw (hwn.mpr x))
      rcases this with ⟨n, m, e'⟩ | e' <;> simp [hpc] at e'
    · intro hf
      have := h.fPc (fun x => hf (hfn.mpr x))
      simp [hpc] at this
    · intro e'; simp only at e'; split at e' <;> cases e'
  · simp at hs
  · simp at hs


theorem getElem?_set_cases {α} {l : List α} {i j : Nat} {a x : α} (h : (l.set i a)[j]? = some x) :
    (j = i ∧ x = a ∧ i < l.length) ∨ (j ≠ i ∧ l[j]? = some x) := by
  rw [List.getElem?_set] at h
  by_cases hij : i = j
  · subst hij
    by_cases hlt : i < l.length
    · simp [hlt] at h; exact Or.inl ⟨rfl, h.symm, hlt⟩
    · simp [hlt] at h
  · simp [hij] at h; exact Or.inr ⟨fun e => hij e.symm, h⟩

theorem Inv.stepReader {s s' : Sys} {i : Nat} (h : Inv s) (hs : stepReader s i = some s') : Inv s' := by
  unfold Mailbox.stepReader at hs
  split at hs
  · simp at hs
  · rename_i r hr
    split at hs
    · -- inside `_read`
      rename_i hpc
      split at hs
      · simp at hs
      · -- waits
        rename_i mb hst
        simp only [Option.some.injEq] at hs; subst hs
        obtain ⟨hmb, hl, hwn, hfn, sub, s2, hi, hsubs, hfl, hpost⟩ := h.mb.readStep hst
        simp only [ReadPost] at hpost
        refine ⟨hmb, ⟨by simp [hsubs, h.rd.len], ?_, ?_⟩, fun hw => h.wPc (fun x => hw (hwn.mpr x)),
          fun hf => h.fPc (fun x => hf (hfn.mpr x)), fun e => by rw [hl]; exact h.gateLazy e⟩
        · intro j sj rj hsj hrj
          simp only [hsubs] at hsj
          rcases getElem?_set_cases hsj with ⟨rfl, rfl, _⟩ | ⟨_, hsj⟩
          · rw [hpost.1]; exact h.rd.deliv j sub rj hi hrj
          · exact h.rd.deliv j sj rj hsj hrj
        · intro j sj rj hsj hrj hf
          simp only [hsubs] at hsj
          rcases getElem?_set_cases hsj with ⟨rfl, rfl, _⟩ | ⟨_, hsj⟩
          · simp only at hrj; rw [hr] at hrj; cases hrj; exact hpc
          · exact h.rd.flagPc j sj rj hsj hrj hf
      · -- killed
        rename_i mb hst
        simp only [Option.some.injEq] at hs; subst hs
        obtain ⟨hmb, hl, hwn, hfn, sub, s2, hi, hsubs, hfl, hpost⟩ := h.mb.readStep hst
        simp only [ReadPost] at hpost
        refine ⟨hmb, ⟨by simp [hsubs, h.rd.len], ?_, ?_⟩, fun hw => h.wPc (fun x => hw (hwn.mpr x)),
          fun hf => h.fPc (fun x => hf (hfn.mpr x)), fun e => by rw [hl]; exact h.gateLazy e⟩
        · intro j sj rj hsj hrj
          simp only [hsubs] at hsj
          simp only at hrj
          rcases getElem?_set_cases hsj with ⟨rfl, rfl, _⟩ | ⟨hne, hsj⟩
          · rcases getElem?_set_cases hrj with ⟨_, rfl, _⟩ | ⟨hne, _⟩
            · have := h.rd.deliv j sub r hi hr
              rw [hpc] at this
              simpa [tailOf, hpost.1] using this
            · exact absurd rfl hne
          · rcases getElem?_set_cases hrj with ⟨e, _, _⟩ | ⟨_, hrj⟩
            · exact absurd e hne
            · exact h.rd.deliv j sj rj hsj hrj
        · intro j sj rj hsj hrj hf
          simp only [hsubs] at hsj
          simp only at hrj
          rcases getElem?_set_cases hsj with ⟨rfl, rfl, _⟩ | ⟨hne, hsj⟩
          · exact absurd hpost.2 hf
          · rcases getElem?_set_cases hrj with ⟨e, _, _⟩ | ⟨_, hrj⟩
            · exact absurd e hne
            · exact h.rd.flagPc j sj rj hsj hrj hf
      · -- took
        rename_i msgs mb hst
        simp only [Option.some.injEq] at hs; subst hs
        obtain ⟨hmb, hl, hwn, hfn, sub, s2, hi, hsubs, hfl, hpost⟩ := h.mb.readStep hst
        simp only [ReadPost] at hpost
        obtain ⟨hn2, hf2, _, hio⟩ := hpost
        refine ⟨hmb, ⟨by simp [hsubs, h.rd.len], ?_, ?_⟩, fun hw => h.wPc (fun x => hw (hwn.mpr x)),
          fun hf => h.fPc (fun x => hf (hfn.mpr x)), fun e => by rw [hl]; exact h.gateLazy e⟩
        · intro j sj rj hsj hrj
          simp only [hsubs] at hsj
          simp only at hrj
          rcases getElem?_set_cases hsj with ⟨rfl, rfl, _⟩ | ⟨hne, hsj⟩
          · rcases getElem?_set_cases hrj with ⟨_, rfl, _⟩ | ⟨hne, _⟩
            · have h0 := h.rd.deliv j sub r hi hr
              rw [hpc] at h0
              simp only [tailOf, List.append_nil] at h0
              have hd := deliver_spec s.futDone msgs r.got h0.1
              refine ⟨hd.1, ?_⟩
              rw [hd.2, hn2, hio, h0.2]
            · exact absurd rfl hne
          · rcases getElem?_set_cases hrj with ⟨e, _, _⟩ | ⟨_, hrj⟩
            · exact absurd e hne
            · exact h.rd.deliv j sj rj hsj hrj
        · intro j sj rj hsj hrj hf
          simp only [hsubs] at hsj
          simp only at hrj
          rcases getElem?_set_cases hsj with ⟨rfl, rfl, _⟩ | ⟨hne, hsj⟩
          · exact absurd hf2 hf
          · rcases getElem?_set_cases hrj with ⟨e, _, _⟩ | ⟨_, hrj⟩
            · exact absurd e hne
            · exact h.rd.flagPc j sj rj hsj hrj hf
    · -- waiting for a future
      rename_i pend hpc
      split at hs
      · rename_i id v rest
        split at hs
        · simp only [Option.some.injEq] at hs; subst hs
          refine ⟨h.mb, ⟨by simp [h.rd.len], ?_, ?_⟩, h.wPc, h.fPc, h.gateLazy⟩
          · intro j sj rj hsj hrj
            simp only at hrj
            rcases getElem?_set_cases hrj with ⟨rfl, rfl, _⟩ | ⟨_, hrj⟩
            · have h0 := h.rd.deliv j sj r hsj hr
              rw [hpc] at h0
              simp only [tailOf] at h0
              have hd := deliver_spec s.futDone (Msg.fut id v :: rest) r.got h0.1
              exact ⟨hd.1, by rw [hd.2, h0.2]⟩
            · exact h.rd.deliv j sj rj hsj hrj
          · intro j sj rj hsj hrj hf
            simp only at hrj
            rcases getElem?_set_cases hrj with ⟨rfl, rfl, _⟩ | ⟨_, hrj⟩
            · have := h.rd.flagPc j sj r hsj hr hf
              rw [hpc] at this; cases this
            · exact h.rd.flagPc j sj rj hsj hrj hf
        · simp at hs
      · simp at hs
    · simp at hs
    · simp at hs

theorem Inv.stepWorker {s s' : Sys} {j : Nat} (h : Inv s) (hs : stepWorker s j = some s') : Inv s' := by
  unfold Mailbox.stepWorker at hs
  split at hs
  · simp only [Option.some.injEq] at hs; subst hs
    exact ⟨h.mb, h.rd, h.wPc, h.fPc, h.gateLazy⟩
  · simp at hs

theorem Inv.stepKiller {s s' : Sys} {k : Nat} (h : Inv s) (hs : stepKiller s k = some s') : Inv s' := by
  unfold Mailbox.stepKiller at hs
  split at hs
  · rename_i up _
    simp only [Option.some.injEq] at hs; subst hs
    obtain ⟨hl, hwn, hfn, _, _, hsubs⟩ := kill_shape s.mb up
    exact ⟨h.mb.kill up, h.rd.sim (SubsSim.of_or hsubs), fun hw => h.wPc (fun x => hw (hwn.mpr x)),
      fun hf => h.fPc (fun x => hf (hfn.mpr x)), fun e => by rw [hl]; exact h.gateLazy e⟩
  · simp at hs

theorem Inv.step {s s' : Sys} {t : ThreadId} (h : Inv s) (hs : step s t = some s') : Inv s' := by
  cases t with
  | sender => exact h.stepSender hs
  | reader i => exact h.stepReader hs
  | worker j => exact h.stepWorker hs
  | killer k => exact h.stepKiller hs

theorem Inv.reachable {c : Config} {s : Sys} (h : Reachable c s) : Inv s := by
  induction h with
  | init => exact Inv.init c
  | step _ hs ih => exact ih.step hs

/-! ### static fields, shape of a read -/

/-- the configuration-determined part of a mailbox -/
def MB.static (mb : MB) : Option Nat × Bool × GateRule × List Bool :=
  (mb.cap, mb.lazy, mb.gateRule, mb.subs.map (fun s => s.canDrive))

theorem map_canDrive_notify (subs : List Sub) :
    (subs.map Sub.notify).map (fun s => s.canDrive) = subs.map (fun s => s.canDrive) := by
  induction subs with
  | nil => rfl
  | cons a r ih => simp only [List.map_cons, ih]; rfl

theorem notifyRead_static (mb : MB) : mb.notifyRead.static = mb.static := by
  simp only [MB.static, MB.notifyRead, map_canDrive_notify]

theorem kill_static (mb : MB) (up : Bool) : (mb.kill up).static = mb.static := by
  have key : ∀ (a : MB), a.notifyRead.notifyWrite.notifyFetch.static = a.static := fun a => notifyRead_static a
  simp only [MB.kill]
  cases up <;> by_cases hk : mb.killed = true
  · simp only [Bool.false_eq_true, if_false, hk, if_true]
  · simp only [Bool.false_eq_true, if_false, hk]; rw [key]; rfl
  · simp only [if_true, hk]; rfl
  · simp only [if_true, hk, Bool.false_eq_true, if_false]; rw [key]; rfl

theorem gateStep_static {mb mb' : MB} {ok : Bool} (hs : mb.gateStep = some (ok, mb')) : mb'.static = mb.static := by
  simp only [MB.gateStep] at hs
  split at hs
  · simp at hs
  · split at hs <;> (simp only [Option.some.injEq, Prod.mk.injEq] at hs; obtain ⟨_, rfl⟩ := hs; rfl)

theorem push_static (mb : MB) (n : Nat) (m : Msg) : (mb.push n m).static = mb.static := by
  simp only [MB.push]; rw [notifyRead_static]; rfl

theorem sendCore_static {mb mb' : MB} {n : Nat} {m : Msg} {out : SendOut} (hs : mb.sendCore n m = some (out, mb')) :
    mb'.static = mb.static := by
  simp only [MB.sendCore] at hs
  split at hs
  · simp at hs
  · repeat' split at hs
    all_goals (simp only [Option.some.injEq, Prod.mk.injEq] at hs; obtain ⟨_, rfl⟩ := hs)
    all_goals first | rfl | exact push_static _ _ _
  · repeat' split at hs
    all_goals (simp only [Option.some.injEq, Prod.mk.injEq] at hs; obtain ⟨_, rfl⟩ := hs)
    all_goals first | rfl | exact push_static _ _ _

theorem sendStep_static {mb mb' : MB} {num : Option Nat} {m : Msg} {out : SendOut} (hs : mb.sendStep num m = some (out, mb')) :
    mb'.static = mb.static := by
  unfold MB.sendStep at hs; exact sendCore_static hs

theorem map_set_canDrive (subs : List Sub) (i : Nat) (sub s2 : Sub) (hi : subs[i]? = some sub) (hc : s2.canDrive = sub.canDrive) :
    (subs.set i s2).map (fun s => s.canDrive) = subs.map (fun s => s.canDrive) :=
  map_set_same _ _ _ sub s2 hi hc

/-- shape of a reader's critical section (no invariant needed) -/
theorem readStep_shape {mb mb' : MB} {i : Nat} {out : ReadOut} (hs : mb.readStep i = some (out, mb')) :
    mb'.killed = mb.killed ∧ mb'.static = mb.static ∧ mb'.nSent = mb.nSent ∧ mb'.closed = mb.closed ∧
    mb'.forceKilled = mb.forceKilled ∧
    (∀ x, hasNum mb'.heap x = true → hasNum mb.heap x = true) ∧
    ∃ sub s2, mb.subs[i]? = some sub ∧ mb'.subs = mb.subs.set i s2 ∧ s2.canDrive = sub.canDrive ∧
      (match out with
       | .waiting => s2.waitingFor = (if sub.flag = none then some sub.next else sub.waitingFor) ∧ mb'.heap = mb.heap ∧
            hasNum mb.heap sub.next = false ∧ mb.killed = false
       | .killed => mb.killed = true
       | .took _ => hasNum mb.heap sub.next = true ∧ mb.killed = false ∧ s2.waitingFor = none) := by
  simp only [MB.readStep] at hs
  split at hs
  · simp at hs
  · rename_i sub hi
    split at hs
    · simp at hs
    · rename_i flag hflag
      split at hs
      · rename_i hnr
        have hnr' : hasNum mb.heap sub.next = false ∧ mb.killed = false := by
          simpa [Bool.or_eq_false_iff] using hnr
        split at hs
        · rename_i hfn
          simp only [Option.some.injEq, Prod.mk.injEq] at hs; obtain ⟨rfl, rfl⟩ := hs
          refine ⟨by simp [MB.readWaitEnter], ?_, by simp [MB.readWaitEnter], by simp [MB.readWaitEnter],
            by simp [MB.readWaitEnter], by simp [MB.readWaitEnter], sub,
            { sub with waitingFor := some sub.next, flag := some false }, hi, by simp [MB.readWaitEnter], rfl,
            by simp [hfn], by simp [MB.readWaitEnter], hnr'⟩
          simp only [MB.static, MB.readWaitEnter, nfic_cap, nfic_lazy, nfic_rule, nfic_subs]
          rw [map_set_canDrive _ _ sub { sub with waitingFor := some sub.next, flag := some false } hi rfl]
        · rename_i b hfs
          simp only [Option.some.injEq, Prod.mk.injEq] at hs; obtain ⟨rfl, rfl⟩ := hs
          refine ⟨rfl, ?_, rfl, rfl, rfl, fun _ h => h, sub, { sub with flag := some false }, hi, rfl, rfl,
            by simp [hfs], rfl, hnr'⟩
          simp only [MB.static, MB.readWaitAgain]
          rw [map_set_canDrive _ _ sub { sub with flag := some false } hi rfl]
      · split at hs
        · rename_i hk
          simp only [Option.some.injEq, Prod.mk.injEq] at hs; obtain ⟨rfl, rfl⟩ := hs
          refine ⟨rfl, ?_, rfl, rfl, rfl, fun _ h => h, sub, { sub with waitingFor := none, flag := none }, hi, rfl, rfl, hk⟩
          simp only [MB.static, MB.readKilled]
          rw [map_set_canDrive _ _ sub { sub with waitingFor := none, flag := none } hi rfl]
        · rename_i hready hk
          simp only [Option.some.injEq, Prod.mk.injEq] at hs; obtain ⟨rfl, rfl⟩ := hs
          have hk' : mb.killed = false := by simpa using hk
          have hhas : hasNum mb.heap sub.next = true := by simpa [hk'] using hready
          refine ⟨by simp [MB.readTake, MB.notifyWrite], ?_, by simp [MB.readTake, MB.notifyWrite],
            by simp [MB.readTake, MB.notifyWrite], by simp [MB.readTake, MB.notifyWrite], ?_, sub,
            { sub with next := sub.next + (collect mb.heap mb.heap.length sub.next).length, waitingFor := none, flag := none },
            hi, by simp [MB.readTake, MB.notifyWrite], rfl, hhas, hk', rfl⟩
          · simp only [MB.static, MB.readTake, MB.notifyWrite, nfic_cap, nfic_lazy, nfic_rule, nfic_subs]
            rw [map_set_canDrive _ _ sub
              { sub with next := sub.next + (collect mb.heap mb.heap.length sub.next).length, waitingFor := none, flag := none } hi rfl]
          · intro x hx
            simp only [MB.readTake, MB.notifyWrite, nfic_heap, gc] at hx
            exact hasNum_filter_le _ _ _ hx


/-! ### configuration-determined fields never change -/

def Static (c : Config) (s : Sys) : Prop := s.mb.static = (c.cap, c.lazy, c.gateRule, c.drive)

theorem Static.init (c : Config) : Static c (init c) := by
  simp [Static, MB.static, Mailbox.init, List.map_map, Function.comp_def]

theorem step_static {s s' : Sys} {t : ThreadId} (hs : step s t = some s') : s'.mb.static = s.mb.static := by
  cases t with
  | sender =>
    simp only [step, stepSender] at hs
    split at hs
    · split at hs
      · simp at hs
      · rename_i hg; simp only [Option.some.injEq] at hs; subst hs; exact gateStep_static hg
    · split at hs <;> (simp only [Option.some.injEq] at hs; subst hs; rfl)
    · split at hs
      · simp at hs
      all_goals (rename_i hst; simp only [Option.some.injEq] at hs; subst hs; exact sendStep_static hst)
    · split at hs
      · simp at hs
      all_goals (rename_i hst; simp only [Option.some.injEq] at hs; subst hs; exact (sendStep_static hst :))
    · simp only [Option.some.injEq] at hs; subst hs; exact kill_static _ _
    · simp at hs
    · simp at hs
  | reader i =>
    simp only [step, stepReader] at hs
    split at hs
    · simp at hs
    · split at hs
      · split at hs
        · simp at hs
        all_goals (rename_i hst; simp only [Option.some.injEq] at hs; subst hs; exact (readStep_shape hst).2.1)
      · split at hs
        · split at hs
          · simp only [Option.some.injEq] at hs; subst hs; rfl
          · simp at hs
        · simp at hs
      · simp at hs
      · simp at hs
  | worker j =>
    simp only [step, stepWorker] at hs
    split at hs
    · simp only [Option.some.injEq] at hs; subst hs; rfl
    · simp at hs
  | killer k =>
    simp only [step, stepKiller] at hs
    split at hs
    · simp only [Option.some.injEq] at hs; subst hs; exact kill_static _ _
    · simp at hs

theorem Static.reachable {c : Config} {s : Sys} (h : Reachable c s) : Static c s := by
  induction h with
  | init => exact Static.init c
  | step _ hs ih => unfold Static at ih ⊢; rw [step_static hs]; exact ih

/-! ### C13: the lazy fetch gate -/

/-- some driving subscriber waits for a number that is not in the heap -/
def GateOk (mb : MB) : Prop :=
  ∃ sub ∈ mb.subs, sub.canDrive = true ∧ ∃ x, sub.waitingFor = some x ∧ hasNum mb.heap x = false

/-- what the rule of today guarantees: the awaited number is missing OR something lower is still buffered -/
def GateWeak (mb : MB) : Prop :=
  ∃ sub ∈ mb.subs, sub.canDrive = true ∧ ∃ x, sub.waitingFor = some x ∧
    (hasNum mb.heap x = false ∨ ∃ e ∈ mb.heap, e.1 < x)

/-- decidable form of `GateOk` -/
def gateOkB (mb : MB) : Bool :=
  mb.subs.any fun sub => sub.canDrive && (match sub.waitingFor with
    | some x => !hasNum mb.heap x
    | none => false)

theorem gateOkB_iff (mb : MB) : gateOkB mb = true ↔ GateOk mb := by
  simp only [gateOkB, GateOk, List.any_eq_true, Bool.and_eq_true]
  constructor
  · rintro ⟨sub, hm, hd, hw⟩
    cases hx : sub.waitingFor with
    | none => simp [hx] at hw
    | some x => exact ⟨sub, hm, hd, x, hx, by simpa [hx] using hw⟩
  · rintro ⟨sub, hm, hd, x, hx, hn⟩
    exact ⟨sub, hm, hd, by simp [hx, hn]⟩

theorem canFetch_gateOk {mb : MB} (hc : mb.canFetch = true) (hk : mb.killed = false) (hr : mb.gateRule = .hasMsg) :
    GateOk mb := by
  simp only [MB.canFetch, hk, Bool.false_eq_true, if_false] at hc
  split at hc
  · cases hc
  · rename_i hst
    simp only [MB.driverWaits, List.any_eq_true, Bool.and_eq_true] at hc
    obtain ⟨sub, hmem, hd, hw⟩ := hc
    cases hx : sub.waitingFor with
    | none => simp [hx] at hw
    | some x =>
      refine ⟨sub, hmem, hd, x, hx, ?_⟩
      have : mb.staleWaiter = false := by simpa using hst
      simp only [MB.staleWaiter, List.any_eq_false] at this
      have h2 := this sub hmem
      simpa [staleTest, hx, hr] using h2

theorem canFetch_gateWeak {mb : MB} (hc : mb.canFetch = true) (hk : mb.killed = false) (hr : mb.gateRule = .lowest) :
    GateWeak mb := by
  simp only [MB.canFetch, hk, Bool.false_eq_true, if_false] at hc
  split at hc
  · cases hc
  · rename_i hst
    simp only [MB.driverWaits, List.any_eq_true, Bool.and_eq_true] at hc
    obtain ⟨sub, hmem, hd, hw⟩ := hc
    cases hx : sub.waitingFor with
    | none => simp [hx] at hw
    | some x =>
      refine ⟨sub, hmem, hd, x, hx, ?_⟩
      have : mb.staleWaiter = false := by simpa using hst
      simp only [MB.staleWaiter, List.any_eq_false] at this
      have h2 := this sub hmem
      simp only [staleTest, hx, hr, Bool.and_eq_true, Bool.not_eq_true', List.all_eq_true, decide_eq_true_eq, not_and] at h2
      cases hh : mb.heap with
      | nil => left; simp [hasNum]
      | cons a r =>
        right
        have h3 := h2 (by simp [hh])
        simp only [hh] at h3
        have : ∃ e ∈ a :: r, ¬ x ≤ e.1 := by
          apply Classical.byContradiction
          intro hcon
          apply h3
          intro e he
          apply Classical.byContradiction
          intro hne
          exact hcon ⟨e, he, hne⟩
        obtain ⟨e, he, hlt⟩ := this
        exact ⟨e, he, by omega⟩

theorem kill_killed (mb : MB) (up : Bool) : (mb.kill up).killed = true := by
  simp only [MB.kill]
  cases up <;> by_cases hk : mb.killed = true <;> simp [hk, MB.notifyFetch, MB.notifyWrite, MB.notifyRead]

/-- the fixed gate: from the decision to fetch until the fetch itself a driving subscriber keeps waiting
for a number that is not buffered -/
def Gate (s : Sys) : Prop :=
  s.spc = .fetch → s.mb.lazy = true → s.mb.killed = false → s.mb.gateRule = .hasMsg → GateOk s.mb

theorem Gate.init (c : Config) : Gate (init c) := by
  intro h1 h2
  simp only [Mailbox.init] at h1 h2
  simp [h2] at h1

theorem gateOk_readStep {mb mb' : MB} {sent} {i : Nat} {out : ReadOut} (hinv : MBInv mb sent)
    (hst : mb.readStep i = some (out, mb')) (hk : mb'.killed = false) (hg : GateOk mb) : GateOk mb' := by
  obtain ⟨hkk, _, _, _, _, hheap, sub, s2, hi, hsubs, hcd, hout⟩ := readStep_shape hst
  obtain ⟨d, hmem, hdrive, x, hwx, hnx⟩ := hg
  obtain ⟨k, hk1, hk2⟩ := List.getElem_of_mem hmem
  have hdk : mb.subs[k]? = some d := by rw [List.getElem?_eq_getElem hk1, hk2]
  have hnx' : hasNum mb'.heap x = false := by
    cases hh : hasNum mb'.heap x with
    | false => rfl
    | true => rw [hheap x hh] at hnx; cases hnx
  have hlt : i < mb.subs.length := (List.getElem?_eq_some_iff.mp hi).1
  by_cases hki : k = i
  · subst hki
    rw [hi] at hdk; cases hdk
    have hwf := hinv.waitFor k sub hi
    cases out with
    | waiting =>
      simp only at hout
      refine ⟨s2, ?_, by rw [hcd]; exact hdrive, x, ?_, hnx'⟩
      · rw [hsubs]; exact List.mem_iff_getElem?.mpr ⟨k, by simp [hlt]⟩
      · rw [hout.1]
        have : sub.flag ≠ none := by
          intro hn; rw [hn] at hwf; simp at hwf; rw [hwf] at hwx; cases hwx
        simp [this, hwx]
    | killed => simp only at hout; rw [hkk, hout] at hk; cases hk
    | took msgs =>
      simp only at hout
      have : sub.waitingFor = some sub.next := by
        by_cases hn : sub.flag = none
        · rw [hn] at hwf; simp at hwf; rw [hwf] at hwx; cases hwx
        · simp [hn] at hwf; exact hwf
      rw [this] at hwx; cases hwx
      rw [hout.1] at hnx; cases hnx
  · refine ⟨d, ?_, hdrive, x, hwx, hnx'⟩
    rw [hsubs]
    exact List.mem_iff_getElem?.mpr ⟨k, by rw [List.getElem?_set]; simp [Ne.symm hki, hdk]⟩

theorem Gate.step {s s' : Sys} {t : ThreadId} (hinv : Inv s) (h : Gate s) (hs : step s t = some s') : Gate s' := by
  have hstat := step_static hs
  cases t with
  | sender =>
    simp only [Mailbox.step, stepSender] at hs
    split at hs
    · -- gate
      split at hs
      · simp at hs
      · rename_i ok mb hg
        simp only [Option.some.injEq] at hs; subst hs
        intro h1 h2 h3 h4
        simp only [MB.gateStep] at hg
        split at hg
        · simp at hg
        · split at hg
          · rename_i hc
            simp only [Option.some.injEq, Prod.mk.injEq] at hg; obtain ⟨rfl, rfl⟩ := hg
            exact canFetch_gateOk hc h3 h4
          · simp only [Option.some.injEq, Prod.mk.injEq] at hg; obtain ⟨rfl, rfl⟩ := hg
            simp at h1
    · split at hs <;> (simp only [Option.some.injEq] at hs; subst hs; intro h1; simp at h1)
    · rename_i hpc
      split at hs
      · simp at hs
      · rename_i hst; simp only [Option.some.injEq] at hs; subst hs
        intro h1 h2
        simp only [Sys.afterSend] at h1
        have hl : s.mb.lazy = true := by
          have := congrArg (fun x => x.2.1) hstat
          simp only [MB.static] at this; rw [← this]; exact h2
        simp [hl] at h1
      · rename_i hst; simp only [Option.some.injEq] at hs; subst hs
        intro h1 h2
        simp only [Sys.afterSend] at h1
        have hl : s.mb.lazy = true := by
          have := congrArg (fun x => x.2.1) hstat
          simp only [MB.static] at this; rw [← this]; exact h2
        simp [hl] at h1
      · simp only [Option.some.injEq] at hs; subst hs; intro h1; simp at h1
      · simp only [Option.some.injEq] at hs; subst hs; intro h1; simp at h1
    · rename_i hpc
      split at hs
      · simp at hs
      all_goals (simp only [Option.some.injEq] at hs; subst hs; intro h1; simp [hpc] at h1)
    · simp only [Option.some.injEq] at hs; subst hs; intro h1; simp only at h1; split at h1 <;> cases h1
    · simp at hs
    · simp at hs
  | reader i =>
    simp only [Mailbox.step, stepReader] at hs
    split at hs
    · simp at hs
    · split at hs
      · split at hs
        · simp at hs
        all_goals
          rename_i hst
          simp only [Option.some.injEq] at hs; subst hs
          intro h1 h2 h3 h4
          obtain ⟨hkk, hst2, _⟩ := readStep_shape hst
          have e2 := congrArg (fun x => x.2.1) hst2
          have e3 := congrArg (fun x => x.2.2.1) hst2
          simp only [MB.static] at e2 e3
          exact gateOk_readStep hinv.mb hst h3 (h h1 (by rw [← e2]; exact h2) (by rw [← hkk]; exact h3) (by rw [← e3]; exact h4))
      · split at hs
        · split at hs
          · simp only [Option.some.injEq] at hs; subst hs; exact h
          · simp at hs
        · simp at hs
      · simp at hs
      · simp at hs
  | worker j =>
    simp only [Mailbox.step, stepWorker] at hs
    split at hs
    · simp only [Option.some.injEq] at hs; subst hs; exact h
    · simp at hs
  | killer k =>
    simp only [Mailbox.step, stepKiller] at hs
    split at hs
    · simp only [Option.some.injEq] at hs; subst hs
      intro _ _ h3
      rw [kill_killed] at h3; cases h3
    · simp at hs

theorem Gate.reachable {c : Config} {s : Sys} (h : Reachable c s) : Gate s := by
  induction h with
  | init => exact Gate.init c
  | step hr hs ih => exact ih.step (Inv.reachable hr) hs

/-- reachability through an explicit schedule is reachability -/
theorem Reachable.of_run {c : Config} {sched : List ThreadId} {s : Sys} (h : run? (Mailbox.init c) sched = some s) :
    Reachable c s := by
  have gen : ∀ (s0 : Sys), Reachable c s0 → ∀ sched, run? s0 sched = some s → Reachable c s := by
    intro s0 h0 sched
    induction sched generalizing s0 with
    | nil => intro h; simp only [run?, Option.some.injEq] at h; subst h; exact h0
    | cons t ts ih =>
      intro h
      simp only [run?] at h
      split at h
      · rename_i s1 hs1; exact ih s1 (Reachable.step h0 hs1) h
      · cases h
  exact gen _ (Reachable.init (c := c)) sched h

end Strax.Mailbox
