import StraxModel.Lemmas.PipelineKernels
/-
  Helper lemmas for property C01, part 4: totality of `exec` on a topologically ordered graph, and the
  discharge of the `StoredOK` hypothesis by an earlier run of the same graph.  Core Lean only.
-/
namespace Strax.Pipeline
open Strax

/-! ### topological order -/

def keys {β : Type} (l : List (String × β)) : List String := l.map (·.1)

theorem keys_append {β : Type} (a b : List (String × β)) : keys (a ++ b) = keys a ++ keys b := by simp [keys]

theorem keys_zip {β : Type} {ds : List String} {vs : List β} (h : vs.length = ds.length) : keys (ds.zip vs) = ds := by
  induction ds generalizing vs with
  | nil => simp [keys]
  | cons d ds ih =>
    cases vs with
    | nil => simp at h
    | cons v vs =>
      have := ih (vs := vs) (by simpa using h)
      simp only [keys] at this ⊢
      simp [this]

theorem keys_wenvOf (env : Env) : keys (wenvOf env) = keys env := by simp [keys, wenvOf]

theorem topo_cons {known : List String} {n : Node} {g : Graph} (h : TopoOrdered known (n :: g)) :
    n.deps ≠ [] ∧ (∀ d ∈ n.deps, d ∈ known) ∧ (∀ d ∈ n.provides, d ∉ known) ∧ n.provides.Nodup ∧
      n.kernel.nIn = n.deps.length ∧ n.kernel.nOut = n.provides.length ∧ TopoOrdered (known ++ n.provides) g := by
  simp only [TopoOrdered, topoOrderedB, Bool.and_eq_true, Bool.not_eq_true', List.all_eq_true,
    List.contains_iff_mem, decide_eq_true_eq, beq_iff_eq, List.isEmpty_eq_false_iff] at h
  obtain ⟨⟨⟨⟨⟨⟨h1, h2⟩, h3⟩, h4⟩, h5⟩, h6⟩, h7⟩ := h
  refine ⟨h1, h2, ?_, h4, h5, h6, h7⟩
  intro d hd
  have := h3 d hd
  simpa using this

/-! ### totality -/

theorem mapE_congr {α β : Type} {f g : α → Except Err β} : ∀ {l : List α}, (∀ a ∈ l, f a = g a) → mapE f l = mapE g l
  | [], _ => rfl
  | a :: l, h => by
    simp only [mapE, h a (by simp), mapE_congr (l := l) (fun x hx => h x (by simp [hx]))]

theorem override_typed {stored : List (String × List Chunk)} {P : String → List Chunk → Prop}
    (hs : ∀ d s, lookup d stored = some s → P d s) :
    ∀ {ds : List String} {outs : List (List Chunk)}, (∀ p ∈ ds.zip outs, P p.1 p.2) →
      ∀ p ∈ ds.zip (override stored ds outs), P p.1 p.2
  | [], _, _, p, hp => by simp at hp
  | _ :: _, [], _, p, hp => by simp [override] at hp
  | d :: ds, o :: os, h, p, hp => by
    simp only [override, List.zip_cons_cons, List.mem_cons] at hp
    rcases hp with rfl | hp
    · cases hl : lookup d stored with
      | none => simpa [hl] using h (d, o) (by simp)
      | some s => simpa [hl] using hs d s hl
    · exact override_typed hs (fun q hq => h q (by simp [hq])) p hp

/-- **Totality on typed streams.**  Every data type `d` has a stream type `P d`; the sources and whatever storage
holds have their types; every node is total on typed inputs (`NodeTotalOn`, which includes its edge transports)
and produces typed outputs.  Then `exec` succeeds on a topologically ordered graph, with typed results. -/
theorem exec_total_typed {plan : Plan} {R : Int × Int} {P : String → List Chunk → Prop}
    (hsP : ∀ d s, lookup d plan.stored = some s → P d s) :
    ∀ {g : Graph} {env : Env},
      TopoOrdered (keys env) g →
      (∀ n ∈ g, ChunkHom n.kernel ∧ NodeTotalOn (plan.edge n.name) R P n) →
      EnvOK R env → (∀ p ∈ env, P p.1 p.2) → StoredOK plan.stored R g (wenvOf env) →
      ∃ env', exec plan g env = .ok env' ∧ ∀ p ∈ env', P p.1 p.2
  | [], env, _, _, _, hP, _ => ⟨env, rfl, hP⟩
  | n :: g, env, htopo, hg, henv, hP, hst => by
    obtain ⟨hd, hdeps, -, -, hni, -, htl⟩ := topo_cons htopo
    obtain ⟨hk, hnt⟩ := hg n (by simp)
    -- the streams of the dependencies, as an assignment
    let σ : String → List Chunk := fun d => match lookup d env with
      | some s => s
      | none => []
    have hσ : ∀ d ∈ n.deps, lookup d env = some (σ d) := by
      intro d hdm
      obtain ⟨s, hs⟩ := lookup_isSome_of_mem (l := env) (hdeps d hdm)
      simp [σ, hs]
    obtain ⟨ins, outs, hmap, hstep, hlen, hPout⟩ := hnt σ (by
      intro d hdm
      have hm := lookup_mem (hσ d hdm)
      exact ⟨(henv _ hm).1, (henv _ hm).2, hP _ hm⟩)
    have hins : mapE (fetchDep plan n.name env) n.deps = .ok ins := by
      rw [← hmap]
      apply mapE_congr
      intro d hdm
      simp [fetchDep, hσ d hdm]
    have hnode : execNode plan n env = .ok (env ++ n.provides.zip (override plan.stored n.provides outs)) := by
      simp [execNode, hins, hstep, hlen]
    obtain ⟨wouts, hw, hrel⟩ := execNode_rel hk hni hd henv hnode
    simp only [StoredOK, hw] at hst
    obtain ⟨hw1, henv1⟩ := hrel hst.1
    have hl : ins.length = n.deps.length := mapE_length hins
    obtain ⟨-, hin⟩ := fetch_rel henv n.name hins
    obtain ⟨-, -, o3⟩ := override_rows (stored := plan.stored) (R := R) hlen rfl
      (by intro s hs; exact (node_hom hk hni hd hl hin hstep).2.1 s hs)
      (by
        have := (node_hom hk hni hd hl hin hstep).2.2
        have hweq : wouts = n.kernel.whole (ins.map rows) := by
          have h2 := (fetch_rel henv n.name hins).1
          simp only [wholeNode, h2] at hw
          split at hw
          · simp only [Except.ok.injEq] at hw; exact hw.symm
          · cases hw
        rw [this, ← hweq]; exact hst.1)
    have hkeys : keys (env ++ n.provides.zip (override plan.stored n.provides outs)) = keys env ++ n.provides := by
      rw [keys_append, keys_zip o3]
    have hP1 : ∀ p ∈ env ++ n.provides.zip (override plan.stored n.provides outs), P p.1 p.2 := by
      intro p hp
      simp only [List.mem_append] at hp
      rcases hp with hp | hp
      · exact hP p hp
      · exact override_typed hsP hPout p hp
    obtain ⟨env', he, hP'⟩ := exec_total_typed hsP (g := g) (by rw [hkeys]; exact htl)
      (fun m hm => hg m (by simp [hm])) henv1 hP1 (by rw [hw1]; exact hst.2)
    exact ⟨env', by simp [exec, hnode, he], hP'⟩

/-- a node is total on typed inputs as soon as every edge transport is total from the dependency's type to some
`E d`, and the node's step is total on `E`-typed inputs with `P`-typed outputs -/
theorem nodeTotalOn_of {edge : String → Transport} {R : Int × Int} {P E : String → List Chunk → Prop} {n : Node}
    (hedge : ∀ d ∈ n.deps, (edge d).TotalOn (P d) (E d))
    (hstep : ∀ ins : List (List Chunk), ins.length = n.deps.length →
      (∀ p ∈ n.deps.zip ins, LawAbiding p.2 ∧ span p.2 = some R ∧ E p.1 p.2) →
      ∃ outs, n.step ins = .ok outs ∧ outs.length = n.provides.length ∧ ∀ p ∈ n.provides.zip outs, P p.1 p.2) :
    NodeTotalOn edge R P n := by
  intro σ hσ
  have key : ∀ (ds : List String), (∀ d ∈ ds, d ∈ n.deps) →
      ∃ ins, mapE (fun d => (edge d).run (σ d)) ds = .ok ins ∧ ins.length = ds.length ∧
        ∀ p ∈ ds.zip ins, LawAbiding p.2 ∧ span p.2 = some R ∧ E p.1 p.2 := by
    intro ds
    induction ds with
    | nil => intro _; exact ⟨[], rfl, rfl, by simp⟩
    | cons d ds ih =>
      intro hsub
      obtain ⟨hl, hsp, hp⟩ := hσ d (hsub d (by simp))
      obtain ⟨o, ho, hE⟩ := hedge d (hsub d (by simp)) (σ d) hl hp
      obtain ⟨rest, hr, hlen, hall⟩ := ih (fun x hx => hsub x (by simp [hx]))
      refine ⟨o :: rest, by simp [mapE, ho, hr], by simp [hlen], ?_⟩
      intro p hp'
      simp only [List.zip_cons_cons, List.mem_cons] at hp'
      rcases hp' with rfl | hp'
      · exact ⟨(edge d).law hl ho, by rw [(edge d).range hl ho]; exact hsp, hE⟩
      · exact hall p hp'
  obtain ⟨ins, hm, hlen, hall⟩ := key n.deps (fun _ h => h)
  obtain ⟨outs, hs, hol, hP⟩ := hstep ins hlen hall
  exact ⟨ins, outs, hm, hs, hol, hP⟩

/-- the Boolean form of the storage hypothesis -/
theorem storedAt_of_B {stored : List (String × List Chunk)} {R : Int × Int} :
    ∀ {ds : List String} {rs : List (List Row)}, storedAtB stored R ds rs = true → StoredAt stored R ds rs
  | [], _, _ => by simp [StoredAt]
  | _ :: _, [], _ => by simp [StoredAt]
  | d :: ds, r :: rs, h => by
    simp only [storedAtB, Bool.and_eq_true] at h
    refine ⟨?_, storedAt_of_B h.2⟩
    intro s hs
    have h1 := h.1
    simp only [hs, Bool.and_eq_true, beq_iff_eq] at h1
    exact ⟨h1.1.1, h1.1.2, h1.2⟩

theorem storedOK_of_B {stored : List (String × List Chunk)} {R : Int × Int} :
    ∀ {g : Graph} {w : WEnv}, storedOKB stored R g w = true → StoredOK stored R g w
  | [], _, _ => trivial
  | n :: g, w, h => by
    simp only [storedOKB] at h
    simp only [StoredOK]
    split
    · trivial
    · rename_i outs hw
      simp only [hw, Bool.and_eq_true] at h
      exact ⟨storedAt_of_B h.1, storedOK_of_B h.2⟩

/-! ### storage filled by an earlier run -/

theorem whole_extends : ∀ {g : Graph} {w w' : WEnv}, whole g w = .ok w' → ∃ ext, w' = w ++ ext
  | [], w, w', h => by simp only [whole, Except.ok.injEq] at h; exact ⟨[], by simp [h]⟩
  | n :: g, w, w', h => by
    simp only [whole] at h
    cases hn : wholeNode n w with
    | error e => simp [hn] at h
    | ok outs =>
      simp only [hn] at h
      obtain ⟨ext, he⟩ := whole_extends h
      exact ⟨n.provides.zip outs ++ ext, by simp [he]⟩

theorem lookup_none_of_not_mem {β : Type} {d : String} {l : List (String × β)} (h : d ∉ keys l) : lookup d l = none := by
  induction l with
  | nil => rfl
  | cons p l ih =>
    obtain ⟨k, v⟩ := p
    simp only [keys, List.map_cons, List.mem_cons, not_or] at h
    simp only [lookup]
    rw [if_neg (fun hk => h.1 hk.symm)]
    exact ih h.2

/-- what the final environment of the whole-run computation says about the outputs of one node -/
theorem storedAt_of_lookup {stored : List (String × List Chunk)} {R : Int × Int} {P : String → List Row → Prop} :
    ∀ {ds : List String} {rs : List (List Row)}, ds.Nodup →
      (∀ d r, lookup d (ds.zip rs) = some r → P d r) →
      (∀ d r s, P d r → lookup d stored = some s → LawAbiding s ∧ span s = some R ∧ rows s = r) →
      StoredAt stored R ds rs
  | [], _, _, _, _ => by simp [StoredAt]
  | _ :: _, [], _, _, _ => by simp [StoredAt]
  | d :: ds, r :: rs, hnd, hl, hP => by
    simp only [StoredAt]
    obtain ⟨hd, hnd'⟩ := List.nodup_cons.1 hnd
    refine ⟨fun s hs => hP d r s (hl d r (by simp [lookup])) hs, ?_⟩
    apply storedAt_of_lookup hnd' _ hP
    intro d' r' hl'
    apply hl d' r'
    have hmem := lookup_mem hl'
    have hd' : d' ∈ ds := (List.of_mem_zip hmem).1
    have : d ≠ d' := fun e => hd (e ▸ hd')
    simp [lookup, this, hl']

/-- **Storage filled by an earlier run.**  If the whole-run computation of the graph ends in `w'`, and
everything in storage is law-abiding over the run with the rows `w'` has for that data type, then
storage is consistent (`StoredOK`).  Needs a topological order: no data type is provided twice. -/
theorem storedOK_of_final {stored : List (String × List Chunk)} {R : Int × Int} :
    ∀ {g : Graph} {w w' : WEnv}, TopoOrdered (keys w) g → whole g w = .ok w' →
      (∀ d s, lookup d stored = some s → ∀ r, lookup d w' = some r → LawAbiding s ∧ span s = some R ∧ rows s = r) →
      StoredOK stored R g w
  | [], _, _, _, _, _ => by simp [StoredOK]
  | n :: g, w, w', htopo, hw, hfin => by
    simp only [whole] at hw
    cases hn : wholeNode n w with
    | error e => simp [hn] at hw
    | ok outs =>
      simp only [hn] at hw
      simp only [StoredOK, hn]
      obtain ⟨-, -, hnew, hnd, -, -, htl⟩ := topo_cons htopo
      obtain ⟨ext, hext⟩ := whole_extends hw
      have hlen : outs.length = n.provides.length := by
        unfold wholeNode at hn
        cases hm : mapE (lookupW w) n.deps with
        | error e => simp [hm] at hn
        | ok ins =>
          simp only [hm] at hn
          split at hn
          · rename_i hl; cases hn; exact hl
          · cases hn
      refine ⟨?_, storedOK_of_final (by rw [keys_append, keys_zip hlen]; exact htl) hw hfin⟩
      apply storedAt_of_lookup (P := fun d r => lookup d w' = some r) hnd
      · intro d r hl
        have hmem := lookup_mem hl
        have hd : d ∈ n.provides := (List.of_mem_zip hmem).1
        have h0 : lookup d w = none := lookup_none_of_not_mem (hnew d hd)
        rw [hext, lookup_append, lookup_append, h0]
        simp [hl]
      · intro d r s hP hs
        exact hfin d s hs r hP

/-! ### small facts used by Props/C01 -/

theorem hom_of_topo {known : List String} : ∀ {g : Graph}, TopoOrdered known g →
    (∀ n ∈ g, ChunkHom n.kernel) → ∀ n ∈ g, ChunkHom n.kernel ∧ n.kernel.nIn = n.deps.length ∧ n.deps ≠ []
  | [], _, _, n, hn => by simp at hn
  | m :: g, ht, hh, n, hn => by
    obtain ⟨h1, -, -, -, h5, -, h7⟩ := topo_cons ht
    simp only [List.mem_cons] at hn
    rcases hn with rfl | hn
    · exact ⟨hh _ (by simp), h5, h1⟩
    · exact hom_of_topo h7 (fun k hk => hh k (by simp [hk])) n hn

theorem storedAt_nil (R : Int × Int) : ∀ (ds : List String) (outs : List (List Row)), StoredAt [] R ds outs
  | [], _ => by simp [StoredAt]
  | _ :: _, [] => by simp [StoredAt]
  | d :: ds, r :: rs => ⟨fun s hs => by simp [lookup] at hs, storedAt_nil R ds rs⟩

theorem storedOK_nil (R : Int × Int) : ∀ (g : Graph) (w : WEnv), StoredOK [] R g w
  | [], _ => trivial
  | n :: g, w => by
    simp only [StoredOK]
    split
    · trivial
    · exact ⟨storedAt_nil R _ _, storedOK_nil R g _⟩


end Strax.Pipeline
