import StraxModel.Model.Superrun
import StraxModel.Lemmas.ChunkAlgChunk
import StraxModel.Lemmas.SuperrunBad
/-
  Helper lemmas for property C14 (superruns).  Core Lean only.
-/
namespace Strax.Superrun
open Strax

/-! ## 1. data keys -/

theorem sortIds_perm (l : List String) : (sortIds l).Perm l := List.mergeSort_perm _ _

theorem superrunKey_inj {κ : Type} {H : List (String × Option (Int × Int)) → Bool → κ}
    (hH : ∀ a b c d, H a b = H c d → a = c ∧ b = d) {name : String} {s1 s2 : List String} {l1 l2 : Sel} {c1 c2 : Bool}
    (h : superrunKey H name s1 l1 c1 = superrunKey H name s2 l2 c2) : tagged l1 s1 = tagged l2 s2 ∧ c1 = c2 := by
  unfold superrunKey at h
  exact hH _ _ _ _ (Prod.mk.inj h).2

/-- equal tagged item lists: same ids (as sorted lists) and the same selection for every listed run -/
theorem tagged_eq {l1 l2 : Sel} {s1 s2 : List String} (h : tagged l1 s1 = tagged l2 s2) :
    sortIds s1 = sortIds s2 ∧ ∀ r ∈ s1, l1.lookup r = l2.lookup r := by
  unfold tagged at h
  have h1 : sortIds s1 = sortIds s2 := by
    have := congrArg (List.map Prod.fst) h
    simpa [List.map_map, Function.comp_def] using this
  refine ⟨h1, ?_⟩
  intro r hr
  have hr' : r ∈ sortIds s1 := (sortIds_perm s1).mem_iff.mpr hr
  rw [← h1] at h
  have := List.map_inj_left.mp h r hr'
  exact (Prod.mk.inj this).2

theorem tagged_congr {l1 l2 : Sel} {s : List String} (h : ∀ r ∈ s, l1.lookup r = l2.lookup r) : tagged l1 s = tagged l2 s := by
  unfold tagged
  apply List.map_congr_left
  intro r hr
  rw [h r ((sortIds_perm s).mem_iff.mp hr)]

/-! ## 2. `define_run` -/

theorem mem_dedup {x : String} : ∀ {l : List String}, x ∈ dedup l ↔ x ∈ l
  | [] => by simp [dedup]
  | y :: ys => by
    simp only [dedup, List.mem_cons, List.mem_filter, mem_dedup (l := ys)]
    by_cases h : x = y
    · simp [h]
    · simp [h]

theorem nodup_dedup : ∀ (l : List String), (dedup l).Nodup
  | [] => by simp [dedup]
  | y :: ys => by
    simp only [dedup, List.nodup_cons, List.mem_filter]
    refine ⟨by simp, (nodup_dedup ys).sublist List.filter_sublist⟩

/-- looking up the documents of a list of runs -/
theorem lookupAll_map_fst {docs : List (String × Int)} :
    ∀ {ids : List String} {ks : List (String × Int)},
      (ids.mapM fun rid => match docs.lookup rid with
        | some s => (pure (rid, s) : Except Err (String × Int))
        | none => throw Err.other) = .ok ks → ks.map (·.1) = ids ∧ ∀ k ∈ ks, docs.lookup k.1 = some k.2
  | [], ks, h => by
    simp [pure, Except.pure] at h; subst h; simp
  | rid :: ids, ks, h => by
    rw [List.mapM_cons] at h
    cases hl : docs.lookup rid with
    | none => simp [hl, bind, Except.bind, throw, throwThe, MonadExceptOf.throw] at h
    | some s =>
      simp only [hl, bind, Except.bind, pure, Except.pure] at h
      split at h
      · cases h
      · rename_i ks' hk
        cases h
        have ih := lookupAll_map_fst (docs := docs) (ids := ids) (ks := ks') hk
        refine ⟨by simp [ih.1], ?_⟩
        intro k hk'
        simp at hk'
        rcases hk' with rfl | hk'
        · exact hl
        · exact ih.2 k hk'

def leStart (a b : String × Int) : Bool := decide (a.2 ≤ b.2)

theorem defineRun_spec {docs : List (String × Int)} {data spec : List String} (h : defineRun docs data = .ok spec) :
    ∃ ks : List (String × Int), ks.map (·.1) = dedup data ∧ (∀ k ∈ ks, docs.lookup k.1 = some k.2) ∧
      spec = (ks.mergeSort leStart).map (·.1) := by
  unfold defineRun at h
  simp only [bind, Except.bind] at h
  split at h
  · cases h
  · rename_i ks hk
    simp only [pure, Except.pure, Except.ok.injEq] at h
    obtain ⟨h1, h2⟩ := lookupAll_map_fst hk
    exact ⟨ks, h1, h2, h.symm⟩

theorem leStart_trans (a b c : String × Int) : leStart a b → leStart b c → leStart a c := by
  simp only [leStart, decide_eq_true_eq]; omega

theorem leStart_total (a b : String × Int) : (leStart a b || leStart b a) = true := by
  simp only [leStart, Bool.or_eq_true, decide_eq_true_eq]; omega

/-- the listed runs, each once -/
theorem defineRun_perm {docs : List (String × Int)} {data spec : List String} (h : defineRun docs data = .ok spec) :
    spec.Perm (dedup data) := by
  obtain ⟨ks, h1, _, rfl⟩ := defineRun_spec h
  rw [← h1]
  exact (List.mergeSort_perm ks leStart).map _

theorem defineRun_nodup {docs : List (String × Int)} {data spec : List String} (h : defineRun docs data = .ok spec) :
    spec.Nodup := (defineRun_perm h).nodup_iff.mpr (nodup_dedup data)

/-- … in order of run start … -/
theorem defineRun_sorted {docs : List (String × Int)} {data spec : List String} (h : defineRun docs data = .ok spec) :
    spec.Pairwise (fun a b => ∃ sa sb, docs.lookup a = some sa ∧ docs.lookup b = some sb ∧ sa ≤ sb) := by
  obtain ⟨ks, _, h2, rfl⟩ := defineRun_spec h
  rw [List.pairwise_map]
  have hp := List.pairwise_mergeSort leStart_trans leStart_total ks
  have hm : ∀ k ∈ ks.mergeSort leStart, docs.lookup k.1 = some k.2 := fun k hk => h2 k (List.mem_mergeSort.mp hk)
  refine (List.Pairwise.and_mem.mp hp).imp ?_
  intro a b hab
  obtain ⟨ha, hb, hle⟩ := hab
  exact ⟨a.2, b.2, hm a ha, hm b hb, by simpa [leStart] using hle⟩

/-- … ties keep the order of listing (stable sort) -/
theorem defineRun_stable {docs : List (String × Int)} {data spec : List String} (h : defineRun docs data = .ok spec)
    {a b : String} {sa sb : Int} (ha : docs.lookup a = some sa) (hb : docs.lookup b = some sb) (hle : sa ≤ sb)
    (hsub : List.Sublist [a, b] (dedup data)) : List.Sublist [a, b] spec := by
  obtain ⟨ks, h1, h2, rfl⟩ := defineRun_spec h
  rw [← h1] at hsub
  obtain ⟨l', hl', he⟩ := List.sublist_map_iff.mp hsub
  match l', he, hl' with
  | [ka, kb], he, hl' =>
    simp only [List.map_cons, List.map_nil, List.cons.injEq, and_true] at he
    obtain ⟨rfl, rfl⟩ := he
    have hka := h2 ka (hl'.subset (by simp))
    have hkb := h2 kb (hl'.subset (by simp))
    rw [ha] at hka; rw [hb] at hkb
    cases hka; cases hkb
    have := List.pair_sublist_mergeSort leStart_trans leStart_total (a := ka) (b := kb) (by simpa [leStart] using hle) hl'
    simpa using this.map (·.1)

/-! ## 3. run spans: `_split_runs_in_chunk`, `_merge_runs_in_chunk`, `_mergable_check` -/

/-- run spans as the setters of `Chunk` guarantee them: every span has `start ≤ end`, consecutive spans do not
overlap (`_sorted_subruns_check`) -/
def RunsSorted : Runs → Prop
  | [] => True
  | [a] => a.start ≤ a.stop
  | a :: b :: rest => a.start ≤ a.stop ∧ a.stop ≤ b.start ∧ RunsSorted (b :: rest)

def runsSortedB : Runs → Bool
  | [] => true
  | [a] => decide (a.start ≤ a.stop)
  | a :: b :: rest => decide (a.start ≤ a.stop) && decide (a.stop ≤ b.start) && runsSortedB (b :: rest)

theorem runsSortedB_iff : ∀ (l : Runs), runsSortedB l = true ↔ RunsSorted l
  | [] => by simp [runsSortedB, RunsSorted]
  | [a] => by simp [runsSortedB, RunsSorted]
  | a :: b :: rest => by simp [runsSortedB, RunsSorted, runsSortedB_iff (b :: rest), and_assoc]

instance (l : Runs) : Decidable (RunsSorted l) := decidable_of_iff _ (runsSortedB_iff l)

theorem RunsSorted.tail {a : Run} {l : Runs} (h : RunsSorted (a :: l)) : RunsSorted l := by
  cases l with
  | nil => trivial
  | cons b rest => exact h.2.2

theorem RunsSorted.head_le {a : Run} {l : Runs} (h : RunsSorted (a :: l)) : a.start ≤ a.stop := by
  cases l with
  | nil => exact h
  | cons b rest => exact h.1

theorem RunsSorted.stop_le : ∀ {l : Runs} {a : Run}, RunsSorted (a :: l) → ∀ x ∈ l, a.stop ≤ x.start
  | [], _, _, x, hx => by simp at hx
  | b :: rest, a, h, x, hx => by
    have hb : b.start ≤ b.stop := RunsSorted.head_le h.2.2
    simp at hx
    rcases hx with rfl | hx
    · exact h.2.1
    · have := RunsSorted.stop_le (l := rest) (a := b) h.2.2 x hx
      have := h.2.1
      omega

/-- spans that tile `[A, B)` -/
def Tiles : Int → Int → Runs → Prop
  | A, B, [] => A = B
  | A, B, r :: rs => r.start = A ∧ A ≤ r.stop ∧ Tiles r.stop B rs

def nonEmptyRuns (rs : Runs) : Runs := rs.filter (fun r => r.start != r.stop)

theorem splitRunsList_of_le (t : Int) : ∀ (rs : Runs), (∀ x ∈ rs, t ≤ x.start) → splitRunsList t rs = ([], rs)
  | [], _ => rfl
  | r :: rest, h => by
    have ih := splitRunsList_of_le t rest (fun x hx => h x (by simp [hx]))
    have hr := h r (by simp)
    simp [splitRunsList, ih, hr]

/-- shape of a split of sorted spans: a prefix and a suffix, with at most one span cut in two -/
theorem splitRunsList_cases (t : Int) : ∀ (rs : Runs), RunsSorted rs →
    (∃ pre post, rs = pre ++ post ∧ splitRunsList t rs = (pre, post) ∧
        (∀ x ∈ pre, x.stop ≤ t) ∧ (∀ x ∈ post, t ≤ x.start)) ∨
    (∃ pre r post, rs = pre ++ r :: post ∧ r.start < t ∧ t < r.stop ∧
        splitRunsList t rs = (pre ++ [{ r with stop := t }], { r with start := t } :: post) ∧
        (∀ x ∈ pre, x.stop ≤ t) ∧ (∀ x ∈ post, t ≤ x.start))
  | [], _ => Or.inl ⟨[], [], rfl, rfl, by simp, by simp⟩
  | r :: rest, h => by
    have hle := RunsSorted.stop_le h
    have hr := RunsSorted.head_le h
    by_cases h1 : t ≤ r.start
    · have hall : ∀ x ∈ r :: rest, t ≤ x.start := by
        intro x hx
        simp at hx
        rcases hx with rfl | hx
        · exact h1
        · have := hle x hx; omega
      exact Or.inl ⟨[], r :: rest, rfl, splitRunsList_of_le t _ hall, by simp, hall⟩
    · by_cases h2 : t < r.stop
      · have hall : ∀ x ∈ rest, t ≤ x.start := by
          intro x hx
          have := hle x hx; omega
        refine Or.inr ⟨[], r, rest, rfl, by omega, h2, ?_, by simp, hall⟩
        simp [splitRunsList, splitRunsList_of_le t rest hall, h1, h2]
      · rcases splitRunsList_cases t rest h.tail with ⟨pre, post, he, hs, hp, hq⟩ | ⟨pre, x, post, he, hx1, hx2, hs, hp, hq⟩
        · refine Or.inl ⟨r :: pre, post, by simp [he], by simp [splitRunsList, hs, h1, h2], ?_, hq⟩
          intro y hy
          simp at hy
          rcases hy with rfl | hy
          · omega
          · exact hp y hy
        · refine Or.inr ⟨r :: pre, x, post, by simp [he], hx1, hx2, by simp [splitRunsList, hs, h1, h2], ?_, hq⟩
          intro y hy
          simp at hy
          rcases hy with rfl | hy
          · omega
          · exact hp y hy

/-! ### collecting and merging -/

def single (r : Run) : String × List (Int × Int) := (r.id, [(r.start, r.stop)])

theorem addRun_fresh : ∀ (acc : List (String × List (Int × Int))) (r : Run),
    (∀ kv ∈ acc, kv.1 ≠ r.id) → addRun acc r = acc ++ [single r]
  | [], r, _ => rfl
  | (k, v) :: rest, r, h => by
    have hk : k ≠ r.id := h (k, v) (by simp)
    have ih := addRun_fresh rest r (fun kv hkv => h kv (by simp [hkv]))
    simp [addRun, hk, ih]

theorem addRun_hit : ∀ (l1 : List (String × List (Int × Int))) (l2 : List (String × List (Int × Int)))
    (r : Run) (v : List (Int × Int)), (∀ kv ∈ l1, kv.1 ≠ r.id) →
    addRun (l1 ++ (r.id, v) :: l2) r = l1 ++ (r.id, v ++ [(r.start, r.stop)]) :: l2
  | [], l2, r, v, _ => by simp [addRun]
  | (k, w) :: rest, l2, r, v, h => by
    have hk : k ≠ r.id := h (k, w) (by simp)
    have ih := addRun_hit rest l2 r v (fun kv hkv => h kv (by simp [hkv]))
    simp [addRun, hk, ih]

theorem foldl_addRun_fresh : ∀ (l : Runs) (acc : List (String × List (Int × Int))),
    (l.map (·.id)).Nodup → (∀ r ∈ l, ∀ kv ∈ acc, kv.1 ≠ r.id) →
    l.foldl addRun acc = acc ++ l.map single
  | [], acc, _, _ => by simp
  | r :: rest, acc, hn, hd => by
    simp only [List.map_cons, List.nodup_cons] at hn
    have h1 := addRun_fresh acc r (hd r (by simp))
    simp only [List.foldl_cons, h1]
    rw [foldl_addRun_fresh rest (acc ++ [single r]) hn.2]
    · simp
    · intro x hx kv hkv
      simp at hkv
      rcases hkv with hkv | rfl
      · exact hd x (by simp [hx]) kv hkv
      · intro he
        apply hn.1
        simp only [single] at he
        simp only [List.mem_map]
        exact ⟨x, hx, he.symm⟩

def collectStep (acc : List (String × List (Int × Int))) : Option Runs → List (String × List (Int × Int))
  | none => acc
  | some l => l.foldl addRun acc

theorem collectRuns_eq (rss : List (Option Runs)) : collectRuns rss = rss.foldl collectStep [] := by
  unfold collectRuns
  congr

theorem collectStep_pop (acc : List (String × List (Int × Int))) (X : Runs) :
    collectStep acc (popEmpty X) = (nonEmptyRuns X).foldl addRun acc := by
  unfold popEmpty nonEmptyRuns
  cases hf : List.filter (fun r => r.start != r.stop) X <;> simp [collectStep]

theorem collectRuns_pop2 (A B : Runs) :
    collectRuns [popEmpty A, popEmpty B] = (nonEmptyRuns B).foldl addRun ((nonEmptyRuns A).foldl addRun []) := by
  simp only [collectRuns_eq, List.foldl_cons, List.foldl_nil, collectStep_pop]

/-- one entry of `_mergable_check` -/
def mcEntry (merge : Bool) : String × List (Int × Int) → Except Err Run := fun (k, spans) =>
    let spans := spans.mergeSort (fun a b => decide (a.1 ≤ b.1))
    match spans with
    | [] => throw Err.other
    | s0 :: _ =>
      let ok := if merge then spans.all (fun s => s.1 == s0.1 && s.2 == s0.2) else contiguousSpans spans
      if !ok then throw Err.valueError
      else pure (Run.mk k s0.1 ((spans.getLast?.getD s0).2))

theorem mergableCheck_eq (merge : Bool) (m : List (String × List (Int × Int))) :
    mergableCheck merge m = m.mapM (mcEntry merge) := rfl

theorem mcEntry_single (merge : Bool) (r : Run) : mcEntry merge (single r) = .ok r := by
  cases merge <;> simp [mcEntry, single, contiguousSpans, pure, Except.pure]

theorem mcEntry_pair (k : String) (a t b : Int) (h : a ≤ t) :
    mcEntry false (k, [(a, t), (t, b)]) = .ok ⟨k, a, b⟩ := by
  have hs : [(a, t), (t, b)].mergeSort (fun x y => decide (x.1 ≤ y.1)) = [(a, t), (t, b)] :=
    List.mergeSort_of_pairwise (by simp [h])
  simp [mcEntry, hs, contiguousSpans, pure, Except.pure]

theorem mapM_ok_of_forall {α β : Type} (f : α → Except Err β) (g : α → β) :
    ∀ (l : List α), (∀ x ∈ l, f x = .ok (g x)) → l.mapM f = .ok (l.map g)
  | [], _ => rfl
  | a :: rest, h => by
    rw [List.mapM_cons, h a (by simp), mapM_ok_of_forall f g rest (fun x hx => h x (by simp [hx]))]
    rfl

theorem mergable_singles (merge : Bool) (l : Runs) : mergableCheck merge (l.map single) = .ok l := by
  rw [mergableCheck_eq, List.mapM_map]
  have := mapM_ok_of_forall (mcEntry merge ∘ single) id l (fun x _ => mcEntry_single merge x)
  simpa using this

theorem mapM_append_ok {α β : Type} (f : α → Except Err β) : ∀ (l1 l2 : List α) (a b : List β),
    l1.mapM f = .ok a → l2.mapM f = .ok b → (l1 ++ l2).mapM f = .ok (a ++ b)
  | [], l2, a, b, h1, h2 => by
    simp [pure, Except.pure] at h1; subst h1; simpa using h2
  | x :: l1, l2, a, b, h1, h2 => by
    rw [List.mapM_cons] at h1
    rw [List.cons_append, List.mapM_cons]
    cases hx : f x with
    | error e => simp [hx, bind, Except.bind] at h1
    | ok y =>
      cases hl : l1.mapM f with
      | error e => simp [hx, hl, bind, Except.bind] at h1
      | ok a' =>
        simp [hx, hl, bind, Except.bind, pure, Except.pure] at h1
        subst h1
        rw [mapM_append_ok f l1 l2 a' b hl h2]
        rfl

theorem mem_nonEmptyRuns {x : Run} {l : Runs} : x ∈ nonEmptyRuns l ↔ x ∈ l ∧ x.start ≠ x.stop := by
  simp [nonEmptyRuns]

theorem nonEmptyRuns_append (a b : Runs) : nonEmptyRuns (a ++ b) = nonEmptyRuns a ++ nonEmptyRuns b := by
  simp [nonEmptyRuns]

theorem nodup_ids_nonEmpty {l : Runs} (h : (l.map (·.id)).Nodup) : ((nonEmptyRuns l).map (·.id)).Nodup :=
  h.sublist ((List.filter_sublist (l := l)).map _)

/-- `split_merge_runs` on lists: collecting the two halves of a split and merging them (`merge=False`) gives
the non-empty original spans back, in the original order. -/
theorem split_merge_runs_list (rs : Runs) (t : Int) (hs : RunsSorted rs) (hn : (rs.map (·.id)).Nodup) :
    mergableCheck false (collectRuns [popEmpty (splitRunsList t rs).1, popEmpty (splitRunsList t rs).2])
      = .ok (nonEmptyRuns rs) := by
  rw [collectRuns_pop2]
  rcases splitRunsList_cases t rs hs with ⟨pre, post, he, hsp, -, -⟩ | ⟨pre, r, post, he, h1, h2, hsp, -, -⟩
  · rw [hsp]
    simp only
    rw [← List.foldl_append, ← nonEmptyRuns_append, ← he,
      foldl_addRun_fresh _ [] (nodup_ids_nonEmpty hn) (by simp)]
    simpa using mergable_singles false (nonEmptyRuns rs)
  · rw [hsp]
    simp only
    subst he
    have hne1 : nonEmptyRuns (pre ++ [{ r with stop := t }]) = nonEmptyRuns pre ++ [{ r with stop := t }] := by
      rw [nonEmptyRuns_append]
      congr 1
      have : r.start ≠ t := by omega
      simp [nonEmptyRuns, this]
    have hne2 : nonEmptyRuns ({ r with start := t } :: post) = { r with start := t } :: nonEmptyRuns post := by
      have : t ≠ r.stop := by omega
      simp [nonEmptyRuns, this]
    have hneR : nonEmptyRuns (pre ++ r :: post) = nonEmptyRuns pre ++ r :: nonEmptyRuns post := by
      rw [nonEmptyRuns_append]
      congr 1
      have : r.start ≠ r.stop := by omega
      simp [nonEmptyRuns, this]
    -- distinctness facts
    simp only [List.map_append, List.map_cons, List.nodup_append, List.nodup_cons, List.mem_map, List.mem_cons] at hn
    obtain ⟨hnpre, ⟨hrpost, hnpost⟩, hdis⟩ := hn
    have hpre_r : ∀ x ∈ pre, x.id ≠ r.id := fun x hx => hdis x.id ⟨x, hx, rfl⟩ r.id (Or.inl rfl)
    have hpre_post : ∀ x ∈ pre, ∀ y ∈ post, x.id ≠ y.id :=
      fun x hx y hy => hdis x.id ⟨x, hx, rfl⟩ y.id (Or.inr ⟨y, hy, rfl⟩)
    have hr_post : ∀ y ∈ post, r.id ≠ y.id := fun y hy he => hrpost ⟨y, hy, he.symm⟩
    rw [hne1, hne2]
    -- first half
    have hA : (nonEmptyRuns pre ++ [{ r with stop := t }]).foldl addRun []
        = (nonEmptyRuns pre).map single ++ [(r.id, [(r.start, t)])] := by
      rw [foldl_addRun_fresh _ [] _ (by simp)]
      · simp [single]
      · simp only [List.map_append, List.map_cons, List.map_nil, List.nodup_append, List.nodup_cons]
        refine ⟨nodup_ids_nonEmpty hnpre, by simp, ?_⟩
        intro a ha b hb
        simp only [List.mem_map] at ha
        obtain ⟨x, hx, rfl⟩ := ha
        simp at hb
        subst hb
        exact hpre_r x (mem_nonEmptyRuns.mp hx).1
    rw [hA, List.foldl_cons]
    have hB := addRun_hit ((nonEmptyRuns pre).map single) [] { r with start := t } [(r.start, t)] (by
      intro kv hkv
      simp only [List.mem_map] at hkv
      obtain ⟨x, hx, rfl⟩ := hkv
      exact hpre_r x (mem_nonEmptyRuns.mp hx).1)
    simp only at hB
    rw [hB]
    rw [foldl_addRun_fresh _ _ (nodup_ids_nonEmpty hnpost)]
    · -- now the merge
      rw [mergableCheck_eq, hneR]
      have e1 := mapM_ok_of_forall (mcEntry false ∘ single) id (nonEmptyRuns pre) (fun x _ => mcEntry_single false x)
      have e3 := mapM_ok_of_forall (mcEntry false ∘ single) id (nonEmptyRuns post) (fun x _ => mcEntry_single false x)
      rw [← List.mapM_map] at e1 e3
      have e2 : [(r.id, [(r.start, t)] ++ [(t, r.stop)])].mapM (mcEntry false) = .ok [r] := by
        rw [List.mapM_cons]
        have := mcEntry_pair r.id r.start t r.stop (by omega)
        simp only [List.cons_append, List.nil_append]
        rw [this]
        rfl
      have e12 := mapM_append_ok (mcEntry false) _ _ _ _ e1 e2
      have := mapM_append_ok (mcEntry false) _ _ _ _ e12 e3
      simpa using this
    · intro x hx kv hkv
      have hx' := (mem_nonEmptyRuns.mp hx).1
      simp only [List.mem_append, List.mem_map, List.mem_cons, List.not_mem_nil, or_false] at hkv
      rcases hkv with ⟨y, hy, rfl⟩ | rfl
      · exact hpre_post y (mem_nonEmptyRuns.mp hy).1 x hx'
      · exact hr_post x hx'

/-! ### tilings -/

theorem Tiles.le : ∀ {rs : Runs} {A B : Int}, Tiles A B rs → A ≤ B
  | [], _, _, h => by simp [Tiles] at h; omega
  | r :: rs, A, B, h => by
    have := Tiles.le (rs := rs) h.2.2
    have := h.2.1
    omega

theorem Tiles.start_ge : ∀ {rs : Runs} {A B : Int}, Tiles A B rs → ∀ x ∈ rs, A ≤ x.start
  | [], _, _, _, x, hx => by simp at hx
  | r :: rs, A, B, h, x, hx => by
    simp at hx
    rcases hx with rfl | hx
    · have := h.1; omega
    · have := Tiles.start_ge (rs := rs) h.2.2 x hx
      have := h.2.1
      omega

theorem Tiles.sorted : ∀ {rs : Runs} {A B : Int}, Tiles A B rs → RunsSorted rs
  | [], _, _, _ => trivial
  | [r], A, B, h => by
    have := h.1; have := h.2.1
    show r.start ≤ r.stop
    omega
  | r :: b :: rest, A, B, h => by
    have h1 := h.1; have h2 := h.2.1
    have hb := h.2.2.1
    exact ⟨by omega, by omega, Tiles.sorted (rs := b :: rest) h.2.2⟩

theorem tiles_nonEmpty : ∀ {rs : Runs} {A B : Int}, Tiles A B rs → Tiles A B (nonEmptyRuns rs)
  | [], _, _, h => by simpa [nonEmptyRuns] using h
  | r :: rs, A, B, h => by
    have ih := tiles_nonEmpty (rs := rs) h.2.2
    by_cases he : r.start = r.stop
    · have : nonEmptyRuns (r :: rs) = nonEmptyRuns rs := by simp [nonEmptyRuns, he]
      rw [this]
      have h1 := h.1
      have : r.stop = A := by omega
      rw [this] at ih
      exact ih
    · have : nonEmptyRuns (r :: rs) = r :: nonEmptyRuns rs := by simp [nonEmptyRuns, he]
      rw [this]
      exact ⟨h.1, h.2.1, ih⟩

/-- the halves of a split of a tiling of `[A, B)` at `A ≤ t ≤ B` tile `[A, t)` and `[t, B)` -/
theorem split_tiles_list (t : Int) : ∀ (rs : Runs) (A B : Int), Tiles A B rs → A ≤ t → t ≤ B →
    Tiles A t (splitRunsList t rs).1 ∧ Tiles t B (splitRunsList t rs).2
  | [], A, B, h, h1, h2 => by
    simp [Tiles] at h
    simp [splitRunsList, Tiles]; omega
  | r :: rs, A, B, h, h1, h2 => by
    obtain ⟨hs, hle, ht⟩ := h
    by_cases c1 : t ≤ r.start
    · have hall : ∀ x ∈ rs, t ≤ x.start := by
        intro x hx
        have := Tiles.start_ge ht x hx
        omega
      have : splitRunsList t (r :: rs) = ([], r :: rs) := by
        simp [splitRunsList, splitRunsList_of_le t rs hall, c1]
      rw [this]
      refine ⟨by simp [Tiles]; omega, ?_⟩
      have : t = A := by omega
      subst this
      exact ⟨hs, hle, ht⟩
    · by_cases c2 : t < r.stop
      · have hall : ∀ x ∈ rs, t ≤ x.start := by
          intro x hx
          have := Tiles.start_ge ht x hx
          omega
        have : splitRunsList t (r :: rs) = ([{ r with stop := t }], { r with start := t } :: rs) := by
          simp [splitRunsList, splitRunsList_of_le t rs hall, c1, c2]
        rw [this]
        refine ⟨⟨hs, h1, rfl⟩, rfl, by show t ≤ r.stop; omega, ht⟩
      · have ih := split_tiles_list t rs r.stop B ht (by omega) h2
        have : splitRunsList t (r :: rs) = (r :: (splitRunsList t rs).1, (splitRunsList t rs).2) := by
          simp [splitRunsList, c1, c2]
        rw [this]
        exact ⟨⟨hs, hle, ih.1⟩, ih.2⟩

/-- tiling by an optional run dict as `Chunk` stores it (`None` when nothing is left) -/
def TilesOpt (A B : Int) : Option Runs → Prop
  | none => A = B
  | some l => Tiles A B l ∧ ∀ r ∈ l, r.start ≠ r.stop

theorem tilesOpt_popEmpty {A B : Int} {X : Runs} (h : Tiles A B X) : TilesOpt A B (popEmpty X) := by
  have h' := tiles_nonEmpty h
  unfold popEmpty
  unfold nonEmptyRuns at h'
  cases hf : List.filter (fun r => r.start != r.stop) X with
  | nil => rw [hf] at h'; simpa [TilesOpt, Tiles] using h'
  | cons a l =>
    rw [hf] at h'
    refine ⟨h', ?_⟩
    intro r hr
    have : r ∈ List.filter (fun r => r.start != r.stop) X := by rw [hf]; exact hr
    simpa using (List.mem_filter.mp this).2

/-! ## 4. what the chunk constructor, `concatenate` and `split` do to rows -/

/-- the `superrun` a chunk gets from its constructor arguments -/
def supOf (r : Option String) (s e : Int) (sup : Option Runs) : Runs :=
  match sup with
  | some x => sortRuns x
  | none => match r with
    | some rid => sortRuns [⟨rid, s, e⟩]
    | none => []

set_option maxRecDepth 8000 in
theorem mkChunk_fields {dt k : String} {r : Option String} {s e : Int} {rows : List Row} {sub sup : Option Runs} {tg : Nat}
    {c : Chunk} (h : mkChunk dt k r s e rows sub sup tg = .ok c) :
    c = ⟨dt, k, r, s, e, rows, sub.map sortRuns, supOf r s e sup, tg⟩ ∧ 0 ≤ s ∧ s ≤ e ∧
      runsOverlap (supOf r s e sup) = false ∧ (∀ x, sub = some x → runsOverlap (sortRuns x) = false) := by
  unfold mkChunk at h
  simp only [bind, Except.bind, pure, Except.pure, throw, throwThe, MonadExceptOf.throw] at h
  repeat' (split at h)
  all_goals (first | (cases h; done) | (cases h; refine ⟨by simp [supOf], by omega, by omega, by simp_all [supOf], by simp_all⟩))

theorem mkChunk_rows {dt k : String} {r : Option String} {s e : Int} {rows : List Row} {sub sup : Option Runs} {tg : Nat}
    {c : Chunk} (h : mkChunk dt k r s e rows sub sup tg = .ok c) : c.rows = rows := by
  rw [(mkChunk_fields h).1]

def rowsOf (cs : List Chunk) : List Row := cs.flatMap (·.rows)

@[simp] theorem rowsOf_nil : rowsOf [] = [] := rfl
@[simp] theorem rowsOf_cons (c : Chunk) (cs : List Chunk) : rowsOf (c :: cs) = c.rows ++ rowsOf cs := by
  simp [rowsOf]
@[simp] theorem rowsOf_append (a b : List Chunk) : rowsOf (a ++ b) = rowsOf a ++ rowsOf b := by
  simp [rowsOf]

set_option maxRecDepth 8000 in
theorem concatenate_rows {cs : List Chunk} {allow : Bool} {c : Chunk} (h : concatenate cs allow = .ok c) :
    c.rows = rowsOf cs := by
  unfold concatenate at h
  split at h
  · cases h
  · cases h; simp
  · simp only [bind, Except.bind, pure, Except.pure, throw, throwThe, MonadExceptOf.throw] at h
    repeat' (split at h)
    all_goals (first | (cases h; done) | exact mkChunk_rows h)

set_option maxRecDepth 8000 in
theorem split_rows {c a b : Chunk} {t : Int} {early : Bool} (h : c.split t early = .ok (a, b)) :
    a.rows ++ b.rows = c.rows := by
  obtain ⟨_, h⟩ := Chunk.split_ok_core h
  unfold Chunk.splitCore at h
  simp only [bind, Except.bind, pure, Except.pure] at h
  repeat' (split at h)
  all_goals (try (cases h; done))
  all_goals cases h
  all_goals (
    have ha : a.rows = _ := mkChunk_rows (by assumption)
    have hb : b.rows = _ := mkChunk_rows (by assumption)
    rw [ha, hb])
  · simp
  · simp
  · exact splitArray_append (by assumption)

/-- cutting a chunk at its own end (what `Plugin.iter` does with a single dependency) leaves nothing behind -/
theorem split_at_stop_rows {c a b : Chunk} {early : Bool} (h : c.split c.stop early = .ok (a, b)) (hle : c.start ≤ c.stop) :
    a.rows = c.rows ∧ b.rows = [] := by
  obtain ⟨_, h⟩ := Chunk.split_ok_core h
  unfold Chunk.splitCore at h
  have ht : max (min c.stop c.stop) c.start = c.stop := by omega
  simp only [bind, Except.bind, pure, Except.pure, ht, if_true] at h
  repeat' (split at h)
  all_goals (try (cases h; done))
  all_goals cases h
  all_goals (
    have ha : a.rows = _ := mkChunk_rows (by assumption)
    have hb : b.rows = _ := mkChunk_rows (by assumption)
    exact ⟨ha, hb⟩)

/-! ## 5. rows through one plugin level -/

theorem bind_ok {α β : Type} {x : Except Err α} {f : α → Except Err β} {b : β} (h : (x >>= f) = .ok b) :
    ∃ a, x = .ok a ∧ f a = .ok b := by
  cases x with
  | error e => cases h
  | ok a => exact ⟨a, rfl, h⟩

theorem compute_rows {lv : Level} {rid : String} {inp o : Chunk} (h : compute lv rid inp = .ok o) :
    o.rows = inp.rows := by
  unfold compute at h
  repeat' (split at h)
  all_goals (first | (cases h; done) | exact mkChunk_rows h)

def bufRows : Option Chunk → List Row
  | none => []
  | some k => k.rows

theorem iterStep_eq (lv : Level) (rid : String) (buf : Option Chunk) (c : Chunk) :
    iterStep lv rid buf c =
      ((match buf with
        | none => pure c
        | some k => concatenate [k, c] lv.allow) >>= fun b =>
       b.split b.stop true >>= fun p =>
       compute lv rid p.1 >>= fun out => pure (out, p.2)) := by
  unfold iterStep
  cases buf <;> rfl

theorem iterStep_rows {lv : Level} {rid : String} {buf : Option Chunk} {c o r : Chunk}
    (h : iterStep lv rid buf c = .ok (o, r)) : o.rows ++ r.rows = bufRows buf ++ c.rows := by
  rw [iterStep_eq] at h
  obtain ⟨b, hb, h⟩ := bind_ok h
  obtain ⟨⟨inp, rest⟩, hs, h⟩ := bind_ok h
  obtain ⟨out, hc, h⟩ := bind_ok h
  simp only [pure, Except.pure, Except.ok.injEq, Prod.mk.injEq] at h
  obtain ⟨rfl, rfl⟩ := h
  have h1 := split_rows hs
  have h2 := compute_rows hc
  have h3 : b.rows = bufRows buf ++ c.rows := by
    cases buf with
    | none =>
      simp only [pure, Except.pure, Except.ok.injEq] at hb
      subst hb; simp [bufRows]
    | some k =>
      have := concatenate_rows hb
      simpa [bufRows] using this
  rw [h2, h1, h3]

theorem pluginIter_rows (lv : Level) (rid : String) : ∀ (cs : List Chunk) (buf : Option Chunk) (outs : List Chunk),
    pluginIter lv rid buf cs = .ok outs → rowsOf outs = bufRows buf ++ rowsOf cs
  | [], buf, outs, h => by
    unfold pluginIter at h
    cases buf with
    | none => simp only [pure, Except.pure, Except.ok.injEq] at h; subst h; simp [bufRows]
    | some k =>
      simp only at h
      split at h
      · rename_i he
        simp only [pure, Except.pure, Except.ok.injEq] at h; subst h
        simp only [List.isEmpty_iff] at he
        simp [bufRows, he]
      · cases h
  | c :: cs, buf, outs, h => by
    unfold pluginIter at h
    obtain ⟨⟨o, r⟩, hs, h⟩ := bind_ok h
    obtain ⟨os, hr, h⟩ := bind_ok h
    simp only [pure, Except.pure, Except.ok.injEq] at h
    subst h
    have ih := pluginIter_rows lv rid cs (some r) os hr
    have h1 := iterStep_rows hs
    have hb : bufRows (some r) = r.rows := rfl
    rw [rowsOf_cons, rowsOf_cons, ih, hb, ← List.append_assoc, h1, List.append_assoc]

/-- a row-wise plugin level neither loses, duplicates nor reorders rows — for every input stream -/
theorem pluginRun_rows {lv : Level} {rid : String} {cs outs : List Chunk} (h : pluginRun lv rid cs = .ok outs) :
    rowsOf outs = rowsOf cs := by
  unfold pluginRun at h
  split at h
  · cases h
  · simpa [bufRows] using pluginIter_rows lv rid cs none outs h

end Strax.Superrun
