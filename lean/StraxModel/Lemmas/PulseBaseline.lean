import StraxModel.Model.Pulse
/-
  Lemmas about `baseline` of theory T14 (property C18): the per-channel memory as a function of the prefix
  (`blStateAt`), the value written for each record (`blDecide`), and what the memory holds (`blStateAt_inv`).
  Core Lean only.
-/
namespace Strax.Pulse

/-- `j` is the last 0th fragment (`record_i = 0`) of channel `c` before position `m` -/
def LastFirstIn (rs : List Record) (c : Int) (m j : Nat) : Prop :=
  j < m ∧ (∃ a, rs[j]? = some a ∧ a.channel = c ∧ a.recordI = 0) ∧
  ∀ j' b, j < j' → j' < m → rs[j']? = some b → b.channel = c → b.recordI ≠ 0

def blInit : BlSt := ⟨fun _ => (⟨0, 1⟩, .sqrtOf ⟨0, 1⟩), fun _ => false⟩

/-- the memory after looking at record `r` -/
def blSee (k : Nat) (st : BlSt) (r : Record) : BlSt :=
  if r.recordI = 0 then
    ⟨fun c => if c = r.channel then ((meanVar r.data k).1, .sqrtOf (meanVar r.data k).2) else st.lastBl c,
     fun c => if c = r.channel then true else st.seen c⟩
  else st

/-- the memory just before record `m` is looked at -/
def blStateAt (k : Nat) (rs : List Record) : Nat → BlSt
  | 0 => blInit
  | m + 1 =>
    match rs[m]? with
    | some r => blSee k (blStateAt k rs m) r
    | none => blStateAt k rs m

/-- what is written for record `r` when the memory is `st` (on the non-raising paths) -/
def blDecide (k : Nat) (flip : Bool) (fallback : Int) (st : BlSt) (r : Record) : Record × Rms :=
  if r.recordI = 0 then (subtractBaseline r (meanVar r.data k).1 flip, .sqrtOf (meanVar r.data k).2)
  else if st.seen r.channel then (subtractBaseline r (st.lastBl r.channel).1 flip, (st.lastBl r.channel).2)
  else (subtractBaseline r (Q.ofInt fallback) flip, .nan)

theorem baselineLoop_get (k : Nat) (flip sloppy : Bool) (fb : Int) : ∀ (suf pre : List Record) (out : List (Record × Rms)),
    baselineLoop k flip sloppy fb suf (blStateAt k (pre ++ suf) pre.length) = .ok out →
    out.length = suf.length ∧
    ∀ i r, suf[i]? = some r →
      out[i]? = some (blDecide k flip fb (blStateAt k (pre ++ suf) (pre.length + i)) r) ∧
      (r.recordI ≠ 0 → (blStateAt k (pre ++ suf) (pre.length + i)).seen r.channel = false → sloppy = true) ∧
      (r.recordI = 0 → (meanVar r.data k).1.den ≠ 0) := by
  intro suf
  induction suf with
  | nil =>
    intro pre out e
    simp only [baselineLoop, Except.ok.injEq] at e
    subst e
    simp
  | cons r rs ih =>
    intro pre out e
    have h3 : pre ++ r :: rs = (pre ++ [r]) ++ rs := by simp
    have h2 : pre.length + 1 = (pre ++ [r]).length := by simp
    have hnext : blStateAt k ((pre ++ [r]) ++ rs) (pre ++ [r]).length
        = blSee k (blStateAt k (pre ++ r :: rs) pre.length) r := by
      rw [← h3, ← h2]; simp [blStateAt]
    -- common tail: once the head is settled, the rest follows from the induction hypothesis
    have tail : ∀ (more : List (Record × Rms)) (o : Record × Rms),
        baselineLoop k flip sloppy fb rs (blSee k (blStateAt k (pre ++ r :: rs) pre.length) r) = .ok more →
        o = blDecide k flip fb (blStateAt k (pre ++ r :: rs) pre.length) r →
        (r.recordI ≠ 0 → (blStateAt k (pre ++ r :: rs) pre.length).seen r.channel = false → sloppy = true) →
        (r.recordI = 0 → (meanVar r.data k).1.den ≠ 0) →
        (o :: more).length = (r :: rs).length ∧
        ∀ i r', (r :: rs)[i]? = some r' →
          (o :: more)[i]? = some (blDecide k flip fb (blStateAt k (pre ++ r :: rs) (pre.length + i)) r') ∧
          (r'.recordI ≠ 0 → (blStateAt k (pre ++ r :: rs) (pre.length + i)).seen r'.channel = false → sloppy = true) ∧
          (r'.recordI = 0 → (meanVar r'.data k).1.den ≠ 0) := by
      intro more o hmore ho hs hd
      rw [← hnext] at hmore
      obtain ⟨l1, l2⟩ := ih (pre ++ [r]) more hmore
      refine ⟨by simp [l1], ?_⟩
      intro i r' hr'
      cases i with
      | zero =>
        simp only [List.getElem?_cons_zero, Option.some.injEq] at hr'
        subst hr'
        simp only [List.getElem?_cons_zero, Nat.add_zero]
        exact ⟨by rw [ho], hs, hd⟩
      | succ i =>
        simp only [List.getElem?_cons_succ] at hr' ⊢
        have := l2 i r' hr'
        rw [← h3, ← h2] at this
        have e : pre.length + 1 + i = pre.length + (i + 1) := by omega
        rw [e] at this
        exact this
    simp only [baselineLoop] at e
    by_cases hri : r.recordI = 0
    · simp only [hri, ↓reduceIte] at e
      split at e
      · simp at e
      · rename_i hden
        split at e
        · simp at e
        · rename_i more hmore
          simp only [Except.ok.injEq] at e
          subst e
          refine tail more _ ?_ ?_ (fun h => absurd hri h) (fun _ => hden)
          · simpa [blSee, hri] using hmore
          · simp [blDecide, hri]
    · simp only [hri, ↓reduceIte] at e
      have hsee : blSee k (blStateAt k (pre ++ r :: rs) pre.length) r = blStateAt k (pre ++ r :: rs) pre.length := by
        simp [blSee, hri]
      by_cases hseen : (blStateAt k (pre ++ r :: rs) pre.length).seen r.channel = true
      · simp only [hseen, ↓reduceIte] at e
        split at e
        · simp at e
        · rename_i more hmore
          simp only [Except.ok.injEq] at e
          subst e
          refine tail more _ (by rw [hsee]; exact hmore) ?_ (fun _ h => by rw [hseen] at h; simp at h) (fun h => absurd h hri)
          simp [blDecide, hri, hseen]
      · simp only [hseen, Bool.false_eq_true, ↓reduceIte] at e
        by_cases hsl : sloppy = true
        · simp only [hsl, Bool.not_true, Bool.false_eq_true, ↓reduceIte] at e
          split at e
          · simp at e
          · rename_i more hmore
            simp only [Except.ok.injEq] at e
            subst e
            refine tail more _ (by rw [hsee]; subst hsl; exact hmore) ?_ (fun _ _ => hsl) (fun h => absurd h hri)
            simp [blDecide, hri, hseen]
        · have : sloppy = false := by simpa using hsl
          simp [this] at e

theorem blStateAt_inv (k : Nat) (rs : List Record) : ∀ m, m ≤ rs.length → ∀ c,
    ((blStateAt k rs m).seen c = false ∧ ∀ j b, j < m → rs[j]? = some b → b.channel = c → b.recordI ≠ 0)
    ∨ ((blStateAt k rs m).seen c = true ∧ ∃ j a, LastFirstIn rs c m j ∧ rs[j]? = some a ∧
        (blStateAt k rs m).lastBl c = ((meanVar a.data k).1, .sqrtOf (meanVar a.data k).2)) := by
  intro m
  induction m with
  | zero => intro _ c; left; simp [blStateAt, blInit]
  | succ m ih =>
    intro hm c
    have hm' : m < rs.length := by omega
    obtain ⟨r, hr⟩ : ∃ r, rs[m]? = some r := ⟨rs[m], by simp [hm']⟩
    simp only [blStateAt, hr]
    by_cases hnew : r.recordI = 0 ∧ r.channel = c
    · obtain ⟨hri, hc⟩ := hnew
      right
      simp only [blSee, hri, ↓reduceIte, hc]
      refine ⟨trivial, m, r, ⟨by omega, ⟨r, hr, hc, hri⟩, ?_⟩, hr, rfl⟩
      intro j' b h1 h2; omega
    · have hsame : (blSee k (blStateAt k rs m) r).seen c = (blStateAt k rs m).seen c ∧
          (blSee k (blStateAt k rs m) r).lastBl c = (blStateAt k rs m).lastBl c := by
        unfold blSee
        by_cases hri : r.recordI = 0
        · have hc : ¬ c = r.channel := fun h => hnew ⟨hri, h.symm⟩
          simp [hri, hc]
        · simp [hri]
      rw [hsame.1, hsame.2]
      rcases ih (by omega) c with ⟨h1, h2⟩ | ⟨h1, j, a, ⟨l1, l2, l3⟩, ha, hbl⟩
      · left
        refine ⟨h1, ?_⟩
        intro j b hj hb hbc
        by_cases hjm : j = m
        · subst hjm; rw [hr] at hb; simp only [Option.some.injEq] at hb; subst hb
          exact fun h => hnew ⟨h, hbc⟩
        · exact h2 j b (by omega) hb hbc
      · right
        refine ⟨h1, j, a, ⟨by omega, l2, ?_⟩, ha, hbl⟩
        intro j' b h1' h2' hb hbc
        by_cases hjm : j' = m
        · subst hjm; rw [hr] at hb; simp only [Option.some.injEq] at hb; subst hb
          exact fun h => hnew ⟨h, hbc⟩
        · exact l3 j' b h1' (by omega) hb hbc

/-- sum of an affine image -/
theorem sum_map_affine (s t : Int) (xs : List Int) : (xs.map fun x => s * (x - t)).sum = s * (xs.sum - xs.length * t) := by
  induction xs with
  | nil => simp
  | cons x xs ih =>
    simp only [List.map_cons, List.sum_cons, ih, List.length_cons]
    rw [Int.mul_sub, Int.mul_sub, Int.mul_sub, Int.mul_add]
    have : ((xs.length + 1 : Nat) : Int) * t = (xs.length : Int) * t + t := by
      rw [Int.natCast_add, Int.add_mul]; simp
    rw [this, Int.mul_add]
    omega

theorem sum_eq_zero_of_all_zero (l : List Int) (h : ∀ x ∈ l, x = 0) : l.sum = 0 := by
  induction l with
  | nil => rfl
  | cons x xs ih =>
    simp only [List.sum_cons]
    rw [h x (by simp), ih (fun y hy => h y (List.mem_cons_of_mem _ hy))]; rfl

/-- pointwise description of `subtractBaseline` -/
theorem subtractBaseline_get (r : Record) (bl : Q) (flip : Bool) (j : Nat) (hl : r.length ≤ r.data.length) :
    (subtractBaseline r bl flip).data[j]? =
      if j < r.length then (r.data[j]?).map (fun x => (if flip then -1 else 1) * (x - bl.trunc)) else r.data[j]? := by
  simp only [subtractBaseline, List.getElem?_append, List.length_map, List.length_take, List.getElem?_map,
    List.getElem?_take, List.getElem?_drop]
  have : min r.length r.data.length = r.length := by omega
  rw [this]
  split
  · rfl
  · congr 1; omega

/-- for a non-negative baseline, `int(bl)` is the floor and `int(bl) + (bl mod 1) = bl` -/
theorem trunc_add_frac (bl : Q) (h : 0 ≤ bl.num) : bl.trunc * (bl.den : Int) + bl.fracNum = bl.num := by
  unfold Q.trunc Q.fracNum
  rw [Int.tdiv_eq_ediv_of_nonneg h]
  have := Int.mul_ediv_add_emod bl.num bl.den
  rw [Int.mul_comm] at this
  exact this

/-- **flipped, baselined record: `Σ data + length·frac = Σ_{j<length} (baseline − raw_j)`**, over the denominator `d` -/
theorem baselined_sum (r : Record) (bl : Q) (hnum : 0 ≤ bl.num) (hl : r.length ≤ r.data.length)
    (hpad : ∀ x ∈ r.data.drop r.length, x = 0) :
    (subtractBaseline r bl true).data.sum * (bl.den : Int) + bl.fracNum * (r.length : Int)
      = (r.length : Int) * bl.num - (r.data.take r.length).sum * (bl.den : Int) := by
  have htf := trunc_add_frac bl hnum
  simp only [subtractBaseline, ↓reduceIte, List.sum_append, sum_eq_zero_of_all_zero _ hpad, Int.add_zero]
  rw [sum_map_affine (-1) bl.trunc (r.data.take r.length)]
  have hlen : ((r.data.take r.length).length : Int) = r.length := by
    simp only [List.length_take]; omega
  rw [hlen]
  generalize (r.data.take r.length).sum = S
  generalize bl.trunc = T at *
  generalize bl.fracNum = F at *
  generalize (bl.den : Int) = D at *
  generalize (r.length : Int) = L
  rw [← htf]
  grind

end Strax.Pulse
