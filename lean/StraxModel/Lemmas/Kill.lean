import StraxModel.Lemmas.Mailbox
/-
  Helper lemmas for the mailbox-level theorems of C06 (kill / force-kill), on top of the mailbox transition
  system of Model/Mailbox.lean and its invariant `Strax.Mailbox.Inv` (Lemmas/Mailbox.lean, C05).
-/
namespace Strax.Mailbox.Kill
open Strax Strax.Mailbox

/-- on a killed mailbox every wait predicate is true -/
theorem canWrite_of_killed {mb : MB} (hk : mb.killed = true) : mb.canWrite = true := by
  simp [MB.canWrite, hk]

theorem canFetch_of_killed {mb : MB} (hk : mb.killed = true) : mb.canFetch = true := by
  simp [MB.canFetch, hk]

/-- under the invariant, a killed mailbox has no waiter that is blocked without a notification -/
theorem no_blocked_of_killed {mb : MB} {sent} (h : MBInv mb sent) (hk : mb.killed = true) :
    (∀ (i : Nat) (sub : Sub), mb.subs[i]? = some sub → sub.flag ≠ some false) ∧
    mb.writeFlag ≠ some false ∧ mb.fetchFlag ≠ some false := by
  refine ⟨?_, ?_, ?_⟩
  · intro i sub hs hf
    have := (h.wakeR i sub hs hf).2
    rw [hk] at this; cases this
  · intro hf
    have := h.wakeW hf
    rw [canWrite_of_killed hk] at this; cases this
  · intro hf
    have := h.wakeF hf
    rw [canFetch_of_killed hk] at this; cases this

/-! ### `closed` is only set by the sender's last action -/

theorem sendCore_closed {mb mb' : MB} {n : Nat} {m : Msg} {out : SendOut} (hs : mb.sendCore n m = some (out, mb')) :
    mb'.closed = mb.closed := by
  simp only [MB.sendCore] at hs
  split at hs
  · simp at hs
  · repeat' split at hs
    all_goals (simp only [Option.some.injEq, Prod.mk.injEq] at hs; obtain ⟨_, rfl⟩ := hs)
    all_goals simp [MB.push, MB.notifyRead]
  · repeat' split at hs
    all_goals (simp only [Option.some.injEq, Prod.mk.injEq] at hs; obtain ⟨_, rfl⟩ := hs)
    all_goals simp [MB.push, MB.notifyRead]

theorem sendStep_closed {mb mb' : MB} {num : Option Nat} {m : Msg} {out : SendOut}
    (hs : mb.sendStep num m = some (out, mb')) : mb'.closed = mb.closed := by
  unfold MB.sendStep at hs; exact sendCore_closed hs

theorem kill_closed (mb : MB) (up : Bool) : (mb.kill up).closed = mb.closed := by
  simp only [MB.kill]
  cases up <;> by_cases hk : mb.killed = true <;> simp [hk, MB.notifyFetch, MB.notifyWrite, MB.notifyRead]

theorem gateStep_closed {mb mb' : MB} {ok : Bool} (hs : mb.gateStep = some (ok, mb')) : mb'.closed = mb.closed := by
  simp only [MB.gateStep] at hs
  split at hs
  · simp at hs
  · split at hs <;> (simp only [Option.some.injEq, Prod.mk.injEq] at hs; obtain ⟨_, rfl⟩ := hs; rfl)

theorem readStep_closed {mb mb' : MB} {i : Nat} {out : ReadOut} (hs : mb.readStep i = some (out, mb')) :
    mb'.closed = mb.closed := by
  simp only [MB.readStep] at hs
  split at hs
  · simp at hs
  · split at hs
    · simp at hs
    · repeat' split at hs
      all_goals (simp only [Option.some.injEq, Prod.mk.injEq] at hs; obtain ⟨_, rfl⟩ := hs)
      all_goals simp [MB.readWaitEnter, MB.readWaitAgain, MB.readKilled, MB.readTake, MB.notifyWrite]

/-- once `closed` is set the sender thread has ended -/
def ClosedDone (s : Sys) : Prop := s.mb.closed = true → s.spc = .done

theorem ClosedDone.init (c : Config) : ClosedDone (init c) := by
  intro h; simp [Mailbox.init] at h

theorem stepSender_closed {s s' : Sys} (hs : stepSender s = some s') :
    s'.mb.closed = s.mb.closed ∨ s'.spc = .done := by
  unfold stepSender at hs
  cases hpc : s.spc with
  | gate =>
    simp only [hpc] at hs
    cases hg : s.mb.gateStep with
    | none => simp [hg] at hs
    | some r =>
      obtain ⟨ok, mb⟩ := r
      simp only [hg, Option.some.injEq] at hs; subst hs
      exact Or.inl (gateStep_closed hg)
  | fetch =>
    simp only [hpc] at hs
    split at hs <;> (simp only [Option.some.injEq] at hs; subst hs; exact Or.inl rfl)
  | send num m =>
    simp only [hpc] at hs
    cases hsc : s.mb.sendStep num m with
    | none => simp [hsc] at hs
    | some r =>
      obtain ⟨out, mb⟩ := r
      have hcl := sendStep_closed hsc
      simp only [hsc] at hs
      cases out <;> (simp only [Option.some.injEq] at hs; subst hs; exact Or.inl hcl)
  | close =>
    simp only [hpc] at hs
    cases hsc : s.mb.sendStep none .stop with
    | none => simp [hsc] at hs
    | some r =>
      obtain ⟨out, mb⟩ := r
      have hcl := sendStep_closed hsc
      simp only [hsc] at hs
      cases out with
      | sent n => simp only [Option.some.injEq] at hs; subst hs; exact Or.inr rfl
      | dropped => simp only [Option.some.injEq] at hs; subst hs; exact Or.inr rfl
      | waiting n => simp only [Option.some.injEq] at hs; subst hs; exact Or.inl hcl
      | raised e => simp only [Option.some.injEq] at hs; subst hs; exact Or.inl hcl
  | exc e =>
    simp only [hpc, Option.some.injEq] at hs; subst hs
    exact Or.inl (kill_closed _ _)
  | done => simp [hpc] at hs
  | dead e => simp [hpc] at hs

theorem stepSender_done {s : Sys} (h : s.spc = .done) : stepSender s = none := by
  unfold stepSender; simp [h]

theorem stepReader_closed {s s' : Sys} {i : Nat} (hs : stepReader s i = some s') :
    s'.mb.closed = s.mb.closed ∧ s'.spc = s.spc := by
  unfold stepReader at hs
  cases hr : s.readers[i]? with
  | none => simp [hr] at hs
  | some r =>
    simp only [hr] at hs
    cases hpc : r.pc with
    | read =>
      simp only [hpc] at hs
      cases hrs : s.mb.readStep i with
      | none => simp [hrs] at hs
      | some x =>
        obtain ⟨out, mb⟩ := x
        have hcl := readStep_closed hrs
        simp only [hrs] at hs
        cases out <;> (simp only [Option.some.injEq] at hs; subst hs; exact ⟨hcl, rfl⟩)
    | futW pend =>
      simp only [hpc] at hs
      split at hs
      · split at hs
        · simp only [Option.some.injEq] at hs; subst hs; exact ⟨rfl, rfl⟩
        · simp at hs
      · simp at hs
    | done rest => simp [hpc] at hs
    | dead e => simp [hpc] at hs

theorem ClosedDone.step {s s' : Sys} {t : ThreadId} (h : ClosedDone s) (hs : step s t = some s') : ClosedDone s' := by
  cases t with
  | sender =>
    simp only [Mailbox.step] at hs
    intro hc
    rcases stepSender_closed hs with hcl | hd
    · rw [hcl] at hc
      rw [stepSender_done (h hc)] at hs; cases hs
    · exact hd
  | reader i =>
    simp only [Mailbox.step] at hs
    obtain ⟨hcl, hpc⟩ := stepReader_closed hs
    intro hc; rw [hcl] at hc; rw [hpc]; exact h hc
  | worker j =>
    simp only [Mailbox.step, stepWorker] at hs
    split at hs
    · simp only [Option.some.injEq] at hs; subst hs; exact h
    · simp at hs
  | killer k =>
    simp only [Mailbox.step, stepKiller] at hs
    split at hs
    · simp only [Option.some.injEq] at hs; subst hs
      intro hc; simp only at hc
      rw [kill_closed] at hc
      exact h hc
    · simp at hs

theorem ClosedDone.reachable {c : Config} {s : Sys} (h : Reachable c s) : ClosedDone s := by
  induction h with
  | init => exact ClosedDone.init c
  | step _ hs ih => exact ih.step hs

end Strax.Mailbox.Kill
