import StraxModel.Lemmas.NetInvStep
/-
  Terminal states of tree-shaped nets: if no thread can move, every thread has ended (no deadlock — with or
  without failures, lazy or eager, any capacity ≥ 1), and what the consumer's outcome then is.
-/
namespace Strax.Net
open Strax

/-! ### what "thread t cannot move" means -/

inductive Blocked (net : Net) (s : NState) : Instr → Prop
  | gate (m : Nat) (sp : MBSpec) (a : AMB) : net.mbs[m]? = some sp → s.mbs[m]? = some a → canFetch sp a = false →
      Blocked net s (.gate m)
  | read (m k : Nat) (a : AMB) (sb : ASub) : s.mbs[m]? = some a → a.subs[k]? = some sb → sb.buffered = 0 →
      a.killed = false → ¬ sb.next < a.nSent → sb.waiting ≠ none → Blocked net s (.read m k)
  | out (i : Instr) (m : Nat) (sp : MBSpec) (a : AMB) : (i = .send m ∨ i = .close m) → net.mbs[m]? = some sp →
      s.mbs[m]? = some a → a.closed = false → a.killed = false → ¬ a.heapLen < sp.cap → Blocked net s i
  | join (u : Nat) (tu : TSt) : s.thr[u]? = some tu → tu.prog ≠ [] → Blocked net s (.join u)

theorem blocked_of_none {net : Net} {s : NState} {t : Nat} {ts : TSt} {i : Instr} {rest : List Instr}
    (hts : s.thr[t]? = some ts) (hp : ts.prog = i :: rest) (h : step net s t = none) : Blocked net s i := by
  unfold step at h
  simp only [hts, hp] at h
  cases i with
  | gate m =>
    simp only at h
    split at h
    · rename_i sp a hsp ha
      split at h
      · simp at h
      · rename_i hc; exact .gate m sp a hsp ha (by simpa using hc)
    · simp at h
  | read m k =>
    simp only at h
    cases hm : s.mbs[m]? with
    | none => simp [hm] at h
    | some a =>
      simp only [hm] at h
      cases hk : a.subs[k]? with
      | none => simp [hk] at h
      | some sb =>
        simp only [hk] at h
        split at h
        · simp at h
        · rename_i hb
          split at h
          · simp at h
          · rename_i hkl
            split at h
            · simp at h
            · rename_i hn
              split at h
              · simp at h
              · rename_i hw
                exact .read m k a sb hm hk (by omega) (by simpa using hkl) hn (by
                  intro hx; rw [hx] at hw; simp at hw)
  | send m =>
    simp only at h
    split at h
    · rename_i sp a hsp ha
      split at h
      · simp at h
      · rename_i hc
        split at h
        · simp at h
        · rename_i hkl
          split at h
          · simp at h
          · rename_i hl
            exact .out _ m sp a (Or.inl rfl) hsp ha (by simpa using hc) (by simpa using hkl) hl
    · simp at h
  | close m =>
    simp only at h
    split at h
    · rename_i sp a hsp ha
      split at h
      · simp at h
      · rename_i hc
        split at h
        · simp at h
        · rename_i hkl
          split at h
          · simp at h
          · rename_i hl
            exact .out _ m sp a (Or.inr rfl) hsp ha (by simpa using hc) (by simpa using hkl) hl
    · simp at h
  | fail e => simp at h
  | die e => simp at h
  | killIfExc m => simp only at h; split at h <;> simp at h
  | killIfOwn m => simp only at h; split at h <;> simp at h
  | join u =>
    simp only at h
    split at h
    · rename_i tu htu
      split at h
      · simp at h
      · rename_i he
        exact .join u tu htu (by intro hx; simp [TSt.ended, hx] at he)
    · simp at h
  | finish sv => simp at h
  | dropEpi => simp at h

theorem terminal_none {net : Net} {s : NState} (h : s.terminal net = true) (t : Nat) : step net s t = none := by
  by_cases ht : t < s.thr.length
  · unfold NState.terminal NState.enabled at h
    simp only [List.isEmpty_iff, List.filter_eq_nil_iff, List.mem_range] at h
    have := h t ht
    cases hs : step net s t with
    | none => rfl
    | some x => simp [hs] at this
  · unfold step
    have : s.thr[t]? = none := by simp; omega
    simp [this]

/-- the slowest subscriber -/
theorem minNext_attained : ∀ (subs : List ASub), subs ≠ [] → ∃ (k : Nat) (sb : ASub), subs[k]? = some sb ∧ sb.next = minNext subs
  | [], h => absurd rfl h
  | [a], _ => ⟨0, a, rfl, rfl⟩
  | a :: b :: r, _ => by
    obtain ⟨k, sb, hk, hn⟩ := minNext_attained (b :: r) (by simp)
    simp only [minNext]
    by_cases hab : a.next ≤ minNext (b :: r)
    · exact ⟨0, a, rfl, by omega⟩
    · exact ⟨k + 1, sb, by rw [List.getElem?_cons_succ]; exact hk, by omega⟩

/-- a closed gate on a mailbox that is not killed: some waiter has not woken up yet, or no driver waits -/
theorem canFetch_false {sp : MBSpec} {a : AMB} (h : canFetch sp a = false) :
    a.killed = false ∧
    ((∃ (k : Nat) (sb : ASub) (x : Nat), a.subs[k]? = some sb ∧ sb.waiting = some x ∧ x < a.nSent) ∨
     ∀ (k : Nat) (sb : ASub), a.subs[k]? = some sb → sp.drive[k]? = some true → sb.waiting = none) := by
  unfold canFetch at h
  split at h
  · simp at h
  · rename_i hk
    refine ⟨by simpa using hk, ?_⟩
    split at h
    · rename_i hst
      left
      simp only [List.any_eq_true] at hst
      obtain ⟨sb, hmem, hx⟩ := hst
      obtain ⟨k, hk'⟩ := List.getElem?_of_mem hmem
      cases hw : sb.waiting with
      | none => simp [hw] at hx
      | some x => simp [hw] at hx; exact ⟨k, sb, x, hk', hw, hx⟩
    · right
      intro k sb hk' hd
      cases hw : sb.waiting with
      | none => rfl
      | some x =>
        exfalso
        have : ((a.subs.zip sp.drive).any fun x => x.2 && x.1.waiting.isSome) = true := by
          simp only [List.any_eq_true]
          refine ⟨(sb, true), ?_, by simp [hw]⟩
          apply List.mem_iff_getElem?.mpr
          exact ⟨k, by simp [List.getElem?_zip_eq_some, hk', hd]⟩
        simp only [this] at h
        cases h

end Strax.Net
