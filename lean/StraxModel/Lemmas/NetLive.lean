import StraxModel.Lemmas.NetInvStep
/-
  Terminal states of tree-shaped nets: if no thread can move, every thread has ended (no deadlock — with or
  without failures, lazy or eager, any capacity ≥ 1), and what the consumer's outcome then is.
-/
namespace Strax.Net
open Strax

/-! ### what "thread t cannot move" means -/

inductive Blocked (net : Net) (s : NState) : Instr → Prop
  | gate (m : Nat) (sp : MBSpec) (a : AMB) : net.mbs[m]? = some sp → s.mbs[m]? = some a → canFetch sp a = false →
      Blocked net s (.gate m)
  | read (m k : Nat) (a : AMB) (sb : ASub) : s.mbs[m]? = some a → a.subs[k]? = some sb → sb.buffered = 0 →
      a.killed = false → ¬ sb.next < a.nSent → sb.waiting ≠ none → Blocked net s (.read m k)
  | out (i : Instr) (m : Nat) (sp : MBSpec) (a : AMB) : (i = .send m ∨ i = .close m) → net.mbs[m]? = some sp →
      s.mbs[m]? = some a → a.closed = false → a.killed = false → ¬ a.heapLen < sp.cap → Blocked net s i
  | join (u : Nat) (tu : TSt) : s.thr[u]? = some tu → tu.prog ≠ [] → Blocked net s (.join u)

theorem Blocked.kind {net : Net} {s : NState} {i : Instr} (h : Blocked net s i) :
    (∃ m, i = .gate m) ∨ (∃ m k, i = .read m k) ∨ (∃ m, i = .send m) ∨ (∃ m, i = .close m) ∨ ∃ u, i = .join u := by
  cases h with
  | gate m _ _ _ _ _ => exact Or.inl ⟨m, rfl⟩
  | read m k _ _ _ _ _ _ _ _ => exact Or.inr (Or.inl ⟨m, k, rfl⟩)
  | out _ m _ _ hi _ _ _ _ _ =>
    rcases hi with hi | hi
    · exact Or.inr (Or.inr (Or.inl ⟨m, hi⟩))
    · exact Or.inr (Or.inr (Or.inr (Or.inl ⟨m, hi⟩)))
  | join u _ _ _ => exact Or.inr (Or.inr (Or.inr (Or.inr ⟨u, rfl⟩)))

theorem blocked_of_none {net : Net} {s : NState} {t : Nat} {ts : TSt} {i : Instr} {rest : List Instr}
    (hts : s.thr[t]? = some ts) (hp : ts.prog = i :: rest) (h : step net s t = none) : Blocked net s i := by
  unfold step at h
  simp only [hts, hp] at h
  cases i with
  | gate m =>
    simp only at h
    split at h
    · rename_i sp a hsp ha
      split at h
      · simp at h
      · rename_i hc; exact .gate m sp a hsp ha (by simpa using hc)
    · simp at h
  | read m k =>
    simp only at h
    cases hm : s.mbs[m]? with
    | none => simp [hm] at h
    | some a =>
      simp only [hm] at h
      cases hk : a.subs[k]? with
      | none => simp [hk] at h
      | some sb =>
        simp only [hk] at h
        split at h
        · simp at h
        · rename_i hb
          split at h
          · simp at h
          · rename_i hkl
            split at h
            · simp at h
            · rename_i hn
              split at h
              · simp at h
              · rename_i hw
                exact .read m k a sb hm hk (by omega) (by simpa using hkl) hn (by
                  intro hx; rw [hx] at hw; simp at hw)
  | send m =>
    simp only at h
    split at h
    · rename_i sp a hsp ha
      split at h
      · simp at h
      · rename_i hc
        split at h
        · simp at h
        · rename_i hkl
          split at h
          · simp at h
          · rename_i hl
            exact .out _ m sp a (Or.inl rfl) hsp ha (by simpa using hc) (by simpa using hkl) hl
    · simp at h
  | close m =>
    simp only at h
    split at h
    · rename_i sp a hsp ha
      split at h
      · simp at h
      · rename_i hc
        split at h
        · simp at h
        · rename_i hkl
          split at h
          · simp at h
          · rename_i hl
            exact .out _ m sp a (Or.inr rfl) hsp ha (by simpa using hc) (by simpa using hkl) hl
    · simp at h
  | fail e => simp at h
  | die e => simp at h
  | killIfExc m => simp only at h; split at h <;> simp at h
  | killIfOwn m => simp only at h; split at h <;> simp at h
  | join u =>
    simp only at h
    split at h
    · rename_i tu htu
      split at h
      · simp at h
      · rename_i he
        exact .join u tu htu (by intro hx; simp [TSt.ended, hx] at he)
    · simp at h
  | finish sv => simp at h
  | dropEpi => simp at h
  | setEpi ms => simp at h

theorem terminal_none {net : Net} {s : NState} (h : s.terminal net = true) (t : Nat) : step net s t = none := by
  by_cases ht : t < s.thr.length
  · unfold NState.terminal NState.enabled at h
    simp only [List.isEmpty_iff, List.filter_eq_nil_iff, List.mem_range] at h
    have := h t ht
    cases hs : step net s t with
    | none => rfl
    | some x => simp [hs] at this
  · unfold step
    have : s.thr[t]? = none := by simp; omega
    simp [this]

/-- the slowest subscriber -/
theorem minNext_attained : ∀ (subs : List ASub), subs ≠ [] → ∃ (k : Nat) (sb : ASub), subs[k]? = some sb ∧ sb.next = minNext subs
  | [], h => absurd rfl h
  | [a], _ => ⟨0, a, rfl, rfl⟩
  | a :: b :: r, _ => by
    obtain ⟨k, sb, hk, hn⟩ := minNext_attained (b :: r) (by simp)
    simp only [minNext]
    by_cases hab : a.next ≤ minNext (b :: r)
    · exact ⟨0, a, rfl, by omega⟩
    · exact ⟨k + 1, sb, by rw [List.getElem?_cons_succ]; exact hk, by omega⟩

/-- a closed gate on a mailbox that is not killed: some waiter has not woken up yet, or no driver waits -/
theorem canFetch_false {sp : MBSpec} {a : AMB} (h : canFetch sp a = false) :
    a.killed = false ∧
    ((∃ (k : Nat) (sb : ASub) (x : Nat), a.subs[k]? = some sb ∧ sb.waiting = some x ∧ x < a.nSent) ∨
     ∀ (k : Nat) (sb : ASub), a.subs[k]? = some sb → sp.drive[k]? = some true → sb.waiting = none) := by
  unfold canFetch at h
  split at h
  · simp at h
  · rename_i hk
    refine ⟨by simpa using hk, ?_⟩
    split at h
    · rename_i hst
      left
      simp only [List.any_eq_true] at hst
      obtain ⟨sb, hmem, hx⟩ := hst
      obtain ⟨k, hk'⟩ := List.getElem?_of_mem hmem
      cases hw : sb.waiting with
      | none => simp [hw] at hx
      | some x => simp [hw] at hx; exact ⟨k, sb, x, hk', hw, hx⟩
    · right
      intro k sb hk' hd
      cases hw : sb.waiting with
      | none => rfl
      | some x =>
        exfalso
        have : ((a.subs.zip sp.drive).any fun x => x.2 && x.1.waiting.isSome) = true := by
          simp only [List.any_eq_true]
          refine ⟨(sb, true), ?_, by simp [hw]⟩
          apply List.mem_iff_getElem?.mpr
          exact ⟨k, by simp [List.getElem?_zip_eq_some, hk', hd]⟩
        simp only [this] at h
        cases h

/-! ### terminal states -/

/-- everything the terminal-state analysis uses -/
structure Term (net : Net) (c : Cert) (s : NState) : Prop where
  tree : TreeNet net c
  inv : TInv net c s
  stuck : ∀ t, step net s t = none

section
variable {net : Net} {c : Cert} {s : NState}

theorem Term.blocked (x : Term net c s) {t : Nat} {ts : TSt} {i : Instr} {rest : List Instr}
    (hts : s.thr[t]? = some ts) (hp : ts.prog = i :: rest) : Blocked net s i :=
  blocked_of_none hts hp (x.stuck t)

theorem TInv.thrState (h : TInv net c s) {t : Nat} (ht : t < net.threads.length) : ∃ ts, s.thr[t]? = some ts := by
  rw [← h.lenT] at ht; exact ⟨_, List.getElem?_eq_getElem ht⟩

/-- a reader whose `read` could proceed is not stuck -/
theorem Term.read_stuck (x : Term net c s) {r : Nat} {tsr : TSt} {m j : Nat} {rest : List Instr} {a : AMB} {sb : ASub}
    (hts : s.thr[r]? = some tsr) (hp : tsr.prog = .read m j :: rest) (ha : s.mbs[m]? = some a) (hsb : a.subs[j]? = some sb) :
    sb.buffered = 0 ∧ a.killed = false ∧ ¬ sb.next < a.nSent ∧ sb.waiting ≠ none := by
  cases x.blocked hts hp with
  | read _ _ a' sb' ha' hsb' h1 h2 h3 h4 =>
    rw [ha] at ha'; cases ha'; rw [hsb] at hsb'; cases hsb'
    exact ⟨h1, h2, h3, h4⟩
  | out _ _ _ _ hi _ _ _ _ _ => rcases hi with hi | hi <;> cases hi

/-- a sink never is the slowest reader of a live mailbox in a terminal state -/
theorem Term.sink_not_slow (x : Term net c s) {m : Nat} {a : AMB} {k : Nat} {sb : ASub} (hmlt : m < net.mbs.length)
    (ha : s.mbs[m]? = some a) (hk : a.subs[k]? = some sb) (hne : k ≠ c.pipe m) (hkl : a.killed = false)
    (hslow : sb.next < a.nSent) : False := by
  obtain ⟨sp, hsp, _, _, _, _, _, hr⟩ := x.tree.mailbox hmlt
  have hklt : k < sp.drive.length := by
    rw [← x.inv.lenS m sp a hsp ha]; exact (List.getElem?_eq_some_iff.mp hk).1
  obtain ⟨hrlt, _, h1, _⟩ := hr k hklt
  obtain ⟨hnm, hout, hsrc⟩ := h1 hne
  obtain ⟨tsr, htsr⟩ := x.inv.thrState hrlt
  have hthr : net.threads[c.reader m k]? = some (net.threads[c.reader m k]'hrlt) := List.getElem?_eq_getElem hrlt
  generalize net.threads[c.reader m k]'hrlt = thr at hthr
  have hsink : SinkOk c net.mbs.length (c.reader m k) thr := by
    cases x.tree.kind hthr with
    | main hmain _ => exact absurd hmain hnm
    | sender mo _ ho _ => rw [hout] at ho; cases ho
    | sink _ _ hok _ => exact hok
  unfold SinkOk at hsink
  rw [hsrc] at hsink
  obtain ⟨p0, p1, p2⟩ := x.inv.pc _ thr tsr hthr htsr
  have hsn := (x.inv.snd m a hmlt ha).1
  have hrlt' : c.reader m k < net.threads.length - 1 := by omega
  cases hp : tsr.prog with
  | nil =>
    cases hin : tsr.inEpi with
    | false =>
      have := x.inv.rd m a k sb tsr ha hk htsr hin
      rw [hp] at this; simp at this; omega
    | true =>
      obtain ⟨_, hex⟩ := p2 hin
      cases hexc : tsr.exc with
      | none => simp [hexc] at hex
      | some e =>
        obtain ⟨own, r⟩ := e
        cases own with
        | false =>
          have := x.inv.sinkK _ tsr r hrlt' hout htsr hexc
          rw [hsrc] at this
          obtain ⟨a', ha', hk'⟩ := this
          rw [ha] at ha'; cases ha'; rw [hkl] at hk'; cases hk'
        | true =>
          have := (x.inv.kills _ thr tsr true r hthr htsr hin hexc).2 rfl m (by rw [hsink.2.2.2.2.2]; simp)
          rcases this with hm | ⟨a', ha', hk'⟩
          · rw [hp] at hm; cases hm
          · rw [ha] at ha'; cases ha'; rw [hkl] at hk'; cases hk'
  | cons i rest =>
    have hb := x.blocked htsr hp
    cases hin : tsr.inEpi with
    | false =>
      have hmem := suffix_head_mem (by rw [← hp]; exact p1 hin)
      rcases hsink.2.2.2.1 i hmem with h1 | h1 | h1
      · subst h1
        exact (x.read_stuck htsr hp ha hk).2.2.1 hslow
      · cases i <;> simp [Instr.isFail] at h1
        rcases hb.kind with ⟨_, h⟩ | ⟨_, _, h⟩ | ⟨_, h⟩ | ⟨_, h⟩ | ⟨_, h⟩ <;> cases h
      · cases i <;> simp [Instr.isDie] at h1
        rcases hb.kind with ⟨_, h⟩ | ⟨_, _, h⟩ | ⟨_, h⟩ | ⟨_, h⟩ | ⟨_, h⟩ <;> cases h
    | true =>
      have hmem := suffix_head_mem (by rw [← hp]; exact (p2 hin).1)
      rw [hsink.2.2.2.2.2] at hmem; simp at hmem; subst hmem
      rcases hb.kind with ⟨_, h⟩ | ⟨_, _, h⟩ | ⟨_, h⟩ | ⟨_, h⟩ | ⟨_, h⟩ <;> cases h

/-- a sender blocked in `send` / `close` waits for its PIPE reader: that one is behind -/
theorem Term.pipe_slow (x : Term net c s) {m : Nat} {sp : MBSpec} {a : AMB} (hsp : net.mbs[m]? = some sp) (ha : s.mbs[m]? = some a)
    (hkl : a.killed = false) (hfull : ¬ a.heapLen < sp.cap) :
    ∃ sb, a.subs[c.pipe m]? = some sb ∧ sb.next < a.nSent := by
  have hmlt : m < net.mbs.length := (List.getElem?_eq_some_iff.mp hsp).1
  obtain ⟨sp', hsp', hcap, hp, _⟩ := x.tree.mailbox hmlt
  rw [hsp] at hsp'; cases hsp'
  have hlen := x.inv.lenS m sp a hsp ha
  have hne : a.subs ≠ [] := by
    intro h0; rw [h0] at hlen; simp at hlen; omega
  obtain ⟨k, sb, hk, hn⟩ := minNext_attained a.subs hne
  have hslow : sb.next < a.nSent := by unfold AMB.heapLen at hfull; omega
  by_cases hkp : k = c.pipe m
  · subst hkp; exact ⟨sb, hk, hslow⟩
  · exact (x.sink_not_slow hmlt ha hk hkp hkl hslow).elim

/-- nobody has been handed a message it has not taken yet (such a waiter would be enabled) -/
theorem Term.no_stale (x : Term net c s) {m : Nat} {a : AMB} {k : Nat} {sb : ASub} {v : Nat} (ha : s.mbs[m]? = some a)
    (hk : a.subs[k]? = some sb) (hw : sb.waiting = some v) (hkl : a.killed = false) : ¬ v < a.nSent := by
  intro hlt
  obtain ⟨h1, _, tsr, rest, hr, hp⟩ := x.inv.wait m a k sb v ha hk hw
  have := (x.read_stuck hr hp ha hk).2.2.1
  rw [h1] at hlt; exact this hlt

end

section
variable {net : Net} {c : Cert} {s : NState}

/-- DOWN: in a terminal state no pipe reader is stuck in a `read` — by induction on the rank of the mailbox: its sender
would have to be stuck in a `read` of a mailbox of lower rank -/
theorem Term.no_stuck (x : Term net c s) : ∀ (n m : Nat), c.rank m = n → m < net.mbs.length →
    ∀ (tsr : TSt) (rest : List Instr), s.thr[c.reader m (c.pipe m)]? = some tsr → tsr.prog = .read m (c.pipe m) :: rest → False := by
  intro n
  induction n using Nat.strongRecOn with
  | _ n ih =>
    intro m hrank hmlt tsr rest htsr hp
    obtain ⟨thr, hthr⟩ := x.inv.thread htsr
    obtain ⟨hin, _, _, sp, a, sb, hsp, ha, hsb⟩ := head_read x.tree x.inv hthr htsr hp
    obtain ⟨hb0, hkl, hnlt, hwait⟩ := x.read_stuck htsr hp ha hsb
    have hrd := x.inv.rd m a (c.pipe m) sb tsr ha hsb htsr hin
    rw [hp, count_cons_self, hb0] at hrd
    obtain ⟨sp', hsp', _, hpl, hdrv, _⟩ := x.tree.mailbox hmlt
    rw [hsp] at hsp'; cases hsp'
    obtain ⟨thv, hthv, _, hok⟩ := sender_thread x.tree hmlt
    have hvlt : c.sender m < net.threads.length := (List.getElem?_eq_some_iff.mp hthv).1
    obtain ⟨tsv, htsv⟩ := x.inv.thrState hvlt
    obtain ⟨q0, q1, q2⟩ := x.inv.pc _ thv tsv hthv htsv
    obtain ⟨s1, s2, s3⟩ := x.inv.snd m a hmlt ha
    obtain ⟨s4, _⟩ := s3 tsv htsv
    cases hinv : tsv.inEpi with
    | true =>
      obtain ⟨hsuf, hex⟩ := q2 hinv
      cases hexc : tsv.exc with
      | none => simp [hexc] at hex
      | some e =>
        obtain ⟨own, r0⟩ := e
        rcases (x.inv.kills _ thv tsv own r0 hthv htsv hinv hexc).1 m (by rw [hok.2.2.1]; simp) with hm | ⟨a', ha', hk'⟩
        · cases hpv : tsv.prog with
          | nil => rw [hpv] at hm; cases hm
          | cons i rest' =>
            have hb := x.blocked htsv hpv
            have hmem := suffix_head_mem (by rw [← hpv]; exact hsuf)
            rw [hok.2.2.1] at hmem; simp at hmem; subst hmem
            rcases hb.kind with ⟨_, h⟩ | ⟨_, _, h⟩ | ⟨_, h⟩ | ⟨_, h⟩ | ⟨_, h⟩ <;> cases h
        · rw [ha] at ha'; cases ha'; rw [hkl] at hk'; cases hk'
    | false =>
      cases hpv : tsv.prog with
      | nil =>
        have := s4 hinv
        rw [hpv] at this; simp [countOut] at this
        omega
      | cons i rest' =>
        have hb := x.blocked htsv hpv
        have hmem : i ∈ thv.body := suffix_head_mem (by rw [← hpv]; exact q1 hinv)
        have hform := hok.mem hmem
        cases hb with
        | gate m' sp' a' hsp' ha' hcf =>
          have hm' : m' = m := by
            rcases hform with h1 | h1
            · cases h1
            · simpa [senderInstrOk] using h1
          subst hm'
          rw [ha] at ha'; cases ha'; rw [hsp] at hsp'; cases hsp'
          obtain ⟨_, hcases⟩ := canFetch_false hcf
          rcases hcases with ⟨k2, sb2, v2, hk2, hw2, hlt⟩ | hnd
          · exact x.no_stale ha hk2 hw2 hkl hlt
          · exact hwait (hnd (c.pipe m') sb hsb hdrv)
        | read m' k' a' sb' ha' hsb' _ _ _ _ =>
          rcases hform with h1 | h1
          · cases h1
          · simp only [senderInstrOk] at h1
            obtain ⟨hm'lt, hrd', hpipe', hrk⟩ := h1
            subst hpipe'
            exact ih (c.rank m') (by omega) m' rfl hm'lt tsv rest' (by rw [hrd']; exact htsv) hpv
        | out _ m' sp' a' hi hsp' ha' hcl' hkl' hfull =>
          have hm' : m' = m := by
            rcases hform with h1 | h1
            · rcases hi with hi | hi <;> rw [hi] at h1 <;> cases h1; rfl
            · rcases hi with hi | hi <;> rw [hi] at h1 <;> simp [senderInstrOk] at h1
              exact h1
          subst hm'
          rw [ha] at ha'; cases ha'
          obtain ⟨sb', hsb', hslow⟩ := x.pipe_slow hsp' ha hkl hfull
          rw [hsb] at hsb'; cases hsb'
          exact hnlt hslow
        | join u _ _ _ =>
          rcases hform with h1 | h1
          · cases h1
          · simp [senderInstrOk] at h1

end

/-! ### list facts about suffixes of `a ++ b` -/

theorem suffix_append_cases {α} {l a b : List α} (h : l <:+ a ++ b) : l <:+ b ∨ ∃ a', a' ≠ [] ∧ a' <:+ a ∧ l = a' ++ b := by
  induction a with
  | nil => exact Or.inl (by simpa using h)
  | cons x a' ih =>
    rcases List.suffix_cons_iff.mp (by simpa using h) with h1 | h1
    · exact Or.inr ⟨x :: a', by simp, List.suffix_refl _, by simpa using h1⟩
    · rcases ih h1 with h2 | ⟨a'', hne, hs, he⟩
      · exact Or.inl h2
      · exact Or.inr ⟨a'', hne, hs.trans (List.suffix_cons x a'), he⟩

section
variable {net : Net} {c : Cert} {s : NState}

/-- upper bound of the ranks of the mailboxes -/
def rankBound (net : Net) (c : Cert) : Nat := (List.range net.mbs.length).foldl (fun acc m => max acc (c.rank m)) 0

theorem foldl_max_le (f : Nat → Nat) : ∀ (l : List Nat) (init : Nat) (m : Nat), m ∈ l → f m ≤ l.foldl (fun acc m => max acc (f m)) init := by
  intro l
  induction l with
  | nil => intro init m h; cases h
  | cons x r ih =>
    intro init m h
    simp only [List.foldl_cons]
    rcases List.mem_cons.mp h with rfl | h
    · have : ∀ (l : List Nat) (i : Nat), i ≤ l.foldl (fun acc m => max acc (f m)) i := by
        intro l; induction l with
        | nil => intro i; simp
        | cons y r' ih' => intro i; simp only [List.foldl_cons]; exact Nat.le_trans (Nat.le_max_left _ _) (ih' _)
      exact Nat.le_trans (Nat.le_max_right _ _) (this r _)
    · exact ih _ m h

theorem rank_le_bound (net : Net) (c : Cert) {m : Nat} (h : m < net.mbs.length) : c.rank m ≤ rankBound net c :=
  foldl_max_le c.rank _ 0 m (List.mem_range.mpr h)

/-- the consumer has left its reading phase without an exception -/
def MainDone (net : Net) (s : NState) : Prop :=
  ∃ tsm, s.thr[net.threads.length - 1]? = some tsm ∧ tsm.inEpi = false ∧ ∀ m k, Instr.read m k ∉ tsm.prog

/-- UP: once the consumer has read everything, every sender has ended regularly — by induction from the target
mailbox towards the sources: the pipe reader of a mailbox has consumed all of it, so it was closed -/
theorem Term.senders_done (x : Term net c s) (hmd : MainDone net s) : ∀ (d m : Nat), rankBound net c - c.rank m = d →
    m < net.mbs.length → ∃ tsv a, s.thr[c.sender m]? = some tsv ∧ tsv.prog = [] ∧ tsv.inEpi = false ∧
      s.mbs[m]? = some a ∧ a.closed = true ∧ a.nSent = tot net c m := by
  intro d
  induction d using Nat.strongRecOn with
  | _ d ih =>
    intro m hd hmlt
    obtain ⟨sp, hsp, _, hpl, _, _, _, hr⟩ := x.tree.mailbox hmlt
    obtain ⟨a, ha⟩ := x.inv.mailbox hmlt
    obtain ⟨sb, hsb⟩ := x.inv.subscriber hsp ha hpl
    obtain ⟨hrlt, _, _, hkind⟩ := hr (c.pipe m) hpl
    obtain ⟨tsr, htsr⟩ := x.inv.thrState hrlt
    -- the pipe reader has consumed every message of m
    have hcons : sb.next - sb.buffered = tot net c m := by
      rcases hkind rfl with hmain | hsome
      · obtain ⟨tsm, htsm, hin, hnr⟩ := hmd
        rw [hmain] at htsr; rw [htsm] at htsr; cases htsr
        have := x.inv.rd m a (c.pipe m) sb tsr ha hsb (by rw [hmain]; exact htsm) hin
        rw [List.count_eq_zero.mpr (hnr m (c.pipe m))] at this
        omega
      · cases ho : c.out (c.reader m (c.pipe m)) with
        | none => simp [ho] at hsome
        | some o =>
          obtain ⟨thw, hthw, hmem⟩ := reader_has_read x.tree hsp hpl
          have hkw := x.tree.kind hthw
          cases hkw with
          | main hmain _ =>
            -- the consumer has no output
            have hlt : net.threads.length - 1 < net.threads.length := by have := x.tree.1; omega
            cases x.tree.kind hthw with
            | main _ hok => rw [hmain] at ho; rw [hok.2.2.2.1] at ho; cases ho
            | sender _ hne _ _ => exact absurd hmain hne
            | sink hne _ _ _ => exact absurd hmain hne
          | sink _ hnone _ _ => rw [hnone] at ho; cases ho
          | sender o' _ ho' hok =>
            rw [ho] at ho'; cases ho'
            have hrk : c.rank m < c.rank o := by
              rcases hok.mem hmem with h1 | h1
              · cases h1
              · simp only [senderInstrOk] at h1; exact h1.2.2.2
            have hb := rank_le_bound net c hok.1
            obtain ⟨tsw, _, htsw, hpw, hinw, _⟩ := ih (rankBound net c - c.rank o) (by omega) o rfl hok.1
            rw [hok.2.1] at htsw
            rw [htsr] at htsw; cases htsw
            have := x.inv.rd m a (c.pipe m) sb tsr ha hsb htsr hinw
            rw [hpw] at this; simpa using this
    have hsub := x.inv.sub m a (c.pipe m) sb ha hsb
    obtain ⟨s1, s2, s3⟩ := x.inv.snd m a hmlt ha
    have hns : a.nSent = tot net c m := by omega
    have hcl : a.closed = true := s2.mpr hns
    obtain ⟨thv, hthv, _, _⟩ := sender_thread x.tree hmlt
    have hvlt : c.sender m < net.threads.length := (List.getElem?_eq_some_iff.mp hthv).1
    obtain ⟨tsv, htsv⟩ := x.inv.thrState hvlt
    obtain ⟨h1, h2⟩ := (s3 tsv htsv).2 hcl
    exact ⟨tsv, a, htsv, h1, h2, ha, hcl, hns⟩

end

section
variable {net : Net} {c : Cert} {s : NState}

theorem Term.main_thread (x : Term net c s) :
    ∃ thm tsm, net.threads[net.threads.length - 1]? = some thm ∧ s.thr[net.threads.length - 1]? = some tsm ∧
      MainOk c net.mbs.length net.threads.length thm := by
  have hlt : net.threads.length - 1 < net.threads.length := by have := x.tree.1; omega
  have hth : net.threads[net.threads.length - 1]? = some (net.threads[net.threads.length - 1]'hlt) := List.getElem?_eq_getElem hlt
  obtain ⟨tsm, htsm⟩ := x.inv.thrState hlt
  cases x.tree.kind hth with
  | main _ hok => exact ⟨_, tsm, hth, htsm, hok⟩
  | sender m hne _ _ => exact absurd rfl hne
  | sink hne _ _ _ => exact absurd rfl hne

/-- a thread that is not the consumer is never waiting in a `join` -/
theorem Term.not_join (x : Term net c s) {t : Nat} {th : Thread} {ts : TSt} {u : Nat} {rest : List Instr}
    (hne : t ≠ net.threads.length - 1) (hth : net.threads[t]? = some th) (hts : s.thr[t]? = some ts)
    (hp : ts.prog = .join u :: rest) : False := by
  have hmem : Instr.join u ∈ th.body ∨ Instr.join u ∈ th.epi := by
    rcases x.inv.headMem hth hts hp with ⟨_, hs⟩ | ⟨_, hs⟩
    · exact Or.inl (suffix_head_mem hs)
    · exact Or.inr (suffix_head_mem hs)
  cases x.tree.kind hth with
  | main hmain _ => exact hne hmain
  | sender m _ _ hok =>
    rcases hmem with hm | hm
    · rcases hok.mem hm with h1 | h1
      · cases h1
      · simp [senderInstrOk] at h1
    · rw [hok.2.2.1] at hm; simp at hm
  | sink _ _ hok _ =>
    rcases hmem with hm | hm
    · rcases hok.2.2.2.1 _ hm with h1 | h1 | h1
      · cases h1
      · simp [Instr.isFail] at h1
      · simp [Instr.isDie] at h1
    · rw [hok.2.2.2.2.2] at hm; simp at hm

/-- when every mailbox is killed, nothing but a `join` can block -/
theorem Term.all_killed_ended (x : Term net c s) (hk : ∀ m, m < net.mbs.length → s.killedMb m) {t : Nat} {ts : TSt}
    (hne : t ≠ net.threads.length - 1) (hts : s.thr[t]? = some ts) : ts.prog = [] := by
  cases hp : ts.prog with
  | nil => rfl
  | cons i rest =>
    exfalso
    obtain ⟨th, hth⟩ := x.inv.thread hts
    have hb := x.blocked hts hp
    have hkm : ∀ (m : Nat) (a : AMB), s.mbs[m]? = some a → a.killed = true := by
      intro m a ha
      have hmlt : m < net.mbs.length := by rw [← x.inv.lenM]; exact (List.getElem?_eq_some_iff.mp ha).1
      obtain ⟨a', ha', hk'⟩ := hk m hmlt
      rw [ha] at ha'; cases ha'; exact hk'
    cases hb with
    | gate m sp a hsp ha hcf =>
      have := (canFetch_false hcf).1; rw [hkm m a ha] at this; cases this
    | read m k a sb ha _ _ hkl _ _ => rw [hkm m a ha] at hkl; cases hkl
    | out _ m sp a _ _ ha _ hkl _ => rw [hkm m a ha] at hkl; cases hkl
    | join u _ _ _ => exact x.not_join hne hth hts hp

/-- the central result: a terminal state of a tree-shaped net has no unfinished thread -/
theorem Term.all_ended (x : Term net c s) : ∀ (t : Nat) (ts : TSt), s.thr[t]? = some ts → ts.prog = [] := by
  obtain ⟨thm, tsm, hthm, htsm, hokm⟩ := x.main_thread
  obtain ⟨sv, hepi⟩ := hokm.epi_eq
  obtain ⟨q0, q1, q2⟩ := x.inv.pc _ thm tsm hthm htsm
  -- first: the consumer has ended
  have hmainEnded : tsm.prog = [] := by
    cases hpm : tsm.prog with
    | nil => rfl
    | cons i rest =>
      exfalso
      have hb := x.blocked htsm hpm
      have hform : i = .read (c.src (net.threads.length - 1)).1 (c.src (net.threads.length - 1)).2 ∨ i.isFail = true ∨ i ∈ thm.epi := by
        rcases x.inv.headMem hthm htsm hpm with ⟨_, hs⟩ | ⟨_, hs⟩
        · exact hokm.body_mem (suffix_head_mem hs)
        · exact Or.inr (Or.inr (suffix_head_mem hs))
      cases hb with
      | gate m _ _ _ _ _ =>
        rcases hform with h1 | h1 | h1
        · cases h1
        · simp [Instr.isFail] at h1
        · rcases hokm.epi_mem h1 with ⟨_, _, h2⟩ | ⟨_, _, h2⟩ | ⟨_, h2⟩ <;> cases h2
      | out _ m _ _ hi _ _ _ _ _ =>
        rcases hform with h1 | h1 | h1
        · rcases hi with hi | hi <;> rw [hi] at h1 <;> cases h1
        · rcases hi with hi | hi <;> rw [hi] at h1 <;> simp [Instr.isFail] at h1
        · rcases hokm.epi_mem h1 with ⟨_, _, h2⟩ | ⟨_, _, h2⟩ | ⟨_, h2⟩ <;> rcases hi with hi | hi <;> rw [hi] at h2 <;> cases h2
      | read m k a sb ha hsb _ _ _ _ =>
        -- stuck reading the target: impossible (DOWN)
        rcases hform with h1 | h1 | h1
        · cases h1
          have hmlt := hokm.1
          refine x.no_stuck _ _ rfl hmlt tsm rest ?_ ?_
          · rw [hokm.2.2.1, hokm.2.1]; exact htsm
          · rw [hokm.2.2.1]; exact hpm
        · simp [Instr.isFail] at h1
        · rcases hokm.epi_mem h1 with ⟨_, _, h2⟩ | ⟨_, _, h2⟩ | ⟨_, h2⟩ <;> cases h2
      | join u tu htu hnend =>
        have hu := head_join x.tree x.inv hthm htsm hpm
        have hune : u ≠ net.threads.length - 1 := by omega
        cases hin : tsm.inEpi with
        | true =>
          -- the consumer has killed every mailbox: nobody can be blocked
          obtain ⟨hsuf, hex⟩ := q2 hin
          cases hexc : tsm.exc with
          | none => simp [hexc] at hex
          | some e =>
            obtain ⟨own, r0⟩ := e
            have hk1 := (x.inv.kills _ thm tsm own r0 hthm htsm hin hexc).1
            have hnokill : ∀ m, Instr.killIfExc m ∉ tsm.prog := by
              intro m hm
              rw [hpm] at hsuf hm
              rw [hepi, List.append_assoc] at hsuf
              rcases suffix_append_cases hsuf with h2 | ⟨a', hne, hs, he⟩
              · have := suffix_mem h2 hm
                simp only [List.mem_append, List.mem_map, List.mem_range, List.mem_singleton] at this
                rcases this with ⟨_, _, h3⟩ | h3 <;> cases h3
              · cases a' with
                | nil => exact hne rfl
                | cons y a'' =>
                  simp only [List.cons_append, List.cons.injEq] at he
                  have := suffix_mem hs (List.mem_cons_self (a := y) (l := a''))
                  simp only [List.mem_cons, List.mem_map, List.mem_range] at this
                  rcases this with h3 | ⟨_, _, h3⟩ <;> (rw [← he.1] at h3; cases h3)
            have hall : ∀ m, m < net.mbs.length → s.killedMb m := by
              intro m hm
              rcases hk1 m (by rw [hepi]; simp only [List.mem_append, List.mem_cons, List.mem_map, List.mem_range]; exact Or.inl (Or.inl (Or.inr ⟨m, hm, rfl⟩))) with h2 | h2
              · exact absurd h2 (hnokill m)
              · exact h2
            exact hnend (x.all_killed_ended hall hune htu)
        | false =>
          -- the consumer has read everything: every sender has ended regularly, every mailbox is closed
          have hnoread : ∀ m k, Instr.read m k ∉ tsm.prog := by
            intro m k hm
            have hsuf := q1 hin
            rw [hpm] at hsuf hm
            rw [hokm.2.2.2.2.1] at hsuf
            rcases suffix_append_cases hsuf with h2 | ⟨a', hne, hs, he⟩
            · rcases hokm.epi_mem (suffix_mem h2 hm) with ⟨_, _, h3⟩ | ⟨_, _, h3⟩ | ⟨_, h3⟩ <;> cases h3
            · cases a' with
              | nil => exact hne rfl
              | cons y a'' =>
                simp only [List.cons_append, List.cons.injEq] at he
                rcases hokm.2.2.2.2.2.1 y (suffix_mem hs (by simp)) with h3 | h3
                · rw [← he.1] at h3; cases h3
                · rw [← he.1] at h3; simp [Instr.isFail] at h3
          have hmd : MainDone net s := ⟨tsm, htsm, hin, hnoread⟩
          obtain ⟨thu, hthu⟩ := x.inv.thread htu
          cases x.tree.kind hthu with
          | main hmain _ => exact hune hmain
          | sender o _ _ hok =>
            obtain ⟨tsv, _, htsv, hpv, _⟩ := x.senders_done hmd _ o rfl hok.1
            rw [hok.2.1, htu] at htsv; cases htsv
            exact hnend hpv
          | sink _ hnone hok hv =>
            unfold SinkOk at hok
            obtain ⟨sp, hsp, hklt⟩ := hv
            obtain ⟨_, a, _, _, _, ha, _, hns⟩ := x.senders_done hmd _ (c.src u).1 rfl hok.1
            obtain ⟨sb, hsb⟩ := x.inv.subscriber hsp ha hklt
            obtain ⟨p0, p1, p2⟩ := x.inv.pc _ thu tu hthu htu
            cases hpu : tu.prog with
            | nil => exact hnend hpu
            | cons j rest' =>
              have hbu := x.blocked htu hpu
              cases hinu : tu.inEpi with
              | true =>
                have hmem := suffix_head_mem (by rw [← hpu]; exact (p2 hinu).1)
                rw [hok.2.2.2.2.2] at hmem; simp at hmem; subst hmem
                rcases hbu.kind with ⟨_, h⟩ | ⟨_, _, h⟩ | ⟨_, h⟩ | ⟨_, h⟩ | ⟨_, h⟩ <;> cases h
              | false =>
                have hmem := suffix_head_mem (by rw [← hpu]; exact p1 hinu)
                rcases hok.2.2.2.1 j hmem with h1 | h1 | h1
                · subst h1
                  obtain ⟨hb0, _, hnlt, _⟩ := x.read_stuck htu hpu ha hsb
                  have := x.inv.rd _ a _ sb tu ha hsb (by rw [hok.2.1]; exact htu) hinu
                  rw [hpu, count_cons_self] at this
                  omega
                · cases j <;> simp [Instr.isFail] at h1
                  rcases hbu.kind with ⟨_, h⟩ | ⟨_, _, h⟩ | ⟨_, h⟩ | ⟨_, h⟩ | ⟨_, h⟩ <;> cases h
                · cases j <;> simp [Instr.isDie] at h1
                  rcases hbu.kind with ⟨_, h⟩ | ⟨_, _, h⟩ | ⟨_, h⟩ | ⟨_, h⟩ | ⟨_, h⟩ <;> cases h
  -- then: it has joined everybody
  intro t ts hts
  have htlt : t < net.threads.length := by rw [← x.inv.lenT]; exact (List.getElem?_eq_some_iff.mp hts).1
  by_cases hmain : t = net.threads.length - 1
  · subst hmain; rw [htsm] at hts; cases hts; exact hmainEnded
  · rcases x.inv.joins t tsm (by omega) htsm with ⟨tu, htu, hpu⟩ | hj
    · rw [hts] at htu; cases htu; exact hpu
    · rw [hmainEnded] at hj; cases hj

end

end Strax.Net
