import StraxModel.Lemmas.NetTree
/-
  The inductive invariant of tree-shaped nets and its preservation by every step.
-/
namespace Strax.Net
open Strax

def NState.killedMb (s : NState) (m : Nat) : Prop := ∃ a, s.mbs[m]? = some a ∧ a.killed = true

def NState.endedThr (s : NState) (u : Nat) : Prop := ∃ tu, s.thr[u]? = some tu ∧ tu.prog = []

structure TInv (net : Net) (c : Cert) (s : NState) : Prop where
  lenT : s.thr.length = net.threads.length
  lenM : s.mbs.length = net.mbs.length
  lenS : ∀ (m : Nat) (sp : MBSpec) (a : AMB), net.mbs[m]? = some sp → s.mbs[m]? = some a → a.subs.length = sp.drive.length
  /-- where a thread is in its program -/
  pc : ∀ (t : Nat) (th : Thread) (ts : TSt), net.threads[t]? = some th → s.thr[t]? = some ts →
    ts.epi = th.epi ∧ (ts.inEpi = false → ts.prog <:+ th.body) ∧ (ts.inEpi = true → ts.prog <:+ th.epi ∧ ts.exc.isSome = true)
  /-- a subscriber never is ahead of the sender, nor has it buffered more than it took -/
  sub : ∀ (m : Nat) (a : AMB) (k : Nat) (sb : ASub), s.mbs[m]? = some a → a.subs[k]? = some sb → sb.buffered ≤ sb.next ∧ sb.next ≤ a.nSent
  /-- a registered waiter is inside `_read`: its thread's next instruction is that read -/
  wait : ∀ (m : Nat) (a : AMB) (k : Nat) (sb : ASub) (x : Nat), s.mbs[m]? = some a → a.subs[k]? = some sb → sb.waiting = some x →
    x = sb.next ∧ sb.buffered = 0 ∧ ∃ (ts : TSt) (rest : List Instr), s.thr[c.reader m k]? = some ts ∧ ts.prog = .read m k :: rest
  /-- reader accounting: reads still to do + messages consumed = all messages of the mailbox -/
  rd : ∀ (m : Nat) (a : AMB) (k : Nat) (sb : ASub) (ts : TSt), s.mbs[m]? = some a → a.subs[k]? = some sb → s.thr[c.reader m k]? = some ts → ts.inEpi = false →
    ts.prog.count (.read m k) + (sb.next - sb.buffered) = tot net c m
  /-- sender accounting -/
  snd : ∀ (m : Nat) (a : AMB), m < net.mbs.length → s.mbs[m]? = some a →
    a.nSent ≤ tot net c m ∧ (a.closed = true ↔ a.nSent = tot net c m) ∧
    ∀ (ts : TSt), s.thr[c.sender m]? = some ts →
      (ts.inEpi = false → countOut m ts.prog + a.nSent = tot net c m) ∧
      (a.closed = true → ts.prog = [] ∧ ts.inEpi = false)
  /-- a thread handling an exception has killed what its epilogue has already passed -/
  kills : ∀ (t : Nat) (th : Thread) (ts : TSt) (own : Bool) (r : Exc), net.threads[t]? = some th → s.thr[t]? = some ts → ts.inEpi = true → ts.exc = some (own, r) →
    (∀ m, .killIfExc m ∈ th.epi → .killIfExc m ∈ ts.prog ∨ s.killedMb m) ∧
    (own = true → ∀ m, .killIfOwn m ∈ th.epi → .killIfOwn m ∈ ts.prog ∨ s.killedMb m)
  /-- a sink that was interrupted by `MailboxKilled` reads a killed mailbox -/
  sinkK : ∀ (t : Nat) (ts : TSt) (r : Exc), t < net.threads.length - 1 → c.out t = none → s.thr[t]? = some ts → ts.exc = some (false, r) →
    s.killedMb (c.src t).1
  /-- the consumer joins every thread: a thread it no longer waits for has ended -/
  joins : ∀ (u : Nat) (tm : TSt), u < net.threads.length - 1 → s.thr[net.threads.length - 1]? = some tm →
    s.endedThr u ∨ .join u ∈ tm.prog

/-! ### shape of the state after a step -/

/-- every effect is: thread `t` gets a new state, at most one mailbox gets a new state (and `finish` sets the outcome) -/
structure Frame (s s' : NState) (t : Nat) (ts' : Option TSt) (mb : Option (Nat × AMB × AMB)) : Prop where
  thr : ∀ u, s'.thr[u]? = (match ts' with
    | some x => if t = u then (if u < s.thr.length then some x else none) else s.thr[u]?
    | none => s.thr[u]?)
  mbs : ∀ k, s'.mbs[k]? = (match mb with
    | some (m, _, a') => if m = k then (if k < s.mbs.length then some a' else none) else s.mbs[k]?
    | none => s.mbs[k]?)
  old : ∀ m a a', mb = some (m, a, a') → s.mbs[m]? = some a
  lenT : s'.thr.length = s.thr.length
  lenM : s'.mbs.length = s.mbs.length

theorem frame_thr (s : NState) (t : Nat) (ts' : TSt) : Frame s (s.setThr t ts') t (some ts') none :=
  ⟨fun u => by simp [setThr_thr], fun k => by simp, (by intro m a a' h; cases h), (by simp), (by simp)⟩

theorem frame_both (s : NState) (t m : Nat) (ts' : TSt) (f : AMB → AMB) (a : AMB) (h : s.mbs[m]? = some a) :
    Frame s ((s.modMB m f).setThr t ts') t (some ts') (some (m, a, f a)) := by
  obtain ⟨hlt, he⟩ := List.getElem?_eq_some_iff.mp h
  refine ⟨fun u => by simp [setThr_thr], fun k => ?_, ?_, (by simp), (by simp)⟩
  · simp only [setThr_mbs, modMB_mbs]
    split
    · rename_i hk; subst hk; simp [hlt, he]
    · rfl
  · intro m' a0 a' he; simp only [Option.some.injEq, Prod.mk.injEq] at he; obtain ⟨rfl, rfl, _⟩ := he; exact h

theorem frame_mb (s : NState) (t m : Nat) (f : AMB → AMB) (a : AMB) (h : s.mbs[m]? = some a) :
    Frame s (s.modMB m f) t none (some (m, a, f a)) := by
  obtain ⟨hlt, he⟩ := List.getElem?_eq_some_iff.mp h
  refine ⟨fun u => by simp, fun k => ?_, ?_, (by simp), (by simp)⟩
  · simp only [modMB_mbs]
    split
    · rename_i hk; subst hk; simp [hlt, he]
    · rfl
  · intro m' a0 a' he; simp only [Option.some.injEq, Prod.mk.injEq] at he; obtain ⟨rfl, rfl, _⟩ := he; exact h

/-- a kill of a mailbox that does not exist changes nothing -/
theorem modMB_none (s : NState) (m : Nat) (f : AMB → AMB) (h : s.mbs[m]? = none) : s.modMB m f = s := by
  unfold NState.modMB; simp [h]

/-! ### preservation, generic part 1: only thread `t` changes -/

theorem killedMb_setThr (s : NState) (t : Nat) (ts : TSt) (m : Nat) : (s.setThr t ts).killedMb m ↔ s.killedMb m := by
  simp [NState.killedMb]

/-- obligations on the new thread state when nothing else changes -/
structure ThrObl (net : Net) (c : Cert) (s : NState) (excl : Nat → Prop) (K : Nat → Prop) (t : Nat) (th : Thread) (ts ts' : TSt) : Prop where
  pc : ts'.epi = th.epi ∧ (ts'.inEpi = false → ts'.prog <:+ th.body) ∧
    (ts'.inEpi = true → ts'.prog <:+ th.epi ∧ ts'.exc.isSome = true)
  wait : ∀ (m : Nat) (a : AMB) (k : Nat) (sb : ASub) (x : Nat), ¬ excl m → s.mbs[m]? = some a → a.subs[k]? = some sb →
    sb.waiting = some x → c.reader m k = t → ∃ rest, ts'.prog = .read m k :: rest
  rd : ∀ (m : Nat) (a : AMB) (k : Nat) (sb : ASub), ¬ excl m → s.mbs[m]? = some a → a.subs[k]? = some sb → c.reader m k = t →
    ts'.inEpi = false → ts'.prog.count (.read m k) + (sb.next - sb.buffered) = tot net c m
  snd : ∀ (m : Nat) (a : AMB), ¬ excl m → m < net.mbs.length → s.mbs[m]? = some a → c.sender m = t →
    (ts'.inEpi = false → countOut m ts'.prog + a.nSent = tot net c m) ∧ (a.closed = true → ts'.prog = [] ∧ ts'.inEpi = false)
  kills : ∀ (own : Bool) (r : Exc), ts'.inEpi = true → ts'.exc = some (own, r) →
    (∀ m, .killIfExc m ∈ th.epi → .killIfExc m ∈ ts'.prog ∨ K m) ∧
    (own = true → ∀ m, .killIfOwn m ∈ th.epi → .killIfOwn m ∈ ts'.prog ∨ K m)
  sinkK : ∀ (r : Exc), t < net.threads.length - 1 → c.out t = none → ts'.exc = some (false, r) → K (c.src t).1
  joins : t = net.threads.length - 1 → ∀ u, u < net.threads.length - 1 → s.endedThr u ∨ .join u ∈ ts'.prog
  mono : ts.prog = [] → ts'.prog = []

theorem TInv.thrOnly {net : Net} {c : Cert} {s : NState} {t : Nat} {th : Thread} {ts ts' : TSt} (h : TInv net c s)
    (hth : net.threads[t]? = some th) (hts : s.thr[t]? = some ts) (o : ThrObl net c s (fun _ => False) s.killedMb t th ts ts') :
    TInv net c (s.setThr t ts') := by
  have hlt : t < s.thr.length := (List.getElem?_eq_some_iff.mp hts).1
  have hthr : ∀ u, (s.setThr t ts').thr[u]? = if t = u then some ts' else s.thr[u]? := by
    intro u; rw [setThr_thr]; split
    · rename_i hu; subst hu; simp [hlt]
    · rfl
  have hended : ∀ u, s.endedThr u → (s.setThr t ts').endedThr u := by
    intro u ⟨tu, htu, hp⟩
    by_cases hu : t = u
    · subst hu; rw [hts] at htu; cases htu
      exact ⟨ts', by rw [hthr]; simp, o.mono hp⟩
    · exact ⟨tu, by rw [hthr]; simp [hu, htu], hp⟩
  refine ⟨by simp [h.lenT], by simp [h.lenM], by simpa using h.lenS, ?_, by simpa using h.sub, ?_, ?_, ?_, ?_, ?_, ?_⟩
  · -- pc
    intro u thu tsu hu1 hu2
    rw [hthr] at hu2
    by_cases hu : t = u
    · subst hu; simp at hu2; subst hu2; rw [hth] at hu1; cases hu1; exact o.pc
    · simp [hu] at hu2; exact h.pc u thu tsu hu1 hu2
  · -- wait
    intro m a k sb x hm hk hw
    simp only [setThr_mbs] at hm
    obtain ⟨h1, h2, tsr, rest, hr, hp⟩ := h.wait m a k sb x hm hk hw
    refine ⟨h1, h2, ?_⟩
    by_cases hu : t = c.reader m k
    · obtain ⟨rest', hp'⟩ := o.wait m a k sb x id hm hk hw hu.symm
      exact ⟨ts', rest', by rw [hthr]; simp [hu], hp'⟩
    · exact ⟨tsr, rest, by rw [hthr]; simp [hu, hr], hp⟩
  · -- rd
    intro m a k sb tsr hm hk hr hin
    simp only [setThr_mbs] at hm
    rw [hthr] at hr
    by_cases hu : t = c.reader m k
    · simp [hu] at hr; subst hr; exact o.rd m a k sb id hm hk hu.symm hin
    · simp [hu] at hr; exact h.rd m a k sb tsr hm hk hr hin
  · -- snd
    intro m a hmlt hm
    simp only [setThr_mbs] at hm
    obtain ⟨h1, h2, h3⟩ := h.snd m a hmlt hm
    refine ⟨h1, h2, ?_⟩
    intro tsu hu
    rw [hthr] at hu
    by_cases hu' : t = c.sender m
    · simp [hu'] at hu; subst hu; exact o.snd m a id hmlt hm hu'.symm
    · simp [hu'] at hu; exact h3 tsu hu
  · -- kills
    intro u thu tsu own r hu1 hu2 hin hexc
    rw [hthr] at hu2
    by_cases hu : t = u
    · subst hu; simp at hu2; subst hu2; rw [hth] at hu1; cases hu1
      obtain ⟨k1, k2⟩ := o.kills own r hin hexc
      exact ⟨fun m hm => (k1 m hm).imp id (killedMb_setThr s t ts' m).mpr,
             fun ho m hm => (k2 ho m hm).imp id (killedMb_setThr s t ts' m).mpr⟩
    · simp [hu] at hu2
      obtain ⟨k1, k2⟩ := h.kills u thu tsu own r hu1 hu2 hin hexc
      exact ⟨fun m hm => (k1 m hm).imp id (killedMb_setThr s t ts' m).mpr,
             fun ho m hm => (k2 ho m hm).imp id (killedMb_setThr s t ts' m).mpr⟩
  · -- sinkK
    intro u tsu r hu1 hu2 hu3 hexc
    rw [hthr] at hu3
    rw [killedMb_setThr]
    by_cases hu : t = u
    · subst hu; simp at hu3; subst hu3; exact o.sinkK r hu1 hu2 hexc
    · simp [hu] at hu3; exact h.sinkK u tsu r hu1 hu2 hu3 hexc
  · -- joins
    intro u tm hu hm
    rw [hthr] at hm
    by_cases hmain : t = net.threads.length - 1
    · simp [hmain] at hm; subst hm
      exact (o.joins hmain u hu).imp (hended u) id
    · simp [hmain] at hm
      exact (h.joins u tm hu hm).imp (hended u) id

/-! ### preservation, generic part 2: thread `t` and mailbox `m` change -/

/-- `killedMb` after mailbox `m` became `a'` -/
def killedNew (s : NState) (m : Nat) (a' : AMB) (m' : Nat) : Prop := if m' = m then a'.killed = true else s.killedMb m'

structure BothObl (net : Net) (c : Cert) (s : NState) (t : Nat) (th : Thread) (ts ts' : TSt) (m : Nat) (a a' : AMB) : Prop where
  monoK : a.killed = true → a'.killed = true
  lenS : a'.subs.length = a.subs.length
  pc : ts'.epi = th.epi ∧ (ts'.inEpi = false → ts'.prog <:+ th.body) ∧
    (ts'.inEpi = true → ts'.prog <:+ th.epi ∧ ts'.exc.isSome = true)
  sub : ∀ (k : Nat) (sb' : ASub), a'.subs[k]? = some sb' → sb'.buffered ≤ sb'.next ∧ sb'.next ≤ a'.nSent
  waitM : ∀ (k : Nat) (sb' : ASub) (x : Nat), a'.subs[k]? = some sb' → sb'.waiting = some x →
    x = sb'.next ∧ sb'.buffered = 0 ∧
    (if c.reader m k = t then ∃ rest, ts'.prog = .read m k :: rest
     else ∃ (tsr : TSt) (rest : List Instr), s.thr[c.reader m k]? = some tsr ∧ tsr.prog = .read m k :: rest)
  waitO : ∀ (m2 : Nat) (a2 : AMB) (k : Nat) (sb : ASub) (x : Nat), m2 ≠ m → s.mbs[m2]? = some a2 → a2.subs[k]? = some sb →
    sb.waiting = some x → c.reader m2 k = t → ∃ rest, ts'.prog = .read m2 k :: rest
  rdM : ∀ (k : Nat) (sb' : ASub), a'.subs[k]? = some sb' →
    (if c.reader m k = t then ts'.inEpi = false → ts'.prog.count (.read m k) + (sb'.next - sb'.buffered) = tot net c m
     else ∀ (tsr : TSt), s.thr[c.reader m k]? = some tsr → tsr.inEpi = false →
       tsr.prog.count (.read m k) + (sb'.next - sb'.buffered) = tot net c m)
  rdO : ∀ (m2 : Nat) (a2 : AMB) (k : Nat) (sb : ASub), m2 ≠ m → s.mbs[m2]? = some a2 → a2.subs[k]? = some sb →
    c.reader m2 k = t → ts'.inEpi = false → ts'.prog.count (.read m2 k) + (sb.next - sb.buffered) = tot net c m2
  sndM : m < net.mbs.length → a'.nSent ≤ tot net c m ∧ (a'.closed = true ↔ a'.nSent = tot net c m) ∧
    (if c.sender m = t then
       (ts'.inEpi = false → countOut m ts'.prog + a'.nSent = tot net c m) ∧ (a'.closed = true → ts'.prog = [] ∧ ts'.inEpi = false)
     else ∀ (tsu : TSt), s.thr[c.sender m]? = some tsu →
       (tsu.inEpi = false → countOut m tsu.prog + a'.nSent = tot net c m) ∧ (a'.closed = true → tsu.prog = [] ∧ tsu.inEpi = false))
  sndO : ∀ (m2 : Nat) (a2 : AMB), m2 ≠ m → m2 < net.mbs.length → s.mbs[m2]? = some a2 → c.sender m2 = t →
    (ts'.inEpi = false → countOut m2 ts'.prog + a2.nSent = tot net c m2) ∧ (a2.closed = true → ts'.prog = [] ∧ ts'.inEpi = false)
  kills : ∀ (own : Bool) (r : Exc), ts'.inEpi = true → ts'.exc = some (own, r) →
    (∀ m', .killIfExc m' ∈ th.epi → .killIfExc m' ∈ ts'.prog ∨ killedNew s m a' m') ∧
    (own = true → ∀ m', .killIfOwn m' ∈ th.epi → .killIfOwn m' ∈ ts'.prog ∨ killedNew s m a' m')
  sinkK : ∀ (r : Exc), t < net.threads.length - 1 → c.out t = none → ts'.exc = some (false, r) → killedNew s m a' (c.src t).1
  joins : t = net.threads.length - 1 → ∀ u, u < net.threads.length - 1 → s.endedThr u ∨ .join u ∈ ts'.prog
  mono : ts.prog = [] → ts'.prog = []

theorem TInv.both {net : Net} {c : Cert} {s : NState} {t m : Nat} {th : Thread} {ts ts' : TSt} {a : AMB} {f : AMB → AMB}
    (h : TInv net c s) (hth : net.threads[t]? = some th) (hts : s.thr[t]? = some ts) (hm : s.mbs[m]? = some a)
    (o : BothObl net c s t th ts ts' m a (f a)) : TInv net c ((s.modMB m f).setThr t ts') := by
  have hlt : t < s.thr.length := (List.getElem?_eq_some_iff.mp hts).1
  have hmlt : m < s.mbs.length := (List.getElem?_eq_some_iff.mp hm).1
  have hthr : ∀ u, ((s.modMB m f).setThr t ts').thr[u]? = if t = u then some ts' else s.thr[u]? := by
    intro u; rw [setThr_thr]; simp only [modMB_thr']; split
    · rename_i hu; subst hu; simp [hlt]
    · rfl
  have hmbs : ∀ k, ((s.modMB m f).setThr t ts').mbs[k]? = if m = k then some (f a) else s.mbs[k]? := by
    intro k; simp only [setThr_mbs, modMB_mbs]; split
    · rename_i hk; subst hk; simp [hm]
    · rfl
  have hkilled : ∀ m', killedNew s m (f a) m' → ((s.modMB m f).setThr t ts').killedMb m' := by
    intro m' hk
    unfold killedNew at hk
    unfold NState.killedMb
    by_cases hmm : m' = m
    · subst hmm; simp only [if_true] at hk; exact ⟨f a, by rw [hmbs]; simp, hk⟩
    · simp only [hmm, if_false] at hk
      obtain ⟨a2, h1, h2⟩ := hk
      exact ⟨a2, by rw [hmbs]; simp [Ne.symm hmm, h1], h2⟩
  have hkilledOld : ∀ m', s.killedMb m' → ((s.modMB m f).setThr t ts').killedMb m' := by
    intro m' ⟨a2, h1, h2⟩
    apply hkilled
    unfold killedNew
    by_cases hmm : m' = m
    · subst hmm; simp only [if_true]; rw [hm] at h1; cases h1; exact o.monoK h2
    · simp only [hmm, if_false]; exact ⟨a2, h1, h2⟩
  have hended : ∀ u, s.endedThr u → ((s.modMB m f).setThr t ts').endedThr u := by
    intro u ⟨tu, htu, hp⟩
    by_cases hu : t = u
    · subst hu; rw [hts] at htu; cases htu
      exact ⟨ts', by rw [hthr]; simp, o.mono hp⟩
    · exact ⟨tu, by rw [hthr]; simp [hu, htu], hp⟩
  refine ⟨by simp [h.lenT], by simp [h.lenM], ?_, ?_, ?_, ?_, ?_, ?_, ?_, ?_, ?_⟩
  · -- lenS
    intro k sp a2 hsp hk
    rw [hmbs] at hk
    by_cases hmk : m = k
    · subst hmk; simp at hk; subst hk; rw [o.lenS]; exact h.lenS m sp a hsp hm
    · simp [hmk] at hk; exact h.lenS k sp a2 hsp hk
  · -- pc
    intro u thu tsu hu1 hu2
    rw [hthr] at hu2
    by_cases hu : t = u
    · subst hu; simp at hu2; subst hu2; rw [hth] at hu1; cases hu1; exact o.pc
    · simp [hu] at hu2; exact h.pc u thu tsu hu1 hu2
  · -- sub
    intro k2 a2 k sb hk2 hk
    rw [hmbs] at hk2
    by_cases hmk : m = k2
    · subst hmk; simp at hk2; subst hk2; exact o.sub k sb hk
    · simp [hmk] at hk2; exact h.sub k2 a2 k sb hk2 hk
  · -- wait
    intro m2 a2 k sb x hm2 hk hw
    rw [hmbs] at hm2
    by_cases hmk : m = m2
    · subst hmk; simp at hm2; subst hm2
      obtain ⟨h1, h2, h3⟩ := o.waitM k sb x hk hw
      refine ⟨h1, h2, ?_⟩
      by_cases hr : c.reader m k = t
      · simp only [hr, if_true] at h3
        obtain ⟨rest, hp⟩ := h3
        exact ⟨ts', rest, by rw [hthr]; simp [hr], hp⟩
      · simp only [hr, if_false] at h3
        obtain ⟨tsr, rest, h4, hp⟩ := h3
        exact ⟨tsr, rest, by rw [hthr]; simp [Ne.symm hr, h4], hp⟩
    · simp [hmk] at hm2
      obtain ⟨h1, h2, tsr, rest, hr, hp⟩ := h.wait m2 a2 k sb x hm2 hk hw
      refine ⟨h1, h2, ?_⟩
      by_cases hu : t = c.reader m2 k
      · obtain ⟨rest', hp'⟩ := o.waitO m2 a2 k sb x (Ne.symm hmk) hm2 hk hw hu.symm
        exact ⟨ts', rest', by rw [hthr]; simp [hu], hp'⟩
      · exact ⟨tsr, rest, by rw [hthr]; simp [hu, hr], hp⟩
  · -- rd
    intro m2 a2 k sb tsr hm2 hk hr hin
    rw [hmbs] at hm2
    rw [hthr] at hr
    by_cases hmk : m = m2
    · subst hmk; simp at hm2; subst hm2
      have := o.rdM k sb hk
      by_cases hu : c.reader m k = t
      · simp only [hu, if_true] at this
        simp [hu] at hr; subst hr; exact this hin
      · simp only [hu, if_false] at this
        simp [Ne.symm hu] at hr; exact this tsr hr hin
    · simp [hmk] at hm2
      by_cases hu : t = c.reader m2 k
      · simp [hu] at hr; subst hr; exact o.rdO m2 a2 k sb (Ne.symm hmk) hm2 hk hu.symm hin
      · simp [hu] at hr; exact h.rd m2 a2 k sb tsr hm2 hk hr hin
  · -- snd
    intro m2 a2 hm2lt hm2
    rw [hmbs] at hm2
    by_cases hmk : m = m2
    · subst hmk; simp at hm2; subst hm2
      obtain ⟨h1, h2, h3⟩ := o.sndM hm2lt
      refine ⟨h1, h2, ?_⟩
      intro tsu hu
      rw [hthr] at hu
      by_cases hu' : c.sender m = t
      · simp only [hu', if_true] at h3; simp [hu'] at hu; subst hu; exact h3
      · simp only [hu', if_false] at h3; simp [Ne.symm hu'] at hu; exact h3 tsu hu
    · simp [hmk] at hm2
      obtain ⟨h1, h2, h3⟩ := h.snd m2 a2 hm2lt hm2
      refine ⟨h1, h2, ?_⟩
      intro tsu hu
      rw [hthr] at hu
      by_cases hu' : t = c.sender m2
      · simp [hu'] at hu; subst hu; exact o.sndO m2 a2 (Ne.symm hmk) hm2lt hm2 hu'.symm
      · simp [hu'] at hu; exact h3 tsu hu
  · -- kills
    intro u thu tsu own r hu1 hu2 hin hexc
    rw [hthr] at hu2
    by_cases hu : t = u
    · subst hu; simp at hu2; subst hu2; rw [hth] at hu1; cases hu1
      obtain ⟨k1, k2⟩ := o.kills own r hin hexc
      exact ⟨fun m' hm' => (k1 m' hm').imp id (hkilled m'), fun ho m' hm' => (k2 ho m' hm').imp id (hkilled m')⟩
    · simp [hu] at hu2
      obtain ⟨k1, k2⟩ := h.kills u thu tsu own r hu1 hu2 hin hexc
      exact ⟨fun m' hm' => (k1 m' hm').imp id (hkilledOld m'), fun ho m' hm' => (k2 ho m' hm').imp id (hkilledOld m')⟩
  · -- sinkK
    intro u tsu r hu1 hu2 hu3 hexc
    rw [hthr] at hu3
    by_cases hu : t = u
    · subst hu; simp at hu3; subst hu3; exact hkilled _ (o.sinkK r hu1 hu2 hexc)
    · simp [hu] at hu3; exact hkilledOld _ (h.sinkK u tsu r hu1 hu2 hu3 hexc)
  · -- joins
    intro u tm hu hmn
    rw [hthr] at hmn
    by_cases hmain : t = net.threads.length - 1
    · simp [hmain] at hmn; subst hmn
      exact (o.joins hmain u hu).imp (hended u) id
    · simp [hmain] at hmn
      exact (h.joins u tm hu hmn).imp (hended u) id

/-- the obligations of a thread+mailbox update from the thread-only obligations (for every OTHER mailbox) and the
local facts about the updated mailbox -/
theorem BothObl.of {net : Net} {c : Cert} {s : NState} {t m : Nat} {th : Thread} {ts ts' : TSt} {a a' : AMB}
    (hm : s.mbs[m]? = some a) (o : ThrObl net c s (fun k => k = m) (killedNew s m a') t th ts ts')
    (monoK : a.killed = true → a'.killed = true) (lenS : a'.subs.length = a.subs.length)
    (sub : ∀ (k : Nat) (sb' : ASub), a'.subs[k]? = some sb' → sb'.buffered ≤ sb'.next ∧ sb'.next ≤ a'.nSent)
    (waitM : ∀ (k : Nat) (sb' : ASub) (x : Nat), a'.subs[k]? = some sb' → sb'.waiting = some x →
      x = sb'.next ∧ sb'.buffered = 0 ∧
      (if c.reader m k = t then ∃ rest, ts'.prog = .read m k :: rest
       else ∃ (tsr : TSt) (rest : List Instr), s.thr[c.reader m k]? = some tsr ∧ tsr.prog = .read m k :: rest))
    (rdM : ∀ (k : Nat) (sb' : ASub), a'.subs[k]? = some sb' →
      (if c.reader m k = t then ts'.inEpi = false → ts'.prog.count (.read m k) + (sb'.next - sb'.buffered) = tot net c m
       else ∀ (tsr : TSt), s.thr[c.reader m k]? = some tsr → tsr.inEpi = false →
         tsr.prog.count (.read m k) + (sb'.next - sb'.buffered) = tot net c m))
    (sndM : m < net.mbs.length → a'.nSent ≤ tot net c m ∧ (a'.closed = true ↔ a'.nSent = tot net c m) ∧
      (if c.sender m = t then
         (ts'.inEpi = false → countOut m ts'.prog + a'.nSent = tot net c m) ∧ (a'.closed = true → ts'.prog = [] ∧ ts'.inEpi = false)
       else ∀ (tsu : TSt), s.thr[c.sender m]? = some tsu →
         (tsu.inEpi = false → countOut m tsu.prog + a'.nSent = tot net c m) ∧ (a'.closed = true → tsu.prog = [] ∧ tsu.inEpi = false))) :
    BothObl net c s t th ts ts' m a a' := by
  refine ⟨monoK, lenS, o.pc, sub, waitM, ?_, rdM, ?_, sndM, ?_, o.kills, o.sinkK, o.joins, o.mono⟩
  · intro m2 a2 k sb x hne; exact o.wait m2 a2 k sb x hne
  · intro m2 a2 k sb hne; exact o.rd m2 a2 k sb hne
  · intro m2 a2 hne; exact o.snd m2 a2 hne

/-- what was killed stays killed when mailbox `m` is replaced by a state that keeps the flag -/
theorem killedNew_of_old {s : NState} {m : Nat} {a a' : AMB} (hm : s.mbs[m]? = some a)
    (monoK : a.killed = true → a'.killed = true) (m' : Nat) (h : s.killedMb m') : killedNew s m a' m' := by
  obtain ⟨a2, h1, h2⟩ := h
  unfold killedNew
  by_cases hmm : m' = m
  · subst hmm; simp only [if_true]; rw [hm] at h1; cases h1; exact monoK h2
  · simp only [hmm, if_false]; exact ⟨a2, h1, h2⟩

end Strax.Net
