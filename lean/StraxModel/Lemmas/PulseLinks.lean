import StraxModel.Model.Pulse
/-
  Lemmas about `record_links` of theory T14 (property C18): the per-channel loop state as a function of the
  prefix (`stateAt`), the branch taken per record (`decision_spec`), the writes to `next_record`, and the two link
  specifications.  Core Lean only.
-/
namespace Strax.Pulse

/-! ### record_links -/

/-- state of the loop of `record_links` just before it looks at record `k` -/
def stateAt (spr : Nat) (rs : List Record) : Nat → LinkSt
  | 0 => LinkSt.init
  | k + 1 =>
    match rs[k]? with
    | some r => (stateAt spr rs k).see spr r k
    | none => stateAt spr rs k

theorem linkDecisions_get (spr : Nat) : ∀ (suf pre : List Record) (k : Nat),
    (linkDecisions spr suf pre.length (stateAt spr (pre ++ suf) pre.length))[k]? =
      (suf[k]?).map (fun r => linkDecision (stateAt spr (pre ++ suf) (pre.length + k)) r) := by
  intro suf
  induction suf with
  | nil => intro pre k; simp [linkDecisions]
  | cons r rs ih =>
    intro pre k
    cases k with
    | zero => simp [linkDecisions]
    | succ k =>
      simp only [linkDecisions, List.getElem?_cons_succ]
      have h1 : (stateAt spr (pre ++ r :: rs) pre.length).see spr r pre.length
          = stateAt spr ((pre ++ [r]) ++ rs) (pre ++ [r]).length := by
        simp [stateAt]
      have h2 : pre.length + 1 = (pre ++ [r]).length := by simp
      have h3 : pre ++ r :: rs = (pre ++ [r]) ++ rs := by simp
      rw [h1, h2, ih (pre ++ [r]) k, ← h3]
      simp only [List.length_append, List.length_cons, List.length_nil, Nat.zero_add]
      have : pre.length + 1 + k = pre.length + (k + 1) := by omega
      rw [this]

theorem linkDecisions_get0 (spr : Nat) (rs : List Record) (k : Nat) :
    (linkDecisions spr rs 0 LinkSt.init)[k]? = (rs[k]?).map (fun r => linkDecision (stateAt spr rs k) r) := by
  have := linkDecisions_get spr rs [] k
  simpa [stateAt] using this

theorem linkDecisions_length (spr : Nat) : ∀ (rs : List Record) (i : Nat) (st : LinkSt),
    (linkDecisions spr rs i st).length = rs.length := by
  intro rs
  induction rs with
  | nil => intro i st; simp [linkDecisions]
  | cons r rs ih => intro i st; simp [linkDecisions, ih]

/-- `j` is the last record before position `k` in channel `c` -/
def LastIn (rs : List Record) (c : Int) (k j : Nat) : Prop :=
  j < k ∧ (∃ a, rs[j]? = some a ∧ a.channel = c) ∧ ∀ j' b, j < j' → j' < k → rs[j']? = some b → b.channel ≠ c

theorem LastIn.unique {rs : List Record} {c : Int} {k j j' : Nat} (h : LastIn rs c k j) (h' : LastIn rs c k j') : j = j' := by
  obtain ⟨h1, ⟨a, ha, hac⟩, h3⟩ := h
  obtain ⟨h1', ⟨a', ha', hac'⟩, h3'⟩ := h'
  rcases Nat.lt_trichotomy j j' with hlt | heq | hgt
  · exact absurd hac' (h3 j' a' hlt h1' ha')
  · exact heq
  · exact absurd hac (h3' j a hgt h1 ha)

theorem stateAt_inv (spr : Nat) (rs : List Record) : ∀ k, k ≤ rs.length → ∀ c,
    ((stateAt spr rs k).last c = -1 ∧ (stateAt spr rs k).exp c = 0 ∧ ∀ j b, j < k → rs[j]? = some b → b.channel ≠ c)
    ∨ ∃ j a, LastIn rs c k j ∧ rs[j]? = some a ∧ (stateAt spr rs k).last c = (j : Int) ∧
        (stateAt spr rs k).exp c = a.time + (spr : Int) * a.dt := by
  intro k
  induction k with
  | zero => intro _ c; left; simp [stateAt, LinkSt.init]
  | succ k ih =>
    intro hk c
    have hk' : k < rs.length := by omega
    obtain ⟨r, hr⟩ : ∃ r, rs[k]? = some r := ⟨rs[k], by simp [hk']⟩
    simp only [stateAt, hr, LinkSt.see]
    by_cases hc : c = r.channel
    · right
      refine ⟨k, r, ⟨by omega, ⟨r, hr, hc.symm⟩, ?_⟩, hr, by simp [hc], by simp [hc]⟩
      intro j' b h1 h2; omega
    · simp only [hc, ↓reduceIte]
      rcases ih (by omega) c with ⟨h1, h2, h3⟩ | ⟨j, a, ⟨l1, l2, l3⟩, ha, h1, h2⟩
      · left
        refine ⟨h1, h2, ?_⟩
        intro j b hj hb
        by_cases hjk : j = k
        · subst hjk; rw [hr] at hb; simp only [Option.some.injEq] at hb; subst hb; exact fun h => hc h.symm
        · exact h3 j b (by omega) hb
      · right
        refine ⟨j, a, ⟨by omega, l2, ?_⟩, ha, h1, h2⟩
        intro j' b h1' h2' hb
        by_cases hjk : j' = k
        · subst hjk; rw [hr] at hb; simp only [Option.some.injEq] at hb; subst hb; exact fun h => hc h.symm
        · exact l3 j' b h1' (by omega) hb

/-- `j` and `i` are consecutive records of one channel, `i` is a continuing fragment (`record_i != 0`)
and starts exactly where the buffer of `j` ends. -/
def IsPrevFragment (rs : List Record) (spr : Nat) (j i : Nat) : Prop :=
  ∃ a b, rs[j]? = some a ∧ rs[i]? = some b ∧ LastIn rs b.channel i j ∧ b.recordI ≠ 0 ∧
    b.time = a.time + (spr : Int) * a.dt

/-- the decision taken for record `i` -/
theorem decision_spec (spr : Nat) (rs : List Record) (i : Nat) (b : Record) (hb : rs[i]? = some b) :
    (∀ j : Nat, linkDecision (stateAt spr rs i) b = some (j : Int) ↔ IsPrevFragment rs spr j i) ∧
    (linkDecision (stateAt spr rs i) b = some (-1) ↔
      (b.recordI ≠ 0 ∧ b.time = 0 ∧ ∀ j a, j < i → rs[j]? = some a → a.channel ≠ b.channel)) ∧
    (∀ v, linkDecision (stateAt spr rs i) b = some v → v = -1 ∨ ∃ j : Nat, v = (j : Int)) := by
  have hi : i < rs.length := by
    rcases Nat.lt_or_ge i rs.length with h | h
    · exact h
    · simp [List.getElem?_eq_none h] at hb
  have inv := stateAt_inv spr rs i (by omega) b.channel
  unfold linkDecision
  refine ⟨?_, ?_, ?_⟩
  · intro j
    constructor
    · intro h
      split at h
      · simp at h
      · rename_i hri
        split at h
        · rename_i ht
          simp only [Option.some.injEq] at h
          rcases inv with ⟨h1, -, -⟩ | ⟨j0, a, hl, ha, h1, h2⟩
          · omega
          · have : j0 = j := by omega
            subst this
            exact ⟨a, b, ha, hb, hl, hri, by rw [ht, h2]⟩
        · simp at h
    · rintro ⟨a, b', ha, hb', hl, hri, ht⟩
      rw [hb] at hb'; simp only [Option.some.injEq] at hb'; subst hb'
      rcases inv with ⟨-, -, h3⟩ | ⟨j0, a0, hl0, ha0, h1, h2⟩
      · obtain ⟨l1, ⟨a', ha', hc'⟩, -⟩ := hl
        exact absurd hc' (h3 j a' l1 ha')
      · have : j0 = j := hl0.unique hl
        subst this
        rw [ha] at ha0; simp only [Option.some.injEq] at ha0; subst ha0
        simp only [hri, ↓reduceIte, h2, ht, h1]
  · constructor
    · intro h
      split at h
      · simp at h
      · rename_i hri
        split at h
        · rename_i ht
          simp only [Option.some.injEq] at h
          rcases inv with ⟨h1, h2, h3⟩ | ⟨j0, a, hl, ha, h1, h2⟩
          · exact ⟨hri, by rw [ht, h2], fun j a hj ha => h3 j a hj ha⟩
          · omega
        · simp at h
    · rintro ⟨hri, ht, hno⟩
      rcases inv with ⟨h1, h2, h3⟩ | ⟨j0, a, ⟨l1, ⟨a', ha', hc'⟩, -⟩, ha, h1, h2⟩
      · simp only [hri, ↓reduceIte, h2, ht, h1]
      · exact absurd hc' (hno j0 a' l1 ha')
  · intro v h
    split at h
    · simp at h
    · split at h
      · simp only [Option.some.injEq] at h
        rcases inv with ⟨h1, -, -⟩ | ⟨j0, a, hl, ha, h1, h2⟩
        · left; omega
        · right; exact ⟨j0, by omega⟩
      · simp at h

theorem nextWrites_length (n : Nat) : ∀ (ds : List (Option Int)) (i0 : Nat) (nx : List Int),
    (nextWrites n ds i0 nx).length = nx.length := by
  intro ds
  induction ds with
  | nil => intro i0 nx; simp [nextWrites]
  | cons d ds ih =>
    intro i0 nx
    cases d with
    | none => simp [nextWrites, ih]
    | some l => simp [nextWrites, ih]

/-- no write goes to position `x` -/
theorem nextWrites_untouched (n x : Nat) : ∀ (ds : List (Option Int)) (i0 : Nat) (nx : List Int),
    (∀ (k : Nat) (l : Int), ds[k]? = some (some l) → pyIndex n l ≠ x) → (nextWrites n ds i0 nx)[x]? = nx[x]? := by
  intro ds
  induction ds with
  | nil => intro i0 nx _; simp [nextWrites]
  | cons d ds ih =>
    intro i0 nx h
    have htail : ∀ k l, ds[k]? = some (some l) → pyIndex n l ≠ x := fun k l hk => h (k + 1) l (by simpa using hk)
    cases d with
    | none => simp only [nextWrites]; exact ih _ _ htail
    | some l =>
      simp only [nextWrites]
      rw [ih _ _ htail, List.getElem?_set]
      have := h 0 l (by simp)
      simp [this]

/-- the last write to position `x` wins -/
theorem nextWrites_written (n x : Nat) : ∀ (ds1 : List (Option Int)) (l : Int) (ds2 : List (Option Int)) (i0 : Nat) (nx : List Int),
    pyIndex n l = x → x < nx.length → (∀ (k : Nat) (l' : Int), ds2[k]? = some (some l') → pyIndex n l' ≠ x) →
    (nextWrites n (ds1 ++ some l :: ds2) i0 nx)[x]? = some ((i0 + ds1.length : Nat) : Int) := by
  intro ds1
  induction ds1 with
  | nil =>
    intro l ds2 i0 nx hl hx h2
    simp only [List.nil_append, nextWrites, List.length_nil, Nat.add_zero]
    rw [nextWrites_untouched n x ds2 _ _ h2, List.getElem?_set, hl]
    simp [hx]
  | cons d ds1 ih =>
    intro l ds2 i0 nx hl hx h2
    have e : i0 + (d :: ds1).length = (i0 + 1) + ds1.length := by simp; omega
    rw [e]
    cases d with
    | none => simp only [List.cons_append, nextWrites]; exact ih l ds2 (i0 + 1) nx hl hx h2
    | some l0 =>
      simp only [List.cons_append, nextWrites]
      exact ih l ds2 (i0 + 1) _ hl (by simpa using hx) h2

/-- decidable form of "no continuing fragment at time 0 is the first record of its channel" -/
def noOrphanAtZero (rs : List Record) : Bool :=
  (List.range rs.length).all fun i =>
    match rs[i]? with
    | some b => b.recordI == 0 || b.time != 0 || (List.range i).any fun j =>
        match rs[j]? with
        | some a => a.channel == b.channel
        | none => false
    | none => true

theorem noOrphanAtZero_spec {rs : List Record} (h : noOrphanAtZero rs = true) (i : Nat) (b : Record) (hb : rs[i]? = some b)
    (hri : b.recordI ≠ 0) (ht : b.time = 0) : ∃ j a, j < i ∧ rs[j]? = some a ∧ a.channel = b.channel := by
  have hi : i < rs.length := by
    rcases Nat.lt_or_ge i rs.length with h | h
    · exact h
    · simp [List.getElem?_eq_none h] at hb
  unfold noOrphanAtZero at h
  rw [List.all_eq_true] at h
  have := h i (by simp [hi])
  simp only [hb] at this
  simp only [Bool.or_eq_true, beq_iff_eq, bne_iff_ne, ne_eq, List.any_eq_true, List.mem_range] at this
  rcases this with (h1 | h1) | ⟨j, hj, h2⟩
  · exact absurd h1 hri
  · exact absurd ht h1
  · cases ha : rs[j]? with
    | none => simp [ha] at h2
    | some a => simp only [ha, beq_iff_eq] at h2; exact ⟨j, a, hj, ha, h2⟩

theorem recordLinks_ok {rs : List Record} {prev next : List Int} (e : recordLinks rs = .ok (prev, next)) :
    prev = (linkDecisions (samplesPerRecord rs) rs 0 LinkSt.init).map prevOf ∧
    next = nextWrites rs.length (linkDecisions (samplesPerRecord rs) rs 0 LinkSt.init) 0 (List.replicate rs.length (-1)) := by
  unfold recordLinks at e
  split at e
  · simp at e
  · simp only [Except.ok.injEq, Prod.mk.injEq] at e
    exact ⟨e.1.symm, e.2.symm⟩

/-- `previous_record`, for all inputs: entry `i` is `j ≥ 0` exactly when `j`, `i` are consecutive records of one channel,
`i` continues a pulse and starts where `j`'s buffer ends; otherwise it is −1. -/
theorem recordLinks_prev {rs : List Record} {prev next : List Int} (e : recordLinks rs = .ok (prev, next)) :
    prev.length = rs.length ∧
    ∀ i, i < rs.length →
      (∀ j : Nat, prev[i]? = some (j : Int) ↔ IsPrevFragment rs (samplesPerRecord rs) j i) ∧
      (prev[i]? = some (-1) ∨ ∃ j : Nat, prev[i]? = some (j : Int)) := by
  obtain ⟨hp, -⟩ := recordLinks_ok e
  subst hp
  refine ⟨by simp [linkDecisions_length], ?_⟩
  intro i hi
  obtain ⟨b, hb⟩ : ∃ b, rs[i]? = some b := ⟨rs[i], by simp [hi]⟩
  obtain ⟨d1, d2, d3⟩ := decision_spec (samplesPerRecord rs) rs i b hb
  simp only [List.getElem?_map, linkDecisions_get0, hb, Option.map_some]
  constructor
  · intro j
    rw [← d1 j]
    cases hd : linkDecision (stateAt (samplesPerRecord rs) rs i) b with
    | none => simp [prevOf]
    | some v => simp [prevOf]
  · cases hd : linkDecision (stateAt (samplesPerRecord rs) rs i) b with
    | none => left; simp [prevOf]
    | some v =>
      rcases d3 v hd with rfl | ⟨j, rfl⟩
      · left; simp [prevOf]
      · right; exact ⟨j, by simp [prevOf]⟩

/-- no continuing fragment at time 0 is the first record of its channel -/
def NoOrphanAtZero (rs : List Record) : Prop :=
  ∀ (i : Nat) (b : Record), rs[i]? = some b → b.recordI ≠ 0 → b.time = 0 →
    ∃ (j : Nat) (a : Record), j < i ∧ rs[j]? = some a ∧ a.channel = b.channel

/-- `next_record` when no continuing fragment at time 0 is the first record of its channel: the mirror image of
`previous_record`. -/
theorem recordLinks_next' {rs : List Record} {prev next : List Int} (e : recordLinks rs = .ok (prev, next))
    (hz : NoOrphanAtZero rs) :
    next.length = rs.length ∧
    ∀ j, j < rs.length →
      (∀ i : Nat, next[j]? = some (i : Int) ↔ IsPrevFragment rs (samplesPerRecord rs) j i) ∧
      (next[j]? = some (-1) ∨ ∃ i : Nat, next[j]? = some (i : Int)) := by
  obtain ⟨-, hn⟩ := recordLinks_ok e
  subst hn
  generalize hds : linkDecisions (samplesPerRecord rs) rs 0 LinkSt.init = ds
  have hdl : ds.length = rs.length := by rw [← hds, linkDecisions_length]
  -- every decision that links, links to a real earlier record
  have hdec : ∀ k l, ds[k]? = some (some l) → ∃ j : Nat, l = (j : Int) ∧ IsPrevFragment rs (samplesPerRecord rs) j k := by
    intro k l hk
    rw [← hds, linkDecisions_get0] at hk
    cases hb : rs[k]? with
    | none => simp [hb] at hk
    | some b =>
      simp only [hb, Option.map_some, Option.some.injEq] at hk
      obtain ⟨d1, d2, d3⟩ := decision_spec (samplesPerRecord rs) rs k b hb
      rcases d3 l hk with rfl | ⟨j, rfl⟩
      · obtain ⟨hri, ht, hno⟩ := d2.1 hk
        obtain ⟨j, a, hj, ha, hc⟩ := hz k b hb hri ht
        exact absurd hc (hno j a hj ha)
      · exact ⟨j, rfl, (d1 j).1 hk⟩
  have hconv : ∀ j k, IsPrevFragment rs (samplesPerRecord rs) j k → ds[k]? = some (some (j : Int)) := by
    intro j k hp
    obtain ⟨a, b, ha, hb, hrest⟩ := hp
    obtain ⟨d1, -, -⟩ := decision_spec (samplesPerRecord rs) rs k b hb
    rw [← hds, linkDecisions_get0, hb]
    simp only [Option.map_some, Option.some.injEq]
    exact (d1 j).2 ⟨a, b, ha, hb, hrest⟩
  -- at most one record links back to `j`
  have huniq : ∀ j k k', IsPrevFragment rs (samplesPerRecord rs) j k → IsPrevFragment rs (samplesPerRecord rs) j k' → k = k' := by
    intro j k k' ⟨a, b, ha, hb, ⟨l1, ⟨a1, ha1, hc1⟩, l3⟩, _, _⟩ ⟨a', b', ha', hb', ⟨l1', ⟨a1', ha1', hc1'⟩, l3'⟩, _, _⟩
    rw [ha] at ha1 ha1' ha'
    simp only [Option.some.injEq] at ha1 ha1' ha'
    subst ha1 ha1' ha'
    rcases Nat.lt_trichotomy k k' with hlt | heq | hgt
    · exact absurd (hc1.symm.trans hc1') (l3' k b l1 hlt hb)
    · exact heq
    · exact absurd (hc1'.symm.trans hc1) (l3 k' b' l1' hgt hb')
  refine ⟨by simp [nextWrites_length], ?_⟩
  intro j hj
  have hpy : ∀ (j' : Nat), pyIndex rs.length (j' : Int) = j' := by intro j'; simp [pyIndex]; omega
  by_cases hex : ∃ k, IsPrevFragment rs (samplesPerRecord rs) j k
  · obtain ⟨k, hk⟩ := hex
    have hdk := hconv j k hk
    have hklt : k < ds.length := by
      rcases Nat.lt_or_ge k ds.length with h | h
      · exact h
      · simp [List.getElem?_eq_none h] at hdk
    -- split the decisions at `k`
    have hsplit : ds = ds.take k ++ some (j : Int) :: ds.drop (k + 1) := by
      have h1 : ds = ds.take k ++ ds.drop k := (List.take_append_drop k ds).symm
      have h2 : ds.drop k = ds[k] :: ds.drop (k + 1) := List.drop_eq_getElem_cons hklt
      have h3 : ds[k] = some (j : Int) := by
        have := List.getElem?_eq_getElem hklt
        rw [this] at hdk; simpa using hdk
      rw [h2, h3] at h1; exact h1
    have hlater : ∀ (k' : Nat) (l' : Int), (ds.drop (k + 1))[k']? = some (some l') → pyIndex rs.length l' ≠ j := by
      intro k' l' hk'
      rw [List.getElem?_drop] at hk'
      obtain ⟨j', rfl, hp'⟩ := hdec _ _ hk'
      rw [hpy]
      intro hjj; subst hjj
      have := huniq j' k (k + 1 + k') hk hp'
      omega
    have hw := nextWrites_written rs.length j (ds.take k) (j : Int) (ds.drop (k + 1)) 0 (List.replicate rs.length (-1))
      (hpy j) (by simpa using hj) hlater
    rw [← hsplit] at hw
    have hlen : (ds.take k).length = k := by simp [List.length_take]; omega
    simp only [Nat.zero_add, hlen] at hw
    constructor
    · intro i
      rw [hw]
      constructor
      · intro h; simp only [Option.some.injEq] at h
        have : k = i := by omega
        subst this; exact hk
      · intro h; rw [huniq j i k h hk]
    · right; exact ⟨k, hw⟩
  · have hun := nextWrites_untouched rs.length j ds 0 (List.replicate rs.length (-1)) (by
      intro k l hk
      obtain ⟨j', rfl, hp'⟩ := hdec _ _ hk
      rw [hpy]
      intro hjj; subst hjj
      exact hex ⟨k, hp'⟩)
    have hrep : (List.replicate rs.length (-1 : Int))[j]? = some (-1) := by simp [hj]
    rw [hrep] at hun
    constructor
    · intro i
      rw [hun]
      constructor
      · intro h; simp only [Option.some.injEq] at h; omega
      · intro h; exact absurd ⟨i, h⟩ hex
    · left; exact hun

theorem recordLinks_next {rs : List Record} {prev next : List Int} (e : recordLinks rs = .ok (prev, next))
    (hz : noOrphanAtZero rs = true) :
    next.length = rs.length ∧
    ∀ j, j < rs.length →
      (∀ i : Nat, next[j]? = some (i : Int) ↔ IsPrevFragment rs (samplesPerRecord rs) j i) ∧
      (next[j]? = some (-1) ∨ ∃ i : Nat, next[j]? = some (i : Int)) :=
  recordLinks_next' e (fun i b hb hri ht => noOrphanAtZero_spec hz i b hb hri ht)

/-! ### time-adjacent continuing fragments are the next fragment of the same pulse -/

/-- start time of the pulse a fragment belongs to, computed from its own fields -/
def pulseStart (spr : Nat) (r : Record) : Int := r.time - r.recordI * ((spr : Int) * r.dt)

/-- `b` is the fragment following `a` in one pulse -/
def NextInPulse (spr : Nat) (a b : Record) : Prop :=
  pulseStart spr a = pulseStart spr b ∧ a.dt = b.dt ∧ b.recordI = a.recordI + 1

/-- the two records come from the same pulse, or from pulses of which the second starts after the buffer of `a` ends -/
def SameOrDisjoint (spr : Nat) (a b : Record) : Prop :=
  (pulseStart spr a = pulseStart spr b ∧ a.dt = b.dt) ∨ a.time + (spr : Int) * a.dt ≤ pulseStart spr b

theorem adjacent_iff_next_in_pulse (spr : Nat) (a b : Record) (hspr : 0 < spr) (hdt : 0 < b.dt)
    (hra : 0 ≤ a.recordI) (hrb : 0 ≤ b.recordI) (hd : SameOrDisjoint spr a b) :
    (b.recordI ≠ 0 ∧ b.time = a.time + (spr : Int) * a.dt) ↔ NextInPulse spr a b := by
  have hS : 0 < (spr : Int) * b.dt := Int.mul_pos (by omega) hdt
  unfold NextInPulse
  unfold SameOrDisjoint at hd
  unfold pulseStart at *
  generalize hSb : (spr : Int) * b.dt = S at *
  constructor
  · rintro ⟨h1, h2⟩
    rcases hd with ⟨h3, h4⟩ | h3
    · rw [h4, hSb] at h3 h2
      refine ⟨by rw [h4, hSb]; exact h3, h4, ?_⟩
      have : (b.recordI - a.recordI - 1) * S = 0 := by
        rw [Int.sub_mul, Int.sub_mul]; omega
      rcases Int.mul_eq_zero.1 this with h | h
      · omega
      · omega
    · exfalso
      have : 0 ≤ (b.recordI - 1) * S := Int.mul_nonneg (by omega) (by omega)
      rw [Int.sub_mul] at this
      omega
  · rintro ⟨h1, h2, h3⟩
    rw [h2, hSb] at h1 ⊢
    refine ⟨by omega, ?_⟩
    rw [h3, Int.add_mul] at h1
    omega

instance (spr : Nat) (a b : Record) : Decidable (SameOrDisjoint spr a b) := by unfold SameOrDisjoint; infer_instance

/-! ### well-formed pulses -/

/-- index of the last record before position `i` in channel `c` -/
def lastSame (rs : List Record) (c : Int) : Nat → Option Nat
  | 0 => none
  | i + 1 =>
    match rs[i]? with
    | some a => if a.channel = c then some i else lastSame rs c i
    | none => lastSame rs c i

theorem lastSame_spec (rs : List Record) (c : Int) : ∀ i, i ≤ rs.length →
    (lastSame rs c i = none ∧ ∀ (j : Nat) (b : Record), j < i → rs[j]? = some b → b.channel ≠ c)
    ∨ ∃ j, lastSame rs c i = some j ∧ LastIn rs c i j := by
  intro i
  induction i with
  | zero => intro _; left; simp [lastSame]
  | succ i ih =>
    intro hi
    obtain ⟨r, hr⟩ : ∃ r, rs[i]? = some r := ⟨rs[i]'(by omega), by simp⟩
    simp only [lastSame, hr]
    by_cases hc : r.channel = c
    · right
      simp only [hc, ↓reduceIte]
      exact ⟨i, rfl, by omega, ⟨r, hr, hc⟩, fun j' b h1 h2 => by omega⟩
    · simp only [hc, ↓reduceIte]
      rcases ih (by omega) with ⟨h1, h2⟩ | ⟨j, h1, l1, l2, l3⟩
      · left
        refine ⟨h1, ?_⟩
        intro j b hj hb
        by_cases hji : j = i
        · subst hji; rw [hr] at hb; simp only [Option.some.injEq] at hb; subst hb; exact hc
        · exact h2 j b (by omega) hb
      · right
        refine ⟨j, h1, by omega, l2, ?_⟩
        intro j' b h1' h2' hb
        by_cases hji : j' = i
        · subst hji; rw [hr] at hb; simp only [Option.some.injEq] at hb; subst hb; exact hc
        · exact l3 j' b h1' (by omega) hb

/-- record `b` at position `i` fits behind the records before it: sane fields; a 0th fragment starts after the buffer of
the previous record of its channel ends; a continuing fragment directly continues the previous record of its channel -/
def wfAt (rs : List Record) (spr : Nat) (i : Nat) (b : Record) : Bool :=
  decide (0 < b.dt ∧ 0 ≤ b.recordI ∧ 0 ≤ b.channel) &&
  match lastSame rs b.channel i with
  | none => decide (b.recordI = 0)
  | some j =>
    match rs[j]? with
    | none => false
    | some a =>
      if b.recordI = 0 then decide (a.time + (spr : Int) * a.dt ≤ b.time)
      else decide (b.recordI = a.recordI + 1 ∧ b.dt = a.dt ∧ b.time = a.time + (spr : Int) * a.dt)

/-- **Well-formed pulses** (decidable): in every channel the records are, in order, the fragments `0, 1, 2, …` of
pulses that follow each other without overlap — every fragment series starts with `record_i = 0`, each further fragment
is time-adjacent to the previous record of the channel and numbered one higher. -/
def wellFormedPulses (rs : List Record) : Bool :=
  decide (0 < samplesPerRecord rs) &&
  (List.range rs.length).all fun i =>
    match rs[i]? with
    | some b => wfAt rs (samplesPerRecord rs) i b
    | none => true

theorem wellFormedPulses_spec {rs : List Record} (h : wellFormedPulses rs = true) :
    0 < samplesPerRecord rs ∧
    ∀ (i : Nat) (b : Record), rs[i]? = some b →
      0 < b.dt ∧ 0 ≤ b.recordI ∧ 0 ≤ b.channel ∧
      ((b.recordI = 0 ∧ ∀ (j : Nat) (a : Record), LastIn rs b.channel i j → rs[j]? = some a →
          a.time + (samplesPerRecord rs : Int) * a.dt ≤ b.time)
       ∨ (b.recordI ≠ 0 ∧ ∃ (j : Nat) (a : Record), LastIn rs b.channel i j ∧ rs[j]? = some a ∧
          b.recordI = a.recordI + 1 ∧ b.dt = a.dt ∧ b.time = a.time + (samplesPerRecord rs : Int) * a.dt)) := by
  unfold wellFormedPulses at h
  simp only [Bool.and_eq_true, decide_eq_true_eq, List.all_eq_true, List.mem_range] at h
  obtain ⟨hspr, hall⟩ := h
  refine ⟨hspr, ?_⟩
  intro i b hb
  have hi : i < rs.length := by
    rcases Nat.lt_or_ge i rs.length with h | h
    · exact h
    · simp [List.getElem?_eq_none h] at hb
  have := hall i hi
  simp only [hb, wfAt, Bool.and_eq_true, decide_eq_true_eq] at this
  obtain ⟨⟨h1, h2, h3⟩, hrest⟩ := this
  refine ⟨h1, h2, h3, ?_⟩
  rcases lastSame_spec rs b.channel i (by omega) with ⟨hn, hno⟩ | ⟨j, hj, hl⟩
  · simp only [hn, decide_eq_true_eq] at hrest
    left
    refine ⟨hrest, ?_⟩
    intro j a ⟨l1, ⟨a', ha', hc'⟩, _⟩ _
    exact absurd hc' (hno j a' l1 ha')
  · simp only [hj] at hrest
    cases ha : rs[j]? with
    | none => simp [ha] at hrest
    | some a =>
      simp only [ha] at hrest
      by_cases hri : b.recordI = 0
      · simp only [hri, ↓reduceIte, decide_eq_true_eq] at hrest
        left
        refine ⟨hri, ?_⟩
        intro j' a' hl' ha'
        have : j = j' := hl.unique hl'
        subst this
        rw [ha] at ha'; simp only [Option.some.injEq] at ha'; subst ha'
        exact hrest
      · simp only [hri, ↓reduceIte, decide_eq_true_eq] at hrest
        right
        exact ⟨hri, j, a, hl, ha, hrest⟩

/-- the last record of a channel before `i` exists as soon as some record of the channel precedes `i` -/
theorem exists_lastIn {rs : List Record} {c : Int} {i j : Nat} {a : Record} (hi : i ≤ rs.length) (hj : j < i)
    (ha : rs[j]? = some a) (hc : a.channel = c) : ∃ j0, LastIn rs c i j0 ∧ j ≤ j0 := by
  rcases lastSame_spec rs c i hi with ⟨-, hno⟩ | ⟨j0, -, hl⟩
  · exact absurd hc (hno j a hj ha)
  · refine ⟨j0, hl, ?_⟩
    obtain ⟨l1, l2, l3⟩ := hl
    rcases Nat.lt_or_ge j0 j with h | h
    · exact absurd hc (l3 j a h hj ha)
    · exact h

/-- in a well-formed array the buffers of the records of one channel follow each other without overlap -/
theorem wf_mono {rs : List Record} (h : wellFormedPulses rs = true) :
    ∀ (i : Nat) (b : Record), rs[i]? = some b → ∀ (j : Nat) (a : Record), j < i → rs[j]? = some a → a.channel = b.channel →
      a.time + (samplesPerRecord rs : Int) * a.dt ≤ b.time := by
  obtain ⟨hspr, hwf⟩ := wellFormedPulses_spec h
  intro i
  induction i using Nat.strongRecOn with
  | _ i ih =>
    intro b hb j a hj ha hc
    have hi : i < rs.length := by
      rcases Nat.lt_or_ge i rs.length with h | h
      · exact h
      · simp [List.getElem?_eq_none h] at hb
    obtain ⟨j0, hl0, hjj0⟩ := exists_lastIn (by omega) hj ha hc
    obtain ⟨l1, ⟨a0, ha0, hc0⟩, -⟩ := id hl0
    -- the step from `j0` to `i`
    have step : a0.time + (samplesPerRecord rs : Int) * a0.dt ≤ b.time := by
      obtain ⟨-, -, -, hcase⟩ := hwf i b hb
      rcases hcase with ⟨-, h0⟩ | ⟨-, j', a', hl', ha', -, -, ht⟩
      · exact h0 j0 a0 hl0 ha0
      · have : j0 = j' := LastIn.unique hl0 hl'
        subst this
        rw [ha0] at ha'; simp only [Option.some.injEq] at ha'; subst ha'
        omega
    by_cases hjeq : j = j0
    · subst hjeq
      rw [ha] at ha0; simp only [Option.some.injEq] at ha0; subst ha0
      exact step
    · have h1 := ih j0 l1 a0 ha0 j a (by omega) ha (by rw [hc, hc0])
      obtain ⟨hdt0, -, -, -⟩ := hwf j0 a0 ha0
      have : 0 < (samplesPerRecord rs : Int) * a0.dt := Int.mul_pos (by omega) hdt0
      omega

/-- `i` holds the fragment that follows the fragment at `j` in one pulse of one channel -/
def IsNextFragment (rs : List Record) (spr : Nat) (j i : Nat) : Prop :=
  ∃ a b, rs[j]? = some a ∧ rs[i]? = some b ∧ j < i ∧ a.channel = b.channel ∧ NextInPulse spr a b

theorem wf_isPrevFragment_iff {rs : List Record} (h : wellFormedPulses rs = true) (j i : Nat) :
    IsPrevFragment rs (samplesPerRecord rs) j i ↔ IsNextFragment rs (samplesPerRecord rs) j i := by
  obtain ⟨hspr, hwf⟩ := wellFormedPulses_spec h
  constructor
  · rintro ⟨a, b, ha, hb, hl, hri, ht⟩
    obtain ⟨hdt, hrb, -, hcase⟩ := hwf i b hb
    rcases hcase with ⟨h0, -⟩ | ⟨-, j', a', hl', ha', h1, h2, h3⟩
    · exact absurd h0 hri
    · have : j = j' := LastIn.unique hl hl'
      subst this
      rw [ha] at ha'; simp only [Option.some.injEq] at ha'; subst ha'
      obtain ⟨l1, ⟨a1, ha1, hc1⟩, -⟩ := hl
      rw [ha] at ha1; simp only [Option.some.injEq] at ha1; subst ha1
      obtain ⟨-, hra, -, -⟩ := hwf j a ha
      refine ⟨a, b, ha, hb, l1, hc1, ?_⟩
      exact (adjacent_iff_next_in_pulse _ a b hspr hdt hra hrb
        (Or.inl ⟨by unfold pulseStart; rw [h1, h2, h3, Int.add_mul]; omega, h2.symm⟩)).1 ⟨hri, ht⟩
  · rintro ⟨a, b, ha, hb, hji, hc, hn⟩
    obtain ⟨hdt, hrb, -, hcase⟩ := hwf i b hb
    obtain ⟨-, hra, -, -⟩ := hwf j a ha
    have hi : i < rs.length := by
      rcases Nat.lt_or_ge i rs.length with h | h
      · exact h
      · simp [List.getElem?_eq_none h] at hb
    obtain ⟨hri, ht⟩ := (adjacent_iff_next_in_pulse _ a b hspr hdt hra hrb (Or.inl ⟨hn.1, hn.2.1⟩)).2 hn
    rcases hcase with ⟨h0, -⟩ | ⟨-, j', a', hl', ha', h1, h2, h3⟩
    · exact absurd h0 hri
    · -- `j` must be that last record `j'`
      obtain ⟨j0, hl0, hjj0⟩ := exists_lastIn (by omega) hji ha hc
      have : j0 = j' := LastIn.unique hl0 hl'
      subst this
      by_cases hjeq : j = j0
      · subst hjeq
        exact ⟨a, b, ha, hb, hl', hri, ht⟩
      · exfalso
        obtain ⟨l1, ⟨a1, ha1, hc1⟩, -⟩ := hl'
        rw [ha'] at ha1; simp only [Option.some.injEq] at ha1; subst ha1
        have hm := wf_mono h j0 a' ha' j a (by omega) ha (by rw [hc, hc1])
        obtain ⟨hdt', -, -, -⟩ := hwf j0 a' ha'
        have : 0 < (samplesPerRecord rs : Int) * a'.dt := Int.mul_pos (by omega) hdt'
        omega

/-- well-formed arrays have no orphan at time 0 (no orphans at all) and only non-negative channels -/
theorem wf_noOrphan {rs : List Record} (h : wellFormedPulses rs = true) : NoOrphanAtZero rs := by
  obtain ⟨-, hwf⟩ := wellFormedPulses_spec h
  intro i b hb hri _
  obtain ⟨-, -, -, hcase⟩ := hwf i b hb
  rcases hcase with ⟨h0, -⟩ | ⟨-, j, a, ⟨l1, ⟨a1, ha1, hc1⟩, -⟩, ha, -⟩
  · exact absurd h0 hri
  · exact ⟨j, a1, l1, ha1, hc1⟩

theorem wf_recordLinks_ok {rs : List Record} (h : wellFormedPulses rs = true) : ∃ prev next, recordLinks rs = .ok (prev, next) := by
  obtain ⟨-, hwf⟩ := wellFormedPulses_spec h
  have hany : rs.any (fun r => decide (r.channel < 0)) = false := by
    rw [List.any_eq_false]
    intro r hr
    obtain ⟨i, hi⟩ := List.mem_iff_getElem?.1 hr
    have := (hwf i r hi).2.2.1
    simp; omega
  refine ⟨(linkDecisions (samplesPerRecord rs) rs 0 LinkSt.init).map prevOf,
    nextWrites rs.length (linkDecisions (samplesPerRecord rs) rs 0 LinkSt.init) 0 (List.replicate rs.length (-1)), ?_⟩
  simp only [recordLinks, hany, Bool.false_eq_true, ↓reduceIte]

end Strax.Pulse
