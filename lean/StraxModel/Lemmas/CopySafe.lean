import StraxModel.Lemmas.Copy
/-
  Helper lemmas for property C16, round 5: the SAFETY half of the preservation theorems at the full
  quantifier.  Nothing here assumes a law-abiding stream, a plain run, un-annotated chunks or a positive
  target: whenever the saver returned normally and what it left behind can be loaded at all, the rows
  loaded are the rows written, in order (`saveAll_rows_of_ok`).  Built from C07's partial-correctness
  lemma of the rechunker (`Strax.rechunk_rows_of_ok`, any annotations, either mode), the closed form of
  the saver (`saveAll_eq`) and the constructor facts of `mkChunk` (`mkChunk_fields`).  Core Lean only.
-/
namespace Strax.Copy
open Strax Strax.Storage

/-- what a chunk is as far as the property's wording is concerned: range and rows -/
abbrev shape (c : Chunk) : Int × Int × List Row := (c.start, c.stop, c.rows)

/-! ### the loader, without any hypothesis on what was written -/

/-- what a successful `_read_and_format_chunk` did: it read `data` (nothing for `n = 0`, else the file
named by the chunk_info) and handed it to `Chunk.__init__` with the range of the chunk_info -/
theorem loadChunk_ok_inv {md : Meta} {files : Files} {info : ChunkInfo} {c : Chunk}
    (h : loadChunk md files info = .ok c) :
    ∃ data rid, (if info.n = 0 then data = [] else ∃ fn, info.filename = some fn ∧ readFile files fn = some data) ∧
      mkChunk md.hdr.dataType md.hdr.kind (some rid) info.start info.stop data (info.subruns.map jsonRuns) none
        md.hdr.target = .ok c := by
  unfold loadChunk at h
  simp only [bind, Except.bind, pure, Except.pure, throw, throwThe, MonadExceptOf.throw] at h
  by_cases hn : info.n = 0
  · simp only [hn, if_true] at h
    split at h
    · cases h
    · split at h
      · cases h
      · split at h
        · cases h
        · exact ⟨[], _, by simp [hn], h⟩
  · simp only [hn, if_false] at h
    split at h
    · cases h
    · split at h
      · cases h
      · rename_i _ fn hfn _ rows hrows
        split at h
        · cases h
        · split at h
          · cases h
          · split at h
            · cases h
            · exact ⟨rows, _, by simp [hn, hfn, hrows], h⟩

/-- whatever the loader returns passed `Chunk.__init__`: non-negative start, `start ≤ end` -/
theorem loadChunk_range {md : Meta} {files : Files} {info : ChunkInfo} {c : Chunk}
    (h : loadChunk md files info = .ok c) : 0 ≤ c.start ∧ c.start ≤ c.stop := by
  obtain ⟨data, rid, -, h⟩ := loadChunk_ok_inv h
  obtain ⟨-, -, -, h4, h5, -, -, h8, h9, -⟩ := mkChunk_fields h
  exact ⟨by rw [h4]; exact h8, by rw [h4, h5]; exact h9⟩

theorem mapM_ok_forall {α β : Type} {f : α → Except Err β} {P : β → Prop} (hf : ∀ a b, f a = .ok b → P b) :
    ∀ (l : List α) (out : List β), l.mapM f = .ok out → ∀ b ∈ out, P b := by
  intro l
  induction l with
  | nil =>
    intro out h
    simp only [List.mapM_nil, pure, Except.pure, Except.ok.injEq] at h
    subst h; simp
  | cons a l ih =>
    intro out h
    rw [List.mapM_cons] at h
    obtain ⟨b, hb, h⟩ := bind_eq_ok.1 h
    obtain ⟨bs, hbs, h⟩ := bind_eq_ok.1 h
    simp only [pure, Except.pure, Except.ok.injEq] at h
    subst h
    intro x hx
    rcases List.mem_cons.1 hx with rfl | hx
    · exact hf a _ hb
    · exact ih bs hbs x hx

/-- every chunk of every directory that loads has `0 ≤ start ≤ end` -/
theorem loadAll_ranges {md : Meta} {files : Files} {s : List Chunk} (h : loadAll md files = .ok s) :
    ∀ c ∈ s, 0 ≤ c.start ∧ c.start ≤ c.stop := by
  unfold loadAll at h
  split at h
  · cases h
  · exact mapM_ok_forall (fun _ _ hc => loadChunk_range hc) _ _ h

/-- the loader on the chunk_info of ANY written chunk whose file (if any) is in place: if it returns a
chunk at all, that chunk has the range and the rows of the written one -/
theorem loadChunk_infoFor_ok (md : Meta) (files : Files) (x : Bool) (i : Nat) (c c' : Chunk)
    (hf : c.rows ≠ [] → readFile files (chunkFilename md.hdr.pfx i) = some c.rows)
    (h : loadChunk md files (infoFor md.hdr x i c) = .ok c') : shape c' = shape c := by
  obtain ⟨_, hn, _, _, _, _, _, _, hfn⟩ := infoFor_fields md.hdr x i c
  obtain ⟨data, rid, hdata, h⟩ := loadChunk_ok_inv h
  rw [infoFor_start, infoFor_stop] at h
  rw [hn, hfn] at hdata
  have hd : data = c.rows := by
    by_cases he : c.rows = []
    · simp [he] at hdata
      rw [he]; exact hdata
    · have hlen : ¬ c.rows.length = 0 := by simpa using he
      simp [he, hlen, hf he] at hdata
      exact hdata.symm
  subst hd
  obtain ⟨-, -, -, h4, h5, h6, -⟩ := mkChunk_fields h
  simp [shape, h4, h5, h6]

theorem mapM_loadChunk_ok (md : Meta) (files : Files) (x : Bool) (cs : List Chunk) : ∀ (i : Nat) (loaded : List Chunk),
    (∀ k c, cs[k]? = some c → c.rows ≠ [] → readFile files (chunkFilename md.hdr.pfx (i + k)) = some c.rows) →
    (infosFrom md.hdr x i cs).mapM (loadChunk md files) = .ok loaded → loaded.map shape = cs.map shape := by
  induction cs with
  | nil =>
    intro i loaded _ h
    simp only [infosFrom, List.mapM_nil, pure, Except.pure, Except.ok.injEq] at h
    subst h; rfl
  | cons c cs ih =>
    intro i loaded hf h
    simp only [infosFrom] at h
    rw [List.mapM_cons] at h
    obtain ⟨c', hc', h⟩ := bind_eq_ok.1 h
    obtain ⟨l', hl', h⟩ := bind_eq_ok.1 h
    simp only [pure, Except.pure, Except.ok.injEq] at h
    subst h
    have h1 := loadChunk_infoFor_ok md files x i c c' (by simpa using hf 0 c (by simp)) hc'
    have h2 := ih (i + 1) l' (by
      intro k c'' hk hne
      have := hf (k + 1) c'' (by simpa using hk) hne
      rwa [show i + (k + 1) = i + 1 + k by omega] at this) hl'
    simp only [List.map_cons, h1, h2]

/-- **Loading what `save_from` wrote, without hypotheses on it**: if the directory the saver left for
the written chunks `out` loads at all, it loads chunk for chunk — same ranges, same rows. -/
theorem loadAll_saved_ok (hdr : Header) (out loaded : List Chunk)
    (h : loadAll (metaOf hdr out) (filesFrom hdr.pfx 0 out) = .ok loaded) : loaded.map shape = out.map shape := by
  unfold loadAll at h
  split at h
  · cases h
  · exact mapM_loadChunk_ok (metaOf hdr out) (filesFrom hdr.pfx 0 out) false out 0 loaded (by
      intro k c hk hr
      simpa [metaOf] using readFile_filesFrom hdr.pfx out 0 k c hk hr) (by simpa [metaOf] using h)

theorem rows_of_shape {a b : List Chunk} (h : a.map shape = b.map shape) : rows a = rows b := by
  induction a generalizing b with
  | nil =>
    cases b with
    | nil => rfl
    | cons _ _ => simp at h
  | cons x xs ih =>
    cases b with
    | nil => simp at h
    | cons y ys =>
      simp only [List.map_cons, List.cons.injEq, shape, Prod.mk.injEq] at h
      simp only [rows, List.flatMap_cons]
      rw [h.1.2.2]
      congr 1
      exact ih h.2

/-- **the saver / loader pair never alters rows** — for EVERY input stream of chunks with
`start ≤ end` (any annotations, any run id, any targets, law-abiding or not), rechunking on or off, any
`argmin` constant: if `save_from` returned normally and the result can be loaded, then the rows loaded
are exactly the rows written, in order; without rechunking the ranges too, chunk for chunk. -/
theorem saveAll_rows_of_ok (a0 : Int) (re : Bool) (hdr : Header) (s loaded : List Chunk) (d : Dir)
    (hse : ∀ c ∈ s, c.start ≤ c.stop) (hsave : saveAll a0 re hdr s = .ok d) (hload : loadDir d = .ok loaded) :
    rows loaded = rows s ∧ (re = false → loaded.map shape = s.map shape) := by
  rw [saveAll_eq] at hsave
  cases hre : rechunkAll a0 ⟨re, hdr.runId.startsWith "_", none⟩ s with
  | error e => rw [hre] at hsave; cases hsave
  | ok out =>
    rw [hre] at hsave
    simp only [Except.map, Except.ok.injEq] at hsave
    subst hsave
    have hsh := loadAll_saved_ok hdr out loaded hload
    cases re with
    | false =>
      rw [rechunkAll_off] at hre
      cases hre
      exact ⟨rows_of_shape hsh, fun _ => hsh⟩
    | true =>
      have := rechunk_rows_of_ok a0 _ s none out (by simpa using hse) hre
      simp only [Option.toList_none, List.nil_append] at this
      exact ⟨(rows_of_shape hsh).trans this, fun h => by cases h⟩

theorem shape_map_setTarget (t : Nat) (s : List Chunk) : (s.map (setTarget t)).map shape = s.map shape := by
  simp [List.map_map, Function.comp_def, shape, setTarget]

theorem shape_map_stamp (t : Option Nat) (s : List Chunk) : (s.map (stamp t)).map shape = s.map shape := by
  cases t <;> simp [List.map_map, Function.comp_def, shape, setTarget, stamp]

/-! ### copy -/

/-- `copy_to_frontend` never alters rows: every directory that loads, copied with any flags, if the
copy returns normally and the destination loads -/
theorem copyData_rows_of_ok (a0 : Int) (src dst : Dir) (s loaded : List Chunk) (re : Bool) (rt : Nat)
    (hload : loadDir src = .ok s) (hcopy : copyData a0 src re rt = .ok dst) (hld : loadDir dst = .ok loaded) :
    rows loaded = rows s ∧ (re = false → loaded.map shape = s.map shape) := by
  unfold copyData at hcopy
  simp only [hload, bind, Except.bind] at hcopy
  have hr := loadAll_ranges hload
  obtain ⟨h1, h2⟩ := saveAll_rows_of_ok a0 re _ _ loaded dst (by
    intro c hc
    simp only [List.mem_map] at hc
    obtain ⟨c0, hc0, rfl⟩ := hc
    exact (hr c0 hc0).2) hcopy hld
  exact ⟨h1.trans (rows_map_setTarget _ s), fun h => (h2 h).trans (shape_map_setTarget _ s)⟩

/-- every successful result of the loop with a loader per target is `copyData` of the source -/
theorem copyLoop_fresh_ok (a0 : Int) (src : Dir) (rechunk : Bool) (rechunkTo : Nat) :
    ∀ (n : Nat) (shared : List Chunk),
    ∀ r ∈ copyLoop a0 src (copyHeader src.1.hdr rechunk rechunkTo) rechunk true shared n,
      ∀ dst, r = .ok dst → copyData a0 src rechunk rechunkTo = .ok dst := by
  intro n
  induction n with
  | zero => intro shared r hr; simp [copyLoop] at hr
  | succ n ih =>
    intro shared r hr dst hrd
    subst hrd
    unfold copyLoop at hr
    simp only [if_true] at hr
    cases hl : loadDir src with
    | error e => rw [hl] at hr; simp at hr
    | ok cs =>
      rw [hl] at hr
      simp only at hr
      cases hs : saveAll a0 rechunk (copyHeader src.1.hdr rechunk rechunkTo)
          (cs.map (setTarget (copyHeader src.1.hdr rechunk rechunkTo).target)) with
      | error e => rw [hs] at hr; simp at hr
      | ok d =>
        rw [hs] at hr
        simp only [List.mem_cons] at hr
        rcases hr with h | h
        · cases h
          unfold copyData
          simp only [hl, bind, Except.bind]
          exact hs
        · exact ih [] _ h dst rfl

/-! ### the stand-alone rechunker -/

/-- a run of `rechunker()` that returned normally, on ANY loadable source in a store whose destination is
another directory: the saver returned normally on the stamped source stream, what it wrote sits where it
belongs, no temp directory is left and without `replace` the source is what it was -/
theorem standalone_ok_inv (a0 : Int) (guard : Bool) (st st' : Store) (src : Dir) (s : List Chunk)
    (replace re : Bool) (target : Option Nat)
    (hsrc : st.src = some src) (hal : st.aliased = false) (hload : loadDir src = .ok s)
    (hrun : standaloneRechunk a0 guard st replace re target = (st', none)) :
    ∃ new, saveAll a0 re (rechunkHeader src.1.hdr target) (s.map (stamp target)) = .ok new ∧ st'.tmp = none ∧
      (if replace then st'.src = some new ∧ st'.dst = none else st'.dst = some new ∧ st'.src = some src) := by
  unfold standaloneRechunk rechunkPlan at hrun
  simp only [hsrc, hal, Bool.and_false, Bool.false_eq_true, if_false] at hrun
  have hs1 : (applyOp st (FsOp.initTemp (rechunkHeader src.1.hdr target))).src = some src := by
    simp [applyOp, Store.setDst, hal, hsrc]
  simp only [hs1, hload] at hrun
  generalize hsf : saveFrom a0 re (rechunkHeader src.1.hdr target) (s.map (stamp target)) = r at hrun
  obtain ⟨sv, e⟩ := r
  simp only [Prod.mk.injEq] at hrun
  obtain ⟨hst, he⟩ := hrun
  subst he
  have hsave : saveAll a0 re (rechunkHeader src.1.hdr target) (s.map (stamp target)) = .ok (sv.md, sv.files) := by
    unfold saveAll; rw [hsf]; rfl
  obtain ⟨-, out, hout⟩ := saveFrom_of_saveAll hsave
  have hrunw := runOps_writePlan st hal (rechunkHeader src.1.hdr target) sv.md out
  rw [← hout] at hrunw
  refine ⟨(sv.md, sv.files), hsave, ?_⟩
  subst hst
  simp only [Option.isNone_none, Bool.true_and]
  cases replace with
  | false =>
    simp only [Bool.false_eq_true, if_false]
    have : FsOp.initTemp (rechunkHeader src.1.hdr target) :: sv.files.map (fun p => FsOp.writeChunk p.1 p.2) ++
        [FsOp.closeRename sv.md] = writePlan (rechunkHeader src.1.hdr target) sv.md sv.files := rfl
    rw [this, hrunw]
    simp [hsrc]
  | true =>
    simp only [if_true]
    have : FsOp.initTemp (rechunkHeader src.1.hdr target) :: sv.files.map (fun p => FsOp.writeChunk p.1 p.2) ++
        [FsOp.closeRename sv.md] = writePlan (rechunkHeader src.1.hdr target) sv.md sv.files := rfl
    rw [this, runOps_append, hrunw]
    simp [runOps, applyOp, Store.getDst, Store.setDst, hal]

/-! ### rechunk on load -/

theorem splitLoaded_rows_of_ok (a0 : Int) (n : Nat) (c : Chunk) (ps : List Chunk) (hse : c.start ≤ c.stop)
    (h : splitLoaded a0 n c = .ok ps) : rows ps = c.rows := by
  unfold splitLoaded at h
  obtain ⟨sp, -, h⟩ := bind_eq_ok.1 h
  obtain ⟨⟨out, rest⟩, hoff, h⟩ := bind_eq_ok.1 h
  simp only [pure, Except.pure, Except.ok.injEq] at h
  subst h
  exact (splitOff_rows _ c out rest hse hoff).1

theorem rechunkStream_rows_of_ok (a0 : Int) (n : Nat) : ∀ (s out : List Chunk), (∀ c ∈ s, c.start ≤ c.stop) →
    rechunkStream a0 n s = .ok out → rows out = rows s := by
  intro s
  induction s with
  | nil =>
    intro out _ h
    simp only [rechunkStream, pure, Except.pure, Except.ok.injEq] at h
    subst h; rfl
  | cons c cs ih =>
    intro out hse h
    simp only [rechunkStream] at h
    obtain ⟨a, ha, h⟩ := bind_eq_ok.1 h
    obtain ⟨b, hb, h⟩ := bind_eq_ok.1 h
    simp only [pure, Except.pure, Except.ok.injEq] at h
    subst h
    have h1 := splitLoaded_rows_of_ok a0 n c a (hse c (by simp)) ha
    have h2 := ih b (fun c' hc' => hse c' (by simp [hc'])) hb
    simp only [rows, List.flatMap_append, List.flatMap_cons] at h1 h2 ⊢
    rw [h1, h2]

/-! ### per-chunk jobs and merge -/

theorem mapChunks_ok_forall {f : Chunk → Except Err Chunk} {Q P : Chunk → Prop}
    (hf : ∀ c c', Q c → f c = .ok c' → P c') :
    ∀ (s out : List Chunk), (∀ c ∈ s, Q c) → mapChunks f s = .ok out → ∀ c ∈ out, P c := by
  intro s
  induction s with
  | nil =>
    intro out _ h
    simp only [mapChunks, pure, Except.pure, Except.ok.injEq] at h
    subst h; simp
  | cons c cs ih =>
    intro out hq h
    simp only [mapChunks] at h
    obtain ⟨a, ha, h⟩ := bind_eq_ok.1 h
    obtain ⟨b, hb, h⟩ := bind_eq_ok.1 h
    simp only [pure, Except.pure, Except.ok.injEq] at h
    subst h
    intro x hx
    rcases List.mem_cons.1 hx with rfl | hx
    · exact hf c _ (hq c (by simp)) ha
    · exact ih b (fun c' hc' => hq c' (by simp [hc'])) hb x hx

theorem mapChunks_append_ok (f : Chunk → Except Err Chunk) : ∀ (a b oa ob : List Chunk),
    mapChunks f a = .ok oa → mapChunks f b = .ok ob → mapChunks f (a ++ b) = .ok (oa ++ ob) := by
  intro a
  induction a with
  | nil =>
    intro b oa ob ha hb
    simp only [mapChunks, pure, Except.pure, Except.ok.injEq] at ha
    subst ha; simpa using hb
  | cons c cs ih =>
    intro b oa ob ha hb
    simp only [mapChunks] at ha
    obtain ⟨x, hx, ha⟩ := bind_eq_ok.1 ha
    obtain ⟨y, hy, ha⟩ := bind_eq_ok.1 ha
    simp only [pure, Except.pure, Except.ok.injEq] at ha
    subst ha
    have := ih b y ob hy hb
    simp only [List.cons_append, mapChunks, hx, this, bind, Except.bind, pure, Except.pure]

/-- jobs then loading them back, for ANY per-chunk computation whose answers are chunks
(`start ≤ end` whenever the input chunk is one) and ANY grouping of chunks with `start ≤ end`: if every job was saved and every saved job loads, then the chunk-wise
computation on the whole dependency succeeds too and what the merge is fed has exactly its rows, and
every chunk fed to the merge has `start ≤ end` -/
theorem jobs_rows_of_ok (a0 : Int) {f : Chunk → Except Err Chunk}
    (hf : ∀ c c', c.start ≤ c.stop → f c = .ok c' → c'.start ≤ c'.stop)
    (ros re : Bool) (rt : Nat) : ∀ (groups : List (List Chunk)) (hdrs : List Header) (ds : List Dir) (L : List Chunk),
    (∀ c ∈ groups.flatten, c.start ≤ c.stop) → hdrs.length = groups.length →
    runJobs a0 f ros hdrs groups = .ok ds → loadJobs re rt ds = .ok L →
    ∃ direct, mapChunks f groups.flatten = .ok direct ∧ rows L = rows direct ∧ ∀ c ∈ L, c.start ≤ c.stop := by
  intro groups
  induction groups with
  | nil =>
    intro hdrs ds L _ hlen hj hl
    have : hdrs = [] := by simpa using hlen
    subst this
    simp only [runJobs, pure, Except.pure, Except.ok.injEq] at hj
    subst hj
    simp only [loadJobs, pure, Except.pure, Except.ok.injEq] at hl
    subst hl
    exact ⟨[], rfl, rfl, by simp⟩
  | cons g gs ih =>
    intro hdrs ds L hdep hlen hj hl
    cases hdrs with
    | nil => simp at hlen
    | cons h hs =>
      simp only [runJobs] at hj
      obtain ⟨d, hd, hj⟩ := bind_eq_ok.1 hj
      obtain ⟨ds', hds', hj⟩ := bind_eq_ok.1 hj
      simp only [pure, Except.pure, Except.ok.injEq] at hj
      subst hj
      simp only [loadJobs] at hl
      obtain ⟨a, ha, hl⟩ := bind_eq_ok.1 hl
      obtain ⟨b, hb, hl⟩ := bind_eq_ok.1 hl
      simp only [pure, Except.pure, Except.ok.injEq] at hl
      subst hl
      obtain ⟨dr, hdr, hrows, hse⟩ := ih hs ds' b (fun c hc => hdep c (by simp [hc])) (by simpa using hlen) hds' hb
      unfold perChunkJob at hd
      obtain ⟨og, hog, hd⟩ := bind_eq_ok.1 hd
      unfold loadJob at ha
      obtain ⟨cs, hcs, ha⟩ := bind_eq_ok.1 ha
      simp only [pure, Except.pure, Except.ok.injEq] at ha
      subst ha
      have hogse := mapChunks_ok_forall (Q := fun c => c.start ≤ c.stop) (P := fun c => c.start ≤ c.stop) hf g og
        (fun c hc => hdep c (by simp [hc])) hog
      obtain ⟨h1, -⟩ := saveAll_rows_of_ok a0 ros h og cs d hogse hd hcs
      refine ⟨og ++ dr, ?_, ?_, ?_⟩
      · simpa using mapChunks_append_ok f g gs.flatten og dr hog hdr
      · simp only [rows, List.flatMap_append] at h1 hrows ⊢
        rw [← hrows, ← h1]
        congr 1
        exact rows_map_setTarget _ cs
      · intro c hc
        rcases List.mem_append.1 hc with hc | hc
        · simp only [List.mem_map] at hc
          obtain ⟨c0, hc0, rfl⟩ := hc
          exact (loadAll_ranges hcs c0 hc0).2
        · exact hse c hc

end Strax.Copy
