import StraxModel.Model.MultiRun
/-
  Helper lemmas for property C15 (theory T12 MultiRun).  Core Lean only.
-/
namespace Strax.MultiRun
open Strax List

/-! ## stable insertion sort -/

theorem insertSorted_perm (key : α → Nat) (a : α) : ∀ l, (insertSorted key a l).Perm (a :: l)
  | [] => by simp [insertSorted]
  | b :: l => by
    unfold insertSorted
    split
    · exact Perm.refl _
    · exact ((insertSorted_perm key a l).cons b).trans (Perm.swap a b l)

theorem sortBy_perm (key : α → Nat) : ∀ l : List α, (sortBy key l).Perm l
  | [] => by simp [sortBy]
  | a :: l => by
    unfold sortBy
    exact (insertSorted_perm key a _).trans ((sortBy_perm key l).cons a)

theorem insertSorted_pairwise (key : α → Nat) (a : α) :
    ∀ l : List α, l.Pairwise (fun x y => key x ≤ key y) →
      (insertSorted key a l).Pairwise (fun x y => key x ≤ key y)
  | [], _ => by simp [insertSorted]
  | b :: l, h => by
    unfold insertSorted
    split
    next hab =>
      refine Pairwise.cons ?_ h
      intro y hy
      rcases mem_cons.1 hy with rfl | hy
      · exact hab
      · exact Nat.le_trans hab (rel_of_pairwise_cons h hy)
    next hab =>
      have hba : key b ≤ key a := Nat.le_of_lt (Nat.lt_of_not_le hab)
      refine Pairwise.cons ?_ (insertSorted_pairwise key a l h.of_cons)
      intro y hy
      rcases mem_cons.1 ((insertSorted_perm key a l).mem_iff.1 hy) with rfl | hy
      · exact hba
      · exact rel_of_pairwise_cons h hy

theorem sortBy_pairwise (key : α → Nat) : ∀ l : List α, (sortBy key l).Pairwise (fun x y => key x ≤ key y)
  | [] => by simp [sortBy]
  | a :: l => by
    unfold sortBy
    exact insertSorted_pairwise key a _ (sortBy_pairwise key l)

theorem sortBy_length (key : α → Nat) (l : List α) : (sortBy key l).length = l.length :=
  (sortBy_perm key l).length_eq

/-! ## `submit` and `pickNext` -/

/-- all run ids a state still knows about -/
def St.labels (st : St) : List Nat :=
  st.final.map Prod.fst ++ st.failures ++ st.futures.map Prod.snd ++ st.pending

theorem submit_final (n : Nat) (st : St) : (submit n st).final = st.final := by
  induction n generalizing st with
  | zero => rfl
  | succ n ih => unfold submit; split <;> simp [*]

theorem submit_failures (n : Nat) (st : St) : (submit n st).failures = st.failures := by
  induction n generalizing st with
  | zero => rfl
  | succ n ih => unfold submit; split <;> simp [*]

theorem submit_labels_perm (n : Nat) (st : St) : (submit n st).labels.Perm st.labels := by
  induction n generalizing st with
  | zero => exact Perm.refl _
  | succ n ih =>
    unfold submit
    split
    · exact Perm.refl _
    next r rest hp =>
      refine (ih _).trans ?_
      simp only [St.labels, hp, map_append, map_cons, map_nil]
      refine perm_iff_count.2 fun a => ?_
      simp only [count_append, count_cons, count_nil]
      omega

theorem submit_label (n : Nat) (st : St) (h : ∀ p ∈ st.futures, p.1.arg = p.2) :
    ∀ p ∈ (submit n st).futures, p.1.arg = p.2 := by
  induction n generalizing st with
  | zero => exact h
  | succ n ih =>
    unfold submit
    split
    · exact h
    · apply ih
      intro p hp
      rcases mem_append.1 hp with hp | hp
      · exact h p hp
      · simp only [mem_singleton] at hp; subst hp; rfl

theorem submit_size (n : Nat) (st : St) :
    (submit n st).futures.length + (submit n st).pending.length = st.futures.length + st.pending.length := by
  induction n generalizing st with
  | zero => rfl
  | succ n ih =>
    unfold submit
    split
    · rfl
    next r rest hp => rw [ih]; simp [hp]; omega

theorem submit_futures_len (n : Nat) (st : St) : st.futures.length ≤ (submit n st).futures.length := by
  induction n generalizing st with
  | zero => exact Nat.le_refl _
  | succ n ih =>
    unfold submit
    split
    · exact Nat.le_refl _
    · refine Nat.le_trans ?_ (ih _)
      simp

theorem submit_window (n : Nat) (st : St) :
    (submit (n + 1) st).futures = [] → (submit (n + 1) st).pending = [] := by
  unfold submit
  split
  next hp => intro _; exact hp
  next r rest hp =>
    intro h
    have := submit_futures_len n
      { st with pending := rest, nextId := st.nextId + 1, futures := st.futures ++ [(⟨st.nextId, r⟩, r)], submitted := st.submitted ++ [r] }
    rw [h] at this
    simp at this

theorem pickNext_mem {order : List Nat} {running : List (Fut × Nat)} {p : Fut × Nat}
    (h : pickNext order running = some p) : p ∈ running := by
  unfold pickNext at h
  split at h
  next q hq =>
    obtain ⟨k, _, hk⟩ := exists_of_findSome?_eq_some hq
    cases h
    exact mem_of_find?_eq_some hk
  next => exact mem_of_mem_head? h

theorem pickNext_some (order : List Nat) {running : List (Fut × Nat)} (h : running ≠ []) :
    ∃ p, pickNext order running = some p := by
  unfold pickNext
  split
  next q _ => exact ⟨q, rfl⟩
  next =>
    cases running with
    | nil => exact absurd rfl h
    | cons a l => exact ⟨a, rfl⟩

/-! ## the loop invariant -/

structure Inv (c : Cfg) (S : List Nat) (st : St) : Prop where
  label : ∀ p ∈ st.futures, p.1.arg = p.2
  perm : st.labels.Perm S
  finalOk : ∀ p ∈ st.final, c.results p.1 = .ok p.2
  failErr : ∀ l ∈ st.failures, ∃ e, c.results l = .error e
  noFail : c.ignoreErrors = false → st.failures = []
  window : st.futures = [] → st.pending = []

theorem labels_pop {st : St} {f : Fut} {label : Nat} (hp : (f, label) ∈ st.futures) (fin : List (Nat × Rows))
    (fl : List Nat) (hcount : ∀ a, count a (fin.map Prod.fst ++ fl) = count a (st.final.map Prod.fst ++ st.failures) + count a [label]) :
    St.labels { st with futures := st.futures.erase (f, label), final := fin, failures := fl } |>.Perm st.labels := by
  have h1 : (st.futures.map Prod.snd).Perm (label :: (st.futures.erase (f, label)).map Prod.snd) :=
    (perm_cons_erase hp).map Prod.snd
  refine perm_iff_count.2 fun a => ?_
  have h2 := perm_iff_count.1 h1 a
  have h3 := hcount a
  simp only [St.labels, count_append, count_cons, count_nil] at *
  omega

/-- what the loop returns: either a final state in which every run was handled, or the error of
a failing run (only when errors are not ignored); never the fuel / no-running-future errors -/
theorem loop_spec (c : Cfg) (hth : c.throwAway = false) (hw : 0 < c.workers) (S : List Nat) :
    ∀ (fuel : Nat) (st : St), Inv c S st → st.futures.length + st.pending.length ≤ fuel →
      (∃ st', loop c fuel st = .ok st' ∧ Inv c S st' ∧ st'.futures = [] ∧ st'.pending = []) ∨
      (∃ e sub, loop c fuel st = .error (e, sub) ∧ c.ignoreErrors = false ∧ ∃ r ∈ S, c.results r = .error e) := by
  intro fuel
  induction fuel with
  | zero =>
    intro st inv hf
    have hfu : st.futures = [] := by
      cases h : st.futures with
      | nil => rfl
      | cons a l => rw [h] at hf; simp at hf
    left
    refine ⟨st, ?_, inv, hfu, inv.window hfu⟩
    simp [loop, hfu]
  | succ fuel ih =>
    intro st inv hf
    unfold loop
    by_cases hfu : st.futures = []
    · left
      refine ⟨st, ?_, inv, hfu, inv.window hfu⟩
      simp [hfu]
    · have hne : st.futures.isEmpty = false := by
        cases h : st.futures with
        | nil => exact absurd h hfu
        | cons a l => rfl
      simp only [hne, Bool.false_eq_true, if_false]
      have htake : st.futures.take c.workers ≠ [] := by
        cases h : st.futures with
        | nil => exact absurd h hfu
        | cons a l =>
          cases hwk : c.workers with
          | zero => omega
          | succ n => simp
      obtain ⟨⟨f, label⟩, hpick⟩ := pickNext_some c.order htake
      have hmem : (f, label) ∈ st.futures := mem_of_mem_take (pickNext_mem hpick)
      have harg : f.arg = label := inv.label _ hmem
      have hlabelS : label ∈ S := by
        apply inv.perm.mem_iff.1
        simp only [St.labels, mem_append, mem_map]
        exact Or.inl (Or.inr ⟨(f, label), hmem, rfl⟩)
      have hlen : (st.futures.erase (f, label)).length = st.futures.length - 1 := length_erase_of_mem hmem
      have hpos : 0 < st.futures.length := length_pos_of_mem hmem
      have hlab' : ∀ p ∈ st.futures.erase (f, label), p.1.arg = p.2 :=
        fun p hp => inv.label p (erase_sublist.subset hp)
      rw [hpick]
      simp only []
      cases hres : c.results f.arg with
      | error e =>
        simp only []
        by_cases hig : c.ignoreErrors = true
        · rw [if_pos hig]
          apply ih
          · constructor
            · exact submit_label 1 _ hlab'
            · refine (submit_labels_perm 1 _).trans (Perm.trans ?_ inv.perm)
              apply labels_pop hmem
              intro a
              simp only [count_append, count_cons, count_nil]
              omega
            · rw [submit_final]; exact inv.finalOk
            · rw [submit_failures]
              intro l hl
              rcases mem_append.1 hl with hl | hl
              · exact inv.failErr l hl
              · simp only [mem_singleton] at hl; subst hl
                exact ⟨e, by rw [← harg]; exact hres⟩
            · intro h; rw [hig] at h; cases h
            · exact submit_window 0 _
          · rw [submit_size]; simp only [hlen]; omega
        · have hig' : c.ignoreErrors = false := by simpa using hig
          right
          refine ⟨e, st.submitted, by simp [hig'], hig', label, hlabelS, ?_⟩
          rw [← harg]; exact hres
      | ok rows =>
        simp only [hth, Bool.false_eq_true, if_false]
        apply ih
        · constructor
          · exact submit_label 1 _ hlab'
          · refine (submit_labels_perm 1 _).trans (Perm.trans ?_ inv.perm)
            apply labels_pop hmem
            intro a
            simp only [map_append, map_cons, map_nil, count_append, count_cons, count_nil]
            omega
          · rw [submit_final]
            intro p hp
            rcases mem_append.1 hp with hp | hp
            · exact inv.finalOk p hp
            · simp only [mem_singleton] at hp; subst hp
              simp only []; rw [← harg]; exact hres
          · rw [submit_failures]; exact inv.failErr
          · rw [submit_failures]; exact inv.noFail
          · exact submit_window 0 _
        · rw [submit_size]; simp only [hlen]; omega

/-! ## from the final state to the result list -/

/-- the entry that a successful run contributes to the result -/
def entryOf (results : Nat → Except Err Rows) (r : Nat) : Option (Nat × Rows) :=
  match results r with
  | .ok rows => some (r, rows)
  | .error _ => none

theorem sequential_eq (runs : List Nat) (results : Nat → Except Err Rows) :
    sequential runs results = (sortBy id runs).filterMap (entryOf results) := rfl

theorem filterMap_entryOf_final (results : Nat → Except Err Rows) :
    ∀ fin : List (Nat × Rows), (∀ p ∈ fin, results p.1 = .ok p.2) →
      (fin.map Prod.fst).filterMap (entryOf results) = fin
  | [], _ => rfl
  | p :: fin, h => by
    have hp := h p mem_cons_self
    simp only [map_cons, filterMap_cons, entryOf, hp]
    rw [filterMap_entryOf_final results fin (fun q hq => h q (mem_cons_of_mem _ hq))]

theorem filterMap_entryOf_failures (results : Nat → Except Err Rows) :
    ∀ fl : List Nat, (∀ l ∈ fl, ∃ e, results l = .error e) → fl.filterMap (entryOf results) = []
  | [], _ => rfl
  | l :: fl, h => by
    obtain ⟨e, he⟩ := h l mem_cons_self
    simp only [filterMap_cons, entryOf, he]
    exact filterMap_entryOf_failures results fl (fun q hq => h q (mem_cons_of_mem _ hq))

theorem mem_filterMap_entryOf {results : Nat → Except Err Rows} {l : List Nat} {p : Nat × Rows}
    (h : p ∈ l.filterMap (entryOf results)) : p.1 ∈ l ∧ results p.1 = .ok p.2 := by
  obtain ⟨r, hr, he⟩ := mem_filterMap.1 h
  unfold entryOf at he
  split at he
  next rows hres => cases he; exact ⟨hr, hres⟩
  next => cases he

/-- the final stable argsort turns any handling order into the sequential result -/
theorem final_sorted_eq (c : Cfg) (runs : List Nat) (st : St) (inv : Inv c (sortBy id runs) st)
    (hf : st.futures = []) (hp : st.pending = []) :
    sortBy Prod.fst st.final = sequential runs c.results := by
  rw [sequential_eq]
  have hperm : st.final.Perm ((sortBy id runs).filterMap (entryOf c.results)) := by
    have h := inv.perm.filterMap (entryOf c.results)
    simp only [St.labels, hf, hp, map_nil, append_nil, filterMap_append,
      filterMap_entryOf_final c.results st.final inv.finalOk,
      filterMap_entryOf_failures c.results st.failures inv.failErr] at h
    exact h
  apply Perm.eq_of_pairwise (le := fun x y : Nat × Rows => x.1 ≤ y.1)
  · intro a b ha hb hab hba
    have ha' : c.results a.1 = .ok a.2 := inv.finalOk a ((sortBy_perm _ _).mem_iff.1 ha)
    have hb' := (mem_filterMap_entryOf hb).2
    have hk : a.1 = b.1 := Nat.le_antisymm hab hba
    rw [hk, hb'] at ha'
    cases a; cases b
    simp only [Except.ok.injEq] at ha'
    simp_all
  · exact sortBy_pairwise Prod.fst st.final
  · refine Pairwise.filterMap (R := fun x y : Nat => x ≤ y) _ ?_ (sortBy_pairwise id runs)
    intro a a' haa' b hb b' hb'
    unfold entryOf at hb hb'
    split at hb <;> cases hb
    split at hb' <;> cases hb'
    exact haa'
  · exact (sortBy_perm _ _).trans hperm

theorem inv_init (c : Cfg) (runs : List Nat) (n : Nat) :
    Inv c (sortBy id runs) (submit (n + 1) (St.init (sortBy id runs))) where
  label := submit_label _ _ (by simp [St.init])
  perm := (submit_labels_perm _ _).trans (by simp [St.labels, St.init])
  finalOk := by rw [submit_final]; simp [St.init]
  failErr := by rw [submit_failures]; simp [St.init]
  noFail := by intro _; rw [submit_failures]; rfl
  window := submit_window n _

/-- the whole of `multi_run` (results kept) -/
theorem multiRun_spec (runs order : List Nat) (results : Nat → Except Err Rows) (ig : Bool) (w : Nat)
    (hw : 0 < w) :
    (multiRun runs order results ig w = .ok (sequential runs results) ∧
      (ig = false → ∀ r ∈ runs, ∃ rows, results r = .ok rows)) ∨
    (ig = false ∧ ∃ e, multiRun runs order results ig w = .error e ∧ ∃ r ∈ runs, results r = .error e) := by
  unfold multiRun multiRunFull
  have hw0 : ¬ w = 0 := Nat.pos_iff_ne_zero.1 hw
  simp only [hw0, if_false]
  obtain ⟨n, hn⟩ : ∃ n, 2 * w = n + 1 := ⟨2 * w - 1, by omega⟩
  rw [hn]
  have hfuel : (submit (n + 1) (St.init (sortBy id runs))).futures.length +
      (submit (n + 1) (St.init (sortBy id runs))).pending.length ≤ runs.length := by
    rw [submit_size]; simp [St.init, sortBy_length]
  rcases loop_spec ⟨order, results, ig, false, w⟩ rfl hw (sortBy id runs) runs.length _
      (inv_init _ runs n) hfuel with ⟨st', hl, inv, hf, hp⟩ | ⟨e, sub, hl, hig, r, hr, hre⟩
  · left
    constructor
    · rw [hl]
      simp only [Bool.false_eq_true, if_false]
      rw [final_sorted_eq ⟨order, results, ig, false, w⟩ runs st' inv hf hp]
    · intro hig r hr
      have hr' : r ∈ st'.labels := inv.perm.mem_iff.2 ((sortBy_perm id runs).mem_iff.2 hr)
      have hnf : st'.failures = [] := inv.noFail hig
      simp only [St.labels, hf, hp, hnf, map_nil, append_nil, mem_map] at hr'
      obtain ⟨p, hpm, hpr⟩ := hr'
      exact ⟨p.2, by rw [← hpr]; exact inv.finalOk p hpm⟩
  · right
    refine ⟨hig, e, ?_, r, (sortBy_perm id runs).mem_iff.1 hr, hre⟩
    rw [hl]

/-! ## registry: serialized blocks -/

theorem regKeys_regSet_of_not_mem (k : Key) (cls : Nat) :
    ∀ reg : Registry, k ∉ regKeys reg → regSet k cls reg = reg ++ [(k, cls)]
  | [], _ => rfl
  | (k', c') :: rest, h => by
    have hne : ¬ k' = k := fun e => h (by simp [regKeys, e])
    have hrest : k ∉ regKeys rest := fun hm => h (by simp only [regKeys, map_cons, mem_cons]; exact Or.inr hm)
    simp only [regSet, hne, if_false, regKeys_regSet_of_not_mem k cls rest hrest, cons_append]

theorem regDel_append_self (k : Key) (cls : Nat) (reg : Registry) (h : k ∉ regKeys reg) :
    regDel k (reg ++ [(k, cls)]) = reg := by
  unfold regDel
  rw [filter_append]
  have h1 : reg.filter (fun x => x.1 != k) = reg := by
    apply filter_eq_self.2
    intro a ha
    have : a.1 ≠ k := fun e => h (by rw [← e]; exact mem_map_of_mem ha)
    simpa using this
  simp [h1]

theorem regLookup_of_not_mem (k : Key) : ∀ reg : Registry, k ∉ regKeys reg → regLookup reg k = none
  | [], _ => rfl
  | (k', c') :: rest, h => by
    have hne : ¬ k' = k := fun e => h (by simp [regKeys, e])
    have hrest : k ∉ regKeys rest := fun hm => h (by simp only [regKeys, map_cons, mem_cons]; exact Or.inr hm)
    have ih := regLookup_of_not_mem k rest hrest
    unfold regLookup at ih ⊢
    simp only [find?_cons]
    have : ((k', c').1 == k) = false := by simpa using hne
    rw [this]
    exact ih

/-- no `_temp*` key is registered -/
def NoTemp (reg : Registry) : Prop := ∀ key ∈ regKeys reg, key.isTemp = false

theorem noTemp_not_mem {reg : Registry} (h : NoTemp reg) (k : Nat) : Key.temp k ∉ regKeys reg :=
  fun hm => by have := h _ hm; simp [Key.isTemp] at this

theorem filter_isTemp_noTemp {reg : Registry} (h : NoTemp reg) : (regKeys reg).filter Key.isTemp = [] := by
  apply filter_eq_nil_iff.2
  intro a ha
  simp [h a ha]

theorem baseRegistry_noTemp (n : Nat) : NoTemp (baseRegistry n) := by
  intro key hk
  simp only [baseRegistry, regKeys, map_map, mem_map] at hk
  obtain ⟨i, _, rfl⟩ := hk
  rfl

theorem itersGet_itersSet (its : Iters) (i : Iter) : itersGet (itersSet its i) i.id = some i := by
  simp [itersGet, itersSet]

theorem runAlone_done (fuel : Nat) (s : Shared) (its : Iters) (t : Thread) (h : t.prog = []) :
    runAlone fuel s its t = (s, its, t) := by
  cases fuel <;> simp [runAlone, h]

theorem runAlone_step (fuel : Nat) (s : Shared) (its : Iters) (t : Thread) (hf : t.failed = none)
    (hp : t.prog ≠ []) :
    runAlone (fuel + 1) s its t =
      runAlone fuel (stepThread s its t).1 (stepThread s its t).2.1 (stepThread s its t).2.2 := by
  have hp' : t.prog.isEmpty = false := by
    cases h : t.prog with
    | nil => exact absurd h hp
    | cons a l => rfl
  simp [runAlone, hf, hp']

/-- a thread that iterates the registry alone finishes the iteration -/
theorem hash_loop (tid : Nat) (rest : List Instr) (ins : Nat) :
    ∀ (d : Nat) (s : Shared) (its : Iters) (pos fuel : Nat),
      itersGet its tid = some ⟨tid, s.reg.length, pos, ins⟩ → pos + d = s.reg.length →
      ∃ its', runAlone (d + 1 + fuel) s its ⟨tid, .contextHash :: rest, .hashing, none⟩
            = runAlone fuel s its' ⟨tid, rest, .idle, none⟩ := by
  intro d
  induction d with
  | zero =>
    intro s its pos fuel hget hpos
    have hnone : (regKeys s.reg)[pos]? = none := by
      apply getElem?_eq_none
      simp [regKeys]; omega
    refine ⟨itersDrop its tid, ?_⟩
    rw [show 0 + 1 + fuel = fuel + 1 by omega, runAlone_step _ _ _ _ rfl (by simp)]
    simp [stepThread, applyAct, hget, hnone]
  | succ d ih =>
    intro s its pos fuel hget hpos
    have hlt : pos < (regKeys s.reg).length := by simp [regKeys]; omega
    obtain ⟨k, hk⟩ : ∃ k, (regKeys s.reg)[pos]? = some k := ⟨_, getElem?_eq_getElem hlt⟩
    obtain ⟨its', h'⟩ := ih s (itersSet its ⟨tid, s.reg.length, pos + 1, ins⟩) (pos + 1) fuel
      (itersGet_itersSet its ⟨tid, s.reg.length, pos + 1, ins⟩) (by omega)
    refine ⟨its', ?_⟩
    rw [show d + 1 + 1 + fuel = (d + 1 + fuel) + 1 by omega, runAlone_step _ _ _ _ rfl (by simp)]
    simp only [stepThread, applyAct, hget, hk]
    simpa using h'

theorem runAlone_step' {fuel : Nat} {s s' : Shared} {its its' : Iters} {t t' : Thread}
    (h : stepThread s its t = (s', its', t')) (hf : t.failed = none) (hp : t.prog ≠ []) :
    runAlone (fuel + 1) s its t = runAlone fuel s' its' t' := by
  rw [runAlone_step _ _ _ _ hf hp, h]

theorem step_register1 (s : Shared) (its : Iters) (tid k : Nat) (rest : List Instr)
    (hk : Key.temp k ∉ regKeys s.reg) :
    stepThread s its ⟨tid, .registerTemp k :: rest, .idle, none⟩ =
      (s, its, ⟨tid, .registerTemp k :: rest, .registering false, none⟩) := by
  simp [stepThread, applyAct, regLookup_of_not_mem _ _ hk]

theorem step_register2 (s : Shared) (its : Iters) (tid k : Nat) (rest : List Instr)
    (hk : Key.temp k ∉ regKeys s.reg) :
    stepThread s its ⟨tid, .registerTemp k :: rest, .registering false, none⟩ =
      ({ s with reg := s.reg ++ [(.temp k, tid)], inserts := s.inserts + 1 }, its, ⟨tid, rest, .idle, none⟩) := by
  simp [stepThread, applyAct, regKeys_regSet_of_not_mem _ _ _ hk, hk]

theorem step_resolve1 (s : Shared) (its : Iters) (tid k : Nat) (rest : List Instr)
    (hk : Key.temp k ∈ regKeys s.reg) :
    stepThread s its ⟨tid, .resolve k :: rest, .idle, none⟩ =
      (s, its, ⟨tid, .resolve k :: rest, .resolving k, none⟩) := by
  simp [stepThread, applyAct, hk]

theorem step_resolve2 (s : Shared) (its : Iters) (tid k : Nat) (rest : List Instr)
    (hk : Key.temp k ∈ regKeys s.reg) :
    stepThread s its ⟨tid, .resolve k :: rest, .resolving k, none⟩ = (s, its, ⟨tid, rest, .idle, none⟩) := by
  simp [stepThread, applyAct, hk]

theorem step_snapshot (s : Shared) (its : Iters) (tid : Nat) (rest : List Instr) :
    stepThread s its ⟨tid, .deleteAllTemp :: rest, .idle, none⟩ =
      (s, its, ⟨tid, .deleteAllTemp :: rest, .deleting ((regKeys s.reg).filter Key.isTemp), none⟩) := by
  simp [stepThread, applyAct]

theorem step_del (s : Shared) (its : Iters) (tid : Nat) (rest : List Instr) (key : Key) (todo : List Key)
    (hk : key ∈ regKeys s.reg) :
    stepThread s its ⟨tid, .deleteAllTemp :: rest, .deleting (key :: todo), none⟩ =
      ({ s with reg := regDel key s.reg }, its, ⟨tid, .deleteAllTemp :: rest, .deleting todo, none⟩) := by
  simp [stepThread, applyAct, hk]

theorem step_del_nil (s : Shared) (its : Iters) (tid : Nat) (rest : List Instr) :
    stepThread s its ⟨tid, .deleteAllTemp :: rest, .deleting [], none⟩ = (s, its, ⟨tid, rest, .idle, none⟩) := by
  simp [stepThread]

theorem step_hash_begin (s : Shared) (its : Iters) (tid : Nat) (rest : List Instr) :
    stepThread s its ⟨tid, .contextHash :: rest, .idle, none⟩ =
      (s, itersSet its ⟨tid, s.reg.length, 0, s.inserts⟩, ⟨tid, .contextHash :: rest, .hashing, none⟩) := by
  simp [stepThread, applyAct]

/-- the locked block, run alone on a registry without temp keys, succeeds and restores the registry -/
theorem runAlone_lockedProg (s : Shared) (its : Iters) (tid k : Nat) (hnt : NoTemp s.reg) :
    ∃ its', runAlone (progFuel s.reg.length (lockedProg k)) s its (Thread.mk' tid (lockedProg k))
      = ({ s with inserts := s.inserts + 1 }, its', ⟨tid, [], .idle, none⟩) := by
  have hk : Key.temp k ∉ regKeys s.reg := noTemp_not_mem hnt k
  have hmem : Key.temp k ∈ regKeys (s.reg ++ [(Key.temp k, tid)]) := by simp [regKeys]
  have hfilt : (regKeys (s.reg ++ [(Key.temp k, tid)])).filter Key.isTemp = [.temp k] := by
    simp only [regKeys, map_append, filter_append]
    have := filter_isTemp_noTemp hnt
    simp only [regKeys] at this
    rw [this]
    simp [Key.isTemp]
  have hdel : regDel (.temp k) (s.reg ++ [(.temp k, tid)]) = s.reg := regDel_append_self _ _ _ hk
  obtain ⟨its', hloop⟩ := hash_loop tid [] (s.inserts + 1) s.reg.length
    { s with inserts := s.inserts + 1 } (itersSet its ⟨tid, s.reg.length, 0, s.inserts + 1⟩) 0
    (3 * s.reg.length + 7) (itersGet_itersSet its ⟨tid, s.reg.length, 0, s.inserts + 1⟩) (by simp)
  refine ⟨its', ?_⟩
  have hfuel : progFuel s.reg.length (lockedProg k) =
      (s.reg.length + 1 + (3 * s.reg.length + 7)) + 1 + 1 + 1 + 1 + 1 + 1 + 1 + 1 := by
    simp [progFuel, lockedProg]; omega
  rw [hfuel]
  unfold Thread.mk' lockedProg
  rw [runAlone_step' (step_register1 s its tid k _ hk) rfl (by simp)]
  rw [runAlone_step' (step_register2 s its tid k _ hk) rfl (by simp)]
  rw [runAlone_step' (step_resolve1 _ its tid k _ hmem) rfl (by simp)]
  rw [runAlone_step' (step_resolve2 _ its tid k _ hmem) rfl (by simp)]
  rw [runAlone_step' (step_snapshot _ its tid _) rfl (by simp)]
  simp only [hfilt]
  rw [runAlone_step' (step_del _ its tid _ (.temp k) [] hmem) rfl (by simp)]
  simp only [hdel]
  rw [runAlone_step' (step_del_nil _ its tid _) rfl (by simp)]
  rw [runAlone_step' (step_hash_begin _ its tid _) rfl (by simp)]
  exact hloop.trans (runAlone_done _ _ _ _ rfl)

/-- invariant of a system whose workers run the locked block atomically -/
structure BInv (n : Nat) (c : Bool) (sys : Sys) : Prop where
  reg : sys.shared.reg = baseRegistry n
  cache : sys.shared.cacheSet = c
  thr : ∀ t ∈ sys.threads, t.failed = none ∧ t.micro = .idle ∧ (t.prog = [] ∨ ∃ k, t.prog = lockedProg k)

theorem binv_init (n : Nat) (c : Bool) (temps : List Nat) : BInv n c (Sys.init n c (temps.map lockedProg)) where
  reg := rfl
  cache := rfl
  thr := by
    intro t ht
    simp only [Sys.init, Sys.initWith, mem_map] at ht
    obtain ⟨⟨p, i⟩, hpi, rfl⟩ := ht
    have hp : p ∈ temps.map lockedProg := by
      have := mem_zipIdx_iff_getElem?.1 hpi
      exact mem_of_getElem? this
    obtain ⟨k, _, rfl⟩ := mem_map.1 hp
    exact ⟨rfl, rfl, Or.inr ⟨k, rfl⟩⟩

theorem stepBlock_none {sys : Sys} {i : Nat} (h : sys.threads[i]? = none) : sys.stepBlock i = sys := by
  simp [Sys.stepBlock, h]

theorem stepBlock_some {sys : Sys} {i : Nat} {t t' : Thread} {s' : Shared} {its' : Iters}
    (h : sys.threads[i]? = some t)
    (hrun : runAlone (progFuel sys.shared.reg.length t.prog) sys.shared sys.iters t = (s', its', t')) :
    sys.stepBlock i = { shared := s', iters := its', threads := sys.threads.set i t' } := by
  simp [Sys.stepBlock, h, hrun]

/-- effect of setting thread `i` to a finished thread -/
theorem set_done_spec (n : Nat) (c : Bool) (sys : Sys) (inv : BInv n c sys) (i : Nat) (hi : i < sys.threads.length)
    (s' : Shared) (its' : Iters) (tid : Nat) (hreg : s'.reg = baseRegistry n) (hc : s'.cacheSet = c) :
    let sys' : Sys := { shared := s', iters := its', threads := sys.threads.set i ⟨tid, [], .idle, none⟩ }
    BInv n c sys' ∧ sys'.threads.length = sys.threads.length ∧
    (∀ t : Thread, sys'.threads[i]? = some t → t.done = true) ∧
    (∀ (j : Nat) (t : Thread), sys.threads[j]? = some t → t.done = true →
      ∀ t' : Thread, sys'.threads[j]? = some t' → t'.done = true) := by
  refine ⟨⟨hreg, hc, ?_⟩, by simp, ?_, ?_⟩
  · intro t' ht'
    rcases mem_or_eq_of_mem_set ht' with ht' | rfl
    · exact inv.thr t' ht'
    · exact ⟨rfl, rfl, Or.inl rfl⟩
  · intro t' ht'
    simp only [getElem?_set_self hi] at ht'
    cases ht'; rfl
  · intro j t' hj hd t'' hj'
    by_cases hij : i = j
    · subst hij
      simp only [getElem?_set_self hi] at hj'
      cases hj'; rfl
    · simp only [getElem?_set_ne hij] at hj'
      rw [hj] at hj'; cases hj'; exact hd

theorem stepBlock_spec (n : Nat) (c : Bool) (sys : Sys) (inv : BInv n c sys) (i : Nat) :
    BInv n c (sys.stepBlock i) ∧
    (sys.stepBlock i).threads.length = sys.threads.length ∧
    (∀ t : Thread, (sys.stepBlock i).threads[i]? = some t → t.done = true) ∧
    (∀ (j : Nat) (t : Thread), sys.threads[j]? = some t → t.done = true →
      ∀ t' : Thread, (sys.stepBlock i).threads[j]? = some t' → t'.done = true) := by
  cases h : sys.threads[i]? with
  | none =>
    rw [stepBlock_none h]
    refine ⟨inv, rfl, ?_, ?_⟩
    · intro t ht; rw [h] at ht; cases ht
    · intro j t hj hd t' hj'
      rw [hj] at hj'; cases hj'; exact hd
  | some t =>
    have ht : t ∈ sys.threads := mem_of_getElem? h
    have hi : i < sys.threads.length := (List.getElem?_eq_some_iff.1 h).1
    obtain ⟨hfail, hmicro, hprog⟩ := inv.thr t ht
    obtain ⟨tid, prog, micro, failed⟩ := t
    simp only at hfail hmicro hprog
    subst hfail hmicro
    rcases hprog with hp | ⟨k, hp⟩
    · subst hp
      have hrun := runAlone_done (progFuel sys.shared.reg.length []) sys.shared sys.iters ⟨tid, [], .idle, none⟩ rfl
      rw [stepBlock_some h hrun]
      exact set_done_spec n c sys inv i hi sys.shared sys.iters tid inv.reg inv.cache
    · subst hp
      have hnt : NoTemp sys.shared.reg := by rw [inv.reg]; exact baseRegistry_noTemp n
      obtain ⟨its', hrun⟩ := runAlone_lockedProg sys.shared sys.iters tid k hnt
      simp only [Thread.mk'] at hrun
      rw [stepBlock_some h hrun]
      exact set_done_spec n c sys inv i hi _ its' tid inv.reg inv.cache

theorem runBlocks_spec (n : Nat) (c : Bool) :
    ∀ (schedule : List Nat) (sys : Sys), BInv n c sys →
      BInv n c (sys.runBlocks schedule) ∧
      (sys.runBlocks schedule).threads.length = sys.threads.length ∧
      (∀ (j : Nat) (t : Thread), sys.threads[j]? = some t → t.done = true →
        ∀ t' : Thread, (sys.runBlocks schedule).threads[j]? = some t' → t'.done = true) ∧
      (∀ i ∈ schedule, ∀ t : Thread, (sys.runBlocks schedule).threads[i]? = some t → t.done = true) := by
  intro schedule
  induction schedule with
  | nil =>
    intro sys inv
    refine ⟨inv, rfl, ?_, ?_⟩
    · intro j t hj hd t' hj'
      simp only [Sys.runBlocks, foldl_nil] at hj'
      rw [hj] at hj'; cases hj'; exact hd
    · intro i hi; cases hi
  | cons a rest ih =>
    intro sys inv
    obtain ⟨inv1, hlen1, hdone1, hkeep1⟩ := stepBlock_spec n c sys inv a
    obtain ⟨inv2, hlen2, hkeep2, hsched2⟩ := ih (sys.stepBlock a) inv1
    have hrun : sys.runBlocks (a :: rest) = (sys.stepBlock a).runBlocks rest := rfl
    rw [hrun]
    refine ⟨inv2, hlen2.trans hlen1, ?_, ?_⟩
    · intro j t hj hd t' hj'
      have hjlt : j < (sys.stepBlock a).threads.length := by
        rw [hlen1]; exact (List.getElem?_eq_some_iff.1 hj).1
      obtain ⟨t1, ht1⟩ : ∃ t1, (sys.stepBlock a).threads[j]? = some t1 := ⟨_, getElem?_eq_getElem hjlt⟩
      exact hkeep2 j t1 ht1 (hkeep1 j t hj hd t1 ht1) t' hj'
    · intro i hi t ht
      rcases mem_cons.1 hi with rfl | hi
      · have hilt : i < (sys.stepBlock i).threads.length := by
          rw [← hlen2]; exact (List.getElem?_eq_some_iff.1 ht).1
        obtain ⟨t1, ht1⟩ : ∃ t1, (sys.stepBlock i).threads[i]? = some t1 := ⟨_, getElem?_eq_getElem hilt⟩
        exact hkeep2 i t1 ht1 (hdone1 t1 ht1) t ht
      · exact hsched2 i hi t ht

theorem failures_nil_of_binv {n : Nat} {c : Bool} {sys : Sys} (inv : BInv n c sys) : sys.failures = [] := by
  unfold Sys.failures
  apply filterMap_eq_nil_iff.2
  intro t ht
  simp [(inv.thr t ht).1]

theorem runBlocks_safe (nPlugins : Nat) (cacheSet : Bool) (temps : List Nat) (schedule : List Nat) :
    let sys := (Sys.init nPlugins cacheSet (temps.map lockedProg)).runBlocks schedule
    sys.failures = [] ∧
    sys.shared.reg = baseRegistry nPlugins ∧
    sys.shared.cacheSet = cacheSet ∧
    (∀ i ∈ schedule, ∀ t : Thread, sys.threads[i]? = some t → t.done = true) := by
  obtain ⟨inv, _, _, hs⟩ := runBlocks_spec nPlugins cacheSet schedule _ (binv_init nPlugins cacheSet temps)
  exact ⟨failures_nil_of_binv inv, inv.reg, inv.cache, hs⟩

theorem init_threads_length (n : Nat) (c : Bool) (progs : List (List Instr)) :
    (Sys.init n c progs).threads.length = progs.length := by
  simp [Sys.init, Sys.initWith]

theorem runBlocks_allDone (nPlugins : Nat) (cacheSet : Bool) (temps : List Nat) (schedule : List Nat)
    (hall : ∀ i, i < temps.length → i ∈ schedule) :
    ((Sys.init nPlugins cacheSet (temps.map lockedProg)).runBlocks schedule).allDone = true := by
  obtain ⟨_, hlen, _, hs⟩ := runBlocks_spec nPlugins cacheSet schedule _ (binv_init nPlugins cacheSet temps)
  unfold Sys.allDone
  apply all_eq_true.2
  intro t ht
  obtain ⟨i, hi, hget⟩ := getElem_of_mem ht
  have hi' : i < temps.length := by
    rw [hlen, init_threads_length] at hi; simpa using hi
  exact hs i (hall i hi') t (by rw [getElem?_eq_getElem hi, hget])

/-! ## workers that only read the shared state -/

theorem itersGet_id {its : Iters} {a : Nat} {i : Iter} (h : itersGet its a = some i) : i.id = a := by
  have := find?_some h
  simpa using this

theorem itersGet_itersDrop_ne (its : Iters) {a b : Nat} (h : b ≠ a) : itersGet (itersDrop its a) b = itersGet its b := by
  induction its with
  | nil => rfl
  | cons x l ih =>
    unfold itersGet itersDrop at ih ⊢
    by_cases hx : x.id = a
    · have hab : (a == b) = false := by simpa using fun e : a = b => h e.symm
      simp only [filter_cons, hx, bne_self_eq_false, Bool.false_eq_true, if_false, find?_cons, hab]
      exact ih
    · have : (x.id != a) = true := by simpa using hx
      simp only [filter_cons, this, if_true, find?_cons]
      cases hb : (x.id == b) with
      | true => rfl
      | false => exact ih

theorem itersGet_itersSet_ne (its : Iters) (i : Iter) {b : Nat} (h : b ≠ i.id) :
    itersGet (itersSet its i) b = itersGet its b := by
  have hib : (i.id == b) = false := by simpa using fun e : i.id = b => h e.symm
  have := itersGet_itersDrop_ne its h
  unfold itersGet at this ⊢
  unfold itersSet
  simp only [find?_cons, hib]
  exact this

/-- where a read-only worker can be inside an instruction, and what its iterator looks like -/
def MicroOK (s : Shared) (its : Iters) (t : Thread) : Prop :=
  match t.micro with
  | .idle => True
  | .hashing => ∃ it, itersGet its t.tid = some it ∧ it.size = s.reg.length
  | .deleting todo => todo = []
  | .innerHashing d => ∃ l it, s.inner[d]? = some l ∧ itersGet its t.tid = some it ∧ it.size = l.length
  | _ => False

theorem step_readonly (s : Shared) (its : Iters) (t : Thread) (hnt : NoTemp s.reg) (hc : s.cacheSet = true)
    (hf : t.failed = none) (hro : ∀ ins ∈ t.prog, ins.readOnly s.inner = true) (hm : MicroOK s its t) :
    ∃ its' t', stepThread s its t = (s, its', t') ∧ t'.tid = t.tid ∧ t'.failed = none ∧
      (∀ ins ∈ t'.prog, ins.readOnly s.inner = true) ∧ MicroOK s its' t' ∧
      (∀ b, b ≠ t.tid → itersGet its' b = itersGet its b) := by
  obtain ⟨tid, prog, micro, failed⟩ := t
  simp only at hf hro
  subst hf
  cases prog with
  | nil => exact ⟨its, _, by simp [stepThread], rfl, rfl, hro, hm, fun _ _ => rfl⟩
  | cons ins rest =>
    have hrest : ∀ i ∈ rest, i.readOnly s.inner = true := fun i hi => hro i (mem_cons_of_mem _ hi)
    have hins := hro ins mem_cons_self
    cases micro with
    | idle =>
      cases ins with
      | contextHash =>
        refine ⟨itersSet its ⟨tid, s.reg.length, 0, s.inserts⟩, ⟨tid, .contextHash :: rest, .hashing, none⟩,
          by simp [stepThread, applyAct], rfl, rfl, hro, ?_, ?_⟩
        · exact ⟨_, itersGet_itersSet its ⟨tid, s.reg.length, 0, s.inserts⟩, rfl⟩
        · intro b hb; exact itersGet_itersSet_ne its _ hb
      | cacheTest => exact ⟨its, ⟨tid, rest, .idle, none⟩, by simp [stepThread], rfl, rfl, hrest, trivial, fun _ _ => rfl⟩
      | cacheUse =>
        exact ⟨its, ⟨tid, rest, .idle, none⟩, by simp [stepThread, applyAct, hc], rfl, rfl, hrest, trivial, fun _ _ => rfl⟩
      | tryLookupTemp k => exact ⟨its, ⟨tid, rest, .idle, none⟩, by simp [stepThread], rfl, rfl, hrest, trivial, fun _ _ => rfl⟩
      | deleteAllTemp =>
        refine ⟨its, ⟨tid, .deleteAllTemp :: rest, .deleting [], none⟩, ?_, rfl, rfl, hro, rfl, fun _ _ => rfl⟩
        simp [stepThread, applyAct, filter_isTemp_noTemp hnt]
      | innerIter d =>
        have hd : d < s.inner.length := by simpa [Instr.readOnly] using hins
        obtain ⟨l, hl⟩ : ∃ l, s.inner[d]? = some l := ⟨_, getElem?_eq_getElem hd⟩
        refine ⟨itersSet its ⟨tid, l.length, 0, 0⟩, ⟨tid, .innerIter d :: rest, .innerHashing d, none⟩,
          by simp [stepThread, hl], rfl, rfl, hro, ?_, ?_⟩
        · exact ⟨l, _, hl, itersGet_itersSet its ⟨tid, l.length, 0, 0⟩, rfl⟩
        · intro b hb; exact itersGet_itersSet_ne its _ hb
      | innerGet d key =>
        cases hl : s.inner[d]? with
        | none => simp [Instr.readOnly, hl] at hins
        | some l =>
          have hk : key ∈ l := by simpa [Instr.readOnly, hl] using hins
          exact ⟨its, ⟨tid, rest, .idle, none⟩, by simp [stepThread, hl, hk], rfl, rfl, hrest, trivial, fun _ _ => rfl⟩
      | registerTemp k => simp [Instr.readOnly] at hins
      | resolve k => simp [Instr.readOnly] at hins
      | cacheLookup => simp [Instr.readOnly] at hins
      | lookupTemp k => simp [Instr.readOnly] at hins
      | cacheInit => simp [Instr.readOnly] at hins
      | innerSet d key => simp [Instr.readOnly] at hins
    | hashing =>
      obtain ⟨it, hget, hsz⟩ := hm
      have hid : it.id = tid := itersGet_id hget
      cases hk : (regKeys s.reg)[it.pos]? with
      | some k =>
        refine ⟨itersSet its { it with pos := it.pos + 1 }, ⟨tid, ins :: rest, .hashing, none⟩, ?_, rfl, rfl, hro, ?_, ?_⟩
        · simp [stepThread, applyAct, hget, hsz, hk]
        · refine ⟨{ it with pos := it.pos + 1 }, ?_, hsz⟩
          have := itersGet_itersSet its { it with pos := it.pos + 1 }
          simpa [hid] using this
        · intro b hb; exact itersGet_itersSet_ne its _ (by simpa [hid] using hb)
      | none =>
        refine ⟨itersDrop its tid, ⟨tid, rest, .idle, none⟩, ?_, rfl, rfl, hrest, trivial, ?_⟩
        · simp [stepThread, applyAct, hget, hsz, hk]
        · intro b hb; exact itersGet_itersDrop_ne its hb
    | deleting todo =>
      have : todo = [] := hm
      subst this
      exact ⟨its, ⟨tid, rest, .idle, none⟩, by simp [stepThread], rfl, rfl, hrest, trivial, fun _ _ => rfl⟩
    | innerHashing d =>
      obtain ⟨l, it, hl, hget, hsz⟩ := hm
      have hid : it.id = tid := itersGet_id hget
      by_cases hpos : it.pos < l.length
      · refine ⟨itersSet its { it with pos := it.pos + 1 }, ⟨tid, ins :: rest, .innerHashing d, none⟩, ?_, rfl, rfl, hro, ?_, ?_⟩
        · simp [stepThread, hl, hget, hsz, hpos]
        · refine ⟨l, { it with pos := it.pos + 1 }, hl, ?_, hsz⟩
          have := itersGet_itersSet its { it with pos := it.pos + 1 }
          simpa [hid] using this
        · intro b hb; exact itersGet_itersSet_ne its _ (by simpa [hid] using hb)
      · refine ⟨itersDrop its tid, ⟨tid, rest, .idle, none⟩, ?_, rfl, rfl, hrest, trivial, ?_⟩
        · simp [stepThread, hl, hget, hsz, hpos]
        · intro b hb; exact itersGet_itersDrop_ne its hb
    | resolving k => exact absurd hm (by simp [MicroOK])
    | cacheChecked => exact absurd hm (by simp [MicroOK])
    | registering r => exact absurd hm (by simp [MicroOK])

/-- invariant of a system of read-only workers -/
structure RInv (s0 : Shared) (sys : Sys) : Prop where
  shared : sys.shared = s0
  thr : ∀ (i : Nat) (t : Thread), sys.threads[i]? = some t →
    t.tid = i ∧ t.failed = none ∧ (∀ ins ∈ t.prog, ins.readOnly s0.inner = true) ∧ MicroOK s0 sys.iters t

theorem microOK_congr {s : Shared} {its its' : Iters} {t : Thread}
    (h : itersGet its' t.tid = itersGet its t.tid) (hm : MicroOK s its t) : MicroOK s its' t := by
  unfold MicroOK at hm ⊢
  split <;> simp_all

theorem rinv_step (s0 : Shared) (hnt : NoTemp s0.reg) (hc : s0.cacheSet = true) (sys : Sys) (inv : RInv s0 sys)
    (a : Nat) : RInv s0 (sys.step a) := by
  unfold Sys.step
  cases h : sys.threads[a]? with
  | none => exact inv
  | some t =>
    obtain ⟨htid, hf, hro, hm⟩ := inv.thr a t h
    have hs := inv.shared
    obtain ⟨its', t', hstep, htid', hf', hro', hm', hother⟩ :=
      step_readonly s0 sys.iters t hnt hc hf hro hm
    have ha : a < sys.threads.length := (List.getElem?_eq_some_iff.1 h).1
    simp only [hs, hstep]
    refine ⟨rfl, ?_⟩
    intro i ti hi
    by_cases hia : a = i
    · subst hia
      simp only [getElem?_set_self ha, Option.some.injEq] at hi
      subst hi
      exact ⟨htid'.trans htid, hf', hro', hm'⟩
    · simp only [getElem?_set_ne hia] at hi
      obtain ⟨h1, h2, h3, h4⟩ := inv.thr i ti hi
      refine ⟨h1, h2, h3, microOK_congr ?_ h4⟩
      apply hother
      rw [h1, htid]
      exact fun e => hia e.symm

theorem rinv_run (s0 : Shared) (hnt : NoTemp s0.reg) (hc : s0.cacheSet = true) :
    ∀ (schedule : List Nat) (sys : Sys), RInv s0 sys → RInv s0 (sys.run schedule) := by
  intro schedule
  induction schedule with
  | nil => intro sys inv; exact inv
  | cons a rest ih => intro sys inv; exact ih _ (rinv_step s0 hnt hc sys inv a)

theorem rinv_init (n : Nat) (inner : List (List Key)) (progs : List (List Instr))
    (h : ∀ p ∈ progs, ∀ i ∈ p, i.readOnly inner = true) :
    RInv (Sys.initWith n true inner progs).shared (Sys.initWith n true inner progs) where
  shared := rfl
  thr := by
    intro i t hi
    simp only [Sys.initWith, getElem?_map] at hi
    cases hz : progs.zipIdx[i]? with
    | none => simp [hz] at hi
    | some pi =>
      simp only [hz, Option.map_some, Option.some.injEq] at hi
      subst hi
      obtain ⟨p, j⟩ := pi
      have hmem : (p, j) ∈ progs.zipIdx := mem_of_getElem? hz
      have hp : progs[j]? = some p := mem_zipIdx_iff_getElem?.1 hmem
      have hji : j = i := by
        have := getElem?_zipIdx (l := progs) (i := 0) (j := i)
        rw [hz] at this
        cases hpi : progs[i]? with
        | none => simp [hpi] at this
        | some q => simp [hpi] at this; omega
      subst hji
      exact ⟨rfl, rfl, fun ins hins => h p (mem_of_getElem? hp) ins hins, trivial⟩

theorem readonly_safe (n : Nat) (inner : List (List Key)) (progs : List (List Instr)) (schedule : List Nat)
    (h : ∀ p ∈ progs, ∀ i ∈ p, i.readOnly inner = true) :
    ((Sys.initWith n true inner progs).run schedule).failures = [] ∧
    ((Sys.initWith n true inner progs).run schedule).shared = (Sys.initWith n true inner progs).shared := by
  have inv := rinv_run (Sys.initWith n true inner progs).shared (baseRegistry_noTemp n) rfl schedule _
    (rinv_init n inner progs h)
  refine ⟨?_, inv.shared⟩
  unfold Sys.failures
  apply filterMap_eq_nil_iff.2
  intro t ht
  obtain ⟨i, hi, hget⟩ := getElem_of_mem ht
  have := (inv.thr i t (by rw [getElem?_eq_getElem hi, hget])).2.1
  simp [this]

end Strax.MultiRun
