import StraxModel.Model.Pulse
/-
  Lemmas about the data reduction of theory T14 (property C18): `copyRange` / `applyCopy` / `copyVia` pointwise,
  one hit (`cutHit_spec`), the hit loop, and `cutOutsideHits_spec`.  Core Lean only.
-/
namespace Strax.Pulse

/-! ### data reduction -/

/-- sample `j` of row `m` -/
def get2 (l : List (List Int)) (m j : Nat) : Option Int := (l[m]?).bind (·[j]?)

/-- two arrays of rows with the same shape -/
def Aligned (old new : List (List Int)) : Prop := old.map List.length = new.map List.length

theorem Aligned.len {old new : List (List Int)} (h : Aligned old new) : old.length = new.length := by
  have := congrArg List.length h
  simpa using this

theorem Aligned.row {old new : List (List Int)} (h : Aligned old new) (m : Nat) :
    (old[m]?).map List.length = (new[m]?).map List.length := by
  have := congrArg (fun l => l[m]?) h
  simpa using this

theorem copyRange_length (src : List Int) : ∀ (dst : List Int) (i a b : Nat), (copyRange src dst i a b).length = dst.length := by
  induction src with
  | nil => intro dst i a b; cases dst <;> simp [copyRange]
  | cons s ss ih =>
    intro dst i a b
    cases dst with
    | nil => simp [copyRange]
    | cons d ds => simp [copyRange, ih]

theorem copyRange_get (src : List Int) : ∀ (dst : List Int) (i a b j : Nat), src.length = dst.length →
    (copyRange src dst i a b)[j]? = if a ≤ i + j ∧ i + j < b then src[j]? else dst[j]? := by
  induction src with
  | nil =>
    intro dst i a b j h
    cases dst with
    | nil => simp [copyRange]
    | cons d ds => simp at h
  | cons s ss ih =>
    intro dst i a b j h
    cases dst with
    | nil => simp at h
    | cons d ds =>
      simp only [List.length_cons, Nat.add_right_cancel_iff] at h
      cases j with
      | zero => simp only [copyRange, List.getElem?_cons_zero, Nat.add_zero]; split <;> rfl
      | succ j =>
        simp only [copyRange, List.getElem?_cons_succ]
        rw [ih ds (i + 1) a b j h]
        have : i + 1 + j = i + (j + 1) := by omega
        rw [this]

theorem applyCopy_spec {old new : List (List Int)} (hal : Aligned old new) (k a b : Nat) :
    Aligned old (applyCopy old new k a b) ∧
    ∀ m j, get2 (applyCopy old new k a b) m j = if m = k ∧ a ≤ j ∧ j < b then get2 old m j else get2 new m j := by
  unfold applyCopy
  have hrow := hal.row k
  cases hk : old[k]? with
  | none =>
    refine ⟨hal, ?_⟩
    intro m j
    by_cases hc : m = k ∧ a ≤ j ∧ j < b
    · obtain ⟨rfl, -, -⟩ := hc
      rw [hk] at hrow
      have : new[m]? = none := by
        cases hn : new[m]? with
        | none => rfl
        | some v => rw [hn] at hrow; simp at hrow
      simp [get2, hk, this]
    · simp only [hc, ↓reduceIte]
  | some src =>
    rw [hk] at hrow
    obtain ⟨dst, hdst, hlen⟩ : ∃ dst, new[k]? = some dst ∧ src.length = dst.length := by
      cases hn : new[k]? with
      | none => rw [hn] at hrow; simp at hrow
      | some v => rw [hn] at hrow; exact ⟨v, rfl, by simpa using hrow⟩
    simp only
    constructor
    · unfold Aligned
      apply List.ext_getElem?
      intro m
      have := hal.row m
      simp only [List.getElem?_map] at this ⊢
      rw [this, List.getElem?_modify]
      cases hn : new[m]? with
      | none => simp
      | some v =>
        by_cases hkm : k = m
        · simp [hkm, copyRange_length]
        · simp [hkm]
    · intro m j
      simp only [get2, List.getElem?_modify]
      by_cases hm : m = k
      · subst hm
        simp only [hdst, hk, true_and, ↓reduceIte, Option.map_eq_map, Option.map_some, Option.bind_some]
        rw [copyRange_get src dst 0 a b j hlen]
        simp only [Nat.zero_add]
      · have : ¬ k = m := fun h => hm h.symm
        simp only [hm, false_and, ↓reduceIte]
        cases hn : new[m]? with
        | none => simp
        | some v => simp [this]

theorem copyVia_spec {old new : List (List Int)} (hal : Aligned old new) (link : Option Int) (a b : Nat) :
    Aligned old (copyVia old new link a b) ∧
    ∀ m j, get2 (copyVia old new link a b) m j =
      if (∃ p : Int, link = some p ∧ p ≠ -1 ∧ m = p.toNat ∧ a ≤ j ∧ j < b) then get2 old m j else get2 new m j := by
  unfold copyVia
  cases link with
  | none => simp [hal]
  | some p =>
    by_cases hp : p = -1
    · simp [hp, hal]
    · simp only [ne_eq, hp, not_false_eq_true, ↓reduceIte, Option.some.injEq]
      refine ⟨(applyCopy_spec hal _ _ _).1, ?_⟩
      intro m j
      rw [(applyCopy_spec hal _ _ _).2 m j]
      have : (m = p.toNat ∧ a ≤ j ∧ j < b) ↔ (∃ p' : Int, some p = some p' ∧ ¬ p' = -1 ∧ m = p'.toNat ∧ a ≤ j ∧ j < b) := by
        constructor
        · rintro h; exact ⟨p, rfl, hp, h⟩
        · rintro ⟨p', hp', -, h⟩
          simp only [Option.some.injEq] at hp'; subst hp'; exact h
      simp only [this]

/-- the samples whose copy one hit triggers, as the code computes them (through the link arrays) -/
def Covers (recs : List Record) (spr : Nat) (prev next : List Int) (le re : Int) (h : HitRef) (m j : Nat) : Prop :=
  (m = h.recordI ∧ ∃ r, recs[h.recordI]? = some r ∧ j < r.length ∧ (h.left : Int) - le ≤ j ∧ (j : Int) < h.right + re)
  ∨ (∃ p : Int, prev[h.recordI]? = some p ∧ p ≠ -1 ∧ m = p.toNat ∧ (h.left : Int) - le ≤ (j : Int) - spr ∧ j < spr)
  ∨ (∃ nx : Int, next[h.recordI]? = some nx ∧ nx ≠ -1 ∧ m = nx.toNat ∧ (j : Int) + spr < h.right + re ∧ j < spr)

theorem overlapIndices_own {len : Nat} {sk ek : Int} {a b c d : Int}
    (e : overlapIndices 0 len sk (ek - sk) = .ok ((a, b), (c, d))) (j : Nat) :
    (a.toNat ≤ j ∧ j < b.toNat) ↔ (j < len ∧ sk ≤ j ∧ (j : Int) < ek) := by
  unfold overlapIndices at e
  simp only at e
  split at e
  · simp at e
  · split at e
    · simp only [Except.ok.injEq, Prod.mk.injEq] at e
      obtain ⟨⟨rfl, rfl⟩, -⟩ := e
      omega
    · split at e
      · simp only [Except.ok.injEq, Prod.mk.injEq] at e
        obtain ⟨⟨rfl, rfl⟩, -⟩ := e
        omega
      · split at e
        · simp only [Except.ok.injEq, Prod.mk.injEq] at e
          obtain ⟨⟨rfl, rfl⟩, -⟩ := e
          omega
        · simp only [Except.ok.injEq, Prod.mk.injEq] at e
          obtain ⟨⟨rfl, rfl⟩, -⟩ := e
          omega

theorem cutHit_spec {recs : List Record} {spr : Nat} {prev next : List Int} {old new new' : List (List Int)}
    {le re : Int} {h : HitRef} (hal : Aligned old new)
    (e : cutHit recs spr prev next old le re new h = .ok new') :
    Aligned old new' ∧ ∀ m j,
      (Covers recs spr prev next le re h m j → get2 new' m j = get2 old m j) ∧
      (¬ Covers recs spr prev next le re h m j → get2 new' m j = get2 new m j) := by
  unfold cutHit at e
  split at e
  · simp at e
  · rename_i r hr
    simp only at e
    split at e
    · simp at e
    · rename_i a b cd hov
      obtain ⟨c, d⟩ := cd
      simp only [Except.ok.injEq] at e
      -- the three copies, one after the other
      obtain ⟨al1, g1⟩ := applyCopy_spec hal h.recordI a.toNat b.toNat
      generalize applyCopy old new h.recordI a.toNat b.toNat = n1 at e al1 g1
      -- previous record
      have step2 : ∀ (A : Nat), Aligned old (if (h.left : Int) - le < 0 then copyVia old n1 prev[h.recordI]? A spr else n1) ∧
          (∀ m j, get2 (if (h.left : Int) - le < 0 then copyVia old n1 prev[h.recordI]? A spr else n1) m j =
            if ((h.left : Int) - le < 0 ∧ ∃ p : Int, prev[h.recordI]? = some p ∧ p ≠ -1 ∧ m = p.toNat ∧ A ≤ j ∧ j < spr)
            then get2 old m j else get2 n1 m j) := by
        intro A
        by_cases hneg : (h.left : Int) - le < 0
        · simp only [hneg, ↓reduceIte, true_and]
          exact copyVia_spec al1 _ _ _
        · simp only [hneg, ↓reduceIte, false_and]
          exact ⟨al1, fun _ _ => trivial⟩
      obtain ⟨al2, g2⟩ := step2 (max ((spr : Int) + ((h.left : Int) - le)) 0).toNat
      generalize (if (h.left : Int) - le < 0 then copyVia old n1 prev[h.recordI]? (max ((spr : Int) + ((h.left : Int) - le)) 0).toNat spr else n1) = n2 at e al2 g2
      have step3 : ∀ (B : Nat), Aligned old (if (h.right : Int) + re > spr then copyVia old n2 next[h.recordI]? 0 B else n2) ∧
          (∀ m j, get2 (if (h.right : Int) + re > spr then copyVia old n2 next[h.recordI]? 0 B else n2) m j =
            if ((h.right : Int) + re > spr ∧ ∃ p : Int, next[h.recordI]? = some p ∧ p ≠ -1 ∧ m = p.toNat ∧ 0 ≤ j ∧ j < B)
            then get2 old m j else get2 n2 m j) := by
        intro B
        by_cases hpos : (h.right : Int) + re > spr
        · simp only [hpos, ↓reduceIte, true_and]
          exact copyVia_spec al2 _ _ _
        · simp only [hpos, ↓reduceIte, false_and]
          exact ⟨al2, fun _ _ => trivial⟩
      obtain ⟨al3, g3⟩ := step3 (min ((h.right : Int) + re - spr) spr).toNat
      rw [e] at al3 g3
      refine ⟨al3, ?_⟩
      intro m j
      have own : (m = h.recordI ∧ a.toNat ≤ j ∧ j < b.toNat) ↔
          (m = h.recordI ∧ ∃ r, recs[h.recordI]? = some r ∧ j < r.length ∧ (h.left : Int) - le ≤ j ∧ (j : Int) < h.right + re) := by
        have := overlapIndices_own hov j
        constructor
        · rintro ⟨h1, h2⟩; exact ⟨h1, r, hr, this.1 h2⟩
        · rintro ⟨h1, r', hr', h2⟩
          rw [hr] at hr'; simp only [Option.some.injEq] at hr'; subst hr'
          exact ⟨h1, this.2 h2⟩
      have eprev : ((h.left : Int) - le < 0 ∧ ∃ p : Int, prev[h.recordI]? = some p ∧ p ≠ -1 ∧ m = p.toNat ∧
            (max ((spr : Int) + ((h.left : Int) - le)) 0).toNat ≤ j ∧ j < spr) ↔
          (∃ p : Int, prev[h.recordI]? = some p ∧ p ≠ -1 ∧ m = p.toNat ∧ (h.left : Int) - le ≤ (j : Int) - spr ∧ j < spr) := by
        constructor
        · rintro ⟨h0, p, h1, h2, h3, h4, h5⟩; exact ⟨p, h1, h2, h3, by omega, h5⟩
        · rintro ⟨p, h1, h2, h3, h4, h5⟩; exact ⟨by omega, p, h1, h2, h3, by omega, h5⟩
      have enext : ((h.right : Int) + re > spr ∧ ∃ p : Int, next[h.recordI]? = some p ∧ p ≠ -1 ∧ m = p.toNat ∧
            0 ≤ j ∧ j < (min ((h.right : Int) + re - spr) spr).toNat) ↔
          (∃ nx : Int, next[h.recordI]? = some nx ∧ nx ≠ -1 ∧ m = nx.toNat ∧ (j : Int) + spr < h.right + re ∧ j < spr) := by
        constructor
        · rintro ⟨h0, p, h1, h2, h3, -, h5⟩; exact ⟨p, h1, h2, h3, by omega, by omega⟩
        · rintro ⟨p, h1, h2, h3, h4, h5⟩; exact ⟨by omega, p, h1, h2, h3, by omega, by omega⟩
      rw [g3, g2, g1]
      simp only [own, eprev, enext]
      unfold Covers
      constructor
      · rintro (hc | hc | hc)
        · split
          · rfl
          · split
            · rfl
            · first | rfl | rw [if_pos hc]
        · split
          · rfl
          · first | rfl | rw [if_pos hc]
        · first | rfl | rw [if_pos hc]
      · intro hc
        rw [if_neg (fun x => hc (Or.inr (Or.inr x))), if_neg (fun x => hc (Or.inr (Or.inl x))),
          if_neg (fun x => hc (Or.inl x))]

theorem cutLoop_spec {recs : List Record} {spr : Nat} {prev next : List Int} {old : List (List Int)} {le re : Int} :
    ∀ (hits : List HitRef) (new out : List (List Int)), Aligned old new →
    cutLoop recs spr prev next old le re hits new = .ok out →
    Aligned old out ∧ ∀ m j,
      ((∃ h ∈ hits, Covers recs spr prev next le re h m j) → get2 out m j = get2 old m j) ∧
      ((¬ ∃ h ∈ hits, Covers recs spr prev next le re h m j) → get2 out m j = get2 new m j) := by
  intro hits
  induction hits with
  | nil =>
    intro new out hal e
    simp only [cutLoop, Except.ok.injEq] at e
    subst e
    exact ⟨hal, fun m j => ⟨by simp, fun _ => rfl⟩⟩
  | cons h hs ih =>
    intro new out hal e
    simp only [cutLoop] at e
    split at e
    · simp at e
    · rename_i new' hcut
      obtain ⟨al1, g1⟩ := cutHit_spec hal hcut
      obtain ⟨al2, g2⟩ := ih new' out al1 e
      refine ⟨al2, ?_⟩
      intro m j
      constructor
      · rintro ⟨h', hmem, hc⟩
        by_cases hrest : ∃ h ∈ hs, Covers recs spr prev next le re h m j
        · exact (g2 m j).1 hrest
        · rw [(g2 m j).2 hrest]
          simp only [List.mem_cons] at hmem
          rcases hmem with rfl | hmem
          · exact (g1 m j).1 hc
          · exact absurd ⟨h', hmem, hc⟩ hrest
      · intro hno
        have h1 : ¬ ∃ h ∈ hs, Covers recs spr prev next le re h m j := by
          rintro ⟨h', hmem, hc⟩; exact hno ⟨h', List.mem_cons_of_mem _ hmem, hc⟩
        have h2 : ¬ Covers recs spr prev next le re h m j := fun hc => hno ⟨h, List.mem_cons_self, hc⟩
        rw [(g2 m j).2 h1, (g1 m j).2 h2]

theorem zipData_get (rs : List Record) : ∀ (ds : List (List Int)) (m : Nat), rs.length = ds.length →
    (zipData rs ds)[m]? = match rs[m]?, ds[m]? with
      | some r, some d => some (withData r d)
      | _, _ => none := by
  induction rs with
  | nil => intro ds m h; cases ds <;> simp [zipData]
  | cons r rs ih =>
    intro ds m h
    cases ds with
    | nil => simp at h
    | cons d ds =>
      cases m with
      | zero => simp [zipData]
      | succ m =>
        simp only [zipData, List.getElem?_cons_succ]
        exact ih ds m (by simpa using h)

theorem zipData_length (rs : List Record) : ∀ (ds : List (List Int)), rs.length = ds.length →
    (zipData rs ds).length = rs.length := by
  induction rs with
  | nil => intro ds h; cases ds <;> simp [zipData]
  | cons r rs ih =>
    intro ds h
    cases ds with
    | nil => simp at h
    | cons d ds => simp [zipData, ih ds (by simpa using h)]

/-- What `cut_outside_hits` returns, for all inputs on which it returns: a copy of the records with
`reduction_level = HITS_ONLY` in which sample `j` of record `m` is the original sample if some hit covers it
(in its own record, or through the `previous_record` / `next_record` links) and 0 otherwise. -/
theorem cutOutsideHits_spec {records : List Record} {hits : List HitRef} {le re : Int} {out : List Record}
    (hne : records ≠ []) (e : cutOutsideHits records hits le re = .ok out) :
    ∃ prev next, recordLinks records = .ok (prev, next) ∧ out.length = records.length ∧
      ∀ m r, records[m]? = some r →
        ∃ d, out[m]? = some (withData r d) ∧ d.length = r.data.length ∧
          ∀ j, j < r.data.length →
            ((∃ h ∈ hits, Covers records (samplesPerRecord records) prev next le re h m j) → d[j]? = r.data[j]?) ∧
            ((¬ ∃ h ∈ hits, Covers records (samplesPerRecord records) prev next le re h m j) → d[j]? = some 0) := by
  unfold cutOutsideHits at e
  have : records.isEmpty = false := by cases records <;> simp_all
  simp only [this, Bool.false_eq_true, ↓reduceIte] at e
  split at e
  · simp at e
  · rename_i prev next hlinks
    split at e
    · simp at e
    · rename_i new hloop
      simp only [Except.ok.injEq] at e
      subst e
      have hal0 : Aligned (records.map (·.data)) (records.map fun r => List.replicate r.data.length (0 : Int)) := by
        simp [Aligned]
      obtain ⟨al, g⟩ := cutLoop_spec hits _ new hal0 hloop
      have hlen : records.length = new.length := by simpa using al.len
      refine ⟨prev, next, hlinks, zipData_length records new hlen, ?_⟩
      intro m r hr
      have hrow := al.row m
      simp only [List.getElem?_map, hr, Option.map_some] at hrow
      obtain ⟨d, hd, hdl⟩ : ∃ d, new[m]? = some d ∧ r.data.length = d.length := by
        cases hn : new[m]? with
        | none => rw [hn] at hrow; simp at hrow
        | some v => rw [hn] at hrow; exact ⟨v, rfl, by simpa using hrow⟩
      refine ⟨d, ?_, hdl.symm, ?_⟩
      · rw [zipData_get records new m hlen, hr, hd]
      · intro j hj
        have hold : get2 (records.map (·.data)) m j = r.data[j]? := by simp [get2, hr]
        have hblank : get2 (records.map fun r => List.replicate r.data.length (0 : Int)) m j = some 0 := by
          simp [get2, hr, hj]
        have hnew : get2 new m j = d[j]? := by simp [get2, hd]
        constructor
        · intro hc; rw [← hnew, (g m j).1 hc, hold]
        · intro hc; rw [← hnew, (g m j).2 hc, hblank]

end Strax.Pulse
