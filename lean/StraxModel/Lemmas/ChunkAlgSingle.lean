import StraxModel.Lemmas.ChunkAlgRuns
/-
  Round 5: `Chunk.split` is total on EVERY single-run chunk (default super-run entry), whatever its sub-run
  annotation: none, `{}`, tiled, with holes, with zero-length entries, with repeated spans, promised continuity or not.
  Core Lean only.
-/
namespace Strax

/-- spans in list order, pairwise non-overlapping, none of negative length -/
def RunsOK (rs : Runs) : Prop := rs.Pairwise (fun a b => a.stop ≤ b.start) ∧ ∀ r ∈ rs, r.start ≤ r.stop

/-- every piece made by `_split_runs_in_chunk` lies inside an original span and has non-negative length -/
theorem splitRunsList_within (t : Int) (rs : Runs) (hnn : ∀ r ∈ rs, r.start ≤ r.stop) :
    (∀ x ∈ (splitRunsList t rs).1, x.start ≤ x.stop ∧ ∃ y ∈ rs, y.start ≤ x.start ∧ x.stop ≤ y.stop) ∧
    (∀ x ∈ (splitRunsList t rs).2, x.start ≤ x.stop ∧ ∃ y ∈ rs, y.start ≤ x.start ∧ x.stop ≤ y.stop) := by
  induction rs with
  | nil => simp [splitRunsList]
  | cons r rest ih =>
    have ih' := ih (fun x hx => hnn x (by simp [hx]))
    have hr := hnn r (by simp)
    rw [splitRunsList_cons]
    constructor
    · intro x hx
      split at hx
      · obtain ⟨h1, y, hy, h2⟩ := ih'.1 x hx
        exact ⟨h1, y, by simp [hy], h2⟩
      · split at hx
        · simp only [List.mem_cons] at hx
          rcases hx with rfl | hx
          · exact ⟨by simp; omega, r, by simp, by simp, by simp; omega⟩
          · obtain ⟨h1, y, hy, h2⟩ := ih'.1 x hx
            exact ⟨h1, y, by simp [hy], h2⟩
        · simp only [List.mem_cons] at hx
          rcases hx with rfl | hx
          · exact ⟨hr, x, by simp, by omega, by omega⟩
          · obtain ⟨h1, y, hy, h2⟩ := ih'.1 x hx
            exact ⟨h1, y, by simp [hy], h2⟩
    · intro x hx
      split at hx
      · simp only [List.mem_cons] at hx
        rcases hx with rfl | hx
        · exact ⟨hr, x, by simp, by omega, by omega⟩
        · obtain ⟨h1, y, hy, h2⟩ := ih'.2 x hx
          exact ⟨h1, y, by simp [hy], h2⟩
      · split at hx
        · simp only [List.mem_cons] at hx
          rcases hx with rfl | hx
          · exact ⟨by simp; omega, r, by simp, by simp; omega, by simp⟩
          · obtain ⟨h1, y, hy, h2⟩ := ih'.2 x hx
            exact ⟨h1, y, by simp [hy], h2⟩
        · obtain ⟨h1, y, hy, h2⟩ := ih'.2 x hx
          exact ⟨h1, y, by simp [hy], h2⟩

/-- both sides of `_split_runs_in_chunk` are again in order and non-overlapping -/
theorem splitRunsList_ok (t : Int) (rs : Runs) (h : RunsOK rs) :
    RunsOK (splitRunsList t rs).1 ∧ RunsOK (splitRunsList t rs).2 := by
  induction rs with
  | nil => simp [splitRunsList, RunsOK]
  | cons r rest ih =>
    obtain ⟨hp, hnn⟩ := h
    have hp' := List.pairwise_cons.1 hp
    have hnn' : ∀ x ∈ rest, x.start ≤ x.stop := fun x hx => hnn x (by simp [hx])
    obtain ⟨⟨p1, n1⟩, ⟨p2, n2⟩⟩ := ih ⟨hp'.2, hnn'⟩
    have hw := splitRunsList_within t rest hnn'
    have hr := hnn r (by simp)
    have far1 : ∀ x ∈ (splitRunsList t rest).1, r.stop ≤ x.start := by
      intro x hx
      obtain ⟨-, y, hy, h2, -⟩ := hw.1 x hx
      have := hp'.1 y hy
      omega
    have far2 : ∀ x ∈ (splitRunsList t rest).2, r.stop ≤ x.start := by
      intro x hx
      obtain ⟨-, y, hy, h2, -⟩ := hw.2 x hx
      have := hp'.1 y hy
      omega
    rw [splitRunsList_cons]
    split
    · exact ⟨⟨p1, n1⟩, List.pairwise_cons.2 ⟨far2, p2⟩, by
        intro x hx; simp only [List.mem_cons] at hx; rcases hx with rfl | hx; exact hr; exact n2 x hx⟩
    · split
      · refine ⟨⟨List.pairwise_cons.2 ⟨fun x hx => ?_, p1⟩, ?_⟩, ⟨List.pairwise_cons.2 ⟨fun x hx => ?_, p2⟩, ?_⟩⟩
        · have := far1 x hx; simp; omega
        · intro x hx; simp only [List.mem_cons] at hx; rcases hx with rfl | hx
          · simp; omega
          · exact n1 x hx
        · have := far2 x hx; simpa using this
        · intro x hx; simp only [List.mem_cons] at hx; rcases hx with rfl | hx
          · simp; omega
          · exact n2 x hx
      · exact ⟨⟨List.pairwise_cons.2 ⟨far1, p1⟩, by
          intro x hx; simp only [List.mem_cons] at hx; rcases hx with rfl | hx; exact hr; exact n1 x hx⟩, p2, n2⟩

/-- what `_pop_out_empty_run_id` leaves of such a list is fixed by the setter's sort and passes its overlap check -/
theorem popEmpty_ok {l x : Runs} (h : RunsOK l) (hx : popEmpty l = some x) :
    sortRuns x = x ∧ runsOverlap x = false ∧ RunsOK x := by
  have hf : x = l.filter (fun r => r.start != r.stop) := by
    unfold popEmpty at hx
    split at hx
    · simp at hx
    · rename_i heq; simp at hx; rw [← hx]
  have hsub : x.Sublist l := by rw [hf]; exact List.filter_sublist
  have hp : x.Pairwise (fun a b => a.stop ≤ b.start) := h.1.sublist hsub
  have hpos : ∀ r ∈ x, r.start < r.stop := by
    intro r hr
    rw [hf, List.mem_filter] at hr
    have := h.2 r hr.1
    have hne : r.start ≠ r.stop := by simpa using hr.2
    omega
  refine ⟨sortRuns_of_sortedLex hp hpos, ?_, hp, fun r hr => Int.le_of_lt (hpos r hr)⟩
  clear hf hsub hx
  induction x with
  | nil => rfl
  | cons a rest ih =>
    cases rest with
    | nil => rfl
    | cons b rest' =>
      have hp' := List.pairwise_cons.1 hp
      simp only [runsOverlap, Bool.or_eq_false_iff, decide_eq_false_iff_not]
      exact ⟨by have := hp'.1 b (by simp); omega, ih hp'.2 (fun r hr => hpos r (by simp [hr]))⟩

/-- a sub-run annotation the constructor accepts unchanged, without spans of negative length -/
def SubrunsOK (s : Option Runs) : Prop :=
  ∀ x, s = some x → sortRuns x = x ∧ runsOverlap x = false ∧ ∀ r ∈ x, r.start ≤ r.stop

def subOKB : Option Runs → Bool
  | none => true
  | some x => (sortRuns x == x) && !runsOverlap x && x.all (fun r => decide (r.start ≤ r.stop))

theorem subOKB_iff (s : Option Runs) : subOKB s = true ↔ SubrunsOK s := by
  cases s with
  | none => simp [subOKB, SubrunsOK]
  | some x => simp [subOKB, SubrunsOK, and_assoc]

theorem SubrunsOK.runsOK {x : Runs} (h : SubrunsOK (some x)) : RunsOK x :=
  ⟨pairwise_stop_le_of_noOverlap (h x rfl).2.1 (h x rfl).2.2, (h x rfl).2.2⟩

theorem subOK_popEmpty {l : Runs} (h : RunsOK l) : SubrunsOK (popEmpty l) := by
  intro x hx
  obtain ⟨h1, h2, h3⟩ := popEmpty_ok h hx
  exact ⟨h1, h2, h3.2⟩

/-- both halves of a split carry a sub-run annotation the constructor accepts -/
theorem splitSub_ok (c : Chunk) (t : Int) (h : SubrunsOK c.subruns) : SubrunsOK (splitSub c t).1 ∧ SubrunsOK (splitSub c t).2 := by
  unfold splitSub
  split
  · cases hs : c.subruns with
    | none => simp [splitRuns, SubrunsOK]
    | some rs =>
      rw [hs] at h
      have hok := splitRunsList_ok t rs h.runsOK
      simp only [splitRuns]
      exact ⟨subOK_popEmpty hok.1, subOK_popEmpty hok.2⟩
  · exact ⟨h, h⟩

/-- success of the constructor with the default super-run entry and sub-runs in setter order -/
theorem mkChunk_single {dt k rid : String} {s e : Int} {rows : List Row} {tg : Nat} {sub sup : Option Runs}
    (h0 : 0 ≤ s) (h1 : s ≤ e) (hin : ∀ x ∈ rows, s ≤ x.time ∧ x.endt ≤ e)
    (hsub : SubrunsOK sub) (hsup : sup = none ∨ sup = some [⟨rid, s, e⟩]) :
    mkChunk dt k (some rid) s e rows sub sup tg = .ok ⟨dt, k, some rid, s, e, rows, sub, [⟨rid, s, e⟩], tg⟩ := by
  have key : ∀ subruns : Option Runs, mkStage2 dt k (some rid) s e rows tg sup subruns
      = .ok ⟨dt, k, some rid, s, e, rows, subruns, [⟨rid, s, e⟩], tg⟩ := by
    intro subruns
    have h3 : mkStage3 dt k (some rid) s e rows tg sup subruns
        = .ok ⟨dt, k, some rid, s, e, rows, subruns, [⟨rid, s, e⟩], tg⟩ := by
      rcases hsup with rfl | rfl <;> simp [mkStage3, mkStage4, sortRuns_singleton, runsOverlap]
    simp only [mkStage2]
    have hs0 : ¬ s < 0 := by omega
    have hse : ¬ s > e := by omega
    simp only [hs0, hse, if_false]
    cases rows with
    | nil => exact h3
    | cons r0 tl =>
      have hr0 := hin r0 (by simp)
      have : ¬ r0.time < s := by omega
      simp only [this, if_false]
      have hle := lastEndMax_le (B := e) (fun x hx => (hin x hx).2)
      split
      · rename_i m hm
        have := hle m hm
        have : ¬ m > e := by omega
        simp only [this, if_false]
        exact h3
      · exact h3
  rw [mkChunk_eq]
  cases sub with
  | none => exact key none
  | some x =>
    obtain ⟨e1, e2, -⟩ := hsub x rfl
    simp only [e1, e2, Bool.false_eq_true, if_false]
    exact key (some x)

/-- the shape covered by the full single-run theorems of C07: rows well-formed (`Chunk.wf`), a run id, the default
super-run entry `[(run_id, start, end)]`, and ANY sub-run annotation the constructor leaves unchanged
(`None`, `{}`, tiled or with holes, zero-length entries, repeated ids, continuity promised or not) whose spans do not
have negative length.  Excluded: multi-entry `superrun` / `run_id = None` (three open findings). -/
def Chunk.singleRun (c : Chunk) : Bool :=
  c.wf && subOKB c.subruns &&
    match c.runId with
    | some rid => c.superrun == [⟨rid, c.start, c.stop⟩]
    | none => false

theorem Chunk.singleRun_iff (c : Chunk) : c.singleRun = true ↔
    c.wf = true ∧ SubrunsOK c.subruns ∧ ∃ rid, c.runId = some rid ∧ c.superrun = [⟨rid, c.start, c.stop⟩] := by
  unfold Chunk.singleRun
  cases h : c.runId with
  | none => simp
  | some rid => simp [subOKB_iff, and_assoc]

/-- explicit result of `split` on a single-run chunk -/
theorem split_single_ok {c : Chunk} {rid : String} {t : Int} {early : Bool} {d1 d2 : List Row} {t' : Int}
    (hrid : c.runId = some rid) (hsup : c.superrun = [⟨rid, c.start, c.stop⟩]) (hsub : SubrunsOK c.subruns)
    (h0 : 0 ≤ c.start) (hst : c.start ≤ t') (hts : t' ≤ c.stop)
    (hin1 : ∀ x ∈ d1, c.start ≤ x.time ∧ x.endt ≤ t') (hin2 : ∀ x ∈ d2, t' ≤ x.time ∧ x.endt ≤ c.stop)
    (hv : splitData c t early = .ok (d1, d2, t')) :
    c.split t early = .ok
      (⟨c.dataType, c.kind, some rid, c.start, t', d1, (splitSub c t').1, [⟨rid, c.start, t'⟩], c.target⟩,
       ⟨c.dataType, c.kind, some rid, t', c.stop, d2, (splitSub c t').2, [⟨rid, t', c.stop⟩], c.target⟩) := by
  have hsr := splitRuns_single rid c.start c.stop t' hst hts
  have hm1 : max c.start t' = t' := by omega
  have hm2 : max t' c.stop = c.stop := by omega
  have hr1 : splitRun1 c t' = some rid := by
    unfold splitRun1; rw [hsup, runSingle_of hsr.1]; rfl
  have hr2 : splitRun2 c t' = some rid := by
    unfold splitRun2; rw [hsup, runSingle_of hsr.2]; rfl
  have hso := splitSub_ok c t' hsub
  rw [Chunk.split_of_not_bad (Chunk.not_bad_of_runId hrid), Chunk.splitCore_eq, hv]
  simp only [bind, Except.bind, hr1, hr2, hm1, hm2, hsup]
  rw [mkChunk_single h0 hst hin1 hso.1 hsr.1]
  simp only
  rw [mkChunk_single (by omega) hts hin2 hso.2 hsr.2]
  rfl

/-- `Chunk.split` on a single-run chunk: whenever the data can be split the halves are built, and they are
single-run chunks again, adjacent, with the rows divided -/
theorem split_single {c : Chunk} {t : Int} {early : Bool} {d1 d2 : List Row} {t' : Int}
    (hc : c.singleRun = true) (hv : splitData c t early = .ok (d1, d2, t')) :
    ∃ c1 c2, c.split t early = .ok (c1, c2) ∧ c1.singleRun = true ∧ c2.singleRun = true ∧
      c1.rows = d1 ∧ c2.rows = d2 ∧ c1.start = c.start ∧ c1.stop = t' ∧ c2.start = t' ∧ c2.stop = c.stop ∧
      c1.runId = c.runId ∧ c2.runId = c.runId := by
  obtain ⟨hwf, hsub, rid, hrid, hsup⟩ := (Chunk.singleRun_iff c).1 hc
  obtain ⟨h0, hse, hs, hpos, hin⟩ := (Chunk.wf_iff c).1 hwf
  obtain ⟨hcat, hst, hts, hl, hr⟩ := splitData_wf hwf hv
  have hin1 : ∀ x ∈ d1, c.start ≤ x.time ∧ x.endt ≤ t' :=
    fun x hx => ⟨(hin x (by rw [← hcat]; simp [hx])).1, hl x hx⟩
  have hin2 : ∀ x ∈ d2, t' ≤ x.time ∧ x.endt ≤ c.stop :=
    fun x hx => ⟨hr x hx, (hin x (by rw [← hcat]; simp [hx])).2⟩
  have hso := splitSub_ok c t' hsub
  rw [← hcat] at hs hpos
  refine ⟨_, _, split_single_ok hrid hsup hsub h0 hst hts hin1 hin2 hv, ?_, ?_, rfl, rfl, rfl, rfl, rfl, rfl,
    hrid.symm, hrid.symm⟩
  · exact (Chunk.singleRun_iff _).2 ⟨(Chunk.wf_iff _).2 ⟨h0, hst, hs.append_left, (PositiveRows.of_append hpos).1, hin1⟩,
      hso.1, rid, rfl, rfl⟩
  · exact (Chunk.singleRun_iff _).2 ⟨(Chunk.wf_iff _).2 ⟨(by show (0:Int) ≤ t'; omega), hts, hs.append_right, (PositiveRows.of_append hpos).2, hin2⟩,
      hso.2, rid, rfl, rfl⟩

/-- strict split of a single-run chunk at a time no row straddles succeeds -/
theorem split_single_total {c : Chunk} {t : Int} (hc : c.singleRun = true)
    (hno : ¬ ∃ r ∈ c.rows, r.straddles t) :
    ∃ c1 c2, c.split t false = .ok (c1, c2) ∧ c1.singleRun = true ∧ c2.singleRun = true := by
  obtain ⟨hwf, -, -⟩ := (Chunk.singleRun_iff c).1 hc
  obtain ⟨h0, hse, hs, hpos, hin⟩ := (Chunk.wf_iff c).1 hwf
  have hnn : ∀ r ∈ c.rows, 0 ≤ r.time := by intro r hr; have := hin r hr; omega
  cases hv : splitData c t false with
  | error e =>
    obtain ⟨-, -, hsa⟩ := splitData_error hv
    have := splitArray_strict_error hsa
    subst this
    exact absurd (straddler_of_splitArray_refuses hnn hsa) hno
  | ok v =>
    obtain ⟨d1, d2, t'⟩ := v
    obtain ⟨c1, c2, h, h1, h2, -⟩ := split_single hc hv
    exact ⟨c1, c2, h, h1, h2⟩

/-- early split of a single-run chunk never fails -/
theorem split_single_early_total {c : Chunk} (t : Int) (hc : c.singleRun = true) :
    ∃ c1 c2, c.split t true = .ok (c1, c2) ∧ c1.singleRun = true ∧ c2.singleRun = true := by
  cases hv : splitData c t true with
  | error e =>
    obtain ⟨-, -, hsa⟩ := splitData_error hv
    obtain ⟨v, hv'⟩ := splitArray_early_ok c.rows t
    rw [hv'] at hsa
    cases hsa
  | ok v =>
    obtain ⟨d1, d2, t'⟩ := v
    obtain ⟨c1, c2, h, h1, h2, -⟩ := split_single hc hv
    exact ⟨c1, c2, h, h1, h2⟩

end Strax
