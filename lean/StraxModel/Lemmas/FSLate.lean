import StraxModel.Lemmas.FSInv
/-
  Preservation of the invariant by the steps after `FileSaver.__init__` (chunk phase and close), on the main path
  and inside the exception handler.
-/
namespace Strax.FS
open Strax

/-! ## thresholds when the head item is popped -/

section pop
variable {cs : List Chunk} {v : Variant} {c : Cfg} {x : Item} {rest : List Item}

theorem rank_head_le (h : Inv cs v c) (hp : c.prog = x :: rest) : rank x ≤ 25 :=
  rank_le_of_ok (h.shape.ok x (by rw [hp]; simp))

theorem quiet_pop (h : Inv cs v c) (hp : c.prog = x :: rest) (hne : x ≠ .waitQuiet) :
    18 ≤ hr rest → hr rest ≤ 25 → ∀ w ∈ c.workers, w.st ≠ .running := by
  intro h18 h25
  have hs : Shape (x :: rest) := hp ▸ h.shape
  by_cases hx : 18 ≤ rank x
  · exact h.quiet (by rw [hp]; simpa using hx) (by rw [hp]; simpa using rank_head_le h hp)
  · have h17 : rank Item.waitQuiet = 17 := rfl
    have := hs.no_cross mem_milestones_waitQuiet (by omega) hne
    omega

theorem closed_pop (h : Inv cs v c) (hp : c.prog = x :: rest) (hne : x ≠ .markClosed) :
    19 ≤ hr rest → hr rest ≤ 25 → c.md.ended = true ∧ c.md.exc = c.handling := by
  intro h19 h25
  have hs : Shape (x :: rest) := hp ▸ h.shape
  by_cases hx : 19 ≤ rank x
  · exact h.closedMd (by rw [hp]; simpa using hx) (by rw [hp]; simpa using rank_head_le h hp)
  · have h18 : rank Item.markClosed = 18 := rfl
    have := hs.no_cross mem_milestones_markClosed (by omega) hne
    omega

theorem synced_pop (h : Inv cs v c) (hp : c.prog = x :: rest) (hne : x ≠ .flushWrite .last) :
    23 ≤ hr rest → hr rest ≤ 24 → ∃ t, c.fs.temp = some t ∧ t.get .md = some (.json c.md) := by
  intro h23 h24
  have hs : Shape (x :: rest) := hp ▸ h.shape
  by_cases hx : 23 ≤ rank x
  · have hlt : rank x ≤ hr rest := hs.hr_rest_ge
    exact h.synced (by rw [hp]; simpa using hx) (by rw [hp]; simp; omega)
  · have h22 : rank (Item.flushWrite .last) = 22 := rfl
    have := hs.no_cross mem_milestones_fwLast (by omega) hne
    omega

end pop


/-! ## the main-path facts when the head item is popped -/


theorem notCollected_cons {x : Item} {rest : List Item} (h : x ≠ .collect) : notCollected (x :: rest) = notCollected rest := by
  simp only [notCollected, List.contains_cons]
  have : (Item.collect == x) = false := by
    cases x <;> simp_all
  simp [this]

theorem pending_skip {v : Variant} {cs : List Chunk} {x : Item} {rest : List Item} (hxa : ∀ ci, x ≠ .append ci)
    (hxr : ∀ i, x ≠ .readInfo i) (hxc : x ≠ .collect) : pending v cs (x :: rest) = pending v cs rest := by
  cases v <;> simp only [pending, pendApp_skip hxa, notCollected_cons hxc, readIdx_skip hxr]

theorem wst_ok_of {s : WSt} (h1 : s ≠ .running) (h2 : s ≠ .failed) : s = .ok := by
  cases s <;> simp_all

theorem anyRunning_false {ws : List Worker} (h : anyRunning ws = false) : ∀ w ∈ ws, w.st ≠ .running := by
  intro w hw hs
  have : anyRunning ws = true := by
    simp only [anyRunning, List.any_eq_true]
    exact ⟨w, hw, by simp [hs]⟩
  rw [h] at this; cases this

theorem anyFailed_false {ws : List Worker} (h : anyFailed ws = false) : ∀ w ∈ ws, w.st ≠ .failed := by
  intro w hw hs
  have : anyFailed ws = true := by
    simp only [anyFailed, List.any_eq_true]
    exact ⟨w, hw, by simp [hs]⟩
  rw [h] at this; cases this

/-- `Awaited` when a non-submit item is popped (a `join` / `waitAll` only passes when there is nothing to report) -/
theorem awaited_pop {v : Variant} {c : Cfg} {x : Item} {rest : List Item} (m : Awaited v c) (hp : c.prog = x :: rest)
    (hj : x = .join → lastSt c.workers ≠ some .running ∧ lastSt c.workers ≠ some .failed)
    (hw : x = .waitAll → anyRunning c.workers = false ∧ anyFailed c.workers = false) :
    Awaited v { c with prog := rest } := by
  cases v with
  | serial =>
    simp only [Awaited] at m ⊢
    refine ⟨m.1, ?_⟩
    intro w hl hne
    obtain ⟨r, hr⟩ := m.2 w hl hne
    rw [hp] at hr; injection hr with hx _
    obtain ⟨h1, h2⟩ := hj hx
    simp only [lastSt, hl, Option.map_some, ne_eq, Option.some.injEq] at h1 h2
    exact absurd (wst_ok_of h1 h2) hne
  | executor | forked =>
    simp only [Awaited] at m ⊢
    rcases m with ⟨hin, hlast⟩ | ⟨hsub, hok⟩
    · by_cases hx : x = .waitAll
      · right
        obtain ⟨h1, h2⟩ := hw hx
        refine ⟨hlast [] rest (by rw [hp, hx]; simp), ?_⟩
        intro w hwm
        exact wst_ok_of (anyRunning_false h1 w hwm) (anyFailed_false h2 w hwm)
      · left
        refine ⟨?_, ?_⟩
        · rw [hp] at hin
          rcases List.mem_cons.mp hin with h | h
          · exact absurd h.symm hx
          · exact h
        · intro pre post he
          exact hlast (x :: pre) post (by rw [hp, he]; simp)
    · right
      refine ⟨?_, hok⟩
      rw [hp] at hsub
      cases x <;> simp_all [submitIdx]



theorem awaited_congr {v : Variant} {c1 c2 : Cfg} (hw : c2.workers = c1.workers) (hp : c2.prog = c1.prog)
    (h : Awaited v c1) : Awaited v c2 := by
  cases v <;> simp only [Awaited, hw, hp] at h ⊢ <;> exact h

theorem pendApp_tail_nil {x : Item} {rest : List Item} (h : pendApp (x :: rest) = []) : pendApp rest = [] := by
  cases x <;> simp_all [pendApp]

theorem readIdx_tail_nil {x : Item} {rest : List Item} (h : readIdx (x :: rest) = []) : readIdx rest = [] := by
  cases x <;> simp_all [readIdx]

theorem readIdx_mem_cons {x : Item} {rest : List Item} {i : Nat} (h : i ∈ readIdx rest) : i ∈ readIdx (x :: rest) := by
  cases x <;> simp_all [readIdx]

/-- the main-path facts survive the popping of an item that is neither a submit nor the collect; the metadata in
memory may change as long as the chunk list stays consistent with what is still pending -/
theorem main_pop_md {cs : List Chunk} {v : Variant} {c : Cfg} {x : Item} {rest : List Item} (m : Main cs v c)
    (hp : c.prog = x :: rest) (hle : rank x ≤ hr rest)
    (hxs : ∀ i ops, x ≠ .submit i ops) (hxc : x ≠ .collect)
    (md' : Meta) (hmd : md'.chunks ++ pending v cs rest = infos cs 0)
    (hopen : hr rest ≤ 18 → md'.ended = false ∧ md'.exc = false)
    (hj : x = .join → lastSt c.workers ≠ some .running ∧ lastSt c.workers ≠ some .failed)
    (hw : x = .waitAll → anyRunning c.workers = false ∧ anyFailed c.workers = false) :
    Main cs v { c with prog := rest, md := md' } := by
  have hsub : submitIdx c.prog = submitIdx rest := by rw [hp]; exact submitIdx_skip hxs
  have hnc : notCollected c.prog = notCollected rest := by rw [hp]; exact notCollected_cons hxc
  constructor
  · exact hmd
  · intro j hj' hn
    have := m.cover j hj' hn
    rwa [hsub] at this
  · have := m.nodup; rwa [hsub] at this
  · intro i ops hm
    exact m.substd i ops (by rw [hp]; simp [hm])
  · intro w hwm hf
    obtain ⟨hj', n, h1, h2, h3, h4⟩ := m.wstd w hwm hf
    exact ⟨hj', n, h1, h2, h3, by simpa [← hnc] using h4⟩
  · exact awaited_congr (c1 := { c with prog := rest }) rfl rfl (awaited_pop m.awaited hp hj hw)
  · intro i hi
    exact m.reads i (by rw [hp]; exact readIdx_mem_cons hi)
  · intro hn
    exact m.names (by rw [hnc]; exact hn)
  · exact hopen
  · intro hv; exact (hp ▸ m.sj hv).tail
  · intro hv; have := m.noApp hv; rw [hp] at this; exact pendApp_tail_nil this
  · intro hv; have := m.noRead hv; rw [hp] at this; exact readIdx_tail_nil this
  · exact m.nocmeta
  · exact (hp ▸ m.unl).tail
  · intro pre post he
    have he' : rest = pre ++ Item.collect :: post := he
    exact m.collectOnce (x :: pre) post (by rw [hp, he']; simp)
  · intro hl
    have hl' : readIdx c.prog ≠ [] ∨ ∃ i, Item.op (.unlink .temp (.cmeta i)) ∈ c.prog := by
      rcases hl with hl | ⟨i, hi⟩
      · left
        intro he; rw [hp] at he; exact hl (readIdx_tail_nil he)
      · right; exact ⟨i, by rw [hp]; simp [hi]⟩
    obtain ⟨h20, hn⟩ := m.lateItems hl'
    refine ⟨?_, by rw [← hnc]; exact hn⟩
    rw [hp] at h20; simp only [hr_cons] at h20; simp only; omega

/-- the same when the metadata in memory does not change -/
theorem main_pop {cs : List Chunk} {v : Variant} {c : Cfg} {x : Item} {rest : List Item} (m : Main cs v c)
    (hp : c.prog = x :: rest) (hle : rank x ≤ hr rest)
    (hxa : ∀ ci, x ≠ .append ci) (hxs : ∀ i ops, x ≠ .submit i ops) (hxr : ∀ i, x ≠ .readInfo i) (hxc : x ≠ .collect)
    (hj : x = .join → lastSt c.workers ≠ some .running ∧ lastSt c.workers ≠ some .failed)
    (hw : x = .waitAll → anyRunning c.workers = false ∧ anyFailed c.workers = false) :
    Main cs v { c with prog := rest } := by
  have := main_pop_md m hp hle hxs hxc c.md (by have := m.chunksMd; rwa [hp, pending_skip hxa hxr hxc] at this)
    (fun h18 => m.mdOpen (by rw [hp]; simp only [hr_cons]; omega)) hj hw
  simpa using this


/-! ## items that only move the program on -/


/-- a late item that changes nothing but the program -/
theorem inv_late_pop {cs : List Chunk} {v : Variant} {c : Cfg} {x : Item} {rest : List Item} (h : Inv cs v c)
    (hp : c.prog = x :: rest) (hx16 : 16 ≤ rank x) (hnq : x ≠ .waitQuiet) (hnm : x ≠ .markClosed)
    (hnf : x ≠ .flushWrite .last)
    (hmain : c.handling = false → hr rest ≤ 25 → Main cs v { c with prog := rest }) :
    Inv cs v { c with prog := rest } := by
  have hs : Shape (x :: rest) := hp ▸ h.shape
  have hge : rank x ≤ hr rest := hs.hr_rest_ge
  refine inv_late hs.tail (by simp only; omega) h.wtemp (quiet_pop (c := c) h hp hnq) (closed_pop (c := c) h hp hnm)
    (synced_pop (c := c) h hp hnf) h.safe h.handTerm ?_
  intro hh _ h25
  exact hmain hh h25

theorem main_of_inv {cs : List Chunk} {v : Variant} {c : Cfg} {x : Item} {rest : List Item} (h : Inv cs v c)
    (hp : c.prog = x :: rest) (hx16 : 16 ≤ rank x) (hh : c.handling = false) : Main cs v c :=
  h.main hh (by rw [hp]; simpa using hx16) (by rw [hp]; simpa using rank_head_le h hp)

/-- `join` / `poll` / `waitAll` / `checkTemp` letting the saver pass -/
theorem inv_pass {cs : List Chunk} {v : Variant} {c : Cfg} {x : Item} {rest : List Item} (h : Inv cs v c)
    (hp : c.prog = x :: rest) (hx : x = .join ∨ x = .poll ∨ x = .waitAll ∨ x = .checkTemp)
    (hj : x = .join → lastSt c.workers ≠ some .running ∧ lastSt c.workers ≠ some .failed)
    (hw : x = .waitAll → anyRunning c.workers = false ∧ anyFailed c.workers = false) :
    Inv cs v { c with prog := rest } := by
  have hs : Shape (x :: rest) := hp ▸ h.shape
  have hx16 : 16 ≤ rank x := by rcases hx with rfl | rfl | rfl | rfl <;> simp [rank]
  refine inv_late_pop h hp hx16 ?_ ?_ ?_ ?_
  · rcases hx with rfl | rfl | rfl | rfl <;> simp
  · rcases hx with rfl | rfl | rfl | rfl <;> simp
  · rcases hx with rfl | rfl | rfl | rfl <;> simp
  · intro hh _
    refine main_pop (main_of_inv h hp hx16 hh) hp hs.hr_rest_ge ?_ ?_ ?_ ?_ hj hw
    all_goals (rcases hx with rfl | rfl | rfl | rfl <;> simp)


/-! ## items that change the metadata in memory or the flags -/


/-- `md["chunks"].append(chunk_info)` -/
theorem inv_append {cs : List Chunk} {v : Variant} {c : Cfg} {ci : ChunkInfo} {rest : List Item} (h : Inv cs v c)
    (hp : c.prog = .append ci :: rest) :
    Inv cs v { c with prog := rest, md := { c.md with chunks := c.md.chunks ++ [ci] } } := by
  have hs : Shape (.append ci :: rest) := hp ▸ h.shape
  have hge : 16 ≤ hr rest := by have := hs.hr_rest_ge; simpa [rank] using this
  have hle : hr rest ≤ 17 := by
    have := hs.no_cross mem_milestones_waitQuiet (by simp [rank]) (by simp)
    simpa [rank] using this
  refine inv_late hs.tail (by simp only; omega) h.wtemp ?_ ?_ ?_ h.safe h.handTerm ?_
  · intro h18 _; simp only at h18; omega
  · intro h19 _; simp only at h19; omega
  · intro h23 _; simp only at h23; omega
  · intro hh _ _
    have m := main_of_inv h hp (by simp [rank]) hh
    have hv : v ≠ .forked := by
      intro hv
      have := m.noApp hv
      rw [hp] at this; simp [pendApp] at this
    refine main_pop_md m hp hs.hr_rest_ge (by simp) (by simp) _ ?_ ?_ (by simp) (by simp)
    · have := m.chunksMd
      rw [hp] at this
      cases v with
      | forked => exact absurd rfl hv
      | serial => simpa [pending, pendApp, List.append_assoc] using this
      | executor => simpa [pending, pendApp, List.append_assoc] using this
    · intro h18
      exact m.mdOpen (by rw [hp]; simp [rank])



/-- `Saver.close`: closed = True, "writing_ended" and (inside a handler) "exception" recorded -/
theorem inv_markClosed {cs : List Chunk} {v : Variant} {c : Cfg} {rest : List Item} (h : Inv cs v c)
    (hp : c.prog = .markClosed :: rest) :
    Inv cs v { c with prog := rest, term := true, md := { c.md with ended := true, exc := c.handling } } := by
  have hs : Shape (.markClosed :: rest) := hp ▸ h.shape
  have hgt : 18 < hr rest := by have := hs.hr_rest_gt (by simp [rank]) (by simp [rank]); simpa [rank] using this
  have hle : hr rest ≤ 22 := by
    have := hs.no_cross mem_milestones_fwLast (by simp [rank]) (by simp)
    simpa [rank] using this
  refine inv_late hs.tail (by simp only; omega) h.wtemp (quiet_pop (c := c) h hp (by simp)) ?_ ?_ h.safe ?_ ?_
  · intro _ _; exact ⟨rfl, rfl⟩
  · intro h23 _; simp only at h23; omega
  · intro _; rfl
  · intro hh _ _
    have m := main_of_inv h hp (by simp [rank]) hh
    have := main_pop_md m hp hs.hr_rest_ge (by simp) (by simp) { c.md with ended := true, exc := c.handling }
      (by have := m.chunksMd; rwa [hp, pending_skip (by simp) (by simp) (by simp)] at this)
      (by intro h18; omega) (by simp) (by simp)
    exact ⟨this.chunksMd, this.cover, this.nodup, this.substd, this.wstd,
      awaited_congr (c1 := { c with prog := rest }) rfl rfl (awaited_congr (c2 := { c with prog := rest }) rfl rfl this.awaited),
      this.reads, this.names, this.mdOpen, this.sj, this.noApp, this.noRead, this.nocmeta, this.unl, this.collectOnce,
      this.lateItems⟩

/-- `close(wait_for=pending)` has waited for every chunk write -/
theorem inv_waitQuiet {cs : List Chunk} {v : Variant} {c : Cfg} {rest : List Item} (h : Inv cs v c)
    (hp : c.prog = .waitQuiet :: rest) (hq : anyRunning c.workers = false) :
    Inv cs v { c with prog := rest } := by
  have hs : Shape (.waitQuiet :: rest) := hp ▸ h.shape
  have hgt : 17 < hr rest := by have := hs.hr_rest_gt (by simp [rank]) (by simp [rank]); simpa [rank] using this
  have hle : hr rest ≤ 18 := by
    have := hs.no_cross mem_milestones_markClosed (by simp [rank]) (by simp)
    simpa [rank] using this
  refine inv_late hs.tail (by simp only; omega) h.wtemp ?_ ?_ ?_ h.safe h.handTerm ?_
  · intro _ _; exact anyRunning_false hq
  · intro h19 _; simp only at h19; omega
  · intro h23 _; simp only at h23; omega
  · intro hh _ _
    exact main_pop (main_of_inv h hp (by simp [rank]) hh) hp hs.hr_rest_ge (by simp) (by simp) (by simp) (by simp)
      (by simp) (by simp)

/-- the saver is through -/
theorem inv_finish {cs : List Chunk} {v : Variant} {c : Cfg} {rest : List Item} (h : Inv cs v c)
    (hp : c.prog = .finish :: rest) (o : Outcome) : Inv cs v { c with prog := rest, out := o } := by
  have hs : Shape (.finish :: rest) := hp ▸ h.shape
  have hgt : 25 < hr rest := by have := hs.hr_rest_gt (by simp [rank]) (by simp [rank]); simpa [rank] using this
  refine inv_late hs.tail (by simp only; omega) h.wtemp ?_ ?_ ?_ h.safe h.handTerm ?_
  · intro _ h25; simp only at h25; omega
  · intro _ h25; simp only at h25; omega
  · intro _ h24; simp only at h24; omega
  · intro _ _ h25; simp only at h25; omega



theorem all_ok_of_dropLast {ws : List Worker} (h1 : ∀ w ∈ ws.dropLast, w.st = .ok)
    (h2 : ∀ w, ws.getLast? = some w → w.st = .ok) : ∀ w ∈ ws, w.st = .ok := by
  intro w hw
  cases hl : ws.getLast? with
  | none =>
    have : ws = [] := List.getLast?_eq_none_iff.mp hl
    subst this; simp at hw
  | some a =>
    obtain ⟨ys, rfl⟩ := List.getLast?_eq_some_iff.mp hl
    simp only [List.dropLast_concat] at h1
    rcases List.mem_append.mp hw with h | h
    · exact h1 w h
    · simp at h; subst h; exact h2 w hl

theorem stdOps_ne_nil (v : Variant) (i : Nat) (c : Chunk) : stdOps v i c ≠ [] := by
  cases v <;> simp [stdOps, writeOps, forkOps]

/-- a chunk write is started -/
theorem inv_submit {cs : List Chunk} {v : Variant} {c : Cfg} {i : Nat} {ops : List Op} {rest : List Item} (h : Inv cs v c)
    (hp : c.prog = .submit i ops :: rest) :
    Inv cs v { c with prog := rest, workers := c.workers ++ [⟨i, ops, if ops.isEmpty then .ok else .running⟩] } := by
  have hs : Shape (.submit i ops :: rest) := hp ▸ h.shape
  have hge : 16 ≤ hr rest := by have := hs.hr_rest_ge; simpa [rank] using this
  have hle : hr rest ≤ 17 := by
    have := hs.no_cross mem_milestones_waitQuiet (by simp [rank]) (by simp)
    simpa [rank] using this
  have hok : ∀ o ∈ ops, tempOp o = true := by
    have := h.shape.ok (.submit i ops) (by rw [hp]; simp)
    simpa [okItem] using this
  refine inv_late hs.tail (by simp only; omega) ?_ ?_ ?_ ?_ h.safe h.handTerm ?_
  · intro w hw o ho
    rcases List.mem_append.mp hw with hw | hw
    · exact h.wtemp w hw o ho
    · simp at hw; subst hw; exact hok o ho
  · intro h18 _; simp only at h18; omega
  · intro h19 _; simp only at h19; omega
  · intro h23 _; simp only at h23; omega
  · intro hh _ _
    have m := main_of_inv h hp (by simp [rank]) hh
    obtain ⟨hi, hops⟩ := m.substd i ops (by rw [hp]; simp)
    have hne : ops ≠ [] := by rw [hops]; exact stdOps_ne_nil _ _ _
    have hst : (if ops.isEmpty then WSt.ok else WSt.running) = .running := by simp [hne]
    have hnc : notCollected c.prog = notCollected rest := by rw [hp]; exact notCollected_cons (by simp)
    constructor
    · have := m.chunksMd; rwa [hp, pending_skip (by simp) (by simp) (by simp)] at this
    · intro j hj hn
      rcases m.cover j hj hn with hc | ⟨w, hw, hwi⟩
      · rw [hp] at hc; simp only [submitIdx, List.mem_cons] at hc
        rcases hc with rfl | hc
        · right; exact ⟨⟨j, ops, if ops.isEmpty then .ok else .running⟩, by simp, rfl⟩
        · left; exact hc
      · right; exact ⟨w, by simp [hw], hwi⟩
    · have := m.nodup
      rw [hp] at this
      simpa [submitIdx, List.append_assoc] using this
    · intro i' ops' hm
      exact m.substd i' ops' (by rw [hp]; simp [hm])
    · intro w hw hf
      rcases List.mem_append.mp hw with hw | hw
      · obtain ⟨hj', n, h1, h2, h3, h4⟩ := m.wstd w hw hf
        exact ⟨hj', n, h1, h2, h3, by simpa [← hnc] using h4⟩
      · simp at hw; subst hw
        refine ⟨hi, 0, by simpa using hops, by simp, ?_, ?_⟩
        · simp [hne]
        · intro t _
          refine ⟨?_, ?_, ?_⟩ <;> intros <;> omega
    · -- failures stay awaited
      cases v with
      | serial =>
        have ha := m.awaited
        simp only [Awaited] at ha ⊢
        obtain ⟨r', hr'⟩ := m.sj rfl [] rest i ops (by rw [hp]; simp)
        have hall : ∀ w ∈ c.workers, w.st = .ok := by
          refine all_ok_of_dropLast ha.1 ?_
          intro w hl
          by_cases hne' : w.st = .ok
          · exact hne'
          · obtain ⟨r, hr⟩ := ha.2 w hl hne'
            rw [hp] at hr; simp at hr
        refine ⟨by simpa using hall, ?_⟩
        intro w hl _
        exact ⟨r', hr'⟩
      | executor | forked =>
        have ha := m.awaited
        simp only [Awaited] at ha ⊢
        rcases ha with ⟨hin, hlast⟩ | ⟨hsub, _⟩
        · left
          refine ⟨?_, ?_⟩
          · rw [hp] at hin; simpa using hin
          · intro pre post he
            have he' : rest = pre ++ Item.waitAll :: post := he
            exact hlast (.submit i ops :: pre) post (by rw [hp, he']; simp)
        · rw [hp] at hsub; simp [submitIdx] at hsub
    · intro i' hi'
      exact m.reads i' (by rw [hp]; exact readIdx_mem_cons hi')
    · intro hn t ht j hj
      obtain ⟨w, hw, hwi⟩ := m.names (by rw [hnc]; exact hn) t ht j hj
      exact ⟨w, by simp [hw], hwi⟩
    · intro h18; exact m.mdOpen (by rw [hp]; simp [rank])
    · intro hv; exact (hp ▸ m.sj hv).tail
    · intro hv; have := m.noApp hv; rw [hp] at this; exact pendApp_tail_nil this
    · intro hv; have := m.noRead hv; rw [hp] at this; exact readIdx_tail_nil this
    · exact m.nocmeta
    · exact (hp ▸ m.unl).tail
    · intro pre post he
      have he' : rest = pre ++ Item.collect :: post := he
      exact m.collectOnce (.submit i ops :: pre) post (by rw [hp, he']; simp)
    · intro hl
      have hl' : readIdx c.prog ≠ [] ∨ ∃ i, Item.op (.unlink .temp (.cmeta i)) ∈ c.prog := by
        rcases hl with hl | ⟨i', hi'⟩
        · left; intro he; rw [hp] at he; exact hl (readIdx_tail_nil he)
        · right; exact ⟨i', by rw [hp]; simp [hi']⟩
      obtain ⟨h20, _⟩ := m.lateItems hl'
      rw [hp] at h20; simp [rank] at h20


/-! ## items that touch the file system -/


/-- the names a chunk writer's facts are about -/
def dataName : Name → Bool
  | .md => false
  | _ => true

theorem WFacts_congr {v : Variant} {t t' : Dir} {i : Nat} {c : Chunk} {n : Nat} {b : Bool}
    (hag : ∀ x, dataName x = true → t'.get x = t.get x) (h : WFacts v t i c n b) : WFacts v t' i c n b := by
  obtain ⟨h1, h2, h3⟩ := h
  refine ⟨?_, ?_, ?_⟩
  · intro a b' c'; rw [hag _ rfl]; exact h1 a b' c'
  · intro a b'; rw [hag _ rfl]; exact h2 a b'
  · intro a b' c'; rw [hag _ rfl]; exact h3 a b' c'

/-- the main-path facts only depend on the data entries of the temp directory -/
theorem main_fs {cs : List Chunk} {v : Variant} {c : Cfg} (m : Main cs v c) (fs' : FS)
    (H : ∀ t', fs'.temp = some t' → ∃ t, c.fs.temp = some t ∧ ∀ x, dataName x = true → t'.get x = t.get x) :
    Main cs v { c with fs := fs' } := by
  constructor
  · exact m.chunksMd
  · exact m.cover
  · exact m.nodup
  · exact m.substd
  · intro w hw hf
    obtain ⟨hj, n, h1, h2, h3, h4⟩ := m.wstd w hw hf
    refine ⟨hj, n, h1, h2, h3, ?_⟩
    intro t' ht'
    obtain ⟨t, ht, hag⟩ := H t' ht'
    exact WFacts_congr hag (h4 t ht)
  · exact awaited_congr (c1 := c) rfl rfl m.awaited
  · intro i hi
    obtain ⟨hj, hr⟩ := m.reads i hi
    refine ⟨hj, ?_⟩
    intro t' ht'
    obtain ⟨t, ht, hag⟩ := H t' ht'
    rw [hag _ rfl]; exact hr t ht
  · intro hn t' ht' j hj
    obtain ⟨t, ht, hag⟩ := H t' ht'
    exact m.names hn t ht j (by rw [← hag _ rfl]; exact hj)
  · exact m.mdOpen
  · exact m.sj
  · exact m.noApp
  · exact m.noRead
  · intro hv t' ht' j
    obtain ⟨t, ht, hag⟩ := H t' ht'
    rw [hag _ rfl]; exact m.nocmeta hv t ht j
  · exact m.unl
  · exact m.collectOnce
  · exact m.lateItems

/-- effect of the three operations of a metadata flush -/
theorem apply_mdOp {fs fs' : FS} {o : Op}
    (ho : o = .openTrunc .temp .md ∨ (∃ c, o = .write .temp .md c) ∨ o = .close .temp .md)
    (h : apply fs o = .ok fs') :
    fs'.final = fs.final ∧ ∃ t t', fs.temp = some t ∧ fs'.temp = some t' ∧ (∀ x, dataName x = true → t'.get x = t.get x) ∧
      (∀ c, o = .write .temp .md c → t'.get .md = some c) ∧ (o = .close .temp .md → t' = t) := by
  rcases ho with rfl | ⟨c, rfl⟩ | rfl
  · simp only [apply, FS.dir] at h
    split at h <;> simp at h
    rename_i t ht
    subst h
    refine ⟨rfl, t, t.set .md .empty, ht, rfl, ?_, by simp, by simp⟩
    intro x hx; rw [Dir.get_set]; cases x <;> simp_all [dataName]
  · simp only [apply, FS.dir] at h
    split at h
    · rename_i t ht
      split at h <;> simp at h
      subst h
      refine ⟨rfl, t, t.set .md c, ht, rfl, ?_, ?_, by simp⟩
      · intro x hx; rw [Dir.get_set]; cases x <;> simp_all [dataName]
      · intro c' hc'; injection hc' with _ _ hc'; subst hc'; rw [Dir.get_set]; simp
    · simp at h
  · simp only [apply, FS.dir] at h
    cases ht : fs.temp with
    | none => simp [ht] at h
    | some t =>
      simp [ht] at h
      subst h
      refine ⟨rfl, t, t, ?_, ?_, fun _ _ => rfl, by simp, fun _ => rfl⟩ <;> simp_all



/-- one of the three operations of a metadata flush, chunk phase or final flush -/
theorem inv_flush {cs : List Chunk} {v : Variant} {c : Cfg} {x : Item} {rest : List Item} {o : Op} (h : Inv cs v c)
    (hp : c.prog = x :: rest) (hx16 : 16 ≤ rank x)
    (hxo : (∃ p, x = .flushOpen p ∧ o = .openTrunc .temp .md) ∨ (∃ p, x = .flushWrite p ∧ o = .write .temp .md (.json c.md)) ∨
           (∃ p, x = .flushClose p ∧ o = .close .temp .md)) :
    Inv cs v (c.doOp o rest) := by
  have hs : Shape (x :: rest) := hp ▸ h.shape
  have hge : rank x ≤ hr rest := hs.hr_rest_ge
  have hoo : o = .openTrunc .temp .md ∨ (∃ c', o = .write .temp .md c') ∨ o = .close .temp .md := by
    rcases hxo with ⟨_, _, rfl⟩ | ⟨_, _, rfl⟩ | ⟨_, _, rfl⟩
    · exact Or.inl rfl
    · exact Or.inr (Or.inl ⟨_, rfl⟩)
    · exact Or.inr (Or.inr rfl)
  have hnq : x ≠ .waitQuiet := by rcases hxo with ⟨_, rfl, _⟩ | ⟨_, rfl, _⟩ | ⟨_, rfl, _⟩ <;> simp
  have hnm : x ≠ .markClosed := by rcases hxo with ⟨_, rfl, _⟩ | ⟨_, rfl, _⟩ | ⟨_, rfl, _⟩ <;> simp
  rcases doOp_eq c o rest with ⟨fs', ha, he⟩ | he
  · rw [he]
    obtain ⟨hfin, t, t', ht, ht', hag, hwr, hcl⟩ := apply_mdOp hoo ha
    refine inv_late hs.tail (by simp only; omega) h.wtemp (quiet_pop (c := c) h hp hnq) (closed_pop (c := c) h hp hnm)
      ?_ ?_ h.handTerm ?_
    · -- the metadata file equals the metadata in memory from the final write on
      intro h23 h24
      simp only at h23 h24
      by_cases hw : x = .flushWrite .last
      · refine ⟨t', ht', ?_⟩
        rcases hxo with ⟨_, rfl, _⟩ | ⟨_, _, rfl⟩ | ⟨_, rfl, _⟩
        · simp at hw
        · exact hwr _ rfl
        · simp at hw
      · by_cases hx23 : 23 ≤ rank x
        · -- only the closing of the final flush is left in this range
          have hcl' : o = .close .temp .md := by
            rcases hxo with ⟨p, rfl, _⟩ | ⟨p, rfl, _⟩ | ⟨p, rfl, ho⟩
            · cases p <;> simp [rank] at hx23
            · cases p <;> simp [rank] at hx23 hw
            · exact ho
          obtain ⟨t0, ht0, hmd⟩ := h.synced (by rw [hp]; simpa using hx23) (by rw [hp]; simp only [hr_cons]; omega)
          have := hcl hcl'
          subst this
          rw [ht] at ht0; injection ht0 with ht0; subst ht0
          exact ⟨t', ht', hmd⟩
        · have h22 : rank (Item.flushWrite .last) = 22 := rfl
          have := hs.no_cross mem_milestones_fwLast (by omega) hw
          omega
    · intro d hd
      exact h.safe d (by simpa [hfin] using hd)
    · intro hh _ h25
      have m := main_of_inv h hp hx16 hh
      have hxa : ∀ ci, x ≠ .append ci := by rcases hxo with ⟨_, rfl, _⟩ | ⟨_, rfl, _⟩ | ⟨_, rfl, _⟩ <;> simp
      have hxs : ∀ i ops, x ≠ .submit i ops := by rcases hxo with ⟨_, rfl, _⟩ | ⟨_, rfl, _⟩ | ⟨_, rfl, _⟩ <;> simp
      have hxr : ∀ i, x ≠ .readInfo i := by rcases hxo with ⟨_, rfl, _⟩ | ⟨_, rfl, _⟩ | ⟨_, rfl, _⟩ <;> simp
      have hxc : x ≠ .collect := by rcases hxo with ⟨_, rfl, _⟩ | ⟨_, rfl, _⟩ | ⟨_, rfl, _⟩ <;> simp
      have hxj : x = .join → lastSt c.workers ≠ some .running ∧ lastSt c.workers ≠ some .failed := by
        rcases hxo with ⟨_, rfl, _⟩ | ⟨_, rfl, _⟩ | ⟨_, rfl, _⟩ <;> simp
      have hxw : x = .waitAll → anyRunning c.workers = false ∧ anyFailed c.workers = false := by
        rcases hxo with ⟨_, rfl, _⟩ | ⟨_, rfl, _⟩ | ⟨_, rfl, _⟩ <;> simp
      have m1 := main_pop m hp hge hxa hxs hxr hxc hxj hxw
      have m2 := main_fs m1 fs' (by
        intro t'' ht''
        rw [ht'] at ht''; injection ht'' with ht''; subst ht''
        exact ⟨t, ht, hag⟩)
      exact m2
  · rw [he]; exact inv_opFail h

end Strax.FS
