import StraxModel.Lemmas.FSInv
/-
  Preservation of the invariant by the steps after `FileSaver.__init__` (chunk phase and close), on the main path
  and inside the exception handler.
-/
namespace Strax.FS
open Strax

/-! ## thresholds when the head item is popped -/

section pop
variable {cs : List Chunk} {v : Variant} {c : Cfg} {x : Item} {rest : List Item}

theorem rank_head_le (h : Inv cs v c) (hp : c.prog = x :: rest) : rank x ≤ 25 :=
  rank_le_of_ok (h.shape.ok x (by rw [hp]; simp))

theorem quiet_pop (h : Inv cs v c) (hp : c.prog = x :: rest) (hne : x ≠ .waitQuiet) :
    18 ≤ hr rest → hr rest ≤ 25 → ∀ w ∈ c.workers, w.st ≠ .running := by
  intro h18 h25
  have hs : Shape (x :: rest) := hp ▸ h.shape
  by_cases hx : 18 ≤ rank x
  · exact h.quiet (by rw [hp]; simpa using hx) (by rw [hp]; simpa using rank_head_le h hp)
  · have h17 : rank Item.waitQuiet = 17 := rfl
    have := hs.no_cross mem_milestones_waitQuiet (by omega) hne
    omega

theorem closed_pop (h : Inv cs v c) (hp : c.prog = x :: rest) (hne : x ≠ .markClosed) :
    19 ≤ hr rest → hr rest ≤ 25 → c.md.ended = true ∧ c.md.exc = c.handling := by
  intro h19 h25
  have hs : Shape (x :: rest) := hp ▸ h.shape
  by_cases hx : 19 ≤ rank x
  · exact h.closedMd (by rw [hp]; simpa using hx) (by rw [hp]; simpa using rank_head_le h hp)
  · have h18 : rank Item.markClosed = 18 := rfl
    have := hs.no_cross mem_milestones_markClosed (by omega) hne
    omega

theorem synced_pop (h : Inv cs v c) (hp : c.prog = x :: rest) (hne : x ≠ .flushWrite .last) :
    23 ≤ hr rest → hr rest ≤ 24 → ∃ t, c.fs.temp = some t ∧ t.get .md = some (.json c.md) := by
  intro h23 h24
  have hs : Shape (x :: rest) := hp ▸ h.shape
  by_cases hx : 23 ≤ rank x
  · have hlt : rank x ≤ hr rest := hs.hr_rest_ge
    exact h.synced (by rw [hp]; simpa using hx) (by rw [hp]; simp; omega)
  · have h22 : rank (Item.flushWrite .last) = 22 := rfl
    have := hs.no_cross mem_milestones_fwLast (by omega) hne
    omega

theorem tempSome_pop (h : Inv cs v c) (hp : c.prog = x :: rest) (hx16 : 16 ≤ rank x) :
    hr rest ≤ 24 → c.fs.temp ≠ none := by
  intro h24
  have hs : Shape (x :: rest) := hp ▸ h.shape
  have hge : rank x ≤ hr rest := hs.hr_rest_ge
  exact h.tempSome (by rw [hp]; simp only [hr_cons]; omega) (by rw [hp]; simp only [hr_cons]; omega)

theorem termLate_pop (h : Inv cs v c) (hp : c.prog = x :: rest) (hne : x ≠ .markClosed) :
    19 ≤ hr rest → hr rest ≤ 25 → c.term = true := by
  intro h19 h25
  have hs : Shape (x :: rest) := hp ▸ h.shape
  by_cases hx : 19 ≤ rank x
  · exact h.termLate (by rw [hp]; simpa using hx) (by rw [hp]; simpa using rank_head_le h hp)
  · have h18 : rank Item.markClosed = 18 := rfl
    have := hs.no_cross mem_milestones_markClosed (by omega) hne
    omega

theorem renamed_pop (h : Inv cs v c) (hp : c.prog = x :: rest) (hle : rank x ≤ 24)
    (hne : x ≠ .op (.renameDir .temp .final)) : hr rest ≠ 25 := by
  have hs : Shape (x :: rest) := hp ▸ h.shape
  have h24 : rank (Item.op (.renameDir .temp .final)) = 24 := rfl
  have := hs.no_cross mem_milestones_rename (by omega) hne
  omega

end pop


/-! ## the main-path facts when the head item is popped -/


theorem notCollected_cons {x : Item} {rest : List Item} (h : x ≠ .collect) : notCollected (x :: rest) = notCollected rest := by
  simp only [notCollected, List.contains_cons]
  have : (Item.collect == x) = false := by
    cases x <;> simp_all
  simp [this]

theorem pending_skip {v : Variant} {cs : List Chunk} {x : Item} {rest : List Item} (hxa : ∀ ci, x ≠ .append ci)
    (hxr : ∀ i, x ≠ .readInfo i) (hxc : x ≠ .collect) : pending v cs (x :: rest) = pending v cs rest := by
  cases v <;> simp only [pending, pendApp_skip hxa, notCollected_cons hxc, readIdx_skip hxr]

theorem wst_ok_of {s : WSt} (h1 : s ≠ .running) (h2 : s ≠ .failed) : s = .ok := by
  cases s <;> simp_all

theorem anyRunning_false {ws : List Worker} (h : anyRunning ws = false) : ∀ w ∈ ws, w.st ≠ .running := by
  intro w hw hs
  have : anyRunning ws = true := by
    simp only [anyRunning, List.any_eq_true]
    exact ⟨w, hw, by simp [hs]⟩
  rw [h] at this; cases this

theorem anyFailed_false {ws : List Worker} (h : anyFailed ws = false) : ∀ w ∈ ws, w.st ≠ .failed := by
  intro w hw hs
  have : anyFailed ws = true := by
    simp only [anyFailed, List.any_eq_true]
    exact ⟨w, hw, by simp [hs]⟩
  rw [h] at this; cases this

/-- `Awaited` when a non-submit item is popped (a `join` / `waitAll` only passes when there is nothing to report) -/
theorem awaited_pop {v : Variant} {c : Cfg} {x : Item} {rest : List Item} (m : Awaited v c) (hp : c.prog = x :: rest)
    (hj : x = .join → lastSt c.workers ≠ some .running ∧ lastSt c.workers ≠ some .failed)
    (hw : x = .waitAll → anyRunning c.workers = false ∧ anyFailed c.workers = false) :
    Awaited v { c with prog := rest } := by
  cases v with
  | serial =>
    simp only [Awaited] at m ⊢
    refine ⟨m.1, ?_⟩
    intro w hl hne
    obtain ⟨r, hr⟩ := m.2 w hl hne
    rw [hp] at hr; injection hr with hx _
    obtain ⟨h1, h2⟩ := hj hx
    simp only [lastSt, hl, Option.map_some, ne_eq, Option.some.injEq] at h1 h2
    exact absurd (wst_ok_of h1 h2) hne
  | executor | forked =>
    simp only [Awaited] at m ⊢
    rcases m with ⟨hin, hlast⟩ | ⟨hsub, hok⟩
    · by_cases hx : x = .waitAll
      · right
        obtain ⟨h1, h2⟩ := hw hx
        refine ⟨hlast [] rest (by rw [hp, hx]; simp), ?_⟩
        intro w hwm
        exact wst_ok_of (anyRunning_false h1 w hwm) (anyFailed_false h2 w hwm)
      · left
        refine ⟨?_, ?_⟩
        · rw [hp] at hin
          rcases List.mem_cons.mp hin with h | h
          · exact absurd h.symm hx
          · exact h
        · intro pre post he
          exact hlast (x :: pre) post (by rw [hp, he]; simp)
    · right
      refine ⟨?_, hok⟩
      rw [hp] at hsub
      cases x <;> simp_all [submitIdx]



theorem awaited_congr {v : Variant} {c1 c2 : Cfg} (hw : c2.workers = c1.workers) (hp : c2.prog = c1.prog)
    (h : Awaited v c1) : Awaited v c2 := by
  cases v <;> simp only [Awaited, hw, hp] at h ⊢ <;> exact h

theorem pendApp_tail_nil {x : Item} {rest : List Item} (h : pendApp (x :: rest) = []) : pendApp rest = [] := by
  cases x <;> simp_all [pendApp]

theorem readIdx_tail_nil {x : Item} {rest : List Item} (h : readIdx (x :: rest) = []) : readIdx rest = [] := by
  cases x <;> simp_all [readIdx]

theorem readIdx_mem_cons {x : Item} {rest : List Item} {i : Nat} (h : i ∈ readIdx rest) : i ∈ readIdx (x :: rest) := by
  cases x <;> simp_all [readIdx]

/-- the main-path facts survive the popping of an item that is neither a submit nor the collect; the metadata in
memory may change as long as the chunk list stays consistent with what is still pending -/
theorem main_pop_md {cs : List Chunk} {v : Variant} {c : Cfg} {x : Item} {rest : List Item} (m : Main cs v c)
    (hp : c.prog = x :: rest) (hle : rank x ≤ hr rest)
    (hxs : ∀ i ops, x ≠ .submit i ops) (hxc : x ≠ .collect)
    (md' : Meta) (hmd : md'.chunks ++ pending v cs rest = infos cs 0)
    (hopen : hr rest ≤ 18 → md'.ended = false ∧ md'.exc = false)
    (hj : x = .join → lastSt c.workers ≠ some .running ∧ lastSt c.workers ≠ some .failed)
    (hw : x = .waitAll → anyRunning c.workers = false ∧ anyFailed c.workers = false) :
    Main cs v { c with prog := rest, md := md' } := by
  have hsub : submitIdx c.prog = submitIdx rest := by rw [hp]; exact submitIdx_skip hxs
  have hnc : notCollected c.prog = notCollected rest := by rw [hp]; exact notCollected_cons hxc
  constructor
  · exact hmd
  · intro j hj' hn
    have := m.cover j hj' hn
    rwa [hsub] at this
  · have := m.nodup; rwa [hsub] at this
  · intro i ops hm
    exact m.substd i ops (by rw [hp]; simp [hm])
  · intro w hwm hf
    obtain ⟨hj', n, h1, h2, h3, h4⟩ := m.wstd w hwm hf
    exact ⟨hj', n, h1, h2, h3, by simpa [← hnc] using h4⟩
  · exact awaited_congr (c1 := { c with prog := rest }) rfl rfl (awaited_pop m.awaited hp hj hw)
  · intro i hi
    exact m.reads i (by rw [hp]; exact readIdx_mem_cons hi)
  · intro hn
    exact m.names (by rw [hnc]; exact hn)
  · exact hopen
  · intro hv; exact (hp ▸ m.sj hv).tail
  · intro hv; have := m.noApp hv; rw [hp] at this; exact ⟨pendApp_tail_nil this.1, fun hm => this.2 (by simp [hm])⟩
  · intro hv; have := m.noRead hv; rw [hp] at this; exact readIdx_tail_nil this
  · exact m.nocmeta
  · exact (hp ▸ m.unl).tail
  · intro pre post he
    have he' : rest = pre ++ Item.collect :: post := he
    exact m.collectOnce (x :: pre) post (by rw [hp, he']; simp)
  · intro hl
    have hl' : readIdx c.prog ≠ [] ∨ ∃ i, Item.op (.unlink .temp (.cmeta i)) ∈ c.prog := by
      rcases hl with hl | ⟨i, hi⟩
      · left
        intro he; rw [hp] at he; exact hl (readIdx_tail_nil he)
      · right; exact ⟨i, by rw [hp]; simp [hi]⟩
    obtain ⟨h20, hn⟩ := m.lateItems hl'
    refine ⟨?_, by rw [← hnc]; exact hn⟩
    rw [hp] at h20; simp only [hr_cons] at h20; simp only; omega

/-- the same when the metadata in memory does not change -/
theorem main_pop {cs : List Chunk} {v : Variant} {c : Cfg} {x : Item} {rest : List Item} (m : Main cs v c)
    (hp : c.prog = x :: rest) (hle : rank x ≤ hr rest)
    (hxa : ∀ ci, x ≠ .append ci) (hxs : ∀ i ops, x ≠ .submit i ops) (hxr : ∀ i, x ≠ .readInfo i) (hxc : x ≠ .collect)
    (hj : x = .join → lastSt c.workers ≠ some .running ∧ lastSt c.workers ≠ some .failed)
    (hw : x = .waitAll → anyRunning c.workers = false ∧ anyFailed c.workers = false) :
    Main cs v { c with prog := rest } := by
  have := main_pop_md m hp hle hxs hxc c.md (by have := m.chunksMd; rwa [hp, pending_skip hxa hxr hxc] at this)
    (fun h18 => m.mdOpen (by rw [hp]; simp only [hr_cons]; omega)) hj hw
  simpa using this


/-! ## items that only move the program on -/


/-- a late item that changes nothing but the program -/
theorem inv_late_pop {cs : List Chunk} {v : Variant} {c : Cfg} {x : Item} {rest : List Item} (h : Inv cs v c)
    (hp : c.prog = x :: rest) (hx16 : 16 ≤ rank x) (hnq : x ≠ .waitQuiet) (hnm : x ≠ .markClosed)
    (hnf : x ≠ .flushWrite .last) (hx24 : rank x ≤ 24) (hnr : x ≠ .op (.renameDir .temp .final))
    (hmain : c.handling = false → hr rest ≤ 25 → Main cs v { c with prog := rest }) :
    Inv cs v { c with prog := rest } := by
  have hs : Shape (x :: rest) := hp ▸ h.shape
  have hge : rank x ≤ hr rest := hs.hr_rest_ge
  refine inv_late hs.tail (by simp only; omega) h.wtemp (quiet_pop (c := c) h hp hnq) (closed_pop (c := c) h hp hnm)
    (synced_pop (c := c) h hp hnf) h.safe h.handTerm ?_ (tempSome_pop (c := c) h hp hx16) (termLate_pop (c := c) h hp hnm)
    (fun h25 => absurd h25 (renamed_pop (c := c) h hp hx24 hnr)) (h.side.congr rfl rfl rfl rfl rfl)
  intro hh _ h25
  exact hmain hh h25

theorem main_of_inv {cs : List Chunk} {v : Variant} {c : Cfg} {x : Item} {rest : List Item} (h : Inv cs v c)
    (hp : c.prog = x :: rest) (hx16 : 16 ≤ rank x) (hh : c.handling = false) : Main cs v c :=
  h.main hh (by rw [hp]; simpa using hx16) (by rw [hp]; simpa using rank_head_le h hp)

/-- `join` / `poll` / `waitAll` / `checkTemp` letting the saver pass -/
theorem inv_pass {cs : List Chunk} {v : Variant} {c : Cfg} {x : Item} {rest : List Item} (h : Inv cs v c)
    (hp : c.prog = x :: rest) (hx : x = .join ∨ x = .poll ∨ x = .waitAll ∨ x = .checkTemp ∨ x = .markUnreg)
    (hj : x = .join → lastSt c.workers ≠ some .running ∧ lastSt c.workers ≠ some .failed)
    (hw : x = .waitAll → anyRunning c.workers = false ∧ anyFailed c.workers = false) :
    Inv cs v { c with prog := rest } := by
  have hs : Shape (x :: rest) := hp ▸ h.shape
  have hx16 : 16 ≤ rank x := by rcases hx with rfl | rfl | rfl | rfl | rfl <;> simp [rank]
  refine inv_late_pop h hp hx16 ?_ ?_ ?_ ?_ ?_ ?_
  · rcases hx with rfl | rfl | rfl | rfl | rfl <;> simp
  · rcases hx with rfl | rfl | rfl | rfl | rfl <;> simp
  · rcases hx with rfl | rfl | rfl | rfl | rfl <;> simp
  · rcases hx with rfl | rfl | rfl | rfl | rfl <;> simp [rank]
  · rcases hx with rfl | rfl | rfl | rfl | rfl <;> simp
  · intro hh _
    refine main_pop (main_of_inv h hp hx16 hh) hp hs.hr_rest_ge ?_ ?_ ?_ ?_ hj hw
    all_goals (rcases hx with rfl | rfl | rfl | rfl | rfl <;> simp)


/-! ## items that change the metadata in memory or the flags -/


/-- `md["chunks"].append(chunk_info)` -/
theorem inv_append {cs : List Chunk} {v : Variant} {c : Cfg} {ci : ChunkInfo} {rest : List Item} (h : Inv cs v c)
    (hp : c.prog = .append ci :: rest) :
    Inv cs v { c with prog := rest, md := { c.md with chunks := c.md.chunks ++ [ci] } } := by
  have hs : Shape (.append ci :: rest) := hp ▸ h.shape
  have hge : 16 ≤ hr rest := by have := hs.hr_rest_ge; simpa [rank] using this
  have hle : hr rest ≤ 17 := by
    have := hs.no_cross mem_milestones_waitQuiet (by simp [rank]) (by simp)
    simpa [rank] using this
  refine inv_late hs.tail (by simp only; omega) h.wtemp ?_ ?_ ?_ h.safe h.handTerm ?_
    (tempSome_pop (c := c) h hp (by simp [rank])) (by intro h19 _; simp only at h19; omega)
    (by intro h25; simp only at h25; omega) (h.side.congr rfl rfl rfl rfl rfl)
  · intro h18 _; simp only at h18; omega
  · intro h19 _; simp only at h19; omega
  · intro h23 _; simp only at h23; omega
  · intro hh _ _
    have m := main_of_inv h hp (by simp [rank]) hh
    have hv : v ≠ .forked := by
      intro hv
      have := (m.noApp hv).1
      rw [hp] at this; simp [pendApp] at this
    refine main_pop_md m hp hs.hr_rest_ge (by simp) (by simp) _ ?_ ?_ (by simp) (by simp)
    · have := m.chunksMd
      rw [hp] at this
      cases v with
      | forked => exact absurd rfl hv
      | serial => simpa [pending, pendApp, List.append_assoc] using this
      | executor => simpa [pending, pendApp, List.append_assoc] using this
    · intro h18
      exact m.mdOpen (by rw [hp]; simp [rank])



/-- `Saver.close`: closed = True, "writing_ended" and (inside a handler) "exception" recorded -/
theorem inv_markClosed {cs : List Chunk} {v : Variant} {c : Cfg} {rest : List Item} (h : Inv cs v c)
    (hp : c.prog = .markClosed :: rest) :
    Inv cs v { c with prog := rest, term := true, md := { c.md with ended := true, exc := c.handling } } := by
  have hs : Shape (.markClosed :: rest) := hp ▸ h.shape
  have hgt : 18 < hr rest := by have := hs.hr_rest_gt (by simp [rank]) (by simp [rank]); simpa [rank] using this
  have hle : hr rest ≤ 22 := by
    have := hs.no_cross mem_milestones_fwLast (by simp [rank]) (by simp)
    simpa [rank] using this
  refine inv_late hs.tail (by simp only; omega) h.wtemp (quiet_pop (c := c) h hp (by simp)) ?_ ?_ h.safe ?_ ?_
    (tempSome_pop (c := c) h hp (by simp [rank])) (by intro _ _; rfl) (by intro h25; simp only at h25; omega) (h.side.congr rfl rfl rfl rfl rfl)
  · intro _ _; exact ⟨rfl, rfl⟩
  · intro h23 _; simp only at h23; omega
  · intro _; rfl
  · intro hh _ _
    have m := main_of_inv h hp (by simp [rank]) hh
    have := main_pop_md m hp hs.hr_rest_ge (by simp) (by simp) { c.md with ended := true, exc := c.handling }
      (by have := m.chunksMd; rwa [hp, pending_skip (by simp) (by simp) (by simp)] at this)
      (by intro h18; omega) (by simp) (by simp)
    exact ⟨this.chunksMd, this.cover, this.nodup, this.substd, this.wstd,
      awaited_congr (c1 := { c with prog := rest }) rfl rfl (awaited_congr (c2 := { c with prog := rest }) rfl rfl this.awaited),
      this.reads, this.names, this.mdOpen, this.sj, this.noApp, this.noRead, this.nocmeta, this.unl, this.collectOnce,
      this.lateItems⟩

/-- `close(wait_for=pending)` has waited for every chunk write -/
theorem inv_waitQuiet {cs : List Chunk} {v : Variant} {c : Cfg} {rest : List Item} (h : Inv cs v c)
    (hp : c.prog = .waitQuiet :: rest) (hq : anyRunning c.workers = false) :
    Inv cs v { c with prog := rest } := by
  have hs : Shape (.waitQuiet :: rest) := hp ▸ h.shape
  have hgt : 17 < hr rest := by have := hs.hr_rest_gt (by simp [rank]) (by simp [rank]); simpa [rank] using this
  have hle : hr rest ≤ 18 := by
    have := hs.no_cross mem_milestones_markClosed (by simp [rank]) (by simp)
    simpa [rank] using this
  refine inv_late hs.tail (by simp only; omega) h.wtemp ?_ ?_ ?_ h.safe h.handTerm ?_
    (tempSome_pop (c := c) h hp (by simp [rank])) (by intro h19 _; simp only at h19; omega)
    (by intro h25; simp only at h25; omega) (h.side.congr rfl rfl rfl rfl rfl)
  · intro _ _; exact anyRunning_false hq
  · intro h19 _; simp only at h19; omega
  · intro h23 _; simp only at h23; omega
  · intro hh _ _
    exact main_pop (main_of_inv h hp (by simp [rank]) hh) hp hs.hr_rest_ge (by simp) (by simp) (by simp) (by simp)
      (by simp) (by simp)

/-- the saver is through -/
theorem inv_finish {cs : List Chunk} {v : Variant} {c : Cfg} {rest : List Item} (h : Inv cs v c)
    (hp : c.prog = .finish :: rest) (o : Outcome) : Inv cs v { c with prog := rest, out := o } := by
  have hs : Shape (.finish :: rest) := hp ▸ h.shape
  have hgt : 25 < hr rest := by have := hs.hr_rest_gt (by simp [rank]) (by simp [rank]); simpa [rank] using this
  refine inv_late hs.tail (by simp only; omega) h.wtemp ?_ ?_ ?_ h.safe h.handTerm ?_
    (by intro h24; simp only at h24; omega) (by intro _ h25; simp only at h25; omega) (by intro h25; simp only at h25; omega) (h.side.congr rfl rfl rfl rfl rfl)
  · intro _ h25; simp only at h25; omega
  · intro _ h25; simp only at h25; omega
  · intro _ h24; simp only at h24; omega
  · intro _ _ h25; simp only at h25; omega



theorem all_ok_of_dropLast {ws : List Worker} (h1 : ∀ w ∈ ws.dropLast, w.st = .ok)
    (h2 : ∀ w, ws.getLast? = some w → w.st = .ok) : ∀ w ∈ ws, w.st = .ok := by
  intro w hw
  cases hl : ws.getLast? with
  | none =>
    have : ws = [] := List.getLast?_eq_none_iff.mp hl
    subst this; simp at hw
  | some a =>
    obtain ⟨ys, rfl⟩ := List.getLast?_eq_some_iff.mp hl
    simp only [List.dropLast_concat] at h1
    rcases List.mem_append.mp hw with h | h
    · exact h1 w h
    · simp at h; subst h; exact h2 w hl

theorem stdOps_ne_nil (v : Variant) (i : Nat) (c : Chunk) : stdOps v i c ≠ [] := by
  cases v <;> simp [stdOps, writeOps, forkOps]

/-- a chunk write is started -/
theorem inv_submit {cs : List Chunk} {v : Variant} {c : Cfg} {i : Nat} {ops : List Op} {rest : List Item} (h : Inv cs v c)
    (hp : c.prog = .submit i ops :: rest) :
    Inv cs v { c with prog := rest, workers := c.workers ++ [⟨i, ops, if ops.isEmpty then .ok else .running⟩] } := by
  have hs : Shape (.submit i ops :: rest) := hp ▸ h.shape
  have hge : 16 ≤ hr rest := by have := hs.hr_rest_ge; simpa [rank] using this
  have hle : hr rest ≤ 17 := by
    have := hs.no_cross mem_milestones_waitQuiet (by simp [rank]) (by simp)
    simpa [rank] using this
  have hok : ∀ o ∈ ops, tempOp o = true := by
    have := h.shape.ok (.submit i ops) (by rw [hp]; simp)
    simpa [okItem] using this
  refine inv_late hs.tail (by simp only; omega) ?_ ?_ ?_ ?_ h.safe h.handTerm ?_
    (tempSome_pop (c := c) h hp (by simp [rank])) (by intro h19 _; simp only at h19; omega)
    (by intro h25; simp only at h25; omega) ?_
  · intro w hw o ho
    rcases List.mem_append.mp hw with hw | hw
    · exact h.wtemp w hw o ho
    · simp at hw; subst hw; exact hok o ho
  · intro h18 _; simp only at h18; omega
  · intro h19 _; simp only at h19; omega
  · intro h23 _; simp only at h23; omega
  · intro hh _ _
    have m := main_of_inv h hp (by simp [rank]) hh
    obtain ⟨hi, hops⟩ := m.substd i ops (by rw [hp]; simp)
    have hne : ops ≠ [] := by rw [hops]; exact stdOps_ne_nil _ _ _
    have hst : (if ops.isEmpty then WSt.ok else WSt.running) = .running := by simp [hne]
    have hnc : notCollected c.prog = notCollected rest := by rw [hp]; exact notCollected_cons (by simp)
    constructor
    · have := m.chunksMd; rwa [hp, pending_skip (by simp) (by simp) (by simp)] at this
    · intro j hj hn
      rcases m.cover j hj hn with hc | ⟨w, hw, hwi⟩
      · rw [hp] at hc; simp only [submitIdx, List.mem_cons] at hc
        rcases hc with rfl | hc
        · right; exact ⟨⟨j, ops, if ops.isEmpty then .ok else .running⟩, by simp, rfl⟩
        · left; exact hc
      · right; exact ⟨w, by simp [hw], hwi⟩
    · have := m.nodup
      rw [hp] at this
      simpa [submitIdx, List.append_assoc] using this
    · intro i' ops' hm
      exact m.substd i' ops' (by rw [hp]; simp [hm])
    · intro w hw hf
      rcases List.mem_append.mp hw with hw | hw
      · obtain ⟨hj', n, h1, h2, h3, h4⟩ := m.wstd w hw hf
        exact ⟨hj', n, h1, h2, h3, by simpa [← hnc] using h4⟩
      · simp at hw; subst hw
        refine ⟨hi, 0, by simpa using hops, by simp, ?_, ?_⟩
        · simp [hne]
        · intro t _
          refine ⟨?_, ?_, ?_⟩ <;> intros <;> omega
    · -- failures stay awaited
      cases v with
      | serial =>
        have ha := m.awaited
        simp only [Awaited] at ha ⊢
        obtain ⟨r', hr'⟩ := m.sj rfl [] rest i ops (by rw [hp]; simp)
        have hall : ∀ w ∈ c.workers, w.st = .ok := by
          refine all_ok_of_dropLast ha.1 ?_
          intro w hl
          by_cases hne' : w.st = .ok
          · exact hne'
          · obtain ⟨r, hr⟩ := ha.2 w hl hne'
            rw [hp] at hr; simp at hr
        refine ⟨by simpa using hall, ?_⟩
        intro w hl _
        exact ⟨r', hr'⟩
      | executor | forked =>
        have ha := m.awaited
        simp only [Awaited] at ha ⊢
        rcases ha with ⟨hin, hlast⟩ | ⟨hsub, _⟩
        · left
          refine ⟨?_, ?_⟩
          · rw [hp] at hin; simpa using hin
          · intro pre post he
            have he' : rest = pre ++ Item.waitAll :: post := he
            exact hlast (.submit i ops :: pre) post (by rw [hp, he']; simp)
        · rw [hp] at hsub; simp [submitIdx] at hsub
    · intro i' hi'
      exact m.reads i' (by rw [hp]; exact readIdx_mem_cons hi')
    · intro hn t ht j hj
      obtain ⟨w, hw, hwi⟩ := m.names (by rw [hnc]; exact hn) t ht j hj
      exact ⟨w, by simp [hw], hwi⟩
    · intro h18; exact m.mdOpen (by rw [hp]; simp [rank])
    · intro hv; exact (hp ▸ m.sj hv).tail
    · intro hv; have := m.noApp hv; rw [hp] at this; exact ⟨pendApp_tail_nil this.1, fun hm => this.2 (by simp [hm])⟩
    · intro hv; have := m.noRead hv; rw [hp] at this; exact readIdx_tail_nil this
    · exact m.nocmeta
    · exact (hp ▸ m.unl).tail
    · intro pre post he
      have he' : rest = pre ++ Item.collect :: post := he
      exact m.collectOnce (.submit i ops :: pre) post (by rw [hp, he']; simp)
    · intro hl
      have hl' : readIdx c.prog ≠ [] ∨ ∃ i, Item.op (.unlink .temp (.cmeta i)) ∈ c.prog := by
        rcases hl with hl | ⟨i', hi'⟩
        · left; intro he; rw [hp] at he; exact hl (readIdx_tail_nil he)
        · right; exact ⟨i', by rw [hp]; simp [hi']⟩
      obtain ⟨h20, _⟩ := m.lateItems hl'
      rw [hp] at h20; simp [rank] at h20
  · refine ⟨?_, h.side.nmu, h.side.orphOk, h.side.orphMode⟩
    intro hv hh w hw o ho
    rcases List.mem_append.mp hw with hw | hw
    · exact h.side.wmd hv hh w hw o ho
    · simp at hw; subst hw
      have ho' : o ∈ ops := ho
      have m := main_of_inv h hp (by simp [rank]) hh
      obtain ⟨hi, hops⟩ := m.substd i ops (by rw [hp]; simp)
      have hwo : ops = writeOps i cs[i].rows := by
        rw [hops]; cases v with
        | forked => exact absurd rfl hv
        | serial => rfl
        | executor => rfl
      rw [hwo] at ho'; exact mdFree_writeOps _ _ o ho'


/-! ## items that touch the file system -/


/-- the names a chunk writer's facts are about -/
def dataName : Name → Bool
  | .md => false
  | _ => true

theorem WFacts_congr {v : Variant} {t t' : Dir} {i : Nat} {c : Chunk} {n : Nat} {b : Bool}
    (hag : ∀ x, dataName x = true → t'.get x = t.get x) (h : WFacts v t i c n b) : WFacts v t' i c n b := by
  obtain ⟨h1, h2, h3⟩ := h
  refine ⟨?_, ?_, ?_⟩
  · intro a b' c'; rw [hag _ rfl]; exact h1 a b' c'
  · intro a b'; rw [hag _ rfl]; exact h2 a b'
  · intro a b' c'; rw [hag _ rfl]; exact h3 a b' c'

/-- the main-path facts only depend on the data entries of the temp directory -/
theorem main_fs {cs : List Chunk} {v : Variant} {c : Cfg} (m : Main cs v c) (fs' : FS)
    (H : ∀ t', fs'.temp = some t' → ∃ t, c.fs.temp = some t ∧ ∀ x, dataName x = true → t'.get x = t.get x) :
    Main cs v { c with fs := fs' } := by
  constructor
  · exact m.chunksMd
  · exact m.cover
  · exact m.nodup
  · exact m.substd
  · intro w hw hf
    obtain ⟨hj, n, h1, h2, h3, h4⟩ := m.wstd w hw hf
    refine ⟨hj, n, h1, h2, h3, ?_⟩
    intro t' ht'
    obtain ⟨t, ht, hag⟩ := H t' ht'
    exact WFacts_congr hag (h4 t ht)
  · exact awaited_congr (c1 := c) rfl rfl m.awaited
  · intro i hi
    obtain ⟨hj, hr⟩ := m.reads i hi
    refine ⟨hj, ?_⟩
    intro t' ht'
    obtain ⟨t, ht, hag⟩ := H t' ht'
    rw [hag _ rfl]; exact hr t ht
  · intro hn t' ht' j hj
    obtain ⟨t, ht, hag⟩ := H t' ht'
    exact m.names hn t ht j (by rw [← hag _ rfl]; exact hj)
  · exact m.mdOpen
  · exact m.sj
  · exact m.noApp
  · exact m.noRead
  · intro hv t' ht' j
    obtain ⟨t, ht, hag⟩ := H t' ht'
    rw [hag _ rfl]; exact m.nocmeta hv t ht j
  · exact m.unl
  · exact m.collectOnce
  · exact m.lateItems

/-- effect of the three operations of a metadata flush -/
theorem apply_mdOp {fs fs' : FS} {o : Op}
    (ho : o = .openTrunc .temp .md ∨ (∃ c, o = .write .temp .md c) ∨ o = .close .temp .md)
    (h : apply fs o = .ok fs') :
    fs'.final = fs.final ∧ ∃ t t', fs.temp = some t ∧ fs'.temp = some t' ∧ (∀ x, dataName x = true → t'.get x = t.get x) ∧
      (∀ c, o = .write .temp .md c → t'.get .md = some c) ∧ (o = .close .temp .md → t' = t) := by
  rcases ho with rfl | ⟨c, rfl⟩ | rfl
  · simp only [apply, FS.dir] at h
    split at h <;> simp at h
    rename_i t ht
    subst h
    refine ⟨rfl, t, t.set .md .empty, ht, rfl, ?_, by simp, by simp⟩
    intro x hx; rw [Dir.get_set]; cases x <;> simp_all [dataName]
  · simp only [apply, FS.dir] at h
    split at h
    · rename_i t ht
      split at h <;> simp at h
      subst h
      refine ⟨rfl, t, t.set .md c, ht, rfl, ?_, ?_, by simp⟩
      · intro x hx; rw [Dir.get_set]; cases x <;> simp_all [dataName]
      · intro c' hc'; injection hc' with _ _ hc'; subst hc'; rw [Dir.get_set]; simp
    · simp at h
  · simp only [apply, FS.dir] at h
    cases ht : fs.temp with
    | none => simp [ht] at h
    | some t =>
      simp [ht] at h
      subst h
      refine ⟨rfl, t, t, ?_, ?_, fun _ _ => rfl, by simp, fun _ => rfl⟩ <;> simp_all



/-- one of the three operations of a metadata flush, chunk phase or final flush -/
theorem inv_flush {cs : List Chunk} {v : Variant} {c : Cfg} {x : Item} {rest : List Item} {o : Op} (h : Inv cs v c)
    (hp : c.prog = x :: rest) (hx16 : 16 ≤ rank x)
    (hxo : (∃ p, x = .flushOpen p ∧ o = .openTrunc .temp .md) ∨ (∃ p, x = .flushWrite p ∧ o = .write .temp .md (.json c.md)) ∨
           (∃ p, x = .flushClose p ∧ o = .close .temp .md)) :
    Inv cs v (c.doOp o rest) := by
  have hs : Shape (x :: rest) := hp ▸ h.shape
  have hge : rank x ≤ hr rest := hs.hr_rest_ge
  have hoo : o = .openTrunc .temp .md ∨ (∃ c', o = .write .temp .md c') ∨ o = .close .temp .md := by
    rcases hxo with ⟨_, _, rfl⟩ | ⟨_, _, rfl⟩ | ⟨_, _, rfl⟩
    · exact Or.inl rfl
    · exact Or.inr (Or.inl ⟨_, rfl⟩)
    · exact Or.inr (Or.inr rfl)
  have hnq : x ≠ .waitQuiet := by rcases hxo with ⟨_, rfl, _⟩ | ⟨_, rfl, _⟩ | ⟨_, rfl, _⟩ <;> simp
  have hnm : x ≠ .markClosed := by rcases hxo with ⟨_, rfl, _⟩ | ⟨_, rfl, _⟩ | ⟨_, rfl, _⟩ <;> simp
  rcases doOp_eq c o rest with ⟨fs', ha, he⟩ | he
  · rw [he]
    obtain ⟨hfin, t, t', ht, ht', hag, hwr, hcl⟩ := apply_mdOp hoo ha
    refine inv_late hs.tail (by simp only; omega) h.wtemp (quiet_pop (c := c) h hp hnq) (closed_pop (c := c) h hp hnm)
      ?_ ?_ h.handTerm ?_ (by intro _; simp [ht']) (termLate_pop (c := c) h hp hnm)
      (fun h25 => absurd h25 (renamed_pop (c := c) h hp
        (by rcases hxo with ⟨p, rfl, _⟩ | ⟨p, rfl, _⟩ | ⟨p, rfl, _⟩ <;> cases p <;> simp [rank])
        (by rcases hxo with ⟨_, rfl, _⟩ | ⟨_, rfl, _⟩ | ⟨_, rfl, _⟩ <;> simp))) (h.side.congr rfl rfl rfl rfl rfl)
    · -- the metadata file equals the metadata in memory from the final write on
      intro h23 h24
      simp only at h23 h24
      by_cases hw : x = .flushWrite .last
      · refine ⟨t', ht', ?_⟩
        rcases hxo with ⟨_, rfl, _⟩ | ⟨_, _, rfl⟩ | ⟨_, rfl, _⟩
        · simp at hw
        · exact hwr _ rfl
        · simp at hw
      · by_cases hx23 : 23 ≤ rank x
        · -- only the closing of the final flush is left in this range
          have hcl' : o = .close .temp .md := by
            rcases hxo with ⟨p, rfl, _⟩ | ⟨p, rfl, _⟩ | ⟨p, rfl, ho⟩
            · cases p <;> simp [rank] at hx23
            · cases p <;> simp [rank] at hx23 hw
            · exact ho
          obtain ⟨t0, ht0, hmd⟩ := h.synced (by rw [hp]; simpa using hx23) (by rw [hp]; simp only [hr_cons]; omega)
          have := hcl hcl'
          subst this
          rw [ht] at ht0; injection ht0 with ht0; subst ht0
          exact ⟨t', ht', hmd⟩
        · have h22 : rank (Item.flushWrite .last) = 22 := rfl
          have := hs.no_cross mem_milestones_fwLast (by omega) hw
          omega
    · intro d hd
      exact h.safe d (by simpa [hfin] using hd)
    · intro hh _ h25
      have m := main_of_inv h hp hx16 hh
      have hxa : ∀ ci, x ≠ .append ci := by rcases hxo with ⟨_, rfl, _⟩ | ⟨_, rfl, _⟩ | ⟨_, rfl, _⟩ <;> simp
      have hxs : ∀ i ops, x ≠ .submit i ops := by rcases hxo with ⟨_, rfl, _⟩ | ⟨_, rfl, _⟩ | ⟨_, rfl, _⟩ <;> simp
      have hxr : ∀ i, x ≠ .readInfo i := by rcases hxo with ⟨_, rfl, _⟩ | ⟨_, rfl, _⟩ | ⟨_, rfl, _⟩ <;> simp
      have hxc : x ≠ .collect := by rcases hxo with ⟨_, rfl, _⟩ | ⟨_, rfl, _⟩ | ⟨_, rfl, _⟩ <;> simp
      have hxj : x = .join → lastSt c.workers ≠ some .running ∧ lastSt c.workers ≠ some .failed := by
        rcases hxo with ⟨_, rfl, _⟩ | ⟨_, rfl, _⟩ | ⟨_, rfl, _⟩ <;> simp
      have hxw : x = .waitAll → anyRunning c.workers = false ∧ anyFailed c.workers = false := by
        rcases hxo with ⟨_, rfl, _⟩ | ⟨_, rfl, _⟩ | ⟨_, rfl, _⟩ <;> simp
      have m1 := main_pop m hp hge hxa hxs hxr hxc hxj hxw
      have m2 := main_fs m1 fs' (by
        intro t'' ht''
        rw [ht'] at ht''; injection ht'' with ht''; subst ht''
        exact ⟨t, ht, hag⟩)
      exact m2
  · rw [he]; exact inv_opFail h (by rw [hp]; simp)


/-! ## the final rename -/


theorem loadChunk_infoOf {t : Dir} {i : Nat} {c : Chunk}
    (h : c.rows.isEmpty = false → t.get (.chunk i) = some (.rows c.rows)) : loadChunk t (infoOf i c) = .ok c := by
  unfold loadChunk infoOf
  by_cases he : c.rows = []
  · simp [he]
    cases c; simp_all
  · have hl : c.rows.length ≠ 0 := by simpa using he
    have hne : c.rows.isEmpty = false := by simpa using he
    simp [hl, hne, h hne]

theorem loadChunks_infos {t : Dir} : ∀ (cs : List Chunk) (s : Nat),
    (∀ k (hk : k < cs.length), cs[k].rows.isEmpty = false → t.get (.chunk (s + k)) = some (.rows cs[k].rows)) →
    loadChunks t (infos cs s) = .ok cs := by
  intro cs
  induction cs with
  | nil => intro s _; simp [infos, loadChunks]
  | cons c rest ih =>
    intro s h
    have h0 := loadChunk_infoOf (t := t) (i := s) (c := c) (by
      intro hne
      have := h 0 (by simp) (by simpa using hne)
      simpa using this)
    have hr := ih (s + 1) (by
      intro k hk hne
      have := h (k + 1) (by simp; omega) (by simpa using hne)
      simpa [Nat.add_assoc, Nat.add_comm 1 k] using this)
    simp [infos, loadChunks, h0, hr]

theorem infos_ne_nil {cs : List Chunk} (h : cs ≠ []) (s : Nat) : (infos cs s).isEmpty = false := by
  cases cs with
  | nil => exact absurd rfl h
  | cons c rest => simp [infos]

theorem pendApp_nil_of_rank {p : List Item} (h : ∀ x ∈ p, 17 ≤ rank x) : pendApp p = [] := by
  induction p with
  | nil => rfl
  | cons x q ih =>
    have hx := h x (by simp)
    have hq := ih (fun y hy => h y (by simp [hy]))
    cases x <;> simp_all [pendApp, rank]

theorem submitIdx_nil_of_rank {p : List Item} (h : ∀ x ∈ p, 17 ≤ rank x) : submitIdx p = [] := by
  induction p with
  | nil => rfl
  | cons x q ih =>
    have hx := h x (by simp)
    have hq := ih (fun y hy => h y (by simp [hy]))
    cases x <;> simp_all [submitIdx, rank]

theorem readIdx_nil_of_rank {p : List Item} (h : ∀ x ∈ p, 21 ≤ rank x) : readIdx p = [] := by
  induction p with
  | nil => rfl
  | cons x q ih =>
    have hx := h x (by simp)
    have hq := ih (fun y hy => h y (by simp [hy]))
    cases x <;> simp_all [readIdx, rank]

theorem notCollected_false_of_rank {p : List Item} (h : ∀ x ∈ p, 21 ≤ rank x) : notCollected p = false := by
  simp only [notCollected]
  cases hc : p.contains Item.collect with
  | false => rfl
  | true =>
    have := h .collect (by simpa using hc)
    simp [rank] at this

theorem length_stdOps_ge (v : Variant) (i : Nat) (c : Chunk) (h : c.rows.isEmpty = false) : 4 ≤ (stdOps v i c).length := by
  cases v <;> simp [stdOps, writeOps, forkOps, h] <;> omega

/-- past the chunk phase every chunk write has succeeded -/
theorem all_ok_late {cs : List Chunk} {v : Variant} {c : Cfg} (m : Main cs v c) (hs : Sorted c.prog) (hk : 17 ≤ hr c.prog) :
    ∀ w ∈ c.workers, w.st = .ok := by
  have hr : ∀ x ∈ c.prog, 17 ≤ rank x := fun x hx => by have := hs.hr_le_mem x hx; omega
  have ha := m.awaited
  cases v with
  | serial =>
    simp only [Awaited] at ha
    refine all_ok_of_dropLast ha.1 ?_
    intro w hl
    by_cases hok : w.st = .ok
    · exact hok
    · obtain ⟨r, hr'⟩ := ha.2 w hl hok
      have := hr .join (by rw [hr']; simp)
      simp [rank] at this
  | executor | forked =>
    simp only [Awaited] at ha
    rcases ha with ⟨hin, _⟩ | ⟨_, hok⟩
    · have := hr .waitAll hin; simp [rank] at this
    · exact hok

/-- when the temp directory is about to be renamed on the main path, the metadata lists exactly the chunks and
every data file is in place -/
theorem main_complete {cs : List Chunk} {v : Variant} {c : Cfg} (m : Main cs v c) (hcs : cs ≠ []) (hs : Sorted c.prog)
    (hk : 21 ≤ hr c.prog) {t : Dir} (ht : c.fs.temp = some t) :
    c.md.chunks.isEmpty = false ∧ loadChunks t c.md.chunks = .ok cs := by
  have hr : ∀ x ∈ c.prog, 21 ≤ rank x := fun x hx => by have := hs.hr_le_mem x hx; omega
  have hr17 : ∀ x ∈ c.prog, 17 ≤ rank x := fun x hx => by have := hr x hx; omega
  have hpend : pending v cs c.prog = [] := by
    cases v with
    | forked => simp [pending, notCollected_false_of_rank hr, readIdx_nil_of_rank hr]
    | serial => simp [pending, pendApp_nil_of_rank hr17]
    | executor => simp [pending, pendApp_nil_of_rank hr17]
  have hmd : c.md.chunks = infos cs 0 := by have := m.chunksMd; simpa [hpend] using this
  have hok := all_ok_late m hs (by omega)
  refine ⟨by rw [hmd]; exact infos_ne_nil hcs 0, ?_⟩
  rw [hmd]
  apply loadChunks_infos
  intro k hk' hne
  have hnw : needsW v cs[k] = true := by cases v <;> simp [needsW, hne]
  rcases m.cover k hk' hnw with hc | ⟨w, hw, hwi⟩
  · rw [submitIdx_nil_of_rank hr17] at hc; simp at hc
  · have hst := hok w hw
    obtain ⟨hj, n, h1, h2, h3, h4⟩ := m.wstd w hw (by rw [hst]; simp)
    have hops : w.ops = [] := h3.mp hst
    subst hwi
    have hlen := length_stdOps_ge v w.i cs[w.i] hne
    have hn : 4 ≤ n := by
      rw [hops] at h1
      have : (stdOps v w.i cs[w.i]).length ≤ n := by
        have := congrArg List.length h1
        simp at this; omega
      omega
    have := (h4 t ht).2.1 hne hn
    simpa using this



theorem apply_renameFinal {fs fs' : FS} (h : apply fs (.renameDir .temp .final) = .ok fs') :
    ∃ t, fs.temp = some t ∧ fs'.final = some t ∧ fs'.temp = none := by
  simp only [apply, FS.dir] at h
  split at h
  · simp at h
  · split at h
    · rename_i t ht
      split at h <;> simp at h <;> (subst h; exact ⟨t, ht, rfl, rfl⟩)
    · simp at h

/-- `os.rename(temp, final)`: the only operation that makes data visible -/
theorem inv_rename {cs : List Chunk} {v : Variant} {c : Cfg} {rest : List Item} (hcs : cs ≠ []) (h : Inv cs v c)
    (hp : c.prog = .op (.renameDir .temp .final) :: rest) : Inv cs v (c.doOp (.renameDir .temp .final) rest) := by
  have hs : Shape (.op (.renameDir .temp .final) :: rest) := hp ▸ h.shape
  have hk : hr c.prog = 24 := by rw [hp]; rfl
  have hgt : 24 < hr rest := by have := hs.hr_rest_gt (by simp [rank]) (by simp [rank]); simpa [rank] using this
  rcases doOp_eq c (.renameDir .temp .final) rest with ⟨fs', ha, he⟩ | he
  · rw [he]
    obtain ⟨t, ht, hfin, htmp⟩ := apply_renameFinal ha
    obtain ⟨t0, ht0, hmd⟩ := h.synced (by omega) (by omega)
    rw [ht] at ht0; injection ht0 with ht0; subst ht0
    obtain ⟨hend, hexc⟩ := h.closedMd (by omega) (by omega)
    refine inv_late hs.tail (by simp only; omega) h.wtemp ?_ ?_ ?_ ?_ h.handTerm ?_
      (by intro h24; simp only at h24; omega) (by intro _ _; exact h.termLate (by omega) (by omega))
      (by intro _; exact ⟨t, hfin, hmd⟩) (h.side.congr rfl rfl rfl rfl rfl)
    · intro _ h25; exact h.quiet (by omega) (by omega)
    · intro _ _; exact ⟨hend, hexc⟩
    · intro _ h24; simp only at h24; omega
    · -- the new final directory is safe
      intro d hd
      simp only [hfin] at hd; injection hd with hd; subst hd
      unfold SafeDir
      rw [hmd]
      intro hgood
      cases hh : c.handling with
      | true => simp [Meta.good, hend, hexc, hh] at hgood
      | false =>
        have m := h.main hh (by omega) (by omega)
        exact main_complete m hcs h.shape.sorted (by omega) ht
    · intro hh _ _
      have m := main_of_inv h hp (by simp [rank]) hh
      have m1 := main_pop m hp hs.hr_rest_ge (by simp) (by simp) (by simp) (by simp) (by simp) (by simp)
      exact main_fs m1 fs' (by intro t' ht'; rw [htmp] at ht'; cases ht')
  · rw [he]; exact inv_opFail h (by rw [hp]; simp)



theorem apply_unlinkTemp {fs fs' : FS} {n : Name} (h : apply fs (.unlink .temp n) = .ok fs') :
    fs'.final = fs.final ∧ ∃ t, fs.temp = some t ∧ fs'.temp = some (t.del n) := by
  simp only [apply, FS.dir] at h
  split at h
  · rename_i t ht
    split at h <;> simp at h
    subst h
    exact ⟨rfl, t, ht, rfl⟩
  · simp at h

theorem notCollected_tail_false {x : Item} {rest : List Item} (h : notCollected (x :: rest) = false) : notCollected rest = false := by
  simp only [notCollected, List.contains_cons, Bool.or_eq_false_iff] at h
  exact h.2

/-- `os.remove(metadata_i.json)` after it was read -/
theorem inv_unlink {cs : List Chunk} {v : Variant} {c : Cfg} {i : Nat} {rest : List Item} (h : Inv cs v c)
    (hp : c.prog = .op (.unlink .temp (.cmeta i)) :: rest) : Inv cs v (c.doOp (.unlink .temp (.cmeta i)) rest) := by
  have hs : Shape (.op (.unlink .temp (.cmeta i)) :: rest) := hp ▸ h.shape
  have hk : hr c.prog = 20 := by rw [hp]; rfl
  have hge : 20 ≤ hr rest := by have := hs.hr_rest_ge; simpa [rank] using this
  have hle : hr rest ≤ 22 := by
    have := hs.no_cross mem_milestones_fwLast (by simp [rank]) (by simp)
    simpa [rank] using this
  rcases doOp_eq c (.unlink .temp (.cmeta i)) rest with ⟨fs', ha, he⟩ | he
  · rw [he]
    obtain ⟨hfin, t, ht, ht'⟩ := apply_unlinkTemp ha
    refine inv_late hs.tail (by simp only; omega) h.wtemp ?_ ?_ ?_ ?_ h.handTerm ?_
      (by intro _; simp [ht']) (by intro _ _; exact h.termLate (by omega) (by omega))
      (by intro h25; simp only at h25; omega) (h.side.congr rfl rfl rfl rfl rfl)
    · intro _ _; exact h.quiet (by omega) (by omega)
    · intro _ _; exact h.closedMd (by omega) (by omega)
    · intro h23 _; simp only at h23; omega
    · intro d hd; exact h.safe d (by simpa [hfin] using hd)
    · intro hh _ _
      have m := main_of_inv h hp (by simp [rank]) hh
      have hnc : notCollected c.prog = false := (m.lateItems (Or.inr ⟨i, by rw [hp]; simp⟩)).2
      have hncr : notCollected rest = false := by rw [hp] at hnc; exact notCollected_tail_false hnc
      have hnotin : i ∉ readIdx rest := (hp ▸ m.unl) [] rest i rfl
      have m1 := main_pop m hp hs.hr_rest_ge (by simp) (by simp) (by simp) (by simp) (by simp) (by simp)
      -- now the file system change: only `metadata_i.json` disappears
      constructor
      · exact m1.chunksMd
      · exact m1.cover
      · exact m1.nodup
      · exact m1.substd
      · intro w hw hf
        obtain ⟨hj, n, h1, h2, h3, h4⟩ := m1.wstd w hw hf
        refine ⟨hj, n, h1, h2, h3, ?_⟩
        intro t' ht''
        simp only at ht''
        rw [ht'] at ht''; injection ht'' with ht''; subst ht''
        obtain ⟨f1, f2, _⟩ := h4 t ht
        refine ⟨?_, ?_, ?_⟩
        · intro a b d; rw [Dir.get_del]; simpa using f1 a b d
        · intro a b; rw [Dir.get_del]; simpa using f2 a b
        · intro _ hcol; simp [hncr] at hcol
      · exact awaited_congr (c1 := { c with prog := rest }) rfl rfl m1.awaited
      · intro j hj
        obtain ⟨hjl, hr⟩ := m1.reads j hj
        refine ⟨hjl, ?_⟩
        intro t' ht''
        simp only at ht''
        rw [ht'] at ht''; injection ht'' with ht''; subst ht''
        rw [Dir.get_del]
        have hne : j ≠ i := fun e => hnotin (e ▸ hj)
        simpa [hne] using hr t ht
      · intro hn; simp only at hn; rw [hncr] at hn; cases hn
      · exact m1.mdOpen
      · exact m1.sj
      · exact m1.noApp
      · exact m1.noRead
      · intro hv t' ht'' j
        simp only at ht''
        rw [ht'] at ht''; injection ht'' with ht''; subst ht''
        rw [Dir.get_del]
        have := m1.nocmeta hv t ht j
        split <;> simp_all
      · exact m1.unl
      · exact m1.collectOnce
      · exact m1.lateItems
  · rw [he]; exact inv_opFail h (by rw [hp]; simp)



/-! ## `sorted(glob(metadata_*.json))` -/

theorem mem_cmetaIdx {t : Dir} {j : Nat} : j ∈ cmetaIdx t ↔ (t.get (.cmeta j)).isSome = true := by
  induction t with
  | nil => simp [cmetaIdx, Dir.get]
  | cons e rest ih =>
    obtain ⟨k, c⟩ := e
    simp only [cmetaIdx, List.filterMap_cons, Dir.get] at ih ⊢
    by_cases hk : k = .cmeta j
    · subst hk; simp
    · cases k with
      | cmeta i =>
        have hij : i ≠ j := fun e => hk (by rw [e])
        simp only [hk, if_false, List.mem_cons]
        have : ¬ j = i := fun e => hij e.symm
        simp [this]
        simpa using ih
      | _ => simpa [hk] using ih

theorem foldl_bound (l : List Nat) (a : Nat) :
    a ≤ l.foldl (fun a b => max a (b + 1)) a ∧ ∀ j ∈ l, j < l.foldl (fun a b => max a (b + 1)) a := by
  induction l generalizing a with
  | nil => simp
  | cons x q ih =>
    simp only [List.foldl_cons, List.mem_cons]
    obtain ⟨h1, h2⟩ := ih (max a (x + 1))
    refine ⟨by omega, ?_⟩
    intro j hj
    rcases hj with rfl | hj
    · omega
    · exact h2 j hj

theorem filter_lt_range (n b : Nat) (h : n ≤ b) : (List.range b).filter (fun j => decide (j < n)) = List.range n := by
  induction b with
  | zero => have : n = 0 := by omega
            subst this; simp
  | succ b ih =>
    rw [List.range_succ, List.filter_append]
    by_cases hb : n ≤ b
    · rw [ih hb]; simp; omega
    · have : n = b + 1 := by omega
      subst this
      have : (List.range b).filter (fun j => decide (j < b + 1)) = List.range b := by
        apply List.filter_eq_self.mpr
        intro a ha; simp at ha ⊢; omega
      rw [this, List.range_succ]; simp

/-- when exactly the files `metadata_0 … metadata_(n-1)` are there, they are collected in this order -/
theorem collectList_eq_range {t : Dir} {n : Nat} (h : ∀ j, (t.get (.cmeta j)).isSome = true ↔ j < n) :
    collectList t = List.range n := by
  unfold collectList
  simp only
  have hb := foldl_bound (cmetaIdx t) 0
  have hle : n ≤ (cmetaIdx t).foldl (fun a b => max a (b + 1)) 0 := by
    cases n with
    | zero => omega
    | succ m =>
      have : m ∈ cmetaIdx t := mem_cmetaIdx.mpr ((h m).mpr (by omega))
      have := hb.2 m this
      omega
  rw [← filter_lt_range n _ hle]
  apply List.filter_congr
  intro j _
  by_cases hj : j < n
  · simp [hj, (h j).mpr hj]
  · have : (t.get (.cmeta j)).isSome = false := by
      cases hs : (t.get (.cmeta j)).isSome with
      | false => rfl
      | true => exact absurd ((h j).mp hs) hj
    simp [hj, this]

theorem filterMap_range_infos : ∀ (cs : List Chunk), (List.range cs.length).filterMap (fun i => (cs[i]?).map (infoOf i)) = infos cs 0 := by
  intro cs
  suffices h : ∀ (cs : List Chunk) (s : Nat) (pre : List Chunk), pre.length = s →
      (List.range' s cs.length).filterMap (fun i => ((pre ++ cs)[i]?).map (infoOf i)) = infos cs s by
    have := h cs 0 [] rfl
    simpa [List.range_eq_range'] using this
  intro cs
  induction cs with
  | nil => intro s pre _; simp [infos]
  | cons c rest ih =>
    intro s pre hpre
    have hget : (pre ++ c :: rest)[s]? = some c := by
      rw [List.getElem?_append_right (by omega)]; simp [hpre]
    have := ih (s + 1) (pre ++ [c]) (by simp [hpre])
    simp only [List.length_cons, List.range'_succ, List.filterMap_cons, hget, Option.map_some, infos]
    simp only [List.append_assoc, List.singleton_append] at this
    rw [this]



theorem rank_collectItems (l : List Nat) : ∀ x ∈ collectItems l, rank x = 20 ∧ okItem x = true := by
  intro x hx
  simp only [collectItems, List.mem_flatMap, List.mem_cons, List.mem_nil_iff, or_false] at hx
  obtain ⟨i, _, rfl | rfl⟩ := hx <;> simp [rank, okItem]

theorem collectItems_cons (i : Nat) (l : List Nat) :
    collectItems (i :: l) = .readInfo i :: .op (.unlink .temp (.cmeta i)) :: collectItems l := by
  simp [collectItems]

theorem readIdx_collectItems (l : List Nat) (rest : List Item) : readIdx (collectItems l ++ rest) = l ++ readIdx rest := by
  induction l with
  | nil => simp [collectItems]
  | cons i q ih => simp [collectItems_cons, readIdx, ih]

theorem pendApp_collectItems (l : List Nat) (rest : List Item) : pendApp (collectItems l ++ rest) = pendApp rest := by
  induction l with
  | nil => simp [collectItems]
  | cons i q ih => simp [collectItems_cons, pendApp, ih]

theorem submitIdx_collectItems (l : List Nat) (rest : List Item) : submitIdx (collectItems l ++ rest) = submitIdx rest := by
  induction l with
  | nil => simp [collectItems]
  | cons i q ih => simp [collectItems_cons, submitIdx, ih]

theorem notCollected_collectItems (l : List Nat) (rest : List Item) : notCollected (collectItems l ++ rest) = notCollected rest := by
  induction l with
  | nil => simp [collectItems]
  | cons i q ih =>
    rw [collectItems_cons, List.cons_append, List.cons_append, notCollected_cons (by simp), notCollected_cons (by simp), ih]

/-- the collect item is replaced by a read / unlink pair per file found -/
theorem shape_collect {rest : List Item} (hs : Shape (.collect :: rest)) (l : List Nat) : Shape (collectItems l ++ rest) := by
  have h20 : rank Item.collect = 20 := rfl
  refine hs.tail.prepend ?_ (fun y hy => (rank_collectItems l y hy).2) ?_ ?_
  · exact List.pairwise_of_forall_mem_list (fun a ha b hb =>
      Or.inr ⟨by rw [(rank_collectItems l a ha).1, (rank_collectItems l b hb).1], Or.inr (rank_collectItems l a ha).1⟩)
  · intro y hy z hz
    have hy20 := (rank_collectItems l y hy).1
    rcases hs.sorted.head_rle z hz with h | h
    · left; omega
    · right; exact ⟨by omega, Or.inr hy20⟩
  · intro m hm hle
    right
    have hge : 20 ≤ hr (collectItems l ++ rest) := by
      cases hl : collectItems l with
      | nil => have := hs.hr_rest_ge; simpa [h20] using this
      | cons y q =>
        have := (rank_collectItems l y (by rw [hl]; simp)).1
        simp [this]
    have hin : m ∈ Item.collect :: rest := hs.miles m hm (by simp only [hr_cons]; omega)
    rcases List.mem_cons.mp hin with rfl | hin
    · simp [milestones] at hm
    · exact hs.tail.sorted.hr_le_mem m hin

theorem unlinkOK_collectItems {l : List Nat} {rest : List Item} (hl : l.Nodup) (hr : readIdx rest = [])
    (hu : UnlinkOK rest) : UnlinkOK (collectItems l ++ rest) := by
  induction l with
  | nil => simpa [collectItems] using hu
  | cons i q ih =>
    have hq := ih (List.nodup_cons.mp hl).2
    intro pre post j he
    rw [collectItems_cons] at he
    simp only [List.cons_append] at he
    cases pre with
    | nil => simp at he
    | cons y pre' =>
      simp only [List.cons_append, List.cons.injEq] at he
      cases pre' with
      | nil =>
        simp only [List.nil_append, List.cons.injEq] at he
        obtain ⟨_, hj, hpost⟩ := he
        simp only [Item.op.injEq, Op.unlink.injEq, Name.cmeta.injEq, true_and] at hj
        subst hj
        rw [← hpost, readIdx_collectItems, hr]
        simpa using (List.nodup_cons.mp hl).1
      | cons z pre'' =>
        simp only [List.cons_append, List.cons.injEq] at he
        exact hq pre'' post j he.2.2



theorem WFacts_mono {v : Variant} {t : Dir} {i : Nat} {c : Chunk} {n : Nat} {b : Bool} (h : WFacts v t i c n false) :
    WFacts v t i c n b := by
  obtain ⟨h1, h2, h3⟩ := h
  refine ⟨h1, h2, ?_⟩
  intro hv hb; subst hb; exact h3 hv rfl

theorem not_mem_of_notCollected {p : List Item} (h : notCollected p = false) : Item.collect ∉ p := by
  intro hm
  have : notCollected p = true := by simpa [notCollected] using hm
  rw [h] at this; cases this

theorem submitJoin_of_rank {p : List Item} (h : ∀ x ∈ p, 17 ≤ rank x) : SubmitJoin p := by
  intro pre post i ops he
  have := h (.submit i ops) (by rw [he]; simp)
  simp [rank] at this

theorem length_forkOps (i : Nat) (c : Chunk) : dataLen c + 3 ≤ (forkOps i c).length := by
  unfold forkOps dataLen
  by_cases h : c.rows.isEmpty = true <;> simp [h, writeOps] <;> split <;> simp <;> omega

/-- `json.load(metadata_i.json)` and the append of what it holds -/
theorem inv_readInfo {cs : List Chunk} {v : Variant} {c : Cfg} {i : Nat} {rest : List Item} {ci : ChunkInfo} (h : Inv cs v c)
    (hp : c.prog = .readInfo i :: rest) (hread : c.fs.temp.bind (·.get (.cmeta i)) = some (.info ci)) :
    Inv cs v { c with prog := rest, md := { c.md with chunks := c.md.chunks ++ [ci] } } := by
  have hs : Shape (.readInfo i :: rest) := hp ▸ h.shape
  have hk : hr c.prog = 20 := by rw [hp]; rfl
  have hge : 20 ≤ hr rest := by have := hs.hr_rest_ge; simpa [rank] using this
  have hle : hr rest ≤ 22 := by
    have := hs.no_cross mem_milestones_fwLast (by simp [rank]) (by simp)
    simpa [rank] using this
  refine inv_late hs.tail (by simp only; omega) h.wtemp ?_ ?_ ?_ h.safe h.handTerm ?_
    (tempSome_pop (c := c) h hp (by simp [rank])) (by intro _ _; exact h.termLate (by omega) (by omega))
    (by intro h25; simp only at h25; omega) (h.side.congr rfl rfl rfl rfl rfl)
  · intro _ _; exact h.quiet (by omega) (by omega)
  · intro _ _; exact h.closedMd (by omega) (by omega)
  · intro h23 _; simp only at h23; omega
  · intro hh _ _
    have m := main_of_inv h hp (by simp [rank]) hh
    have hv : v = .forked := by
      cases v with
      | forked => rfl
      | serial => have := m.noRead (by simp); rw [hp] at this; simp [readIdx] at this
      | executor => have := m.noRead (by simp); rw [hp] at this; simp [readIdx] at this
    subst hv
    obtain ⟨hi, hget⟩ := m.reads i (by rw [hp]; simp [readIdx])
    have hci : ci = infoOf i cs[i] := by
      cases ht : c.fs.temp with
      | none => simp [ht] at hread
      | some t =>
        have := hget t ht
        simp [ht, this] at hread
        exact hread.symm
    have hnc : notCollected c.prog = false := (m.lateItems (Or.inl (by rw [hp]; simp [readIdx]))).2
    have hncr : notCollected rest = false := by rw [hp] at hnc; exact notCollected_tail_false hnc
    refine main_pop_md m hp hs.hr_rest_ge (by simp) (by simp) _ ?_ (by intro h18; omega) (by simp) (by simp)
    have := m.chunksMd
    rw [hp] at this
    simp only [pending, hncr, readIdx, List.filterMap_cons] at this ⊢
    have hsome : cs[i]? = some cs[i] := by simp [hi]
    rw [← hp, hnc] at this
    simp [hsome] at this
    rw [hci]
    simpa [List.append_assoc] using this



/-- what `_close` finds when it globs the per-chunk metadata on the main path: nothing for the serial and executor
variants, exactly one file per chunk, in order, for forked savers -/
theorem collect_main {cs : List Chunk} {v : Variant} {c : Cfg} {rest : List Item} (m : Main cs v c) (hs : Shape c.prog)
    (hp : c.prog = .collect :: rest) {t : Dir} (ht : c.fs.temp = some t) :
    (v ≠ .forked → collectList t = []) ∧ (v = .forked → collectList t = List.range cs.length) ∧
    (∀ i ∈ collectList t, ∃ hj : i < cs.length, t.get (.cmeta i) = some (.info (infoOf i cs[i]))) := by
  have hnc : notCollected c.prog = true := by rw [hp]; simp [notCollected]
  have hk : 17 ≤ hr c.prog := by rw [hp]; simp [rank]
  have hr17 : ∀ x ∈ c.prog, 17 ≤ rank x := fun x hx => by have := hs.sorted.hr_le_mem x hx; omega
  have hok := all_ok_late m hs.sorted hk
  by_cases hv : v = .forked
  · subst hv
    have hpres : ∀ j, (t.get (.cmeta j)).isSome = true ↔ j < cs.length := by
      intro j
      constructor
      · intro hj
        obtain ⟨w, hw, hwi⟩ := m.names hnc t ht j (by intro e; simp [e] at hj)
        obtain ⟨hjl, _⟩ := m.wstd w hw (by rw [hok w hw]; simp)
        omega
      · intro hj
        rcases m.cover j hj (by simp [needsW]) with hc | ⟨w, hw, hwi⟩
        · rw [submitIdx_nil_of_rank hr17] at hc; simp at hc
        · have hst := hok w hw
          obtain ⟨hjl, n, h1, h2, h3, h4⟩ := m.wstd w hw (by rw [hst]; simp)
          subst hwi
          have hops : w.ops = [] := h3.mp hst
          have hn : dataLen cs[w.i] + 2 ≤ n := by
            rw [hops] at h1
            have hl := congrArg List.length h1
            simp only [List.length_nil, List.length_drop, stdOps] at hl
            have := length_forkOps w.i cs[w.i]
            simp only [stdOps] at h2
            omega
          have := (h4 t ht).2.2 rfl (by simp [hnc]) hn
          simp [this]
    have hl := collectList_eq_range hpres
    refine ⟨fun h => absurd rfl h, fun _ => hl, ?_⟩
    intro i hi
    rw [hl] at hi
    have hil : i < cs.length := by simpa using hi
    refine ⟨hil, ?_⟩
    rcases m.cover i hil (by simp [needsW]) with hc | ⟨w, hw, hwi⟩
    · rw [submitIdx_nil_of_rank hr17] at hc; simp at hc
    · have hst := hok w hw
      obtain ⟨hjl, n, h1, h2, h3, h4⟩ := m.wstd w hw (by rw [hst]; simp)
      subst hwi
      have hops : w.ops = [] := h3.mp hst
      have hn : dataLen cs[w.i] + 2 ≤ n := by
        rw [hops] at h1
        have hl' := congrArg List.length h1
        simp only [List.length_nil, List.length_drop, stdOps] at hl'
        have := length_forkOps w.i cs[w.i]
        simp only [stdOps] at h2
        omega
      exact (h4 t ht).2.2 rfl (by simp [hnc]) hn
  · have hnone : ∀ j, (t.get (.cmeta j)).isSome = true ↔ j < 0 := by
      intro j; simp [m.nocmeta hv t ht j]
    have hl := collectList_eq_range hnone
    refine ⟨fun _ => by simpa using hl, fun h => absurd h hv, ?_⟩
    intro i hi; rw [hl] at hi; simp at hi



theorem nodup_range (n : Nat) : (List.range n).Nodup := List.nodup_range

/-- `sorted(glob(temp/metadata_*.json))` -/
theorem inv_collect {cs : List Chunk} {v : Variant} {c : Cfg} {rest : List Item} (h : Inv cs v c)
    (hp : c.prog = .collect :: rest) :
    Inv cs v { c with prog := collectItems (collectList (c.fs.temp.getD [])) ++ rest } := by
  have hs : Shape (.collect :: rest) := hp ▸ h.shape
  have hk : hr c.prog = 20 := by rw [hp]; rfl
  obtain ⟨t, ht⟩ := Option.ne_none_iff_exists'.mp (h.tempSome (by omega) (by omega))
  have hgetD : c.fs.temp.getD [] = t := by simp [ht]
  rw [hgetD]
  have hs' := shape_collect hs (collectList t)
  have hfw : Item.flushWrite .last ∈ rest := by
    have := hs.miles _ mem_milestones_fwLast (by simp [rank])
    simpa using this
  have hge : 20 ≤ hr (collectItems (collectList t) ++ rest) := by
    cases hl : collectItems (collectList t) with
    | nil => have := hs.hr_rest_ge; simpa [rank] using this
    | cons y q =>
      have := (rank_collectItems _ y (by rw [hl]; simp)).1
      simp [this]
  have hle : hr (collectItems (collectList t) ++ rest) ≤ 22 := by
    have := hs'.sorted.hr_le_mem (.flushWrite .last) (by simp [hfw])
    simpa [rank] using this
  refine inv_late hs' (by simp only; omega) h.wtemp ?_ ?_ ?_ h.safe h.handTerm ?_ ?_ ?_ (by intro h25; simp only at h25; omega) (h.side.congr rfl rfl rfl rfl rfl)
  · intro _ _; exact h.quiet (by omega) (by omega)
  · intro _ _; exact h.closedMd (by omega) (by omega)
  · intro h23 _; simp only at h23; omega
  · intro hh _ _
    have m := main_of_inv h hp (by simp [rank]) hh
    obtain ⟨hl0, hlr, hreads⟩ := collect_main m h.shape hp ht
    have hnc : notCollected c.prog = true := by rw [hp]; simp [notCollected]
    have hncr : notCollected rest = false := m.collectOnce [] rest (by rw [hp]; simp)
    have hncn : notCollected (collectItems (collectList t) ++ rest) = false := by rw [notCollected_collectItems]; exact hncr
    have hnolate : readIdx c.prog = [] ∧ ∀ i, Item.op (.unlink .temp (.cmeta i)) ∉ c.prog := by
      refine ⟨?_, ?_⟩
      · cases hri : readIdx c.prog with
        | nil => rfl
        | cons a q =>
          have := (m.lateItems (Or.inl (by rw [hri]; simp))).2
          rw [hnc] at this; cases this
      · intro i hi
        have := (m.lateItems (Or.inr ⟨i, hi⟩)).2
        rw [hnc] at this; cases this
    have hrr : readIdx rest = [] := by have := hnolate.1; rw [hp] at this; simpa [readIdx] using this
    have hur : ∀ i, Item.op (.unlink .temp (.cmeta i)) ∉ rest := fun i hi => hnolate.2 i (by rw [hp]; simp [hi])
    have hr17 : ∀ x ∈ c.prog, 17 ≤ rank x := fun x hx => by have := h.shape.sorted.hr_le_mem x hx; omega
    have hok := all_ok_late m h.shape.sorted (by omega)
    have hsub : submitIdx c.prog = [] := submitIdx_nil_of_rank hr17
    have hsubr : submitIdx rest = [] := by rw [hp] at hsub; simpa [submitIdx] using hsub
    have hnd : (collectList t).Nodup := by
      by_cases hv : v = .forked
      · rw [hlr hv]; exact nodup_range _
      · rw [hl0 hv]; simp
    constructor
    · -- chunk list of the metadata
      have hmd := m.chunksMd
      by_cases hv : v = .forked
      · subst hv
        simp only [pending, hnc, if_true] at hmd
        have hnil : c.md.chunks = [] := by
          have := congrArg List.length hmd
          simp at this
          exact this
        show c.md.chunks ++ pending .forked cs (collectItems (collectList t) ++ rest) = infos cs 0
        rw [hnil]
        have hncn' : notCollected (collectItems (List.range cs.length) ++ rest) = false := by
          rw [← hlr rfl]; exact hncn
        simp only [pending, readIdx_collectItems, hrr, List.append_nil, List.nil_append, hlr rfl]
        rw [if_neg (by rw [hncn']; simp)]
        exact filterMap_range_infos cs
      · rw [hl0 hv]
        have : pending v cs (collectItems [] ++ rest) = pending v cs c.prog := by
          cases v with
          | forked => exact absurd rfl hv
          | serial => simp [pending, collectItems, hp, pendApp]
          | executor => simp [pending, collectItems, hp, pendApp]
        rw [this]; exact hmd
    · intro j hj hn
      rcases m.cover j hj hn with hc | hw
      · rw [hsub] at hc; simp at hc
      · exact Or.inr hw
    · have := m.nodup
      rw [hsub] at this
      simpa [submitIdx_collectItems, hsubr] using this
    · intro i ops hm
      simp only at hm
      rcases List.mem_append.mp hm with hm | hm
      · have := (rank_collectItems _ _ hm).1; simp [rank] at this
      · exact m.substd i ops (by rw [hp]; simp [hm])
    · intro w hw hf
      obtain ⟨hj, n, h1, h2, h3, h4⟩ := m.wstd w hw hf
      exact ⟨hj, n, h1, h2, h3, fun t' ht' => by
        have := h4 t' ht'
        rw [hnc] at this
        exact WFacts_mono this⟩
    · -- every chunk write has succeeded by now
      cases v with
      | serial =>
        simp only [Awaited]
        refine ⟨fun w hw => hok w ((List.dropLast_sublist _).subset hw), ?_⟩
        intro w hl hne
        exact absurd (hok w (List.mem_of_getLast? hl)) hne
      | executor | forked =>
        simp only [Awaited]
        right
        exact ⟨by simp [submitIdx_collectItems, hsubr], hok⟩
    · intro i hi
      simp only [readIdx_collectItems, hrr, List.append_nil] at hi
      obtain ⟨hj, hget⟩ := hreads i hi
      refine ⟨hj, ?_⟩
      intro t' ht'
      simp only at ht'
      rw [ht] at ht'; injection ht' with ht'; subst ht'
      exact hget
    · intro hn; simp only at hn; rw [hncn] at hn; cases hn
    · intro h18; simp only at h18; omega
    · intro _
      apply submitJoin_of_rank
      intro x hx
      have := hs'.sorted.hr_le_mem x hx
      omega
    · intro hv
      have := m.noApp hv
      rw [hp] at this
      refine ⟨by simpa [pendApp_collectItems, pendApp] using this.1, ?_⟩
      intro hm
      rcases List.mem_append.mp hm with hm | hm
      · have := (rank_collectItems _ _ hm).1; simp [rank] at this
      · exact this.2 (by simp [hm])
    · intro hv
      simp only [readIdx_collectItems, hrr, List.append_nil]
      exact hl0 hv
    · exact m.nocmeta
    · exact unlinkOK_collectItems hnd hrr (unlinkOK_of_no_unlink hur)
    · intro pre post he
      have he' : collectItems (collectList t) ++ rest = pre ++ Item.collect :: post := he
      exact absurd (by rw [he']; simp) (not_mem_of_notCollected hncn)
    · intro _
      exact ⟨by simp only; omega, hncn⟩
  · intro _; exact h.tempSome (by omega) (by omega)
  · intro _ _; exact h.termLate (by omega) (by omega)


/-! ## steps of the chunk writers -/


/-- effect of an operation on the temp directory -/
theorem apply_tempOp {fs fs' : FS} {o : Op} (ho : tempOp o = true) (h : apply fs o = .ok fs') :
    fs'.final = fs.final ∧ ∃ t t', fs.temp = some t ∧ fs'.temp = some t' ∧ (∀ x, x ∉ opNames o → t'.get x = t.get x) ∧
      (∀ n, o = .openTrunc .temp n → t'.get n = some .empty) ∧
      (∀ n c, o = .write .temp n c → t'.get n = some c) ∧
      (∀ a b, o = .rename .temp a b → t'.get b = t.get a) := by
  cases o with
  | openTrunc d n =>
    cases d <;> simp [tempOp] at ho
    simp only [apply, FS.dir] at h
    split at h <;> simp at h
    rename_i t ht
    subst h
    refine ⟨rfl, t, t.set n .empty, ht, rfl, ?_, ?_, by simp, by simp⟩
    · intro x hx; simp [opNames] at hx; rw [Dir.get_set]; simp [hx]
    · intro n' hn'; injection hn' with _ hn'; subst hn'; rw [Dir.get_set]; simp
  | write d n c =>
    cases d <;> simp [tempOp] at ho
    simp only [apply, FS.dir] at h
    split at h
    · rename_i t ht
      split at h <;> simp at h
      subst h
      refine ⟨rfl, t, t.set n c, ht, rfl, ?_, by simp, ?_, by simp⟩
      · intro x hx; simp [opNames] at hx; rw [Dir.get_set]; simp [hx]
      · intro n' c' he; injection he with _ hn' hc'; subst hn'; subst hc'; rw [Dir.get_set]; simp
    · simp at h
  | close d n =>
    cases d <;> simp [tempOp] at ho
    simp only [apply, FS.dir] at h
    cases ht : fs.temp with
    | none => simp [ht] at h
    | some t =>
      simp [ht] at h
      subst h
      refine ⟨rfl, t, t, ?_, ?_, fun _ _ => rfl, by simp, by simp, by simp⟩ <;> simp_all
  | rename d a b =>
    cases d <;> simp [tempOp] at ho
    simp only [apply, FS.dir] at h
    split at h
    · rename_i t ht
      split at h
      · rename_i c0 hc0
        simp at h
        subst h
        refine ⟨rfl, t, (t.del a).set b c0, ht, rfl, ?_, by simp, by simp, ?_⟩
        · intro x hx; simp [opNames] at hx; rw [Dir.get_set, Dir.get_del]; simp [hx.1, hx.2]
        · intro a' b' he; injection he with _ ha' hb'; subst ha'; subst hb'; rw [Dir.get_set]; simp [hc0]
      · simp at h
    · simp at h
  | _ => simp [tempOp] at ho



/-- the operations of a forked copy after the data file -/
def tailOps (i : Nat) (c : Chunk) : List Op :=
  [.openTrunc .temp (.cmeta i), .write .temp (.cmeta i) (.info (infoOf i c)), .close .temp (.cmeta i)]
  ++ (if i = 0 then [.openTrunc .temp .md, .write .temp .md (.json ⟨[infoOf i c], false, false⟩), .close .temp .md]
      else [])

theorem forkOps_eq (i : Nat) (c : Chunk) :
    forkOps i c = (if c.rows.isEmpty then [] else writeOps i c.rows) ++ tailOps i c := by
  simp [forkOps, tailOps, List.append_assoc]

theorem forkOps_drop_dataLen (i : Nat) (c : Chunk) : (forkOps i c).drop (dataLen c) = tailOps i c := by
  rw [forkOps_eq]
  unfold dataLen
  split <;> simp [writeOps]

/-- the data-file part of the standard operations -/
theorem stdOps_take4 {v : Variant} {i : Nat} {c : Chunk} (h : c.rows.isEmpty = false) :
    (stdOps v i c).take 4 = writeOps i c.rows := by
  cases v <;> simp [stdOps, forkOps, h, writeOps]

theorem getElem?_of_drop {α : Type} {l : List α} {n : Nat} {o : α} {rest : List α} (h : l.drop n = o :: rest) : l[n]? = some o := by
  have := congrArg List.head? h
  simpa [List.head?_drop] using this

/-- positions ≥ 4 of a writer for a non-empty chunk belong to the metadata part of a forked copy -/
theorem std_late_mem {v : Variant} {i : Nat} {c : Chunk} {n : Nat} {o : Op} {rest : List Op} (hne : c.rows.isEmpty = false)
    (hd : (stdOps v i c).drop n = o :: rest) (hn : 4 ≤ n) : v = .forked ∧ o ∈ tailOps i c := by
  have hg := getElem?_of_drop hd
  cases v with
  | forked =>
    refine ⟨rfl, ?_⟩
    simp only [stdOps, forkOps_eq, hne] at hg
    have : writeOps i c.rows ++ tailOps i c = writeOps i c.rows ++ tailOps i c := rfl
    rw [List.getElem?_append_right (by simp [writeOps]; omega)] at hg
    exact List.mem_of_getElem? hg
  | serial =>
    have hlt : n < (stdOps .serial i c).length := (List.getElem?_eq_some_iff.mp hg).1
    simp [stdOps, writeOps] at hlt; omega
  | executor =>
    have hlt : n < (stdOps .executor i c).length := (List.getElem?_eq_some_iff.mp hg).1
    simp [stdOps, writeOps] at hlt; omega

theorem tailOps_names {i : Nat} {c : Chunk} {o : Op} (h : o ∈ tailOps i c) : ∀ x ∈ opNames o, x = .cmeta i ∨ x = .md := by
  simp only [tailOps, List.mem_append, List.mem_cons, List.mem_nil_iff, or_false] at h
  rcases h with (rfl | rfl | rfl) | h
  · simp [opNames]
  · simp [opNames]
  · simp [opNames]
  · split at h
    · simp only [List.mem_cons, List.mem_nil_iff, or_false] at h
      rcases h with rfl | rfl | rfl <;> simp [opNames]
    · simp at h

/-- one more operation of a writer: the facts move on by one position -/
theorem wfacts_step {v : Variant} {i : Nat} {c : Chunk} {n : Nat} {o : Op} {rest : List Op} {b : Bool} {t t' : Dir}
    (hd : (stdOps v i c).drop n = o :: rest)
    (hag : ∀ x, x ∉ opNames o → t'.get x = t.get x)
    (hwr : ∀ n' c', o = .write .temp n' c' → t'.get n' = some c')
    (hrn : ∀ a b', o = .rename .temp a b' → t'.get b' = t.get a)
    (h : WFacts v t i c n b) : WFacts v t' i c (n + 1) b := by
  obtain ⟨h1, h2, h3⟩ := h
  have hg := getElem?_of_drop hd
  refine ⟨?_, ?_, ?_⟩
  · intro hne h2' h3'
    have h4 := stdOps_take4 (v := v) (i := i) hne
    have hn : n = 1 ∨ n = 2 := by omega
    have hg' : (writeOps i c.rows)[n]? = some o := by
      rw [← h4, List.getElem?_take_of_lt (by omega)]; exact hg
    rcases hn with rfl | rfl
    · simp [writeOps] at hg'
      exact hwr _ _ hg'.symm
    · simp [writeOps] at hg'
      subst hg'
      rw [hag _ (by simp [opNames])]
      exact h1 hne (by omega) (by omega)
  · intro hne h4'
    by_cases hn3 : n = 3
    · subst hn3
      have h4 := stdOps_take4 (v := v) (i := i) hne
      have hg' : (writeOps i c.rows)[3]? = some o := by
        rw [← h4, List.getElem?_take_of_lt (by omega)]; exact hg
      simp [writeOps] at hg'
      rw [hrn _ _ hg'.symm]
      exact h1 hne (by omega) (by omega)
    · obtain ⟨_, hmem⟩ := std_late_mem hne hd (by omega)
      rw [hag _ (by intro hx; rcases tailOps_names hmem _ hx with h | h <;> cases h)]
      exact h2 hne (by omega)
  · intro hv hb hle
    subst hv
    simp only [stdOps] at hd
    have hdl : dataLen c ≤ n := by omega
    -- position relative to the metadata part
    have hd' : (tailOps i c).drop (n - dataLen c) = o :: rest := by
      rw [← forkOps_drop_dataLen, List.drop_drop]
      have : dataLen c + (n - dataLen c) = n := by omega
      rw [this]; exact hd
    have hg' := getElem?_of_drop hd'
    by_cases hn1 : n = dataLen c + 1
    · have : n - dataLen c = 1 := by omega
      rw [this] at hg'
      simp [tailOps] at hg'
      exact hwr _ _ hg'.symm
    · have hn2 : 2 ≤ n - dataLen c := by omega
      have hmem : o ∈ (tailOps i c).drop 2 := by
        have := List.mem_of_getElem? hg'
        have hsplit : tailOps i c = (tailOps i c).take 2 ++ (tailOps i c).drop 2 := (List.take_append_drop 2 _).symm
        rw [hsplit, List.getElem?_append_right (by simp [tailOps]; omega)] at hg'
        exact List.mem_of_getElem? hg'
      have hnot : Name.cmeta i ∉ opNames o := by
        simp only [tailOps, List.cons_append, List.nil_append, List.drop_succ_cons, List.drop_zero, List.mem_cons] at hmem
        rcases hmem with rfl | hmem
        · simp [opNames]
        · split at hmem
          · simp only [List.mem_cons, List.mem_nil_iff, or_false] at hmem
            rcases hmem with rfl | rfl | rfl <;> simp [opNames]
          · simp at hmem
      rw [hag _ hnot]
      exact h3 rfl hb (by omega)



theorem mem_set_cases {α : Type} {l : List α} {k : Nat} {a w' : α} (h : a ∈ l.set k w') :
    a = w' ∨ ∃ p, p ≠ k ∧ l[p]? = some a := by
  obtain ⟨p, hp⟩ := List.mem_iff_getElem?.mp h
  rw [List.getElem?_set] at hp
  split at hp
  · split at hp
    · left; injection hp with hp; exact hp.symm
    · simp at hp
  · right; exact ⟨p, by omega, hp⟩

theorem nodup_map_ne {l : List Worker} {p k : Nat} {a w : Worker} (hn : (l.map (·.i)).Nodup) (hp : l[p]? = some a)
    (hk : l[k]? = some w) (hne : p ≠ k) : a.i ≠ w.i := by
  intro he
  obtain ⟨hpl, hpa⟩ := List.getElem?_eq_some_iff.mp hp
  obtain ⟨hkl, hkw⟩ := List.getElem?_eq_some_iff.mp hk
  have h1 : (l.map (·.i))[p]'(by simpa using hpl) = a.i := by simp [hpa]
  have h2 : (l.map (·.i))[k]'(by simpa using hkl) = w.i := by simp [hkw]
  have := (List.getElem_inj (i := p) (j := k) (h₀ := by simpa using hpl) (h₁ := by simpa using hkl) hn).mp (by rw [h1, h2, he])
  exact hne this

theorem map_i_set {l : List Worker} {k : Nat} {w w' : Worker} (hk : l[k]? = some w) (hi : w'.i = w.i) :
    (l.set k w').map (·.i) = l.map (·.i) := by
  rw [List.map_set]
  apply List.ext_getElem?
  intro p
  rw [List.getElem?_set]
  split
  · rename_i hpk
    subst hpk
    obtain ⟨hkl, hkw⟩ := List.getElem?_eq_some_iff.mp hk
    simp [hkl, hi, hkw]
  · rfl

theorem mem_set_self_of {l : List Worker} {k : Nat} {w w' : Worker} (hk : l[k]? = some w) : w' ∈ l.set k w' := by
  have hkl := (List.getElem?_eq_some_iff.mp hk).1
  exact List.mem_iff_getElem?.mpr ⟨k, by simp [hkl]⟩

theorem stdOps_names {v : Variant} {i : Nat} {c : Chunk} {o : Op} (h : o ∈ stdOps v i c) :
    (∀ x ∈ opNames o, x = .tmp i ∨ x = .chunk i ∨ x = .cmeta i ∨ x = .md) ∧
    (v ≠ .forked → ∀ x ∈ opNames o, x = .tmp i ∨ x = .chunk i) := by
  have hw : ∀ rs, o ∈ writeOps i rs → ∀ x ∈ opNames o, x = .tmp i ∨ x = .chunk i := by
    intro rs ho
    simp only [writeOps, List.mem_cons, List.mem_nil_iff, or_false] at ho
    rcases ho with rfl | rfl | rfl | rfl <;> simp [opNames]
  cases v with
  | forked =>
    refine ⟨?_, fun h => absurd rfl h⟩
    simp only [stdOps, forkOps_eq, List.mem_append] at h
    rcases h with h | h
    · split at h
      · simp at h
      · intro x hx; rcases hw _ h x hx with h | h <;> simp [h]
    · intro x hx; rcases tailOps_names h x hx with h | h <;> simp [h]
  | serial =>
    simp only [stdOps] at h
    exact ⟨fun x hx => by rcases hw _ h x hx with h | h <;> simp [h], fun _ => hw _ h⟩
  | executor =>
    simp only [stdOps] at h
    exact ⟨fun x hx => by rcases hw _ h x hx with h | h <;> simp [h], fun _ => hw _ h⟩

theorem WFacts_congr3 {v : Variant} {t t' : Dir} {i : Nat} {c : Chunk} {n : Nat} {b : Bool}
    (hag : ∀ x, x = .tmp i ∨ x = .chunk i ∨ x = .cmeta i → t'.get x = t.get x) (h : WFacts v t i c n b) :
    WFacts v t' i c n b := by
  obtain ⟨h1, h2, h3⟩ := h
  refine ⟨?_, ?_, ?_⟩
  · intro a b' c'; rw [hag _ (Or.inl rfl)]; exact h1 a b' c'
  · intro a b'; rw [hag _ (Or.inr (Or.inl rfl))]; exact h2 a b'
  · intro a b' c'; rw [hag _ (Or.inr (Or.inr rfl))]; exact h3 a b' c'



/-- the main-path facts when the k-th chunk writer makes a step (successful or not) -/
theorem main_wrk {cs : List Chunk} {v : Variant} {c : Cfg} (m : Main cs v c) {k : Nat} {w w' : Worker} {fs' : FS}
    (hk : c.workers[k]? = some w) (hi : w'.i = w.i) (hrun : w.st = .running) (hlow : hr c.prog ≤ 17)
    (hw' : w'.st ≠ .failed → ∃ (hj : w'.i < cs.length) (n : Nat), w'.ops = (stdOps v w'.i cs[w'.i]).drop n ∧
        n ≤ (stdOps v w'.i cs[w'.i]).length ∧ (w'.st = .ok ↔ w'.ops = []) ∧
        ∀ t', fs'.temp = some t' → WFacts v t' w'.i cs[w'.i] n (!notCollected c.prog))
    (hfs : ∀ t', fs'.temp = some t' → ∃ t, c.fs.temp = some t ∧
        (∀ x, x ≠ .tmp w.i → x ≠ .chunk w.i → x ≠ .cmeta w.i → x ≠ .md → t'.get x = t.get x) ∧
        (v ≠ .forked → ∀ j, t'.get (.cmeta j) = t.get (.cmeta j))) :
    Main cs v { c with fs := fs', workers := c.workers.set k w' } := by
  have hmap := map_i_set hk hi
  have hwmem : w ∈ c.workers := List.mem_of_getElem? hk
  have hndw : (c.workers.map (·.i)).Nodup := (List.nodup_append.mp m.nodup).1
  have hmemi : ∀ j, (∃ a ∈ c.workers, a.i = j) → ∃ a ∈ c.workers.set k w', a.i = j := by
    intro j ⟨a, ha, hai⟩
    have : j ∈ (c.workers.set k w').map (·.i) := by rw [hmap]; exact List.mem_map.mpr ⟨a, ha, hai⟩
    obtain ⟨a', ha', hai'⟩ := List.mem_map.mp this
    exact ⟨a', ha', hai'⟩
  constructor
  · exact m.chunksMd
  · intro j hj hn
    rcases m.cover j hj hn with hc | hw
    · exact Or.inl hc
    · exact Or.inr (hmemi j hw)
  · show ((c.workers.set k w').map (·.i) ++ submitIdx c.prog).Nodup
    rw [hmap]; exact m.nodup
  · exact m.substd
  · intro a ha hf
    rcases mem_set_cases ha with rfl | ⟨p, hpk, hp⟩
    · exact hw' hf
    · have ham : a ∈ c.workers := List.mem_of_getElem? hp
      obtain ⟨hj, n, h1, h2, h3, h4⟩ := m.wstd a ham hf
      refine ⟨hj, n, h1, h2, h3, ?_⟩
      intro t' ht'
      obtain ⟨t, ht, hag, _⟩ := hfs t' ht'
      have hne : a.i ≠ w.i := nodup_map_ne hndw hp hk hpk
      refine WFacts_congr3 ?_ (h4 t ht)
      intro x hx
      apply hag x <;> (rcases hx with rfl | rfl | rfl <;> simp [hne])
  · -- failures stay awaited
    cases v with
    | serial =>
      have ha := m.awaited
      simp only [Awaited] at ha ⊢
      have hkl : k < c.workers.length := (List.getElem?_eq_some_iff.mp hk).1
      have hlast : k = c.workers.length - 1 := by
        by_cases hlt : k < c.workers.length - 1
        · have : c.workers.dropLast[k]? = some w := by rw [List.getElem?_dropLast]; simp [hlt, hk]
          have := ha.1 w (List.mem_of_getElem? this)
          rw [hrun] at this; cases this
        · omega
      have hgl : c.workers.getLast? = some w := by rw [List.getLast?_eq_getElem?, ← hlast]; exact hk
      refine ⟨?_, ?_⟩
      · intro a hm
        have : (c.workers.set k w').dropLast = c.workers.dropLast := by
          rw [List.dropLast_eq_take, List.dropLast_eq_take, List.length_set, List.take_set_of_le (by omega)]
        rw [this] at hm
        exact ha.1 a hm
      · intro a hl _
        exact ha.2 w hgl (by rw [hrun]; simp)
    | executor | forked =>
      have ha := m.awaited
      simp only [Awaited] at ha ⊢
      rcases ha with hl | ⟨_, hok⟩
      · exact Or.inl hl
      · have := hok w hwmem; rw [hrun] at this; cases this
  · intro i hi'
    exfalso
    have := (m.lateItems (Or.inl (by intro e; simp only at hi'; rw [e] at hi'; simp at hi'))).1
    omega
  · intro hn t' ht' j hj
    obtain ⟨t, ht, hag, _⟩ := hfs t' ht'
    by_cases hjw : j = w.i
    · exact ⟨w', mem_set_self_of hk, by rw [hi, hjw]⟩
    · have : t'.get (.cmeta j) = t.get (.cmeta j) := hag _ (by simp) (by simp) (by simp [hjw]) (by simp)
      exact hmemi j (m.names hn t ht j (by rw [← this]; exact hj))
  · exact m.mdOpen
  · exact m.sj
  · exact m.noApp
  · exact m.noRead
  · intro hv t' ht' j
    obtain ⟨t, ht, _, hnc⟩ := hfs t' ht'
    rw [hnc hv j]; exact m.nocmeta hv t ht j
  · exact m.unl
  · exact m.collectOnce
  · exact m.lateItems



/-- where a configuration with a running chunk writer can be -/
theorem hr_of_running {cs : List Chunk} {v : Variant} {c : Cfg} (h : Inv cs v c) {w : Worker} (hw : w ∈ c.workers)
    (hrun : w.st = .running) : 16 ≤ hr c.prog ∧ (hr c.prog ≤ 17 ∨ 26 ≤ hr c.prog) := by
  refine ⟨?_, ?_⟩
  · by_cases hk : hr c.prog ≤ 15
    · have := h.nowork hk; rw [this] at hw; simp at hw
    · omega
  · by_cases hk : 18 ≤ hr c.prog ∧ hr c.prog ≤ 25
    · exact absurd hrun (h.quiet hk.1 hk.2 w hw)
    · omega

/-- a chunk writer performs its next operation -/
theorem inv_wrk_ok {cs : List Chunk} {v : Variant} {c : Cfg} {k : Nat} {w : Worker} {o : Op} {rest : List Op} {fs' : FS}
    (h : Inv cs v c) (hk : c.workers[k]? = some w) (hrun : w.st = .running) (hops : w.ops = o :: rest)
    (ha : apply c.fs o = .ok fs') :
    Inv cs v { c with fs := fs', workers := c.workers.set k { w with ops := rest, st := if rest.isEmpty then .ok else .running } } := by
  have hwm : w ∈ c.workers := List.mem_of_getElem? hk
  obtain ⟨h16, hlow⟩ := hr_of_running h hwm hrun
  have hto : tempOp o = true := h.wtemp w hwm o (by rw [hops]; simp)
  obtain ⟨hfin, t, t', ht, ht', hag, _, hwr, hrn⟩ := apply_tempOp hto ha
  refine inv_late h.shape (by simp only; omega) ?_ ?_ ?_ ?_ ?_ h.handTerm ?_ (by intro _; simp [ht']) h.termLate
    (by intro h25; simp only at h25; omega) ?_
  · intro a ham o' ho'
    rcases mem_set_cases ham with rfl | ⟨p, _, hp⟩
    · exact h.wtemp w hwm o' (by rw [hops]; simp at ho' ⊢; exact Or.inr ho')
    · exact h.wtemp a (List.mem_of_getElem? hp) o' ho'
  · intro h18 h25; simp only at h18 h25; omega
  · exact h.closedMd
  · intro h23 h24; simp only at h23 h24; omega
  · intro d hd; exact h.safe d (by simpa [hfin] using hd)
  · intro hh _ h25
    simp only at h25
    have hl17 : hr c.prog ≤ 17 := by omega
    have m := h.main hh h16 (by omega)
    have hne : w.st ≠ .failed := by rw [hrun]; simp
    obtain ⟨hj, n, h1, h2, h3, h4⟩ := m.wstd w hwm hne
    have hd : (stdOps v w.i cs[w.i]).drop n = o :: rest := by rw [← h1, hops]
    have hmem : o ∈ stdOps v w.i cs[w.i] := List.mem_of_mem_drop (by rw [hd]; simp)
    have hnames := stdOps_names hmem
    refine main_wrk m hk rfl hrun hl17 ?_ ?_
    · intro _
      refine ⟨hj, n + 1, ?_, ?_, ?_, ?_⟩
      · show rest = _
        have := congrArg List.tail hd
        simpa [List.drop_drop, Nat.add_comm] using this.symm
      · have hlen : n < (stdOps v w.i cs[w.i]).length := by
          by_cases hlt : n < (stdOps v w.i cs[w.i]).length
          · exact hlt
          · rw [List.drop_eq_nil_of_le (by omega)] at hd; cases hd
        show n + 1 ≤ (stdOps v w.i cs[w.i]).length
        omega
      · show (if rest.isEmpty then WSt.ok else WSt.running) = .ok ↔ rest = []
        cases rest <;> simp
      · intro t'' ht''
        rw [ht'] at ht''; injection ht'' with ht''; subst ht''
        exact wfacts_step hd hag hwr hrn (h4 t ht)
    · intro t'' ht''
      rw [ht'] at ht''; injection ht'' with ht''; subst ht''
      refine ⟨t, ht, ?_, ?_⟩
      · intro x h1' h2' h3' h4'
        apply hag
        intro hx
        rcases hnames.1 x hx with h | h | h | h <;> contradiction
      · intro hv j
        apply hag
        intro hx
        rcases hnames.2 hv _ hx with h | h <;> cases h
  · refine ⟨?_, h.side.nmu, h.side.orphOk, h.side.orphMode⟩
    intro hv hh a ham o' ho'
    rcases mem_set_cases ham with rfl | ⟨p, _, hp⟩
    · exact h.side.wmd hv hh w hwm o' (by rw [hops]; simp at ho' ⊢; exact Or.inr ho')
    · exact h.side.wmd hv hh a (List.mem_of_getElem? hp) o' ho'

/-- a chunk writer's operation raises -/
theorem inv_wrk_fail {cs : List Chunk} {v : Variant} {c : Cfg} {k : Nat} {w : Worker} (h : Inv cs v c)
    (hk : c.workers[k]? = some w) (hrun : w.st = .running) :
    Inv cs v { c with failed := true, workers := c.workers.set k { w with ops := [], st := .failed } } := by
  have hwm : w ∈ c.workers := List.mem_of_getElem? hk
  obtain ⟨h16, hlow⟩ := hr_of_running h hwm hrun
  refine inv_late h.shape (by simp only; omega) ?_ ?_ h.closedMd ?_ h.safe h.handTerm ?_ (by intro h24; exact h.tempSome (by simp only at h24 ⊢; omega) (by simpa using h24)) h.termLate
    (by intro h25; simp only at h25; omega) ?_
  · intro a ham o' ho'
    rcases mem_set_cases ham with rfl | ⟨p, _, hp⟩
    · simp at ho'
    · exact h.wtemp a (List.mem_of_getElem? hp) o' ho'
  · intro h18 h25; simp only at h18 h25; omega
  · intro h23 h24; simp only at h23 h24; omega
  · intro hh _ h25
    simp only at h25
    have hl17 : hr c.prog ≤ 17 := by omega
    have m := h.main hh h16 (by omega)
    have := main_wrk (fs' := c.fs) (w' := { w with ops := [], st := .failed }) m hk rfl hrun hl17
      (by intro hne; simp at hne) (by intro t' ht'; exact ⟨t', ht', fun _ _ _ _ _ => rfl, fun _ _ => rfl⟩)
    exact ⟨this.chunksMd, this.cover, this.nodup, this.substd, this.wstd,
      awaited_congr (c1 := { c with workers := c.workers.set k { w with ops := [], st := .failed } }) rfl rfl
        (awaited_congr (c2 := { c with workers := c.workers.set k { w with ops := [], st := .failed } }) rfl rfl this.awaited),
      this.reads, this.names, this.mdOpen, this.sj, this.noApp, this.noRead, this.nocmeta, this.unl, this.collectOnce,
      this.lateItems⟩
  · refine ⟨?_, h.side.nmu, h.side.orphOk, h.side.orphMode⟩
    intro hv hh a ham o' ho'
    rcases mem_set_cases ham with rfl | ⟨p, _, hp⟩
    · simp at ho'
    · exact h.side.wmd hv hh a (List.mem_of_getElem? hp) o' ho'

/-! ## registration of the newest write; writes nobody waits for -/


theorem main_unreg {cs : List Chunk} {v : Variant} {c : Cfg} (m : Main cs v c) (b : Bool) : Main cs v { c with unreg := b } :=
  ⟨m.chunksMd, m.cover, m.nodup, m.substd, m.wstd, awaited_congr (c1 := c) rfl rfl m.awaited, m.reads, m.names, m.mdOpen,
    m.sj, m.noApp, m.noRead, m.nocmeta, m.unl, m.collectOnce, m.lateItems⟩

/-- whether the newest chunk write has reached `pending` is of no concern to the invariant -/
theorem inv_unreg {cs : List Chunk} {v : Variant} {c : Cfg} (h : Inv cs v c) (b : Bool)
    (hb : b = true → v = .forked → c.handling = true) : Inv cs v { c with unreg := b } := by
  constructor
  · exact h.shape
  · exact h.wtemp
  · exact h.nowork
  · exact h.initFlags
  · exact h.initProg
  · exact h.initTemp
  · exact h.quiet
  · exact h.closedMd
  · exact h.synced
  · exact h.safe
  · exact h.handTerm
  · intro hh h16 h25; exact main_unreg (h.main hh h16 h25) b
  · exact h.tempSome
  · exact h.termLate
  · exact h.renamed
  · refine ⟨h.side.wmd, ?_, h.side.orphOk, h.side.orphMode⟩
    intro hv hh
    cases b with
    | false => rfl
    | true => have := hb rfl hv; simp only at hh; rw [hh] at this; cases this

/-- a chunk write nobody waits for performs its next operation, or fails: it only touches data entries of the temp
directory, and the saver is inside the handler (or through) -/
theorem inv_orph {cs : List Chunk} {v : Variant} {c c' : Cfg} {k : Nat} {inject : Bool} (h : Inv cs v c)
    (hs : stepOrph c k inject = some c') : Inv cs v c' := by
  unfold stepOrph at hs
  split at hs
  · rename_i w hk
    have hwm : w ∈ c.orphans := List.mem_of_getElem? hk
    have hhand : c.handling = true := h.side.orphMode (by intro e; rw [e] at hwm; simp at hwm)
    have hnh : ¬ c.handling = false := by rw [hhand]; simp
    split at hs
    · rename_i o rest hst hops
      have hside : ∀ (w' : Worker) (hsub : ∀ o' ∈ w'.ops, o' ∈ w.ops) (fs' : FS),
          Side v { c with fs := fs', orphans := c.orphans.set k w' } := by
        intro w' hsub fs'
        refine ⟨h.side.wmd, h.side.nmu, ?_, fun _ => hhand⟩
        intro a ham o' ho'
        rcases mem_set_cases ham with rfl | ⟨p, _, hp⟩
        · exact h.side.orphOk w hwm o' (hsub o' ho')
        · exact h.side.orphOk a (List.mem_of_getElem? hp) o' ho'
      have hfail : Inv cs v { c with orphans := c.orphans.set k { w with ops := [], st := .failed } } := by
        have hsd := hside { w with ops := [], st := .failed } (by intro o' ho'; simp at ho') c.fs
        exact ⟨h.shape, h.wtemp, h.nowork, h.initFlags, h.initProg, h.initTemp, h.quiet, h.closedMd, h.synced, h.safe,
          h.handTerm, fun hh => absurd hh hnh, h.tempSome, h.termLate, h.renamed, hsd⟩
      split at hs
      · injection hs with hs; subst hs; exact hfail
      · split at hs
        · rename_i fs' ha
          injection hs with hs; subst hs
          obtain ⟨hto, hmf⟩ := h.side.orphOk w hwm o (by rw [hops]; simp)
          obtain ⟨hfin, t, t', ht, ht', hag, _, _, _⟩ := apply_tempOp hto ha
          have hmd : t'.get .md = t.get .md := hag _ (by simpa [mdFree] using hmf)
          have hsd := hside { w with ops := rest, st := if rest.isEmpty then .ok else .running }
            (by intro o' ho'; rw [hops]; simp at ho' ⊢; exact Or.inr ho') fs'
          refine ⟨h.shape, h.wtemp, h.nowork, h.initFlags, h.initProg, ?_, h.quiet, h.closedMd, ?_, ?_, h.handTerm,
            fun hh => absurd hh hnh, fun _ _ => by simp [ht'], h.termLate, ?_, hsd⟩
          · intro h12 h15
            exact absurd (h.initFlags (by simpa using h15)).2.1 hnh
          · intro h23 h24
            obtain ⟨t0, ht0, hm0⟩ := h.synced h23 h24
            rw [ht] at ht0; injection ht0 with ht0; subst ht0
            exact ⟨t', ht', by rw [hmd]; exact hm0⟩
          · intro d hd; exact h.safe d (by simpa [hfin] using hd)
          · intro h25
            obtain ⟨d, hd, hmd'⟩ := h.renamed h25
            exact ⟨d, by simpa [hfin] using hd, hmd'⟩
        · injection hs with hs; subst hs; exact hfail
    · simp at hs
  · simp at hs

end Strax.FS
