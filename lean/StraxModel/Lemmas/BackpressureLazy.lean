import StraxModel.Lemmas.Backpressure
/-
  Lazy mode of the chain model (C13): the fetch gate at every mailbox of the chain, and "one message under way".
  `LInv` is an invariant on top of `Inv` (Lemmas/Backpressure.lean).
-/
namespace Strax.Backpressure
open Strax Strax.Mailbox

structure LInv (w : Wiring) (s : Net) : Prop where
  /-- a reader whose subscription is registered as waiting is at its input lock with nothing in its hands -/
  waiting : ∀ (j : Nat) (nd : Node) (inp : MB) (sub : Sub), s.nodes[j + 1]? = some nd → s.mbs[j]? = some inp →
    inp.subs[0]? = some sub → sub.flag ≠ none → nd.pc = .read ∧ nd.batch = []
  /-- lazy: a sender inside `next(iterable)` has passed its gate; subscriber 0 of its mailbox still waits for the
  message that comes next -/
  atTop : w.lazy = true → ∀ (j : Nat) (nd : Node) (out : MB) (sub : Sub), s.nodes[j]? = some nd → s.mbs[j]? = some out →
    out.subs[0]? = some sub → nd.pc = .read → sub.flag ≠ none ∧ sub.next = out.nSent
  one : w.lazy = true → s.emitted ≤ s.pulled + 1

/-- the sender of mailbox `j` did something to its mailbox and to itself -/
theorem LInv.outUpdate {w : Wiring} {s : Net} (hl : LInv w s) {j : Nat} {nd nd' : Node} {mb mb' : MB}
    (hn : s.nodes[j]? = some nd) (hm : s.mbs[j]? = some mb)
    (hrd : nd.pc ≠ .read ∨ nd.batch ≠ [])
    (hflag : ∀ sub', mb'.subs[0]? = some sub' → sub'.flag ≠ none → ∃ sub, mb.subs[0]? = some sub ∧ sub.flag ≠ none)
    (htop : w.lazy = true → nd'.pc = .read → ∀ sub', mb'.subs[0]? = some sub' → sub'.flag ≠ none ∧ sub'.next = mb'.nSent) :
    LInv w ((s.setMb j mb').setNode j nd') := by
  have hjm : j < s.mbs.length := (List.getElem?_eq_some_iff.mp hm).1
  have hjn : j < s.nodes.length := (List.getElem?_eq_some_iff.mp hn).1
  refine ⟨?_, ?_, hl.one⟩
  · intro i x inp sub hx hinp hsub hf
    simp only [Net.setMb, Net.setNode, List.getElem?_set] at hx hinp
    by_cases h1 : j = i + 1
    · subst h1
      simp only [hjn, if_true, Option.some.injEq] at hx; subst hx
      rw [if_neg (by omega)] at hinp
      have := hl.waiting i nd inp sub hn hinp hsub hf
      rcases hrd with hrd | hrd
      · exact absurd this.1 hrd
      · exact absurd this.2 hrd
    · rw [if_neg h1] at hx
      by_cases h2 : j = i
      · subst h2
        simp only [hjm, if_true, Option.some.injEq] at hinp; subst hinp
        obtain ⟨sub0, hs0, hf0⟩ := hflag sub hsub hf
        exact hl.waiting j x mb sub0 hx hm hs0 hf0
      · rw [if_neg h2] at hinp
        exact hl.waiting i x inp sub hx hinp hsub hf
  · intro hlz i x out sub hx hout hsub hr
    simp only [Net.setMb, Net.setNode, List.getElem?_set] at hx hout
    by_cases h1 : j = i
    · subst h1
      simp only [hjm, hjn, if_true, Option.some.injEq] at hx hout; subst hx; subst hout
      exact htop hlz hr sub hsub
    · rw [if_neg h1] at hx hout
      exact hl.atTop hlz i x out sub hx hout hsub hr

/-- the reader `j+1` of mailbox `j` did something to that mailbox and to itself -/
theorem LInv.inUpdate {w : Wiring} {s : Net} (hl : LInv w s) {j : Nat} {nd nd' : Node} {mb mb' : MB} {p' : Nat}
    (hn : s.nodes[j + 1]? = some nd) (hm : s.mbs[j]? = some mb) (hns : mb'.nSent = mb.nSent)
    (hex : ∃ sub, mb.subs[0]? = some sub) (hp : s.pulled ≤ p')
    (hwait : ∀ sub', mb'.subs[0]? = some sub' → sub'.flag ≠ none → nd'.pc = .read ∧ nd'.batch = [])
    (htop : w.lazy = true → ∀ sub sub', mb.subs[0]? = some sub → mb'.subs[0]? = some sub' → sub.flag ≠ none →
      sub.next = mb.nSent → sub'.flag ≠ none ∧ sub'.next = sub.next)
    (hown : w.lazy = true → nd'.pc = .read → nd.pc = .read ∨ s.mbs.length ≤ j + 1) :
    LInv w { (s.setMb j mb').setNode (j + 1) nd' with pulled := p' } := by
  have hjm : j < s.mbs.length := (List.getElem?_eq_some_iff.mp hm).1
  have hjn : j + 1 < s.nodes.length := (List.getElem?_eq_some_iff.mp hn).1
  refine ⟨?_, ?_, fun hlz => Nat.le_trans (hl.one hlz) (by simp only; omega)⟩
  · intro i x inp sub hx hinp hsub hf
    simp only [Net.setMb, Net.setNode, List.getElem?_set] at hx hinp
    by_cases h1 : j = i
    · subst h1
      simp only [hjm, hjn, if_true, Option.some.injEq] at hx hinp; subst hx; subst hinp
      exact hwait sub hsub hf
    · rw [if_neg h1] at hinp
      rw [if_neg (by omega)] at hx
      exact hl.waiting i x inp sub hx hinp hsub hf
  · intro hlz i x out sub hx hout hsub hr
    simp only [Net.setMb, Net.setNode, List.getElem?_set] at hx hout
    by_cases h1 : j = i
    · subst h1
      simp only [hjm, if_true, Option.some.injEq] at hout; subst hout
      rw [if_neg (by omega)] at hx
      obtain ⟨sub0, hs0⟩ := hex
      obtain ⟨hf0, hn0⟩ := hl.atTop hlz j x mb sub0 hx hm hs0 hr
      have := htop hlz sub0 sub hs0 hsub hf0 hn0
      exact ⟨this.1, by rw [this.2, hn0, hns]⟩
    · rw [if_neg h1] at hout
      by_cases h2 : j + 1 = i
      · subst h2
        simp only [hjn, if_true, Option.some.injEq] at hx; subst hx
        rcases hown hlz hr with h0 | h0
        · exact hl.atTop hlz (j + 1) nd out sub hn hout hsub h0
        · have := (List.getElem?_eq_some_iff.mp hout).1; omega
      · rw [if_neg h2] at hx
        exact hl.atTop hlz i x out sub hx hout hsub hr

/-- something happened to mailbox `a` that keeps `n_sent` and subscriber 0 -/
theorem LInv.mbUpdate {w : Wiring} {s : Net} (hl : LInv w s) {a : Nat} {mb mb' : MB} {sides' : List Side}
    (hm : s.mbs[a]? = some mb) (hns : mb'.nSent = mb.nSent)
    (hsub0 : ∀ sub', mb'.subs[0]? = some sub' → ∃ sub, mb.subs[0]? = some sub ∧ sub'.next = sub.next ∧ (sub'.flag = none ↔ sub.flag = none)) :
    LInv w { (s.setMb a mb') with sides := sides' } := by
  have hjm : a < s.mbs.length := (List.getElem?_eq_some_iff.mp hm).1
  refine ⟨?_, ?_, hl.one⟩
  · intro i x inp sub hx hinp hsub hf
    simp only [Net.setMb, List.getElem?_set] at hx hinp
    by_cases h1 : a = i
    · subst h1
      simp only [hjm, if_true, Option.some.injEq] at hinp; subst hinp
      obtain ⟨sub0, hs0, _, hf0⟩ := hsub0 sub hsub
      exact hl.waiting a x mb sub0 hx hm hs0 (fun h0 => hf (hf0.mpr h0))
    · rw [if_neg h1] at hinp
      exact hl.waiting i x inp sub hx hinp hsub hf
  · intro hlz i x out sub hx hout hsub hr
    simp only [Net.setMb, List.getElem?_set] at hx hout
    by_cases h1 : a = i
    · subst h1
      simp only [hjm, if_true, Option.some.injEq] at hout; subst hout
      obtain ⟨sub0, hs0, hn0, hf0⟩ := hsub0 sub hsub
      obtain ⟨h1, h2⟩ := hl.atTop hlz a x mb sub0 hx hm hs0 hr
      exact ⟨fun h0 => h1 (hf0.mp h0), by rw [hn0, h2, hns]⟩
    · rw [if_neg h1] at hout
      exact hl.atTop hlz i x out sub hx hout hsub hr

/-- lazy: a sender inside `next(iterable)` is exactly as far as the consumer — nothing is under way below it -/
theorem LInv.balanced {w : Wiring} {s : Net} (h : Inv w s) (hl : LInv w s) (hlz : w.lazy = true) :
    ∀ i, i < w.caps.length → ∀ nd mb, s.nodes[i]? = some nd → s.mbs[i]? = some mb → nd.pc = .read → mb.nSent = s.pulled := by
  have hlenM := h.lenM
  have hlenN := h.lenN
  apply down_induction
  · intro hpos nd mb hn hm hr
    obtain ⟨c, hc, hok⟩ := h.capAt hm
    obtain ⟨sub, hsub⟩ := hok.sub0
    obtain ⟨hf, hnx⟩ := hl.atTop hlz _ nd mb sub hn hm hsub hr
    obtain ⟨rd, hrn⟩ : ∃ rd, s.nodes[w.caps.length - 1 + 1]? = some rd :=
      ⟨s.nodes[w.caps.length - 1 + 1]'(by omega), List.getElem?_eq_getElem _⟩
    obtain ⟨hrp, hb⟩ := hl.waiting _ rd mb sub hrn hm hsub hf
    have := (h.main (w.caps.length - 1) rd mb sub c (by omega) hrn hm hsub hc).1
    simp only [Node.held, hrp, pend, hb, List.length_nil] at this; omega
  · intro i hi ih nd mb hn hm hr
    obtain ⟨c, hc, hok⟩ := h.capAt hm
    obtain ⟨sub, hsub⟩ := hok.sub0
    obtain ⟨hf, hnx⟩ := hl.atTop hlz _ nd mb sub hn hm hsub hr
    obtain ⟨rd, hrn⟩ : ∃ rd, s.nodes[i + 1]? = some rd := ⟨s.nodes[i + 1]'(by omega), List.getElem?_eq_getElem _⟩
    obtain ⟨out, ho⟩ : ∃ out, s.mbs[i + 1]? = some out := ⟨s.mbs[i + 1]'(by omega), List.getElem?_eq_getElem _⟩
    obtain ⟨hrp, hb⟩ := hl.waiting _ rd mb sub hrn hm hsub hf
    have := (h.stage i rd mb out sub c hrn hm ho hsub hc).1
    simp only [Node.held, hrp, pend, hb, List.length_nil] at this
    have := ih rd out hrn ho hrp
    omega

/-- the source advances -/
theorem LInv.fetch {w : Wiring} {s : Net} (h : Inv w s) (hl : LInv w s) {nd nd' : Node} {r : Nat}
    (hn : s.nodes[0]? = some nd) (hpc : nd.pc = .read) (hp : nd'.pc ≠ .read) :
    LInv w { (s.setNode 0 nd') with remaining := r, emitted := s.emitted + 1 } := by
  have hjn : 0 < s.nodes.length := (List.getElem?_eq_some_iff.mp hn).1
  refine ⟨?_, ?_, ?_⟩
  · intro i x inp sub hx hinp hsub hf
    simp only [Net.setNode, List.getElem?_set] at hx hinp
    rw [if_neg (by omega)] at hx
    exact hl.waiting i x inp sub hx hinp hsub hf
  · intro hlz i x out sub hx hout hsub hr
    simp only [Net.setNode, List.getElem?_set] at hx hout
    by_cases h1 : 0 = i
    · subst h1
      simp only [hjn, if_true, Option.some.injEq] at hx; subst hx
      exact absurd hr hp
    · rw [if_neg h1] at hx
      exact hl.atTop hlz i x out sub hx hout hsub hr
  · intro hlz
    have hlenM := h.lenM
    have hpos := h.pos
    obtain ⟨mb, hm⟩ : ∃ mb, s.mbs[0]? = some mb := ⟨s.mbs[0]'(by omega), List.getElem?_eq_getElem _⟩
    have h1 := (h.src nd mb hn hm).1
    have h2 := hl.balanced h hlz 0 hpos nd mb hn hm hpc
    rw [hpc] at h1; simp only [pend] at h1
    show s.emitted + 1 ≤ s.pulled + 1
    omega

/-! ### every step preserves `LInv` -/

theorem setNode_self {s : Net} {i : Nat} {nd : Node} (h : s.nodes[i]? = some nd) : s.setNode i nd = s := by
  obtain ⟨hlt, he⟩ := List.getElem?_eq_some_iff.mp h
  cases s
  simp only [Net.setNode, Net.mk.injEq, and_true, true_and] at *
  subst he
  exact List.set_getElem_self hlt

theorem advance_read {nd : Node} (h : nd.advance.pc = .read) : nd.batch = [] := by
  unfold Node.advance at h
  split at h <;> simp_all

theorem LInv.stepGate {w : Wiring} {s s' : Net} (h : Inv w s) (hl : LInv w s) {j : Nat} {nd : Node} {out mb : MB} {ok : Bool}
    (hn : s.nodes[j]? = some nd) (hpc : nd.pc = .gate) (hm : s.mbs[j]? = some out)
    (hg : out.gateStep = some (ok, mb))
    (hs : s' = (s.setMb j mb).setNode j (if ok then afterGate j nd else nd)) : LInv w s' := by
  obtain ⟨c, hc, hok⟩ := h.capAt hm
  obtain ⟨f, rfl, hokc⟩ := gateStep_shape hg
  subst hs
  apply hl.outUpdate hn hm (Or.inl (by rw [hpc]; simp))
  · intro sub' hs' hf; exact ⟨sub', hs', hf⟩
  · intro hlz hr sub' hs'
    cases ok with
    | false => simp [hpc] at hr
    | true =>
      rw [hlz] at hok
      obtain ⟨sub, r, hsubs, hf, hnx, _⟩ := hok.gate_open hokc.symm
      have : sub' = sub := by
        have : out.subs[0]? = some sub' := hs'
        rw [hsubs] at this; simp at this; exact this.symm
      subst this
      exact ⟨hf, hnx⟩

theorem LInv.stepSend {w : Wiring} {s s' : Net} (h : Inv w s) (hl : LInv w s) {j : Nat} {nd : Node} {out : MB} {m : Msg}
    (hn : s.nodes[j]? = some nd) (hpc : (∃ m0, nd.pc = .send m0) ∨ nd.pc = .close) (hm : s.mbs[j]? = some out)
    {r : SendOut × MB} (hg : out.sendStep none m = some r)
    (hs : (∃ n, r.1 = .sent n ∧ (((∃ m0, nd.pc = .send m0) ∧ s' = (s.setMb j r.2).setNode j (afterPush s.lazy j nd)) ∨
                               (nd.pc = .close ∧ s' = (s.setMb j { r.2 with closed := true }).setNode j { nd with pc := .done }))) ∨
          (∃ n, r.1 = .waiting n ∧ s' = s.setMb j r.2) ∨ r.1 = .dropped ∨ ∃ e, r.1 = .raised e) : LInv w s' := by
  obtain ⟨c, hc, hok⟩ := h.capAt hm
  have hncl : out.closed = false := by
    cases hcl : out.closed with
    | false => rfl
    | true =>
      have := h.closed j out nd hm hn hcl
      rcases hpc with ⟨m0, hpc⟩ | hpc <;> rw [hpc] at this <;> cases this
  have hnr : nd.pc ≠ .read := by
    rcases hpc with ⟨m0, hpc⟩ | hpc <;> rw [hpc] <;> simp
  obtain ⟨o, mb⟩ := r
  rcases hok.sendStep hncl hg with ⟨ho, hmb, hroom⟩ | ⟨ho, hmb⟩
  · simp only at hs ho
    rcases hs with ⟨n, _, hs⟩ | ⟨n, hw, _⟩ | hd | ⟨e, he⟩
    · have hflag : ∀ sub', (out.push out.nSent m).subs[0]? = some sub' → sub'.flag ≠ none →
          ∃ sub, out.subs[0]? = some sub ∧ sub.flag ≠ none := by
        intro sub' hs' hf
        have hs'' : (out.subs.map Sub.notify)[0]? = some sub' := hs'
        cases hsubs : out.subs with
        | nil => rw [hsubs] at hs''; simp at hs''
        | cons a r =>
          rw [hsubs] at hs''; simp at hs''; subst hs''
          exact ⟨a, by simp, fun h0 => hf ((notify_flag_none a).mpr h0)⟩
      rcases hs with ⟨hp, rfl⟩ | ⟨hp, rfl⟩
      · subst hmb
        apply hl.outUpdate hn hm (Or.inl hnr) hflag
        intro hlz hr
        rw [h.lz, hlz] at hr
        simp [afterPush] at hr
      · subst hmb
        apply hl.outUpdate hn hm (Or.inl hnr) (mb' := { out.push out.nSent m with closed := true })
        · intro sub' hs' hf; exact hflag sub' hs' hf
        · intro _ hr; simp at hr
    · rw [ho] at hw; cases hw
    · rw [ho] at hd; cases hd
    · rw [ho] at he; cases he
  · simp only at hs ho
    rcases hs with ⟨n, hsn, _⟩ | ⟨n, _, rfl⟩ | hd | ⟨e, he⟩
    · rw [ho] at hsn; cases hsn
    · subst hmb
      exact hl.mbUpdate (sides' := s.sides) hm rfl (fun sub' hs' => ⟨sub', hs', rfl, Iff.rfl⟩)
    · rw [ho] at hd; cases hd
    · rw [ho] at he; cases he

theorem LInv.stepPull {w : Wiring} {s s' : Net} (hl : LInv w s) {i : Nat} {nd : Node} {mb mb' : MB} {msgs : List Msg}
    (hn : s.nodes[i + 1]? = some nd) (hpc : nd.pc = .read) (hm : s.mbs[i]? = some mb)
    (hex : ∃ sub, mb.subs[0]? = some sub) (hns : mb'.nSent = mb.nSent)
    (hwait : ∀ sub', mb'.subs[0]? = some sub' → sub'.flag ≠ none → False)
    (htop : w.lazy = true → ∀ sub sub', mb.subs[0]? = some sub → mb'.subs[0]? = some sub' → sub.flag ≠ none →
      sub.next = mb.nSent → sub'.flag ≠ none ∧ sub'.next = sub.next)
    (hs : (s.setMb i mb').pull (i + 1) msgs = some s') : LInv w s' := by
  cases msgs with
  | nil => simp [Net.pull] at hs
  | cons m r =>
    have key : ∀ (pc' : Pc) (p' : Nat), s.pulled ≤ p' →
        LInv w { ((s.setMb i mb').setNode (i + 1) { pc := pc', batch := r }) with pulled := p' } := by
      intro pc' p' hp'
      apply hl.inUpdate hn hm hns hex hp'
      · intro sub' hs' hf; exact (hwait sub' hs' hf).elim
      · exact htop
      · intro _ _; exact Or.inl hpc
    cases m with
    | stop => simp only [Net.pull, Option.some.injEq] at hs; subst hs; exact key .done _ (Nat.le_succ _)
    | plain v =>
      simp only [Net.pull, unresolved, Bool.false_eq_true, if_false, Option.some.injEq] at hs; subst hs
      exact key .read _ (Nat.le_succ _)
    | fut a b =>
      simp only [Net.pull] at hs
      split at hs
      · simp only [Option.some.injEq] at hs; subst hs; exact key (.send (.fut a b)) s.pulled (Nat.le_refl _)
      · simp only [Option.some.injEq] at hs; subst hs; exact key .read _ (Nat.le_succ _)

theorem LInv.stepRead {w : Wiring} {s s' : Net} (h : Inv w s) (hl : LInv w s) {i : Nat} {nd : Node} {inp : MB}
    (hn : s.nodes[i + 1]? = some nd) (hpc : nd.pc = .read) (hb : nd.batch = []) (hm : s.mbs[i]? = some inp)
    {r : ReadOut × MB} (hg : inp.readStep 0 = some r)
    (hs : (r.1 = .waiting ∧ s' = s.setMb i r.2) ∨ r.1 = .killed ∨
          (∃ msgs, r.1 = .took msgs ∧
            if i + 1 = s.mbs.length then (s.setMb i r.2).pull (i + 1) msgs = some s'
            else s' = (s.setMb i r.2).setNode (i + 1) ({ nd with batch := msgs } : Node).advance)) : LInv w s' := by
  obtain ⟨c, hc, hok⟩ := h.capAt hm
  obtain ⟨o, mb⟩ := r
  obtain ⟨hok', hns, hcl, sub, hsub, _, heff⟩ := hok.readStep hg
  simp only at hs
  cases heff with
  | waiting s1 h1 h2 h3 h4 h5 h6 =>
    rcases hs with ⟨_, rfl⟩ | hk | ⟨msgs, hm', _⟩
    · have : { (s.setMb i mb).setNode (i + 1) nd with pulled := s.pulled } = s.setMb i mb := by
        have : (s.setMb i mb).nodes[i + 1]? = some nd := hn
        show (s.setMb i mb).setNode (i + 1) nd = s.setMb i mb
        exact setNode_self this
      rw [← this]
      apply hl.inUpdate hn hm hns ⟨sub, hsub⟩ (Nat.le_refl _)
      · intro _ _ _; exact ⟨hpc, hb⟩
      · intro _ sub0 sub' ha hb' _ _
        rw [hsub] at ha; cases ha
        rw [h4] at hb'
        rw [sub0_set0 hsub hb']
        exact ⟨by rw [h2]; simp, h1⟩
      · intro _ hr; exact Or.inl hr
    · cases hk
    · cases hm'
  | took msgs s1 h1 h2 h3 h4 h5 h6 =>
    rcases hs with ⟨hw, _⟩ | hk | ⟨msgs', hm', hs⟩
    · cases hw
    · cases hk
    · cases hm'
      have hs1 : ∀ sub', mb.subs[0]? = some sub' → sub' = s1 := by
        intro sub' hb'; rw [h4] at hb'; exact sub0_set0 hsub hb'
      have hle : sub.next + msgs.length ≤ inp.nSent := by
        have hmem : s1 ∈ mb.subs := by
          rw [h4]; exact List.mem_set (List.getElem?_eq_some_iff.mp hsub).1 _
        have := hok'.nextLe s1 hmem
        rw [h1, hns] at this; exact this
      have htop : w.lazy = true → ∀ sub0 sub', inp.subs[0]? = some sub0 → mb.subs[0]? = some sub' → sub0.flag ≠ none →
          sub0.next = inp.nSent → sub'.flag ≠ none ∧ sub'.next = sub0.next := by
        intro _ sub0 sub' ha _ _ hn0
        rw [hsub] at ha; cases ha
        omega
      have hwait : ∀ sub', mb.subs[0]? = some sub' → sub'.flag ≠ none → False := by
        intro sub' hb' hf; rw [hs1 sub' hb'] at hf; exact hf h2
      split at hs
      · exact hl.stepPull hn hpc hm ⟨sub, hsub⟩ hns hwait htop hs
      · subst hs
        have : { (s.setMb i mb).setNode (i + 1) ({ nd with batch := msgs } : Node).advance with pulled := s.pulled } =
            (s.setMb i mb).setNode (i + 1) ({ nd with batch := msgs } : Node).advance := rfl
        rw [← this]
        apply hl.inUpdate hn hm hns ⟨sub, hsub⟩ (Nat.le_refl _)
        · intro sub' hs' hf; exact (hwait sub' hs' hf).elim
        · exact htop
        · intro _ hr
          have := advance_read hr
          simp only at this
          rw [this] at h5; simp at h5

theorem LInv.stepBatch {w : Wiring} {s s' : Net} (h : Inv w s) (hl : LInv w s) {i : Nat} {nd : Node}
    (hn : s.nodes[i + 1]? = some nd) (hpc : nd.pc = .read) (hb : nd.batch ≠ [])
    (hs : if i + 1 = s.mbs.length then s.pull (i + 1) nd.batch = some s' else s' = s.setNode (i + 1) nd.advance) :
    LInv w s' := by
  have hlenN := h.lenN
  have hlenM := h.lenM
  have hjn := (List.getElem?_eq_some_iff.mp hn).1
  split at hs
  · rename_i hlast
    obtain ⟨mb, hm⟩ : ∃ mb, s.mbs[i]? = some mb := ⟨s.mbs[i]'(by omega), List.getElem?_eq_getElem _⟩
    obtain ⟨c, hc, hok⟩ := h.capAt hm
    rw [← setMb_self hm] at hs
    apply hl.stepPull hn hpc hm hok.sub0 rfl _ _ hs
    · intro sub' hs' hf
      exact hb (hl.waiting i nd mb sub' hn hm hs' hf).2
    · intro _ sub sub' h1 h2 hf _
      rw [h1] at h2; cases h2; exact ⟨hf, rfl⟩
  · rename_i hnl
    subst hs
    obtain ⟨mb, hm⟩ : ∃ mb, s.mbs[i + 1]? = some mb := ⟨s.mbs[i + 1]'(by omega), List.getElem?_eq_getElem _⟩
    rw [← setMb_self hm]
    apply hl.outUpdate hn hm (Or.inr hb) (fun sub' hs' hf => ⟨sub', hs', hf⟩)
    intro _ hr
    exact absurd (advance_read hr) hb

theorem LInv.stepHand {w : Wiring} {s : Net} (h : Inv w s) (hl : LInv w s) {j : Nat} {nd : Node} {m : Msg}
    (hn : s.nodes[j]? = some nd) (hpc : nd.pc = .send m) (hlast : j = s.mbs.length) :
    LInv w { (s.setNode j { nd with pc := .read }) with pulled := s.pulled + 1 } := by
  have hlenM := h.lenM
  have hpos := h.pos
  obtain ⟨i, rfl⟩ : ∃ i, j = i + 1 := ⟨j - 1, by omega⟩
  obtain ⟨mb, hm⟩ : ∃ mb, s.mbs[i]? = some mb := ⟨s.mbs[i]'(by omega), List.getElem?_eq_getElem _⟩
  obtain ⟨c, hc, hok⟩ := h.capAt hm
  rw [← setMb_self hm]
  apply hl.inUpdate hn hm rfl hok.sub0 (by simp only [Net.setMb]; omega)
  · intro sub' hs' hf
    have := (hl.waiting i nd mb sub' hn hm hs' hf).1
    rw [hpc] at this; cases this
  · intro _ sub sub' h1 h2 hf _
    rw [h1] at h2; cases h2; exact ⟨hf, rfl⟩
  · intro _ _
    -- the consumer has no output mailbox
    exact Or.inr (by omega)

theorem LInv.stepNode {w : Wiring} {s s' : Net} (h : Inv w s) (hl : LInv w s) {j : Nat}
    (hs : Backpressure.stepNode s j = some s') : LInv w s' := by
  unfold Backpressure.stepNode at hs
  dsimp only at hs
  split at hs
  · simp at hs
  · rename_i nd hn
    split at hs
    · -- gate
      rename_i hpc
      split at hs
      · simp at hs
      · rename_i out hm
        split at hs
        · simp at hs
        · rename_i ok mb hg
          simp only [Option.some.injEq] at hs
          exact hl.stepGate h hn hpc hm hg hs.symm
    · -- read
      rename_i hpc
      split at hs
      · rename_i hj0; subst hj0
        split at hs
        · simp only [Option.some.injEq] at hs; subst hs
          exact hl.fetch h (r := s.remaining) (nd' := { nd with pc := .close }) hn hpc (by simp)
        · rename_i r hr
          simp only [Option.some.injEq] at hs; subst hs
          exact hl.fetch h (r := r) (nd' := { nd with pc := .send (.plain s.emitted) }) hn hpc (by simp)
      · rename_i hj0
        obtain ⟨i, rfl⟩ : ∃ i, j = i + 1 := ⟨j - 1, by omega⟩
        split at hs
        · rename_i m r hb
          apply hl.stepBatch h hn hpc (by rw [hb]; simp)
          split at hs
          · rename_i hlast; rw [if_pos hlast]; exact hs
          · rename_i hlast; rw [if_neg hlast]; simp only [Option.some.injEq] at hs; exact hs.symm
        · rename_i hb
          simp only [Nat.add_sub_cancel] at hs
          split at hs
          · simp at hs
          · rename_i inp hm
            split at hs
            · simp at hs
            · rename_i mb hg
              simp only [Option.some.injEq] at hs
              exact hl.stepRead h hn hpc hb hm hg (Or.inl ⟨rfl, hs.symm⟩)
            · rename_i mb hg
              exact hl.stepRead h hn hpc hb hm hg (Or.inr (Or.inl rfl))
            · rename_i msgs mb hg
              apply hl.stepRead h hn hpc hb hm hg (Or.inr (Or.inr ⟨msgs, rfl, ?_⟩))
              simp only
              split at hs
              · rename_i hlast; rw [if_pos hlast]; exact hs
              · rename_i hlast; rw [if_neg hlast]; simp only [Option.some.injEq] at hs; exact hs.symm
    · -- send
      rename_i m hpc
      split at hs
      · simp at hs
      · split at hs
        · rename_i hlast
          simp only [Option.some.injEq] at hs; subst hs
          exact hl.stepHand h hn hpc hlast
        · split at hs
          · simp at hs
          · rename_i out hm
            split at hs
            · simp at hs
            · rename_i n mb hg
              simp only [Option.some.injEq] at hs
              exact hl.stepSend h hn (Or.inl ⟨m, hpc⟩) hm hg (Or.inl ⟨n, rfl, Or.inl ⟨⟨m, hpc⟩, hs.symm⟩⟩)
            · rename_i mb hg
              exact hl.stepSend h hn (Or.inl ⟨m, hpc⟩) hm hg (Or.inr (Or.inr (Or.inl rfl)))
            · rename_i n mb hg
              simp only [Option.some.injEq] at hs
              exact hl.stepSend h hn (Or.inl ⟨m, hpc⟩) hm hg (Or.inr (Or.inl ⟨n, rfl, hs.symm⟩))
            · rename_i e mb hg
              exact hl.stepSend h hn (Or.inl ⟨m, hpc⟩) hm hg (Or.inr (Or.inr (Or.inr ⟨e, rfl⟩)))
    · -- close
      rename_i hpc
      split at hs
      · simp at hs
      · rename_i out hm
        split at hs
        · simp at hs
        · rename_i n mb hg
          simp only [Option.some.injEq] at hs
          exact hl.stepSend h (m := .stop) hn (Or.inr hpc) hm hg (Or.inl ⟨n, rfl, Or.inr ⟨hpc, hs.symm⟩⟩)
        · rename_i mb hg
          exact hl.stepSend h (m := .stop) hn (Or.inr hpc) hm hg (Or.inr (Or.inr (Or.inl rfl)))
        · rename_i n mb hg
          simp only [Option.some.injEq] at hs
          exact hl.stepSend h (m := .stop) hn (Or.inr hpc) hm hg (Or.inr (Or.inl ⟨n, rfl, hs.symm⟩))
        · rename_i e mb hg
          exact hl.stepSend h (m := .stop) hn (Or.inr hpc) hm hg (Or.inr (Or.inr (Or.inr ⟨e, rfl⟩)))
    · simp at hs
    · simp at hs

theorem LInv.stepSide {w : Wiring} {s s' : Net} (h : Inv w s) (hl : LInv w s) {i : Nat}
    (hs : Backpressure.stepSide s i = some s') : LInv w s' := by
  unfold Backpressure.stepSide at hs
  split at hs
  · simp at hs
  · rename_i sd hsd
    have hsub1 : 1 ≤ sd.sub := h.sidesOk sd (List.mem_of_getElem? hsd)
    split at hs
    · simp at hs
    · split at hs
      · simp at hs
      · rename_i inp hm
        obtain ⟨c, hc, hok⟩ := h.capAt hm
        split at hs
        · simp at hs
        all_goals
          rename_i hg
          obtain ⟨hok', hns, hcl, sub, hsub, _, heff⟩ := hok.readStep hg
          simp only [Option.some.injEq] at hs
          subst hs
        · cases heff with
          | waiting s1 h1 h2 h3 h4 h5 h6 =>
            apply hl.mbUpdate (sides' := s.sides) hm hns
            intro sub' hs'
            rw [h4] at hs'
            exact ⟨sub', sub0_set_succ hsub1 hs', rfl, Iff.rfl⟩
        · cases heff
        · cases heff with
          | took msgs s1 h1 h2 h3 h4 h5 h6 =>
            apply hl.mbUpdate hm hns
            intro sub' hs'
            rw [h4] at hs'
            exact ⟨sub', sub0_set_succ hsub1 hs', rfl, Iff.rfl⟩

theorem LInv.step {w : Wiring} {s s' : Net} (h : Inv w s) (hl : LInv w s) {t : Tid}
    (hs : Backpressure.step s t = some s') : LInv w s' := by
  cases t with
  | node j => exact hl.stepNode h hs
  | side i => exact hl.stepSide h hs
  | resolve id =>
    simp only [Backpressure.step, stepResolve] at hs
    split at hs
    · simp only [Option.some.injEq] at hs; subst hs
      exact ⟨hl.waiting, hl.atTop, hl.one⟩
    · simp at hs

theorem LInv.init (w : Wiring) (n : Nat) : LInv w (wire w n) := by
  refine ⟨?_, ?_, fun _ => by simp [wire]⟩
  · intro j nd inp sub _ hi hs hf
    obtain ⟨_, _, rfl⟩ := wire_mbs hi
    simp only [mkMb, List.getElem?_cons_zero, Option.some.injEq] at hs
    subst hs
    simp at hf
  · intro hlz j nd out sub hn ho hs hr
    obtain ⟨c, hc, rfl⟩ := wire_mbs ho
    -- a lazy sender starts at its gate, not in `read`
    simp only [wire, List.getElem?_map, Option.map_eq_some_iff] at hn
    obtain ⟨a, ha, rfl⟩ := hn
    obtain ⟨hlt, rfl⟩ := List.getElem?_eq_some_iff.mp ha
    simp only [List.length_range] at hlt
    simp only [List.getElem_range] at hr
    have hjl : j < w.caps.length := (List.getElem?_eq_some_iff.mp hc).1
    rw [if_neg (by omega), hlz] at hr
    simp at hr

theorem LInv.reachable {w : Wiring} {n : Nat} {s : Net} (hpos : 0 < w.caps.length) (h : Reachable w n s) :
    Inv w s ∧ LInv w s := by
  induction h with
  | init => exact ⟨Inv.init w n hpos, LInv.init w n⟩
  | step _ hs ih => exact ⟨ih.1.step hs, ih.2.step ih.1 hs⟩

/-- THE GATE at every mailbox of a lazy chain: a sender that is advancing its source (it is inside `next(iterable)`)
has a driving subscriber waiting for a number that is not in the heap -/
theorem LInv.gate {w : Wiring} {s : Net} (h : Inv w s) (hl : LInv w s) (hlz : w.lazy = true)
    {j : Nat} {nd : Node} {out : MB} (hn : s.nodes[j]? = some nd) (hm : s.mbs[j]? = some out) (hr : nd.pc = .read) :
    ∃ sub ∈ out.subs, sub.canDrive = true ∧ ∃ x, sub.waitingFor = some x ∧ hasNum out.heap x = false := by
  obtain ⟨c, hc, hok⟩ := h.capAt hm
  obtain ⟨sub, r, hsubs, hd, _⟩ := hok.drive
  have hs0 : out.subs[0]? = some sub := by simp [hsubs]
  obtain ⟨hf, hnx⟩ := hl.atTop hlz j nd out sub hn hm hs0 hr
  have hmem : sub ∈ out.subs := by simp [hsubs]
  refine ⟨sub, hmem, hd, sub.next, ?_, ?_⟩
  · have := hok.waitFor sub hmem; simpa [hf] using this
  · cases hh : hasNum out.heap sub.next with
    | false => rfl
    | true => have := hok.below _ hh; omega

theorem pull_emitted {s s' : Net} {j : Nat} {b : List Msg} (h : s.pull j b = some s') : s'.emitted = s.emitted := by
  unfold Net.pull at h
  repeat' split at h
  all_goals first
    | (simp at h; done)
    | (simp only [Option.some.injEq] at h; subst h; simp; done)

/-- only the source in `read` advances the source -/
theorem step_emitted {s s' : Net} {t : Tid} (h : Backpressure.step s t = some s') (he : s'.emitted ≠ s.emitted) :
    t = .node 0 ∧ ∃ nd, s.nodes[0]? = some nd ∧ nd.pc = .read := by
  cases t with
  | resolve id =>
    exfalso; apply he
    simp only [Backpressure.step, stepResolve] at h
    split at h
    · simp only [Option.some.injEq] at h; subst h; rfl
    · simp at h
  | side i =>
    exfalso; apply he
    simp only [Backpressure.step] at h
    unfold stepSide at h
    repeat' split at h
    all_goals first
      | (simp at h; done)
      | (simp only [Option.some.injEq] at h; subst h; simp [Net.setMb]; done)
  | node j =>
    simp only [Backpressure.step] at h
    unfold stepNode at h
    dsimp only at h
    split at h
    · simp at h
    · rename_i nd hn
      split at h
      · exfalso; apply he
        repeat' split at h
        all_goals first
          | (simp at h; done)
          | (simp only [Option.some.injEq] at h; subst h; simp; done)
      · rename_i hpc
        split at h
        · rename_i hj0; subst hj0
          exact ⟨rfl, nd, hn, hpc⟩
        · exfalso; apply he
          repeat' split at h
          all_goals first
            | (simp at h; done)
            | (simp only [Option.some.injEq] at h; subst h; simp; done)
            | exact (pull_emitted h).trans (by simp)
      all_goals
        exfalso; apply he
        repeat' split at h
        all_goals first
          | (simp at h; done)
          | (simp only [Option.some.injEq] at h; subst h; simp; done)

end Strax.Backpressure
