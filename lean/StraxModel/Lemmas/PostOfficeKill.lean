import StraxModel.Lemmas.PostOffice
/-
  Round 5 (C06): the converse half of `kill_spies` — WHICH exception the plain loop raises and exactly when.
  `closeAll` / `killTopics` raise nothing iff every spy is open and able to close; what they raise is either
  `alreadyClosed` (some spy was closed before: the D7 shape) or the injected exception of a spy whose `close` fails.
-/
namespace Strax.PostOffice
open Strax

theorem closeAll_none_healthy {spies : List Spy} (h : (closeAll spies).2 = none) :
    ∀ s ∈ spies, s.closed = false ∧ s.failClose = false := by
  induction spies with
  | nil => simp
  | cons a r ih =>
    simp only [closeAll] at h
    cases hc : a.closed with
    | true => simp [Spy.close, hc] at h
    | false =>
      cases hf : a.failClose with
      | true => simp [Spy.close, hc, hf] at h
      | false =>
        simp only [Spy.close, hc, hf, Bool.false_eq_true, if_false] at h
        intro s hs
        rcases List.mem_cons.mp hs with rfl | hs
        · exact ⟨hc, hf⟩
        · exact ih h s hs

/-- the exception raised by the closing loop: `alreadyClosed` needs a spy that was closed before; anything else is the
injected exception of an OPEN spy whose `close` fails -/
theorem closeAll_some {spies : List Spy} {e : Exc} (h : (closeAll spies).2 = some e) :
    (e = .alreadyClosed ∧ ∃ s ∈ spies, s.closed = true) ∨
    (∃ s ∈ spies, s.closed = false ∧ s.failClose = true ∧ e = .inj s.exc) := by
  induction spies with
  | nil => simp [closeAll] at h
  | cons a r ih =>
    simp only [closeAll] at h
    cases hc : a.closed with
    | true =>
      simp only [Spy.close, hc, if_true, Option.some.injEq] at h
      exact Or.inl ⟨h.symm, a, by simp, hc⟩
    | false =>
      cases hf : a.failClose with
      | true =>
        simp only [Spy.close, hc, hf, Bool.false_eq_true, if_false, if_true, Option.some.injEq] at h
        exact Or.inr ⟨a, by simp, hc, hf, h.symm⟩
      | false =>
        simp only [Spy.close, hc, hf, Bool.false_eq_true, if_false] at h
        rcases ih h with ⟨he, s, hs, hsc⟩ | ⟨s, hs, h1, h2, h3⟩
        · exact Or.inl ⟨he, s, List.mem_cons_of_mem _ hs, hsc⟩
        · exact Or.inr ⟨s, List.mem_cons_of_mem _ hs, h1, h2, h3⟩

theorem killTopics_none_healthy {ts : List Topic} (h : (killTopics ts).2 = none) :
    ∀ t ∈ ts, ∀ s ∈ t.spies, s.closed = false ∧ s.failClose = false := by
  induction ts with
  | nil => simp
  | cons a r ih =>
    simp only [killTopics] at h
    cases hc : closeAll a.spies with
    | mk sp e =>
      cases e with
      | some e => simp [hc] at h
      | none =>
        simp only [hc] at h
        intro t ht
        rcases List.mem_cons.mp ht with rfl | ht
        · exact closeAll_none_healthy (by rw [hc])
        · exact ih h t ht

theorem killTopics_some {ts : List Topic} {e : Exc} (h : (killTopics ts).2 = some e) :
    (e = .alreadyClosed ∧ ∃ t ∈ ts, ∃ s ∈ t.spies, s.closed = true) ∨
    (∃ t ∈ ts, ∃ s ∈ t.spies, s.closed = false ∧ s.failClose = true ∧ e = .inj s.exc) := by
  induction ts with
  | nil => simp [killTopics] at h
  | cons a r ih =>
    simp only [killTopics] at h
    cases hc : closeAll a.spies with
    | mk sp e' =>
      cases e' with
      | some e' =>
        simp only [hc, Option.some.injEq] at h
        subst h
        rcases closeAll_some (spies := a.spies) (by rw [hc]) with ⟨he, s, hs, hsc⟩ | ⟨s, hs, h1, h2, h3⟩
        · exact Or.inl ⟨he, a, by simp, s, hs, hsc⟩
        · exact Or.inr ⟨a, by simp, s, hs, h1, h2, h3⟩
      | none =>
        simp only [hc] at h
        rcases ih h with ⟨he, t, ht, s, hs, hsc⟩ | ⟨t, ht, s, hs, h1, h2, h3⟩
        · exact Or.inl ⟨he, t, List.mem_cons_of_mem _ ht, s, hs, hsc⟩
        · exact Or.inr ⟨t, List.mem_cons_of_mem _ ht, s, hs, h1, h2, h3⟩

/-- the exception `kill_spies` raises, as a projection of `killTopics` -/
theorem killSpies_snd (po : PO) : po.killSpies.2 = (killTopics po.topics).2 := by
  unfold PO.killSpies
  split <;> rename_i h <;> simp [h]

/-- the outcome of the `except Exception: kill_spies(); raise` handler in terms of what `kill_spies` raises -/
theorem epilogue_snd (po : PO) (e : Exc) :
    (po.epilogue e).2 = match (killTopics po.topics).2 with
      | some e' => .raised e' (some e)
      | none => .raised e none := by
  unfold PO.epilogue PO.killSpies
  cases h : killTopics po.topics with
  | mk ts x => cases x <;> rfl

end Strax.PostOffice
