import StraxModel.Lemmas.AlignRun
/-
  Theory T4 "Align", part 4: totality of `Plugin.iter` from STRUCTURAL hypotheses on the input
  (Props/C08.lean `converges_no_straddle`): if no row of any dependency straddles a chunk end of
  any dependency, no early split ever happens, the re-trim loop never runs, and dependencies of one
  kind (interval-equal rows) are merged successfully.

  Part 1: totality of the loop and of the run, generic in a state predicate `J` that guarantees
          a successful iteration and is preserved by the steps.
  Part 2: the no-straddle predicate, exact splits, same-kind inputs of equal length.
-/
namespace Strax.Align
open Strax

/-! ## Part 1: generic totality -/

/-- what a state predicate must provide to make the loop total (for a fixed pass budget `n`) -/
structure Drives (rid : String) (T1 : Int) (n : Nat) (strict : Bool) (J : List DepState → Prop) : Prop where
  body : ∀ (z : Zip DepState) (T : Int), LoopInv rid T T1 z.toList → J z.toList → ∃ r, iterBody n strict z = .ok r
  step : ∀ (z z' : Zip DepState) (T : Int) (call : Call), LoopInv rid T T1 z.toList → J z.toList →
    iterBody n strict z = .ok (call, z') → J z'.toList
  fetch : ∀ (pre post : List DepState) (d : Dep) (c : Chunk) (rest : List Chunk) (buf buf1 : Chunk) (T : Int),
    LoopInv rid T T1 (pre ++ ⟨d, c :: rest, buf⟩ :: post) → J (pre ++ ⟨d, c :: rest, buf⟩ :: post) →
    concatenate [buf, c] false = .ok buf1 → J (Zip.toList ⟨pre, ⟨d, rest, buf1⟩, post⟩)

theorem iterLoop_total_of {rid : String} {n : Nat} {strict : Bool} {T1 : Int} {J : List DepState → Prop}
    (D : Drives rid T1 n strict J) :
    ∀ {rem : List Chunk} {pre : List DepState} {d : Dep} {buf : Chunk} {post : List DepState} {T : Int},
      LoopInv rid T T1 (pre ++ ⟨d, rem, buf⟩ :: post) → J (pre ++ ⟨d, rem, buf⟩ :: post) →
        ∃ r, iterLoop n strict rem pre d buf post = .ok r
  | [], pre, d, buf, post, T, _, _ => ⟨_, by unfold iterLoop; rfl⟩
  | c :: rest, pre, d, buf, post, T, hi, hJ => by
    have hmem : (⟨d, c :: rest, buf⟩ : DepState) ∈ pre ++ ⟨d, c :: rest, buf⟩ :: post := by simp
    obtain ⟨hl, _⟩ := hi.good _ hmem
    obtain ⟨g1, a1, a2, a3, hl'⟩ := law_cons_cons.1 hl
    obtain ⟨buf1, hb⟩ := concat_total g1 (law_head hl') a1 a2 a3
    obtain ⟨hz, _, _⟩ := fetchPm_inv hi hb
    have hJz := D.fetch pre post d c rest buf buf1 T hi hJ hb
    obtain ⟨⟨call, z'⟩, hbody⟩ := D.body ⟨pre, ⟨d, rest, buf1⟩, post⟩ T hz hJz
    obtain ⟨hz', _, _, _, c4⟩ := iterBody_inv hz hbody
    have hJz' := D.step _ z' T call hz hJz hbody
    have hpm : (⟨z'.pm.dep, rest, z'.pm.buf⟩ : DepState) = z'.pm := by
      have := c4; simp only at this; rw [← this]
    obtain ⟨⟨calls, fin⟩, hrec⟩ := iterLoop_total_of D (rem := rest) (pre := z'.pre) (d := z'.pm.dep)
      (buf := z'.pm.buf) (post := z'.post) (T := call.stop) (by rw [hpm]; exact hz') (by rw [hpm]; exact hJz')
    exact ⟨_, by unfold iterLoop; rw [hb]; dsimp only; rw [hbody]; dsimp only; rw [hrec]⟩

/-- totality of the whole run from a driving predicate that holds of the initial states -/
theorem iterRunP_total_of {rid : String} {T0 T1 : Int} {n : Nat} {deps : List Dep} {chunks : List (List Chunk)}
    {strict : Bool} {J : List DepState → Prop} (D : Drives rid T1 n strict J)
    (hlen : chunks.length = deps.length) (hdeps : deps ≠ [])
    (hv : validInputsB rid chunks = true) (hT : StartAt T0 chunks) (he : endAtB T1 chunks = true)
    (hJ0 : ∀ sts, mapE initFetch (deps.zip chunks) = .ok sts → J sts) :
    ∃ r, iterRunP n deps chunks strict = .ok r := by
  obtain ⟨sts, hinit⟩ := initFetch_total (deps := deps) (chunks := chunks) (by
    intro cs hcs
    obtain ⟨c, rest, hc, _⟩ := startAt_mem hT cs hcs
    rw [hc]; simp)
  obtain ⟨_, i2, _⟩ := initFetch_ok hinit
  have hfst : (deps.zip chunks).map (fun p => p.1) = deps := List.map_fst_zip (by omega)
  have hsne : sts ≠ [] := by
    intro hnil
    rw [hnil, hfst] at i2
    exact hdeps i2.symm
  obtain ⟨z, hz⟩ := choosePm_total hsne
  have hzl : z.toList = sts := by simpa using choosePm_ok hz
  obtain ⟨hg, hT0⟩ := init_good hv hT hinit
  have hends := init_ends he hinit
  have hJ := hJ0 sts hinit
  rw [← hzl] at hg hT0 hends hJ
  have hi : LoopInv rid T0 T1 z.toList := ⟨hg, hT0, hends⟩
  obtain ⟨⟨call, z'⟩, hbody⟩ := D.body z T0 hi hJ
  obtain ⟨hz', _, _, _, c4⟩ := iterBody_inv hi hbody
  have hJz' := D.step z z' T0 call hi hJ hbody
  obtain ⟨⟨calls, fin⟩, hloop⟩ := iterLoop_total_of D (rem := z'.pm.rem) (pre := z'.pre)
    (d := z'.pm.dep) (buf := z'.pm.buf) (post := z'.post) (T := call.stop)
    (by rw [DepState.eta]; exact hz') (by rw [DepState.eta]; exact hJz')
  obtain ⟨_, _, i3⟩ := iterLoop_good (T := call.stop) (by rw [DepState.eta]; exact hz') (by
    intro hrest
    have hzpm : z.pm.rem = [] := by rw [← c4]; exact hrest
    obtain ⟨f1, f2⟩ := iterBody_final hg hT0 hends hzpm hbody
    refine ⟨f1, ?_⟩
    have : (⟨z'.pm.dep, [], z'.pm.buf⟩ : DepState) = z'.pm := by rw [← hrest]
    rw [this]; exact f2) hloop
  obtain ⟨left, hfin, _⟩ := finish_total (strict := strict) i3
  refine ⟨⟨call :: calls, left⟩, ?_⟩
  unfold iterRunP
  rw [hinit]; dsimp only
  rw [hz]; dsimp only
  unfold iterFrom
  rw [hbody]; dsimp only
  rw [hloop]; dsimp only
  rw [hfin]

/-! ## Part 2: no row straddles a chunk end -/

/-- `Chunk.merge` of well-formed un-annotated chunks that agree on kind, run, row count and range:
succeeds, and the merged chunk has the range and the default run annotation that `do_compute`
compares afterwards.  (Variant of C07's `merge_total'` with the result's fields exposed; same proof.) -/
theorem merge_total_fields {c0 : Chunk} {rest : List Chunk} {dt rid : String}
    (hwf : ∀ c ∈ c0 :: rest, c.wf = true)
    (hagree : ∀ c ∈ rest, c.kind = c0.kind ∧ c.runId = c0.runId ∧ c.rows.length = c0.rows.length ∧
      c.start = c0.start ∧ c.stop = c0.stop ∧ c.subruns = c0.subruns ∧ c.superrun = c0.superrun)
    (hrid : c0.runId = some rid) (hsup : c0.superrun = [⟨rid, c0.start, c0.stop⟩])
    (hsub : c0.subruns = none) :
    ∃ c, mergeChunks (c0 :: rest) dt = .ok c ∧ c.start = c0.start ∧ c.stop = c0.stop ∧
      c.superrun = [⟨rid, c0.start, c0.stop⟩] ∧ c.subruns = none := by
  cases rest with
  | nil => exact ⟨c0, rfl, rfl, rfl, hsup, hsub⟩
  | cons c1 rest' =>
    rw [mergeChunks_eq]
    have hk : allEq ((c0 :: c1 :: rest').map (·.kind)) = true := by
      rw [allEq_map_iff]; intro x hx
      simp only [List.mem_cons] at hx
      rcases hx with rfl | hx
      · rfl
      · exact (hagree x (by simpa using hx)).1
    have hr : allEq ((c0 :: c1 :: rest').map (·.runId)) = true := by
      rw [allEq_map_iff]; intro x hx
      simp only [List.mem_cons] at hx
      rcases hx with rfl | hx
      · rfl
      · exact (hagree x (by simpa using hx)).2.1
    have hl : allEq ((c0 :: c1 :: rest').map (·.rows.length)) = true := by
      rw [allEq_map_iff]; intro x hx
      simp only [List.mem_cons] at hx
      rcases hx with rfl | hx
      · rfl
      · exact (hagree x (by simpa using hx)).2.2.1
    have hrg : allEq ((c0 :: c1 :: rest').map (fun c => (c.start, c.stop))) = true := by
      rw [allEq_map_iff]; intro x hx
      simp only [List.mem_cons] at hx
      rcases hx with rfl | hx
      · rfl
      · have := hagree x (by simpa using hx)
        simp [this.2.2.2.1, this.2.2.2.2.1]
    simp only [hk, hr, hl, hrg, Bool.not_true, Bool.false_eq_true, if_false]
    -- run annotations
    have hsubs : (c0 :: c1 :: rest').map (·.subruns) = List.replicate (rest'.length + 1 + 1) c0.subruns := by
      have := eq_replicate_of_all (l := (c0 :: c1 :: rest').map (·.subruns)) (a := c0.subruns) (by
        intro x hx
        simp only [List.mem_map] at hx
        obtain ⟨y, hy, rfl⟩ := hx
        simp only [List.mem_cons] at hy
        rcases hy with rfl | hy
        · rfl
        · exact (hagree y (by simpa using hy)).2.2.2.2.2.1)
      simpa using this
    have hsups : (c0 :: c1 :: rest').map (fun c => some c.superrun)
        = List.replicate (rest'.length + 1 + 1) (some [⟨rid, c0.start, c0.stop⟩]) := by
      have := eq_replicate_of_all (l := (c0 :: c1 :: rest').map (fun c => some c.superrun))
        (a := some [⟨rid, c0.start, c0.stop⟩]) (by
        intro x hx
        simp only [List.mem_map] at hx
        obtain ⟨y, hy, rfl⟩ := hx
        simp only [List.mem_cons] at hy
        rcases hy with rfl | hy
        · rw [hsup]
        · rw [(hagree y (by simpa using hy)).2.2.2.2.2.2, hsup])
      simpa using this
    have hmsup : mergeSuperrun (c0 :: c1 :: rest') true = .ok [⟨rid, c0.start, c0.stop⟩] := by
      unfold mergeSuperrun
      rw [hsups, collectRuns_replicate _ (by simp), mergableCheck_repl]
    have hsubeq : mergeSubruns (c0 :: c1 :: rest') true = .ok none := by
      unfold mergeSubruns
      rw [hsubs, hsub, collectRuns_nones]
      rfl
    simp only [hsubeq, hmsup, bind, Except.bind]
    obtain ⟨h0, hse, -, -, -⟩ := (Chunk.wf_iff c0).1 (hwf c0 (by simp))
    -- rows of the merged chunk carry the intervals of the last chunk, which is well-formed
    obtain ⟨cl, hcl⟩ : ∃ cl, (c0 :: c1 :: rest').getLast? = some cl := by
      cases hx : (c0 :: c1 :: rest').getLast? with
      | none => simp at hx
      | some cl => exact ⟨cl, rfl⟩
    have hclm : cl ∈ c0 :: c1 :: rest' := List.mem_of_getLast? hcl
    obtain ⟨-, -, -, -, hincl⟩ := (Chunk.wf_iff cl).1 (hwf cl hclm)
    have hclrange : cl.start = c0.start ∧ cl.stop = c0.stop := by
      simp only [List.mem_cons] at hclm
      rcases hclm with rfl | hclm
      · exact ⟨rfl, rfl⟩
      · have := hagree cl (by simpa using hclm)
        exact ⟨this.2.2.2.1, this.2.2.2.2.1⟩
    rw [hcl]
    simp only [Option.getD_some]
    rw [hrid]
    have hin : ∀ x ∈ zipRows c0.rows cl.rows, c0.start ≤ x.time ∧ x.endt ≤ c0.stop := by
      intro x hx
      obtain ⟨y, hy, e1, e2⟩ := mem_zipRows hx
      have := hincl y hy
      omega
    exact ⟨_, mkChunk_ann h0 hse hin (by simp) (Or.inr rfl), rfl, rfl, rfl, rfl⟩


/-! ### chunk-level: kinds are kept, a split at a time no row straddles is exact -/

theorem split_kind {c c1 c2 : Chunk} {t : Int} {early : Bool} (hg : c.good = true)
    (h : c.split t early = .ok (c1, c2)) : c1.kind = c.kind ∧ c2.kind = c.kind := by
  obtain ⟨rid, t', _, _, _, _, e1, e2, _⟩ := split_good hg h
  constructor
  · rw [e1]
  · rw [e2]

theorem concat_kind {a b c : Chunk} (ha : a.good = true) (hb : b.good = true)
    (hadj : a.stop = b.start) (hty : a.dataType = b.dataType) (hrun : a.runId = b.runId)
    (h : concatenate [a, b] false = .ok c) : c.kind = a.kind := by
  obtain ⟨rid, _, hok, _⟩ := concat_good2 ha hb hadj hty hrun
  rw [hok] at h
  injection h with h
  subst h
  rfl

/-- an early split at a time inside the chunk that no row straddles does not move -/
theorem split_exact {c c1 c2 : Chunk} {t : Int} (hg : c.good = true) (hst : c.start ≤ t) (hts : t ≤ c.stop)
    (hno : ∀ r ∈ c.rows, ¬ r.straddles t) (h : c.split t true = .ok (c1, c2)) : c1.stop = t := by
  have hg' := hg
  simp only [Chunk.good, Bool.and_eq_true] at hg'
  obtain ⟨h0, hse, hs, hpos, hin⟩ := (Chunk.wf_iff c).1 hg'.1
  obtain ⟨d1, d2, t', hv, h1, _⟩ := Chunk.split_ok_inv h
  obtain ⟨-, -, -, -, f1e, -, -⟩ := mkChunk_fields h1
  obtain ⟨_, hst', _, _, _⟩ := splitData_wf hg'.1 hv
  have hclamp : max (min t c.stop) c.start = t := by omega
  rw [f1e]
  have hm : max c.start t' = t' := by omega
  rw [hm]
  rcases splitData_cases hv with ⟨-, -, -, e⟩ | ⟨-, -, -, e⟩ | ⟨-, -, hsa⟩ | hbad
  · rw [e, hclamp]
  · rw [e, hclamp]
  · rw [hclamp] at hsa
    have hle := splitArray_time_le hsa
    by_cases heq : t' = t
    · exact heq
    · have hnn : ∀ r ∈ c.rows, 0 ≤ r.time := by intro r hr; have := (hin r hr).1; omega
      obtain ⟨x, hx, hxs⟩ := splitArray_early_chain hpos hnn hsa t (by omega) (Int.le_refl _)
      exact absurd hxs (hno x hx)
  · omega

/-- rows of the chunks after `c` in a law-abiding stream start at or after the end of `c` -/
theorem law_rows_after : ∀ {l : List Chunk} {c : Chunk}, Law (c :: l) → ∀ r ∈ allRows l, c.stop ≤ r.time
  | [], _, _, r, hr => by simp [allRows] at hr
  | d :: l, c, h, r, hr => by
    obtain ⟨_, a1, _, _, hl'⟩ := law_cons_cons.1 h
    simp only [allRows, List.flatMap_cons, List.mem_append] at hr
    rcases hr with hr | hr
    · have := (good_rows_in (law_head hl') r hr).1
      omega
    · have := law_rows_after hl' r hr
      have := (good_range (law_head hl')).2
      omega

/-! ### lists: the prefix before `t` -/

theorem takeWhile_dropWhile_of_split {α : Type} {p : α → Bool} : ∀ {a b : List α},
    (∀ x ∈ a, p x = true) → (∀ x ∈ b, p x = false) → (a ++ b).takeWhile p = a ∧ (a ++ b).dropWhile p = b
  | [], b, _, hb => by
    cases b with
    | nil => simp
    | cons y ys => simp [hb y (by simp)]
  | x :: a, b, ha, hb => by
    obtain ⟨i1, i2⟩ := takeWhile_dropWhile_of_split (a := a) (b := b)
      (fun y hy => ha y (List.mem_cons_of_mem _ hy)) hb
    simp [ha x (by simp), i1, i2]

/-- interval-equal row lists have interval-equal parts before and after `t` -/
theorem iv_takeWhile_dropWhile (t : Int) : ∀ {l1 l2 : List Row}, l1.map iv = l2.map iv →
    (l1.takeWhile (fun r => decide (r.time < t))).length = (l2.takeWhile (fun r => decide (r.time < t))).length ∧
    (l1.dropWhile (fun r => decide (r.time < t))).map iv = (l2.dropWhile (fun r => decide (r.time < t))).map iv
  | [], [], _ => by simp
  | [], _ :: _, h => by simp at h
  | _ :: _, [], h => by simp at h
  | x :: l1, y :: l2, h => by
    simp only [List.map_cons, List.cons.injEq, iv, Prod.mk.injEq] at h
    obtain ⟨⟨h1, h2⟩, h3⟩ := h
    obtain ⟨i1, i2⟩ := iv_takeWhile_dropWhile t (l1 := l1) (l2 := l2) h3
    by_cases hx : x.time < t
    · have hy : y.time < t := by omega
      simp [List.takeWhile, List.dropWhile, hx, hy, i1, i2]
    · have hy : ¬ y.time < t := by omega
      simp [List.takeWhile, List.dropWhile, hy, iv, h1, h2, h3]

/-! ### the invariants of the no-straddle run -/

/-- buffer end and ends of the unfetched chunks are among the chunk ends `B`, and no row in
flight straddles any of them -/
def NS (B : List Int) (s : DepState) : Prop :=
  s.buf.stop ∈ B ∧ (∀ c ∈ s.rem, c.stop ∈ B) ∧ ∀ r ∈ content s, ∀ b ∈ B, ¬ r.straddles b

/-- the chunks of a dependency carry its data kind -/
def KF (s : DepState) : Prop := s.buf.kind = s.dep.kind ∧ ∀ c ∈ s.rem, c.kind = s.dep.kind

/-- dependencies of one kind have interval-equal rows in flight -/
def KA (sts : List DepState) : Prop :=
  ∀ s ∈ sts, ∀ s' ∈ sts, s.dep.kind = s'.dep.kind → (content s).map iv = (content s').map iv

/-- the part of a row list that starts before `t` -/
def before (t : Int) (l : List Row) : List Row := l.takeWhile (fun r => decide (r.time < t))
def fromOn (t : Int) (l : List Row) : List Row := l.dropWhile (fun r => decide (r.time < t))

theorem fetchUntil_ns {B : List Int} {t : Int} {k : String} :
    ∀ {rem : List Chunk} {buf : Chunk} {rem' : List Chunk} {buf' : Chunk}, Law (buf :: rem) →
      buf.stop ∈ B → (∀ c ∈ rem, c.stop ∈ B) → buf.kind = k → (∀ c ∈ rem, c.kind = k) →
      fetchUntil t rem buf = .ok (rem', buf') →
        buf'.stop ∈ B ∧ (∀ c ∈ rem', c.stop ∈ B) ∧ buf'.kind = k ∧ (∀ c ∈ rem', c.kind = k)
  | [], buf, rem', buf', _, hb, hr, hk, hkr, h => by
    unfold fetchUntil at h
    split at h
    · cases h
    · injection h with h; injection h with h1 h2; subst h1 h2
      exact ⟨hb, hr, hk, hkr⟩
  | c :: rest, buf, rem', buf', hl, hb, hr, hk, hkr, h => by
    unfold fetchUntil at h
    split at h
    · split at h
      · cases h
      · rename_i b hbc
        obtain ⟨g1, a1, a2, a3, hl'⟩ := law_cons_cons.1 hl
        obtain ⟨cg, _, ce, _, ct, cr⟩ := concat_good_of_ok g1 (law_head hl') a1 a2 a3 hbc
        have ck := concat_kind g1 (law_head hl') a1 a2 a3 hbc
        have hlb : Law (b :: rest) := law_replace_head hl' cg ce (by rw [ct, a2]) (by rw [cr, a3])
        exact fetchUntil_ns hlb (by rw [ce]; exact hr c (by simp))
          (fun x hx => hr x (List.mem_cons_of_mem _ hx)) (by rw [ck]; exact hk)
          (fun x hx => hkr x (List.mem_cons_of_mem _ hx)) h
    · injection h with h; injection h with h1 h2; subst h1 h2
      exact ⟨hb, hr, hk, hkr⟩

/-- `prepDep` when no row in flight straddles `t ∈ B`: the input ends exactly at `t` and consists
of the rows in flight that start before `t` -/
theorem prepDep_exact {rid : String} {B : List Int} {t : Int} {fl : Bool} {s s' : DepState} {inp : Chunk}
    (hs : GoodState rid s) (hns : NS B s) (hkf : KF s) (htB : t ∈ B) (hst : s.buf.start ≤ t)
    (hpm : fl = true → s.buf.stop = t) (h : prepDep t fl s = .ok (inp, s')) :
    inp.stop = t ∧ inp.rows = before t (content s) ∧ content s' = fromOn t (content s) ∧
      NS B s' ∧ KF s' ∧ inp.kind = s.dep.kind ∧ s'.dep = s.dep := by
  have hprev := prepDep_ok h
  have hgood := prepDep_good hs hpm h
  unfold prepDep at h
  split at h
  · cases h
  · rename_i rem buf hf
    split at h
    · cases h
    · rename_i a b hsp
      injection h with h; injection h with h1 h2; subst h1 h2
      have hfu : Law (buf :: rem) ∧ buf.start = s.buf.start ∧ t ≤ buf.stop ∧
          buf.rows ++ allRows rem = content s ∧
          buf.stop ∈ B ∧ (∀ c ∈ rem, c.stop ∈ B) ∧ buf.kind = s.dep.kind ∧ (∀ c ∈ rem, c.kind = s.dep.kind) := by
        cases fl with
        | true =>
          simp only [if_true] at hf
          injection hf with hf; injection hf with h1 h2; subst h1 h2
          exact ⟨hs.1, rfl, by rw [hpm rfl]; exact Int.le_refl _, rfl, hns.1, hns.2.1, hkf.1, hkf.2⟩
        | false =>
          simp only [Bool.false_eq_true, if_false] at hf
          obtain ⟨f1, _, f3, f4, _, _⟩ := fetchUntil_good hs.1 hf
          obtain ⟨n1, n2, n3, n4⟩ := fetchUntil_ns hs.1 hns.1 hns.2.1 hkf.1 hkf.2 hf
          exact ⟨f1, f3, f4, (fetchUntil_ok hf).1, n1, n2, n3, n4⟩
      obtain ⟨f1, f3, f4, f5, n1, n2, n3, n4⟩ := hfu
      have gbuf := law_head f1
      have hno : ∀ r ∈ buf.rows, ¬ r.straddles t := by
        intro r hr
        exact hns.2.2 r (by rw [← f5]; simp [hr]) t htB
      have hexact : a.stop = t := split_exact gbuf (by rw [f3]; exact hst) f4 hno hsp
      obtain ⟨g1, g2, p1, p2, p3, p4, p5, p6, p7, p8, p9⟩ := split_good' gbuf hsp
      obtain ⟨k1, k2⟩ := split_kind gbuf hsp
      -- rows before / from t
      have hleft : ∀ x ∈ a.rows, decide (x.time < t) = true := by
        intro x hx
        have := good_rows_in g1 x hx
        simp only [decide_eq_true_eq]; omega
      have hlb : Law (b :: rem) := law_replace_head f1 g2 p3 p5 p7
      have hright : ∀ x ∈ content (⟨s.dep, rem, b⟩ : DepState), decide (x.time < t) = false := by
        intro x hx
        simp only [content, List.mem_append] at hx
        simp only [decide_eq_false_iff_not, Int.not_lt]
        rcases hx with hx | hx
        · have := (good_rows_in g2 x hx).1
          omega
        · have := law_rows_after hlb x hx
          have := (good_range g2).2
          omega
      have hsplit := takeWhile_dropWhile_of_split hleft hright
      rw [hprev.1] at hsplit
      refine ⟨hexact, hsplit.1.symm, hsplit.2.symm, ⟨?_, n2, ?_⟩, ⟨by show b.kind = _; rw [k2]; exact n3, n4⟩,
        by rw [k1]; exact n3, rfl⟩
      · show b.stop ∈ B
        rw [p3]; exact n1
      · intro r hr bb hbb
        apply hns.2.2 r _ bb hbb
        rw [← hprev.1]
        exact List.mem_append_right _ hr

/-! ### one iteration of the no-straddle run -/

/-- the driving predicate: at least one pass, every state `NS` and `KF`, same-kind states aligned -/
def JNS (B : List Int) (n : Nat) (sts : List DepState) : Prop :=
  1 ≤ n ∧ (∀ s ∈ sts, NS B s ∧ KF s) ∧ KA sts

/-- what `prepDep` did to the state `s` it came from -/
def PrepFact (B : List Int) (t : Int) (z : Zip DepState) (p : Chunk × DepState) : Prop :=
  ∃ s ∈ z.toList, p.2.dep = s.dep ∧ p.1.stop = t ∧ p.1.rows = before t (content s) ∧
    content p.2 = fromOn t (content s) ∧ NS B p.2 ∧ KF p.2 ∧ p.1.kind = s.dep.kind

theorem prep_all_exact {rid : String} {B : List Int} {n : Nat} {T T1 : Int} {z : Zip DepState}
    {z0 : Zip (Chunk × DepState)} (hi : LoopInv rid T T1 z.toList) (hJ : JNS B n z.toList)
    (hz0 : z.mapE (prepDep z.pm.buf.stop) = .ok z0) :
    ∀ p ∈ z0.toList, PrepFact B z.pm.buf.stop z p := by
  have hpmem : z.pm ∈ z.toList := Zip.mem_toList.mpr (Or.inr (Or.inl rfl))
  have htB : z.pm.buf.stop ∈ B := (hJ.2.1 _ hpmem).1.1
  have hTt : T ≤ z.pm.buf.stop := by
    have := (good_range (law_head (hi.good _ hpmem).1)).2
    rw [hi.start _ hpmem] at this; exact this
  refine Zip.mapE_ok_forall2 (P := PrepFact B z.pm.buf.stop z) ?_ ?_ hz0
  · intro a ha b hb
    obtain ⟨e1, e2, e3, e4, e5, e6, e7⟩ := prepDep_exact (inp := b.1) (s' := b.2) (hi.good a ha)
      (hJ.2.1 a ha).1 (hJ.2.1 a ha).2 htB (by rw [hi.start a ha]; exact hTt) (by simp) hb
    exact ⟨a, ha, e7, e1, e2, e3, e4, e5, e6⟩
  · intro b hb
    obtain ⟨e1, e2, e3, e4, e5, e6, e7⟩ := prepDep_exact (inp := b.1) (s' := b.2) (hi.good _ hpmem)
      (hJ.2.1 _ hpmem).1 (hJ.2.1 _ hpmem).2 htB (by rw [hi.start _ hpmem]; exact hTt) (fun _ => rfl) hb
    exact ⟨z.pm, hpmem, e7, e1, e2, e3, e4, e5, e6⟩

theorem retrim_of_allEq {n : Nat} {t : Int} {z : Zip (Chunk × DepState)} (hn : 1 ≤ n)
    (h : allEq (inputEnds z) = true) : retrim n t z = .ok z := by
  cases n with
  | zero => omega
  | succ k => unfold retrim; dsimp only; rw [if_pos h]

/-- merging by kind when same-kind inputs are good, cover one range and have equally many rows -/
theorem mergeByKind_total_aligned {rid : String} {T E : Int} {inputs : List (Chunk × DepState)}
    (hne : inputs ≠ [])
    (hgood : ∀ p ∈ inputs, p.1.good = true ∧ p.1.runId = some rid ∧ p.1.start = T ∧ p.1.stop = E ∧
      p.1.kind = p.2.dep.kind)
    (hlen : ∀ p ∈ inputs, ∀ q ∈ inputs, p.2.dep.kind = q.2.dep.kind → p.1.rows.length = q.1.rows.length) :
    ∃ merged, mergeByKind inputs = .ok merged ∧ merged ≠ [] ∧
      ∀ m ∈ merged, m.start = T ∧ m.stop = E ∧ m.superrun = [⟨rid, T, E⟩] ∧ m.subruns = none := by
  have hstep : ∀ k ∈ kindsOf [] (inputs.map (fun p => p.2.dep.kind)),
      ∃ m, mergeChunks ((inputs.filter (fun q => q.2.dep.kind == k)).map (fun q => q.1)) "<UNKNOWN>" = .ok m ∧
        m.start = T ∧ m.stop = E ∧ m.superrun = [⟨rid, T, E⟩] ∧ m.subruns = none := by
    intro k hk
    obtain ⟨p0, hp0, hk0⟩ := List.mem_map.mp (kindsOf_sub hk)
    have hmemg : ∀ c ∈ (inputs.filter (fun q => q.2.dep.kind == k)).map (fun q => q.1),
        ∃ p ∈ inputs, p.2.dep.kind = k ∧ c = p.1 := by
      intro c hc
      obtain ⟨p, hp, rfl⟩ := List.mem_map.mp hc
      obtain ⟨hp1, hp2⟩ := List.mem_filter.mp hp
      exact ⟨p, hp1, by simpa using hp2, rfl⟩
    cases hgrp : (inputs.filter (fun q => q.2.dep.kind == k)).map (fun q => q.1) with
    | nil =>
      have : p0.1 ∈ (inputs.filter (fun q => q.2.dep.kind == k)).map (fun q => q.1) :=
        List.mem_map.mpr ⟨p0, List.mem_filter.mpr ⟨hp0, by simp [hk0]⟩, rfl⟩
      rw [hgrp] at this; simp at this
    | cons c0 rest =>
      rw [hgrp] at hmemg
      obtain ⟨q0, hq0, hqk, hq0e⟩ := hmemg c0 (by simp)
      obtain ⟨g0, r0, s0, e0, k0⟩ := hgood q0 hq0
      obtain ⟨sup0, sub0⟩ := good_runs g0 r0
      obtain ⟨m, hm, f1, f2, f3, f4⟩ := merge_total_fields (c0 := c0) (rest := rest) (dt := "<UNKNOWN>") (rid := rid)
        (by
          intro c hc
          obtain ⟨q, hq, _, rfl⟩ := hmemg c hc
          have := (hgood q hq).1
          simp only [Chunk.good, Bool.and_eq_true] at this
          exact this.1)
        (by
          intro c hc
          obtain ⟨q, hq, hqk', rfl⟩ := hmemg c (List.mem_cons_of_mem _ hc)
          obtain ⟨g, r, s', e', k'⟩ := hgood q hq
          obtain ⟨sup, sub⟩ := good_runs g r
          subst hq0e
          refine ⟨by rw [k', k0, hqk', hqk], by rw [r, r0], hlen q hq q0 hq0 (by rw [hqk', hqk]),
            by rw [s', s0], by rw [e', e0], by rw [sub, sub0], by rw [sup, sup0, s', s0, e', e0]⟩)
        (by rw [hq0e]; exact r0) (by rw [hq0e]; exact sup0) (by rw [hq0e]; exact sub0)
      subst hq0e
      exact ⟨m, hm, by rw [f1, s0], by rw [f2, e0], by rw [f3, s0, e0], f4⟩
  obtain ⟨merged, hm⟩ := mapE_total
    (f := fun k => mergeChunks ((inputs.filter (fun q => q.2.dep.kind == k)).map (fun q => q.1)) "<UNKNOWN>")
    (l := kindsOf [] (inputs.map (fun p => p.2.dep.kind)))
    (fun k hk => by obtain ⟨m, h, _⟩ := hstep k hk; exact ⟨m, h⟩)
  refine ⟨merged, hm, ?_, ?_⟩
  · obtain ⟨p0, hp0⟩ := List.exists_mem_of_ne_nil _ hne
    have hk : p0.2.dep.kind ∈ kindsOf [] (inputs.map (fun p => p.2.dep.kind)) :=
      kindsOf_complete (List.mem_map.mpr ⟨p0, hp0, rfl⟩) (by simp)
    obtain ⟨m, hmem, _⟩ := mapE_ok_each hm _ hk
    exact List.ne_nil_of_mem hmem
  · refine mapE_ok_forall (P := fun m => m.start = T ∧ m.stop = E ∧ m.superrun = [⟨rid, T, E⟩] ∧ m.subruns = none) ?_ hm
    intro k hk m hmk
    obtain ⟨m', h, props⟩ := hstep k hk
    rw [h] at hmk
    injection hmk with hmk
    subst hmk
    exact props

theorem iterBody_of_parts {n : Nat} {strict : Bool} {z : Zip DepState} {z0 zi : Zip (Chunk × DepState)}
    {merged : List Chunk} {se : Int × Int} (h1 : z.mapE (prepDep z.pm.buf.stop) = .ok z0)
    (h2 : retrim n z.pm.buf.stop z0 = .ok zi) (h3 : mergeByKind zi.toList = .ok merged)
    (h4 : computeRange strict merged = .ok se) : ∃ r, iterBody n strict z = .ok r := by
  unfold iterBody
  dsimp only
  rw [h1]; dsimp only
  rw [h2]; dsimp only
  rw [h3]; dsimp only
  rw [h4]
  exact ⟨_, rfl⟩

/-- the common facts of an iteration of the no-straddle run -/
theorem ns_body_facts {rid : String} {B : List Int} {n : Nat} {T T1 : Int} {z : Zip DepState}
    {z0 : Zip (Chunk × DepState)} (hi : LoopInv rid T T1 z.toList) (hJ : JNS B n z.toList)
    (hz0 : z.mapE (prepDep z.pm.buf.stop) = .ok z0) :
    (∀ p ∈ z0.toList, GoodPair rid p) ∧ (∀ p ∈ z0.toList, p.1.start = T) ∧
      allEq (inputEnds z0) = true ∧ (∀ p ∈ z0.toList, PrepFact B z.pm.buf.stop z p) ∧
      (∀ p ∈ z0.toList, ∀ q ∈ z0.toList, p.2.dep.kind = q.2.dep.kind →
        p.1.rows.length = q.1.rows.length ∧ (content p.2).map iv = (content q.2).map iv) := by
  have hpmem : z.pm ∈ z.toList := Zip.mem_toList.mpr (Or.inr (Or.inl rfl))
  have g0 : ∀ p ∈ z0.toList, GoodPair rid p :=
    Zip.mapE_ok_forall2 (P := GoodPair rid)
      (fun a ha b hb => (prepDep_good (inp := b.1) (s' := b.2) (hi.good a ha) (by simp) hb).1)
      (fun b hb => (prepDep_good (inp := b.1) (s' := b.2) (hi.good _ hpmem) (fun _ => rfl) hb).1) hz0
  have s0 : ∀ p ∈ z0.toList, p.1.start = T :=
    Zip.mapE_ok_forall (P := fun p => p.1.start = T)
      (fun _ a ha b hb => by rw [(prepDep_ok (inp := b.1) (s' := b.2) hb).2.1]; exact hi.start a ha) hz0
  have pf := prep_all_exact hi hJ hz0
  refine ⟨g0, s0, ?_, pf, ?_⟩
  · apply allEq_of_all_eq (a := z.pm.buf.stop)
    intro x hx
    obtain ⟨p, hp, rfl⟩ := List.mem_map.mp hx
    obtain ⟨_, _, _, e, _⟩ := pf p hp
    exact e
  · intro p hp q hq hk
    obtain ⟨s, hs, d1, _, r1, c1, _, _, _⟩ := pf p hp
    obtain ⟨s', hs', d2, _, r2, c2, _, _, _⟩ := pf q hq
    have hka := hJ.2.2 s hs s' hs' (by rw [← d1, ← d2]; exact hk)
    obtain ⟨i1, i2⟩ := iv_takeWhile_dropWhile z.pm.buf.stop hka
    refine ⟨by rw [r1, r2]; exact i1, by rw [c1, c2]; exact i2⟩

theorem ns_drives {rid : String} {B : List Int} {n : Nat} {strict : Bool} {T1 : Int} :
    Drives rid T1 n strict (JNS B n) where
  body := by
    intro z T hi hJ
    have hpmem : z.pm ∈ z.toList := Zip.mem_toList.mpr (Or.inr (Or.inl rfl))
    have hpmle : z.pm.buf.stop ≤ T1 := by
      have := law_stop_le_end (hi.good _ hpmem).1
      rw [(hi.ends _ hpmem).1] at this; exact this
    obtain ⟨z0, hz0⟩ := Zip.mapE_total2 (f := prepDep z.pm.buf.stop) (z := z)
      (fun a ha => prepDep_total (hi.good a ha) (fun _ => by rw [(hi.ends a ha).1]; exact hpmle))
      (prepDep_total (hi.good _ hpmem) (fun h => by cases h))
    obtain ⟨g0, s0, heq, pf, hsame⟩ := ns_body_facts hi hJ hz0
    have hzi := retrim_of_allEq (t := z.pm.buf.stop) hJ.1 heq
    have hne : z0.toList ≠ [] := by simp [Zip.toList]
    obtain ⟨merged, hm, hmne, hmp⟩ := mergeByKind_total_aligned (rid := rid) (T := T) (E := z.pm.buf.stop) hne
      (by
        intro p hp
        obtain ⟨s, hs, d1, e1, _, _, _, _, k1⟩ := pf p hp
        exact ⟨law_head (g0 p hp).1, (g0 p hp).2, s0 p hp, e1, by rw [k1, d1]⟩)
      (fun p hp q hq hk => (hsame p hp q hq hk).1)
    have hr := computeRange_total (strict := strict) hmne hmp
    exact iterBody_of_parts hz0 hzi hm hr
  step := by
    intro z z' T call hi hJ hbody
    obtain ⟨z0, zi, hz0, hzi, b⟩ := iterBody_ok' hbody
    obtain ⟨g0, s0, heq, pf, hsame⟩ := ns_body_facts hi hJ hz0
    have hzz : zi = z0 := (retrim_good g0 hzi).2.2.2 heq
    subst hzz
    refine ⟨hJ.1, ?_, ?_⟩
    · intro s hs
      rw [b.next] at hs
      obtain ⟨p, hp, rfl⟩ := List.mem_map.mp hs
      obtain ⟨_, _, _, _, _, _, n1, k1, _⟩ := pf p hp
      exact ⟨n1, k1⟩
    · intro s hs s' hs' hk
      rw [b.next] at hs hs'
      obtain ⟨p, hp, rfl⟩ := List.mem_map.mp hs
      obtain ⟨q, hq, rfl⟩ := List.mem_map.mp hs'
      exact (hsame p hp q hq hk).2
  fetch := by
    intro pre post d c rest buf buf1 T hi hJ hb
    have hmem : (⟨d, c :: rest, buf⟩ : DepState) ∈ pre ++ ⟨d, c :: rest, buf⟩ :: post := by simp
    obtain ⟨hl, _⟩ := hi.good _ hmem
    obtain ⟨g1, a1, a2, a3, hl'⟩ := law_cons_cons.1 hl
    obtain ⟨_, _, ce, crows, _, _⟩ := concat_good_of_ok g1 (law_head hl') a1 a2 a3 hb
    have ck := concat_kind g1 (law_head hl') a1 a2 a3 hb
    have hcont : content (⟨d, rest, buf1⟩ : DepState) = content (⟨d, c :: rest, buf⟩ : DepState) := by
      simp [content, allRows, crows]
    obtain ⟨⟨n1, n2, n3⟩, ⟨k1, k2⟩⟩ := hJ.2.1 _ hmem
    -- every state of the new list is an old state, or the pacemaker with the same content
    have hcases : ∀ s ∈ Zip.toList (⟨pre, ⟨d, rest, buf1⟩, post⟩ : Zip DepState),
        (s ∈ pre ++ ⟨d, c :: rest, buf⟩ :: post) ∨ s = ⟨d, rest, buf1⟩ := by
      intro s hs
      rcases Zip.mem_toList.mp hs with h1 | h1 | h1
      · exact Or.inl (by simp [h1])
      · exact Or.inr h1
      · exact Or.inl (by simp [h1])
    have hnew : NS B (⟨d, rest, buf1⟩ : DepState) ∧ KF (⟨d, rest, buf1⟩ : DepState) := by
      refine ⟨⟨?_, fun x hx => n2 x (List.mem_cons_of_mem _ hx), ?_⟩, ⟨?_, fun x hx => k2 x (List.mem_cons_of_mem _ hx)⟩⟩
      · show buf1.stop ∈ B
        rw [ce]; exact n2 c (by simp)
      · intro r hr; rw [hcont] at hr; exact n3 r hr
      · show buf1.kind = d.kind
        rw [ck]; exact k1
    refine ⟨hJ.1, ?_, ?_⟩
    · intro s hs
      rcases hcases s hs with h1 | h1
      · exact hJ.2.1 s h1
      · rw [h1]; exact hnew
    · -- contents and kinds are those of the old list
      have hold : ∀ s ∈ Zip.toList (⟨pre, ⟨d, rest, buf1⟩, post⟩ : Zip DepState),
          ∃ s0 ∈ pre ++ ⟨d, c :: rest, buf⟩ :: post, s0.dep = s.dep ∧ content s0 = content s := by
        intro s hs
        rcases hcases s hs with h1 | h1
        · exact ⟨s, h1, rfl, rfl⟩
        · rw [h1]; exact ⟨_, hmem, rfl, hcont.symm⟩
      intro s hs s' hs' hk
      obtain ⟨a, ha, da, ca⟩ := hold s hs
      obtain ⟨b, hb', db, cb⟩ := hold s' hs'
      rw [← ca, ← cb]
      exact hJ.2.2 a ha b hb' (by rw [da, db]; exact hk)

/-! ### the whole run: structural hypotheses on the input -/

/-- all chunk ends of all dependencies -/
def allStops (chunks : List (List Chunk)) : List Int := chunks.flatten.map (·.stop)

/-- no row of any dependency straddles the end of a chunk of any dependency (its own included) -/
def noStraddleB (chunks : List (List Chunk)) : Bool :=
  chunks.all fun cs => (allRows cs).all fun r => (allStops chunks).all fun b =>
    !(decide (r.time < b) && decide (b < r.endt))

/-- every chunk carries the data kind of its dependency -/
def chunkKindsB (deps : List Dep) (chunks : List (List Chunk)) : Bool :=
  (deps.zip chunks).all fun p => p.2.all fun c => c.kind == p.1.kind

theorem initFetch_src {l : List (Dep × List Chunk)} {sts : List DepState}
    (h : mapE initFetch l = .ok sts) : ∀ s ∈ sts, ∃ p ∈ l, ∃ c rest, p.2 = c :: rest ∧ s = ⟨p.1, rest, c⟩ := by
  refine mapE_ok_forall (P := fun s => ∃ p ∈ l, ∃ c rest, p.2 = c :: rest ∧ s = ⟨p.1, rest, c⟩) ?_ h
  intro p hp s hs
  unfold initFetch at hs
  split at hs
  · cases hs
  · rename_i c rest hc
    injection hs with hs
    exact ⟨p, hp, c, rest, hc, hs.symm⟩

theorem init_jns {deps : List Dep} {chunks : List (List Chunk)} {n : Nat} {sts : List DepState}
    (hn : 1 ≤ n) (hns : noStraddleB chunks = true) (hck : chunkKindsB deps chunks = true)
    (hka : kindAlignedB deps chunks = true) (h : mapE initFetch (deps.zip chunks) = .ok sts) :
    JNS (allStops chunks) n sts := by
  have src := initFetch_src h
  refine ⟨hn, ?_, ?_⟩
  · intro s hs
    obtain ⟨p, hp, c, rest, hc, rfl⟩ := src s hs
    have hmem : p.2 ∈ chunks := (List.of_mem_zip hp).2
    have hstop : ∀ x ∈ p.2, x.stop ∈ allStops chunks := by
      intro x hx
      exact List.mem_map.mpr ⟨x, List.mem_flatten.mpr ⟨p.2, hmem, hx⟩, rfl⟩
    have hkinds := List.all_eq_true.mp (List.all_eq_true.mp hck p hp)
    have hrows := List.all_eq_true.mp (List.all_eq_true.mp hns p.2 hmem)
    refine ⟨⟨hstop c (by rw [hc]; simp), fun x hx => hstop x (by rw [hc]; simp [hx]), ?_⟩,
      ⟨by simpa using hkinds c (by rw [hc]; simp), fun x hx => by simpa using hkinds x (by rw [hc]; simp [hx])⟩⟩
    intro r hr b hb hst
    have hr' : r ∈ allRows p.2 := by
      rw [hc]; simpa [content, allRows] using hr
    have := List.all_eq_true.mp (hrows r hr') b hb
    unfold Row.straddles at hst
    simp [hst.1, hst.2] at this
  · intro s hs s' hs' hk
    obtain ⟨p, hp, c, rest, hc, rfl⟩ := src s hs
    obtain ⟨q, hq, c', rest', hc', rfl⟩ := src s' hs'
    have := List.all_eq_true.mp (List.all_eq_true.mp hka p hp) q hq
    have hk' : p.1.kind = q.1.kind := hk
    simp only [hk', bne_self_eq_false, Bool.false_or, beq_iff_eq] at this
    have e1 : content (⟨p.1, rest, c⟩ : DepState) = allRows p.2 := by rw [hc]; simp [content, allRows]
    have e2 : content (⟨q.1, rest', c'⟩ : DepState) = allRows q.2 := by rw [hc']; simp [content, allRows]
    rw [e1, e2]; exact this

/-- **totality from structure**: valid law-abiding inputs that start and end together, every chunk of
the kind of its dependency, same-kind dependencies interval-equal, and NO row straddling any chunk
end: `Plugin.iter` succeeds with ANY pass budget ≥ 1 — no early split ever happens, so the re-trim
loop exits at its first check; dependencies of one kind are merged successfully. -/
theorem iterRunP_total_nostraddle {rid : String} {T0 T1 : Int} {n : Nat} {deps : List Dep}
    {chunks : List (List Chunk)} {strict : Bool} (hlen : chunks.length = deps.length) (hdeps : deps ≠ [])
    (hv : validInputsB rid chunks = true) (hT : StartAt T0 chunks) (he : endAtB T1 chunks = true)
    (hns : noStraddleB chunks = true) (hck : chunkKindsB deps chunks = true)
    (hka : kindAlignedB deps chunks = true) (hn : 1 ≤ n) :
    ∃ r, iterRunP n deps chunks strict = .ok r :=
  iterRunP_total_of (J := JNS (allStops chunks) n) ns_drives hlen hdeps hv hT he
    (fun _ h => init_jns hn hns hck hka h)

end Strax.Align
