import StraxModel.Lemmas.PulseHits
import StraxModel.Lemmas.PulseCut
import StraxModel.Lemmas.PulseLinks
import StraxModel.Lemmas.PulseBaseline
import StraxModel.Lemmas.PulseShift
/-
  Helper lemmas of theory T14 (property C18).  The three imported files hold the hit finder
  (`PulseHits`), the data reduction (`PulseCut`) and the record links (`PulseLinks`); this file adds
  the rounding lemma for `integrate` and the single-record specialisation of the reduction.
  Core Lean only.
-/
namespace Strax.Pulse

/-- `roundHalfEven p q` is a nearest integer to `p/q`, and the even one on a tie. -/
theorem roundHalfEven_spec (p : Int) (q : Nat) (hq : 0 < q) :
    2 * (roundHalfEven p q * q - p) ≤ q ∧ 2 * (p - roundHalfEven p q * q) ≤ q ∧
    ((2 * (roundHalfEven p q * q - p) = q ∨ 2 * (p - roundHalfEven p q * q) = q) → roundHalfEven p q % 2 = 0) := by
  have h1 := Int.mul_ediv_add_emod p q
  have h2 : 0 ≤ p % (q : Int) := Int.emod_nonneg p (by omega)
  have h3 : p % (q : Int) < q := Int.emod_lt_of_pos p (by omega)
  unfold roundHalfEven
  simp only
  generalize p / (q : Int) = fl at h1 ⊢
  generalize p % (q : Int) = rem at h1 h2 h3 ⊢
  rw [Int.mul_comm] at h1
  have e1 : (fl + 1) * (q : Int) = fl * q + q := by rw [Int.add_mul]; simp
  split
  · refine ⟨by omega, by omega, ?_⟩
    intro h; omega
  · split
    · rw [e1]
      refine ⟨by omega, by omega, ?_⟩
      intro h; omega
    · split
      · refine ⟨by omega, by omega, fun _ => by assumption⟩
      · rw [e1]
        refine ⟨by omega, by omega, fun _ => by omega⟩

/-- links of an array with a single record that is not a continuing fragment at time 0 -/
theorem recordLinks_single (r : Record) (hc : 0 ≤ r.channel) (hz : r.recordI = 0 ∨ r.time ≠ 0) :
    recordLinks [r] = .ok ([-1], [-1]) := by
  have hc' : ¬ r.channel < 0 := by omega
  rcases hz with hz | hz
  · simp [recordLinks, hc', linkDecisions, linkDecision, hz, prevOf, nextWrites]
  · simp [recordLinks, hc', linkDecisions, linkDecision, LinkSt.init, hz, prevOf, nextWrites]

theorem covers_single (r : Record) (spr : Nat) (le re : Int) (h : HitRef) (j : Nat) :
    Covers [r] spr [-1] [-1] le re h 0 j ↔
      (h.recordI = 0 ∧ j < r.length ∧ (h.left : Int) - le ≤ j ∧ (j : Int) < h.right + re) := by
  unfold Covers
  constructor
  · rintro (⟨h0, r', hr', h1, h2, h3⟩ | ⟨p, hp, hp1, -⟩ | ⟨p, hp, hp1, -⟩)
    · rw [← h0] at hr'
      simp only [List.getElem?_cons_zero, Option.some.injEq] at hr'
      subst hr'
      exact ⟨h0.symm, h1, h2, h3⟩
    · cases hh : h.recordI with
      | zero => rw [hh] at hp; simp at hp; exact absurd hp.symm hp1
      | succ k => rw [hh] at hp; simp at hp
    · cases hh : h.recordI with
      | zero => rw [hh] at hp; simp at hp; exact absurd hp.symm hp1
      | succ k => rw [hh] at hp; simp at hp
  · rintro ⟨h0, h1, h2, h3⟩
    left
    exact ⟨h0.symm, r, by rw [h0]; rfl, h1, h2, h3⟩

/-! ### totality on valid input -/

theorem threshold_ok (a h : List Q) (r : Record) (h0 : 0 ≤ r.channel) (h1 : r.channel < a.length) (h2 : r.channel < h.length) :
    ∃ thr, threshold a h r = .ok thr := by
  unfold threshold
  have c1 : ¬ r.channel < 0 := by omega
  have c2 : ¬ r.channel ≥ (a.length : Int) := by omega
  simp only [c1, c2, ↓reduceIte]
  have i1 : r.channel.toNat < a.length := by omega
  have i2 : r.channel.toNat < h.length := by omega
  rw [List.getElem?_eq_getElem i1, List.getElem?_eq_getElem i2]
  exact ⟨_, rfl⟩

theorem findHitsLoop_total (a h : List Q) : ∀ (rs : List Record) (ri : Nat) (mt : Int),
    (∀ r ∈ rs, 0 ≤ r.channel ∧ r.channel < a.length ∧ r.channel < h.length ∧ r.length ≤ r.data.length) →
    ∃ hits, findHitsLoop a h rs ri mt = .ok hits := by
  intro rs
  induction rs with
  | nil => intro ri mt _; exact ⟨[], rfl⟩
  | cons r rs ih =>
    intro ri mt hall
    obtain ⟨h0, h1, h2, h3⟩ := hall r (by simp)
    obtain ⟨thr, hthr⟩ := threshold_ok a h r h0 h1 h2
    have hl : ¬ r.length > r.data.length := by omega
    obtain ⟨more, hmore⟩ := ih (ri + 1) (scanRec r ri thr r.samples 0 ⟨none, 0, 0, mt⟩).2
      (fun r' hr' => hall r' (List.mem_cons_of_mem _ hr'))
    refine ⟨(scanRec r ri thr r.samples 0 ⟨none, 0, 0, mt⟩).1 ++ more, ?_⟩
    simp only [findHitsLoop, recHits, hthr, hl, ↓reduceIte, hmore]

theorem le_maxChannel : ∀ (rs : List Record) (r : Record), r ∈ rs → r.channel ≤ maxChannel rs := by
  intro rs
  induction rs with
  | nil => intro r h; simp at h
  | cons x xs ih =>
    intro r hr
    cases xs with
    | nil => simp at hr; subst hr; simp [maxChannel]
    | cons y ys =>
      simp only [List.mem_cons] at hr
      rcases hr with rfl | hr
      · simp only [maxChannel]; omega
      · have := ih r (by simpa using hr)
        simp only [maxChannel] at this ⊢; omega

theorem findHits_total {records : List Record} {amp hon : ThrArg} {a h : List Q}
    (hres : resolveThr records amp hon = .ok (a, h))
    (hall : ∀ r ∈ records, 0 ≤ r.channel ∧ r.channel < a.length ∧ r.channel < h.length ∧ r.length ≤ r.data.length) :
    ∃ hits, findHits records amp hon = .ok hits := by
  unfold findHits
  split
  · exact ⟨[], rfl⟩
  · simp only [hres]
    exact findHitsLoop_total a h records 0 0 hall

theorem findHits_total_scalar (records : List Record) (qa qh : Q)
    (hall : ∀ r ∈ records, 0 ≤ r.channel ∧ r.length ≤ r.data.length) :
    ∃ hits, findHits records (.scalar qa) (.scalar qh) = .ok hits := by
  cases records with
  | nil => exact ⟨[], rfl⟩
  | cons r0 rs =>
    have hmax : 0 ≤ maxChannel (r0 :: rs) := by
      have := le_maxChannel (r0 :: rs) r0 (by simp)
      have := (hall r0 (by simp)).1
      omega
    have hn : ¬ maxChannel (r0 :: rs) + 1 < 0 := by omega
    apply findHits_total (a := List.replicate (maxChannel (r0 :: rs) + 1).toNat qa)
      (h := List.replicate (maxChannel (r0 :: rs) + 1).toNat qh)
    · simp [resolveThr, hn]
    · intro r hr
      have h1 := le_maxChannel (r0 :: rs) r hr
      obtain ⟨h2, h3⟩ := hall r hr
      simp only [List.length_replicate]
      refine ⟨h2, by omega, by omega, h3⟩

theorem overlapIndices_ok (a1 nA b1 nB : Int) (hA : 0 ≤ nA) (hB : 0 ≤ nB) : ∃ res, overlapIndices a1 nA b1 nB = .ok res := by
  unfold overlapIndices
  have : ¬ (nA < 0 ∨ nB < 0) := by omega
  simp only [this, ↓reduceIte]
  split
  · exact ⟨_, rfl⟩
  · split
    · exact ⟨_, rfl⟩
    · split <;> exact ⟨_, rfl⟩

theorem cutLoop_total {recs : List Record} {spr : Nat} {prev next : List Int} {old : List (List Int)} {le re : Int}
    (hle : 0 ≤ le) (hre : 0 ≤ re) : ∀ (hits : List HitRef) (new : List (List Int)),
    (∀ h ∈ hits, h.recordI < recs.length ∧ h.left ≤ h.right) →
    ∃ out, cutLoop recs spr prev next old le re hits new = .ok out := by
  intro hits
  induction hits with
  | nil => intro new _; exact ⟨new, rfl⟩
  | cons h hs ih =>
    intro new hall
    obtain ⟨h1, h2⟩ := hall h (by simp)
    have hr : recs[h.recordI]? = some recs[h.recordI] := List.getElem?_eq_getElem h1
    obtain ⟨⟨⟨a, b⟩, cd⟩, hov⟩ := overlapIndices_ok 0 (recs[h.recordI].length : Int) ((h.left : Int) - le)
      ((h.right : Int) + re - ((h.left : Int) - le)) (by omega) (by omega)
    have : ∃ new', cutHit recs spr prev next old le re new h = .ok new' := by
      unfold cutHit
      simp only [hr, hov]
      exact ⟨_, rfl⟩
    obtain ⟨new', hnew'⟩ := this
    obtain ⟨out, hout⟩ := ih new' (fun h' hh' => hall h' (List.mem_cons_of_mem _ hh'))
    exact ⟨out, by simp only [cutLoop, hnew', hout]⟩

theorem cutOutsideHits_total (records : List Record) (hits : List HitRef) (le re : Int) (hle : 0 ≤ le) (hre : 0 ≤ re)
    (hch : ∀ r ∈ records, 0 ≤ r.channel)
    (hh : ∀ h ∈ hits, h.recordI < records.length ∧ h.left ≤ h.right) :
    ∃ out, cutOutsideHits records hits le re = .ok out := by
  unfold cutOutsideHits
  split
  · exact ⟨_, rfl⟩
  · have hany : records.any (fun r => decide (r.channel < 0)) = false := by
      rw [List.any_eq_false]
      intro r hr
      have := hch r hr
      simp; omega
    simp only [recordLinks, hany, Bool.false_eq_true, ↓reduceIte]
    obtain ⟨out, hout⟩ := cutLoop_total (recs := records) (spr := samplesPerRecord records)
      (prev := (linkDecisions (samplesPerRecord records) records 0 LinkSt.init).map prevOf)
      (next := nextWrites records.length (linkDecisions (samplesPerRecord records) records 0 LinkSt.init) 0
        (List.replicate records.length (-1)))
      (old := records.map (·.data)) hle hre hits
      (records.map fun r => List.replicate r.data.length (0 : Int)) hh
    simp only [hout]
    exact ⟨_, rfl⟩

/-- The reduction in terms of a relation `F j i` ("`i` holds the fragment after the one at `j`") that agrees with
`IsPrevFragment` on the array, when no continuing fragment at time 0 opens a channel. -/
theorem cut_fragments_spec {records : List Record} {hits : List HitRef} {le re : Int} {out : List Record}
    (F : Nat → Nat → Prop) (hF : ∀ j i, IsPrevFragment records (samplesPerRecord records) j i ↔ F j i)
    (hne : records ≠ []) (hz : NoOrphanAtZero records) (e : cutOutsideHits records hits le re = .ok out) :
    ∀ m r, records[m]? = some r →
      ∃ d, out[m]? = some { r with data := d, reductionLevel := hitsOnly } ∧
        ∀ j : Nat, j < r.data.length →
          let spr := samplesPerRecord records
          let keep := ∃ h ∈ hits,
            (m = h.recordI ∧ j < r.length ∧ (h.left : Int) - le ≤ j ∧ (j : Int) < h.right + re)
            ∨ (F m h.recordI ∧ (h.left : Int) - le ≤ (j : Int) - spr ∧ j < spr)
            ∨ (F h.recordI m ∧ (j : Int) + spr < h.right + re ∧ j < spr)
          (keep → d[j]? = r.data[j]?) ∧ (¬ keep → d[j]? = some 0) := by
  obtain ⟨prev, next, hl, hlen, hspec⟩ := cutOutsideHits_spec hne e
  obtain ⟨p1, p2⟩ := recordLinks_prev hl
  obtain ⟨n1, n2⟩ := recordLinks_next' hl hz
  intro m r hr
  have hm : m < records.length := by
    rcases Nat.lt_or_ge m records.length with h | h
    · exact h
    · simp [List.getElem?_eq_none h] at hr
  obtain ⟨d, hd, -, hj⟩ := hspec m r hr
  refine ⟨d, hd, ?_⟩
  intro j hjl spr keep
  have hiff : (∃ h ∈ hits, Covers records spr prev next le re h m j) ↔ keep := by
    constructor
    · rintro ⟨h, hh, hc⟩
      refine ⟨h, hh, ?_⟩
      rcases hc with ⟨h0, r', hr', h1, h2, h3⟩ | ⟨p, hp, hp1, hpm, h1, h2⟩ | ⟨p, hp, hp1, hpm, h1, h2⟩
      · left
        rw [← h0, hr] at hr'; simp only [Option.some.injEq] at hr'; subst hr'
        exact ⟨h0, h1, h2, h3⟩
      · right; left
        have hk : h.recordI < records.length := by
          rcases Nat.lt_or_ge h.recordI prev.length with h' | h'
          · omega
          · simp [List.getElem?_eq_none h'] at hp
        rcases (p2 _ hk).2 with h' | ⟨j', h'⟩
        · rw [hp] at h'; simp only [Option.some.injEq] at h'; exact absurd h' hp1
        · rw [hp] at h'; simp only [Option.some.injEq] at h'; subst h'
          have : m = j' := by omega
          subst this
          exact ⟨(hF _ _).1 (((p2 _ hk).1 m).1 hp), h1, h2⟩
      · right; right
        have hk : h.recordI < records.length := by
          rcases Nat.lt_or_ge h.recordI next.length with h' | h'
          · omega
          · simp [List.getElem?_eq_none h'] at hp
        rcases (n2 _ hk).2 with h' | ⟨j', h'⟩
        · rw [hp] at h'; simp only [Option.some.injEq] at h'; exact absurd h' hp1
        · rw [hp] at h'; simp only [Option.some.injEq] at h'; subst h'
          have : m = j' := by omega
          subst this
          exact ⟨(hF _ _).1 (((n2 _ hk).1 m).1 hp), h1, h2⟩
    · rintro ⟨h, hh, hc⟩
      refine ⟨h, hh, ?_⟩
      rcases hc with ⟨h0, h1, h2, h3⟩ | ⟨hp, h1, h2⟩ | ⟨hp, h1, h2⟩
      · left; exact ⟨h0, r, by rw [← h0]; exact hr, h1, h2, h3⟩
      · right; left
        have hp := (hF _ _).2 hp
        have hk : h.recordI < records.length := by
          obtain ⟨a, b, -, hb, -⟩ := hp
          rcases Nat.lt_or_ge h.recordI records.length with h' | h'
          · exact h'
          · simp [List.getElem?_eq_none h'] at hb
        exact ⟨(m : Int), ((p2 _ hk).1 m).2 hp, by omega, by simp, h1, h2⟩
      · right; right
        have hp := (hF _ _).2 hp
        have hk : h.recordI < records.length := by
          obtain ⟨a, b, ha, -, -⟩ := hp
          rcases Nat.lt_or_ge h.recordI records.length with h' | h'
          · exact h'
          · simp [List.getElem?_eq_none h'] at ha
        exact ⟨(m : Int), ((n2 _ hk).1 m).2 hp, by omega, by simp, h1, h2⟩
  have := hj j hjl
  rw [hiff] at this
  exact this

end Strax.Pulse
