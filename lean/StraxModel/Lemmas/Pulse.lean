import StraxModel.Lemmas.PulseHits
import StraxModel.Lemmas.PulseCut
import StraxModel.Lemmas.PulseLinks
/-
  Helper lemmas of theory T14 (property C18).  The three imported files hold the hit finder
  (`PulseHits`), the data reduction (`PulseCut`) and the record links (`PulseLinks`); this file adds
  the rounding lemma for `integrate` and the single-record specialisation of the reduction.
  Core Lean only.
-/
namespace Strax.Pulse

/-- `roundHalfEven p q` is a nearest integer to `p/q`, and the even one on a tie. -/
theorem roundHalfEven_spec (p : Int) (q : Nat) (hq : 0 < q) :
    2 * (roundHalfEven p q * q - p) ≤ q ∧ 2 * (p - roundHalfEven p q * q) ≤ q ∧
    ((2 * (roundHalfEven p q * q - p) = q ∨ 2 * (p - roundHalfEven p q * q) = q) → roundHalfEven p q % 2 = 0) := by
  have h1 := Int.mul_ediv_add_emod p q
  have h2 : 0 ≤ p % (q : Int) := Int.emod_nonneg p (by omega)
  have h3 : p % (q : Int) < q := Int.emod_lt_of_pos p (by omega)
  unfold roundHalfEven
  simp only
  generalize p / (q : Int) = fl at h1 ⊢
  generalize p % (q : Int) = rem at h1 h2 h3 ⊢
  rw [Int.mul_comm] at h1
  have e1 : (fl + 1) * (q : Int) = fl * q + q := by rw [Int.add_mul]; simp
  split
  · refine ⟨by omega, by omega, ?_⟩
    intro h; omega
  · split
    · rw [e1]
      refine ⟨by omega, by omega, ?_⟩
      intro h; omega
    · split
      · refine ⟨by omega, by omega, fun _ => by assumption⟩
      · rw [e1]
        refine ⟨by omega, by omega, fun _ => by omega⟩

/-- links of an array with a single record that is not a continuing fragment at time 0 -/
theorem recordLinks_single (r : Record) (hc : 0 ≤ r.channel) (hz : r.recordI = 0 ∨ r.time ≠ 0) :
    recordLinks [r] = .ok ([-1], [-1]) := by
  have hc' : ¬ r.channel < 0 := by omega
  rcases hz with hz | hz
  · simp [recordLinks, hc', linkDecisions, linkDecision, hz, prevOf, nextWrites]
  · simp [recordLinks, hc', linkDecisions, linkDecision, LinkSt.init, hz, prevOf, nextWrites]

theorem covers_single (r : Record) (spr : Nat) (le re : Int) (h : HitRef) (j : Nat) :
    Covers [r] spr [-1] [-1] le re h 0 j ↔
      (h.recordI = 0 ∧ j < r.length ∧ (h.left : Int) - le ≤ j ∧ (j : Int) < h.right + re) := by
  unfold Covers
  constructor
  · rintro (⟨h0, r', hr', h1, h2, h3⟩ | ⟨p, hp, hp1, -⟩ | ⟨p, hp, hp1, -⟩)
    · rw [← h0] at hr'
      simp only [List.getElem?_cons_zero, Option.some.injEq] at hr'
      subst hr'
      exact ⟨h0.symm, h1, h2, h3⟩
    · cases hh : h.recordI with
      | zero => rw [hh] at hp; simp at hp; exact absurd hp.symm hp1
      | succ k => rw [hh] at hp; simp at hp
    · cases hh : h.recordI with
      | zero => rw [hh] at hp; simp at hp; exact absurd hp.symm hp1
      | succ k => rw [hh] at hp; simp at hp
  · rintro ⟨h0, h1, h2, h3⟩
    left
    exact ⟨h0.symm, r, by rw [h0]; rfl, h1, h2, h3⟩

end Strax.Pulse
