import StraxModel.Model.Lineage
import Std.Data.String.ToInt
/-
  Helper lemmas for theory T8 (property C02), part 8: the JSON printer `canonString` is injective
  on canonical forms, so "the hash function is injective on the JSON texts" is all that has to be
  assumed about SHA-1.
-/
namespace Strax.Lineage
open Strax

/-- the characters of a printed integer -/
def numCh (c : Char) : Bool := c.isDigit || c == '-'

/-- what may follow a complete JSON value inside the text: nothing, a comma or a closing bracket -/
def OkRest (r : List Char) : Prop := ∀ c, r.head? = some c → c = ',' ∨ c = ']'

theorem okRest_nil : OkRest [] := by intro c h; simp at h
theorem okRest_comma (r : List Char) : OkRest (',' :: r) := by intro c h; simp at h; exact Or.inl h.symm
theorem okRest_close (r : List Char) : OkRest (']' :: r) := by intro c h; simp at h; exact Or.inr h.symm

theorem span_unique {p : Char → Bool} {a b r r' : List Char} (ha : ∀ c ∈ a, p c = true) (hb : ∀ c ∈ b, p c = true)
    (hr : ∀ c, r.head? = some c → p c = false) (hr' : ∀ c, r'.head? = some c → p c = false)
    (h : a ++ r = b ++ r') : a = b ∧ r = r' := by
  induction a generalizing b with
  | nil =>
    cases b with
    | nil => exact ⟨rfl, by simpa using h⟩
    | cons y b' =>
      simp at h
      have := hr y (by rw [h]; rfl)
      rw [hb y (List.mem_cons_self ..)] at this; simp at this
  | cons x a' ih =>
    cases b with
    | nil =>
      simp at h
      have := hr' x (by rw [← h]; rfl)
      rw [ha x (List.mem_cons_self ..)] at this; simp at this
    | cons y b' =>
      simp only [List.cons_append, List.cons.injEq] at h
      obtain ⟨e, hh⟩ := ih (fun c hc => ha c (List.mem_cons_of_mem _ hc)) (fun c hc => hb c (List.mem_cons_of_mem _ hc)) h.2
      exact ⟨by rw [h.1, e], hh⟩

/-! ### integers -/

theorem natRepr_chars (n : Nat) : (Nat.repr n).toList ≠ [] ∧ ∀ c ∈ (Nat.repr n).toList, numCh c = true := by
  have h := (String.isNat_iff.mp (Nat.isNat_repr n))
  refine ⟨fun e => h.1 (String.toList_inj.mp (by rw [e]; rfl)), ?_⟩
  intro c hc
  rcases h.2.1 c hc with hd | hu
  · simp [numCh, hd]
  · -- an underscore never occurs in `Nat.repr`
    exfalso
    have : c.isDigit = true := by
      have := Nat.isDigit_of_mem_toDigits (b := 10) (n := n) (by omega) (by omega) (c := c)
        (by rw [← Nat.toList_repr]; exact hc)
      exact this
    rw [hu] at this; simp at this

theorem intRepr_chars (i : Int) : (toString i).toList ≠ [] ∧ ∀ c ∈ (toString i).toList, numCh c = true := by
  have e : toString i = i.repr := rfl
  rw [e, Int.repr_eq_if]
  split
  · exact natRepr_chars _
  · rw [String.toList_append]
    refine ⟨by simp, ?_⟩
    intro c hc
    rcases List.mem_append.mp hc with h | h
    · simp at h; subst h; decide
    · exact (natRepr_chars _).2 c h

theorem toString_int_inj {i j : Int} (h : toString i = toString j) : i = j := Int.repr_injective h

/-! ### strings -/

/-- the characters `escape` produces -/
def escL (l : List Char) : List Char := l.flatMap fun c => (escapeChar c).toList

theorem escape_toList (s : String) : (escape s).toList = escL s.toList := by
  unfold escape escL
  rw [String.toList_join, List.flatMap_map]

theorem escapeChar_cases (c : Char) :
    (c = '"' ∧ (escapeChar c).toList = ['\\', '"']) ∨ (c = '\\' ∧ (escapeChar c).toList = ['\\', '\\']) ∨
    (c = '\n' ∧ (escapeChar c).toList = ['\\', 'n']) ∨ (c = '\r' ∧ (escapeChar c).toList = ['\\', 'r']) ∨
    (c = '\t' ∧ (escapeChar c).toList = ['\\', 't']) ∨
    (c ≠ '"' ∧ c ≠ '\\' ∧ (escapeChar c).toList = [c]) := by
  unfold escapeChar
  by_cases h1 : c = '"'
  · left; subst h1; exact ⟨rfl, by decide⟩
  · by_cases h2 : c = '\\'
    · right; left; subst h2; exact ⟨rfl, by decide⟩
    · by_cases h3 : c = '\n'
      · right; right; left; subst h3; exact ⟨rfl, by decide⟩
      · by_cases h4 : c = '\r'
        · right; right; right; left; subst h4; exact ⟨rfl, by decide⟩
        · by_cases h5 : c = '\t'
          · right; right; right; right; left; subst h5; exact ⟨rfl, by decide⟩
          · right; right; right; right; right
            refine ⟨h1, h2, ?_⟩
            simp [h1, h2, h3, h4, h5]

theorem escL_cons (c : Char) (l : List Char) : escL (c :: l) = (escapeChar c).toList ++ escL l := by
  simp [escL]

/-- an escaped string followed by the closing quote determines the string and the rest -/
theorem escL_unique {a b r r' : List Char} (h : escL a ++ '"' :: r = escL b ++ '"' :: r') : a = b ∧ r = r' := by
  induction a generalizing b with
  | nil =>
    cases b with
    | nil => simp [escL] at h; exact ⟨rfl, h⟩
    | cons y b' =>
      rw [escL_cons] at h
      simp only [escL, List.flatMap_nil, List.nil_append] at h
      rcases escapeChar_cases y with ⟨_, e⟩ | ⟨_, e⟩ | ⟨_, e⟩ | ⟨_, e⟩ | ⟨_, e⟩ | ⟨hq, _, e⟩ <;>
        rw [e] at h <;> simp at h
      exact absurd h.1.symm hq
  | cons x a' ih =>
    cases b with
    | nil =>
      rw [escL_cons] at h
      simp only [escL, List.flatMap_nil, List.nil_append] at h
      rcases escapeChar_cases x with ⟨_, e⟩ | ⟨_, e⟩ | ⟨_, e⟩ | ⟨_, e⟩ | ⟨_, e⟩ | ⟨hq, _, e⟩ <;>
        rw [e] at h <;> simp at h
      exact absurd h.1 hq
    | cons y b' =>
      rw [escL_cons, escL_cons] at h
      rcases escapeChar_cases x with ⟨hx, e⟩ | ⟨hx, e⟩ | ⟨hx, e⟩ | ⟨hx, e⟩ | ⟨hx, e⟩ | ⟨hxq, hxb, e⟩ <;>
        rcases escapeChar_cases y with ⟨hy, e'⟩ | ⟨hy, e'⟩ | ⟨hy, e'⟩ | ⟨hy, e'⟩ | ⟨hy, e'⟩ | ⟨hyq, hyb, e'⟩ <;>
        rw [e, e'] at h <;> simp at h
      all_goals first
        | (obtain ⟨hh1, hh2⟩ := ih h; exact ⟨by rw [hx, hy, hh1], hh2⟩)
        | (exact absurd h.1.symm hyb)
        | (exact absurd h.1 hxb)
        | (obtain ⟨hh1, hh2⟩ := ih h.2; exact ⟨by rw [h.1, hh1], hh2⟩)

/-! ### the printer -/

theorem canonStrings_eq_map (l : List Canon) : canonStrings l = l.map canonString := by
  induction l with
  | nil => rfl
  | cons c l ih => simp [canonStrings, ih]

/-- the characters of the JSON text -/
def J (c : Canon) : List Char := (canonString c).toList

/-- the characters of the comma-separated elements of a list -/
def JL : List Canon → List Char
  | [] => []
  | [c] => J c
  | c :: c' :: rest => J c ++ ',' :: ' ' :: JL (c' :: rest)

theorem intercalate_eq_JL (l : List Canon) :
    [',', ' '].intercalate (l.map fun c => (canonString c).toList) = JL l := by
  induction l with
  | nil => rfl
  | cons c l ih =>
    cases l with
    | nil => simp [JL, J, List.intercalate]
    | cons c' rest =>
      have : [',', ' '].intercalate ((c :: c' :: rest).map fun c => (canonString c).toList) =
          (canonString c).toList ++ [',', ' '] ++ [',', ' '].intercalate ((c' :: rest).map fun c => (canonString c).toList) := by
        simp [List.intercalate]
      rw [this, ih]
      simp [JL, J]

theorem J_int (i : Int) : J (.int i) = (toString i).toList := by simp [J, canonString]
theorem J_str (s : String) : J (.str s) = '"' :: (escL s.toList ++ ['"']) := by
  simp only [J, canonString, String.toList_append, escape_toList]
  rfl
theorem J_list (l : List Canon) : J (.list l) = '[' :: (JL l ++ [']']) := by
  simp only [J, canonString, String.toList_append, String.toList_intercalate, canonStrings_eq_map, List.map_map]
  rw [← intercalate_eq_JL]
  rfl
theorem J_bool (b : Bool) : J (.bool b) = if b then ['t', 'r', 'u', 'e'] else ['f', 'a', 'l', 's', 'e'] := by
  cases b <;> simp [J, canonString] <;> decide
theorem J_null : J .null = ['n', 'u', 'l', 'l'] := by simp [J, canonString]

/-- sign and integer part of a printed float -/
def floatHead (n : Bool) (i : Nat) : List Char := (if n then ['-'] else []) ++ (Nat.repr i).toList
/-- the digits after the point -/
def floatDigits (ds : List (Fin 10)) : List Char := ds.map fun d => Nat.digitChar d.val

theorem J_float (n : Bool) (i : Nat) (d : Fin 10) (ds : List (Fin 10)) :
    J (.float n i d ds) = floatHead n i ++ '.' :: floatDigits (d :: ds) := by
  have e : toString i = Nat.repr i := rfl
  cases n <;>
    simp only [J, canonString, String.toList_append, digitsString, String.toList_ofList, floatHead, floatDigits, e] <;>
    simp <;> rfl

theorem natRepr_digits (n : Nat) : ∀ c ∈ (Nat.repr n).toList, c.isDigit = true := by
  intro c hc
  exact Nat.isDigit_of_mem_toDigits (b := 10) (n := n) (by omega) (by omega) (c := c) (by rw [← Nat.toList_repr]; exact hc)

theorem floatHead_chars (n : Bool) (i : Nat) : floatHead n i ≠ [] ∧ ∀ c ∈ floatHead n i, numCh c = true := by
  unfold floatHead
  refine ⟨?_, ?_⟩
  · intro e
    have := (natRepr_chars i).1
    cases n
    · simp only [Bool.false_eq_true, if_false, List.nil_append] at e; exact this e
    · simp at e
  · intro c hc
    rcases List.mem_append.mp hc with h | h
    · cases n <;> simp at h
      subst h; decide
    · exact (natRepr_chars i).2 c h

theorem floatDigits_chars (ds : List (Fin 10)) : ∀ c ∈ floatDigits ds, c.isDigit = true := by
  intro c hc
  unfold floatDigits at hc
  obtain ⟨d, _, rfl⟩ := List.mem_map.mp hc
  have : ∀ d : Fin 10, (Nat.digitChar d.val).isDigit = true := by decide
  exact this d

theorem digitChar_fin_inj : ∀ a b : Fin 10, Nat.digitChar a.val = Nat.digitChar b.val → a = b := by decide

theorem floatDigits_inj {a b : List (Fin 10)} (h : floatDigits a = floatDigits b) : a = b := by
  unfold floatDigits at h
  exact (List.map_inj_right (fun x y e => digitChar_fin_inj x y e)).mp h

theorem floatHead_inj {n n' : Bool} {i i' : Nat} (h : floatHead n i = floatHead n' i') : n = n' ∧ i = i' := by
  unfold floatHead at h
  have hd := fun (k : Nat) (c : Char) (hc : c ∈ (Nat.repr k).toList) => natRepr_digits k c hc
  have hne := fun (k : Nat) => (natRepr_chars k).1
  cases n <;> cases n' <;>
    simp only [Bool.false_eq_true, if_false, if_true, List.nil_append, List.cons_append, List.cons.injEq, true_and] at h
  · exact ⟨rfl, Nat.repr_injective (String.toList_inj.mp h)⟩
  · exfalso
    cases hr : (Nat.repr i).toList with
    | nil => exact hne i hr
    | cons ch rest =>
      rw [hr] at h
      simp only [List.cons.injEq] at h
      have := hd i ch (by rw [hr]; exact List.mem_cons_self ..)
      rw [h.1] at this; simp at this
  · exfalso
    cases hr : (Nat.repr i').toList with
    | nil => exact hne i' hr
    | cons ch rest =>
      rw [hr] at h
      simp only [List.cons.injEq] at h
      have := hd i' ch (by rw [hr]; exact List.mem_cons_self ..)
      rw [← h.1] at this; simp at this
  · exact ⟨rfl, Nat.repr_injective (String.toList_inj.mp h)⟩

theorem okRest_not_numCh {x : List Char} (hx : OkRest x) : ∀ c, x.head? = some c → numCh c = false := by
  intro c hc
  rcases hx c hc with e | e <;> subst e <;> decide

theorem okRest_not_digit {x : List Char} (hx : OkRest x) : ∀ c, x.head? = some c → c.isDigit = false := by
  intro c hc
  rcases hx c hc with e | e <;> subst e <;> decide

theorem dot_not_numCh (x : List Char) : ∀ c, ('.' :: x).head? = some c → numCh c = false := by
  intro c hc; simp at hc; subst hc; decide

/-- an integer is never a prefix-with-admissible-rest of a float's text -/
theorem J_int_float_ne (i : Int) (n : Bool) (k : Nat) (d : Fin 10) (ds : List (Fin 10)) {r r' : List Char} (hr : OkRest r) :
    J (.int i) ++ r ≠ J (.float n k d ds) ++ r' := by
  intro h
  rw [J_int, J_float, List.append_assoc] at h
  obtain ⟨_, e2⟩ := span_unique (intRepr_chars i).2 (floatHead_chars n k).2 (okRest_not_numCh hr) (dot_not_numCh _) h
  have := hr '.' (by rw [e2]; rfl)
  rcases this with e | e <;> exact absurd e (by decide)

/-- which kind of value a first character announces -/
def headClass : Canon → Nat
  | .int _ => 0
  | .float _ _ _ _ => 0
  | .str _ => 1
  | .list _ => 2
  | .bool _ => 3
  | .null => 4

def charClass (c : Char) : Nat :=
  if numCh c then 0 else if c = '"' then 1 else if c = '[' then 2 else if c = 't' ∨ c = 'f' then 3 else if c = 'n' then 4 else 9

/-- the first character tells the kind of value -/
theorem J_head (c : Canon) : ∃ ch rest, J c = ch :: rest ∧ charClass ch = headClass c := by
  cases c with
  | int i =>
    have := intRepr_chars i
    rw [J_int]
    cases h : (toString i).toList with
    | nil => exact absurd h this.1
    | cons ch rest =>
      have := this.2 ch (by rw [h]; exact List.mem_cons_self ..)
      exact ⟨ch, rest, rfl, by simp [charClass, headClass, this]⟩
  | str s => exact ⟨'"', _, J_str s, by show charClass '"' = 1; decide⟩
  | list l => exact ⟨'[', _, J_list l, by show charClass '[' = 2; decide⟩
  | bool b =>
    cases b
    · exact ⟨'f', _, by rw [J_bool]; rfl, by show charClass 'f' = 3; decide⟩
    · exact ⟨'t', _, by rw [J_bool]; rfl, by show charClass 't' = 3; decide⟩
  | null => exact ⟨'n', _, J_null, by show charClass 'n' = 4; decide⟩
  | float n i d ds =>
    have := floatHead_chars n i
    rw [J_float]
    cases h : floatHead n i with
    | nil => exact absurd h this.1
    | cons ch rest =>
      have := this.2 ch (by rw [h]; exact List.mem_cons_self ..)
      exact ⟨ch, _, rfl, by simp [charClass, headClass, this]⟩

theorem J_kind_mismatch {c c' : Canon} {r r' : List Char} (hk : headClass c ≠ headClass c') : J c ++ r ≠ J c' ++ r' := by
  obtain ⟨ch, rest, e, h1⟩ := J_head c
  obtain ⟨ch', rest', e', h1'⟩ := J_head c'
  intro h
  rw [e, e'] at h
  simp only [List.cons_append, List.cons.injEq] at h
  rw [h.1] at h1
  exact hk (h1.symm.trans h1')

theorem J_head_ne_close (c : Canon) (rest : List Char) : J c ≠ ']' :: rest := by
  obtain ⟨ch, rest', e, hk⟩ := J_head c
  intro h
  rw [e] at h
  simp only [List.cons.injEq] at h
  rw [h.1] at hk
  have : charClass ']' = 9 := by decide
  rw [this] at hk
  cases c <;> simp [headClass] at hk

mutual
/-- a printed value followed by an admissible rest determines the value and the rest -/
theorem J_unique : ∀ (c c' : Canon) (r r' : List Char), OkRest r → OkRest r' → J c ++ r = J c' ++ r' → c = c' ∧ r = r'
  | .int i, .int j, r, r', hr, hr', h => by
      rw [J_int, J_int] at h
      obtain ⟨e1, e2⟩ := span_unique (intRepr_chars i).2 (intRepr_chars j).2 (okRest_not_numCh hr) (okRest_not_numCh hr') h
      exact ⟨by rw [toString_int_inj (String.toList_inj.mp e1)], e2⟩
  | .str s, .str t, r, r', _, _, h => by
      rw [J_str, J_str] at h
      simp only [List.cons_append, List.cons.injEq, true_and, List.append_assoc, List.nil_append] at h
      obtain ⟨e1, e2⟩ := escL_unique h
      exact ⟨by rw [String.toList_inj.mp e1], e2⟩
  | .list l, .list l', r, r', _, _, h => by
      rw [J_list, J_list] at h
      simp only [List.cons_append, List.cons.injEq, true_and, List.append_assoc, List.nil_append] at h
      obtain ⟨e1, e2⟩ := JL_unique l l' r r' h
      exact ⟨by rw [e1], e2⟩
  | .bool b, .bool b', r, r', _, _, h => by
      rw [J_bool, J_bool] at h
      cases b <;> cases b' <;> simp at h
      · exact ⟨rfl, h⟩
      · exact ⟨rfl, h⟩
  | .null, .null, r, r', _, _, h => by
      rw [J_null] at h
      simp at h
      exact ⟨rfl, h⟩
  | .float n i d ds, .float n' i' d' ds', r, r', hr, hr', h => by
      rw [J_float, J_float, List.append_assoc, List.append_assoc] at h
      obtain ⟨e1, e2⟩ := span_unique (floatHead_chars n i).2 (floatHead_chars n' i').2 (dot_not_numCh _) (dot_not_numCh _) h
      simp only [List.cons.injEq, true_and] at e2
      obtain ⟨e3, e4⟩ := span_unique (floatDigits_chars _) (floatDigits_chars _) (okRest_not_digit hr) (okRest_not_digit hr') e2
      obtain ⟨a, b⟩ := floatHead_inj e1
      have := floatDigits_inj e3
      simp only [List.cons.injEq] at this
      exact ⟨by rw [a, b, this.1, this.2], e4⟩
  | .int i, .str t, r, r', _, _, h => absurd h (J_kind_mismatch (by simp [headClass]))
  | .int i, .list l', r, r', _, _, h => absurd h (J_kind_mismatch (by simp [headClass]))
  | .int i, .bool b', r, r', _, _, h => absurd h (J_kind_mismatch (by simp [headClass]))
  | .int i, .null, r, r', _, _, h => absurd h (J_kind_mismatch (by simp [headClass]))
  | .int i, .float n' i' d' ds', r, r', hr, _, h => absurd h (J_int_float_ne i n' i' d' ds' hr)
  | .str s, .int j, r, r', _, _, h => absurd h (J_kind_mismatch (by simp [headClass]))
  | .str s, .list l', r, r', _, _, h => absurd h (J_kind_mismatch (by simp [headClass]))
  | .str s, .bool b', r, r', _, _, h => absurd h (J_kind_mismatch (by simp [headClass]))
  | .str s, .null, r, r', _, _, h => absurd h (J_kind_mismatch (by simp [headClass]))
  | .str s, .float n' i' d' ds', r, r', _, _, h => absurd h (J_kind_mismatch (by simp [headClass]))
  | .list l, .int j, r, r', _, _, h => absurd h (J_kind_mismatch (by simp [headClass]))
  | .list l, .str t, r, r', _, _, h => absurd h (J_kind_mismatch (by simp [headClass]))
  | .list l, .bool b', r, r', _, _, h => absurd h (J_kind_mismatch (by simp [headClass]))
  | .list l, .null, r, r', _, _, h => absurd h (J_kind_mismatch (by simp [headClass]))
  | .list l, .float n' i' d' ds', r, r', _, _, h => absurd h (J_kind_mismatch (by simp [headClass]))
  | .bool b, .int j, r, r', _, _, h => absurd h (J_kind_mismatch (by simp [headClass]))
  | .bool b, .str t, r, r', _, _, h => absurd h (J_kind_mismatch (by simp [headClass]))
  | .bool b, .list l', r, r', _, _, h => absurd h (J_kind_mismatch (by simp [headClass]))
  | .bool b, .null, r, r', _, _, h => absurd h (J_kind_mismatch (by simp [headClass]))
  | .bool b, .float n' i' d' ds', r, r', _, _, h => absurd h (J_kind_mismatch (by simp [headClass]))
  | .null, .int j, r, r', _, _, h => absurd h (J_kind_mismatch (by simp [headClass]))
  | .null, .str t, r, r', _, _, h => absurd h (J_kind_mismatch (by simp [headClass]))
  | .null, .list l', r, r', _, _, h => absurd h (J_kind_mismatch (by simp [headClass]))
  | .null, .bool b', r, r', _, _, h => absurd h (J_kind_mismatch (by simp [headClass]))
  | .null, .float n' i' d' ds', r, r', _, _, h => absurd h (J_kind_mismatch (by simp [headClass]))
  | .float n i d ds, .int j, r, r', _, hr', h => absurd h.symm (J_int_float_ne j n i d ds hr')
  | .float n i d ds, .str t, r, r', _, _, h => absurd h (J_kind_mismatch (by simp [headClass]))
  | .float n i d ds, .list l', r, r', _, _, h => absurd h (J_kind_mismatch (by simp [headClass]))
  | .float n i d ds, .bool b', r, r', _, _, h => absurd h (J_kind_mismatch (by simp [headClass]))
  | .float n i d ds, .null, r, r', _, _, h => absurd h (J_kind_mismatch (by simp [headClass]))
/-- the elements of a list followed by the closing bracket determine the list and the rest -/
theorem JL_unique : ∀ (l l' : List Canon) (r r' : List Char), JL l ++ ']' :: r = JL l' ++ ']' :: r' → l = l' ∧ r = r'
  | [], [], r, r', h => by simp [JL] at h; exact ⟨rfl, h⟩
  | [], c' :: rest', r, r', h => by
      exfalso
      simp only [JL, List.nil_append] at h
      cases rest' with
      | nil =>
        simp only [JL] at h
        obtain ⟨ch, rest, e, _⟩ := J_head c'
        rw [e] at h; simp only [List.cons_append, List.cons.injEq] at h
        exact J_head_ne_close c' rest (by rw [e, ← h.1])
      | cons c'' rest'' =>
        simp only [JL] at h
        obtain ⟨ch, rest, e, _⟩ := J_head c'
        rw [e] at h; simp only [List.cons_append, List.cons.injEq] at h
        exact J_head_ne_close c' rest (by rw [e, ← h.1])
  | c :: rest, [], r, r', h => by
      exfalso
      simp only [JL, List.nil_append] at h
      cases rest with
      | nil =>
        simp only [JL] at h
        obtain ⟨ch, rest, e, _⟩ := J_head c
        rw [e] at h; simp only [List.cons_append, List.cons.injEq] at h
        exact J_head_ne_close c rest (by rw [e, h.1])
      | cons c'' rest'' =>
        simp only [JL] at h
        obtain ⟨ch, rest, e, _⟩ := J_head c
        rw [e] at h; simp only [List.cons_append, List.cons.injEq] at h
        exact J_head_ne_close c rest (by rw [e, h.1])
  | [c], [c'], r, r', h => by
      simp only [JL] at h
      obtain ⟨e1, e2⟩ := J_unique c c' _ _ (okRest_close r) (okRest_close r') h
      simp at e2
      exact ⟨by rw [e1], e2⟩
  | [c], c' :: c'' :: rest', r, r', h => by
      exfalso
      simp only [JL, List.append_assoc, List.cons_append] at h
      obtain ⟨_, e2⟩ := J_unique c c' _ _ (okRest_close r) (okRest_comma _) h
      simp at e2
  | c :: c'' :: rest, [c'], r, r', h => by
      exfalso
      simp only [JL, List.append_assoc, List.cons_append] at h
      obtain ⟨_, e2⟩ := J_unique c c' _ _ (okRest_comma _) (okRest_close r') h
      simp at e2
  | c :: c₂ :: rest, c' :: c₂' :: rest', r, r', h => by
      simp only [JL, List.append_assoc, List.cons_append] at h
      obtain ⟨e1, e2⟩ := J_unique c c' _ _ (okRest_comma _) (okRest_comma _) h
      simp only [List.cons.injEq, true_and] at e2
      obtain ⟨e3, e4⟩ := JL_unique (c₂ :: rest) (c₂' :: rest') r r' e2
      exact ⟨by rw [e1, e3], e4⟩
end

/-- **The JSON printer is injective**: different canonical forms give different texts. -/
theorem canonString_injective : Function.Injective canonString := by
  intro c c' h
  have : J c ++ [] = J c' ++ [] := by simp [J, h]
  exact (J_unique c c' [] [] okRest_nil okRest_nil this).1

end Strax.Lineage
