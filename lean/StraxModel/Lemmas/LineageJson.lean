import StraxModel.Model.Lineage
import Std.Data.String.ToInt
/-
  Helper lemmas for theory T8 (property C02), part 8: the JSON printer `canonString` is injective
  on canonical forms, so "the hash function is injective on the JSON texts" is all that has to be
  assumed about SHA-1.
-/
namespace Strax.Lineage
open Strax

/-- the characters of a printed integer -/
def numCh (c : Char) : Bool := c.isDigit || c == '-'

/-- what may follow a complete JSON value inside the text: nothing, a comma or a closing bracket -/
def OkRest (r : List Char) : Prop := ∀ c, r.head? = some c → c = ',' ∨ c = ']'

theorem okRest_nil : OkRest [] := by intro c h; simp at h
theorem okRest_comma (r : List Char) : OkRest (',' :: r) := by intro c h; simp at h; exact Or.inl h.symm
theorem okRest_close (r : List Char) : OkRest (']' :: r) := by intro c h; simp at h; exact Or.inr h.symm

theorem span_unique {p : Char → Bool} {a b r r' : List Char} (ha : ∀ c ∈ a, p c = true) (hb : ∀ c ∈ b, p c = true)
    (hr : ∀ c, r.head? = some c → p c = false) (hr' : ∀ c, r'.head? = some c → p c = false)
    (h : a ++ r = b ++ r') : a = b ∧ r = r' := by
  induction a generalizing b with
  | nil =>
    cases b with
    | nil => exact ⟨rfl, by simpa using h⟩
    | cons y b' =>
      simp at h
      have := hr y (by rw [h]; rfl)
      rw [hb y (List.mem_cons_self ..)] at this; simp at this
  | cons x a' ih =>
    cases b with
    | nil =>
      simp at h
      have := hr' x (by rw [← h]; rfl)
      rw [ha x (List.mem_cons_self ..)] at this; simp at this
    | cons y b' =>
      simp only [List.cons_append, List.cons.injEq] at h
      obtain ⟨e, hh⟩ := ih (fun c hc => ha c (List.mem_cons_of_mem _ hc)) (fun c hc => hb c (List.mem_cons_of_mem _ hc)) h.2
      exact ⟨by rw [h.1, e], hh⟩

/-! ### integers -/

theorem natRepr_chars (n : Nat) : (Nat.repr n).toList ≠ [] ∧ ∀ c ∈ (Nat.repr n).toList, numCh c = true := by
  have h := (String.isNat_iff.mp (Nat.isNat_repr n))
  refine ⟨fun e => h.1 (String.toList_inj.mp (by rw [e]; rfl)), ?_⟩
  intro c hc
  rcases h.2.1 c hc with hd | hu
  · simp [numCh, hd]
  · -- an underscore never occurs in `Nat.repr`
    exfalso
    have : c.isDigit = true := by
      have := Nat.isDigit_of_mem_toDigits (b := 10) (n := n) (by omega) (by omega) (c := c)
        (by rw [← Nat.toList_repr]; exact hc)
      exact this
    rw [hu] at this; simp at this

theorem intRepr_chars (i : Int) : (toString i).toList ≠ [] ∧ ∀ c ∈ (toString i).toList, numCh c = true := by
  have e : toString i = i.repr := rfl
  rw [e, Int.repr_eq_if]
  split
  · exact natRepr_chars _
  · rw [String.toList_append]
    refine ⟨by simp, ?_⟩
    intro c hc
    rcases List.mem_append.mp hc with h | h
    · simp at h; subst h; decide
    · exact (natRepr_chars _).2 c h

theorem toString_int_inj {i j : Int} (h : toString i = toString j) : i = j := Int.repr_injective h

/-! ### strings -/

/-- the characters `escape` produces -/
def escL (l : List Char) : List Char := l.flatMap fun c => (escapeChar c).toList

theorem escape_toList (s : String) : (escape s).toList = escL s.toList := by
  unfold escape escL
  rw [String.toList_join, List.flatMap_map]

theorem escapeChar_cases (c : Char) :
    (c = '"' ∧ (escapeChar c).toList = ['\\', '"']) ∨ (c = '\\' ∧ (escapeChar c).toList = ['\\', '\\']) ∨
    (c = '\n' ∧ (escapeChar c).toList = ['\\', 'n']) ∨ (c = '\r' ∧ (escapeChar c).toList = ['\\', 'r']) ∨
    (c = '\t' ∧ (escapeChar c).toList = ['\\', 't']) ∨
    (c ≠ '"' ∧ c ≠ '\\' ∧ (escapeChar c).toList = [c]) := by
  unfold escapeChar
  by_cases h1 : c = '"'
  · left; subst h1; exact ⟨rfl, by decide⟩
  · by_cases h2 : c = '\\'
    · right; left; subst h2; exact ⟨rfl, by decide⟩
    · by_cases h3 : c = '\n'
      · right; right; left; subst h3; exact ⟨rfl, by decide⟩
      · by_cases h4 : c = '\r'
        · right; right; right; left; subst h4; exact ⟨rfl, by decide⟩
        · by_cases h5 : c = '\t'
          · right; right; right; right; left; subst h5; exact ⟨rfl, by decide⟩
          · right; right; right; right; right
            refine ⟨h1, h2, ?_⟩
            simp [h1, h2, h3, h4, h5]

theorem escL_cons (c : Char) (l : List Char) : escL (c :: l) = (escapeChar c).toList ++ escL l := by
  simp [escL]

/-- an escaped string followed by the closing quote determines the string and the rest -/
theorem escL_unique {a b r r' : List Char} (h : escL a ++ '"' :: r = escL b ++ '"' :: r') : a = b ∧ r = r' := by
  induction a generalizing b with
  | nil =>
    cases b with
    | nil => simp [escL] at h; exact ⟨rfl, h⟩
    | cons y b' =>
      rw [escL_cons] at h
      simp only [escL, List.flatMap_nil, List.nil_append] at h
      rcases escapeChar_cases y with ⟨_, e⟩ | ⟨_, e⟩ | ⟨_, e⟩ | ⟨_, e⟩ | ⟨_, e⟩ | ⟨hq, _, e⟩ <;>
        rw [e] at h <;> simp at h
      exact absurd h.1.symm hq
  | cons x a' ih =>
    cases b with
    | nil =>
      rw [escL_cons] at h
      simp only [escL, List.flatMap_nil, List.nil_append] at h
      rcases escapeChar_cases x with ⟨_, e⟩ | ⟨_, e⟩ | ⟨_, e⟩ | ⟨_, e⟩ | ⟨_, e⟩ | ⟨hq, _, e⟩ <;>
        rw [e] at h <;> simp at h
      exact absurd h.1 hq
    | cons y b' =>
      rw [escL_cons, escL_cons] at h
      rcases escapeChar_cases x with ⟨hx, e⟩ | ⟨hx, e⟩ | ⟨hx, e⟩ | ⟨hx, e⟩ | ⟨hx, e⟩ | ⟨hxq, hxb, e⟩ <;>
        rcases escapeChar_cases y with ⟨hy, e'⟩ | ⟨hy, e'⟩ | ⟨hy, e'⟩ | ⟨hy, e'⟩ | ⟨hy, e'⟩ | ⟨hyq, hyb, e'⟩ <;>
        rw [e, e'] at h <;> simp at h
      all_goals first
        | (obtain ⟨hh1, hh2⟩ := ih h; exact ⟨by rw [hx, hy, hh1], hh2⟩)
        | (exact absurd h.1.symm hyb)
        | (exact absurd h.1 hxb)
        | (obtain ⟨hh1, hh2⟩ := ih h.2; exact ⟨by rw [h.1, hh1], hh2⟩)

/-! ### the printer -/

theorem canonStrings_eq_map (l : List Canon) : canonStrings l = l.map canonString := by
  induction l with
  | nil => rfl
  | cons c l ih => simp [canonStrings, ih]

/-- the characters of the JSON text -/
def J (c : Canon) : List Char := (canonString c).toList

/-- the characters of the comma-separated elements of a list -/
def JL : List Canon → List Char
  | [] => []
  | [c] => J c
  | c :: c' :: rest => J c ++ ',' :: ' ' :: JL (c' :: rest)

theorem intercalate_eq_JL (l : List Canon) :
    [',', ' '].intercalate (l.map fun c => (canonString c).toList) = JL l := by
  induction l with
  | nil => rfl
  | cons c l ih =>
    cases l with
    | nil => simp [JL, J, List.intercalate]
    | cons c' rest =>
      have : [',', ' '].intercalate ((c :: c' :: rest).map fun c => (canonString c).toList) =
          (canonString c).toList ++ [',', ' '] ++ [',', ' '].intercalate ((c' :: rest).map fun c => (canonString c).toList) := by
        simp [List.intercalate]
      rw [this, ih]
      simp [JL, J]

theorem J_int (i : Int) : J (.int i) = (toString i).toList := by simp [J, canonString]
theorem J_str (s : String) : J (.str s) = '"' :: (escL s.toList ++ ['"']) := by
  simp only [J, canonString, String.toList_append, escape_toList]
  rfl
theorem J_list (l : List Canon) : J (.list l) = '[' :: (JL l ++ [']']) := by
  simp only [J, canonString, String.toList_append, String.toList_intercalate, canonStrings_eq_map, List.map_map]
  rw [← intercalate_eq_JL]
  rfl

/-- the first character tells the kind of value -/
theorem J_head (c : Canon) : ∃ ch rest, J c = ch :: rest ∧
    (match c with
     | .int _ => numCh ch = true
     | .str _ => ch = '"'
     | .list _ => ch = '[') := by
  cases c with
  | int i =>
    have := intRepr_chars i
    rw [J_int]
    cases h : (toString i).toList with
    | nil => exact absurd h this.1
    | cons ch rest => exact ⟨ch, rest, rfl, this.2 ch (by rw [h]; exact List.mem_cons_self ..)⟩
  | str s => exact ⟨'"', _, J_str s, rfl⟩
  | list l => exact ⟨'[', _, J_list l, rfl⟩

theorem J_head_ne_close (c : Canon) (rest : List Char) : J c ≠ ']' :: rest := by
  obtain ⟨ch, rest', e, hk⟩ := J_head c
  intro h
  rw [e] at h
  simp only [List.cons.injEq] at h
  cases c with
  | int i => simp only at hk; rw [h.1] at hk; exact absurd hk (by decide)
  | str s => simp only at hk; rw [h.1] at hk; exact absurd hk (by decide)
  | list l => simp only at hk; rw [h.1] at hk; exact absurd hk (by decide)

mutual
/-- a printed value followed by an admissible rest determines the value and the rest -/
theorem J_unique : ∀ (c c' : Canon) (r r' : List Char), OkRest r → OkRest r' → J c ++ r = J c' ++ r' → c = c' ∧ r = r'
  | .int i, .int j, r, r', hr, hr', h => by
      rw [J_int, J_int] at h
      have hp : ∀ (x : List Char), OkRest x → ∀ c, x.head? = some c → numCh c = false := by
        intro x hx c hc
        rcases hx c hc with e | e <;> subst e <;> decide
      obtain ⟨e1, e2⟩ := span_unique (intRepr_chars i).2 (intRepr_chars j).2 (hp r hr) (hp r' hr') h
      exact ⟨by rw [toString_int_inj (String.toList_inj.mp e1)], e2⟩
  | .str s, .str t, r, r', _, _, h => by
      rw [J_str, J_str] at h
      simp only [List.cons_append, List.cons.injEq, true_and, List.append_assoc, List.nil_append] at h
      obtain ⟨e1, e2⟩ := escL_unique h
      exact ⟨by rw [String.toList_inj.mp e1], e2⟩
  | .list l, .list l', r, r', _, _, h => by
      rw [J_list, J_list] at h
      simp only [List.cons_append, List.cons.injEq, true_and, List.append_assoc, List.nil_append] at h
      obtain ⟨e1, e2⟩ := JL_unique l l' r r' h
      exact ⟨by rw [e1], e2⟩
  | .int i, .str s, r, r', _, _, h => by
      obtain ⟨ch, rest, e, hk⟩ := J_head (.int i)
      rw [e, J_str] at h; simp only [List.cons_append, List.cons.injEq] at h
      simp only at hk; rw [h.1] at hk; exact absurd hk (by decide)
  | .int i, .list l, r, r', _, _, h => by
      obtain ⟨ch, rest, e, hk⟩ := J_head (.int i)
      rw [e, J_list] at h; simp only [List.cons_append, List.cons.injEq] at h
      simp only at hk; rw [h.1] at hk; exact absurd hk (by decide)
  | .str s, .int i, r, r', _, _, h => by
      obtain ⟨ch, rest, e, hk⟩ := J_head (.int i)
      rw [e, J_str] at h; simp only [List.cons_append, List.cons.injEq] at h
      simp only at hk; rw [← h.1] at hk; exact absurd hk (by decide)
  | .list l, .int i, r, r', _, _, h => by
      obtain ⟨ch, rest, e, hk⟩ := J_head (.int i)
      rw [e, J_list] at h; simp only [List.cons_append, List.cons.injEq] at h
      simp only at hk; rw [← h.1] at hk; exact absurd hk (by decide)
  | .str s, .list l, r, r', _, _, h => by
      rw [J_str, J_list] at h; simp only [List.cons_append, List.cons.injEq] at h
      exact absurd h.1 (by decide)
  | .list l, .str s, r, r', _, _, h => by
      rw [J_str, J_list] at h; simp only [List.cons_append, List.cons.injEq] at h
      exact absurd h.1 (by decide)
/-- the elements of a list followed by the closing bracket determine the list and the rest -/
theorem JL_unique : ∀ (l l' : List Canon) (r r' : List Char), JL l ++ ']' :: r = JL l' ++ ']' :: r' → l = l' ∧ r = r'
  | [], [], r, r', h => by simp [JL] at h; exact ⟨rfl, h⟩
  | [], c' :: rest', r, r', h => by
      exfalso
      simp only [JL, List.nil_append] at h
      cases rest' with
      | nil =>
        simp only [JL] at h
        obtain ⟨ch, rest, e, _⟩ := J_head c'
        rw [e] at h; simp only [List.cons_append, List.cons.injEq] at h
        exact J_head_ne_close c' rest (by rw [e, ← h.1])
      | cons c'' rest'' =>
        simp only [JL] at h
        obtain ⟨ch, rest, e, _⟩ := J_head c'
        rw [e] at h; simp only [List.cons_append, List.cons.injEq] at h
        exact J_head_ne_close c' rest (by rw [e, ← h.1])
  | c :: rest, [], r, r', h => by
      exfalso
      simp only [JL, List.nil_append] at h
      cases rest with
      | nil =>
        simp only [JL] at h
        obtain ⟨ch, rest, e, _⟩ := J_head c
        rw [e] at h; simp only [List.cons_append, List.cons.injEq] at h
        exact J_head_ne_close c rest (by rw [e, h.1])
      | cons c'' rest'' =>
        simp only [JL] at h
        obtain ⟨ch, rest, e, _⟩ := J_head c
        rw [e] at h; simp only [List.cons_append, List.cons.injEq] at h
        exact J_head_ne_close c rest (by rw [e, h.1])
  | [c], [c'], r, r', h => by
      simp only [JL] at h
      obtain ⟨e1, e2⟩ := J_unique c c' _ _ (okRest_close r) (okRest_close r') h
      simp at e2
      exact ⟨by rw [e1], e2⟩
  | [c], c' :: c'' :: rest', r, r', h => by
      exfalso
      simp only [JL, List.append_assoc, List.cons_append] at h
      obtain ⟨_, e2⟩ := J_unique c c' _ _ (okRest_close r) (okRest_comma _) h
      simp at e2
  | c :: c'' :: rest, [c'], r, r', h => by
      exfalso
      simp only [JL, List.append_assoc, List.cons_append] at h
      obtain ⟨_, e2⟩ := J_unique c c' _ _ (okRest_comma _) (okRest_close r') h
      simp at e2
  | c :: c₂ :: rest, c' :: c₂' :: rest', r, r', h => by
      simp only [JL, List.append_assoc, List.cons_append] at h
      obtain ⟨e1, e2⟩ := J_unique c c' _ _ (okRest_comma _) (okRest_comma _) h
      simp only [List.cons.injEq, true_and] at e2
      obtain ⟨e3, e4⟩ := JL_unique (c₂ :: rest) (c₂' :: rest') r r' e2
      exact ⟨by rw [e1, e3], e4⟩
end

/-- **The JSON printer is injective**: different canonical forms give different texts. -/
theorem canonString_injective : Function.Injective canonString := by
  intro c c' h
  have : J c ++ [] = J c' ++ [] := by simp [J, h]
  exact (J_unique c c' [] [] okRest_nil okRest_nil this).1

end Strax.Lineage
