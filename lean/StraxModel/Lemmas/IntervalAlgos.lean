import StraxModel.Model.IntervalAlgos
/-
  Helper lemmas and specification-side definitions for property C17 (theory T13).
  The specifications are the *direct quadratic definitions*: every answer is a `find` / `count` /
  `filter` over the whole second array, with no pointer carried from one row to the next.
-/
namespace Strax.IntervalAlgos
open Strax

deriving instance DecidableEq for Except

/-! ### sortedness deciders: what a chain of adjacent comparisons gives -/

theorem sortedByTimeB_tail {a : Row} {l : List Row} (h : sortedByTimeB (a :: l) = true) :
    sortedByTimeB l = true := by
  cases l with
  | nil => rfl
  | cons b rest => simp [sortedByTimeB] at h; exact h.2

theorem sortedByTimeB_head_le {a : Row} {l : List Row} (h : sortedByTimeB (a :: l) = true) :
    ∀ x ∈ l, a.time ≤ x.time := by
  induction l generalizing a with
  | nil => intro x hx; cases hx
  | cons b rest ih =>
    simp [sortedByTimeB] at h
    intro x hx
    cases hx with
    | head => exact h.1
    | tail _ hx' => exact Int.le_trans h.1 (ih h.2 x hx')

theorem sortedByEndB_tail {a : Row} {l : List Row} (h : sortedByEndB (a :: l) = true) :
    sortedByEndB l = true := by
  cases l with
  | nil => rfl
  | cons b rest => simp [sortedByEndB] at h; exact h.2

theorem sortedByEndB_head_le {a : Row} {l : List Row} (h : sortedByEndB (a :: l) = true) :
    ∀ x ∈ l, a.endt ≤ x.endt := by
  induction l generalizing a with
  | nil => intro x hx; cases hx
  | cons b rest ih =>
    simp [sortedByEndB] at h
    intro x hx
    cases hx with
    | head => exact h.1
    | tail _ hx' => exact Int.le_trans h.1 (ih h.2 x hx')

theorem nonOverlapB_tail {a : Row} {l : List Row} (h : nonOverlapB (a :: l) = true) :
    nonOverlapB l = true := by
  cases l with
  | nil => rfl
  | cons b rest => simp [nonOverlapB] at h; exact h.2

/-- in a time-sorted chain of non-overlapping rows every later row starts at or after the end of the first -/
theorem nonOverlapB_head_le {a : Row} {l : List Row} (hs : sortedByTimeB (a :: l) = true)
    (h : nonOverlapB (a :: l) = true) : ∀ x ∈ l, a.endt ≤ x.time := by
  cases l with
  | nil => intro x hx; cases hx
  | cons b rest =>
    simp [nonOverlapB] at h
    intro x hx
    cases hx with
    | head => exact h.1
    | tail _ hx' => exact Int.le_trans h.1 (sortedByTimeB_head_le (sortedByTimeB_tail hs) x hx')

theorem nonNegB_iff {l : List Row} : nonNegB l = true ↔ ∀ r ∈ l, r.time ≤ r.endt := by
  simp [nonNegB]

theorem positiveRowsB_iff {l : List Row} : positiveRowsB l = true ↔ ∀ r ∈ l, r.time < r.endt := by
  simp [positiveRowsB]

/-! ### `fully_contained_in` -/

/-- thing `a` lies in container `b`; a zero-length thing `[t,t)` is read as the instant `t`.  For a
thing of positive length the third conjunct follows from the second (`containedIn_eq_subsetOf`). -/
def containedIn (a b : Row) : Bool :=
  decide (b.time ≤ a.time) && decide (a.endt ≤ b.endt) && decide (a.time < b.endt)

/-- the plain subset relation of the half-open intervals `[a.time, a.endt) ⊆ [b.time, b.endt)` for non-empty `a` -/
def subsetOf (a b : Row) : Bool := decide (b.time ≤ a.time) && decide (a.endt ≤ b.endt)

theorem containedIn_eq_subsetOf {a b : Row} (h : a.time < a.endt) : containedIn a b = subsetOf a b := by
  simp only [containedIn, subsetOf]
  by_cases h1 : a.endt ≤ b.endt
  · have : a.time < b.endt := by omega
    simp [h1, this]
  · simp [h1]

/-- index of the first element satisfying `p` as an `Int`, `-1` when there is none, counted from `base` -/
def firstIdxFrom (base : Nat) (p : Row → Bool) (bs : List Row) : Int :=
  match bs.findIdx? p with
  | some j => ((base + j : Nat) : Int)
  | none => -1

/-- direct definition of `fully_contained_in`: for every thing, search all containers -/
def fcInSpec (contains : Row → Row → Bool) (things containers : List Row) : List Int :=
  things.map fun a => firstIdxFrom 0 (contains a) containers

theorem firstIdxFrom_nil (base : Nat) (p : Row → Bool) : firstIdxFrom base p [] = -1 := rfl

theorem firstIdxFrom_cons_false {base : Nat} {p : Row → Bool} {b : Row} {bs : List Row} (h : p b = false) :
    firstIdxFrom base p (b :: bs) = firstIdxFrom (base + 1) p bs := by
  simp only [firstIdxFrom, List.findIdx?_cons, h]
  cases List.findIdx? p bs with
  | none => simp
  | some j => simp; omega

theorem firstIdxFrom_cons_true {base : Nat} {p : Row → Bool} {b : Row} {bs : List Row} (h : p b = true) :
    firstIdxFrom base p (b :: bs) = (base : Int) := by
  simp [firstIdxFrom, List.findIdx?_cons, h]

theorem firstIdxFrom_all_false {base : Nat} {p : Row → Bool} {bs : List Row} (h : ∀ b ∈ bs, p b = false) :
    firstIdxFrom base p bs = -1 := by
  induction bs generalizing base with
  | nil => rfl
  | cons b bs ih =>
    rw [firstIdxFrom_cons_false (h b (List.mem_cons_self ..))]
    exact ih fun c hc => h c (List.mem_cons_of_mem _ hc)

/-- the central refinement lemma for `_fc_in`: started at container index `bi` on the remaining containers `bs`,
the loop computes for every thing the first remaining container that contains it. -/
theorem fcInLoop_eq (as : List Row) : ∀ (bs : List Row) (bi : Nat),
    sortedByTimeB as = true → sortedByTimeB bs = true → nonOverlapB bs = true →
    fcInLoop as bs bi = as.map fun a => firstIdxFrom bi (containedIn a) bs := by
  induction as with
  | nil => intros; rfl
  | cons a as ih =>
    intro bs
    induction bs with
    | nil =>
      intro bi _ _ _
      simp [fcInLoop, skipContainers, firstIdxFrom]
    | cons b rest ihb =>
      intro bi hsa hsb hnb
      have hsa' := sortedByTimeB_tail hsa
      have hle := sortedByTimeB_head_le hsa
      by_cases hskip : b.endt ≤ a.time
      · -- the container is skipped: it contains neither this thing nor any later one
        have hstep : fcInLoop (a :: as) (b :: rest) bi = fcInLoop (a :: as) rest (bi + 1) := by
          simp [fcInLoop, skipContainers, hskip]
        rw [hstep, ihb (bi + 1) hsa (sortedByTimeB_tail hsb) (nonOverlapB_tail hnb)]
        apply List.map_congr_left
        intro a' ha'
        have hta : a.time ≤ a'.time := by
          cases ha' with
          | head => exact Int.le_refl _
          | tail _ h => exact hle a' h
        have : containedIn a' b = false := by
          simp only [containedIn]
          have : ¬ a'.time < b.endt := by omega
          simp [this]
        rw [firstIdxFrom_cons_false this]
      · -- the pointer stays on `b`
        have hstep : fcInLoop (a :: as) (b :: rest) bi =
            (if b.time ≤ a.time ∧ a.endt ≤ b.endt then (bi : Int) else -1) :: fcInLoop as (b :: rest) bi := by
          simp [fcInLoop, skipContainers, hskip]
        rw [hstep, ih (b :: rest) bi hsa' hsb hnb, List.map_cons]
        congr 1
        by_cases hc : b.time ≤ a.time ∧ a.endt ≤ b.endt
        · have : containedIn a b = true := by
            simp only [containedIn]; have : a.time < b.endt := by omega
            simp [hc.1, hc.2, this]
          rw [firstIdxFrom_cons_true this, if_pos hc]
        · have hb : containedIn a b = false := by
            simp only [containedIn]
            by_cases h1 : b.time ≤ a.time
            · have : ¬ a.endt ≤ b.endt := fun h2 => hc ⟨h1, h2⟩
              simp [this]
            · simp [h1]
          have hrest : ∀ c ∈ rest, containedIn a c = false := by
            intro c hcm
            have := nonOverlapB_head_le hsb hnb c hcm
            simp only [containedIn]
            have : ¬ c.time ≤ a.time := by omega
            simp [this]
          rw [firstIdxFrom_cons_false hb, firstIdxFrom_all_false hrest, if_neg hc]

theorem fcInCore_eq_spec {things containers : List Row} (ht : sortedByTimeB things = true)
    (hc : sortedByTimeB containers = true) (hn : nonOverlapB containers = true) :
    fcInCore things containers = fcInSpec containedIn things containers :=
  fcInLoop_eq things containers 0 ht hc hn

theorem sanity_ok {things containers : List Row} (ht : sortedByTimeB things = true)
    (hc : sortedByTimeB containers = true) (hnt : nonNegB things = true) (hnc : nonNegB containers = true) :
    sanity things containers = .ok () := by
  simp [sanity, ht, hc, hnt, hnc]; rfl

theorem sanity_error {things containers : List Row}
    (h : sortedByTimeB things = false ∨ sortedByTimeB containers = false ∨ nonNegB things = false ∨
      nonNegB containers = false) : sanity things containers = .error Err.valueError := by
  unfold sanity
  rcases h with h | h | h | h <;> simp [h] <;> (repeat' split) <;> first | rfl | simp_all

/-! ### `overlap_indices` -/

/-- direct definition: index ranges (relative to `a1`, resp. `b1`) of `[a1, a1+nA) ∩ [b1, b1+nB)`, zeros when empty -/
def overlapSpec (a1 nA b1 nB : Int) : (Int × Int) × (Int × Int) :=
  let lo := max a1 b1
  let hi := min (a1 + nA) (b1 + nB)
  if lo < hi then ((lo - a1, hi - a1), (lo - b1, hi - b1)) else ((0, 0), (0, 0))

theorem overlapIndices_eq_spec (a1 nA b1 nB : Int) (ha : 0 ≤ nA) (hb : 0 ≤ nB) :
    overlapIndices a1 nA b1 nB = .ok (overlapSpec a1 nA b1 nB) := by
  unfold overlapIndices overlapSpec
  simp only [pure, Except.pure]
  grind

/-! ### `_find_break_i` -/

/-- row `i` starts at least `safeBreak` after everything before it (and after `notBefore`) has ended -/
def breakAt (data : List Row) (safeBreak notBefore : Int) (i : Nat) : Bool :=
  match data[i]? with
  | some d => decide (d.time ≥ maxEnd notBefore (data.take i) + safeBreak)
  | none => false

/-- direct definition: the first index `1 ≤ i < n` with a break in front of it -/
def findBreakSpec (data : List Row) (safeBreak notBefore : Int) : Except Err Nat :=
  match (List.range' 1 (data.length - 1)).find? (breakAt data safeBreak notBefore) with
  | some i => .ok i
  | none => .error Err.noBreakFound

theorem maxEnd_append (d : Int) (l₁ l₂ : List Row) : maxEnd d (l₁ ++ l₂) = maxEnd (maxEnd d l₁) l₂ := by
  induction l₁ generalizing d with
  | nil => rfl
  | cons r rs ih => simp [maxEnd, ih]

theorem findBreakLoop_eq (safe nb : Int) (ds : List Row) : ∀ (pre : List Row),
    findBreakLoop safe ds (maxEnd nb pre) pre.length =
      match (List.range' pre.length ds.length).find? (breakAt (pre ++ ds) safe nb) with
      | some i => .ok i
      | none => .error Err.noBreakFound := by
  induction ds with
  | nil => intro pre; simp [findBreakLoop]; rfl
  | cons d ds ih =>
    intro pre
    have hget : (pre ++ d :: ds)[pre.length]? = some d := by simp
    have htake : (pre ++ d :: ds).take pre.length = pre := by simp
    have hb : breakAt (pre ++ d :: ds) safe nb pre.length = decide (d.time ≥ maxEnd nb pre + safe) := by
      simp only [breakAt, hget, htake]
    simp only [findBreakLoop, List.length_cons, List.range'_succ, List.find?_cons, hb]
    by_cases h : d.time ≥ maxEnd nb pre + safe
    · simp [h]; rfl
    · simp only [h, decide_false, ite_false]
      have := ih (pre ++ [d])
      simp only [maxEnd_append, maxEnd, List.length_append, List.length_singleton, List.append_assoc,
        List.singleton_append] at this
      exact this

theorem findBreakI_eq_spec (data : List Row) (safe nb : Int) (h : 2 ≤ data.length) :
    findBreakI data safe nb = findBreakSpec data safe nb := by
  match data, h with
  | d0 :: d1 :: rest, _ =>
    have := findBreakLoop_eq safe nb (d1 :: rest) [d0]
    simp only [maxEnd, List.length_singleton, List.singleton_append] at this
    simp only [findBreakI, findBreakSpec, List.length_cons]
    rw [this]
    simp


/-! ### `touching_windows` -/

/-- direct definition: for every container, the number of things that end at or before the window starts, and the
number of things that start before the window ends -/
def touchSpec (things containers : List Row) (window : Int) : List (Nat × Nat) :=
  containers.map fun c =>
    (things.countP (fun x => decide (x.endt ≤ c.time - window)),
     things.countP (fun x => decide (x.time < c.endt + window)))

/-- thing `x` reaches to within `window` of container `c` -/
def touches (x c : Row) (window : Int) : Prop := c.time - window < x.endt ∧ x.time < c.endt + window

theorem countP_eq_zero_of {p : Row → Bool} {l : List Row} (h : ∀ x ∈ l, p x = false) : l.countP p = 0 := by
  induction l with
  | nil => rfl
  | cons a l ih =>
    rw [List.countP_cons, ih (fun x hx => h x (List.mem_cons_of_mem _ hx)), h a (List.mem_cons_self ..)]
    rfl

theorem leftPass_eq (w : Int) (cs : List Row) : ∀ (ts : List Row) (i : Nat),
    sortedByTimeB cs = true → sortedByEndB ts = true →
    leftPass w cs ts i = cs.map fun c => i + ts.countP (fun x => decide (x.endt ≤ c.time - w)) := by
  induction cs with
  | nil => intros; rfl
  | cons c cs ih =>
    intro ts
    induction ts with
    | nil =>
      intro i hc _
      simp only [leftPass, advanceLeft, List.map_cons, List.countP_nil, Nat.add_zero]
      rw [ih [] i (sortedByTimeB_tail hc) rfl]
      simp
    | cons x xs ihx =>
      intro i hc hx
      have hcle := sortedByTimeB_head_le hc
      by_cases hadv : x.endt ≤ c.time - w
      · have hstep : leftPass w (c :: cs) (x :: xs) i = leftPass w (c :: cs) xs (i + 1) := by
          simp [leftPass, advanceLeft, hadv]
        rw [hstep, ihx (i + 1) hc (sortedByEndB_tail hx)]
        apply List.map_congr_left
        intro c' hc'
        have : c.time ≤ c'.time := by
          cases hc' with
          | head => exact Int.le_refl _
          | tail _ h => exact hcle c' h
        have : x.endt ≤ c'.time - w := by omega
        rw [List.countP_cons]; simp [this]; omega
      · have hstep : leftPass w (c :: cs) (x :: xs) i = i :: leftPass w cs (x :: xs) i := by
          simp [leftPass, advanceLeft, hadv]
        rw [hstep, ih (x :: xs) i (sortedByTimeB_tail hc) hx, List.map_cons]
        congr 1
        have hxle := sortedByEndB_head_le hx
        rw [countP_eq_zero_of]
        · rfl
        · intro y hy
          have : x.endt ≤ y.endt := by
            cases hy with
            | head => exact Int.le_refl _
            | tail _ h => exact hxle y h
          have : ¬ y.endt ≤ c.time - w := by omega
          simp [this]

theorem rightPass_eq (w : Int) (cs : List (Row × Nat)) : ∀ (ts : List Row) (i : Nat),
    cs.Pairwise (fun p q => p.1.endt ≤ q.1.endt) → sortedByTimeB ts = true →
    rightPass w cs ts i = cs.map fun p => (p.2, i + ts.countP (fun x => decide (x.time < p.1.endt + w))) := by
  induction cs with
  | nil => intros; rfl
  | cons c cs ih =>
    obtain ⟨c, ci⟩ := c
    intro ts
    induction ts with
    | nil =>
      intro i hc _
      simp only [rightPass, advanceRight, List.map_cons, List.countP_nil, Nat.add_zero]
      rw [ih [] i (List.Pairwise.of_cons hc) rfl]
      simp
    | cons x xs ihx =>
      intro i hc hx
      have hcle := (List.pairwise_cons.1 hc).1
      by_cases hadv : x.time < c.endt + w
      · have hstep : rightPass w ((c, ci) :: cs) (x :: xs) i = rightPass w ((c, ci) :: cs) xs (i + 1) := by
          simp [rightPass, advanceRight, hadv]
        rw [hstep, ihx (i + 1) hc (sortedByTimeB_tail hx)]
        apply List.map_congr_left
        intro c' hc'
        have : c.endt ≤ c'.1.endt := by
          cases hc' with
          | head => exact Int.le_refl _
          | tail _ h => exact hcle c' h
        have : x.time < c'.1.endt + w := by omega
        rw [List.countP_cons]; simp [this]; omega
      · have hstep : rightPass w ((c, ci) :: cs) (x :: xs) i = (ci, i) :: rightPass w cs (x :: xs) i := by
          simp [rightPass, advanceRight, hadv]
        rw [hstep, ih (x :: xs) i (List.Pairwise.of_cons hc) hx, List.map_cons]
        congr 1
        have hxle := sortedByTimeB_head_le hx
        rw [countP_eq_zero_of]
        · rfl
        · intro y hy
          have : x.time ≤ y.time := by
            cases hy with
            | head => exact Int.le_refl _
            | tail _ h => exact hxle y h
          have : ¬ y.time < c.endt + w := by omega
          simp [this]


theorem argsortByEnd_pairwise (cs : List Row) :
    (argsortByEnd cs).Pairwise (fun p q => p.1.endt ≤ q.1.endt) := by
  have h := List.pairwise_mergeSort (le := fun (p q : Row × Nat) => decide (p.1.endt ≤ q.1.endt))
    (by intro a b c; simp; omega) (by intro a b; simp; omega) cs.zipIdx
  exact h.imp (by intro a b; simp)

theorem argsortByEnd_perm (cs : List Row) : (argsortByEnd cs).Perm cs.zipIdx :=
  List.mergeSort_perm _ _

theorem mem_argsortByEnd {cs : List Row} {p : Row × Nat} (h : p ∈ argsortByEnd cs) :
    ∃ hi : p.2 < cs.length, p.1 = cs[p.2] := by
  have h' := (argsortByEnd_perm cs).mem_iff.1 h
  obtain ⟨c, i⟩ := p
  have := List.mem_zipIdx h'
  exact ⟨by omega, by simpa using this.2.2⟩

theorem getElem_mem_argsortByEnd {cs : List Row} {i : Nat} (hi : i < cs.length) :
    (cs[i], i) ∈ argsortByEnd cs := by
  apply (argsortByEnd_perm cs).mem_iff.2
  have h : i < cs.zipIdx.length := by simpa using hi
  have := List.getElem_mem h
  simpa [List.getElem_zipIdx] using this

/-- looking up key `i` in the list of assignments made by the second loop -/
theorem lookup_assignments (g : Row → Nat) (c : Row) (i : Nat) : ∀ (s : List (Row × Nat)),
    (c, i) ∈ s → (∀ p ∈ s, p.2 = i → p.1 = c) →
    (s.map fun p => (p.2, g p.1)).lookup i = some (g c) := by
  intro s
  induction s with
  | nil => intro h; cases h
  | cons p s ih =>
    intro hm hf
    obtain ⟨c0, i0⟩ := p
    simp only [List.map_cons, List.lookup_cons]
    by_cases hi : i = i0
    · subst hi
      have : c0 = c := hf (c0, i) (List.mem_cons_self ..) rfl
      simp [this]
    · have hne : (i == i0) = false := by simp [hi]
      simp only [hne]
      apply ih
      · cases hm with
        | head => exact absurd rfl hi
        | tail _ h => exact h
      · intro p hp; exact hf p (List.mem_cons_of_mem _ hp)

theorem touchingWindowsCore_eq_spec {things containers : List Row} (w : Int)
    (hc : sortedByTimeB containers = true) (ht : sortedByTimeB things = true) (he : sortedByEndB things = true) :
    touchingWindowsCore things containers w = touchSpec things containers w := by
  unfold touchingWindowsCore touchSpec
  rw [leftPass_eq w containers things 0 hc he,
    rightPass_eq w (argsortByEnd containers) things 0 (argsortByEnd_pairwise containers) ht]
  apply List.ext_getElem
  · simp
  · intro n h1 h2
    have hn : n < containers.length := by simpa using h2
    have hl := lookup_assignments (fun c => 0 + things.countP (fun x => decide (x.time < c.endt + w)))
      containers[n] n (argsortByEnd containers) (getElem_mem_argsortByEnd hn)
      (by
        intro p hp hpi
        obtain ⟨_, h⟩ := mem_argsortByEnd hp
        simp [h, hpi])
    simp only [List.getElem_map, List.getElem_zipIdx, Nat.zero_add] at *
    rw [hl]


theorem sortedByEndB_pairwise {l : List Row} (h : sortedByEndB l = true) : l.Pairwise (fun a b => a.endt ≤ b.endt) := by
  induction l with
  | nil => exact List.Pairwise.nil
  | cons a l ih => exact List.pairwise_cons.2 ⟨sortedByEndB_head_le h, ih (sortedByEndB_tail h)⟩

theorem sortedByTimeB_pairwise {l : List Row} (h : sortedByTimeB l = true) : l.Pairwise (fun a b => a.time ≤ b.time) := by
  induction l with
  | nil => exact List.Pairwise.nil
  | cons a l ih => exact List.pairwise_cons.2 ⟨sortedByTimeB_head_le h, ih (sortedByTimeB_tail h)⟩

/-- for a predicate that can only switch from true to false along the list, the count of satisfying rows is the
position of the switch -/
theorem lt_countP_iff {p : Row → Bool} : ∀ {l : List Row}, l.Pairwise (fun a b => p b = true → p a = true) →
    ∀ (k : Nat) (hk : k < l.length), k < l.countP p ↔ p l[k] = true := by
  intro l
  induction l with
  | nil => intro _ k hk; cases hk
  | cons a l ih =>
    intro hp k hk
    have ⟨hpa, hpl⟩ := List.pairwise_cons.1 hp
    rw [List.countP_cons]
    by_cases ha : p a = true
    · cases k with
      | zero => simp [ha]
      | succ k =>
        simp only [ha, ite_true, List.getElem_cons_succ]
        have := ih hpl k (by simpa using hk)
        exact ⟨fun h => this.1 (by omega), fun h => by have := this.2 h; omega⟩
    · have hz : l.countP p = 0 := countP_eq_zero_of fun x hx => by
        cases h : p x with
        | false => rfl
        | true => exact absurd (hpa x hx h) ha
      cases k with
      | zero => simp [ha, hz]
      | succ k =>
        have hk' : k < l.length := by simpa using hk
        have : ¬ p l[k] = true := fun h => ha (hpa _ (List.getElem_mem hk') h)
        simp [ha, hz, this]

theorem touching_window_mem {things : List Row} (c : Row) (w : Int) (ht : sortedByTimeB things = true)
    (he : sortedByEndB things = true) (k : Nat) (hk : k < things.length) :
    (things.countP (fun x => decide (x.endt ≤ c.time - w)) ≤ k ∧
      k < things.countP (fun x => decide (x.time < c.endt + w))) ↔ touches things[k] c w := by
  have h1 := lt_countP_iff (p := fun x => decide (x.endt ≤ c.time - w))
    ((sortedByEndB_pairwise he).imp (by intro a b hab; simp; omega)) k hk
  have h2 := lt_countP_iff (p := fun x => decide (x.time < c.endt + w))
    ((sortedByTimeB_pairwise ht).imp (by intro a b hab; simp; omega)) k hk
  simp only [decide_eq_true_eq] at h1 h2
  unfold touches
  omega

theorem touchingWindows_eq_spec {things containers : List Row} (w : Int)
    (ht : sortedByTimeB things = true) (he : sortedByEndB things = true) (hc : sortedByTimeB containers = true)
    (hnt : nonNegB things = true) (hnc : nonNegB containers = true) :
    touchingWindows things containers w = .ok (touchSpec things containers w) := by
  unfold touchingWindows
  simp only [ht, hc, hnt, hnc, Bool.not_true, Bool.false_eq_true, ite_false]
  by_cases hemp : (things.isEmpty || containers.isEmpty) = true
  · simp only [hemp, ite_true]
    simp only [Bool.or_eq_true, List.isEmpty_iff] at hemp
    rcases hemp with h | h <;> subst h <;> simp [touchSpec, pure, Except.pure]
  · simp only [hemp, Bool.false_eq_true, ite_false, touchingWindowsCore_eq_spec w hc ht he]
    rfl

theorem touchingWindows_error {things containers : List Row} (w : Int)
    (h : sortedByTimeB things = false ∨ sortedByTimeB containers = false ∨ nonNegB things = false ∨
      nonNegB containers = false) : touchingWindows things containers w = .error Err.valueError := by
  unfold touchingWindows
  rcases h with h | h | h | h <;> simp [h] <;> (repeat' split) <;> first | rfl | simp_all

theorem fullyContainedIn_eq_spec {things containers : List Row} (ht : sortedByTimeB things = true)
    (hc : sortedByTimeB containers = true) (hnt : nonNegB things = true) (hnc : nonNegB containers = true)
    (hn : nonOverlapB containers = true) :
    fullyContainedIn things containers = .ok (fcInSpec containedIn things containers) := by
  simp only [fullyContainedIn, sanity_ok ht hc hnt hnc, fcInCore_eq_spec ht hc hn]

theorem fcInSpec_congr {things containers : List Row} (hp : positiveRowsB things = true) :
    fcInSpec containedIn things containers = fcInSpec subsetOf things containers := by
  unfold fcInSpec
  apply List.map_congr_left
  intro a ha
  have : containedIn a = subsetOf a := funext fun b => containedIn_eq_subsetOf (positiveRowsB_iff.1 hp a ha)
  rw [this]


/-! ### `abs_time_to_prev_next_interval` -/

/-- direct definition: smallest distance from `t` back to the end of an interval that ended at or before `t`; -1 if none -/
def distPrev (t : Int) (ivs : List Row) : Int :=
  match ((ivs.filter fun iv => decide (iv.endt ≤ t)).map fun iv => t - iv.endt).min? with
  | some d => d
  | none => -1

/-- direct definition: smallest distance from `e` forward to the start of an interval that starts at or after `e`; -1 if none -/
def distNext (e : Int) (ivs : List Row) : Int :=
  match ((ivs.filter fun iv => decide (e ≤ iv.time)).map fun iv => iv.time - e).min? with
  | some d => d
  | none => -1

def prevNextSpec (things intervals : List Row) : List (Int × Int) :=
  things.map fun th => (distPrev th.time intervals, distNext th.endt intervals)

/-- sorted, non-overlapping, non-negative rows have sorted ends -/
theorem ends_pairwise {l : List Row} (hs : sortedByTimeB l = true) (hn : nonOverlapB l = true)
    (hp : nonNegB l = true) : l.Pairwise (fun a b => a.endt ≤ b.endt) := by
  induction l with
  | nil => exact List.Pairwise.nil
  | cons a l ih =>
    have hp' : nonNegB l = true := nonNegB_iff.2 fun r hr => nonNegB_iff.1 hp r (List.mem_cons_of_mem _ hr)
    refine List.pairwise_cons.2 ⟨?_, ih (sortedByTimeB_tail hs) (nonOverlapB_tail hn) hp'⟩
    intro b hb
    have h1 := nonOverlapB_head_le hs hn b hb
    have h2 := nonNegB_iff.1 hp b (List.mem_cons_of_mem _ hb)
    omega

/-- the second inner loop finds the nearest interval start at or after `e` -/
theorem nextLoop_eq (e : Int) (l : List Row) (hs : sortedByTimeB l = true) : nextLoop e l = distNext e l := by
  induction l with
  | nil => rfl
  | cons iv l ih =>
    by_cases h : iv.time < e
    · have : ¬ e ≤ iv.time := by omega
      simp only [nextLoop, h, ite_true, ih (sortedByTimeB_tail hs), distNext, List.filter_cons, this,
        decide_false, Bool.false_eq_true, ite_false]
    · have h' : e ≤ iv.time := by omega
      have hle := sortedByTimeB_head_le hs
      have hmin : ((List.filter (fun iv => decide (e ≤ iv.time)) (iv :: l)).map fun iv => iv.time - e).min?
          = some (iv.time - e) := by
        rw [List.min?_eq_some_iff]
        constructor
        · simp [h']
        · intro b hb
          simp only [List.mem_map, List.mem_filter] at hb
          obtain ⟨x, ⟨hx, _⟩, rfl⟩ := hb
          cases hx with
          | head => exact Int.le_refl _
          | tail _ hx' => have := hle x hx'; omega
      simp only [nextLoop, h, ite_false, distNext, hmin]

theorem distNext_drop (e : Int) (ivs : List Row) (c : Nat) (h : ∀ iv ∈ ivs.take c, iv.time < e) :
    distNext e (ivs.drop c) = distNext e ivs := by
  have hz : (ivs.take c).filter (fun iv => decide (e ≤ iv.time)) = [] := by
    rw [List.filter_eq_nil_iff]
    intro a ha
    have := h a ha
    simp; omega
  conv => rhs; rw [← List.take_append_drop c ivs]
  simp only [distNext, List.filter_append, hz, List.nil_append]

/-- distance from `t` to the end of an optional row, `prev` when there is none -/
def lastDist (t prev : Int) : Option Row → Int
  | some iv => t - iv.endt
  | none => prev

/-- the first inner loop, on any suffix `l` of the sorted, non-overlapping, positive-length intervals -/
theorem prevLoop_eq (t : Int) (l : List Row) : ∀ (prev : Int) (seen : Nat),
    sortedByTimeB l = true → nonOverlapB l = true → positiveRowsB l = true →
    prevLoop t l prev seen =
      (lastDist t prev (l.filter fun iv => decide (iv.endt ≤ t)).getLast?,
       seen + (l.filter fun iv => decide (iv.endt ≤ t)).length) := by
  induction l with
  | nil => intros; rfl
  | cons iv l ih =>
    intro prev seen hs hn hp
    have hp' : positiveRowsB l = true :=
      positiveRowsB_iff.2 fun r hr => positiveRowsB_iff.1 hp r (List.mem_cons_of_mem _ hr)
    have hiv := positiveRowsB_iff.1 hp iv (List.mem_cons_self ..)
    by_cases hbr : iv.time ≥ t
    · -- `break`: this interval and all later ones end after `t`
      have hnone : (iv :: l).filter (fun iv => decide (iv.endt ≤ t)) = [] := by
        rw [List.filter_eq_nil_iff]
        intro b hb
        have hb' := positiveRowsB_iff.1 hp b hb
        have : iv.time ≤ b.time := by
          cases hb with
          | head => exact Int.le_refl _
          | tail _ h => exact sortedByTimeB_head_le hs b h
        simp; omega
      simp [prevLoop, hbr, hnone, lastDist]
    · by_cases hdt : iv.endt ≤ t
      · have hdt' : t - iv.endt ≥ 0 := by omega
        simp only [prevLoop, hbr, ite_false, hdt', ite_true, List.filter_cons, hdt, decide_true,
          ih (t - iv.endt) (seen + 1) (sortedByTimeB_tail hs) (nonOverlapB_tail hn) hp', List.getLast?_cons,
          List.length_cons]
        congr 1
        · cases (List.filter (fun iv => decide (iv.endt ≤ t)) l).getLast? <;> rfl
        · omega
      · have hdt' : ¬ t - iv.endt ≥ 0 := by omega
        simp only [prevLoop, hbr, ite_false, hdt', List.filter_cons, hdt, decide_false, Bool.false_eq_true,
          ih prev seen (sortedByTimeB_tail hs) (nonOverlapB_tail hn) hp']


theorem sortedByTimeB_drop {l : List Row} (s : Nat) (h : sortedByTimeB l = true) : sortedByTimeB (l.drop s) = true := by
  induction s generalizing l with
  | zero => simpa using h
  | succ s ih =>
    cases l with
    | nil => rfl
    | cons a l => simpa using ih (sortedByTimeB_tail h)

theorem nonOverlapB_drop {l : List Row} (s : Nat) (h : nonOverlapB l = true) : nonOverlapB (l.drop s) = true := by
  induction s generalizing l with
  | zero => simpa using h
  | succ s ih =>
    cases l with
    | nil => rfl
    | cons a l => simpa using ih (nonOverlapB_tail h)

theorem positiveRowsB_drop {l : List Row} (s : Nat) (h : positiveRowsB l = true) : positiveRowsB (l.drop s) = true :=
  positiveRowsB_iff.2 fun r hr => positiveRowsB_iff.1 h r (List.mem_of_mem_drop hr)

/-- for rows with sorted ends, the rows that ended by `t` form a prefix … -/
theorem filter_ended_eq_take (t : Int) {l : List Row} (h : l.Pairwise (fun a b => a.endt ≤ b.endt)) :
    l.filter (fun iv => decide (iv.endt ≤ t)) = l.take (l.filter fun iv => decide (iv.endt ≤ t)).length := by
  induction l with
  | nil => rfl
  | cons a l ih =>
    have ⟨ha, hl⟩ := List.pairwise_cons.1 h
    by_cases hp : a.endt ≤ t
    · simp only [List.filter_cons, hp, decide_true, ite_true, List.length_cons, List.take_succ_cons]
      rw [← ih hl]
    · have : l.filter (fun iv => decide (iv.endt ≤ t)) = [] := by
        rw [List.filter_eq_nil_iff]
        intro b hb; have := ha b hb; simp; omega
      simp [hp, this]

/-- … so filtering a suffix is dropping from the filtered list -/
theorem filter_ended_drop (t : Int) {l : List Row} (h : l.Pairwise (fun a b => a.endt ≤ b.endt)) (s : Nat) :
    (l.drop s).filter (fun iv => decide (iv.endt ≤ t)) = (l.filter fun iv => decide (iv.endt ≤ t)).drop s := by
  induction l generalizing s with
  | nil => simp
  | cons a l ih =>
    cases s with
    | zero => rfl
    | succ s =>
      have ⟨ha, hl⟩ := List.pairwise_cons.1 h
      by_cases hp : a.endt ≤ t
      · simp only [List.drop_succ_cons, List.filter_cons, hp, decide_true, ite_true, ih hl s]
      · have hnil : l.filter (fun iv => decide (iv.endt ≤ t)) = [] := by
          rw [List.filter_eq_nil_iff]
          intro b hb; have := ha b hb; simp; omega
        simp only [List.drop_succ_cons, List.filter_cons, hp, decide_false, Bool.false_eq_true, ite_false,
          ih hl s, hnil, List.drop_nil]

theorem le_getLast_of_pairwise {l : List Row} {iv : Row} (h : l.Pairwise (fun a b => a.endt ≤ b.endt))
    (hl : l.getLast? = some iv) : ∀ b ∈ l, b.endt ≤ iv.endt := by
  obtain ⟨ys, rfl⟩ := List.getLast?_eq_some_iff.1 hl
  intro b hb
  rw [List.mem_append] at hb
  rcases hb with hb | hb
  · exact (List.pairwise_append.1 h).2.2 b hb iv (List.mem_singleton.2 rfl)
  · rw [List.mem_singleton.1 hb]; exact Int.le_refl _

/-- with sorted ends, the nearest earlier end is the end of the last interval that ended by `t` -/
theorem distPrev_eq_getLast (t : Int) {ivs : List Row} (h : ivs.Pairwise (fun a b => a.endt ≤ b.endt)) :
    distPrev t ivs = lastDist t (-1) (ivs.filter fun iv => decide (iv.endt ≤ t)).getLast? := by
  unfold distPrev
  cases hl : (ivs.filter fun iv => decide (iv.endt ≤ t)).getLast? with
  | none =>
    rw [List.getLast?_eq_none_iff] at hl
    simp [hl, lastDist]
  | some iv =>
    have hmem := List.mem_of_getLast? hl
    have hmax := le_getLast_of_pairwise (h.sublist List.filter_sublist) hl
    have : ((ivs.filter fun iv => decide (iv.endt ≤ t)).map fun iv => t - iv.endt).min? = some (t - iv.endt) := by
      rw [List.min?_eq_some_iff]
      refine ⟨List.mem_map.2 ⟨iv, hmem, rfl⟩, ?_⟩
      intro b hb
      obtain ⟨x, hx, rfl⟩ := List.mem_map.1 hb
      have := hmax x hx
      omega
    simp [this, lastDist]

theorem length_filter_ended_mono {t t' : Int} (h : t ≤ t') (l : List Row) :
    (l.filter fun iv => decide (iv.endt ≤ t)).length ≤ (l.filter fun iv => decide (iv.endt ≤ t')).length := by
  rw [← List.countP_eq_length_filter, ← List.countP_eq_length_filter]
  apply List.countP_mono_left
  intro x _ hx
  simp only [decide_eq_true_eq] at hx ⊢
  omega

/-- the outer loop: `seen` trails the number of intervals that ended by the current thing's start by at most one, which
is exactly what `max(0, seen - 1)` maintains for things sorted by time -/
theorem prevNextLoop_eq (ivs : List Row) (hs : sortedByTimeB ivs = true) (hn : nonOverlapB ivs = true)
    (hp : positiveRowsB ivs = true) (ths : List Row) : ∀ (s : Nat),
    sortedByTimeB ths = true → nonNegB ths = true →
    (∀ th ∈ ths, s ≤ (ivs.filter fun iv => decide (iv.endt ≤ th.time)).length - 1) →
    prevNextLoop ivs ths s = prevNextSpec ths ivs := by
  have hnn : nonNegB ivs = true := nonNegB_iff.2 fun r hr => Int.le_of_lt (positiveRowsB_iff.1 hp r hr)
  have hends := ends_pairwise hs hn hnn
  induction ths with
  | nil => intros; rfl
  | cons th ths ih =>
    intro s hst hnt hinv
    have hs0 := hinv th (List.mem_cons_self ..)
    have hprev := prevLoop_eq th.time (ivs.drop s) (-1) s (sortedByTimeB_drop s hs) (nonOverlapB_drop s hn)
      (positiveRowsB_drop s hp)
    rw [filter_ended_drop th.time hends s] at hprev
    generalize hL : (ivs.filter fun iv => decide (iv.endt ≤ th.time)) = L at hprev hs0
    have hlen : s + (L.drop s).length = L.length := by simp; omega
    have hlast : lastDist th.time (-1) (L.drop s).getLast? = distPrev th.time ivs := by
      rw [distPrev_eq_getLast th.time hends, hL, List.getLast?_drop]
      by_cases hle : L.length ≤ s
      · have : L = [] := by
          cases L with
          | nil => rfl
          | cons a L => simp at hle hs0; omega
        simp [this]
      · simp [hle]
    rw [hlen, hlast] at hprev
    have hnext : nextLoop th.endt (ivs.drop L.length) = distNext th.endt ivs := by
      rw [nextLoop_eq _ _ (sortedByTimeB_drop _ hs)]
      apply distNext_drop
      intro iv hiv
      have htk := filter_ended_eq_take th.time hends
      rw [hL] at htk
      rw [← htk, ← hL] at hiv
      have h1 := (List.mem_filter.1 hiv)
      have h2 := positiveRowsB_iff.1 hp iv h1.1
      have h3 := nonNegB_iff.1 hnt th (List.mem_cons_self ..)
      have h4 : iv.endt ≤ th.time := by simpa using h1.2
      omega
    have hrec := ih (L.length - 1) (sortedByTimeB_tail hst)
      (nonNegB_iff.2 fun r hr => nonNegB_iff.1 hnt r (List.mem_cons_of_mem _ hr))
      (by
        intro th' hth'
        have hle := sortedByTimeB_head_le hst th' hth'
        have := length_filter_ended_mono hle ivs
        rw [hL] at this
        omega)
    simp only [prevNextLoop, hprev, hnext, hrec, prevNextSpec, List.map_cons]

theorem absTimeToPrevNext_eq_spec {things intervals : List Row} (ht : sortedByTimeB things = true)
    (hnt : nonNegB things = true) (hs : sortedByTimeB intervals = true) (hn : nonOverlapB intervals = true)
    (hp : positiveRowsB intervals = true) :
    absTimeToPrevNext things intervals = .ok (prevNextSpec things intervals) := by
  unfold absTimeToPrevNext
  simp only [ht, hs, Bool.not_true, Bool.false_eq_true, ite_false]
  by_cases hemp : (things.isEmpty || intervals.isEmpty) = true
  · simp only [hemp, ite_true]
    simp only [Bool.or_eq_true, List.isEmpty_iff] at hemp
    rcases hemp with h | h <;> subst h <;> simp [prevNextSpec, distPrev, distNext, pure, Except.pure]
  · simp only [hemp, Bool.false_eq_true, ite_false]
    rw [prevNextLoop_eq intervals hs hn hp things 0 ht hnt (by intros; omega)]
    rfl

theorem absTimeToPrevNext_error {things intervals : List Row}
    (h : sortedByTimeB things = false ∨ sortedByTimeB intervals = false) :
    absTimeToPrevNext things intervals = .error Err.valueError := by
  unfold absTimeToPrevNext
  rcases h with h | h <;> simp [h] <;> (repeat' split) <;> first | rfl | simp_all


/-! ### `sort_by_time` -/

theorem minList_le (d : Int) (l : List Int) : minList d l ≤ d ∧ ∀ y ∈ l, minList d l ≤ y := by
  induction l generalizing d with
  | nil => exact ⟨Int.le_refl _, fun y hy => by cases hy⟩
  | cons a l ih =>
    have ⟨h1, h2⟩ := ih (min d a)
    simp only [minList, List.foldl_cons] at h1 h2 ⊢
    refine ⟨by omega, ?_⟩
    intro y hy
    cases hy with
    | head => omega
    | tail _ h => exact h2 y h

theorem le_maxList (d : Int) (l : List Int) : d ≤ maxList d l ∧ ∀ y ∈ l, y ≤ maxList d l := by
  induction l generalizing d with
  | nil => exact ⟨Int.le_refl _, fun y hy => by cases hy⟩
  | cons a l ih =>
    have ⟨h1, h2⟩ := ih (max d a)
    simp only [maxList, List.foldl_cons] at h1 h2 ⊢
    refine ⟨by omega, ?_⟩
    intro y hy
    cases hy with
    | head => omega
    | tail _ h => exact h2 y h

/-- what `sort_by_time` subtracts from every channel: the smallest channel when that is negative, else nothing -/
def chanShift (x : List CRow) : Int :=
  match x.map (·.channel) with
  | [] => 0
  | c :: cs => if minList c cs < 0 then minList c cs else 0

/-- the per-row entry of the `channel` array -/
def chanOf (hasChannel : Bool) (x : List CRow) (r : CRow) : Int :=
  if hasChannel then r.channel - chanShift x else 1

def tminOf (x : List CRow) : Int :=
  match x with
  | [] => 0
  | r :: rs => minList r.time (rs.map (·.time))

def m1Of (hasChannel : Bool) (x : List CRow) : Int :=
  match x.map (chanOf hasChannel x) with
  | [] => 1
  | c :: cs => maxList c cs + 1

/-- the composite sort key of one row -/
def keyOf (hasChannel : Bool) (x : List CRow) (r : CRow) : Int :=
  (r.time - tminOf x) * m1Of hasChannel x + chanOf hasChannel x r

theorem sortChannels_eq (h : Bool) (x : List CRow) : sortChannels h x = x.map (chanOf h x) := by
  cases h with
  | false => simp [sortChannels, chanOf]
  | true =>
    cases x with
    | nil => rfl
    | cons r rs =>
      by_cases hm : minList r.channel (rs.map (·.channel)) < 0
      · simp [sortChannels, chanOf, chanShift, hm, Function.comp_def]
      · simp [sortChannels, chanOf, chanShift, hm]

theorem zip_map_self {α β} (l : List α) (f : α → β) : l.zip (l.map f) = l.map fun a => (a, f a) := by
  induction l with
  | nil => rfl
  | cons a l ih => simp [ih]

theorem sortKeys_eq (h : Bool) (x : List CRow) : sortKeys h x = x.map (keyOf h x) := by
  cases x with
  | nil => simp [sortKeys]
  | cons r rs =>
    have hc := sortChannels_eq h (r :: rs)
    simp only [List.map_cons] at hc
    unfold sortKeys
    rw [hc]
    simp only []
    have hz := zip_map_self (r :: rs) (chanOf h (r :: rs))
    simp only [List.map_cons] at hz
    rw [hz]
    simp [keyOf, tminOf, m1Of]

theorem chanOf_bounds (h : Bool) (x : List CRow) (r : CRow) (hr : r ∈ x) :
    0 ≤ chanOf h x r ∧ chanOf h x r + 1 ≤ m1Of h x := by
  constructor
  · cases h with
    | false => simp [chanOf]
    | true =>
      cases x with
      | nil => cases hr
      | cons r0 rs =>
        have hm := minList_le r0.channel (rs.map (·.channel))
        have hle : minList r0.channel (rs.map (·.channel)) ≤ r.channel := by
          cases hr with
          | head => exact hm.1
          | tail _ h => exact hm.2 _ (List.mem_map.2 ⟨r, h, rfl⟩)
        simp only [chanOf, chanShift, List.map_cons, ite_true]
        split <;> omega
  · cases x with
    | nil => cases hr
    | cons r0 rs =>
      have hM := le_maxList (chanOf h (r0 :: rs) r0) (rs.map (chanOf h (r0 :: rs)))
      simp only [m1Of, List.map_cons]
      cases hr with
      | head => omega
      | tail _ hmem => have := hM.2 _ (List.mem_map.2 ⟨r, hmem, rfl⟩); omega

/-- the composite key orders rows like the pair (time, shifted channel) -/
theorem key_le_iff (m M t1 t2 c1 c2 : Int) (h1 : 0 ≤ c1) (h1' : c1 + 1 ≤ M) (h2 : 0 ≤ c2) (h2' : c2 + 1 ≤ M) :
    (t1 - m) * M + c1 ≤ (t2 - m) * M + c2 ↔ t1 < t2 ∨ (t1 = t2 ∧ c1 ≤ c2) := by
  have e : (t2 - m) * M = (t1 - m) * M + (t2 - t1) * M := by
    rw [← Int.add_mul]; congr 1; omega
  rcases Int.lt_trichotomy t1 t2 with hlt | heq | hgt
  · have : 1 * M ≤ (t2 - t1) * M := Int.mul_le_mul_of_nonneg_right (by omega) (by omega)
    constructor
    · intro _; exact Or.inl hlt
    · intro _; omega
  · subst heq
    constructor
    · intro h; exact Or.inr ⟨rfl, by omega⟩
    · intro h; rcases h with h | h <;> omega
  · have e' : (t1 - m) * M = (t2 - m) * M + (t1 - t2) * M := by
      rw [← Int.add_mul]; congr 1; omega
    have : 1 * M ≤ (t1 - t2) * M := Int.mul_le_mul_of_nonneg_right (by omega) (by omega)
    constructor
    · intro _; omega
    · intro h; rcases h with h | h <;> omega

/-- lexicographic order on (time, channel); without a channel field, on time alone -/
def lexLeB (hasChannel : Bool) (a b : CRow) : Bool :=
  decide (a.time < b.time ∨ (a.time = b.time ∧ (hasChannel = false ∨ a.channel ≤ b.channel)))

theorem keyOf_le_iff (h : Bool) (x : List CRow) (a b : CRow) (ha : a ∈ x) (hb : b ∈ x) :
    decide (keyOf h x a ≤ keyOf h x b) = lexLeB h a b := by
  have ⟨a1, a2⟩ := chanOf_bounds h x a ha
  have ⟨b1, b2⟩ := chanOf_bounds h x b hb
  have := key_le_iff (tminOf x) (m1Of h x) a.time b.time (chanOf h x a) (chanOf h x b) a1 a2 b1 b2
  unfold lexLeB
  rw [decide_eq_decide]
  unfold keyOf
  rw [this]
  cases h with
  | false => simp [chanOf]
  | true =>
    simp only [chanOf, ite_true, Bool.true_eq_false, false_or]
    omega

theorem mergeSort_congr {α} {r s : α → α → Bool} {l : List α} (h : ∀ a ∈ l, ∀ b ∈ l, r a b = s a b) :
    l.mergeSort r = l.mergeSort s := by
  have := List.map_mergeSort (f := id) (r := r) (s := s) (l := l) (by simpa using h)
  simpa using this

/-- the composite-key argsort of `sort_by_time` is the stable merge sort by the lexicographic order -/
theorem sortByTimeFast_eq_mergeSort (h : Bool) (x : List CRow) :
    sortByTimeFast h x = x.mergeSort (lexLeB h) := by
  unfold sortByTimeFast
  rw [sortKeys_eq]
  have hz : (x.map (keyOf h x)).zip x = x.map fun r => (keyOf h x r, r) := by
    generalize keyOf h x = f
    induction x with
    | nil => rfl
    | cons a l ih => simp [ih]
  rw [hz]
  have hm := List.map_mergeSort (f := fun (p : Int × CRow) => p.2)
    (r := fun p q => decide (p.1 ≤ q.1)) (s := fun a b => decide (keyOf h x a ≤ keyOf h x b))
    (l := x.map fun r => (keyOf h x r, r))
    (by
      intro p hp q hq
      obtain ⟨a, _, rfl⟩ := List.mem_map.1 hp
      obtain ⟨b, _, rfl⟩ := List.mem_map.1 hq
      rfl)
  rw [hm, List.map_map]
  have : ((fun (p : Int × CRow) => p.2) ∘ fun r => (keyOf h x r, r)) = id := rfl
  rw [this, List.map_id]
  exact mergeSort_congr fun a ha b hb => keyOf_le_iff h x a b ha hb

theorem lexLeB_trans (h : Bool) (a b c : CRow) : lexLeB h a b = true → lexLeB h b c = true → lexLeB h a c = true := by
  simp only [lexLeB, decide_eq_true_eq]
  cases h <;> simp <;> omega

theorem lexLeB_total (h : Bool) (a b : CRow) : (lexLeB h a b || lexLeB h b a) = true := by
  simp only [lexLeB, Bool.or_eq_true, decide_eq_true_eq]
  cases h <;> simp <;> omega


/-! ### `split_by_containment`: the list surgery (`np.diff`/`_split`/`np.unique`/`_get_empty_container_ids`/`insert`) -/

/-- maximal runs of equal container index (index, things of the run), built from the back -/
def runsOf : List (Row × Int) → List (Int × List Row)
  | [] => []
  | (a, w) :: ps =>
    match runsOf ps with
    | [] => [(w, [a])]
    | (v, g) :: rs => if v = w then (v, a :: g) :: rs else (w, [a]) :: (v, g) :: rs

/-- the run with index `j`, empty when there is none -/
def groupOf (j : Int) : List (Int × List Row) → List Row
  | [] => []
  | (v, g) :: rs => if v = j then g else groupOf j rs

theorem runsOf_cons (a : Row) (w : Int) (ps : List (Row × Int)) :
    runsOf ((a, w) :: ps) =
      match runsOf ps with
      | [] => [(w, [a])]
      | (v, g) :: rs => if v = w then (v, a :: g) :: rs else (w, [a]) :: (v, g) :: rs := rfl

theorem runsOf_head (a : Row) (w : Int) (ps : List (Row × Int)) :
    ∃ g rs, runsOf ((a, w) :: ps) = (w, g) :: rs := by
  simp only [runsOf]
  split
  · exact ⟨_, _, rfl⟩
  · split
    · rename_i h; subst h; exact ⟨_, _, rfl⟩
    · exact ⟨_, _, rfl⟩

theorem splitIndicesAux_succ (ws : List Int) (i : Nat) :
    splitIndicesAux ws (i + 1) = (splitIndicesAux ws i).map (· + 1) := by
  induction ws generalizing i with
  | nil => rfl
  | cons a ws ih =>
    cases ws with
    | nil => rfl
    | cons b rest =>
      simp only [splitIndicesAux]
      split <;> simp [ih (i + 1)]

theorem splitLoop_cons_succ (a : α) (ts : List α) (sis : List Nat) : ∀ (prev : Nat),
    splitLoop (a :: ts) (prev + 1) (sis.map (· + 1)) = splitLoop ts prev sis := by
  induction sis with
  | nil => intro prev; simp [splitLoop]
  | cons si rest ih => intro prev; simp [splitLoop, ih si]

theorem splitLoop_cons_zero (a : α) (ts : List α) (hts : ts ≠ []) (sis : List Nat) :
    splitLoop (a :: ts) 0 (sis.map (· + 1)) =
      match splitLoop ts 0 sis with
      | g :: gs => (a :: g) :: gs
      | [] => [[a]] := by
  cases sis with
  | nil =>
    have : 0 < ts.length := List.length_pos_iff.2 hts
    simp [splitLoop, this]
  | cons si rest => simp [splitLoop, splitLoop_cons_succ]

/-- `_split` at the positions where the container index changes gives the runs -/
theorem splitLoop_eq_runs : ∀ (ps : List (Row × Int)), ps ≠ [] →
    splitLoop (ps.map (·.1)) 0 (splitIndices (ps.map (·.2))) = (runsOf ps).map (·.2) := by
  intro ps
  induction ps with
  | nil => intro h; exact absurd rfl h
  | cons p ps ih =>
    intro _
    obtain ⟨a, w⟩ := p
    cases ps with
    | nil => simp [splitIndices, splitIndicesAux, splitLoop, runsOf]
    | cons p' rest =>
      obtain ⟨a', w'⟩ := p'
      have ih' := ih (by simp)
      obtain ⟨g, rs, hr⟩ := runsOf_head a' w' rest
      have hidx : splitIndicesAux (w' :: rest.map (·.2)) 1 = (splitIndices (w' :: rest.map (·.2))).map (· + 1) :=
        splitIndicesAux_succ _ 0
      simp only [List.map_cons] at ih' ⊢
      by_cases hw : w' = w
      · subst hw
        have h1 : splitIndices (w' :: w' :: rest.map (·.2)) = (splitIndices (w' :: rest.map (·.2))).map (· + 1) := by
          simp [splitIndices, splitIndicesAux, hidx]
        rw [h1, splitLoop_cons_zero a _ (by simp), ih', runsOf_cons a w', hr]
        simp
      · have hne : w' - w ≠ 0 := by omega
        have h1 : splitIndices (w :: w' :: rest.map (·.2)) = 1 :: (splitIndices (w' :: rest.map (·.2))).map (· + 1) := by
          simp [splitIndices, splitIndicesAux, hne, hidx]
        have h2 := splitLoop_cons_succ a (a' :: rest.map (·.1)) (splitIndices (w' :: rest.map (·.2))) 0
        rw [h1]
        simp only [splitLoop, List.take_succ_cons, List.take_zero, List.drop_zero]
        rw [show (1 : Nat) = 0 + 1 from rfl, h2, ih', runsOf_cons a w, hr]
        simp [hw]

theorem split_eq_runs (ps : List (Row × Int)) (h : ps ≠ []) :
    split (ps.map (·.1)) (splitIndices (ps.map (·.2))) = (runsOf ps).map (·.2) := by
  rw [← splitLoop_eq_runs ps h]
  unfold split
  split
  · rename_i he
    have : splitIndices (ps.map (·.2)) = [] := by simpa using he
    have hl : 0 < (ps.map (·.1)).length := by
      cases ps with
      | nil => exact absurd rfl h
      | cons _ _ => simp
    simp [this, splitLoop, h]
  · rfl


/-- `np.unique` of a non-decreasing index list is the list of run indices -/
theorem unique_eq_runs : ∀ (ps : List (Row × Int)), (ps.map (·.2)).Pairwise (· ≤ ·) →
    unique (ps.map (·.2)) = (runsOf ps).map (·.1) := by
  intro ps
  induction ps with
  | nil => intro _; rfl
  | cons p ps ih =>
    intro hp
    obtain ⟨a, w⟩ := p
    simp only [List.map_cons, List.pairwise_cons] at hp
    have ih' := ih hp.2
    cases ps with
    | nil => simp [unique, insertUnique, runsOf]
    | cons p' rest =>
      obtain ⟨a', w'⟩ := p'
      obtain ⟨g, rs, hr⟩ := runsOf_head a' w' rest
      have hle : w ≤ w' := hp.1 w' (by simp)
      have hu : unique (((a, w) :: (a', w') :: rest).map (·.2)) =
          insertUnique w (unique (((a', w') :: rest).map (·.2))) := rfl
      rw [hu, ih', runsOf_cons a w, hr]
      simp only [List.map_cons, insertUnique]
      by_cases hw : w' = w
      · subst hw; simp
      · have : w < w' := by omega
        simp [this, hw]

/-- run indices strictly increase and stay in `[lo, n)` -/
def Asc (n : Int) : Int → List (Int × List Row) → Prop
  | _, [] => True
  | lo, (v, _) :: rs => lo ≤ v ∧ v < n ∧ Asc n (v + 1) rs

theorem Asc_mono {n : Int} : ∀ {rs : List (Int × List Row)} {lo lo' : Int}, lo' ≤ lo → Asc n lo rs → Asc n lo' rs := by
  intro rs
  cases rs with
  | nil => intros; trivial
  | cons p rs =>
    obtain ⟨v, g⟩ := p
    intro lo lo' h ha
    exact ⟨by have := ha.1; omega, ha.2.1, ha.2.2⟩

theorem runsOf_asc (n : Int) : ∀ (ps : List (Row × Int)) (lo : Int), (ps.map (·.2)).Pairwise (· ≤ ·) →
    (∀ p ∈ ps, lo ≤ p.2 ∧ p.2 < n) → Asc n lo (runsOf ps) := by
  intro ps
  induction ps with
  | nil => intros; trivial
  | cons p ps ih =>
    intro lo hp hr
    obtain ⟨a, w⟩ := p
    simp only [List.map_cons, List.pairwise_cons] at hp
    have hw := hr (a, w) (List.mem_cons_self ..)
    cases ps with
    | nil => simp [runsOf, Asc]; exact ⟨hw.1, hw.2⟩
    | cons p' rest =>
      obtain ⟨a', w'⟩ := p'
      obtain ⟨g, rs, hrun⟩ := runsOf_head a' w' rest
      have hle : w ≤ w' := hp.1 w' (by simp)
      rw [runsOf_cons a w, hrun]
      by_cases hww : w' = w
      · subst hww
        have := ih lo hp.2 (fun p hp' => hr p (List.mem_cons_of_mem _ hp'))
        rw [hrun] at this
        simpa [Asc] using this
      · have hlt : w < w' := by omega
        have := ih (w + 1) hp.2 (by
          intro p hp'
          have h1 := hr p (List.mem_cons_of_mem _ hp')
          have h2 : w' ≤ p.2 := by
            cases hp' with
            | head => exact Int.le_refl _
            | tail _ h =>
              have hpw := (List.pairwise_cons.1 hp.2).1
              exact hpw p.2 (List.mem_map.2 ⟨p, h, rfl⟩)
          exact ⟨by omega, h1.2⟩)
        rw [hrun] at this
        simp only [hww, ite_false, Asc]
        exact ⟨hw.1, hw.2, this⟩

theorem groupOf_eq_nil_of_asc {n : Int} : ∀ {rs : List (Int × List Row)} {lo j : Int}, Asc n lo rs → j < lo →
    groupOf j rs = [] := by
  intro rs
  induction rs with
  | nil => intros; rfl
  | cons p rs ih =>
    obtain ⟨v, g⟩ := p
    intro lo j ha hj
    have : v ≠ j := by have := ha.1; omega
    simp only [groupOf, this, ite_false]
    exact ih ha.2.2 (by have := ha.1; omega)

/-- inserting empties at consecutive positions right after `done` -/
theorem foldl_insert_range (k : Nat) : ∀ (done tail : List (List Row)),
    (List.range' done.length k).foldl (fun acc c => pyInsert acc c []) (done ++ tail) =
      done ++ List.replicate k [] ++ tail := by
  induction k with
  | zero => intro done tail; simp
  | succ k ih =>
    intro done tail
    rw [List.range'_succ, List.foldl_cons]
    have h1 : pyInsert (done ++ tail) done.length [] = (done ++ [[]]) ++ tail := by
      simp [pyInsert]
    rw [h1]
    have := ih (done ++ [[]]) tail
    simp only [List.length_append, List.length_singleton] at this
    rw [this]
    simp [List.replicate_succ]

/-- the `for c_i in empty_containers: things_split.insert(c_i, things[:0])` loop puts every run at its own index -/
theorem insert_empties (n : Nat) : ∀ (runs : List (Int × List Row)) (lo : Nat) (done : List (List Row)),
    done.length = lo → lo ≤ n → Asc (n : Int) (lo : Int) runs →
    (emptyIdsLoop n lo (runs.map (·.1.toNat))).foldl (fun acc c => pyInsert acc c []) (done ++ runs.map (·.2)) =
      done ++ (List.range' lo (n - lo)).map fun (j : Nat) => groupOf (j : Int) runs := by
  intro runs
  induction runs with
  | nil =>
    intro lo done hd hlo _
    simp only [List.map_nil, emptyIdsLoop, List.append_nil, groupOf]
    by_cases h : lo < n
    · have := foldl_insert_range (n - lo) done []
      rw [hd] at this
      have hm : List.map (fun (_ : Nat) => ([] : List Row)) (List.range' lo (n - lo)) = List.replicate (n - lo) [] := by
        simp [List.eq_replicate_iff]
      simp only [h, ite_true, hm]
      simpa using this
    · have : n - lo = 0 := by omega
      simp [h, this]
  | cons p rs ih =>
    obtain ⟨v, g⟩ := p
    intro lo done hd hlo ha
    obtain ⟨h1, h2, h3⟩ := ha
    have hv : ((v.toNat : Nat) : Int) = v := by omega
    have hlov : lo ≤ v.toNat := by omega
    have hvn : v.toNat < n := by omega
    simp only [List.map_cons, emptyIdsLoop, List.foldl_append]
    have hfirst := foldl_insert_range (v.toNat - lo) done (g :: rs.map (·.2))
    rw [hd] at hfirst
    rw [hfirst]
    have hre : done ++ List.replicate (v.toNat - lo) [] ++ g :: rs.map (·.2) =
        (done ++ List.replicate (v.toNat - lo) [] ++ [g]) ++ rs.map (·.2) := by simp
    rw [hre, ih (v.toNat + 1) _ (by simp; omega) (by omega) (by rw [Int.natCast_add, hv]; exact h3)]
    have hsplit : List.range' lo (n - lo) =
        List.range' lo (v.toNat - lo) ++ (v.toNat :: List.range' (v.toNat + 1) (n - (v.toNat + 1))) := by
      have e1 : n - lo = (v.toNat - lo) + ((n - (v.toNat + 1)) + 1) := by omega
      have e2 : lo + (v.toNat - lo) = v.toNat := by omega
      rw [e1, ← List.range'_append_1, List.range'_succ, e2]
    rw [hsplit, List.map_append, List.map_cons]
    have hA : (List.range' lo (v.toNat - lo)).map (fun (j : Nat) => groupOf (j : Int) ((v, g) :: rs)) =
        List.replicate (v.toNat - lo) [] := by
      rw [List.eq_replicate_iff]
      refine ⟨by simp, ?_⟩
      intro b hb
      obtain ⟨j, hj, rfl⟩ := List.mem_map.1 hb
      have hj' := List.mem_range'_1.1 hj
      have hne : v ≠ (j : Int) := by omega
      simp only [groupOf, hne, ite_false]
      exact groupOf_eq_nil_of_asc h3 (by omega)
    have hB : groupOf ((v.toNat : Nat) : Int) ((v, g) :: rs) = g := by simp [groupOf, hv]
    have hC : (List.range' (v.toNat + 1) (n - (v.toNat + 1))).map (fun (j : Nat) => groupOf (j : Int) ((v, g) :: rs)) =
        (List.range' (v.toNat + 1) (n - (v.toNat + 1))).map (fun (j : Nat) => groupOf (j : Int) rs) := by
      apply List.map_congr_left
      intro j hj
      have hj' := List.mem_range'_1.1 hj
      have hne : v ≠ (j : Int) := by omega
      simp [groupOf, hne]
    rw [hA, hB, hC]
    simp

/-- the run with index `j` holds exactly the things whose index is `j` -/
theorem groupOf_runsOf (j : Int) : ∀ (ps : List (Row × Int)), (ps.map (·.2)).Pairwise (· ≤ ·) →
    groupOf j (runsOf ps) = (ps.filter fun p => decide (p.2 = j)).map (·.1) := by
  intro ps
  induction ps with
  | nil => intro _; rfl
  | cons p ps ih =>
    intro hp
    obtain ⟨a, w⟩ := p
    simp only [List.map_cons, List.pairwise_cons] at hp
    have ih' := ih hp.2
    have hR : (((a, w) :: ps).filter fun p => decide (p.2 = j)).map (·.1) =
        if w = j then a :: (ps.filter fun p => decide (p.2 = j)).map (·.1)
        else (ps.filter fun p => decide (p.2 = j)).map (·.1) := by
      simp only [List.filter_cons]
      by_cases h : w = j <;> simp [h]
    rw [hR, ← ih', runsOf_cons a w]
    cases ps with
    | nil => simp only [runsOf, groupOf]
    | cons p' rest =>
      obtain ⟨a', w'⟩ := p'
      obtain ⟨g, rs, hrun⟩ := runsOf_head a' w' rest
      have hle : w ≤ w' := hp.1 w' (by simp)
      have hall : ∀ p ∈ (a', w') :: rest, w' ≤ p.2 := by
        intro p hp'
        cases hp' with
        | head => exact Int.le_refl _
        | tail _ h =>
          have hpw := (List.pairwise_cons.1 hp.2).1
          exact hpw p.2 (List.mem_map.2 ⟨p, h, rfl⟩)
      rw [hrun]
      by_cases hww : w' = w
      · subst hww
        simp only [ite_true, groupOf]
        by_cases hj : w' = j <;> simp [hj]
      · have hlt : w < w' := by omega
        simp only [hww, ite_false, groupOf]
        by_cases hj : w = j
        · subst hj
          have hne : w' ≠ w := hww
          have hnone : groupOf w ((w', g) :: rs) = [] := by
            rw [← hrun, ih', List.map_eq_nil_iff, List.filter_eq_nil_iff]
            intro p hp'
            have := hall p hp'
            simp; omega
          simp only [ite_true]
          simp only [groupOf] at hnone
          rw [hnone]
        · simp [hj]


/-! ### `split_by_containment`: the interval part -/

/-- direct definition of `split_by_containment`: for every container, all things it contains, in order -/
def splitSpec (contains : Row → Row → Bool) (things containers : List Row) : List (List Row) :=
  containers.map fun b => things.filter fun a => contains a b

theorem nonOverlap_pairwise {l : List Row} (hs : sortedByTimeB l = true) (hn : nonOverlapB l = true) :
    l.Pairwise (fun a b => a.endt ≤ b.time) := by
  induction l with
  | nil => exact List.Pairwise.nil
  | cons a l ih =>
    exact List.pairwise_cons.2 ⟨nonOverlapB_head_le hs hn, ih (sortedByTimeB_tail hs) (nonOverlapB_tail hn)⟩

/-- the answer of `fully_contained_in` for one thing, unpacked -/
theorem firstIdxFrom_zero_cases (p : Row → Bool) (bs : List Row) :
    (firstIdxFrom 0 p bs = -1 ∧ ∀ b ∈ bs, p b = false) ∨
    (∃ j : Nat, ∃ h : j < bs.length, firstIdxFrom 0 p bs = (j : Int) ∧ p bs[j] = true ∧
      ∀ (i : Nat) (hi : i < j), ¬ p (bs[i]'(by omega)) = true) := by
  unfold firstIdxFrom
  cases hf : bs.findIdx? p with
  | none => left; exact ⟨rfl, List.findIdx?_eq_none_iff.1 hf⟩
  | some j =>
    right
    obtain ⟨h, h1, h2⟩ := List.findIdx?_eq_some_iff_getElem.1 hf
    exact ⟨j, h, by simp, h1, h2⟩

/-- two different non-overlapping containers cannot both contain the same thing -/
theorem contained_unique {bs : List Row} (hpw : bs.Pairwise (fun a b => a.endt ≤ b.time)) {a : Row} {i j : Nat}
    (hi : i < bs.length) (hj : j < bs.length) (hci : containedIn a bs[i] = true) (hcj : containedIn a bs[j] = true) :
    i = j := by
  simp only [containedIn, Bool.and_eq_true, decide_eq_true_eq] at hci hcj
  rcases Nat.lt_trichotomy i j with h | h | h
  · have := List.pairwise_iff_getElem.1 hpw i j hi hj h; omega
  · exact h
  · have := List.pairwise_iff_getElem.1 hpw j i hj hi h; omega

theorem firstIdx_eq_iff {bs : List Row} (hpw : bs.Pairwise (fun a b => a.endt ≤ b.time)) (a : Row) (j : Nat)
    (hj : j < bs.length) : firstIdxFrom 0 (containedIn a) bs = (j : Int) ↔ containedIn a bs[j] = true := by
  rcases firstIdxFrom_zero_cases (containedIn a) bs with ⟨h1, h2⟩ | ⟨k, hk, h1, h2, _⟩
  · constructor
    · intro h; omega
    · intro h; have := h2 _ (List.getElem_mem hj); simp [h] at this
  · constructor
    · intro h
      have : k = j := by omega
      subst this; exact h2
    · intro h
      have := contained_unique hpw hk hj h2 h
      subst this; exact h1

/-- later things get later (or the same) containers -/
theorem firstIdx_mono {bs : List Row} (hpw : bs.Pairwise (fun a b => a.endt ≤ b.time)) {a a' : Row}
    (hle : a.time ≤ a'.time) (h : firstIdxFrom 0 (containedIn a) bs ≠ -1)
    (h' : firstIdxFrom 0 (containedIn a') bs ≠ -1) :
    firstIdxFrom 0 (containedIn a) bs ≤ firstIdxFrom 0 (containedIn a') bs := by
  rcases firstIdxFrom_zero_cases (containedIn a) bs with ⟨h1, _⟩ | ⟨j, hj, h1, h2, _⟩
  · exact absurd h1 h
  rcases firstIdxFrom_zero_cases (containedIn a') bs with ⟨h1', _⟩ | ⟨j', hj', h1', h2', _⟩
  · exact absurd h1' h'
  rw [h1, h1']
  by_cases hlt : j' < j
  · have := List.pairwise_iff_getElem.1 hpw j' j hj' hj hlt
    simp only [containedIn, Bool.and_eq_true, decide_eq_true_eq] at h2 h2'
    omega
  · omega

theorem splitByContainmentCore_eq_spec {things containers : List Row} (ht : sortedByTimeB things = true)
    (hc : sortedByTimeB containers = true) (hn : nonOverlapB containers = true) :
    splitByContainmentCore things containers = splitSpec containedIn things containers := by
  have hpw := nonOverlap_pairwise hc hn
  -- the kept (thing, index) pairs
  let f : Row → Int := fun a => firstIdxFrom 0 (containedIn a) containers
  have hwhich : fcInCore things containers = things.map f := fcInCore_eq_spec ht hc hn
  have hzip : things.zip (things.map f) = things.map fun a => (a, f a) := zip_map_self things f
  let ps : List (Row × Int) := (things.map fun a => (a, f a)).filter fun p => p.2 != -1
  have hmem : ∀ p ∈ ps, ∃ a ∈ things, p = (a, f a) ∧ f a ≠ -1 := by
    intro p hp
    obtain ⟨h1, h2⟩ := List.mem_filter.1 hp
    obtain ⟨a, ha, rfl⟩ := List.mem_map.1 h1
    exact ⟨a, ha, rfl, by simpa using h2⟩
  have hrange : ∀ p ∈ ps, (0 : Int) ≤ p.2 ∧ p.2 < (containers.length : Int) := by
    intro p hp
    obtain ⟨a, _, rfl, hne⟩ := hmem p hp
    rcases firstIdxFrom_zero_cases (containedIn a) containers with ⟨h1, _⟩ | ⟨j, hj, h1, _, _⟩
    · exact absurd h1 hne
    · show 0 ≤ f a ∧ f a < _
      simp only [f, h1]; omega
  have hsorted : (ps.map (·.2)).Pairwise (· ≤ ·) := by
    rw [List.pairwise_map]
    have h0 : (things.map fun a => (a, f a)).Pairwise
        (fun p q => p.2 ≠ -1 → q.2 ≠ -1 → p.2 ≤ q.2) := by
      rw [List.pairwise_map]
      exact (sortedByTimeB_pairwise ht).imp fun {a b} hab h1 h2 => firstIdx_mono hpw hab h1 h2
    refine (h0.filter _).imp_of_mem ?_
    intro p q hp hq hpq
    have hp' := (List.mem_filter.1 hp).2
    have hq' := (List.mem_filter.1 hq).2
    exact hpq (by simpa using hp') (by simpa using hq')
  have hsel : ∀ (j : Nat) (hj : j < containers.length),
      (ps.filter fun p => decide (p.2 = (j : Int))).map (·.1) = things.filter fun a => containedIn a containers[j] := by
    intro j hj
    have h1 : ps.filter (fun p => decide (p.2 = (j : Int))) =
        (things.map fun a => (a, f a)).filter fun p => decide (p.2 = (j : Int)) := by
      simp only [ps, List.filter_filter]
      apply List.filter_congr
      intro p _
      by_cases h : p.2 = (j : Int)
      · have : p.2 ≠ -1 := by omega
        simp [h]
      · simp [h]
    rw [h1, List.filter_map, List.map_map]
    have : ((fun (x : Row × Int) => x.1) ∘ fun a => (a, f a)) = id := rfl
    rw [this, List.map_id]
    apply List.filter_congr
    intro a _
    have := firstIdx_eq_iff hpw a j hj
    simp only [Function.comp, f]
    by_cases hcon : containedIn a containers[j] = true
    · simp [hcon, this.2 hcon]
    · have hne : ¬ firstIdxFrom 0 (containedIn a) containers = (j : Int) := fun h => hcon (this.1 h)
      simp [hcon, hne]
  -- unfold the model
  unfold splitByContainmentCore
  simp only [hwhich, hzip]
  show (if (ps.map (·.1)).isEmpty = true then containers.map fun _ => []
    else (getEmptyContainerIds containers.length ((unique (ps.map (·.2))).map Int.toNat)).foldl
      (fun acc c => pyInsert acc c []) (split (ps.map (·.1)) (splitIndices (ps.map (·.2))))) = _
  by_cases hemp : ps = []
  · -- nothing is contained anywhere
    simp only [hemp, List.map_nil, List.isEmpty_nil, ite_true, splitSpec]
    apply List.map_congr_left
    intro b hb
    symm
    rw [List.filter_eq_nil_iff]
    intro a ha hcon
    obtain ⟨j, hj, rfl⟩ := List.getElem_of_mem hb
    have hfa : f a = (j : Int) := (firstIdx_eq_iff hpw a j hj).2 hcon
    have : (a, f a) ∈ ps := by
      apply List.mem_filter.2
      refine ⟨List.mem_map.2 ⟨a, ha, rfl⟩, ?_⟩
      have : f a ≠ -1 := by omega
      simpa using this
    rw [hemp] at this
    cases this
  · have hne : ¬ (ps.map (·.1)).isEmpty = true := by simpa using hemp
    rw [if_neg hne]
    rw [split_eq_runs ps hemp, unique_eq_runs ps hsorted, List.map_map]
    have hins := insert_empties containers.length (runsOf ps) 0 [] rfl (Nat.zero_le _)
      (runsOf_asc _ ps 0 hsorted (by simpa using hrange))
    simp only [List.nil_append, Nat.sub_zero] at hins
    have hfun : ((fun (x : Int) => x.toNat) ∘ fun (x : Int × List Row) => x.1) = fun x => x.1.toNat := rfl
    unfold getEmptyContainerIds
    rw [hfun, hins, splitSpec]
    apply List.ext_getElem
    · simp
    · intro j h1 h2
      have hj : j < containers.length := by simpa using h2
      simp only [List.getElem_map, List.getElem_range', Nat.zero_add, Nat.one_mul]
      rw [groupOf_runsOf _ ps hsorted, hsel j hj]


theorem splitByContainment_eq_spec {things containers : List Row} (ht : sortedByTimeB things = true)
    (hc : sortedByTimeB containers = true) (hnt : nonNegB things = true) (hnc : nonNegB containers = true)
    (hn : nonOverlapB containers = true) :
    splitByContainment things containers = .ok (splitSpec containedIn things containers) := by
  simp only [splitByContainment, sanity_ok ht hc hnt hnc]
  by_cases he : containers.isEmpty = true
  · have : containers = [] := List.isEmpty_iff.1 he
    subst this
    simp [splitSpec]
  · simp only [he, Bool.false_eq_true, ite_false, splitByContainmentCore_eq_spec ht hc hn]

theorem splitSpec_congr {things containers : List Row} (hp : positiveRowsB things = true) :
    splitSpec containedIn things containers = splitSpec subsetOf things containers := by
  unfold splitSpec
  apply List.map_congr_left
  intro b _
  apply List.filter_congr
  intro a ha
  exact containedIn_eq_subsetOf (positiveRowsB_iff.1 hp a ha)

/-! ### `diff` -/

/-- direct definition of `strax.diff`: start of row `i+1` minus the largest end among rows `0..i` -/
def diffSpec : List Row → List Int
  | [] => []
  | r0 :: rest => rest.zipIdx.map fun p => p.1.time - maxEnd r0.endt (rest.take p.2)

theorem diffAux_eq (rest : List Row) : ∀ (a : Row) (m : Int),
    diffAux m (a :: rest) = rest.zipIdx.map fun p => p.1.time - maxEnd (max m a.endt) (rest.take p.2) := by
  induction rest with
  | nil => intros; rfl
  | cons b rest ih =>
    intro a m
    simp only [diffAux, ih b (max m a.endt), List.zipIdx_cons, List.map_cons, List.take_zero, maxEnd, Nat.zero_add]
    congr 1
    rw [List.zipIdx_succ, List.map_map]
    apply List.map_congr_left
    intro p _
    obtain ⟨r, i⟩ := p
    simp [maxEnd]

theorem diffGaps_eq_spec (rows : List Row) : diffGaps rows = diffSpec rows := by
  cases rows with
  | nil => rfl
  | cons r0 rest =>
    simp only [diffGaps, diffSpec, diffAux_eq rest r0 r0.endt]
    simp


theorem findBreakSpec_lt {data : List Row} {safe nb : Int} {i : Nat} (h : findBreakSpec data safe nb = .ok i) :
    1 ≤ i ∧ i < data.length := by
  unfold findBreakSpec at h
  split at h
  · rename_i j hj
    have := List.mem_of_find?_eq_some hj
    have hm := List.mem_range'_1.1 this
    cases h
    omega
  · cases h

theorem fromBreak_eq (x : List Row) (safe nb : Int) (left : Bool) (h : 2 ≤ x.length) :
    (∀ i, findBreakSpec x safe nb = .ok i → ∃ r, x[i]? = some r ∧
      fromBreak x safe nb left false = .ok (if left then x.take i else x.drop i, r.time)) ∧
    (∀ e, findBreakSpec x safe nb = .error e → fromBreak x safe nb left false = .error e) := by
  have hspec := findBreakI_eq_spec x safe nb h
  match x, h with
  | d0 :: d1 :: rest, _ =>
    constructor
    · intro i hi
      have hlt := (findBreakSpec_lt hi).2
      refine ⟨(d0 :: d1 :: rest)[i], by simp, ?_⟩
      simp only [fromBreak, Bool.false_eq_true, ite_false, hspec, hi, List.getElem?_eq_getElem hlt]
      rfl
    · intro e he
      simp only [fromBreak, Bool.false_eq_true, ite_false, hspec, he]


/-! ### `sort_by_time`: the guard and the slow path -/

theorem insertBy_perm {α} (le : α → α → Bool) (a : α) (l : List α) : (insertBy le a l).Perm (a :: l) := by
  induction l with
  | nil => exact List.Perm.refl _
  | cons b l ih =>
    simp only [insertBy]
    split
    · exact List.Perm.refl _
    · exact (List.Perm.cons b ih).trans (List.Perm.swap a b l)

theorem isort_perm {α} (le : α → α → Bool) (l : List α) : (isort le l).Perm l := by
  induction l with
  | nil => exact List.Perm.refl _
  | cons a l ih => exact (insertBy_perm le a _).trans (List.Perm.cons a ih)

theorem insertBy_pairwise {α} (le : α → α → Bool) (htr : ∀ a b c, le a b = true → le b c = true → le a c = true)
    (htot : ∀ a b, (le a b || le b a) = true) (a : α) (l : List α)
    (h : l.Pairwise (fun x y => le x y = true)) : (insertBy le a l).Pairwise (fun x y => le x y = true) := by
  induction l with
  | nil => simp [insertBy]
  | cons b l ih =>
    have ⟨hb, hl⟩ := List.pairwise_cons.1 h
    simp only [insertBy]
    split
    · rename_i hab
      refine List.pairwise_cons.2 ⟨?_, h⟩
      intro y hy
      cases hy with
      | head => exact hab
      | tail _ hy' => exact htr _ _ _ hab (hb y hy')
    · rename_i hab
      have hba : le b a = true := by
        have := htot a b
        simp only [Bool.or_eq_true] at this
        rcases this with h1 | h1
        · exact absurd h1 hab
        · exact h1
      refine List.pairwise_cons.2 ⟨?_, ih hl⟩
      intro y hy
      have := (insertBy_perm le a l).mem_iff.1 hy
      cases this with
      | head => exact hba
      | tail _ hy' => exact hb y hy'

theorem isort_pairwise {α} (le : α → α → Bool) (htr : ∀ a b c, le a b = true → le b c = true → le a c = true)
    (htot : ∀ a b, (le a b || le b a) = true) (l : List α) : (isort le l).Pairwise (fun x y => le x y = true) := by
  induction l with
  | nil => exact List.Pairwise.nil
  | cons a l ih => exact insertBy_pairwise le htr htot a _ ih

theorem lexAllLeB_trans (h : Bool) (a b c : CRow) :
    lexAllLeB h a b = true → lexAllLeB h b c = true → lexAllLeB h a c = true := by
  simp only [lexAllLeB, decide_eq_true_eq]
  cases h <;> simp <;> omega

theorem lexAllLeB_total (h : Bool) (a b : CRow) : (lexAllLeB h a b || lexAllLeB h b a) = true := by
  simp only [lexAllLeB, Bool.or_eq_true, decide_eq_true_eq]
  cases h <;> simp <;> omega

/-- the all-fields order refines the (time, channel) order -/
theorem lexAllLeB_imp (h : Bool) (a b : CRow) : lexAllLeB h a b = true → lexLeB h a b = true := by
  simp only [lexAllLeB, lexLeB, decide_eq_true_eq]
  cases h <;> simp <;> omega

theorem sortByTimeExact_fast {h : Bool} {x : List CRow} (hok : sortSpanTooLarge h x = false) :
    sortByTimeExact h x = x.mergeSort (lexLeB h) := by
  simp [sortByTimeExact, hok, sortByTimeFast_eq_mergeSort]

theorem sortByTimeExact_slow {h : Bool} {x : List CRow} (hbig : sortSpanTooLarge h x = true) :
    sortByTimeExact h x = isort (lexAllLeB h) x := by
  simp [sortByTimeExact, hbig, sortByTimeSlow]

theorem sortByTimeExact_perm_sorted (h : Bool) (x : List CRow) :
    (sortByTimeExact h x).Perm x ∧ (sortByTimeExact h x).Pairwise (fun a b => lexLeB h a b = true) := by
  cases hg : sortSpanTooLarge h x with
  | false =>
    rw [sortByTimeExact_fast hg]
    exact ⟨List.mergeSort_perm _ _, List.pairwise_mergeSort (lexLeB_trans h) (lexLeB_total h) x⟩
  | true =>
    rw [sortByTimeExact_slow hg]
    exact ⟨isort_perm _ _,
      (isort_pairwise _ (lexAllLeB_trans h) (lexAllLeB_total h) x).imp (lexAllLeB_imp h _ _)⟩

/-! ### `split_touching_windows` -/

/-- direct definition: for every container the things that reach to within `window` of it, in order -/
def splitTouchSpec (things containers : List Row) (window : Int) : List (List Row) :=
  containers.map fun c => things.filter fun x => decide (c.time - window < x.endt) && decide (x.time < c.endt + window)

/-- for a predicate that only switches from true to false along the list, filtering keeps a prefix -/
theorem filter_eq_take_of_prefix {p : Row → Bool} : ∀ {l : List Row}, l.Pairwise (fun a b => p b = true → p a = true) →
    l.filter p = l.take (l.countP p) := by
  intro l
  induction l with
  | nil => intro _; rfl
  | cons a l ih =>
    intro hp
    have ⟨ha, hl⟩ := List.pairwise_cons.1 hp
    by_cases hpa : p a = true
    · simp [hpa, ih hl]
    · have hz : l.countP p = 0 := countP_eq_zero_of fun x hx => by
        cases h : p x with
        | false => rfl
        | true => exact absurd (ha x hx h) hpa
      have hf : l.filter p = [] := by
        rw [List.filter_eq_nil_iff]; intro x hx hpx; exact hpa (ha x hx hpx)
      simp [hpa, hz, hf]

/-- for a predicate that only switches from false to true along the list, filtering keeps a suffix -/
theorem filter_eq_drop_of_suffix {q : Row → Bool} : ∀ {l : List Row}, l.Pairwise (fun a b => q a = true → q b = true) →
    l.filter q = l.drop (l.countP fun x => !q x) := by
  intro l
  induction l with
  | nil => intro _; rfl
  | cons a l ih =>
    intro hp
    have ⟨ha, hl⟩ := List.pairwise_cons.1 hp
    by_cases hqa : q a = true
    · have hall : ∀ x ∈ l, q x = true := fun x hx => ha x hx hqa
      have hz : l.countP (fun x => !q x) = 0 := countP_eq_zero_of fun x hx => by simp [hall x hx]
      have hf : l.filter q = l := List.filter_eq_self.2 hall
      simp [hqa, hz, hf]
    · simp [hqa, ih hl]

theorem countP_take_of_prefix {p : Row → Bool} : ∀ {l : List Row}, l.Pairwise (fun a b => p b = true → p a = true) →
    ∀ r, (l.take r).countP p = min (l.countP p) r := by
  intro l
  induction l with
  | nil => intro _ r; simp
  | cons a l ih =>
    intro hp r
    have ⟨ha, hl⟩ := List.pairwise_cons.1 hp
    cases r with
    | zero => simp
    | succ r =>
      by_cases hpa : p a = true
      · simp only [List.take_succ_cons, List.countP_cons, hpa, ite_true, ih hl r]; omega
      · have hz : l.countP p = 0 := countP_eq_zero_of fun x hx => by
          cases h : p x with
          | false => rfl
          | true => exact absurd (ha x hx h) hpa
        have hz' : (l.take r).countP p = 0 := countP_eq_zero_of fun x hx => by
          cases h : p x with
          | false => rfl
          | true => exact absurd (ha x (List.mem_of_mem_take hx) h) hpa
        simp [List.take_succ_cons, hpa, hz, hz']

/-- the slice `things[l:r]` of a touching window is exactly the list of touching things -/
theorem window_slice_eq_filter {things : List Row} (c : Row) (w : Int) (ht : sortedByTimeB things = true)
    (he : sortedByEndB things = true) :
    (things.take (things.countP fun x => decide (x.time < c.endt + w))).drop
        (things.countP fun x => decide (x.endt ≤ c.time - w)) =
      things.filter fun x => decide (c.time - w < x.endt) && decide (x.time < c.endt + w) := by
  have hpt : things.Pairwise (fun a b => decide (b.time < c.endt + w) = true → decide (a.time < c.endt + w) = true) :=
    (sortedByTimeB_pairwise ht).imp (by intro a b hab; simp; omega)
  have hpe : things.Pairwise (fun a b => decide (b.endt ≤ c.time - w) = true → decide (a.endt ≤ c.time - w) = true) :=
    (sortedByEndB_pairwise he).imp (by intro a b hab; simp; omega)
  have hqe : things.Pairwise (fun a b => decide (c.time - w < a.endt) = true → decide (c.time - w < b.endt) = true) :=
    (sortedByEndB_pairwise he).imp (by intro a b hab; simp; omega)
  -- filter by both = filter (suffix predicate) of filter (prefix predicate)
  have h1 : things.filter (fun x => decide (c.time - w < x.endt) && decide (x.time < c.endt + w)) =
      (things.filter fun x => decide (x.time < c.endt + w)).filter fun x => decide (c.time - w < x.endt) := by
    rw [List.filter_filter]
  rw [h1, filter_eq_take_of_prefix hpt]
  generalize things.countP (fun x => decide (x.time < c.endt + w)) = r
  have hsub : (things.take r).Pairwise (fun a b => decide (c.time - w < a.endt) = true → decide (c.time - w < b.endt) = true) :=
    hqe.sublist (List.take_sublist _ _)
  rw [filter_eq_drop_of_suffix hsub]
  have hneg : (fun x : Row => !decide (c.time - w < x.endt)) = fun x => decide (x.endt ≤ c.time - w) := by
    funext x; by_cases h : c.time - w < x.endt <;> simp [h] <;> omega
  rw [hneg, countP_take_of_prefix hpe r]
  -- drop (min l r) (take r) = drop l (take r)
  by_cases hlr : things.countP (fun x => decide (x.endt ≤ c.time - w)) ≤ r
  · rw [Nat.min_eq_left hlr]
  · have h2 : min (things.countP fun x => decide (x.endt ≤ c.time - w)) r = r := by omega
    rw [h2]
    have hlen : (things.take r).length ≤ r := by simp; omega
    rw [List.drop_eq_nil_of_le hlen, List.drop_eq_nil_of_le (by omega)]

theorem splitTouchingWindows_eq_spec {things containers : List Row} (w : Int)
    (ht : sortedByTimeB things = true) (he : sortedByEndB things = true) (hc : sortedByTimeB containers = true)
    (hnt : nonNegB things = true) (hnc : nonNegB containers = true) :
    splitTouchingWindows things containers w = .ok (splitTouchSpec things containers w) := by
  simp only [splitTouchingWindows, touchingWindows_eq_spec w ht he hc hnt hnc, splitByWindow, touchSpec, splitTouchSpec,
    List.map_map]
  congr 1
  apply List.map_congr_left
  intro c _
  exact window_slice_eq_filter c w ht he


/-! ### translation invariance: the kernels only look at differences of times -/

/-- move a row by `d` -/
def shiftRow (d : Int) (r : Row) : Row := { r with time := r.time + d, endt := r.endt + d }

def shiftRows (d : Int) (l : List Row) : List Row := l.map (shiftRow d)

@[simp] theorem shiftRow_time (d : Int) (r : Row) : (shiftRow d r).time = r.time + d := rfl
@[simp] theorem shiftRow_endt (d : Int) (r : Row) : (shiftRow d r).endt = r.endt + d := rfl
@[simp] theorem shiftRow_id (d : Int) (r : Row) : (shiftRow d r).id = r.id := rfl
@[simp] theorem shiftRows_nil (d : Int) : shiftRows d [] = [] := rfl
@[simp] theorem shiftRows_cons (d : Int) (r : Row) (l : List Row) :
    shiftRows d (r :: l) = shiftRow d r :: shiftRows d l := rfl

theorem sortedByTimeB_shift (d : Int) (l : List Row) : sortedByTimeB (shiftRows d l) = sortedByTimeB l := by
  induction l with
  | nil => rfl
  | cons a l ih =>
    cases l with
    | nil => rfl
    | cons b rest =>
      simp only [shiftRows_cons, sortedByTimeB, shiftRow_time] at ih ⊢
      rw [ih]; congr 1; simp

theorem sortedByEndB_shift (d : Int) (l : List Row) : sortedByEndB (shiftRows d l) = sortedByEndB l := by
  induction l with
  | nil => rfl
  | cons a l ih =>
    cases l with
    | nil => rfl
    | cons b rest =>
      simp only [shiftRows_cons, sortedByEndB, shiftRow_endt] at ih ⊢
      rw [ih]; congr 1; simp

theorem nonOverlapB_shift (d : Int) (l : List Row) : nonOverlapB (shiftRows d l) = nonOverlapB l := by
  induction l with
  | nil => rfl
  | cons a l ih =>
    cases l with
    | nil => rfl
    | cons b rest =>
      simp only [shiftRows_cons, nonOverlapB, shiftRow_endt, shiftRow_time] at ih ⊢
      rw [ih]; congr 1; simp

theorem nonNegB_shift (d : Int) (l : List Row) : nonNegB (shiftRows d l) = nonNegB l := by
  simp [nonNegB, shiftRows, List.all_map, Function.comp_def]

theorem isEmpty_shift (d : Int) (l : List Row) : (shiftRows d l).isEmpty = l.isEmpty := by
  cases l <;> rfl

/-! #### fully_contained_in -/

theorem skipContainers_shift (d t : Int) (bs : List Row) : ∀ bi,
    skipContainers (t + d) (shiftRows d bs) bi =
      (shiftRows d (skipContainers t bs bi).1, (skipContainers t bs bi).2) := by
  induction bs with
  | nil => intro bi; rfl
  | cons b bs ih =>
    intro bi
    simp only [shiftRows_cons, skipContainers, shiftRow_endt]
    by_cases h : b.endt ≤ t
    · have : b.endt + d ≤ t + d := by omega
      simp only [h, this, ite_true]; exact ih (bi + 1)
    · have : ¬ b.endt + d ≤ t + d := by omega
      simp only [h, this, ite_false, shiftRows_cons]

theorem fcInLoop_shift (d : Int) (as : List Row) : ∀ (bs : List Row) (bi : Nat),
    fcInLoop (shiftRows d as) (shiftRows d bs) bi = fcInLoop as bs bi := by
  induction as with
  | nil => intros; rfl
  | cons a as ih =>
    intro bs bi
    simp only [shiftRows_cons, fcInLoop, shiftRow_time, skipContainers_shift]
    cases hs : skipContainers a.time bs bi with
    | mk bs' bi' =>
      cases bs' with
      | nil => simp [shiftRows]
      | cons b bs'' =>
        simp only [shiftRows_cons, shiftRow_time, shiftRow_endt]
        have := ih (b :: bs'') bi'
        simp only [shiftRows_cons] at this
        rw [this]
        congr 1
        by_cases hc : b.time ≤ a.time ∧ a.endt ≤ b.endt
        · have : b.time + d ≤ a.time + d ∧ a.endt + d ≤ b.endt + d := ⟨by omega, by omega⟩
          simp [hc]
        · have : ¬ (b.time + d ≤ a.time + d ∧ a.endt + d ≤ b.endt + d) := fun h => hc ⟨by omega, by omega⟩
          simp [hc]

theorem sanity_shift (d : Int) (t c : List Row) : sanity (shiftRows d t) (shiftRows d c) = sanity t c := by
  simp only [sanity, sortedByTimeB_shift, nonNegB_shift]

theorem fullyContainedIn_shift (d : Int) (things containers : List Row) :
    fullyContainedIn (shiftRows d things) (shiftRows d containers) = fullyContainedIn things containers := by
  simp only [fullyContainedIn, sanity_shift, fcInCore, fcInLoop_shift]

/-! #### touching_windows -/

theorem advanceLeft_shift (d bound : Int) (ts : List Row) : ∀ i,
    advanceLeft (bound + d) (shiftRows d ts) i = (shiftRows d (advanceLeft bound ts i).1, (advanceLeft bound ts i).2) := by
  induction ts with
  | nil => intro i; rfl
  | cons x xs ih =>
    intro i
    simp only [shiftRows_cons, advanceLeft, shiftRow_endt]
    by_cases h : x.endt ≤ bound
    · have : x.endt + d ≤ bound + d := by omega
      simp only [h, this, ite_true]; exact ih (i + 1)
    · have : ¬ x.endt + d ≤ bound + d := by omega
      simp only [h, this, ite_false, shiftRows_cons]

theorem advanceRight_shift (d bound : Int) (ts : List Row) : ∀ i,
    advanceRight (bound + d) (shiftRows d ts) i = (shiftRows d (advanceRight bound ts i).1, (advanceRight bound ts i).2) := by
  induction ts with
  | nil => intro i; rfl
  | cons x xs ih =>
    intro i
    simp only [shiftRows_cons, advanceRight, shiftRow_time]
    by_cases h : x.time < bound
    · have : x.time + d < bound + d := by omega
      simp only [h, this, ite_true]; exact ih (i + 1)
    · have : ¬ x.time + d < bound + d := by omega
      simp only [h, this, ite_false, shiftRows_cons]

theorem leftPass_shift (d w : Int) (cs : List Row) : ∀ (ts : List Row) (i : Nat),
    leftPass w (shiftRows d cs) (shiftRows d ts) i = leftPass w cs ts i := by
  induction cs with
  | nil => intros; rfl
  | cons c cs ih =>
    intro ts i
    have e : c.time + d - w = (c.time - w) + d := by omega
    simp only [shiftRows_cons, leftPass, shiftRow_time, e, advanceLeft_shift, ih]

theorem rightPass_shift (d w : Int) (cs : List (Row × Nat)) : ∀ (ts : List Row) (i : Nat),
    rightPass w (cs.map fun p => (shiftRow d p.1, p.2)) (shiftRows d ts) i = rightPass w cs ts i := by
  induction cs with
  | nil => intros; rfl
  | cons c cs ih =>
    obtain ⟨c, ci⟩ := c
    intro ts i
    have e : c.endt + d + w = (c.endt + w) + d := by omega
    simp only [List.map_cons, rightPass, shiftRow_endt, e, advanceRight_shift, ih]

theorem argsortByEnd_shift (d : Int) (cs : List Row) :
    argsortByEnd (shiftRows d cs) = (argsortByEnd cs).map fun p => (shiftRow d p.1, p.2) := by
  unfold argsortByEnd shiftRows
  have hz : (cs.map (shiftRow d)).zipIdx = cs.zipIdx.map (Prod.map (shiftRow d) id) := List.map_zipIdx.symm
  rw [hz]
  have := List.map_mergeSort (f := Prod.map (shiftRow d) id)
    (r := fun (p q : Row × Nat) => decide (p.1.endt ≤ q.1.endt))
    (s := fun (p q : Row × Nat) => decide (p.1.endt ≤ q.1.endt)) (l := cs.zipIdx)
    (by intro a _ b _; simp [Prod.map])
  rw [← this]
  rfl

theorem touchingWindowsCore_shift (d w : Int) (things containers : List Row) :
    touchingWindowsCore (shiftRows d things) (shiftRows d containers) w = touchingWindowsCore things containers w := by
  simp only [touchingWindowsCore, leftPass_shift, argsortByEnd_shift, rightPass_shift]

theorem touchingWindows_shift (d w : Int) (things containers : List Row) :
    touchingWindows (shiftRows d things) (shiftRows d containers) w = touchingWindows things containers w := by
  have hm : (shiftRows d containers).map (fun _ => ((0, 0) : Nat × Nat)) = containers.map fun _ => (0, 0) := by
    simp [shiftRows]
  simp only [touchingWindows, sortedByTimeB_shift, nonNegB_shift, isEmpty_shift, touchingWindowsCore_shift, hm]

/-! #### diff, _find_break_i -/

theorem diffAux_shift (d : Int) (l : List Row) : ∀ m, diffAux (m + d) (shiftRows d l) = diffAux m l := by
  induction l with
  | nil => intro m; rfl
  | cons a l ih =>
    intro m
    cases l with
    | nil => rfl
    | cons b rest =>
      have e : max (m + d) (a.endt + d) = max m a.endt + d := by omega
      have := ih (max m a.endt)
      simp only [shiftRows_cons] at this
      simp only [shiftRows_cons, diffAux, shiftRow_endt, shiftRow_time, e, this]
      congr 1; omega

theorem diffGaps_shift (d : Int) (rows : List Row) : diffGaps (shiftRows d rows) = diffGaps rows := by
  cases rows with
  | nil => rfl
  | cons r rest =>
    have := diffAux_shift d (r :: rest) r.endt
    simpa [diffGaps] using this

theorem findBreakLoop_shift (d safe : Int) (ds : List Row) : ∀ (latest : Int) (i : Nat),
    findBreakLoop safe (shiftRows d ds) (latest + d) i = findBreakLoop safe ds latest i := by
  induction ds with
  | nil => intros; rfl
  | cons x xs ih =>
    intro latest i
    have e : max (latest + d) (x.endt + d) = max latest x.endt + d := by omega
    simp only [shiftRows_cons, findBreakLoop, shiftRow_time, shiftRow_endt, e, ih]
    by_cases h : x.time ≥ latest + safe
    · have : x.time + d ≥ latest + d + safe := by omega
      simp [h, this]
    · have : ¬ x.time + d ≥ latest + d + safe := by omega
      simp [h, this]

theorem findBreakI_shift (d safe nb : Int) (data : List Row) :
    findBreakI (shiftRows d data) safe (nb + d) = findBreakI data safe nb := by
  match data with
  | [] => rfl
  | [_] => rfl
  | d0 :: d1 :: rest =>
    have e : max (nb + d) (d0.endt + d) = max nb d0.endt + d := by omega
    have := findBreakLoop_shift d safe (d1 :: rest) (max nb d0.endt) 1
    simp only [shiftRows_cons] at this
    simp only [shiftRows_cons, findBreakI, shiftRow_endt, e, this]

/-! #### abs_time_to_prev_next_interval, overlap_indices -/

theorem prevLoop_shift (d t : Int) (ivs : List Row) : ∀ (prev : Int) (seen : Nat),
    prevLoop (t + d) (shiftRows d ivs) prev seen = prevLoop t ivs prev seen := by
  induction ivs with
  | nil => intros; rfl
  | cons iv ivs ih =>
    intro prev seen
    have e : t + d - (iv.endt + d) = t - iv.endt := by omega
    simp only [shiftRows_cons, prevLoop, shiftRow_time, shiftRow_endt, e, ih]
    by_cases h : iv.time ≥ t
    · have : iv.time + d ≥ t + d := by omega
      simp [h, this]
    · have : ¬ iv.time + d ≥ t + d := by omega
      simp [h, this]

theorem nextLoop_shift (d e : Int) (ivs : List Row) : nextLoop (e + d) (shiftRows d ivs) = nextLoop e ivs := by
  induction ivs with
  | nil => rfl
  | cons iv ivs ih =>
    simp only [shiftRows_cons, nextLoop, shiftRow_time, ih]
    by_cases h : iv.time < e
    · have : iv.time + d < e + d := by omega
      simp [h, this]
    · have : ¬ iv.time + d < e + d := by omega
      simp [h, this]; omega

theorem prevNextLoop_shift (d : Int) (ivs : List Row) (ths : List Row) : ∀ seen,
    prevNextLoop (shiftRows d ivs) (shiftRows d ths) seen = prevNextLoop ivs ths seen := by
  induction ths with
  | nil => intro _; rfl
  | cons th ths ih =>
    intro seen
    have hd : ∀ k, (shiftRows d ivs).drop k = shiftRows d (ivs.drop k) := by
      intro k; simp [shiftRows, List.map_drop]
    simp only [shiftRows_cons, prevNextLoop, shiftRow_time, shiftRow_endt, hd, prevLoop_shift, nextLoop_shift, ih]

theorem absTimeToPrevNext_shift (d : Int) (things intervals : List Row) :
    absTimeToPrevNext (shiftRows d things) (shiftRows d intervals) = absTimeToPrevNext things intervals := by
  have hm : (shiftRows d things).map (fun _ => ((-1, -1) : Int × Int)) = things.map fun _ => (-1, -1) := by
    simp [shiftRows]
  simp only [absTimeToPrevNext, sortedByTimeB_shift, isEmpty_shift, prevNextLoop_shift, hm]

theorem overlapIndices_shift (d a1 nA b1 nB : Int) :
    overlapIndices (a1 + d) nA (b1 + d) nB = overlapIndices a1 nA b1 nB := by
  have e : a1 + d - (b1 + d) = a1 - b1 := by omega
  simp only [overlapIndices, e]


/-! #### sort_by_time -/

def shiftC (d : Int) (r : CRow) : CRow := { r with time := r.time + d }

theorem minList_shift (d : Int) (l : List Int) : ∀ m, minList (m + d) (l.map (· + d)) = minList m l + d := by
  induction l with
  | nil => intro m; rfl
  | cons a l ih =>
    intro m
    have e : min (m + d) (a + d) = min m a + d := by omega
    simp only [minList, List.map_cons, List.foldl_cons, e] at ih ⊢
    exact ih (min m a)

theorem maxList_shift (d : Int) (l : List Int) : ∀ m, maxList (m + d) (l.map (· + d)) = maxList m l + d := by
  induction l with
  | nil => intro m; rfl
  | cons a l ih =>
    intro m
    have e : max (m + d) (a + d) = max m a + d := by omega
    simp only [maxList, List.map_cons, List.foldl_cons, e] at ih ⊢
    exact ih (max m a)

theorem sortChannels_shift (d : Int) (h : Bool) (x : List CRow) :
    sortChannels h (x.map (shiftC d)) = sortChannels h x := by
  simp [sortChannels, shiftC, Function.comp_def]

theorem times_shift (d : Int) (rs : List CRow) :
    (rs.map (shiftC d)).map (·.time) = (rs.map (·.time)).map (· + d) := by
  simp [shiftC, Function.comp_def]

theorem sortKeys_shift (d : Int) (h : Bool) (x : List CRow) : sortKeys h (x.map (shiftC d)) = sortKeys h x := by
  cases x with
  | nil => rfl
  | cons r rs =>
    unfold sortKeys
    rw [sortChannels_shift]
    cases hc : sortChannels h (r :: rs) with
    | nil => rfl
    | cons c cs =>
      simp only [List.map_cons, times_shift]
      have : (shiftC d r).time = r.time + d := rfl
      rw [this, minList_shift]
      have hz : ∀ (l : List CRow) (cl : List Int), ((l.map (shiftC d)).zip cl).map
            (fun p => (p.1.time - (minList r.time (rs.map (·.time)) + d)) * (maxList c cs + 1) + p.2) =
          (l.zip cl).map (fun p => (p.1.time - minList r.time (rs.map (·.time))) * (maxList c cs + 1) + p.2) := by
        intro l
        induction l with
        | nil => intro cl; rfl
        | cons a l ih =>
          intro cl
          cases cl with
          | nil => rfl
          | cons k cl =>
            simp only [List.map_cons, List.zip_cons_cons, ih cl]
            congr 2
            have : (shiftC d a).time = a.time + d := rfl
            rw [this]
            congr 1; omega
      have := hz (r :: rs) (c :: cs)
      simpa using this

theorem sortSpanTooLarge_shift (d : Int) (h : Bool) (x : List CRow) :
    sortSpanTooLarge h (x.map (shiftC d)) = sortSpanTooLarge h x := by
  cases x with
  | nil => rfl
  | cons r rs =>
    unfold sortSpanTooLarge
    rw [sortChannels_shift]
    cases hc : sortChannels h (r :: rs) with
    | nil => rfl
    | cons c cs =>
      simp only [List.map_cons, times_shift]
      have : (shiftC d r).time = r.time + d := rfl
      rw [this, minList_shift, maxList_shift]
      have e : maxList r.time (rs.map (·.time)) + d - (minList r.time (rs.map (·.time)) + d) =
          maxList r.time (rs.map (·.time)) - minList r.time (rs.map (·.time)) := by omega
      rw [e]

theorem sortByTimeFast_shift (d : Int) (h : Bool) (x : List CRow) :
    sortByTimeFast h (x.map (shiftC d)) = (sortByTimeFast h x).map (shiftC d) := by
  unfold sortByTimeFast
  rw [sortKeys_shift]
  have hz : (sortKeys h x).zip (x.map (shiftC d)) = ((sortKeys h x).zip x).map (Prod.map id (shiftC d)) := by
    rw [List.zip_map_right]
  rw [hz]
  have := List.map_mergeSort (f := Prod.map id (shiftC d))
    (r := fun (p q : Int × CRow) => decide (p.1 ≤ q.1))
    (s := fun (p q : Int × CRow) => decide (p.1 ≤ q.1)) (l := (sortKeys h x).zip x)
    (by intro a _ b _; simp [Prod.map])
  rw [← this, List.map_map, List.map_map]
  rfl

theorem insertBy_map {α β} (f : α → β) (le : α → α → Bool) (le' : β → β → Bool)
    (hc : ∀ a b, le' (f a) (f b) = le a b) (a : α) (l : List α) :
    insertBy le' (f a) (l.map f) = (insertBy le a l).map f := by
  induction l with
  | nil => rfl
  | cons b l ih =>
    simp only [List.map_cons, insertBy, hc]
    split <;> simp [ih]

theorem isort_map {α β} (f : α → β) (le : α → α → Bool) (le' : β → β → Bool)
    (hc : ∀ a b, le' (f a) (f b) = le a b) (l : List α) : isort le' (l.map f) = (isort le l).map f := by
  induction l with
  | nil => rfl
  | cons a l ih =>
    simp only [isort, List.map_cons, List.foldr_cons] at ih ⊢
    rw [ih, insertBy_map f le le' hc]

theorem sortByTimeExact_shift (d : Int) (h : Bool) (x : List CRow) :
    sortByTimeExact h (x.map (shiftC d)) = (sortByTimeExact h x).map (shiftC d) := by
  unfold sortByTimeExact
  rw [sortSpanTooLarge_shift]
  split
  · unfold sortByTimeSlow
    apply isort_map
    intro a b
    unfold lexAllLeB
    rw [decide_eq_decide]
    have ht : ∀ r : CRow, (shiftC d r).time = r.time + d := fun _ => rfl
    have hch : ∀ r : CRow, (shiftC d r).channel = r.channel := fun _ => rfl
    have hid : ∀ r : CRow, (shiftC d r).id = r.id := fun _ => rfl
    simp only [ht, hch, hid]
    cases h <;> simp <;> omega
  · exact sortByTimeFast_shift d h x


/-! ### `sort_by_time`: what the code computes (int64 key, float64 guard) vs the exact specification -/

/-- outside the guard band the code computes the exact specification -/
theorem sortByTime_eq_exact {h : Bool} {x : List CRow} (hr : sortRegular h x = true) :
    sortByTime h x = sortByTimeExact h x := by
  simp only [sortRegular, Bool.and_eq_true, Bool.or_eq_true, beq_iff_eq] at hr
  obtain ⟨hg, hk⟩ := hr
  unfold sortByTime sortByTimeExact
  rw [hg]
  cases hbig : sortSpanTooLarge h x with
  | true => rfl
  | false =>
    rw [hbig] at hk
    have hk' : sortKeysW h x = sortKeys h x := by
      rcases hk with hk | hk
      · cases hk
      · exact hk
    simp only [Bool.false_eq_true, ite_false, sortByTimeFastW, sortByTimeFast, hk']

theorem sortKeysW_length (h : Bool) (x : List CRow) : (sortKeysW h x).length = x.length := by
  cases x with
  | nil => simp [sortKeysW]
  | cons r rs =>
    have hc := sortChannels_eq h (r :: rs)
    simp only [List.map_cons] at hc
    unfold sortKeysW
    rw [hc]
    simp

/-- every path of the code returns a permutation of its input -/
theorem sortByTime_perm (h : Bool) (x : List CRow) : (sortByTime h x).Perm x := by
  unfold sortByTime
  split
  · exact isort_perm _ _
  · unfold sortByTimeFastW
    have hp := (List.mergeSort_perm ((sortKeysW h x).zip x) fun p q => decide (p.1 ≤ q.1)).map (·.2)
    have hm : ((sortKeysW h x).zip x).map (·.2) = x :=
      List.map_snd_zip (by rw [sortKeysW_length]; exact Nat.le_refl _)
    rw [hm] at hp
    exact hp

/-! #### the code before the D33 fix: float64 key when there is no channel field -/

/-- `(time - tmin) * 2.0 + 1.0` in float64 (`channel = np.ones(len(x))` was a float array, so was the key) -/
def oldNoChannelKey (tmin t : Int) : Int := fl53 (fl53 (fl53 (t - tmin) * 2) + 1)

/-- the old fast path for an array without channel field: stable sort by the float key -/
def sortByTimeOldNoChannel (x : List CRow) : List CRow :=
  match x with
  | [] => []
  | r :: rs =>
    let tmin := minList r.time (rs.map (·.time))
    isort (fun a b => decide (oldNoChannelKey tmin a.time ≤ oldNoChannelKey tmin b.time)) (r :: rs)

/-! #### sort_enforcement -/

theorem sort_kind_rejected {kind : String} (hk : kind ≠ "mergesort") (arr : List Int) (h : Bool) (x : List CRow)
    (things containers : List Row) (w : Int) :
    stableArgsort kind arr = none ∧ stableSort kind arr = none ∧ sortByTimeAndChannelKind kind h x = none ∧
    touchingWindowsCoreKind kind things containers w = none := by
  simp [stableArgsort, stableSort, sortByTimeAndChannelKind, touchingWindowsCoreKind, hk]

theorem stableSort_mergesort (arr : List Int) :
    ∃ out, stableSort "mergesort" arr = some out ∧ out.Perm arr ∧ out.Pairwise (· ≤ ·) := by
  refine ⟨arr.mergeSort fun a b => decide (a ≤ b), by simp [stableSort], List.mergeSort_perm _ _, ?_⟩
  have := List.pairwise_mergeSort (le := fun (a b : Int) => decide (a ≤ b))
    (by intro a b c; simp; omega) (by intro a b; simp; omega) arr
  exact this.imp (by intro a b; simp)

/-- `stable_argsort`: the indices are those of the stable merge sort of the (key, index) pairs — a permutation of
`0..n-1`, pairs sorted by key, and every already ordered subsequence of the input (in particular equal keys) keeps its order -/
theorem stableArgsort_mergesort (arr : List Int) :
    let sorted := arr.zipIdx.mergeSort fun p q => decide (p.1 ≤ q.1)
    stableArgsort "mergesort" arr = some (sorted.map (·.2)) ∧ (sorted.map (·.2)).Perm (List.range arr.length) ∧
      sorted.Pairwise (fun p q => p.1 ≤ q.1) ∧
      ∀ ys : List (Int × Nat), ys.Pairwise (fun p q => p.1 ≤ q.1) → ys.Sublist arr.zipIdx → ys.Sublist sorted := by
  have htr : ∀ a b c : Int × Nat, decide (a.1 ≤ b.1) = true → decide (b.1 ≤ c.1) = true → decide (a.1 ≤ c.1) = true := by
    intro a b c; simp; omega
  have htot : ∀ a b : Int × Nat, (decide (a.1 ≤ b.1) || decide (b.1 ≤ a.1)) = true := by
    intro a b; simp; omega
  refine ⟨by simp [stableArgsort], ?_, ?_, ?_⟩
  · have hp := (List.mergeSort_perm arr.zipIdx fun p q => decide (p.1 ≤ q.1)).map (·.2)
    have : arr.zipIdx.map (·.2) = List.range arr.length := by
      apply List.ext_getElem
      · simp
      · intro i h1 h2; simp
    rw [this] at hp; exact hp
  · exact (List.pairwise_mergeSort htr htot arr.zipIdx).imp (by intro a b; simp)
  · intro ys h1 h2
    exact List.sublist_mergeSort htr htot (h1.imp (by intro a b; simp)) h2


end Strax.IntervalAlgos
