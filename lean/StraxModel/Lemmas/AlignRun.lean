import StraxModel.Lemmas.AlignTotal
/-
  Theory T4 "Align", part 3: totality of one iteration, of the loop and of the whole run of
  `Plugin.iter` on law-abiding inputs that start and end together (Props/C08.lean `converges_partial`,
  `calls_tile_run`, `rows_inside_call`).
-/
namespace Strax.Align
open Strax

/-! ### the last iteration: the pacemaker is exhausted and every dependency ends at `T1` -/

theorem iterBody_final {rid : String} {n : Nat} {strict : Bool} {z z' : Zip DepState} {call : Call} {T T1 : Int}
    (hg : ∀ s ∈ z.toList, GoodState rid s) (hT : ∀ s ∈ z.toList, s.buf.start = T)
    (he : ∀ s ∈ z.toList, endOf s.buf s.rem = T1 ∧ LastPos s.rem) (hpm : z.pm.rem = [])
    (h : iterBody n strict z = .ok (call, z')) :
    call.stop = T1 ∧ ∀ s ∈ z'.toList, s.rem = [] ∧ s.buf.rows = [] := by
  obtain ⟨z0, zi, hz0, hzi, b⟩ := iterBody_ok' h
  have hpmem : z.pm ∈ z.toList := Zip.mem_toList.mpr (Or.inr (Or.inl rfl))
  have ht : z.pm.buf.stop = T1 := by
    have := (he _ hpmem).1
    rw [hpm] at this
    simpa [endOf] using this
  have f0 : ∀ p ∈ z0.toList, p.2.rem = [] ∧ p.2.buf.rows = [] ∧ p.1.stop = T1 :=
    Zip.mapE_ok_forall2 (P := fun p => p.2.rem = [] ∧ p.2.buf.rows = [] ∧ p.1.stop = T1)
      (fun a ha b hb => by
        have := (prepDep_good (inp := b.1) (s' := b.2) (hg a ha) (by simp) hb).2.2.2.2
          (by rw [(he a ha).1, ht]; exact Int.le_refl _) (he a ha).2
        rw [(he a ha).1] at this; exact this)
      (fun b hb => by
        have := (prepDep_good (inp := b.1) (s' := b.2) (hg _ hpmem) (fun _ => rfl) hb).2.2.2.2
          (by rw [(he _ hpmem).1, ht]; exact Int.le_refl _) (he _ hpmem).2
        rw [(he _ hpmem).1] at this; exact this) hz0
  have g0 : ∀ p ∈ z0.toList, GoodPair rid p :=
    Zip.mapE_ok_forall2 (P := GoodPair rid)
      (fun a ha b hb => (prepDep_good (inp := b.1) (s' := b.2) (hg a ha) (by simp) hb).1)
      (fun b hb => (prepDep_good (inp := b.1) (s' := b.2) (hg _ hpmem) (fun _ => rfl) hb).1) hz0
  have heq : allEq (inputEnds z0) = true := by
    apply allEq_of_all_eq (a := T1)
    intro x hx
    obtain ⟨p, hp, rfl⟩ := List.mem_map.mp hx
    exact (f0 p hp).2.2
  have hzz : zi = z0 := (retrim_good g0 hzi).2.2.2 heq
  subst hzz
  obtain ⟨a1, a2, a3⟩ := b.adjacent hT
  constructor
  · obtain ⟨p, hp⟩ := List.exists_mem_of_ne_nil _ b.nonempty
    have hrange := a3 (p.1.start, p.1.stop) (by rw [b.ranges]; exact List.mem_map.mpr ⟨p, hp, rfl⟩)
    simp only [Prod.mk.injEq] at hrange
    rw [← hrange.2]; exact (f0 p hp).2.2
  · intro s hs
    rw [b.next] at hs
    obtain ⟨p, hp, rfl⟩ := List.mem_map.mp hs
    exact ⟨(f0 p hp).1, (f0 p hp).2.1⟩

/-! ### totality of the steps -/

theorem fetchUntil_total {t : Int} : ∀ {rem : List Chunk} {buf : Chunk}, Law (buf :: rem) →
    t ≤ endOf buf rem → ∃ r, fetchUntil t rem buf = .ok r
  | [], buf, _, he => by
    unfold fetchUntil
    simp only [endOf] at he
    rw [if_neg (by omega)]
    exact ⟨_, rfl⟩
  | c :: rest, buf, hl, he => by
    unfold fetchUntil
    split
    · obtain ⟨g1, a1, a2, a3, hl'⟩ := law_cons_cons.1 hl
      obtain ⟨b, hb⟩ := concat_total g1 (law_head hl') a1 a2 a3
      obtain ⟨cg, _, ce, _, ct, cr⟩ := concat_good_of_ok g1 (law_head hl') a1 a2 a3 hb
      have hlb : Law (b :: rest) := law_replace_head hl' cg ce (by rw [ct, a2]) (by rw [cr, a3])
      rw [hb]
      dsimp only
      exact fetchUntil_total hlb (by rw [endOf_congr ce rest]; exact he)
    · exact ⟨_, rfl⟩

theorem prepDep_total {rid : String} {t : Int} {fl : Bool} {s : DepState} (hs : GoodState rid s)
    (hreach : fl = false → t ≤ endOf s.buf s.rem) : ∃ r, prepDep t fl s = .ok r := by
  unfold prepDep
  cases fl with
  | true =>
    simp only [if_true]
    obtain ⟨c1, c2, hsp⟩ := split_early_total t (law_head hs.1)
    rw [hsp]
    exact ⟨_, rfl⟩
  | false =>
    simp only [Bool.false_eq_true, if_false]
    obtain ⟨⟨rem, buf⟩, hf⟩ := fetchUntil_total hs.1 (hreach rfl)
    rw [hf]
    dsimp only
    obtain ⟨f1, _⟩ := fetchUntil_good hs.1 hf
    obtain ⟨c1, c2, hsp⟩ := split_early_total t (law_head f1)
    rw [hsp]
    exact ⟨_, rfl⟩

/-! ### merging by kind when all kinds are different; the range check -/

theorem nodup_filter_eq {α : Type} {g : α → String} : ∀ {l : List α}, (l.map g).Nodup → ∀ {a : α}, a ∈ l →
    l.filter (fun x => g x == g a) = [a]
  | [], _, _, ha => by simp at ha
  | x :: xs, hnd, a, ha => by
    simp only [List.map_cons, List.nodup_cons] at hnd
    obtain ⟨hx, hxs⟩ := hnd
    rcases List.mem_cons.mp ha with e | e
    · subst e
      have : xs.filter (fun y => g y == g a) = [] := by
        rw [List.filter_eq_nil_iff]
        intro y hy hyy
        apply hx
        have : g y = g a := by simpa using hyy
        rw [← this]; exact List.mem_map.mpr ⟨y, hy, rfl⟩
      simp [this]
    · have hne : ¬ (g x == g a) = true := by
        intro hh
        apply hx
        have : g x = g a := by simpa using hh
        rw [this]; exact List.mem_map.mpr ⟨a, e, rfl⟩
      rw [List.filter_cons, if_neg hne]
      exact nodup_filter_eq hxs e

theorem mergeByKind_total_distinct {inputs : List (Chunk × DepState)}
    (hnd : (inputs.map (fun p => p.2.dep.kind)).Nodup) (hne : inputs ≠ []) :
    ∃ merged, mergeByKind inputs = .ok merged ∧ merged ≠ [] ∧ ∀ m ∈ merged, ∃ p ∈ inputs, m = p.1 := by
  have hstep : ∀ k ∈ kindsOf [] (inputs.map (fun p => p.2.dep.kind)),
      ∃ p ∈ inputs, mergeChunks ((inputs.filter (fun q => q.2.dep.kind == k)).map (fun q => q.1)) "<UNKNOWN>" = .ok p.1 := by
    intro k hk
    obtain ⟨p, hp, rfl⟩ := List.mem_map.mp (kindsOf_sub hk)
    refine ⟨p, hp, ?_⟩
    rw [nodup_filter_eq (g := fun q => q.2.dep.kind) hnd hp]
    rfl
  obtain ⟨merged, hm⟩ := mapE_total
    (f := fun k => mergeChunks ((inputs.filter (fun q => q.2.dep.kind == k)).map (fun q => q.1)) "<UNKNOWN>")
    (l := kindsOf [] (inputs.map (fun p => p.2.dep.kind)))
    (fun k hk => by obtain ⟨p, _, h⟩ := hstep k hk; exact ⟨p.1, h⟩)
  refine ⟨merged, hm, ?_, ?_⟩
  · obtain ⟨p0, hp0⟩ := List.exists_mem_of_ne_nil _ hne
    have hk : p0.2.dep.kind ∈ kindsOf [] (inputs.map (fun p => p.2.dep.kind)) :=
      kindsOf_complete (List.mem_map.mpr ⟨p0, hp0, rfl⟩) (by simp)
    obtain ⟨m, hmem, _⟩ := mapE_ok_each hm _ hk
    exact List.ne_nil_of_mem hmem
  · refine mapE_ok_forall (P := fun m => ∃ p ∈ inputs, m = p.1) ?_ hm
    intro k hk m hmk
    obtain ⟨p, hp, h⟩ := hstep k hk
    rw [h] at hmk
    injection hmk with hmk
    exact ⟨p, hp, hmk.symm⟩

theorem computeRange_total {strict : Bool} {merged : List Chunk} {T E : Int} {S : Runs}
    (hne : merged ≠ [])
    (H : ∀ m ∈ merged, m.start = T ∧ m.stop = E ∧ m.superrun = S ∧ m.subruns = none) :
    computeRange strict merged = .ok (T, E) := by
  unfold computeRange
  match merged, hne, H with
  | m0 :: rest, _, H =>
    dsimp only
    have h1 : allEq (List.map (fun m => (m.start, m.stop)) (m0 :: rest)) = true := by
      apply allEq_of_all_eq (a := (T, E))
      intro x hx
      obtain ⟨m, hm, rfl⟩ := List.mem_map.mp hx
      rw [(H m hm).1, (H m hm).2.1]
    have h2 : allEq (List.map (fun m => m.superrun) (m0 :: rest)) = true := by
      apply allEq_of_all_eq (a := S)
      intro x hx
      obtain ⟨m, hm, rfl⟩ := List.mem_map.mp hx
      exact (H m hm).2.2.1
    have h3 : allEq (List.map (fun m => m.subruns) (m0 :: rest)) = true := by
      apply allEq_of_all_eq (a := none)
      intro x hx
      obtain ⟨m, hm, rfl⟩ := List.mem_map.mp hx
      exact (H m hm).2.2.2
    have h0 := H m0 (by simp)
    rw [h1, h2, h3]
    simp [h0.1, h0.2.1]

/-! ### one iteration never fails (distinct kinds, enough passes) -/

theorem good_runs {c : Chunk} {rid : String} (hg : c.good = true) (hr : c.runId = some rid) :
    c.superrun = [⟨rid, c.start, c.stop⟩] ∧ c.subruns = none := by
  simp only [Chunk.good, Bool.and_eq_true] at hg
  obtain ⟨hsub, rid', hrid, hsup⟩ := (Chunk.simple_iff c).1 hg.2
  rw [hr] at hrid
  injection hrid with hrid
  subst hrid
  exact ⟨hsup, hsub⟩

theorem sum_map_le {α : Type} {f g : α → Nat} : ∀ {l : List α}, (∀ a ∈ l, f a ≤ g a) →
    (l.map f).sum ≤ (l.map g).sum
  | [], _ => by simp
  | a :: l, h => by
    have := h a (by simp)
    have := sum_map_le (l := l) (fun x hx => h x (List.mem_cons_of_mem _ hx))
    simp only [List.map_cons, List.sum_cons]
    omega

/-- total number of rows in flight -/
def inFlight (sts : List DepState) : Nat := (sts.map (fun s => (content s).length)).sum

theorem iterBody_total {rid : String} {n : Nat} {strict : Bool} {z : Zip DepState} {T T1 : Int}
    (hg : ∀ s ∈ z.toList, GoodState rid s) (hT : ∀ s ∈ z.toList, s.buf.start = T)
    (he : ∀ s ∈ z.toList, endOf s.buf s.rem = T1)
    (hk : (z.toList.map (fun s => s.dep.kind)).Nodup) (hn : inFlight z.toList + 2 ≤ n) :
    ∃ r, iterBody n strict z = .ok r := by
  have hpmem : z.pm ∈ z.toList := Zip.mem_toList.mpr (Or.inr (Or.inl rfl))
  have hpmle : z.pm.buf.stop ≤ T1 := by
    have := law_stop_le_end (hg _ hpmem).1
    rw [he _ hpmem] at this; exact this
  -- 1. fetch the others, split every buffer
  obtain ⟨z0, hz0⟩ := Zip.mapE_total2 (f := prepDep z.pm.buf.stop) (z := z)
    (fun a ha => prepDep_total (hg a ha) (fun _ => by rw [he a ha]; exact hpmle))
    (prepDep_total (hg _ hpmem) (fun h => by cases h))
  have g0 : ∀ p ∈ z0.toList, GoodPair rid p :=
    Zip.mapE_ok_forall2 (P := GoodPair rid)
      (fun a ha b hb => (prepDep_good (inp := b.1) (s' := b.2) (hg a ha) (by simp) hb).1)
      (fun b hb => (prepDep_good (inp := b.1) (s' := b.2) (hg _ hpmem) (fun _ => rfl) hb).1) hz0
  have s0 : ∀ p ∈ z0.toList, p.1.start = T :=
    Zip.mapE_ok_forall (P := fun p => p.1.start = T)
      (fun _ a ha b hb => by rw [(prepDep_ok (inp := b.1) (s' := b.2) hb).2.1]; exact hT a ha) hz0
  have c0 := Zip.mapE_ok_map (g := pcontent) (k := content)
    (fun _ _ _ b hb => (prepDep_ok (inp := b.1) (s' := b.2) hb).1) hz0
  have d0 := Zip.mapE_ok_map (g := fun p => p.2.dep) (k := fun s => s.dep)
    (fun _ _ _ b hb => (prepDep_ok (inp := b.1) (s' := b.2) hb).2.2.2.1) hz0
  -- 2. the re-trim loop has enough passes
  have hmeasure : inRows z0 + 2 ≤ n := by
    have h1 : inRows z0 ≤ (z0.toList.map (fun p => (pcontent p).length)).sum :=
      sum_map_le (fun p _ => by simp [pcontent])
    have h2 : (z0.toList.map (fun p => (pcontent p).length)) = (z.toList.map (fun s => (content s).length)) := by
      have := congrArg (List.map List.length) c0
      rw [List.map_map, List.map_map] at this
      exact this
    rw [h2] at h1
    unfold inFlight at hn
    omega
  have htT : T ≤ z.pm.buf.stop := by
    have := (good_range (law_head (hg _ hpmem).1)).2
    rw [hT _ hpmem] at this; exact this
  obtain ⟨zi, hzi⟩ := retrim_total g0 s0 htT hmeasure
  obtain ⟨r1, r2, r3, r4, _, _⟩ := retrim_ok hzi
  obtain ⟨gi, _, _, _⟩ := retrim_good g0 hzi
  have si : ∀ p ∈ zi.toList, p.1.start = T := by
    intro p hp
    have : p.1.start ∈ zi.toList.map (fun p => p.1.start) := List.mem_map.mpr ⟨p, hp, rfl⟩
    rw [r2] at this
    obtain ⟨q, hq, e⟩ := List.mem_map.mp this
    rw [← e]; exact s0 q hq
  have hne : zi.toList ≠ [] := by simp [Zip.toList]
  have hends : ∀ p ∈ zi.toList, p.1.stop = zi.pm.1.stop := by
    intro p hp
    exact allEq_true r4 _ (List.mem_map.mpr ⟨p, hp, rfl⟩) _
      (List.mem_map.mpr ⟨zi.pm, Zip.mem_toList.mpr (Or.inr (Or.inl rfl)), rfl⟩)
  -- 3. merge by kind: all kinds differ
  have hki : (zi.toList.map (fun p => p.2.dep.kind)).Nodup := by
    have e : zi.toList.map (fun p => p.2.dep.kind) = z.toList.map (fun s => s.dep.kind) := by
      have := congrArg (List.map (fun d : Dep => d.kind)) (r3.trans d0)
      rw [List.map_map, List.map_map] at this
      exact this
    rw [e]; exact hk
  obtain ⟨merged, hm, hmne, hmem⟩ := mergeByKind_total_distinct hki hne
  -- 4. the range check
  have hr : computeRange strict merged = .ok (T, zi.pm.1.stop) := by
    apply computeRange_total (S := [⟨rid, T, zi.pm.1.stop⟩]) hmne
    intro m hmm
    obtain ⟨p, hp, rfl⟩ := hmem m hmm
    obtain ⟨hsup, hsub⟩ := good_runs (law_head (gi p hp).1) (gi p hp).2
    exact ⟨si p hp, hends p hp, by rw [hsup, si p hp, hends p hp], hsub⟩
  unfold iterBody
  dsimp only
  rw [hz0]; dsimp only
  rw [hzi]; dsimp only
  rw [hm]; dsimp only
  rw [hr]
  exact ⟨_, rfl⟩

/-- the rows in flight never increase over an iteration -/
theorem iterBody_inFlight {n : Nat} {strict : Bool} {z z' : Zip DepState} {call : Call}
    (h : iterBody n strict z = .ok (call, z')) : inFlight z'.toList ≤ inFlight z.toList := by
  obtain ⟨L, b⟩ := iterBody_ok h
  unfold inFlight
  rw [b.next, List.map_map]
  have h1 : (L.map ((fun s => (content s).length) ∘ fun p => p.2)).sum ≤ (L.map (fun p => (pcontent p).length)).sum :=
    sum_map_le (fun p _ => by simp [pcontent])
  have h2 : L.map (fun p => (pcontent p).length) = z.toList.map (fun s => (content s).length) := by
    have := congrArg (List.map List.length) b.cont
    rw [List.map_map, List.map_map] at this
    exact this
  rw [h2] at h1
  exact h1

/-! ### the loop -/

/-- what holds of the states between two iterations -/
structure LoopInv (rid : String) (T T1 : Int) (sts : List DepState) : Prop where
  good : ∀ s ∈ sts, GoodState rid s
  start : ∀ s ∈ sts, s.buf.start = T
  ends : ∀ s ∈ sts, endOf s.buf s.rem = T1 ∧ LastPos s.rem

theorem lastPos_tail {c : Chunk} {rest : List Chunk} (h : LastPos (c :: rest)) : LastPos rest := by
  cases rest with
  | nil => trivial
  | cons d l => exact h

/-- one successful iteration keeps the invariant; the next common start is the end of the call -/
theorem iterBody_inv {rid : String} {n : Nat} {strict : Bool} {z z' : Zip DepState} {call : Call} {T T1 : Int}
    (hi : LoopInv rid T T1 z.toList) (h : iterBody n strict z = .ok (call, z')) :
    LoopInv rid call.stop T1 z'.toList ∧ call.start = T ∧ call.Inside ∧
      z'.toList.map (fun s => s.dep) = z.toList.map (fun s => s.dep) ∧ z'.pm.rem = z.pm.rem := by
  obtain ⟨L, b⟩ := iterBody_ok h
  obtain ⟨a1, a2, _⟩ := b.adjacent hi.start
  obtain ⟨g1, g2, _, g4, g5⟩ := iterBody_good hi.good hi.start h
  refine ⟨⟨g1, a2, ?_⟩, a1, g2, b.deps', b.pmrem⟩
  intro s hs
  refine ⟨?_, g5 (fun s hs => (hi.ends s hs).2) s hs⟩
  have : endOf s.buf s.rem ∈ z'.toList.map (fun s => endOf s.buf s.rem) := List.mem_map.mpr ⟨s, hs, rfl⟩
  rw [g4] at this
  obtain ⟨q, hq, e⟩ := List.mem_map.mp this
  rw [← e]; exact (hi.ends q hq).1

/-- fetching the pacemaker's next chunk keeps the invariant and changes neither content nor names -/
theorem fetchPm_inv {rid : String} {T T1 : Int} {pre post : List DepState} {d : Dep} {buf buf1 c : Chunk}
    {rest : List Chunk} (hi : LoopInv rid T T1 (pre ++ ⟨d, c :: rest, buf⟩ :: post))
    (hb : concatenate [buf, c] false = .ok buf1) :
    LoopInv rid T T1 (Zip.toList ⟨pre, ⟨d, rest, buf1⟩, post⟩) ∧
      (Zip.toList ⟨pre, ⟨d, rest, buf1⟩, post⟩).map content = (pre ++ ⟨d, c :: rest, buf⟩ :: post).map content ∧
      (Zip.toList ⟨pre, ⟨d, rest, buf1⟩, post⟩).map (fun s => s.dep) = (pre ++ ⟨d, c :: rest, buf⟩ :: post).map (fun s => s.dep) := by
  have hmem : (⟨d, c :: rest, buf⟩ : DepState) ∈ pre ++ ⟨d, c :: rest, buf⟩ :: post := by simp
  obtain ⟨hl, hr⟩ := hi.good _ hmem
  obtain ⟨g1, a1, a2, a3, hl'⟩ := law_cons_cons.1 hl
  obtain ⟨cg, cs, ce, crows, ct, cr⟩ := concat_good_of_ok g1 (law_head hl') a1 a2 a3 hb
  have hlb : Law (buf1 :: rest) := law_replace_head hl' cg ce (by rw [ct, a2]) (by rw [cr, a3])
  refine ⟨⟨?_, ?_, ?_⟩, ?_, ?_⟩
  · intro s hs
    rcases Zip.mem_toList.mp hs with h1 | h1 | h1
    · exact hi.good s (by simp [h1])
    · subst h1; exact ⟨hlb, by show buf1.runId = some rid; rw [cr]; exact hr⟩
    · exact hi.good s (by simp [h1])
  · intro s hs
    rcases Zip.mem_toList.mp hs with h1 | h1 | h1
    · exact hi.start s (by simp [h1])
    · subst h1; show buf1.start = T; rw [cs]; exact hi.start _ hmem
    · exact hi.start s (by simp [h1])
  · intro s hs
    rcases Zip.mem_toList.mp hs with h1 | h1 | h1
    · exact hi.ends s (by simp [h1])
    · subst h1
      obtain ⟨e1, e2⟩ := hi.ends _ hmem
      exact ⟨by show endOf buf1 rest = T1; rw [endOf_congr ce rest]; exact e1, lastPos_tail e2⟩
    · exact hi.ends s (by simp [h1])
  · simp [Zip.toList, content, allRows, crows]
  · simp [Zip.toList]

theorem iterLoop_good {rid : String} {n : Nat} {strict : Bool} {T1 : Int} :
    ∀ {rem : List Chunk} {pre : List DepState} {d : Dep} {buf : Chunk} {post : List DepState}
      {calls : List Call} {fin : List DepState} {T : Int},
      LoopInv rid T T1 (pre ++ ⟨d, rem, buf⟩ :: post) →
      (rem = [] → T = T1 ∧ ∀ s ∈ pre ++ ⟨d, [], buf⟩ :: post, s.rem = [] ∧ s.buf.rows = []) →
      iterLoop n strict rem pre d buf post = .ok (calls, fin) →
        (∀ c ∈ calls, c.Inside) ∧ lastStop T calls = T1 ∧ ∀ s ∈ fin, s.rem = [] ∧ s.buf.rows = []
  | [], pre, d, buf, post, calls, fin, T, _, hfin, h => by
    unfold iterLoop at h
    injection h with h; injection h with h1 h2; subst h1 h2
    exact ⟨by simp, (hfin rfl).1, (hfin rfl).2⟩
  | c :: rest, pre, d, buf, post, calls, fin, T, hi, _, h => by
    unfold iterLoop at h
    split at h
    · cases h
    · rename_i buf1 hb
      split at h
      · cases h
      · rename_i call z' hbody
        split at h
        · cases h
        · rename_i calls' fin' hrec
          injection h with h; injection h with h1 h2; subst h1 h2
          obtain ⟨hz, _, _⟩ := fetchPm_inv hi hb
          obtain ⟨hz', c1, c2, _, c4⟩ := iterBody_inv hz hbody
          have hpm : (⟨z'.pm.dep, rest, z'.pm.buf⟩ : DepState) = z'.pm := by
            have := c4; simp only at this; rw [← this]
          have hz'' : LoopInv rid call.stop T1 (z'.pre ++ ⟨z'.pm.dep, rest, z'.pm.buf⟩ :: z'.post) := by
            rw [hpm]; exact hz'
          obtain ⟨i1, i2, i3⟩ := iterLoop_good hz'' (by
            intro hrest
            subst hrest
            obtain ⟨f1, f2⟩ := iterBody_final hz.good hz.start hz.ends rfl hbody
            refine ⟨f1, ?_⟩
            rw [hpm]; exact f2) hrec
          refine ⟨?_, i2, i3⟩
          intro x hx
          rcases List.mem_cons.mp hx with e | e
          · subst e; exact c2
          · exact i1 x e

theorem iterLoop_total {rid : String} {n : Nat} {strict : Bool} {T1 : Int} :
    ∀ {rem : List Chunk} {pre : List DepState} {d : Dep} {buf : Chunk} {post : List DepState} {T : Int},
      LoopInv rid T T1 (pre ++ ⟨d, rem, buf⟩ :: post) →
      ((pre ++ ⟨d, rem, buf⟩ :: post).map (fun s => s.dep.kind)).Nodup →
      inFlight (pre ++ ⟨d, rem, buf⟩ :: post) + 2 ≤ n →
        ∃ r, iterLoop n strict rem pre d buf post = .ok r
  | [], pre, d, buf, post, T, _, _, _ => ⟨_, by unfold iterLoop; rfl⟩
  | c :: rest, pre, d, buf, post, T, hi, hk, hn => by
    have hmem : (⟨d, c :: rest, buf⟩ : DepState) ∈ pre ++ ⟨d, c :: rest, buf⟩ :: post := by simp
    obtain ⟨hl, _⟩ := hi.good _ hmem
    obtain ⟨g1, a1, a2, a3, hl'⟩ := law_cons_cons.1 hl
    obtain ⟨buf1, hb⟩ := concat_total g1 (law_head hl') a1 a2 a3
    obtain ⟨hz, hc, hd⟩ := fetchPm_inv hi hb
    have hkz : ((Zip.toList ⟨pre, ⟨d, rest, buf1⟩, post⟩).map (fun s => s.dep.kind)).Nodup := by
      have := congrArg (List.map (fun d : Dep => d.kind)) hd
      rw [List.map_map, List.map_map] at this
      rw [show (fun s : DepState => s.dep.kind) = ((fun d : Dep => d.kind) ∘ fun s => s.dep) from rfl, this]
      exact hk
    have hnz : inFlight (Zip.toList ⟨pre, ⟨d, rest, buf1⟩, post⟩) + 2 ≤ n := by
      have := congrArg (List.map List.length) hc
      rw [List.map_map, List.map_map] at this
      unfold inFlight at hn ⊢
      rw [show (fun s : DepState => (content s).length) = (List.length ∘ content) from rfl, this]
      exact hn
    obtain ⟨⟨call, z'⟩, hbody⟩ := iterBody_total (strict := strict) hz.good hz.start (fun s hs => (hz.ends s hs).1) hkz hnz
    obtain ⟨hz', _, _, c3, c4⟩ := iterBody_inv hz hbody
    have hpm : (⟨z'.pm.dep, rest, z'.pm.buf⟩ : DepState) = z'.pm := by
      have := c4; simp only at this; rw [← this]
    have hfl := iterBody_inFlight hbody
    obtain ⟨⟨calls, fin⟩, hrec⟩ := iterLoop_total (strict := strict) (n := n) (rem := rest) (pre := z'.pre) (d := z'.pm.dep)
      (buf := z'.pm.buf) (post := z'.post) (T := call.stop) (by rw [hpm]; exact hz')
      (by
        rw [hpm, show z'.pre ++ z'.pm :: z'.post = z'.toList from rfl]
        have := congrArg (List.map (fun d : Dep => d.kind)) c3
        rw [List.map_map, List.map_map] at this
        rw [show (fun s : DepState => s.dep.kind) = ((fun d : Dep => d.kind) ∘ fun s => s.dep) from rfl, this]
        exact hkz)
      (by rw [hpm, show z'.pre ++ z'.pm :: z'.post = z'.toList from rfl]; omega)
    exact ⟨_, by unfold iterLoop; rw [hb]; dsimp only; rw [hbody]; dsimp only; rw [hrec]⟩

/-! ### rows inside their call: needs only validity and a common start -/

theorem iterLoop_inside {rid : String} {n : Nat} {strict : Bool} :
    ∀ {rem : List Chunk} {pre : List DepState} {d : Dep} {buf : Chunk} {post : List DepState}
      {calls : List Call} {fin : List DepState} {T : Int},
      (∀ s ∈ pre ++ ⟨d, rem, buf⟩ :: post, GoodState rid s) →
      (∀ s ∈ pre ++ ⟨d, rem, buf⟩ :: post, s.buf.start = T) →
      iterLoop n strict rem pre d buf post = .ok (calls, fin) → ∀ c ∈ calls, c.Inside
  | [], pre, d, buf, post, calls, fin, T, _, _, h => by
    unfold iterLoop at h
    injection h with h; injection h with h1 h2; subst h1 h2
    simp
  | c :: rest, pre, d, buf, post, calls, fin, T, hg, hT, h => by
    unfold iterLoop at h
    split at h
    · cases h
    · rename_i buf1 hb
      split at h
      · cases h
      · rename_i call z' hbody
        split at h
        · cases h
        · rename_i calls' fin' hrec
          injection h with h; injection h with h1 h2; subst h1 h2
          have hmem : (⟨d, c :: rest, buf⟩ : DepState) ∈ pre ++ ⟨d, c :: rest, buf⟩ :: post := by simp
          obtain ⟨hl, hr⟩ := hg _ hmem
          obtain ⟨g1, a1, a2, a3, hl'⟩ := law_cons_cons.1 hl
          obtain ⟨cg, cs, ce, _, ct, cr⟩ := concat_good_of_ok g1 (law_head hl') a1 a2 a3 hb
          have hlb : Law (buf1 :: rest) := law_replace_head hl' cg ce (by rw [ct, a2]) (by rw [cr, a3])
          have hgz : ∀ s ∈ (Zip.toList ⟨pre, ⟨d, rest, buf1⟩, post⟩), GoodState rid s := by
            intro s hs
            rcases Zip.mem_toList.mp hs with h1 | h1 | h1
            · exact hg s (by simp [h1])
            · subst h1; exact ⟨hlb, by show buf1.runId = some rid; rw [cr]; exact hr⟩
            · exact hg s (by simp [h1])
          have hTz : ∀ s ∈ (Zip.toList ⟨pre, ⟨d, rest, buf1⟩, post⟩), s.buf.start = T := by
            intro s hs
            rcases Zip.mem_toList.mp hs with h1 | h1 | h1
            · exact hT s (by simp [h1])
            · subst h1; show buf1.start = T; rw [cs]; exact hT _ hmem
            · exact hT s (by simp [h1])
          obtain ⟨L, b⟩ := iterBody_ok hbody
          obtain ⟨_, a2', _⟩ := b.adjacent hTz
          obtain ⟨g1', g2', _, _, _⟩ := iterBody_good hgz hTz hbody
          have hpm : (⟨z'.pm.dep, rest, z'.pm.buf⟩ : DepState) = z'.pm := by
            have := b.pmrem; simp only at this; rw [← this]
          have ih := iterLoop_inside (rid := rid) (T := call.stop)
            (by rw [hpm]; exact g1') (by rw [hpm]; exact a2') hrec
          intro x hx
          rcases List.mem_cons.mp hx with e | e
          · subst e; exact g2'
          · exact ih x e

/-! ### the whole run -/

def lastPosB : List Chunk → Bool
  | [] => true
  | [d] => decide (d.start < d.stop)
  | _ :: d :: l => lastPosB (d :: l)

theorem lastPosB_iff : ∀ l : List Chunk, lastPosB l = true ↔ LastPos l
  | [] => by simp [lastPosB, LastPos]
  | [d] => by simp [lastPosB, LastPos]
  | _ :: d :: l => by
    simp only [lastPosB, LastPos]
    exact lastPosB_iff (d :: l)

/-- every dependency's chunk list is a law-abiding stream (C07's sense: good chunks, adjacent, one
data type) of run `rid` -/
def validInputsB (rid : String) (chunks : List (List Chunk)) : Bool :=
  chunks.all fun cs => match cs with
    | [] => false
    | c :: l => Strax.LawAbiding (c :: l) && (c.runId == some rid)

/-- every dependency ends at `T1`, and not with a zero-duration chunk after other chunks -/
def endAtB (T1 : Int) (chunks : List (List Chunk)) : Bool :=
  chunks.all fun cs => match cs with
    | [] => false
    | c :: l => decide (endOf c l = T1) && lastPosB l

theorem choosePm_some : ∀ (l : List DepState) (a : Zip DepState), ∃ z, choosePm (some a) l = some z
  | [], a => ⟨a, rfl⟩
  | s :: rest, a => by
    unfold choosePm
    split
    · exact choosePm_some rest _
    · exact choosePm_some rest _

theorem choosePm_total {l : List DepState} (h : l ≠ []) : ∃ z, choosePm none l = some z := by
  cases l with
  | nil => exact absurd rfl h
  | cons s rest => unfold choosePm; exact choosePm_some rest _

theorem checkExhausted_total : ∀ {sts : List DepState}, (∀ s ∈ sts, s.rem = []) → checkExhausted sts = .ok ()
  | [], _ => rfl
  | s :: rest, h => by
    unfold checkExhausted
    rw [h s (by simp)]
    exact checkExhausted_total (fun x hx => h x (List.mem_cons_of_mem _ hx))

theorem finish_total {strict : Bool} {fin : List DepState}
    (h : ∀ s ∈ fin, s.rem = [] ∧ s.buf.rows = []) :
    ∃ left, finish strict fin = .ok left ∧ ∀ l ∈ left, l = [] := by
  unfold finish
  rw [checkExhausted_total (fun s hs => (h s hs).1)]
  dsimp only
  have hany : fin.any (fun s => !s.buf.rows.isEmpty) = false := by
    rw [List.any_eq_false]
    intro s hs
    simp [(h s hs).2]
  rw [hany]
  simp only [Bool.and_false, Bool.false_eq_true, if_false]
  refine ⟨_, rfl, ?_⟩
  intro l hl
  obtain ⟨s, hs, rfl⟩ := List.mem_map.mp hl
  exact (h s hs).2

/-- initial states: good, starting at `T0` -/
theorem init_good {rid : String} {T0 : Int} {deps : List Dep} {chunks : List (List Chunk)} {sts : List DepState}
    (hv : validInputsB rid chunks = true) (hT : StartAt T0 chunks)
    (h : mapE initFetch (deps.zip chunks) = .ok sts) :
    (∀ s ∈ sts, GoodState rid s) ∧ (∀ s ∈ sts, s.buf.start = T0) := by
  have key : ∀ s ∈ sts, GoodState rid s ∧ s.buf.start = T0 := by
    refine mapE_ok_forall (P := fun s => GoodState rid s ∧ s.buf.start = T0) ?_ h
    intro p hp s hs
    have hmem := (List.of_mem_zip hp).2
    have hvp := List.all_eq_true.mp hv p.2 hmem
    obtain ⟨c, rest, hc, hcT⟩ := startAt_mem hT p.2 hmem
    unfold initFetch at hs
    rw [hc] at hs hvp
    injection hs with hs; subst hs
    simp only [Bool.and_eq_true, beq_iff_eq] at hvp
    exact ⟨⟨hvp.1, hvp.2⟩, hcT⟩
  exact ⟨fun s hs => (key s hs).1, fun s hs => (key s hs).2⟩

theorem init_ends {T1 : Int} {deps : List Dep} {chunks : List (List Chunk)} {sts : List DepState}
    (he : endAtB T1 chunks = true) (h : mapE initFetch (deps.zip chunks) = .ok sts) :
    ∀ s ∈ sts, endOf s.buf s.rem = T1 ∧ LastPos s.rem := by
  refine mapE_ok_forall (P := fun s => endOf s.buf s.rem = T1 ∧ LastPos s.rem) ?_ h
  intro p hp s hs
  have hmem := (List.of_mem_zip hp).2
  have hep := List.all_eq_true.mp he p.2 hmem
  unfold initFetch at hs
  split at hs
  · cases hs
  · rename_i c rest hc
    rw [hc] at hep
    injection hs with hs; subst hs
    simp only [Bool.and_eq_true, decide_eq_true_eq] at hep
    exact ⟨hep.1, (lastPosB_iff rest).1 hep.2⟩

theorem initFetch_total {deps : List Dep} {chunks : List (List Chunk)}
    (hne : ∀ cs ∈ chunks, cs ≠ []) : ∃ sts, mapE initFetch (deps.zip chunks) = .ok sts := by
  apply mapE_total
  intro p hp
  have := hne p.2 (List.of_mem_zip hp).2
  unfold initFetch
  cases hc : p.2 with
  | nil => exact absurd hc this
  | cons c rest => exact ⟨_, rfl⟩

/-- inversion of a successful run into its stages -/
theorem iterRunP_stages {n : Nat} {deps : List Dep} {chunks : List (List Chunk)} {strict : Bool} {r : Result}
    (h : iterRunP n deps chunks strict = .ok r) :
    ∃ sts z call z' calls fin,
      mapE initFetch (deps.zip chunks) = .ok sts ∧ z.toList = sts ∧
      iterBody n strict z = .ok (call, z') ∧
      iterLoop n strict z'.pm.rem z'.pre z'.pm.dep z'.pm.buf z'.post = .ok (calls, fin) ∧
      finish strict fin = .ok r.leftover ∧ r.calls = call :: calls := by
  unfold iterRunP at h
  split at h
  · cases h
  · rename_i sts hinit
    split at h
    · cases h
    · rename_i z hz
      unfold iterFrom at h
      split at h
      · cases h
      · rename_i call z' hbody
        split at h
        · cases h
        · rename_i calls fin hloop
          split at h
          · cases h
          · rename_i left hfin
            injection h with h; subst h
            exact ⟨sts, z, call, z', calls, fin, hinit, by simpa using choosePm_ok hz, hbody, hloop, hfin, rfl⟩

/-- **rows inside their call**: with valid law-abiding inputs that start together, every row handed
to `compute` lies inside `[call.start, call.stop]` (and has positive duration) -/
theorem iterRunP_inside {rid : String} {T0 : Int} {n : Nat} {deps : List Dep} {chunks : List (List Chunk)}
    {strict : Bool} {r : Result} (hv : validInputsB rid chunks = true) (hT : StartAt T0 chunks)
    (h : iterRunP n deps chunks strict = .ok r) : ∀ c ∈ r.calls, c.Inside := by
  obtain ⟨sts, z, call, z', calls, fin, hinit, hzl, hbody, hloop, _, hcalls⟩ := iterRunP_stages h
  obtain ⟨hg, hT0⟩ := init_good hv hT hinit
  rw [← hzl] at hg hT0
  obtain ⟨L, b⟩ := iterBody_ok hbody
  obtain ⟨_, a2, _⟩ := b.adjacent hT0
  obtain ⟨g1, g2, _, _, _⟩ := iterBody_good hg hT0 hbody
  have ih := iterLoop_inside (rid := rid) (T := call.stop)
    (by rw [DepState.eta]; exact g1) (by rw [DepState.eta]; exact a2) hloop
  rw [hcalls]
  intro x hx
  rcases List.mem_cons.mp hx with e | e
  · subst e; exact g2
  · exact ih x e

/-- **the calls reach the end of the run**: if moreover all dependencies end at `T1` (not with a
trailing zero-duration chunk), the last call ends at `T1` and nothing is left in any buffer -/
theorem iterRunP_tile {rid : String} {T0 T1 : Int} {n : Nat} {deps : List Dep} {chunks : List (List Chunk)}
    {strict : Bool} {r : Result} (hv : validInputsB rid chunks = true) (hT : StartAt T0 chunks)
    (he : endAtB T1 chunks = true) (h : iterRunP n deps chunks strict = .ok r) :
    lastStop T0 r.calls = T1 ∧ ∀ l ∈ r.leftover, l = [] := by
  obtain ⟨sts, z, call, z', calls, fin, hinit, hzl, hbody, hloop, hfin, hcalls⟩ := iterRunP_stages h
  obtain ⟨hg, hT0⟩ := init_good hv hT hinit
  have hends := init_ends he hinit
  rw [← hzl] at hg hT0 hends
  have hi : LoopInv rid T0 T1 z.toList := ⟨hg, hT0, hends⟩
  obtain ⟨hz', _, _, _, c4⟩ := iterBody_inv hi hbody
  obtain ⟨_, i2, i3⟩ := iterLoop_good (T := call.stop) (by rw [DepState.eta]; exact hz') (by
    intro hrest
    have hzpm : z.pm.rem = [] := by rw [← c4]; exact hrest
    obtain ⟨f1, f2⟩ := iterBody_final hg hT0 hends hzpm hbody
    refine ⟨f1, ?_⟩
    have : (⟨z'.pm.dep, [], z'.pm.buf⟩ : DepState) = z'.pm := by rw [← hrest]
    rw [this]; exact f2) hloop
  obtain ⟨f1, _, _⟩ := finish_ok hfin
  refine ⟨by rw [hcalls]; exact i2, ?_⟩
  intro l hl
  rw [f1] at hl
  obtain ⟨s, hs, rfl⟩ := List.mem_map.mp hl
  simp [content, allRows, (i3 s hs).1, (i3 s hs).2]

/-- **totality**: valid law-abiding inputs that start and end together, pairwise different kinds,
and at least (number of input rows + 2) passes for the re-trim loop: `Plugin.iter` does not fail -/
theorem iterRunP_total {rid : String} {T0 T1 : Int} {n : Nat} {deps : List Dep} {chunks : List (List Chunk)}
    {strict : Bool} (hlen : chunks.length = deps.length) (hdeps : deps ≠ [])
    (hv : validInputsB rid chunks = true) (hT : StartAt T0 chunks) (he : endAtB T1 chunks = true)
    (hk : (deps.map (fun d => d.kind)).Nodup) (hn : (chunks.map allRows).flatten.length + 2 ≤ n) :
    ∃ r, iterRunP n deps chunks strict = .ok r := by
  obtain ⟨sts, hinit⟩ := initFetch_total (deps := deps) (chunks := chunks) (by
    intro cs hcs
    obtain ⟨c, rest, hc, _⟩ := startAt_mem hT cs hcs
    rw [hc]; simp)
  obtain ⟨i1, i2, _⟩ := initFetch_ok hinit
  have hsnd : (deps.zip chunks).map (fun p => allRows p.2) = chunks.map allRows := by
    have : (deps.zip chunks).map Prod.snd = chunks := List.map_snd_zip (by omega)
    calc (deps.zip chunks).map (fun p => allRows p.2)
        = ((deps.zip chunks).map Prod.snd).map allRows := by rw [List.map_map]; rfl
      _ = chunks.map allRows := by rw [this]
  have hfst : (deps.zip chunks).map (fun p => p.1) = deps := List.map_fst_zip (by omega)
  have hsne : sts ≠ [] := by
    intro hnil
    rw [hnil, hfst] at i2
    exact hdeps i2.symm
  obtain ⟨z, hz⟩ := choosePm_total hsne
  have hzl : z.toList = sts := by simpa using choosePm_ok hz
  obtain ⟨hg, hT0⟩ := init_good hv hT hinit
  have hends := init_ends he hinit
  rw [← hzl] at hg hT0 hends i1 i2
  have hi : LoopInv rid T0 T1 z.toList := ⟨hg, hT0, hends⟩
  have hkz : (z.toList.map (fun s => s.dep.kind)).Nodup := by
    have := congrArg (List.map (fun d : Dep => d.kind)) (i2.trans hfst)
    rw [List.map_map] at this
    rw [show (fun s : DepState => s.dep.kind) = ((fun d : Dep => d.kind) ∘ fun s => s.dep) from rfl, this]
    exact hk
  have hnz : inFlight z.toList + 2 ≤ n := by
    have := congrArg (List.map List.length) (i1.trans hsnd)
    rw [List.map_map] at this
    unfold inFlight
    rw [show (fun s : DepState => (content s).length) = (List.length ∘ content) from rfl, this,
      ← List.length_flatten]
    exact hn
  obtain ⟨⟨call, z'⟩, hbody⟩ := iterBody_total (strict := strict) hg hT0 (fun s hs => (hends s hs).1) hkz hnz
  obtain ⟨hz', _, _, c3, c4⟩ := iterBody_inv hi hbody
  have hfl := iterBody_inFlight hbody
  obtain ⟨⟨calls, fin⟩, hloop⟩ := iterLoop_total (strict := strict) (n := n) (rem := z'.pm.rem) (pre := z'.pre)
    (d := z'.pm.dep) (buf := z'.pm.buf) (post := z'.post) (T := call.stop) (by rw [DepState.eta]; exact hz')
    (by
      rw [DepState.eta, show z'.pre ++ z'.pm :: z'.post = z'.toList from rfl]
      have := congrArg (List.map (fun d : Dep => d.kind)) c3
      rw [List.map_map, List.map_map] at this
      rw [show (fun s : DepState => s.dep.kind) = ((fun d : Dep => d.kind) ∘ fun s => s.dep) from rfl, this]
      exact hkz)
    (by rw [DepState.eta, show z'.pre ++ z'.pm :: z'.post = z'.toList from rfl]; omega)
  obtain ⟨_, _, i3⟩ := iterLoop_good (T := call.stop) (by rw [DepState.eta]; exact hz') (by
    intro hrest
    have hzpm : z.pm.rem = [] := by rw [← c4]; exact hrest
    obtain ⟨f1, f2⟩ := iterBody_final hg hT0 hends hzpm hbody
    refine ⟨f1, ?_⟩
    have : (⟨z'.pm.dep, [], z'.pm.buf⟩ : DepState) = z'.pm := by rw [← hrest]
    rw [this]; exact f2) hloop
  obtain ⟨left, hfin, _⟩ := finish_total (strict := strict) i3
  refine ⟨⟨call :: calls, left⟩, ?_⟩
  unfold iterRunP
  rw [hinit]; dsimp only
  rw [hz]; dsimp only
  unfold iterFrom
  rw [hbody]; dsimp only
  rw [hloop]; dsimp only
  rw [hfin]

/-! ### one kind: the merged rows are the rows of the first dependency -/

theorem zipRows_of_iv_eq : ∀ {a b : List Row}, a.map iv = b.map iv → zipRows a b = a
  | [], [], _ => rfl
  | [], _ :: _, h => by simp at h
  | _ :: _, [], h => by simp at h
  | x :: a, y :: b, h => by
    simp only [List.map_cons, List.cons.injEq, iv, Prod.mk.injEq] at h
    obtain ⟨⟨h1, h2⟩, h3⟩ := h
    simp only [zipRows]
    rw [zipRows_of_iv_eq h3]
    cases x; cases y; simp_all

/-- if first and last dependency hand over interval-equal rows, the merged rows are the first's -/
theorem mergedRowsOf_eq {c : Call} {n : Nat} (hlen : c.rows.length = n + 1)
    (h : (c.rowsOf 0).map iv = (c.rowsOf n).map iv) : mergedRowsOf c = c.rowsOf 0 := by
  unfold mergedRowsOf
  cases hr : c.rows with
  | nil => rw [hr] at hlen; simp at hlen
  | cons first rest =>
    dsimp only
    have h0 : c.rowsOf 0 = first := by simp [Call.rowsOf, hr]
    have hn : c.rowsOf n = (first :: rest).getLast (by simp) := by
      rw [hr] at hlen
      have hl : n = (first :: rest).length - 1 := by simp at hlen ⊢; omega
      simp only [Call.rowsOf, hr]
      rw [List.getLast_eq_getElem]
      have : (first :: rest)[n]? = some ((first :: rest)[(first :: rest).length - 1]'(by simp)) := by
        subst hl
        exact List.getElem?_eq_getElem (by simp)
      rw [this]
    rw [h0, hn] at h
    rw [h0]
    exact zipRows_of_iv_eq h

/-! ### translation of a whole input by `d` ns (epoch-scale witnesses of Props/C08) -/

def shiftRow (d : Int) (r : Row) : Row := ⟨r.time + d, r.endt + d, r.id⟩

def shiftChunk (d : Int) (c : Chunk) : Chunk :=
  { c with start := c.start + d, stop := c.stop + d, rows := c.rows.map (shiftRow d),
           subruns := c.subruns.map (·.map fun r => ⟨r.id, r.start + d, r.stop + d⟩),
           superrun := c.superrun.map fun r => ⟨r.id, r.start + d, r.stop + d⟩ }

def shiftCall (d : Int) (c : Call) : Call :=
  ⟨c.start + d, c.stop + d, c.rows.map (·.map (shiftRow d)), c.ranges.map fun r => (r.1 + d, r.2 + d)⟩

/-- a real nanosecond-epoch time: above 2^53, not a multiple of 256 -/
def epochT0 : Int := 1700000000000000137

end Strax.Align
