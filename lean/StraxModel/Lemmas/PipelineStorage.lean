import StraxModel.Lemmas.PipelineBridge
import StraxModel.Props.C03
/-
  Helper lemmas for property C01, part 8: save ∘ load (the model `Storage.saveAll` / `Storage.loadAll` of C03) IS a
  transport of the stream theory on the streams C03's `roundtrip_plain` speaks about (non-empty law-abiding
  streams of run `rid` with restorable run annotations).  Core Lean only.
-/
namespace Strax.Pipeline
open Strax

theorem storage_adjacentB_eq : ∀ (s : List Chunk), Storage.adjacentB s = adjacentB s
  | [] => rfl
  | [_] => rfl
  | a :: b :: rest => by simp only [Storage.adjacentB, adjacentB, storage_adjacentB_eq (b :: rest)]

/-- the laws of chunking used here are those of the storage layer (C03 `Storage.lawAbidingB`) -/
theorem storage_law_of {s : List Chunk} (h : LawAbiding s) : Storage.lawAbidingB s = true := by
  unfold LawAbiding at h
  rw [lawAbiding_iff_global] at h
  simp only [lawAbidingGlobalB, Bool.and_eq_true, List.all_eq_true, decide_eq_true_eq] at h
  obtain ⟨⟨h1, h2⟩, h3⟩ := h
  simp only [Storage.lawAbidingB, Bool.and_eq_true, List.all_eq_true, decide_eq_true_eq, storage_adjacentB_eq]
  refine ⟨⟨h2, ?_⟩, by simpa [rows] using h3⟩
  intro c hc
  obtain ⟨a, b⟩ := h1 c hc
  refine ⟨a, ?_⟩
  simp only [Storage.rowsInside, List.all_eq_true, Bool.and_eq_true, decide_eq_true_eq]
  intro r hr
  have := rowInB_iff.1 (b r hr)
  exact ⟨⟨this.1, this.2.1⟩, this.2.2⟩

/-- the domain of C03's round-trip theorem -/
def storableStreamB (rid : String) (s : List Chunk) : Bool := !s.isEmpty && s.all (Storage.runOkB rid)

/-- `Saver.save_from` without rechunking followed by the loader -/
def storageRun (hdr : Storage.Header) (rid : String) (s : List Chunk) : Except Err (List Chunk) :=
  if storableStreamB rid s then
    match Storage.saveAll (-1) false hdr s with
    | .error e => .error e
    | .ok (md, files) => Storage.loadAll md files
  else .error .other

theorem restore_stream (hdr : Storage.Header) (rid : String) :
    ∀ (s : List Chunk), rows (s.map (Storage.restore hdr rid)) = rows s ∧
      bounds (s.map (Storage.restore hdr rid)) = bounds s ∧
      ((∀ c ∈ s, chunkOKB c = true) → ∀ c ∈ s.map (Storage.restore hdr rid), chunkOKB c = true)
  | [] => ⟨rfl, rfl, fun _ c hc => by simp at hc⟩
  | c :: s => by
    obtain ⟨i1, i2, i3⟩ := restore_stream hdr rid s
    refine ⟨by simp only [List.map_cons, rows_cons, i1]; rfl, ?_, ?_⟩
    · simp only [bounds, List.map_cons] at i2 ⊢; rw [i2]; rfl
    · intro h x hx
      simp only [List.map_cons, List.mem_cons] at hx
      rcases hx with rfl | hx
      · have := h c (by simp)
        simp only [chunkOKB, Storage.restore] at this ⊢
        exact this
      · exact i3 (fun y hy => h y (by simp [hy])) x hx

/-- **save ∘ load is a transport** (C03 `roundtrip_plain`) -/
def Transport.storage (hdr : Storage.Header) (rid : String) : Transport :=
  Transport.ofSpec (storageRun hdr rid) (by
    intro inp out hl h
    unfold storageRun at h
    split at h
    · rename_i hg
      simp only [storableStreamB, Bool.and_eq_true, Bool.not_eq_true', List.isEmpty_eq_false_iff] at hg
      obtain ⟨md, files, hs, hload⟩ := C03.roundtrip_plain (-1) hdr rid inp hg.1 (storage_law_of hl) hg.2
      simp only [hs, hload, Except.ok.injEq] at h
      subst h
      obtain ⟨r1, r2, r3⟩ := restore_stream hdr rid inp
      exact ⟨r1, lawAbiding_of (r3 hl.all_ok) (by rw [adjacentB_of_bounds r2]; exact hl.adjacent), span_of_bounds r2⟩
    · cases h)

theorem Transport.storage_totalOn (hdr : Storage.Header) (rid : String) :
    (Transport.storage hdr rid).TotalOn (fun s => storableStreamB rid s = true) (fun _ => True) := by
  intro inp hl hp
  have hg := hp
  simp only [storableStreamB, Bool.and_eq_true, Bool.not_eq_true', List.isEmpty_eq_false_iff] at hg
  obtain ⟨md, files, hs, hload⟩ := C03.roundtrip_plain (-1) hdr rid inp hg.1 (storage_law_of hl) hg.2
  refine ⟨inp.map (Storage.restore hdr rid), ?_, trivial⟩
  simp [Transport.storage, Transport.ofSpec, storageRun, hp, hs, hload]

end Strax.Pipeline
