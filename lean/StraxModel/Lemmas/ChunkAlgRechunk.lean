import StraxModel.Lemmas.ChunkAlgChunk
import StraxModel.Generated.GetSplits
/-
  Helper lemmas for property C07, part 3: `diff`, `Rechunker.get_splits`, `Rechunker.receive/flush`.
-/
namespace Strax

/-! ### `strax.diff` -/

theorem diffAux_length (m : Int) (rows : List Row) : (diffAux m rows).length = rows.length - 1 := by
  induction rows generalizing m with
  | nil => simp [diffAux]
  | cons a t ih =>
    cases t with
    | nil => simp [diffAux]
    | cons b rest =>
      simp only [diffAux, List.length_cons]
      rw [ih]
      simp

theorem diffAux_spec (m : Int) (rows : List Row) (i : Nat) (r : Row) (h : rows[i+1]? = some r) :
    (diffAux m rows)[i]? = some (r.time - maxEnd m (rows.take (i+1))) := by
  induction rows generalizing m i with
  | nil => simp at h
  | cons a t ih =>
    cases t with
    | nil => simp at h
    | cons b rest =>
      simp only [diffAux]
      cases i with
      | zero =>
        simp at h
        subst h
        simp [maxEnd]
      | succ j =>
        simp only [List.getElem?_cons_succ] at h ⊢
        rw [ih (max m a.endt) j h]
        simp [maxEnd]

theorem diffGaps_length (rows : List Row) : (diffGaps rows).length = rows.length - 1 := by
  cases rows with
  | nil => simp [diffGaps]
  | cons r0 t => simp only [diffGaps]; exact diffAux_length _ _

/-- entry `i` of `diff` is the start of row `i+1` minus the largest end among rows `0..i` -/
theorem diffGaps_spec' (rows : List Row) (i : Nat) (r0 r : Row) (h0 : rows[0]? = some r0)
    (h : rows[i+1]? = some r) :
    (diffGaps rows)[i]? = some (r.time - maxEnd r0.endt (rows.take (i+1))) := by
  cases rows with
  | nil => simp at h
  | cons a t =>
    simp at h0
    subst h0
    simp only [diffGaps]
    exact diffAux_spec _ _ _ _ h

/-! ### gap indices -/

theorem zipIdx_pairwise {α} (l : List α) (k : Nat) :
    (l.zipIdx k).Pairwise (fun a b => a.2 < b.2) := by
  induction l generalizing k with
  | nil => simp
  | cons a t ih =>
    simp only [List.zipIdx_cons, List.pairwise_cons]
    refine ⟨?_, ih (k+1)⟩
    intro x hx
    have := List.le_snd_of_mem_zipIdx hx
    simp; omega

theorem gapIndices_pairwise (rows : List Row) (g : Int) : (gapIndices rows g).Pairwise (· < ·) := by
  unfold gapIndices
  rw [List.pairwise_map]
  apply List.Pairwise.imp _ ((zipIdx_pairwise (diffGaps rows) 0).filter _)
  intro a b h
  omega

theorem mem_gapIndices {rows : List Row} {g : Int} {x : Nat} (h : x ∈ gapIndices rows g) :
    1 ≤ x ∧ ∃ d, (diffGaps rows)[x-1]? = some d ∧ d > g := by
  unfold gapIndices at h
  simp only [List.mem_map, List.mem_filter, decide_eq_true_eq] at h
  obtain ⟨⟨d, i⟩, ⟨hm, hd⟩, rfl⟩ := h
  rw [List.mk_mem_zipIdx_iff_getElem?] at hm
  exact ⟨by omega, d, by simpa using hm, hd⟩

theorem gapIndices_length_le (rows : List Row) (g : Int) : (gapIndices rows g).length ≤ rows.length - 1 := by
  unfold gapIndices
  rw [List.length_map]
  have := List.length_filter_le (fun p : Int × Nat => decide (p.1 > g)) (diffGaps rows).zipIdx
  rw [List.length_zipIdx, diffGaps_length] at this
  exact this

/-- what a gap index means for the rows: the row there starts more than `g` after every earlier end -/
def IsGapAbs (g : Int) (rows : List Row) (x : Nat) : Prop :=
  1 ≤ x ∧ ∃ r, rows[x]? = some r ∧ ∀ y ∈ rows.take x, y.endt + g < r.time

theorem isGapAbs_of_mem {rows : List Row} {g : Int} {x : Nat} (h : x ∈ gapIndices rows g) :
    IsGapAbs g rows x := by
  obtain ⟨h1, d, hd, hg⟩ := mem_gapIndices h
  have hlen := diffGaps_length rows
  have hlt : x - 1 < (diffGaps rows).length := by
    have := List.getElem?_eq_some_iff.1 hd
    exact this.1
  have hx : x < rows.length := by omega
  have h0 : 0 < rows.length := by omega
  have hs := diffGaps_spec' rows (x-1) rows[0] rows[x] (by simp [h0])
    (by rw [show x - 1 + 1 = x by omega]; simp [hx])
  rw [hd] at hs
  simp at hs
  rw [show x - 1 + 1 = x by omega] at hs
  refine ⟨h1, rows[x], by simp [hx], ?_⟩
  intro y hy
  have := (maxEnd_ge rows[0].endt (rows.take x)).2 y hy
  omega

/-! ### `argmin` and the `while` loop of `get_splits` -/

theorem argminAbs_go_bound (target : Int) (best : Nat) (bestV : Int) (i : Nat) (xs : List Nat)
    (h : best < i) : argminAbs.go target best bestV i xs < i + xs.length := by
  induction xs generalizing best bestV i with
  | nil => simp [argminAbs.go]; omega
  | cons x xs ih =>
    simp only [argminAbs.go, List.length_cons]
    split
    · have := ih i (((x : Int) - target).natAbs) (i+1) (by omega); omega
    · have := ih best bestV (i+1) (by omega); omega

theorem argminAbs_some (target : Int) (cand : List Nat) (h : cand ≠ []) :
    ∃ a, argminAbs target cand = some a ∧ a < cand.length := by
  cases cand with
  | nil => exact absurd rfl h
  | cons c cs =>
    refine ⟨_, rfl, ?_⟩
    have := argminAbs_go_bound target 0 (((c : Int) - target).natAbs) 1 cs (by omega)
    simp only [List.length_cons]; omega

theorem splitsLoop_ok (gaps : List Nat) (hp : gaps.Pairwise (· < ·)) (hpos : ∀ x ∈ gaps, 1 ≤ x)
    (lastGap : Nat) (hlast : gaps.getLast? = some lastGap) (assumed n : Nat) :
    ∀ (fuel : Nat) (splits : List Nat) (last k : Nat), k ≤ gaps.length → (k = 0 → last = 0) →
      (1 ≤ k → gaps[k-1]? = some last) → gaps.length - k < fuel →
      splits.Pairwise (· < ·) → (∀ x ∈ splits, x ≤ last) → (∀ x ∈ splits, x = 0 ∨ x ∈ gaps) →
      ∃ s, splitsLoop gaps lastGap assumed n fuel splits last ((k : Int) - 1) = .ok s ∧
        s.Pairwise (· < ·) ∧ (∀ x ∈ s, x = 0 ∨ x ∈ gaps) ∧ splits <+: s := by
  intro fuel
  induction fuel with
  | zero => intro splits last k hk h0 h1 hf; omega
  | succ fuel ih =>
    intro splits last k hk h0 h1 hf hpw hle hmem
    unfold splitsLoop
    split
    · rename_i hcond
      have hlastidx : gaps[gaps.length - 1]? = some lastGap := by
        rw [← List.getLast?_eq_getElem?]; exact hlast
      have hne : gaps.length ≠ 0 := by
        intro h; rw [List.length_eq_zero_iff] at h; subst h; simp at hlast
      have hklt : k < gaps.length := by
        apply Classical.byContradiction
        intro hc
        have hkeq : k = gaps.length := by omega
        have := h1 (by omega)
        rw [hkeq, hlastidx] at this
        simp at this
        omega
      have hdrop : ((k : Int) - 1 + 1).toNat = k := by omega
      simp only [hdrop]
      obtain ⟨a, ha, halt⟩ := argminAbs_some ((assumed : Int) + last) (gaps.drop k)
        (by intro h; have := congrArg List.length h; simp at this; omega)
      rw [ha]
      simp only
      rw [List.length_drop] at halt
      have hka : k + a < gaps.length := by omega
      have hg : (gaps.drop k)[a]? = some gaps[k+a] := by
        rw [List.getElem?_drop]; simp [hka]
      rw [hg]
      simp only
      have hglast : last < gaps[k+a] := by
        by_cases hk0 : k = 0
        · have := h0 hk0
          have := hpos gaps[k+a] (List.getElem_mem _)
          omega
        · have hprev := h1 (by omega)
          have hlt : k - 1 < gaps.length := by omega
          rw [List.getElem?_eq_getElem hlt] at hprev
          simp at hprev
          have := (List.pairwise_iff_getElem.1 hp) (k-1) (k+a) hlt hka (by omega)
          omega
      have hnew := ih (splits ++ [gaps[k+a]]) gaps[k+a] (k+a+1) (by omega) (by omega)
        (by intro _; simp [hka]) (by omega)
        (by
          rw [List.pairwise_append]
          refine ⟨hpw, by simp, ?_⟩
          intro x hx y hy
          simp at hy; subst hy
          have := hle x hx; omega)
        (by
          intro x hx
          simp at hx
          rcases hx with hx | rfl
          · have := hle x hx; omega
          · omega)
        (by
          intro x hx
          simp at hx
          rcases hx with hx | rfl
          · exact hmem x hx
          · right; exact List.getElem_mem _)
      have harg : ((k : Int) - 1 + (a : Int) + 1) = (((k + a + 1 : Nat) : Int) - 1) := by omega
      rw [harg]
      obtain ⟨s, hs, hs1, hs2, hs3⟩ := hnew
      exact ⟨s, hs, hs1, hs2, List.IsPrefix.trans (List.prefix_append _ _) hs3⟩
    · exact ⟨splits, rfl, hpw, hmem, List.prefix_refl _⟩

/-- `get_splits` with the fixed initial `argmin = -1` is total: the empty-`argmin` branch and the
"infinite loop" guard are unreachable; the result starts at 0, is strictly increasing and every
later element is a gap index. -/
theorem getSplits_ok (rows : List Row) (assumed : Nat) (g : Int) (ha : 1 ≤ assumed) :
    ∃ s, getSplits (-1) rows assumed g = .ok s ∧ s.head? = some 0 ∧ s.Pairwise (· < ·) ∧
      ∀ x ∈ s, x = 0 ∨ x ∈ gapIndices rows g := by
  unfold getSplits
  have : ¬ assumed = 0 := by omega
  simp only [this, if_false]
  split
  · exact ⟨[0], rfl, rfl, by simp, by simp⟩
  · rename_i lastGap hlast
    have hp := gapIndices_pairwise rows g
    have hpos : ∀ x ∈ gapIndices rows g, 1 ≤ x := fun x hx => (mem_gapIndices hx).1
    have hlen := gapIndices_length_le rows g
    have := splitsLoop_ok (gapIndices rows g) hp hpos lastGap hlast assumed rows.length
      (rows.length + 2) [0] 0 0 (by omega) (by simp) (by omega) (by omega) (by simp) (by simp) (by simp)
    obtain ⟨s, hs, hs1, hs2, hs3⟩ := this
    refine ⟨s, by simpa using hs, ?_, hs1, hs2⟩
    obtain ⟨t, rfl⟩ := hs3
    rfl

/-! ### law-abiding chunk streams -/

/-- a contiguous stream of good (well-formed, un-annotated) chunks of one data type and run -/
def LawAbiding : List Chunk → Bool
  | [] => true
  | [c] => c.good
  | a :: b :: rest => a.good && decide (a.stop = b.start) && (a.dataType == b.dataType) &&
      (a.runId == b.runId) && LawAbiding (b :: rest)

theorem lawAbiding_cons (a : Chunk) (l : List Chunk) :
    LawAbiding (a :: l) = true ↔ a.good = true ∧
      (∀ b, l.head? = some b → a.stop = b.start ∧ a.dataType = b.dataType ∧ a.runId = b.runId) ∧
      LawAbiding l = true := by
  cases l with
  | nil => simp [LawAbiding]
  | cons b rest => simp [LawAbiding, and_assoc]

theorem lawAbiding_glue (xs ys : List Chunk) (r : Chunk) (h1 : LawAbiding (xs ++ [r]) = true)
    (h2 : LawAbiding ys = true)
    (h3 : ∃ h, ys.head? = some h ∧ h.start = r.start ∧ h.dataType = r.dataType ∧ h.runId = r.runId) :
    LawAbiding (xs ++ ys) = true := by
  induction xs with
  | nil => simpa using h2
  | cons x xs ih =>
    simp only [List.cons_append] at h1 ⊢
    rw [lawAbiding_cons] at h1 ⊢
    obtain ⟨hx, hlink, hrest⟩ := h1
    refine ⟨hx, ?_, ih hrest⟩
    intro b hb
    cases xs with
    | nil =>
      obtain ⟨h, hh, e1, e2, e3⟩ := h3
      simp at hb
      rw [hh] at hb
      simp at hb; subst hb
      have := hlink r (by simp)
      refine ⟨by omega, by rw [e2]; exact this.2.1, by rw [e3]; exact this.2.2⟩
    | cons x' xs' =>
      simp at hb; subst hb
      exact hlink _ (by simp)

/-! ### one cut at a gap -/

/-- relative cut positions: each index is a gap of what is left after the previous cuts -/
def GapsRel (g : Int) : List Row → List Nat → Prop
  | _, [] => True
  | rows, k :: ks => IsGapAbs g rows k ∧ GapsRel g (rows.drop k) ks

theorem append_split_unique {α} (P : α → Prop) {l r a b : List α} (h : l ++ r = a ++ b)
    (hl : ∀ x ∈ l, P x) (hr : ∀ x ∈ r, ¬ P x) (ha : ∀ x ∈ a, P x) (hb : ∀ x ∈ b, ¬ P x) :
    l = a ∧ r = b := by
  induction l generalizing a with
  | nil =>
    cases a with
    | nil => exact ⟨rfl, by simpa using h⟩
    | cons y ys =>
      simp at h
      have : y ∈ r := by rw [h]; simp
      exact absurd (ha y (by simp)) (hr y this)
  | cons x xs ih =>
    cases a with
    | nil =>
      simp at h
      have : x ∈ b := by rw [← h]; simp
      exact absurd (hl x (by simp)) (hb x this)
    | cons y ys =>
      simp at h
      obtain ⟨rfl, h⟩ := h
      have := ih h (fun z hz => hl z (by simp [hz])) (fun z hz => ha z (by simp [hz]))
      exact ⟨by rw [this.1], this.2⟩

theorem splitData_strict_time {c : Chunk} {t : Int} {d1 d2 : List Row} {t' : Int}
    (hv : splitData c t false = .ok (d1, d2, t')) : t' = max (min t c.stop) c.start := by
  unfold splitData at hv
  split at hv
  · simp [pure, Except.pure] at hv; omega
  · split at hv
    · simp [pure, Except.pure] at hv; omega
    · exact splitArray_strict hv

/-- a strict split of a good chunk at a time no row straddles succeeds -/
theorem split_good_ok {c : Chunk} {t : Int} (hg : c.good = true)
    (hno : ¬ ∃ r ∈ c.rows, r.straddles t) : ∃ c1 c2, c.split t false = .ok (c1, c2) := by
  have hg' := hg
  simp only [Chunk.good, Bool.and_eq_true] at hg'
  obtain ⟨hwf, hsimple⟩ := hg'
  obtain ⟨hsub, rid, hrid, hsup⟩ := (Chunk.simple_iff c).1 hsimple
  obtain ⟨h0, hse, hs, hpos, hin⟩ := (Chunk.wf_iff c).1 hwf
  have hnn : ∀ r ∈ c.rows, 0 ≤ r.time := by intro r hr; have := hin r hr; omega
  cases hv : splitData c t false with
  | error e =>
    obtain ⟨-, -, hsa⟩ := splitData_error hv
    have := splitArray_strict_error hsa
    subst this
    exact absurd (straddler_of_splitArray_refuses hnn hsa) hno
  | ok v =>
    obtain ⟨d1, d2, t'⟩ := v
    obtain ⟨ha, hst, hts, hl, hr⟩ := splitData_wf hwf hv
    have hin1 : ∀ x ∈ d1, c.start ≤ x.time ∧ x.endt ≤ t' :=
      fun x hx => ⟨(hin x (by rw [← ha]; simp [hx])).1, hl x hx⟩
    have hin2 : ∀ x ∈ d2, t' ≤ x.time ∧ x.endt ≤ c.stop :=
      fun x hx => ⟨hr x hx, (hin x (by rw [← ha]; simp [hx])).2⟩
    exact ⟨_, _, split_simple_ok hsub hsup h0 hst hts hin1 hin2 hv⟩

/-- time `t` touches no row (not even an endpoint): a boundary strictly inside a row-free gap -/
def CleanCut (rows : List Row) (t : Int) : Prop := ∀ x ∈ rows, ¬ (x.time ≤ t ∧ t ≤ x.endt)

theorem cleanCut_append {a b : List Row} {t : Int} (ha : CleanCut a t) (hb : CleanCut b t) :
    CleanCut (a ++ b) t := by
  intro x hx
  simp only [List.mem_append] at hx
  rcases hx with hx | hx
  · exact ha x hx
  · exact hb x hx

theorem good_facts {c : Chunk} (hg : c.good = true) :
    0 ≤ c.start ∧ c.start ≤ c.stop ∧ ∀ r ∈ c.rows, c.start ≤ r.time ∧ r.endt ≤ c.stop ∧ r.time < r.endt := by
  simp only [Chunk.good, Bool.and_eq_true] at hg
  obtain ⟨h0, hse, -, hpos, hin⟩ := (Chunk.wf_iff c).1 hg.1
  exact ⟨h0, hse, fun r hr => ⟨(hin r hr).1, (hin r hr).2, hpos r hr⟩⟩

/-- `t` is a rechunker cut: 500 ns before a row `r` that is preceded by at least one row and starts
more than 1000 ns (`DEFAULT_CHUNK_SPLIT_NS`) after the end of every row that starts before it.  So
`t` lies in a row-free gap of width > 1000 ns, at distance 500 from the following row. -/
def GapCut (rows : List Row) (t : Int) : Prop :=
  ∃ r ∈ rows, t = r.time - DEFAULT_CHUNK_SPLIT_NS / 2 ∧
    (∃ y ∈ rows, y.endt + DEFAULT_CHUNK_SPLIT_NS < r.time) ∧
    ∀ x ∈ rows, x.endt + DEFAULT_CHUNK_SPLIT_NS < r.time ∨ r.time ≤ x.time

theorem gapCut_before {rows pre : List Row} {t B : Int} (h : GapCut rows t)
    (hrows : ∀ x ∈ rows, B ≤ x.time ∧ x.time < x.endt) (hpre : ∀ x ∈ pre, x.endt ≤ B) :
    GapCut (pre ++ rows) t := by
  obtain ⟨r, hr, ht, ⟨y, hy, hyr⟩, hall⟩ := h
  refine ⟨r, by simp [hr], ht, ⟨y, by simp [hy], hyr⟩, ?_⟩
  intro x hx
  simp only [List.mem_append] at hx
  rcases hx with hx | hx
  · left
    have := hpre x hx
    have := hrows y hy
    omega
  · exact hall x hx

theorem gapCut_after {rows post : List Row} {t E : Int} (h : GapCut rows t)
    (hrows : ∀ x ∈ rows, x.time < x.endt ∧ x.endt ≤ E) (hpost : ∀ x ∈ post, E ≤ x.time) :
    GapCut (rows ++ post) t := by
  obtain ⟨r, hr, ht, ⟨y, hy, hyr⟩, hall⟩ := h
  refine ⟨r, by simp [hr], ht, ⟨y, by simp [hy], hyr⟩, ?_⟩
  intro x hx
  simp only [List.mem_append] at hx
  rcases hx with hx | hx
  · exact hall x hx
  · right
    have := hpost x hx
    have := hrows r hr
    omega

theorem cleanCut_of_gapCut {rows : List Row} {t : Int} (h : GapCut rows t) : CleanCut rows t := by
  obtain ⟨r, -, ht, -, hall⟩ := h
  have hN : DEFAULT_CHUNK_SPLIT_NS = 1000 := rfl
  rw [hN] at ht hall
  have h500 : (1000 : Int) / 2 = 500 := by decide
  rw [h500] at ht
  intro x hx
  rcases hall x hx with h1 | h1 <;> omega

/-- cutting a good chunk 500 ns before a row that starts more than 1000 ns after all earlier ends -/
theorem split_at_gap {c : Chunk} {k : Nat} {r : Row} (hg : c.good = true)
    (hgap : IsGapAbs DEFAULT_CHUNK_SPLIT_NS c.rows k) (hr : c.rows[k]? = some r) :
    ∃ rid t', c.runId = some rid ∧ c.start ≤ t' ∧ t' ≤ c.stop ∧
      c.split (r.time - DEFAULT_CHUNK_SPLIT_NS / 2) false = .ok
        (⟨c.dataType, c.kind, some rid, c.start, t', c.rows.take k, none, [⟨rid, c.start, t'⟩], c.target⟩,
         ⟨c.dataType, c.kind, some rid, t', c.stop, c.rows.drop k, none, [⟨rid, t', c.stop⟩], c.target⟩) ∧
      Chunk.good ⟨c.dataType, c.kind, some rid, c.start, t', c.rows.take k, none, [⟨rid, c.start, t'⟩], c.target⟩ = true ∧
      Chunk.good ⟨c.dataType, c.kind, some rid, t', c.stop, c.rows.drop k, none, [⟨rid, t', c.stop⟩], c.target⟩ = true ∧
      c.start < t' ∧ t' < c.stop ∧ CleanCut c.rows t' ∧ GapCut c.rows t' := by
  have hg' := hg
  simp only [Chunk.good, Bool.and_eq_true] at hg'
  obtain ⟨hwf, hsimple⟩ := hg'
  obtain ⟨h0, hse, hs, hpos, hin⟩ := (Chunk.wf_iff c).1 hwf
  obtain ⟨hk1, r', hr', hbefore⟩ := hgap
  rw [hr] at hr'
  simp at hr'
  subst hr'
  have hN : DEFAULT_CHUNK_SPLIT_NS = 1000 := rfl
  rw [hN] at hbefore ⊢
  have h500 : (1000 : Int) / 2 = 500 := by decide
  rw [h500]
  have hklt : k < c.rows.length := (List.getElem?_eq_some_iff.1 hr).1
  have hrows : c.rows.take k ++ c.rows.drop k = c.rows := List.take_append_drop k c.rows
  have hdrop : c.rows.drop k = r :: c.rows.drop (k+1) := by
    rw [List.drop_eq_getElem_cons hklt]
    have := (List.getElem?_eq_some_iff.1 hr).2
    rw [this]
  have hsd : SortedByTime (c.rows.drop k) := by
    have := hs; rw [← hrows] at this; exact this.append_right
  have hafter : ∀ x ∈ c.rows.drop k, r.time ≤ x.time := by
    intro x hx
    rw [hdrop] at hx hsd
    simp at hx
    rcases hx with rfl | hx
    · omega
    · exact hsd.head_le x hx
  have hrm : r ∈ c.rows := List.mem_of_getElem? hr
  -- some row lies before the cut, so the cut is strictly inside the chunk
  have hk0 : 0 < k := by omega
  have hr0 : c.rows[0] ∈ c.rows.take k := by
    rw [List.mem_take_iff_getElem]
    exact ⟨0, by omega, rfl⟩
  have hr0m : c.rows[0]'(by omega) ∈ c.rows := List.getElem_mem _
  have := hbefore _ hr0
  have := hin _ hr0m
  have := hpos _ hr0m
  have := hin _ hrm
  have := hpos _ hrm
  have hno : ¬ ∃ x ∈ c.rows, x.straddles (r.time - 500) := by
    rintro ⟨x, hx, hst⟩
    unfold Row.straddles at hst
    rw [← hrows] at hx
    simp only [List.mem_append] at hx
    rcases hx with hx | hx
    · have := hbefore x hx; omega
    · have := hafter x hx; omega
  obtain ⟨c1, c2, hsplit⟩ := split_good_ok hg hno
  obtain ⟨rid, t', hrid, hst, hts, -, hc1, hc2, hcat, hl, hrr, hg1, hg2⟩ := split_good hg hsplit
  -- the cut time is exactly r.time - 500
  obtain ⟨d1, d2, t'', hv, hm1, -⟩ := Chunk.split_ok_inv hsplit
  have ht'' := splitData_strict_time hv
  have : t'' = t' := by
    have f := mkChunk_fields hm1
    have e1 : c1.stop = max c.start t'' := f.2.2.2.2.1
    have e2 : c1.stop = t' := by rw [hc1]
    have := (splitData_wf hwf hv).2.1
    omega
  subst this
  have htt : t'' = r.time - 500 := by omega
  -- hence the row split is at index k
  have huniq := append_split_unique (fun x : Row => x.endt ≤ t'') (hcat.trans hrows.symm) hl
    (by intro x hx
        have := hrr x hx
        have := hpos x (by rw [← hcat]; simp [hx])
        omega)
    (by intro x hx; have := hbefore x hx; omega)
    (by intro x hx
        have := hafter x hx
        have := hpos x (List.mem_of_mem_drop hx)
        omega)
  rw [huniq.1] at hc1
  rw [huniq.2] at hc2
  refine ⟨rid, t'', hrid, hst, hts, ?_, ?_, ?_, by omega, by omega, ?_, ?_⟩
  · rw [hsplit, hc1, hc2]
  · rw [← hc1]; exact hg1
  · rw [← hc2]; exact hg2
  · intro x hx
    rw [← hrows] at hx
    simp only [List.mem_append] at hx
    rcases hx with hx | hx
    · have := hbefore x hx; omega
    · have := hafter x hx; omega
  · refine ⟨r, hrm, by rw [hN, h500]; exact htt, ⟨c.rows[0], hr0m, by rw [hN]; exact hbefore _ hr0⟩, ?_⟩
    intro x hx
    rw [hN]
    rw [← hrows] at hx
    simp only [List.mem_append] at hx
    rcases hx with hx | hx
    · left; exact hbefore x hx
    · right; exact hafter x hx

theorem splitOff_good : ∀ (ks : List Nat) (c : Chunk), c.good = true →
    GapsRel DEFAULT_CHUNK_SPLIT_NS c.rows ks →
    ∃ out rest, splitOff c ks = .ok (out, rest) ∧ LawAbiding (out ++ [rest]) = true ∧
      (out ++ [rest]).flatMap (·.rows) = c.rows ∧
      (∃ h, (out ++ [rest]).head? = some h ∧ h.start = c.start) ∧ rest.stop = c.stop ∧
      (∀ x ∈ out ++ [rest], x.dataType = c.dataType ∧ x.runId = c.runId ∧ x.target = c.target) ∧
      ∀ t ∈ ((out ++ [rest]).map (·.start)).tail, c.start < t ∧ t < c.stop ∧ CleanCut c.rows t := by
  intro ks
  induction ks with
  | nil =>
    intro c hg _
    refine ⟨[], c, rfl, by simpa [LawAbiding] using hg, by simp, ⟨c, by simp, rfl⟩, rfl, by simp, by simp⟩
  | cons k ks ih =>
    intro c hg hrel
    obtain ⟨hgap, hrel'⟩ := hrel
    obtain ⟨-, r, hr, -⟩ := id hgap
    obtain ⟨rid, t', hrid, hst, hts, hsplit, hga, hgb, hlt1, hlt2, hclean, -⟩ := split_at_gap hg hgap hr
    obtain ⟨out, rest, hoff, hlaw, hrows, ⟨h, hh, hhs⟩, hstop, hall, hcuts⟩ := ih _ hgb hrel'
    refine ⟨(⟨c.dataType, c.kind, some rid, c.start, t', c.rows.take k, none, [⟨rid, c.start, t'⟩],
      c.target⟩ : Chunk) :: out, rest, ?_, ?_, ?_, ⟨(⟨c.dataType, c.kind, some rid, c.start, t', c.rows.take k,
      none, [⟨rid, c.start, t'⟩], c.target⟩ : Chunk), by simp, rfl⟩, hstop, ?_, ?_⟩
    · unfold splitOff
      rw [hr]
      simp only [bind, Except.bind, hsplit, hoff, pure, Except.pure]
    · simp only [List.cons_append]
      rw [lawAbiding_cons]
      refine ⟨hga, ?_, hlaw⟩
      intro b hb
      rw [hh] at hb
      simp at hb; subst hb
      have := hall h (List.mem_of_mem_head? hh)
      exact ⟨hhs.symm, this.1.symm, this.2.1.symm⟩
    · simp only [List.cons_append, List.flatMap_cons, hrows]
      exact List.take_append_drop k c.rows
    · intro x hx
      simp only [List.cons_append, List.mem_cons] at hx
      rcases hx with rfl | hx
      · exact ⟨rfl, hrid.symm, rfl⟩
      · have := hall x hx
        exact ⟨this.1, by rw [this.2.1, hrid], this.2.2⟩
    · obtain ⟨l', hl'⟩ : ∃ l', out ++ [rest] = h :: l' := by
        cases hx : out ++ [rest] with
        | nil => simp at hx
        | cons a l => rw [hx] at hh; simp at hh; subst hh; exact ⟨l, rfl⟩
      intro t ht
      simp only [List.cons_append, List.map_cons, List.tail_cons] at ht
      rw [hl'] at ht hcuts
      simp only [List.map_cons, List.tail_cons, List.mem_cons] at ht hcuts
      rcases ht with rfl | ht
      · rw [hhs]
        exact ⟨hlt1, hlt2, hclean⟩
      · obtain ⟨c1, c2, c3⟩ := hcuts t ht
        try simp only at c1 c2 c3
        refine ⟨by omega, c2, ?_⟩
        have hfa := (good_facts hga).2.2
        try simp only at hfa
        intro x hx
        rw [← List.take_append_drop k c.rows] at hx
        simp only [List.mem_append] at hx
        rcases hx with hx | hx
        · have := hfa x hx; omega
        · exact c3 x hx

/-- every start produced by `splitOff` after the first is a `GapCut` of the chunk's rows -/
theorem splitOff_gapcut : ∀ (ks : List Nat) (c : Chunk), c.good = true →
    GapsRel DEFAULT_CHUNK_SPLIT_NS c.rows ks → ∀ out rest, splitOff c ks = .ok (out, rest) →
    ∀ t ∈ ((out ++ [rest]).map (·.start)).tail, GapCut c.rows t := by
  intro ks
  induction ks with
  | nil =>
    intro c _ _ out rest h
    simp only [splitOff, pure, Except.pure, Except.ok.injEq, Prod.mk.injEq] at h
    obtain ⟨rfl, rfl⟩ := h
    simp
  | cons k ks ih =>
    intro c hg hrel out rest h
    obtain ⟨hgap, hrel'⟩ := hrel
    obtain ⟨-, r, hr, -⟩ := id hgap
    obtain ⟨rid, t', hrid, hst, hts, hsplit, hga, hgb, hlt1, hlt2, -, hgc⟩ := split_at_gap hg hgap hr
    obtain ⟨out', rest', hoff, -, -, ⟨hd, hh, hhs⟩, -, -, -⟩ := splitOff_good ks _ hgb hrel'
    have ih' := ih _ hgb hrel' out' rest' hoff
    have hcomp : splitOff c (k :: ks) = .ok ((⟨c.dataType, c.kind, some rid, c.start, t', c.rows.take k, none,
        [⟨rid, c.start, t'⟩], c.target⟩ : Chunk) :: out', rest') := by
      unfold splitOff
      rw [hr]
      simp only [bind, Except.bind, hsplit, hoff, pure, Except.pure]
    rw [hcomp] at h
    simp only [Except.ok.injEq, Prod.mk.injEq] at h
    obtain ⟨rfl, rfl⟩ := h
    obtain ⟨l', hl'⟩ : ∃ l', out' ++ [rest'] = hd :: l' := by
      cases hx : out' ++ [rest'] with
      | nil => simp at hx
      | cons a l => rw [hx] at hh; simp at hh; subst hh; exact ⟨l, rfl⟩
    intro t ht
    simp only [List.cons_append, List.map_cons, List.tail_cons] at ht
    rw [hl'] at ht ih'
    simp only [List.map_cons, List.tail_cons, List.mem_cons] at ht ih'
    rcases ht with rfl | ht
    · rw [hhs]; exact hgc
    · have h1 := ih' t ht
      have hfa := (good_facts hga).2.2
      have hfb := (good_facts hgb).2.2
      have := gapCut_before (pre := c.rows.take k) (B := t') h1
        (fun x hx => ⟨(hfb x hx).1, (hfb x hx).2.2⟩) (fun x hx => (hfa x hx).2.1)
      rwa [List.take_append_drop] at this

/-- absolute, strictly increasing cut positions give relative gap positions -/
theorem gapsRel_of_abs (g : Int) (rows : List Row) : ∀ (tl : List Nat) (s0 : Nat),
    (s0 :: tl).Pairwise (· < ·) → (∀ x ∈ tl, IsGapAbs g rows x) →
    GapsRel g (rows.drop s0) (adjDiff (s0 :: tl)) := by
  intro tl
  induction tl with
  | nil => intro s0 _ _; simp [adjDiff, GapsRel]
  | cons s1 tl ih =>
    intro s0 hp hall
    have hp' := List.pairwise_cons.1 hp
    have hlt : s0 < s1 := hp'.1 s1 (by simp)
    simp only [adjDiff, GapsRel]
    obtain ⟨-, r, hr, hbefore⟩ := hall s1 (by simp)
    refine ⟨⟨by omega, r, ?_, ?_⟩, ?_⟩
    · rw [List.getElem?_drop, show s0 + (s1 - s0) = s1 by omega]; exact hr
    · intro y hy
      apply hbefore
      rw [List.take_drop, show s0 + (s1 - s0) = s1 by omega] at hy
      exact List.mem_of_mem_drop hy
    · rw [List.drop_drop, show s0 + (s1 - s0) = s1 by omega]
      exact ih s1 hp'.2 (fun x hx => hall x (by simp [hx]))

theorem getSplits_gapsRel (rows : List Row) (assumed : Nat) (ha : 1 ≤ assumed) :
    ∃ s, getSplits (-1) rows assumed DEFAULT_CHUNK_SPLIT_NS = .ok s ∧
      GapsRel DEFAULT_CHUNK_SPLIT_NS rows (adjDiff s) := by
  obtain ⟨s, hs, hhead, hp, hmem⟩ := getSplits_ok rows assumed DEFAULT_CHUNK_SPLIT_NS ha
  refine ⟨s, hs, ?_⟩
  cases s with
  | nil => simp at hhead
  | cons s0 tl =>
    simp at hhead
    subst hhead
    have := gapsRel_of_abs DEFAULT_CHUNK_SPLIT_NS rows tl 0 hp (by
      intro x hx
      have hp' := List.pairwise_cons.1 hp
      have := hp'.1 x hx
      rcases hmem x (by simp [hx]) with h | h
      · omega
      · exact isGapAbs_of_mem h)
    simpa using this

theorem lawAbiding_last_good (xs : List Chunk) (r : Chunk) (h : LawAbiding (xs ++ [r]) = true) :
    r.good = true := by
  induction xs with
  | nil => simpa [LawAbiding] using h
  | cons x xs ih =>
    simp only [List.cons_append] at h
    rw [lawAbiding_cons] at h
    exact ih h.2.2

theorem getLast?_append_ne {α} (l : List α) {l' : List α} (h : l' ≠ []) :
    (l ++ l').getLast? = l'.getLast? := by
  rw [List.getLast?_append]
  cases hx : l'.getLast? with
  | none => exact absurd (List.getLast?_eq_none_iff.1 hx) h
  | some x => simp

/-- identity of the head of a stream -/
def chunkKey (c : Chunk) : Int × String × Option String := (c.start, c.dataType, c.runId)

/-- first half of `Rechunker.receive`: merge with the cached remainder -/
theorem receive_concat (cache : Option Chunk) (c : Chunk) (cs : List Chunk)
    (hlaw : LawAbiding (cache.toList ++ c :: cs) = true)
    (htg : ∀ x ∈ cache.toList ++ c :: cs, 1 ≤ x.target) :
    ∃ c', (match cache with
        | some k => concatenate [k, c] false
        | none => pure c) = .ok c' ∧
      c'.good = true ∧ 1 ≤ c'.target ∧ c'.rows = (cache.toList ++ [c]).flatMap (·.rows) ∧
      (cache.toList ++ c :: cs).head?.map chunkKey = some (chunkKey c') ∧ c'.stop = c.stop ∧
      c'.dataType = c.dataType ∧ c'.runId = c.runId ∧ LawAbiding (c :: cs) = true := by
  cases cache with
  | none =>
    simp only [Option.toList_none, List.nil_append] at hlaw htg ⊢
    have hc := ((lawAbiding_cons c cs).1 hlaw).1
    exact ⟨c, rfl, hc, htg c (by simp), by simp, by simp, rfl, rfl, rfl, hlaw⟩
  | some k =>
    simp only [Option.toList_some, List.cons_append, List.nil_append] at hlaw htg ⊢
    obtain ⟨hk, hlink, hlaw'⟩ := (lawAbiding_cons k (c :: cs)).1 hlaw
    have hc := ((lawAbiding_cons c cs).1 hlaw').1
    obtain ⟨hadj, hty, hrun⟩ := hlink c (by simp)
    obtain ⟨rid, hrid, hcat, hgood⟩ := concat_good2 hk hc hadj hty hrun
    refine ⟨_, hcat, hgood, ?_, by simp, ?_, rfl, hty, ?_, hlaw'⟩
    · have := htg k (by simp)
      simp only; omega
    · simp [chunkKey, hrid]
    · simp only; rw [← hrun, hrid]

theorem lawAbiding_later : ∀ (cs : List Chunk) (c : Chunk), LawAbiding (c :: cs) = true →
    ∀ x ∈ cs, c.stop ≤ x.start ∧ x.good = true := by
  intro cs
  induction cs with
  | nil => intro c _ x hx; simp at hx
  | cons d ds ih =>
    intro c h x hx
    obtain ⟨-, hlink, hrest⟩ := (lawAbiding_cons c (d :: ds)).1 h
    have hd := (lawAbiding_cons d ds).1 hrest
    have hcd := (hlink d (by simp)).1
    simp only [List.mem_cons] at hx
    rcases hx with rfl | hx
    · exact ⟨by omega, hd.1⟩
    · have h1 := ih d hrest x hx
      have := (good_facts hd.1).2.1
      exact ⟨by omega, h1.2⟩

theorem lawAbiding_before_last (xs : List Chunk) (r : Chunk) (h : LawAbiding (xs ++ [r]) = true) :
    ∀ x ∈ xs, x.good = true ∧ x.stop ≤ r.start := by
  induction xs with
  | nil => intro x hx; simp at hx
  | cons y ys ih =>
    simp only [List.cons_append] at h
    obtain ⟨hy, -, hrest⟩ := (lawAbiding_cons y (ys ++ [r])).1 h
    intro x hx
    simp only [List.mem_cons] at hx
    rcases hx with rfl | hx
    · exact ⟨hy, (lawAbiding_later _ _ h r (by simp)).1⟩
    · exact ih hrest x hx

/-- The stream invariant of the rechunker: feeding a law-abiding stream (with an optional cached
remainder in front) succeeds; rows, head identity and last stop are preserved; and every interior
boundary of the output lies strictly after the first start and touches no row of the input. -/
theorem rechunk_aux_strong : ∀ (cs : List Chunk) (cache : Option Chunk),
    LawAbiding (cache.toList ++ cs) = true → (∀ c ∈ cache.toList ++ cs, 1 ≤ c.target) →
    ∃ out, rechunkAll (-1) ⟨true, false, cache⟩ cs = .ok out ∧ LawAbiding out = true ∧
      out.flatMap (·.rows) = (cache.toList ++ cs).flatMap (·.rows) ∧
      out.head?.map chunkKey = (cache.toList ++ cs).head?.map chunkKey ∧
      out.getLast?.map (·.stop) = (cache.toList ++ cs).getLast?.map (·.stop) ∧
      ∀ t ∈ (out.map (·.start)).tail,
        (∀ h0, (cache.toList ++ cs).head? = some h0 → h0.start < t) ∧
        CleanCut ((cache.toList ++ cs).flatMap (·.rows)) t ∧
        GapCut ((cache.toList ++ cs).flatMap (·.rows)) t := by
  intro cs
  induction cs with
  | nil =>
    intro cache hlaw _
    cases cache with
    | none => exact ⟨[], rfl, rfl, rfl, rfl, rfl, by simp⟩
    | some k => exact ⟨[k], rfl, by simpa using hlaw, by simp, by simp, by simp, by simp⟩
  | cons c cs ih =>
    intro cache hlaw htg
    obtain ⟨c', hc', hgood, htg', hrows', hkey', hstop', hty', hrun', hlawc⟩ :=
      receive_concat cache c cs hlaw htg
    obtain ⟨s, hs, hrel⟩ := getSplits_gapsRel c'.rows c'.target htg'
    obtain ⟨out, rest, hoff, hlawo, hrowso, ⟨h, hh, hhs⟩, hstopo, hall, hcutso⟩ :=
      splitOff_good _ c' hgood hrel
    have hrest := hall rest (by simp)
    have hrestgood := lawAbiding_last_good out rest hlawo
    obtain ⟨-, hlinkc, hlawcs⟩ := (lawAbiding_cons c cs).1 hlawc
    have hlaw2 : LawAbiding ((some rest).toList ++ cs) = true := by
      simp only [Option.toList_some, List.cons_append, List.nil_append]
      rw [lawAbiding_cons]
      refine ⟨hrestgood, ?_, hlawcs⟩
      intro b hb
      have := hlinkc b hb
      exact ⟨by omega, by rw [hrest.1, hty']; exact this.2.1, by rw [hrest.2.1, hrun']; exact this.2.2⟩
    have htg2 : ∀ x ∈ (some rest).toList ++ cs, 1 ≤ x.target := by
      intro x hx
      simp only [Option.toList_some, List.cons_append, List.nil_append, List.mem_cons] at hx
      rcases hx with rfl | hx
      · omega
      · exact htg x (by simp [hx])
    obtain ⟨out2, hout2, hlaw2', hrows2, hkey2, hlast2, hcuts2⟩ := ih (some rest) hlaw2 htg2
    simp only [Option.toList_some, List.cons_append, List.nil_append, List.head?_cons, Option.map_some,
      List.flatMap_cons] at hrows2 hkey2 hlast2 hcuts2
    obtain ⟨h2, hh2⟩ : ∃ h2, out2.head? = some h2 := by
      cases hx : out2.head? with
      | none => rw [hx] at hkey2; simp at hkey2
      | some h2 => exact ⟨h2, rfl⟩
    rw [hh2] at hkey2
    simp only [Option.map_some, Option.some.injEq, chunkKey, Prod.mk.injEq] at hkey2
    refine ⟨out ++ out2, ?_, ?_, ?_, ?_, ?_, ?_⟩
    · simp only [rechunkAll, Rechunker.receive, Bool.not_true, Bool.false_eq_true, if_false]
      cases cache with
      | none =>
        simp only [pure, Except.pure, Except.ok.injEq] at hc'
        subst hc'
        simp only [bind, Except.bind, hs, hoff, pure, Except.pure, hout2]
      | some k =>
        simp only at hc'
        simp only [bind, Except.bind, hc', hs, hoff, pure, Except.pure, hout2]
    · exact lawAbiding_glue out out2 rest hlawo hlaw2' ⟨h2, hh2, hkey2.1, hkey2.2.1, hkey2.2.2⟩
    · rw [List.flatMap_append, hrows2, ← List.append_assoc]
      have : List.flatMap (fun x => x.rows) out ++ rest.rows = c'.rows := by
        rw [← hrowso]; simp
      rw [this, hrows']
      simp
    · rw [show cache.toList ++ c :: cs = cache.toList ++ c :: cs from rfl, hkey']
      cases out with
      | nil =>
        have hh' : rest = h := by simpa using hh
        rw [← hh'] at hhs
        simp only [List.nil_append, hh2, Option.map_some, chunkKey, Option.some.injEq, Prod.mk.injEq]
        exact ⟨by omega, by rw [hkey2.2.1, hrest.1], by rw [hkey2.2.2, hrest.2.1]⟩
      | cons o os =>
        have hh' : o = h := by simpa using hh
        rw [← hh'] at hhs
        have := hall o (by simp)
        simp only [List.cons_append, List.head?_cons, Option.map_some, chunkKey, Option.some.injEq,
          Prod.mk.injEq]
        exact ⟨hhs, this.1, this.2.1⟩
    · have hne : out2 ≠ [] := by intro hnil; rw [hnil] at hh2; simp at hh2
      rw [getLast?_append_ne _ hne, hlast2]
      have : (cache.toList ++ c :: cs).getLast? = (c :: cs).getLast? :=
        getLast?_append_ne _ (by simp)
      rw [this]
      cases cs with
      | nil => simp; omega
      | cons d ds => simp [List.getLast?_cons_cons]
    · -- interior boundaries
      have hh0 : ∀ h0, (cache.toList ++ c :: cs).head? = some h0 → h0.start = c'.start := by
        intro h0 e
        rw [e] at hkey'
        simp only [Option.map_some, Option.some.injEq, chunkKey, Prod.mk.injEq] at hkey'
        exact hkey'.1
      have hrowsAll : (cache.toList ++ c :: cs).flatMap (·.rows) = c'.rows ++ cs.flatMap (·.rows) := by
        rw [hrows']; simp
      have hbefore := lawAbiding_before_last out rest hlawo
      have hlater := lawAbiding_later cs c hlawc
      have hcs : ∀ t, t < c.stop → CleanCut (cs.flatMap (·.rows)) t := by
        intro t ht x hx
        simp only [List.mem_flatMap] at hx
        obtain ⟨y, hy, hxy⟩ := hx
        have h1 := hlater y hy
        have := (good_facts h1.2).2.2 x hxy
        omega
      have hstart_le : c'.start ≤ rest.start := by
        have hhm : h ∈ out ++ [rest] := List.mem_of_mem_head? hh
        simp only [List.mem_append, List.mem_singleton] at hhm
        rcases hhm with hm | hm
        · have h1 := hbefore h hm
          have := (good_facts h1.1).2.1
          omega
        · rw [hm] at hhs; omega
      obtain ⟨o2, ho2⟩ : ∃ o2, out2 = h2 :: o2 := by
        cases out2 with
        | nil => simp at hh2
        | cons a l => simp at hh2; subst hh2; exact ⟨l, rfl⟩
      intro t ht
      have hmem : t ∈ ((out ++ [rest]).map (·.start)).tail ∨ t ∈ (out2.map (·.start)).tail := by
        rw [ho2] at ht ⊢
        cases out with
        | nil =>
          right
          simpa using ht
        | cons o os =>
          simp only [List.cons_append, List.map_cons, List.tail_cons, List.map_append, List.mem_append,
            List.mem_cons, List.map_nil, List.not_mem_nil, or_false] at ht ⊢
          rcases ht with h' | h' | h'
          · left; left; exact h'
          · left; right; rw [h', hkey2.1]
          · right; exact h'
      rw [hrowsAll]
      rcases hmem with hm | hm
      · obtain ⟨c1, c2, c3⟩ := hcutso t hm
        have hgc := splitOff_gapcut _ c' hgood hrel out rest hoff t hm
        have hfc := (good_facts hgood).2.2
        refine ⟨fun h0 e => by rw [hh0 h0 e]; exact c1, cleanCut_append c3 (hcs t (by omega)), ?_⟩
        apply gapCut_after (E := c.stop) hgc
        · intro x hx; have := hfc x hx; omega
        · intro x hx
          simp only [List.mem_flatMap] at hx
          obtain ⟨y, hy, hxy⟩ := hx
          have h1 := hlater y hy
          have := (good_facts h1.2).2.2 x hxy
          omega
      · obtain ⟨d1, d2, d3⟩ := hcuts2 t hm
        have d1' : rest.start < t := d1 rest rfl
        have hfr := good_facts hrestgood
        have hgap : GapCut (c'.rows ++ List.flatMap (fun x => x.rows) cs) t := by
          have := gapCut_before (pre := out.flatMap (·.rows)) (B := rest.start) d3
            (by
              intro x hx
              simp only [List.mem_append, List.mem_flatMap] at hx
              rcases hx with hx | ⟨y, hy, hxy⟩
              · have := hfr.2.2 x hx; omega
              · have h1 := hlater y hy
                have := (good_facts h1.2).2.2 x hxy
                omega)
            (by
              intro x hx
              simp only [List.mem_flatMap] at hx
              obtain ⟨y, hy, hxy⟩ := hx
              have h1 := hbefore y hy
              have := (good_facts h1.1).2.2 x hxy
              omega)
          rw [← List.append_assoc] at this
          have e : List.flatMap (fun x => x.rows) out ++ rest.rows = c'.rows := by
            rw [← hrowso]; simp
          rwa [e] at this
        refine ⟨fun h0 e => by rw [hh0 h0 e]; omega, ?_, hgap⟩
        apply cleanCut_append
        · intro x hx
          rw [← hrowso] at hx
          simp only [List.flatMap_append, List.mem_append, List.flatMap_cons, List.flatMap_nil,
            List.append_nil, List.mem_flatMap] at hx
          rcases hx with ⟨y, hy, hxy⟩ | hx
          · have h1 := hbefore y hy
            have := (good_facts h1.1).2.2 x hxy
            omega
          · exact d2 x (by simp [hx])
        · intro x hx
          exact d2 x (by simp [hx])

theorem rechunk_aux (cs : List Chunk) (cache : Option Chunk)
    (hlaw : LawAbiding (cache.toList ++ cs) = true) (htg : ∀ c ∈ cache.toList ++ cs, 1 ≤ c.target) :
    ∃ out, rechunkAll (-1) ⟨true, false, cache⟩ cs = .ok out ∧ LawAbiding out = true ∧
      out.flatMap (·.rows) = (cache.toList ++ cs).flatMap (·.rows) ∧
      out.head?.map chunkKey = (cache.toList ++ cs).head?.map chunkKey ∧
      out.getLast?.map (·.stop) = (cache.toList ++ cs).getLast?.map (·.stop) := by
  obtain ⟨out, h1, h2, h3, h4, h5, -⟩ := rechunk_aux_strong cs cache hlaw htg
  exact ⟨out, h1, h2, h3, h4, h5⟩

end Strax
