import StraxModel.Model.SelectionMulti
import StraxModel.Lemmas.Selection
/-
  Helper lemmas for property C10, several same-kind targets (`getArrayMulti`).
-/
namespace Strax.Selection
open Strax

theorem mergedRows_eq_align (c : Align.Call) : mergedRows c = Align.mergedRowsOf c := by
  unfold mergedRows Align.mergedRowsOf
  cases c.rows <;> rfl

theorem mapE_length {α β : Type} {f : α → Except Err β} {l : List α} {bs : List β}
    (h : mapE f l = .ok bs) : bs.length = l.length := by
  induction l generalizing bs with
  | nil => cases h; rfl
  | cons a l ih =>
    rw [mapE_cons] at h
    split at h
    · cases h
    · split at h
      · cases h
      · rename_i bs' hbs
        injection h with h
        subst h
        simp [ih hbs]

theorem mapE_cons_ok {α β : Type} {f : α → Except Err β} {a : α} {l : List α} {bs : List β}
    (h : mapE f (a :: l) = .ok bs) : ∃ b bs', f a = .ok b ∧ mapE f l = .ok bs' ∧ bs = b :: bs' := by
  rw [mapE_cons] at h
  split at h
  · cases h
  · rename_i b hb
    split at h
    · cases h
    · rename_i bs' hbs
      injection h with h
      exact ⟨b, bs', hb, hbs, h.symm⟩

/-- `List.mergeSort` on two elements (the kernel cannot unfold the well-founded recursion) -/
theorem mergeSort_pair {α} (le : α → α → Bool) (a b : α) :
    [a, b].mergeSort le = if le a b then [a, b] else [b, a] := by
  simp [List.mergeSort, List.merge]

/-- the multi-target request equals the single-target request of the first target, GIVEN the row
accounting of `Plugin.iter` (merged calls ++ tail = rows loaded for the first target, tail beyond `t1`) -/
theorem multi_of_accounting (fields : List String) (d0 : Align.Dep) (s0 : List Chunk)
    (rest : List (Align.Dep × List Chunk)) (r : Range) (sel : Sel) (lists : List (List Chunk))
    (calls : List Align.Call) (cs : List Chunk) (tail : List Row)
    (hs : LawAbiding s0) (hne : s0 ≠ []) (hm : RealMode sel.mode)
    (hload0 : loadRange s0 r = .ok cs) (hcs : cs ≠ [])
    (hloads : mapE (fun (p : Align.Dep × List Chunk) => loader p.2 (some r)) ((d0, s0) :: rest) = .ok lists)
    (hiter : Align.iterModel (((d0, s0) :: rest).map (·.1)) lists false = .ok calls) (hcalls : calls ≠ [])
    (hrows : (calls.map mergedRows).flatten ++ tail = cs.flatMap (·.rows))
    (htail : ∀ x ∈ tail, r.2 ≤ x.time ∧ x.time < x.endt) :
    getArrayMulti fields ((d0, s0) :: rest) { timeRange := some r } sel
      = getArray fields s0 { timeRange := some r } sel := by
  obtain ⟨cs', hload, hsel, hnil⟩ := loadRange_spec s0 r (chunks_of_lawAbiding hs)
  rw [hload0] at hload
  injection hload with hload
  subst hload
  rw [getArray_range hs hne hm (r := r) rfl]
  have hnot : ¬ (s0.all (fun c => pruned c r) = true) := by
    intro hall
    exact hcs (hnil.2 (by simpa [List.all_eq_true] using hall))
  simp only [hnot, Bool.false_eq_true, if_false]
  unfold getArrayMulti
  have habs : toAbsolute s0 { timeRange := some r } = .ok (some r) := rfl
  simp only [habs, hloads, hiter]
  cases calls with
  | nil => exact absurd rfl hcalls
  | cons c calls =>
    rw [List.map_cons, collect_eq, ← List.map_cons]
    rcases applySelection_shape fields sel (some r) with herr | ⟨cols, hok⟩
    · rw [herr, herr]
    · rw [hok, hok, keepFn_eq_select, keepFn_eq_select, ← hsel sel.mode sel.predFn hm]
      congr 2
      have h1 : cs.flatMap (fun c => select sel.mode r sel.predFn c.rows)
          = select sel.mode r sel.predFn (cs.flatMap (·.rows)) := by
        have := filter_flatten_rows (fun x => inRange sel.mode r x && sel.predFn x) cs
        simp only [select]
        rw [← this]
        simp [List.flatMap]
      rw [h1, ← hrows, select_append,
        select_nil_of (fun x hx => inRange_right_false hm (htail x hx).2 (htail x hx).1)]
      simp

end Strax.Selection
