import StraxModel.Lemmas.MailboxOoo
/-
  Termination: a measure that strictly decreases on every step of a valid run, and the explicit step bound.
-/
namespace Strax.Mailbox
open Strax

/-! ### a termination measure -/

/-- how many more (failed) attempts the owner of a waiter flag can make without anybody else moving -/
def flagPot : Option Bool → Nat
  | none => 2
  | some true => 1
  | some false => 0

def subsPot : List Sub → Nat
  | [] => 0
  | s :: r => flagPot s.flag + subsPot r

def MB.pot (mb : MB) : Nat := flagPot mb.fetchFlag + flagPot mb.writeFlag + subsPot mb.subs

def spcWork : SPc → Nat
  | .gate => 3
  | .fetch => 2
  | .send _ _ => 4
  | .close => 1
  | .exc _ => 1
  | .done => 0
  | .dead _ => 0

def senderWork (s : Sys) : Nat := 3 * s.prog.length + spcWork s.spc

def readerWork (B : Nat) (sub : Sub) (r : Reader) : Nat := 2 * (B - sub.next) + (tailOf r.pc).length

def readersWork (B : Nat) : List Sub → List Reader → Nat
  | sub :: ss, r :: rs => readerWork B sub r + readersWork B ss rs
  | _, _ => 0

def workersWork : List (List Nat) → Nat
  | [] => 0
  | w :: r => w.length + workersWork r

/-- the measure: successful actions lower the work term, failed attempts (entering a wait, re-checking a
predicate that is still false) lower the potential of a waiter flag; a successful action raises the potentials
by at most `n + 3` -/
def measure (c : Config) (s : Sys) : Nat :=
  (c.drive.length + 6) * (senderWork s + readersWork (c.prog.length + 1) s.mb.subs s.readers + workersWork s.workers)
    + s.mb.pot

theorem flagPot_notify (f : Option Bool) : flagPot (notifyFlag f) ≤ flagPot f + 1 := by
  cases f with
  | none => simp [notifyFlag, flagPot]
  | some b => cases b <;> simp [notifyFlag, flagPot]

theorem flagPot_le (f : Option Bool) : flagPot f ≤ 2 := by
  cases f with
  | none => simp [flagPot]
  | some b => cases b <;> simp [flagPot]

theorem flagPot_pos {f : Option Bool} (h : f ≠ some false) : 1 ≤ flagPot f := by
  cases f with
  | none => simp [flagPot]
  | some b => cases b <;> simp [flagPot] at h ⊢

theorem subsPot_notify (subs : List Sub) : subsPot (subs.map Sub.notify) ≤ subsPot subs + subs.length := by
  induction subs with
  | nil => simp [subsPot]
  | cons a r ih =>
    simp only [List.map_cons, subsPot, List.length_cons, Sub.notify]
    have := flagPot_notify a.flag
    omega

theorem subsPot_set {subs : List Sub} {i : Nat} {sub s' : Sub} (hi : subs[i]? = some sub) :
    subsPot (subs.set i s') + flagPot sub.flag = subsPot subs + flagPot s'.flag := by
  induction subs generalizing i with
  | nil => simp at hi
  | cons a r ih =>
    cases i with
    | zero => simp at hi; subst hi; simp only [List.set_cons_zero, subsPot]; omega
    | succ j => simp at hi; simp only [List.set_cons_succ, subsPot]; have := ih hi; omega

theorem set_self {α} {l : List α} {i : Nat} {a : α} (h : l[i]? = some a) : l.set i a = l := by
  induction l generalizing i with
  | nil => rfl
  | cons b r ih =>
    cases i with
    | zero => simp at h; subst h; rfl
    | succ j => simp at h; simp [ih h]

theorem readersWork_set (B : Nat) {subs : List Sub} {readers : List Reader} {i : Nat} {sub s' : Sub} {r r' : Reader}
    (hs : subs[i]? = some sub) (hr : readers[i]? = some r) :
    readersWork B (subs.set i s') (readers.set i r') + readerWork B sub r =
      readersWork B subs readers + readerWork B s' r' := by
  induction subs generalizing readers i with
  | nil => simp at hs
  | cons a ss ih =>
    cases readers with
    | nil => simp at hr
    | cons b rs =>
      cases i with
      | zero =>
        simp at hs hr; subst hs; subst hr
        simp only [List.set_cons_zero, readersWork]; omega
      | succ j =>
        simp at hs hr
        simp only [List.set_cons_succ, readersWork]
        have := ih hs hr; omega

theorem readersWork_notify (B : Nat) (subs : List Sub) (readers : List Reader) :
    readersWork B (subs.map Sub.notify) readers = readersWork B subs readers := by
  induction subs generalizing readers with
  | nil => simp [readersWork]
  | cons a ss ih =>
    cases readers with
    | nil => simp [readersWork]
    | cons b rs => simp only [List.map_cons, readersWork, ih]; rfl

theorem workersWork_set {ws : List (List Nat)} {j id : Nat} {rest : List Nat} (h : ws[j]? = some (id :: rest)) :
    workersWork (ws.set j rest) + 1 = workersWork ws := by
  induction ws generalizing j with
  | nil => simp at h
  | cons a r ih =>
    cases j with
    | zero => simp at h; subst h; simp only [List.set_cons_zero, workersWork, List.length_cons]; omega
    | succ k => simp at h; simp only [List.set_cons_succ, workersWork]; have := ih h; omega

theorem deliver_tail_le (fd : List Nat) (msgs g : List Msg) : (tailOf (deliver fd msgs g).pc).length ≤ msgs.length := by
  induction msgs generalizing g with
  | nil => simp [deliver, tailOf]
  | cons m r ih =>
    cases m with
    | stop => simp [deliver, tailOf]
    | plain v => simp only [deliver, List.length_cons]; have := ih (g ++ [.plain v]); omega
    | fut id v =>
      simp only [deliver]
      split
      · simp only [List.length_cons]; have := ih (g ++ [.fut id v]); omega
      · simp [tailOf]

theorem measure_lt_work {W w w' p p' : Nat} (hw : w' + 1 ≤ w) (hp : p' < p + W) : W * w' + p' < W * w + p := by
  have h1 : W * (w' + 1) ≤ W * w := Nat.mul_le_mul_left W hw
  rw [Nat.mul_succ] at h1
  omega

theorem measure_lt_pot {W w w' p p' : Nat} (hw : w' = w) (hp : p' < p) : W * w' + p' < W * w + p := by
  subst hw; omega


theorem nfic_fetch_pot (mb : MB) : flagPot mb.notifyFetchIfCan.fetchFlag ≤ flagPot mb.fetchFlag + 1 := by
  unfold MB.notifyFetchIfCan
  split
  · exact flagPot_notify _
  · omega

/-- the potential after a reader's critical section -/
theorem readStep_pot {mb mb' : MB} {i : Nat} {out : ReadOut} (hs : mb.readStep i = some (out, mb')) :
    match out with
    | .waiting => mb'.pot + 1 ≤ mb.pot
    | .killed => True
    | .took _ => mb'.pot ≤ mb.pot + 3 := by
  simp only [MB.readStep] at hs
  split at hs
  · simp at hs
  · rename_i sub hi
    split at hs
    · simp at hs
    · rename_i flag hflag
      split at hs
      · split at hs
        · rename_i hfn
          simp only [Option.some.injEq, Prod.mk.injEq] at hs; obtain ⟨rfl, rfl⟩ := hs
          simp only [MB.pot, MB.readWaitEnter, nfic_write, nfic_subs]
          have h1 := nfic_fetch_pot ({ mb with subs := mb.subs.set i { sub with waitingFor := some sub.next, flag := some false } } : MB)
          have h2 := subsPot_set (s' := { sub with waitingFor := some sub.next, flag := some false }) hi
          rw [hfn] at h2
          dsimp only at h1 h2
          have e1 : flagPot (none : Option Bool) = 2 := rfl
          have e2 : flagPot (some false) = 0 := rfl
          omega
        · rename_i b hfs
          simp only [Option.some.injEq, Prod.mk.injEq] at hs; obtain ⟨rfl, rfl⟩ := hs
          simp only [MB.pot, MB.readWaitAgain]
          have h2 := subsPot_set (s' := { sub with flag := some false }) hi
          have hb : b = true := by
            cases b with
            | true => rfl
            | false => exact absurd hfs hflag
          rw [hfs, hb] at h2
          dsimp only at h2
          have e1 : flagPot (some true) = 1 := rfl
          have e2 : flagPot (some false) = 0 := rfl
          omega
      · split at hs
        · simp only [Option.some.injEq, Prod.mk.injEq] at hs; obtain ⟨rfl, rfl⟩ := hs; trivial
        · simp only [Option.some.injEq, Prod.mk.injEq] at hs; obtain ⟨rfl, rfl⟩ := hs
          simp only [MB.pot, MB.readTake, MB.notifyWrite, nfic_write, nfic_subs]
          generalize hs2 : ({ sub with next := sub.next + (collect mb.heap mb.heap.length sub.next).length, waitingFor := none, flag := none } : Sub) = s2
          have h1 := nfic_fetch_pot ({ mb with subs := mb.subs.set i s2, heap := gc mb.heap (mb.subs.set i s2) } : MB)
          have h2 := subsPot_set (s' := s2) hi
          have h3 := flagPot_notify mb.writeFlag
          have h4 : flagPot s2.flag = 2 := by subst hs2; rfl
          have h5 := flagPot_pos hflag
          simp only at h1
          omega

/-- no subscriber ever gets beyond the end marker's number + 1 -/
theorem next_le_bound {c : Config} {s : Sys} (hv : c.valid = true) (h : Reachable c s) (i : Nat) (sub : Sub)
    (hs : s.mb.subs[i]? = some sub) : sub.next ≤ c.prog.length + 1 := by
  obtain ⟨hok, _, _, hlt⟩ := valid_parts hv
  have hinv := Inv.reachable h
  have hp := ProgInv.reachable hv h
  apply Classical.byContradiction
  intro hgt
  have hsome := hinv.mb.found i sub hs (c.prog.length + 1) (by omega)
  have hmem := getMsg_isSome_mem hsome
  simp only [List.mem_map] at hmem
  obtain ⟨e, he, heq⟩ := hmem
  have := hp.pc
  unfold progPc at this
  have hlt' : ∀ e ∈ numbered c.prog 0, e.1 < c.prog.length := fun e he => hlt _ (List.mem_map_of_mem he)
  cases hspc : s.spc <;> simp only [hspc] at this
  · rw [this.2.1] at he; have := hlt' e (List.mem_of_mem_take he); omega
  · rw [this.2.1] at he; have := hlt' e (List.mem_of_mem_take he); omega
  · rw [this.2.1] at he; have := hlt' e (List.mem_of_mem_take he); omega
  · rw [this.2.1] at he; have := hlt' e he; omega
  · rw [this] at he
    rcases List.mem_append.mp he with h1 | h1
    · have := hlt' e h1; omega
    · simp at h1; rw [h1] at heq; simp at heq


theorem push_pot (mb : MB) (n : Nat) (m : Msg) : (mb.push n m).pot ≤ mb.pot + 2 + mb.subs.length := by
  simp only [MB.push, MB.notifyRead, MB.pot]
  have := subsPot_notify mb.subs
  have e : flagPot (none : Option Bool) = 2 := rfl
  omega

theorem measure_push_step {c : Config} {s s' : Sys} (hsubs : s'.mb.subs = s.mb.subs.map Sub.notify)
    (hpot : s'.mb.pot ≤ s.mb.pot + 2 + s.mb.subs.length) (hn : s.mb.subs.length = c.drive.length)
    (hr : s'.readers = s.readers) (hw : s'.workers = s.workers) (hwork : senderWork s' + 1 ≤ senderWork s) :
    measure c s' < measure c s := by
  simp only [measure, hsubs, hr, hw, readersWork_notify]
  apply measure_lt_work <;> omega

theorem measure_decreases_sender {c : Config} {s s' : Sys} (hv : c.valid = true) (h : Reachable c s)
    (hs : stepSender s = some s') : measure c s' < measure c s := by
  have hinv := Inv.reachable h
  have hp := ProgInv.reachable hv h
  have hstat := Static.reachable h
  have hn : s.mb.subs.length = c.drive.length := by
    have e4 : s.mb.subs.map (fun x => x.canDrive) = c.drive := congrArg (fun x => x.2.2.2) hstat
    rw [← e4]; simp
  obtain ⟨hok, _, hnd, hlt⟩ := valid_parts hv
  have hpc := hp.pc
  unfold Mailbox.stepSender at hs
  split at hs
  · -- gate
    rename_i hspc
    split at hs
    · simp at hs
    · rename_i ok mb hg
      simp only [Option.some.injEq] at hs; subst hs
      simp only [MB.gateStep] at hg
      split at hg
      · simp at hg
      · rename_i hff
        split at hg
        · simp only [Option.some.injEq, Prod.mk.injEq] at hg; obtain ⟨rfl, rfl⟩ := hg
          simp only [measure, senderWork, hspc, spcWork, MB.pot, if_true]
          apply measure_lt_work
          · omega
          · have := flagPot_le (none : Option Bool); have e : flagPot (none : Option Bool) = 2 := rfl; omega
        · simp only [Option.some.injEq, Prod.mk.injEq] at hg; obtain ⟨rfl, rfl⟩ := hg
          simp only [measure, senderWork, hspc, spcWork, MB.pot, Bool.false_eq_true, if_false]
          apply measure_lt_pot rfl
          have := flagPot_pos (f := s.mb.fetchFlag) hff
          have e : flagPot (some false) = 0 := rfl
          omega
  · -- fetch
    rename_i hspc
    simp only [progPc, hspc] at hpc
    obtain ⟨hprog, hsent, hcl⟩ := hpc
    split at hs
    · rename_i hnil
      simp only [Option.some.injEq] at hs; subst hs
      simp only [measure, senderWork, hspc, spcWork, hnil, List.length_nil]
      apply measure_lt_work <;> omega
    · rename_i num m rest hcons
      simp only [Option.some.injEq] at hs; subst hs
      simp only [measure, senderWork, hspc, spcWork, hcons, List.length_cons]
      apply measure_lt_work <;> omega
    · rename_i rest hcons
      exfalso
      rw [hcons] at hprog
      obtain ⟨hget, _⟩ := drop_eq_cons hprog.symm
      have hm : SrcItem.raise ∈ c.prog := List.mem_of_getElem? hget
      have := (List.all_eq_true.mp hok) _ hm
      simp [SrcItem.ok] at this
  · -- send
    rename_i num m hspc
    simp only [progPc, hspc] at hpc
    obtain ⟨hprog, hsent, hcl, hget⟩ := hpc
    have hres : resolveNum num s.mb.nSent = resolveNum num s.sent.length := by rw [hp.nsent]
    have hnot : ¬ resolveNum num s.sent.length < minNext s.mb.subs := by
      apply le_minNext_of_not_sent hinv.mb
      have := nodup_take_not_mem hnd hget
      rw [← hsent] at this
      exact this
    have hwf : s.mb.writeFlag ≠ some false := by
      intro hx
      simp only [MB.sendStep, MB.sendCore, hx] at hs
      simp at hs
    have hsentCase : ∀ mb', mb' = s.mb.push (resolveNum num s.sent.length) m →
        measure c { s with mb := mb', sent := s.sent ++ [(resolveNum num s.sent.length, m)], spc := s.afterSend } < measure c s := by
      intro mb' hmb
      subst hmb
      refine measure_push_step rfl (push_pot s.mb _ m) hn rfl rfl ?_
      simp only [senderWork, hspc, spcWork, Sys.afterSend]
      cases s.mb.lazy <;> simp
    have hwaitCase : ∀ mb', mb' = ({ s.mb with writeFlag := some false } : MB) →
        measure c { s with mb := mb', spc := .send (some (resolveNum num s.sent.length)) m } < measure c s := by
      intro mb' hmb
      subst hmb
      simp only [measure, senderWork, hspc, spcWork, MB.pot]
      apply measure_lt_pot rfl
      have := flagPot_pos hwf
      have e : flagPot (some false) = 0 := rfl
      omega
    split at hs
    · simp at hs
    · rename_i n mb hst
      simp only [Option.some.injEq] at hs; subst hs
      unfold MB.sendStep at hst; rw [hres] at hst
      rcases sendCore_alive hcl hp.fkilled hp.killed hnot hst with ⟨ho, hmb, _⟩ | ⟨ho, hmb, _⟩
      · cases ho; exact hsentCase _ hmb
      · cases ho
    · rename_i mb hst
      unfold MB.sendStep at hst; rw [hres] at hst
      rcases sendCore_alive hcl hp.fkilled hp.killed hnot hst with ⟨ho, hmb, _⟩ | ⟨ho, hmb, _⟩ <;> cases ho
    · rename_i n mb hst
      simp only [Option.some.injEq] at hs; subst hs
      unfold MB.sendStep at hst; rw [hres] at hst
      rcases sendCore_alive hcl hp.fkilled hp.killed hnot hst with ⟨ho, hmb, _⟩ | ⟨ho, hmb, _⟩
      · cases ho
      · cases ho; exact hwaitCase _ hmb
    · rename_i e mb hst
      unfold MB.sendStep at hst; rw [hres] at hst
      rcases sendCore_alive hcl hp.fkilled hp.killed hnot hst with ⟨ho, hmb, _⟩ | ⟨ho, hmb, _⟩ <;> cases ho
  · -- close
    rename_i hspc
    simp only [progPc, hspc] at hpc
    obtain ⟨hprog, hsent, hcl⟩ := hpc
    have hlen := numbered_length c.prog 0 hok
    have hnot : ¬ s.mb.nSent < minNext s.mb.subs := by
      apply le_minNext_of_not_sent hinv.mb
      intro hmem
      rw [hsent] at hmem
      have := hlt _ hmem
      rw [hp.nsent, hsent, hlen] at this; omega
    have hwf : s.mb.writeFlag ≠ some false := by
      intro hx
      simp only [MB.sendStep, MB.sendCore, hx] at hs
      simp at hs
    split at hs
    · simp at hs
    · rename_i n mb hst
      simp only [Option.some.injEq] at hs; subst hs
      simp only [MB.sendStep, resolveNum] at hst
      rcases sendCore_alive hcl hp.fkilled hp.killed hnot hst with ⟨ho, hmb, _⟩ | ⟨ho, hmb, _⟩
      · cases ho
        subst hmb
        refine measure_push_step rfl (push_pot s.mb s.mb.nSent .stop) hn rfl rfl ?_
        simp only [senderWork, hspc, spcWork]; omega
      · cases ho
    · rename_i mb hst
      simp only [MB.sendStep, resolveNum] at hst
      rcases sendCore_alive hcl hp.fkilled hp.killed hnot hst with ⟨ho, hmb, _⟩ | ⟨ho, hmb, _⟩ <;> cases ho
    · rename_i n mb hst
      simp only [Option.some.injEq] at hs; subst hs
      simp only [MB.sendStep, resolveNum] at hst
      rcases sendCore_alive hcl hp.fkilled hp.killed hnot hst with ⟨ho, hmb, _⟩ | ⟨ho, hmb, _⟩
      · cases ho
      · cases ho
        subst hmb
        simp only [measure, senderWork, hspc, spcWork, MB.pot]
        apply measure_lt_pot rfl
        have := flagPot_pos hwf
        have e : flagPot (some false) = 0 := rfl
        omega
    · rename_i e mb hst
      simp only [MB.sendStep, resolveNum] at hst
      rcases sendCore_alive hcl hp.fkilled hp.killed hnot hst with ⟨ho, hmb, _⟩ | ⟨ho, hmb, _⟩ <;> cases ho
  · rename_i hspc; simp only [progPc, hspc] at hpc
  · simp at hs
  · simp at hs


theorem measure_decreases {c : Config} {s s' : Sys} {t : ThreadId} (hv : c.valid = true) (h : Reachable c s)
    (hs : step s t = some s') : measure c s' < measure c s := by
  have hreach' : Reachable c s' := Reachable.step h hs
  have hinv := Inv.reachable h
  have hp := ProgInv.reachable hv h
  cases t with
  | sender => exact measure_decreases_sender hv h hs
  | reader i =>
    simp only [Mailbox.step, stepReader] at hs
    split at hs
    · simp at hs
    · rename_i r hr
      split at hs
      · rename_i hpc
        split at hs
        · simp at hs
        · -- waits: only a potential drops
          rename_i mb hst
          simp only [Option.some.injEq] at hs; subst hs
          have hpot := readStep_pot hst
          obtain ⟨_, _, _, _, sub, s2, hi, hsubs, _, hpost⟩ := hinv.mb.readStep hst
          simp only [ReadPost] at hpost
          simp only at hpot
          have hrw := readersWork_set (c.prog.length + 1) (s' := s2) (r' := r) hi hr
          rw [set_self hr] at hrw
          have e : readerWork (c.prog.length + 1) s2 r = readerWork (c.prog.length + 1) sub r := by
            simp only [readerWork, hpost.1]
          simp only [measure, hsubs, senderWork]
          apply measure_lt_pot
          · omega
          · omega
        · -- killed: impossible in a valid run
          rename_i mb hst
          obtain ⟨_, _, _, _, _, _, sub, s2, _, _, _, hout⟩ := readStep_shape hst
          simp only at hout
          rw [hp.killed] at hout; cases hout
        · -- took
          rename_i msgs mb hst
          simp only [Option.some.injEq] at hs; subst hs
          have hpot := readStep_pot hst
          obtain ⟨_, _, _, _, sub, s2, hi, hsubs, _, hpost⟩ := hinv.mb.readStep hst
          simp only [ReadPost] at hpost
          obtain ⟨hn2, _, hne, _⟩ := hpost
          simp only at hpot
          have hrw := readersWork_set (c.prog.length + 1) (s' := s2) (r' := deliver s.futDone msgs r.got) hi hr
          have hlen : 1 ≤ msgs.length := by
            cases msgs with
            | nil => exact absurd rfl hne
            | cons a l => simp
          have hbound : s2.next ≤ c.prog.length + 1 := by
            have hlt : i < s.mb.subs.length := (List.getElem?_eq_some_iff.mp hi).1
            exact next_le_bound hv hreach' i s2 (by simp only [hsubs]; simp [hlt])
          have htail := deliver_tail_le s.futDone msgs r.got
          have e : readerWork (c.prog.length + 1) s2 (deliver s.futDone msgs r.got) + 1 ≤ readerWork (c.prog.length + 1) sub r := by
            have ht : tailOf r.pc = [] := by rw [hpc]; rfl
            simp only [readerWork, ht, List.length_nil]
            omega
          simp only [measure, hsubs, senderWork]
          apply measure_lt_work
          · omega
          · omega
      · -- future
        rename_i pend hpc
        split at hs
        · rename_i id v rest
          split at hs
          · rename_i hdone
            simp only [Option.some.injEq] at hs; subst hs
            have hilt : i < s.mb.subs.length := by
              rw [← hinv.rd.len]; exact (List.getElem?_eq_some_iff.mp hr).1
            have hi : s.mb.subs[i]? = some s.mb.subs[i] := List.getElem?_eq_getElem hilt
            have hrw := readersWork_set (c.prog.length + 1) (s' := s.mb.subs[i])
              (r' := deliver s.futDone (Msg.fut id v :: rest) r.got) hi hr
            rw [set_self hi] at hrw
            have htail : (tailOf (deliver s.futDone (Msg.fut id v :: rest) r.got).pc).length ≤ rest.length := by
              simp only [deliver, hdone, if_true]
              exact deliver_tail_le _ _ _
            have e : readerWork (c.prog.length + 1) s.mb.subs[i] (deliver s.futDone (Msg.fut id v :: rest) r.got) + 1 ≤
                readerWork (c.prog.length + 1) s.mb.subs[i] r := by
              have ht : tailOf r.pc = Msg.fut id v :: rest := by rw [hpc]; rfl
              simp only [readerWork, ht, List.length_cons]
              omega
            simp only [measure, senderWork]
            apply measure_lt_work
            · omega
            · omega
          · simp at hs
        · simp at hs
      · simp at hs
      · simp at hs
  | worker j =>
    simp only [Mailbox.step, stepWorker] at hs
    split at hs
    · rename_i id rest hw
      simp only [Option.some.injEq] at hs; subst hs
      have := workersWork_set hw
      simp only [measure, senderWork]
      apply measure_lt_work
      · omega
      · omega
    · simp at hs
  | killer k =>
    simp only [Mailbox.step, stepKiller, hp.noKill] at hs
    simp at hs

/-- a schedule that can be executed from the initial state is no longer than the initial measure -/
theorem run_length_le {c : Config} (hv : c.valid = true) (sched : List ThreadId) (s : Sys)
    (h : run? (init c) sched = some s) : sched.length + measure c s ≤ measure c (init c) := by
  have gen : ∀ (s0 : Sys), Reachable c s0 → ∀ sched, run? s0 sched = some s → sched.length + measure c s ≤ measure c s0 := by
    intro s0 h0 sched
    induction sched generalizing s0 with
    | nil => intro h; simp only [run?, Option.some.injEq] at h; subst h; simp
    | cons t ts ih =>
      intro h
      simp only [run?] at h
      split at h
      · rename_i s1 hs1
        have h1 := ih s1 (Reachable.step h0 hs1) h
        have h2 := measure_decreases hv h0 hs1
        simp only [List.length_cons]; omega
      · cases h
  exact gen _ (Reachable.init (c := c)) sched h


/-- an explicit bound on the number of steps, as a function of the configuration only:
`(n + 6) · (3·|prog| + 3 + 2·n·(|prog| + 1) + Σ|worker list|) + 2·n + 4` -/
def stepBound (c : Config) : Nat :=
  (c.drive.length + 6) * (3 * c.prog.length + 3 + 2 * c.drive.length * (c.prog.length + 1) + workersWork c.workers)
    + 2 * c.drive.length + 4

theorem init_readersWork (B : Nat) (drive : List Bool) :
    readersWork B (drive.map fun d => ({ next := 0, waitingFor := none, canDrive := d, flag := none } : Sub))
      (drive.map fun _ => ({ pc := .read, got := [] } : Reader)) = 2 * drive.length * B := by
  induction drive with
  | nil => simp [readersWork]
  | cons a r ih =>
    simp only [List.map_cons, readersWork, readerWork, tailOf, List.length_nil, List.length_cons, ih]
    rw [Nat.mul_add 2, Nat.add_mul]; omega

theorem init_subsPot (drive : List Bool) :
    subsPot (drive.map fun d => ({ next := 0, waitingFor := none, canDrive := d, flag := none } : Sub)) = 2 * drive.length := by
  induction drive with
  | nil => rfl
  | cons a r ih => simp only [List.map_cons, subsPot, ih, flagPot, List.length_cons]; omega

theorem measure_init_le (c : Config) : measure c (init c) ≤ stepBound c := by
  simp only [measure, stepBound, Mailbox.init, senderWork, MB.pot, init_readersWork, init_subsPot, flagPot]
  have hspc : spcWork (if c.lazy = true then SPc.gate else SPc.fetch) ≤ 3 := by
    cases c.lazy <;> simp [spcWork]
  have := Nat.mul_le_mul_left (c.drive.length + 6)
    (show 3 * c.prog.length + spcWork (if c.lazy = true then SPc.gate else SPc.fetch) +
        2 * c.drive.length * (c.prog.length + 1) + workersWork c.workers ≤
      3 * c.prog.length + 3 + 2 * c.drive.length * (c.prog.length + 1) + workersWork c.workers by omega)
  omega

theorem reachable_run_from {c : Config} {s0 s : Sys} (h0 : Reachable c s0) (sched : List ThreadId)
    (h : run? s0 sched = some s) : Reachable c s := by
  induction sched generalizing s0 with
  | nil => simp only [run?, Option.some.injEq] at h; subst h; exact h0
  | cons t ts ih =>
    simp only [run?] at h
    split at h
    · rename_i s1 hs1; exact ih (Reachable.step h0 hs1) h
    · cases h

/-- from every reachable state of a valid configuration some schedule leads to a state without enabled thread -/
theorem exists_completion {c : Config} (hv : c.valid = true) :
    ∀ (n : Nat) (s : Sys), Reachable c s → measure c s ≤ n →
      ∃ ext s', run? s ext = some s' ∧ (∀ t, step s' t = none) := by
  intro n
  induction n with
  | zero =>
    intro s hr hm
    refine ⟨[], s, rfl, ?_⟩
    intro t
    cases hst : step s t with
    | none => rfl
    | some s1 => have := measure_decreases hv hr hst; omega
  | succ k ih =>
    intro s hr hm
    by_cases hstuck : ∀ t, step s t = none
    · exact ⟨[], s, rfl, hstuck⟩
    · have : ∃ t s1, step s t = some s1 := by
        apply Classical.byContradiction
        intro hcon
        apply hstuck
        intro t
        cases hst : step s t with
        | none => rfl
        | some s1 => exact absurd ⟨t, s1, hst⟩ hcon
      obtain ⟨t, s1, hst⟩ := this
      have hlt := measure_decreases hv hr hst
      obtain ⟨ext, s', hrun, hend⟩ := ih s1 (Reachable.step hr hst) (by omega)
      exact ⟨t :: ext, s', by simp [run?, hst, hrun], hend⟩

end Strax.Mailbox
