import StraxModel.Model.Backpressure
/-
  Lemmas for the chain model of Model/Backpressure.lean (C13).
  Part A: what one mailbox guarantees, whoever calls its critical sections (no kill): `MBOk`.
  Part B: the invariant of a chain (`Inv`) and the three generic update lemmas.
  Part C: every step of the chain preserves `Inv`; consequences (telescoping sum).
-/
namespace Strax.Backpressure
open Strax Strax.Mailbox

/-! ## Part A — one mailbox -/

/-! ### `minNext`, `hasNum` (self-contained copies of what is needed, so that this file only depends on the models) -/

theorem minNext_le_of_mem {subs : List Sub} {sub : Sub} (h : sub ∈ subs) : minNext subs ≤ sub.next := by
  induction subs with
  | nil => cases h
  | cons a r ih =>
    cases r with
    | nil => simp at h; subst h; simp [minNext]
    | cons b r' =>
      simp only [minNext]
      rcases List.mem_cons.mp h with h | h
      · subst h; exact Nat.min_le_left _ _
      · exact Nat.le_trans (Nat.min_le_right _ _) (ih h)

theorem minNext_mem {subs : List Sub} (h : subs ≠ []) : ∃ sub ∈ subs, sub.next = minNext subs := by
  induction subs with
  | nil => exact absurd rfl h
  | cons a r ih =>
    cases r with
    | nil => exact ⟨a, by simp, by simp [minNext]⟩
    | cons b r' =>
      simp only [minNext]
      obtain ⟨s, hs, he⟩ := ih (by simp)
      by_cases hab : a.next ≤ minNext (b :: r')
      · exact ⟨a, by simp, by omega⟩
      · exact ⟨s, List.mem_cons_of_mem _ hs, by omega⟩

theorem le_minNext {subs : List Sub} {k : Nat} (hne : subs ≠ []) (h : ∀ sub ∈ subs, k ≤ sub.next) :
    k ≤ minNext subs := by
  obtain ⟨s, hs, he⟩ := minNext_mem hne
  rw [← he]; exact h s hs

/-- replacing one subscriber by one that has read at least as much never lowers the minimum -/
theorem minNext_set_mono {subs : List Sub} {i : Nat} {old new : Sub} (hi : subs[i]? = some old)
    (hle : old.next ≤ new.next) : minNext subs ≤ minNext (subs.set i new) := by
  have hlt : i < subs.length := (List.getElem?_eq_some_iff.mp hi).1
  have hne : subs.set i new ≠ [] := by
    intro h; have := congrArg List.length h; simp only [List.length_set, List.length_nil] at this; omega
  apply le_minNext hne
  intro s hs
  rcases List.mem_or_eq_of_mem_set hs with h | h
  · exact minNext_le_of_mem h
  · subst h
    have : old ∈ subs := List.mem_of_getElem? hi
    exact Nat.le_trans (minNext_le_of_mem this) hle

theorem minNext_map_notify (subs : List Sub) : minNext (subs.map Sub.notify) = minNext subs := by
  induction subs with
  | nil => rfl
  | cons a r ih =>
    cases r with
    | nil => simp [minNext, Sub.notify]
    | cons b r' =>
      simp only [List.map_cons, minNext] at ih ⊢
      rw [ih]; simp [Sub.notify]

theorem hasNum_iff_getMsg (l : List (Nat × Msg)) (k : Nat) : hasNum l k = (getMsg l k).isSome := by
  induction l with
  | nil => simp [hasNum, getMsg]
  | cons e r ih =>
    simp only [hasNum, List.any_cons, getMsg] at ih ⊢
    by_cases h : e.1 = k
    · simp [h]
    · simp [h, ih]

/-- a list that contains `a, a+1, …, a+n-1` has at least `n` elements -/
theorem length_ge_of_range_subset : ∀ (n : Nat) (l : List Nat) (a : Nat),
    (∀ k, a ≤ k → k < a + n → k ∈ l) → n ≤ l.length := by
  intro n
  induction n with
  | zero => intros; omega
  | succ n ih =>
    intro l a h
    have hm : a + n ∈ l := h (a + n) (by omega) (by omega)
    have h' : ∀ k, a ≤ k → k < a + n → k ∈ l.erase (a + n) := by
      intro k h1 h2
      exact (List.mem_erase_of_ne (by omega)).mpr (h k h1 (by omega))
    have := ih (l.erase (a + n)) a h'
    rw [List.length_erase_of_mem hm] at this
    have : 0 < l.length := List.length_pos_of_mem hm
    omega

theorem hasNum_iff_mem (heap : List (Nat × Msg)) (k : Nat) : hasNum heap k = true ↔ k ∈ heap.map (·.1) := by
  simp only [hasNum, List.any_eq_true, List.mem_map, beq_iff_eq]

theorem hasNum_append (heap : List (Nat × Msg)) (e : Nat × Msg) (k : Nat) :
    hasNum (heap ++ [e]) k = (hasNum heap k || (e.1 == k)) := by
  simp [hasNum]

theorem hasNum_gc (heap : List (Nat × Msg)) (subs : List Sub) (k : Nat) :
    hasNum (gc heap subs) k = (hasNum heap k && decide (minNext subs ≤ k)) := by
  rw [Bool.eq_iff_iff]
  simp only [hasNum, gc, List.any_eq_true, List.mem_filter, Bool.and_eq_true, decide_eq_true_eq, beq_iff_eq]
  constructor
  · rintro ⟨e, ⟨he, hm⟩, rfl⟩; exact ⟨⟨e, he, rfl⟩, hm⟩
  · rintro ⟨⟨e, he, rfl⟩, hm⟩; exact ⟨e, ⟨he, hm⟩, rfl⟩

theorem gc_length_le (heap : List (Nat × Msg)) (subs : List Sub) : (gc heap subs).length ≤ heap.length :=
  List.length_filter_le _ _

theorem collect_length_le (heap : List (Nat × Msg)) : ∀ (fuel n : Nat), (collect heap fuel n).length ≤ fuel := by
  intro fuel
  induction fuel with
  | zero => intro n; simp [collect]
  | succ f ih =>
    intro n
    simp only [collect]
    split
    · simp only [List.length_cons]; have := ih (n + 1); omega
    · simp

/-- everything `collect` returns was in the heap under consecutive numbers -/
theorem collect_below {heap : List (Nat × Msg)} {b : Nat} (hb : ∀ k, hasNum heap k = true → k < b) :
    ∀ (fuel n : Nat), n ≤ b → n + (collect heap fuel n).length ≤ b := by
  intro fuel
  induction fuel with
  | zero => intro n h; simp [collect]; exact h
  | succ f ih =>
    intro n h
    simp only [collect]
    split
    · rename_i m hm
      have hn : hasNum heap n = true := by
        rw [hasNum_iff_getMsg]; simp [hm]
      have := ih (n + 1) (by have := hb n hn; omega)
      simp only [List.length_cons]; omega
    · simpa using h

theorem collect_pos {heap : List (Nat × Msg)} {n : Nat} (h : hasNum heap n = true) :
    1 ≤ (collect heap heap.length n).length := by
  have hne : heap ≠ [] := by intro h0; subst h0; simp [hasNum] at h
  obtain ⟨f, hf⟩ : ∃ f, heap.length = f + 1 := ⟨heap.length - 1, by have := List.length_pos_iff.mpr hne; omega⟩
  rw [hf]
  simp only [collect]
  rw [hasNum_iff_getMsg] at h
  cases hg : getMsg heap n with
  | none => simp [hg] at h
  | some m => simp

/-- the state of a mailbox inside a pipeline without failures: capacity `c`, subscriber 0 drives, the others drive
only in eager mode -/
structure MBOk (mb : MB) (c : Nat) (lazy : Bool) : Prop where
  cap : mb.cap = some c
  lz : mb.lazy = lazy
  rule : mb.gateRule = .hasMsg
  alive : mb.killed = false
  nfk : mb.forceKilled = false
  capOk : mb.heap.length ≤ c
  below : ∀ k, hasNum mb.heap k = true → k < mb.nSent
  full : ∀ k, minNext mb.subs ≤ k → k < mb.nSent → hasNum mb.heap k = true
  nextLe : ∀ sub ∈ mb.subs, sub.next ≤ mb.nSent
  waitFor : ∀ sub ∈ mb.subs, sub.waitingFor = (if sub.flag = none then none else some sub.next)
  drive : ∃ sub r, mb.subs = sub :: r ∧ sub.canDrive = true ∧ ∀ x ∈ r, x.canDrive = !lazy

theorem MBOk.ne {mb : MB} {c lazy} (h : MBOk mb c lazy) : mb.subs ≠ [] := by
  obtain ⟨sub, r, hs, _⟩ := h.drive; simp [hs]

theorem MBOk.minLe {mb : MB} {c lazy} (h : MBOk mb c lazy) : minNext mb.subs ≤ mb.nSent := by
  obtain ⟨s, hs, he⟩ := minNext_mem h.ne
  rw [← he]; exact h.nextLe s hs

/-- LOCAL BACK-PRESSURE: the sender of a mailbox is never more than `cap` messages ahead of its slowest reader -/
theorem MBOk.backlog {mb : MB} {c lazy} (h : MBOk mb c lazy) : mb.nSent ≤ minNext mb.subs + c := by
  have hsub : ∀ k, minNext mb.subs ≤ k → k < minNext mb.subs + (mb.nSent - minNext mb.subs) → k ∈ mb.heap.map (·.1) := by
    intro k h1 h2
    exact (hasNum_iff_mem _ _).mp (h.full k h1 (by have := h.minLe; omega))
  have := length_ge_of_range_subset _ _ _ hsub
  simp only [List.length_map] at this
  have := h.capOk
  omega

theorem MBOk.backlog_sub {mb : MB} {c lazy} (h : MBOk mb c lazy) {sub : Sub} (hs : sub ∈ mb.subs) :
    mb.nSent ≤ sub.next + c := by
  have := h.backlog; have := minNext_le_of_mem hs; omega

/-- a subscriber whose next message is not in the heap has read everything that was sent -/
theorem MBOk.at_top {mb : MB} {c lazy} (h : MBOk mb c lazy) {sub : Sub} (hs : sub ∈ mb.subs)
    (hn : hasNum mb.heap sub.next = false) : sub.next = mb.nSent := by
  have h1 := h.nextLe sub hs
  by_cases hlt : sub.next < mb.nSent
  · have := h.full sub.next (minNext_le_of_mem hs) hlt
    simp [hn] at this
  · omega

/-! ### the fetch gate -/

theorem gateStep_shape {mb mb' : MB} {ok : Bool} (hs : mb.gateStep = some (ok, mb')) :
    ∃ f, mb' = { mb with fetchFlag := f } ∧ ok = mb.canFetch := by
  simp only [MB.gateStep] at hs
  split at hs
  · simp at hs
  · split at hs <;> simp only [Option.some.injEq, Prod.mk.injEq] at hs <;> obtain ⟨rfl, rfl⟩ := hs
    · exact ⟨_, rfl, by simp_all⟩
    · exact ⟨_, rfl, by simp_all⟩

theorem MBOk.fetchFlag {mb : MB} {c lazy} (h : MBOk mb c lazy) (f : Option Bool) :
    MBOk { mb with fetchFlag := f } c lazy :=
  ⟨h.cap, h.lz, h.rule, h.alive, h.nfk, h.capOk, h.below, h.full, h.nextLe, h.waitFor, h.drive⟩

theorem MBOk.writeFlag {mb : MB} {c lazy} (h : MBOk mb c lazy) (f : Option Bool) :
    MBOk { mb with writeFlag := f } c lazy :=
  ⟨h.cap, h.lz, h.rule, h.alive, h.nfk, h.capOk, h.below, h.full, h.nextLe, h.waitFor, h.drive⟩

theorem MBOk.setClosed {mb : MB} {c lazy} (h : MBOk mb c lazy) (b : Bool) :
    MBOk { mb with closed := b } c lazy :=
  ⟨h.cap, h.lz, h.rule, h.alive, h.nfk, h.capOk, h.below, h.full, h.nextLe, h.waitFor, h.drive⟩

/-- THE GATE (fixed rule, one driver): when the gate of a lazy mailbox opens, subscriber 0 is waiting for a message
that has not been sent yet -/
theorem MBOk.gate_open {mb : MB} {c} (h : MBOk mb c true) (hc : mb.canFetch = true) :
    ∃ sub r, mb.subs = sub :: r ∧ sub.flag ≠ none ∧ sub.next = mb.nSent ∧ sub.waitingFor = some sub.next
      ∧ hasNum mb.heap sub.next = false := by
  obtain ⟨sub, r, hs, hd, hr⟩ := h.drive
  simp only [MB.canFetch, h.alive, Bool.false_eq_true, if_false] at hc
  split at hc
  · simp at hc
  · rename_i hst
    have hst' : mb.staleWaiter = false := by simpa using hst
    simp only [MB.driverWaits, hs, List.any_cons, Bool.or_eq_true, Bool.and_eq_true, List.any_eq_true] at hc
    have hw : sub.waitingFor.isSome = true := by
      rcases hc with hc | ⟨x, hx, hxd, _⟩
      · exact hc.2
      · have := hr x hx; simp [this] at hxd
    have hwf := h.waitFor sub (by simp [hs])
    have hfl : sub.flag ≠ none := by
      intro h0; rw [h0] at hwf; simp at hwf; rw [hwf] at hw; simp at hw
    have hwf' : sub.waitingFor = some sub.next := by simpa [hfl] using hwf
    have hnot : hasNum mb.heap sub.next = false := by
      simp only [MB.staleWaiter, hs, List.any_cons, Bool.or_eq_false_iff] at hst'
      have := hst'.1
      simpa [staleTest, hwf', h.rule] using this
    exact ⟨sub, r, hs, hfl, h.at_top (by simp [hs]) hnot, hwf', hnot⟩

/-! ### send -/

theorem MBOk.canWrite_iff {mb : MB} {c lazy} (h : MBOk mb c lazy) : mb.canWrite = decide (mb.heap.length < c) := by
  simp [MB.canWrite, h.cap, h.alive]

theorem notify_next (sub : Sub) : sub.notify.next = sub.next := rfl
theorem notify_canDrive (sub : Sub) : sub.notify.canDrive = sub.canDrive := rfl
theorem notify_waitingFor (sub : Sub) : sub.notify.waitingFor = sub.waitingFor := rfl
theorem notify_flag_none (sub : Sub) : sub.notify.flag = none ↔ sub.flag = none := by
  cases sub with
  | mk n w d f => cases f <;> simp [Sub.notify, notifyFlag]

theorem MBOk.push {mb : MB} {c lazy} (h : MBOk mb c lazy) (hw : mb.heap.length < c) (m : Msg) :
    MBOk (mb.push mb.nSent m) c lazy := by
  have hsubs : (mb.push mb.nSent m).subs = mb.subs.map Sub.notify := rfl
  have hheap : (mb.push mb.nSent m).heap = mb.heap ++ [(mb.nSent, m)] := rfl
  have hns : (mb.push mb.nSent m).nSent = mb.nSent + 1 := rfl
  refine ⟨h.cap, h.lz, h.rule, h.alive, h.nfk, ?_, ?_, ?_, ?_, ?_, ?_⟩
  · rw [hheap]; simp; omega
  · intro k hk
    rw [hheap, hasNum_append] at hk
    rw [hns]
    simp only [Bool.or_eq_true, beq_iff_eq] at hk
    rcases hk with hk | hk
    · have := h.below k hk; omega
    · omega
  · intro k h1 h2
    rw [hsubs, minNext_map_notify] at h1
    rw [hheap, hasNum_append]
    rw [hns] at h2
    by_cases hk : k < mb.nSent
    · simp [h.full k h1 hk]
    · have : mb.nSent = k := by omega
      simp [this]
  · intro sub hs
    rw [hsubs] at hs
    obtain ⟨x, hx, rfl⟩ := List.mem_map.mp hs
    rw [hns, notify_next]; have := h.nextLe x hx; omega
  · intro sub hs
    rw [hsubs] at hs
    obtain ⟨x, hx, rfl⟩ := List.mem_map.mp hs
    have := h.waitFor x hx
    rw [notify_waitingFor, notify_next, this]
    by_cases hf : x.flag = none
    · simp [hf, (notify_flag_none x).mpr hf]
    · have : x.notify.flag ≠ none := fun h0 => hf ((notify_flag_none x).mp h0)
      simp [hf, this]
  · obtain ⟨sub, r, hs, hd, hr⟩ := h.drive
    refine ⟨sub.notify, r.map Sub.notify, by rw [hsubs, hs]; rfl, hd, ?_⟩
    intro x hx
    obtain ⟨y, hy, rfl⟩ := List.mem_map.mp hx
    exact hr y hy

/-- `send(msg)` on a mailbox that is neither closed nor killed either pushes the message under the number `n_sent`
or starts / keeps waiting for room; it never raises -/
theorem MBOk.sendStep {mb mb' : MB} {c lazy} {m : Msg} {out : SendOut} (h : MBOk mb c lazy) (hcl : mb.closed = false)
    (hs : mb.sendStep none m = some (out, mb')) :
    (out = .sent mb.nSent ∧ mb' = mb.push mb.nSent m ∧ mb.heap.length < c) ∨
    (out = .waiting mb.nSent ∧ mb' = { mb with writeFlag := some false }) := by
  unfold MB.sendStep at hs
  rw [show resolveNum none mb.nSent = mb.nSent from rfl] at hs
  simp only [MB.sendCore] at hs
  have hmin := h.minLe
  have hcw := h.canWrite_iff
  split at hs
  · simp at hs
  · have h4 : ¬ mb.nSent < minNext mb.subs := by omega
    rw [if_neg (by simp [hcl]), if_neg (by simp [h.nfk]), if_neg (by simp [h.alive]), if_neg h4] at hs
    split at hs <;> simp only [Option.some.injEq, Prod.mk.injEq] at hs <;> obtain ⟨rfl, rfl⟩ := hs
    · rename_i hc; rw [hcw] at hc; exact Or.inl ⟨rfl, rfl, by simpa using hc⟩
    · exact Or.inr ⟨rfl, rfl⟩
  · split at hs
    · simp only [Option.some.injEq, Prod.mk.injEq] at hs; obtain ⟨rfl, rfl⟩ := hs
      exact Or.inr ⟨rfl, rfl⟩
    · rename_i hc
      have hc' : mb.canWrite = true := by simpa using hc
      rw [if_neg (by simp [h.alive])] at hs
      simp only [Option.some.injEq, Prod.mk.injEq] at hs; obtain ⟨rfl, rfl⟩ := hs
      rw [hcw] at hc'; exact Or.inl ⟨rfl, rfl, by simpa using hc'⟩

/-! ### read -/

@[simp] theorem nfic_subs' (mb : MB) : mb.notifyFetchIfCan.subs = mb.subs := by unfold MB.notifyFetchIfCan; split <;> rfl
@[simp] theorem nfic_heap' (mb : MB) : mb.notifyFetchIfCan.heap = mb.heap := by unfold MB.notifyFetchIfCan; split <;> rfl
@[simp] theorem nfic_nSent' (mb : MB) : mb.notifyFetchIfCan.nSent = mb.nSent := by unfold MB.notifyFetchIfCan; split <;> rfl
@[simp] theorem nfic_closed' (mb : MB) : mb.notifyFetchIfCan.closed = mb.closed := by unfold MB.notifyFetchIfCan; split <;> rfl

theorem MBOk.nfic {mb : MB} {c lazy} (h : MBOk mb c lazy) : MBOk mb.notifyFetchIfCan c lazy := by
  unfold MB.notifyFetchIfCan
  split
  · exact h.fetchFlag _
  · exact h

/-- replacing subscriber `i` by one that keeps `canDrive`, does not go backwards, stays below `nSent` and satisfies
the `waiting_for` convention -/
theorem MBOk.setSub {mb : MB} {c lazy} (h : MBOk mb c lazy) {i : Nat} {sub s' : Sub} (hi : mb.subs[i]? = some sub)
    (hd : s'.canDrive = sub.canDrive) (hn : sub.next ≤ s'.next) (hle : s'.next ≤ mb.nSent)
    (hw : s'.waitingFor = (if s'.flag = none then none else some s'.next)) :
    MBOk { mb with subs := mb.subs.set i s' } c lazy := by
  refine ⟨h.cap, h.lz, h.rule, h.alive, h.nfk, h.capOk, h.below, ?_, ?_, ?_, ?_⟩
  · intro k h1 h2
    exact h.full k (Nat.le_trans (minNext_set_mono hi hn) h1) h2
  · intro x hx
    rcases List.mem_or_eq_of_mem_set hx with hx | rfl
    · exact h.nextLe x hx
    · exact hle
  · intro x hx
    rcases List.mem_or_eq_of_mem_set hx with hx | rfl
    · exact h.waitFor x hx
    · exact hw
  · obtain ⟨a, r, hs, hda, hr⟩ := h.drive
    simp only [hs]
    cases i with
    | zero =>
      simp only [hs, List.getElem?_cons_zero, Option.some.injEq] at hi
      subst hi
      exact ⟨s', r, by simp, by rw [hd]; exact hda, hr⟩
    | succ k =>
      simp only [hs, List.getElem?_cons_succ] at hi
      refine ⟨a, r.set k s', by simp, hda, ?_⟩
      intro x hx
      rcases List.mem_or_eq_of_mem_set hx with hx | rfl
      · exact hr x hx
      · rw [hd]; exact hr sub (List.mem_of_getElem? hi)

/-- garbage collection -/
theorem MBOk.gcHeap {mb : MB} {c lazy} (h : MBOk mb c lazy) : MBOk { mb with heap := gc mb.heap mb.subs } c lazy := by
  refine ⟨h.cap, h.lz, h.rule, h.alive, h.nfk, ?_, ?_, ?_, h.nextLe, h.waitFor, h.drive⟩
  · exact Nat.le_trans (gc_length_le _ _) h.capOk
  · intro k hk
    simp only [hasNum_gc, Bool.and_eq_true] at hk
    exact h.below k hk.1
  · intro k h1 h2
    simp only [hasNum_gc, Bool.and_eq_true, decide_eq_true_eq]
    exact ⟨h.full k h1 h2, h1⟩

/-- what a `_read` critical section does to the mailbox (no kill) -/
inductive ReadEff (mb mb' : MB) (i : Nat) (sub : Sub) : ReadOut → Prop
  | waiting (s' : Sub) : s'.next = sub.next → s'.flag = some false → s'.canDrive = sub.canDrive →
      mb'.subs = mb.subs.set i s' → mb'.heap = mb.heap → hasNum mb.heap sub.next = false → ReadEff mb mb' i sub .waiting
  | took (msgs : List Msg) (s' : Sub) : s'.next = sub.next + msgs.length → s'.flag = none → s'.canDrive = sub.canDrive →
      mb'.subs = mb.subs.set i s' → 1 ≤ msgs.length → msgs.length ≤ mb.heap.length → ReadEff mb mb' i sub (.took msgs)

theorem MBOk.readStep {mb mb' : MB} {c lazy} {i : Nat} {out : ReadOut} (h : MBOk mb c lazy)
    (hs : mb.readStep i = some (out, mb')) :
    MBOk mb' c lazy ∧ mb'.nSent = mb.nSent ∧ mb'.closed = mb.closed ∧
    ∃ sub, mb.subs[i]? = some sub ∧ sub.flag ≠ some false ∧ ReadEff mb mb' i sub out := by
  simp only [MB.readStep] at hs
  split at hs
  · simp at hs
  · rename_i sub hi
    have hmem : sub ∈ mb.subs := List.mem_of_getElem? hi
    split at hs
    · simp at hs
    · rename_i flag hflag
      have hflag' : sub.flag ≠ some false := by
        intro h0; exact hflag (by rw [h0])
      simp only [h.alive, Bool.or_false, Bool.false_eq_true, if_false] at hs
      split at hs
      · -- not there: wait
        rename_i hnr
        have hnr' : hasNum mb.heap sub.next = false := by simpa using hnr
        have hwf := h.waitFor sub hmem
        split at hs <;> simp only [Option.some.injEq, Prod.mk.injEq] at hs <;> obtain ⟨rfl, rfl⟩ := hs
        · -- enter the wait
          have hok := h.setSub (s' := { sub with waitingFor := some sub.next, flag := some false }) hi rfl (Nat.le_refl _)
              (h.nextLe sub hmem) (by simp)
          refine ⟨by simpa [MB.readWaitEnter] using hok.nfic, by simp [MB.readWaitEnter], by simp [MB.readWaitEnter], sub, hi, hflag', ?_⟩
          exact .waiting { sub with waitingFor := some sub.next, flag := some false } rfl rfl rfl
            (by simp [MB.readWaitEnter]) (by simp [MB.readWaitEnter]) hnr'
        · -- notified, still not there: wait again
          rename_i hfl
          have hfn : sub.flag ≠ none := by rw [hfl]; simp
          have hok := h.setSub (s' := { sub with flag := some false }) hi rfl (Nat.le_refl _)
              (h.nextLe sub hmem) (by simpa [hfn] using hwf)
          refine ⟨by simpa [MB.readWaitAgain] using hok, by simp [MB.readWaitAgain], by simp [MB.readWaitAgain], sub, hi, hflag', ?_⟩
          exact .waiting { sub with flag := some false } rfl rfl rfl (by simp [MB.readWaitAgain]) (by simp [MB.readWaitAgain]) hnr'
      · -- take
        rename_i hnr
        have hthere : hasNum mb.heap sub.next = true := by simpa using hnr
        simp only [Option.some.injEq, Prod.mk.injEq] at hs
        obtain ⟨rfl, rfl⟩ := hs
        have hlen := collect_length_le mb.heap mb.heap.length sub.next
        have hbel := collect_below h.below mb.heap.length sub.next (h.nextLe sub hmem)
        have hpos := collect_pos hthere
        generalize hmsgs : collect mb.heap mb.heap.length sub.next = msgs at *
        have hok := (h.setSub (s' := { sub with next := sub.next + msgs.length, waitingFor := none, flag := none }) hi rfl (by simp) hbel (by simp)).gcHeap
        refine ⟨?_, by simp [MB.readTake, MB.notifyWrite], by simp [MB.readTake, MB.notifyWrite], sub, hi, hflag', ?_⟩
        · exact (hok.nfic).writeFlag _
        · exact .took _ { sub with next := sub.next + msgs.length, waitingFor := none, flag := none } rfl rfl rfl (by simp [MB.readTake, MB.notifyWrite]) hpos hlen

/-! ## Part B — the invariant of a chain -/

/-- messages a sender holds outside its batch -/
def pend : Pc → Nat
  | .send _ => 1
  | .close => 1
  | _ => 0

/-- messages a thread has taken out of its input mailbox and not passed on yet -/
def Node.held (nd : Node) : Nat := pend nd.pc + nd.batch.length

structure Inv (w : Wiring) (s : Net) : Prop where
  lz : s.lazy = w.lazy
  lenM : s.mbs.length = w.caps.length
  lenN : s.nodes.length = w.caps.length + 1
  pos : 0 < w.caps.length
  mbOk : ∀ (j : Nat) (mb : MB), s.mbs[j]? = some mb → ∃ c, w.caps[j]? = some c ∧ MBOk mb c w.lazy
  sidesOk : ∀ sd ∈ s.sides, 1 ≤ sd.sub
  closed : ∀ (j : Nat) (mb : MB) (nd : Node), s.mbs[j]? = some mb → s.nodes[j]? = some nd → mb.closed = true → nd.pc = .done
  notDead : ∀ (j : Nat) (nd : Node) (e : Err), s.nodes[j]? = some nd → nd.pc ≠ .dead e
  src : ∀ (nd : Node) (mb : MB), s.nodes[0]? = some nd → s.mbs[0]? = some mb → s.emitted = mb.nSent + pend nd.pc ∧ nd.batch = []
  stage : ∀ (j : Nat) (nd : Node) (inp out : MB) (sub : Sub) (c : Nat), s.nodes[j + 1]? = some nd → s.mbs[j]? = some inp → s.mbs[j + 1]? = some out →
    inp.subs[0]? = some sub → w.caps[j]? = some c → sub.next = out.nSent + nd.held ∧ nd.held ≤ c
  main : ∀ (j : Nat) (nd : Node) (inp : MB) (sub : Sub) (c : Nat), j + 1 = w.caps.length → s.nodes[j + 1]? = some nd → s.mbs[j]? = some inp →
    inp.subs[0]? = some sub → w.caps[j]? = some c → sub.next = s.pulled + nd.held ∧ nd.batch.length ≤ c - 1

theorem MBOk.sub0 {mb : MB} {c lazy} (h : MBOk mb c lazy) : ∃ sub, mb.subs[0]? = some sub := by
  obtain ⟨sub, r, hs, _⟩ := h.drive; exact ⟨sub, by simp [hs]⟩

/-- the sender of mailbox `j` did something to its mailbox and to itself -/
theorem Inv.outUpdate {w : Wiring} {s : Net} (h : Inv w s) {j : Nat} {nd nd' : Node} {mb mb' : MB} {c : Nat}
    (hn : s.nodes[j]? = some nd) (hm : s.mbs[j]? = some mb) (hc : w.caps[j]? = some c)
    (hok : MBOk mb' c w.lazy)
    (hsub0 : ∀ sub', mb'.subs[0]? = some sub' → ∃ sub, mb.subs[0]? = some sub ∧ sub'.next = sub.next)
    (hcnt : mb'.nSent + nd'.held = mb.nSent + nd.held) (hle : nd'.held ≤ nd.held)
    (hb : j = 0 → nd'.batch = [])
    (hcl : mb'.closed = true → nd'.pc = .done) (hnd : ∀ e, nd'.pc ≠ .dead e) :
    Inv w ((s.setMb j mb').setNode j nd') := by
  have hjm : j < s.mbs.length := (List.getElem?_eq_some_iff.mp hm).1
  have hjn : j < s.nodes.length := (List.getElem?_eq_some_iff.mp hn).1
  refine ⟨h.lz, by simp [Net.setMb, Net.setNode, h.lenM], by simp [Net.setMb, Net.setNode, h.lenN], h.pos, ?_, h.sidesOk, ?_, ?_, ?_, ?_, ?_⟩
  · intro i x hx
    simp only [Net.setMb, Net.setNode, List.getElem?_set] at hx
    split at hx
    · subst_vars; simp only [hjm, if_true, Option.some.injEq] at hx; subst hx; exact ⟨c, hc, hok⟩
    · exact h.mbOk i x hx
  · intro i x y hx hy hcx
    simp only [Net.setMb, Net.setNode, List.getElem?_set] at hx hy
    split at hx
    · subst_vars
      simp only [hjm, hjn, if_true, Option.some.injEq] at hx hy; subst hx; subst hy; exact hcl hcx
    · rename_i hne; rw [if_neg hne] at hy; exact h.closed i x y hx hy hcx
  · intro i x e hx
    simp only [Net.setMb, Net.setNode, List.getElem?_set] at hx
    split at hx
    · simp only [hjn, if_true, Option.some.injEq] at hx; subst hx; exact hnd e
    · exact h.notDead i x e hx
  · intro x y hx hy
    simp only [Net.setMb, Net.setNode, List.getElem?_set] at hx hy ⊢
    by_cases hj0 : j = 0
    · subst hj0
      simp only [hjm, hjn, if_true, Option.some.injEq] at hx hy; subst hx; subst hy
      have ⟨h1, h2⟩ := h.src nd mb hn hm
      have h3 := hb rfl
      simp only [Node.held, h2, h3, List.length_nil] at hcnt
      exact ⟨by omega, h3⟩
    · rw [if_neg hj0] at hx hy; exact h.src x y hx hy
  · intro i x inp out sub ci hx hinp hout hsub hci
    simp only [Net.setMb, Net.setNode, List.getElem?_set] at hx hinp hout
    by_cases h1 : j = i + 1
    · -- node j is the reader
      subst h1
      simp only [hjm, hjn, if_true, Option.some.injEq] at hx hout; subst hx; subst hout
      rw [if_neg (by omega)] at hinp
      have := h.stage i nd inp mb sub ci hn hinp hm hsub hci
      omega
    · rw [if_neg h1] at hx hout
      by_cases h2 : j = i
      · subst h2
        simp only [hjm, if_true, Option.some.injEq] at hinp; subst hinp
        obtain ⟨sub0, hs0, hnx⟩ := hsub0 sub hsub
        have := h.stage j x mb out sub0 ci hx hm hout hs0 hci
        omega
      · rw [if_neg h2] at hinp
        exact h.stage i x inp out sub ci hx hinp hout hsub hci
  · intro i x inp sub ci hi hx hinp hsub hci
    simp only [Net.setMb, Net.setNode, List.getElem?_set] at hx hinp ⊢
    have hlen := h.lenM
    rw [if_neg (by omega)] at hx
    by_cases h2 : j = i
    · subst h2
      simp only [hjm, if_true, Option.some.injEq] at hinp; subst hinp
      obtain ⟨sub0, hs0, hnx⟩ := hsub0 sub hsub
      have := h.main j x mb sub0 ci hi hx hm hs0 hci
      omega
    · rw [if_neg h2] at hinp
      exact h.main i x inp sub ci hi hx hinp hsub hci

/-- the reader `j+1` of mailbox `j` did something to that mailbox and to itself (`p'` = the consumer's new count) -/
theorem Inv.inUpdate {w : Wiring} {s : Net} (h : Inv w s) {j : Nat} {nd nd' : Node} {mb mb' : MB} {c p' : Nat}
    (hn : s.nodes[j + 1]? = some nd) (hm : s.mbs[j]? = some mb) (hc : w.caps[j]? = some c)
    (hok : MBOk mb' c w.lazy) (hns : mb'.nSent = mb.nSent) (hcl : mb'.closed = mb.closed)
    (hpc : nd.pc ≠ .done) (hnd : ∀ e, nd'.pc ≠ .dead e)
    (hstage : j + 1 < w.caps.length → p' = s.pulled ∧ ∀ sub sub', mb.subs[0]? = some sub → mb'.subs[0]? = some sub' →
      sub'.next + nd.held = sub.next + nd'.held ∧ nd'.held ≤ c)
    (hmain : j + 1 = w.caps.length → ∀ sub sub', mb.subs[0]? = some sub → mb'.subs[0]? = some sub' →
      sub'.next + s.pulled + nd.held = sub.next + p' + nd'.held ∧ nd'.batch.length ≤ c - 1) :
    Inv w { (s.setMb j mb').setNode (j + 1) nd' with pulled := p' } := by
  have hjm : j < s.mbs.length := (List.getElem?_eq_some_iff.mp hm).1
  have hjn : j + 1 < s.nodes.length := (List.getElem?_eq_some_iff.mp hn).1
  have hlenM := h.lenM
  have hlenN := h.lenN
  obtain ⟨sub0, hsub0⟩ := (h.mbOk j mb hm).elim fun _ hh => hh.2.sub0
  refine ⟨h.lz, by simp [Net.setMb, Net.setNode, h.lenM], by simp [Net.setMb, Net.setNode, h.lenN], h.pos, ?_, h.sidesOk, ?_, ?_, ?_, ?_, ?_⟩
  · intro i x hx
    simp only [Net.setMb, Net.setNode, List.getElem?_set] at hx
    split at hx
    · subst_vars; simp only [hjm, if_true, Option.some.injEq] at hx; subst hx; exact ⟨c, hc, hok⟩
    · exact h.mbOk i x hx
  · intro i x y hx hy hcx
    simp only [Net.setMb, Net.setNode, List.getElem?_set] at hx hy
    by_cases h1 : j = i
    · subst h1
      simp only [hjm, if_true, Option.some.injEq] at hx; subst hx
      rw [if_neg (by omega)] at hy
      exact h.closed j mb y hm hy (by rw [← hcl]; exact hcx)
    · rw [if_neg h1] at hx
      by_cases h2 : j + 1 = i
      · subst h2
        exact absurd (h.closed (j + 1) x nd hx hn hcx) hpc
      · rw [if_neg h2] at hy; exact h.closed i x y hx hy hcx
  · intro i x e hx
    simp only [Net.setMb, Net.setNode, List.getElem?_set] at hx
    split at hx
    · simp only [hjn, if_true, Option.some.injEq] at hx; subst hx; exact hnd e
    · exact h.notDead i x e hx
  · intro x y hx hy
    simp only [Net.setMb, Net.setNode, List.getElem?_set] at hx hy ⊢
    rw [if_neg (by omega)] at hx
    by_cases hj0 : j = 0
    · subst hj0
      simp only [hjm, if_true, Option.some.injEq] at hy; subst hy
      rw [hns]; exact h.src x mb hx hm
    · rw [if_neg hj0] at hy; exact h.src x y hx hy
  · intro i x inp out sub ci hx hinp hout hsub hci
    simp only [Net.setMb, Net.setNode, List.getElem?_set] at hx hinp hout
    by_cases h1 : j = i
    · -- the updated pair
      subst h1
      simp only [hjm, hjn, if_true, Option.some.injEq] at hx hinp; subst hx; subst hinp
      rw [if_neg (by omega)] at hout
      have hlt : j + 1 < w.caps.length := by
        have := (List.getElem?_eq_some_iff.mp hout).1; omega
      rw [hc] at hci; cases hci
      have h1 := h.stage j nd mb out sub0 c hn hm hout hsub0 hc
      have h2 := (hstage hlt).2 sub0 sub hsub0 hsub
      omega
    · rw [if_neg h1] at hinp
      rw [if_neg (by omega)] at hx
      by_cases h2 : j = i + 1
      · subst h2
        simp only [hjm, if_true, Option.some.injEq] at hout; subst hout
        rw [hns]
        exact h.stage i x inp mb sub ci hx hinp hm hsub hci
      · rw [if_neg h2] at hout
        exact h.stage i x inp out sub ci hx hinp hout hsub hci
  · intro i x inp sub ci hi hx hinp hsub hci
    simp only [Net.setMb, Net.setNode, List.getElem?_set] at hx hinp ⊢
    by_cases h1 : j = i
    · subst h1
      simp only [hjm, hjn, if_true, Option.some.injEq] at hx hinp; subst hx; subst hinp
      rw [hc] at hci; cases hci
      have h1 := h.main j nd mb sub0 c hi hn hm hsub0 hc
      have h2 := hmain hi sub0 sub hsub0 hsub
      omega
    · rw [if_neg h1] at hinp
      rw [if_neg (by omega)] at hx
      have hlt : j + 1 < w.caps.length := by omega
      rw [(hstage hlt).1]
      exact h.main i x inp sub ci hi hx hinp hsub hci

/-- something happened to mailbox `a` that keeps `n_sent`, `closed` and how far subscriber 0 has read
(a saver read, anybody started to wait) -/
theorem Inv.mbUpdate {w : Wiring} {s : Net} (h : Inv w s) {a : Nat} {mb mb' : MB} {c : Nat} {sides' : List Side}
    (hm : s.mbs[a]? = some mb) (hc : w.caps[a]? = some c)
    (hok : MBOk mb' c w.lazy) (hns : mb'.nSent = mb.nSent) (hcl : mb'.closed = mb.closed)
    (hsub0 : ∀ sub', mb'.subs[0]? = some sub' → ∃ sub, mb.subs[0]? = some sub ∧ sub'.next = sub.next)
    (hs : ∀ sd ∈ sides', 1 ≤ sd.sub) :
    Inv w { (s.setMb a mb') with sides := sides' } := by
  have hjm : a < s.mbs.length := (List.getElem?_eq_some_iff.mp hm).1
  refine ⟨h.lz, by simp [Net.setMb, h.lenM], by simp [Net.setMb, h.lenN], h.pos, ?_, hs, ?_, h.notDead, ?_, ?_, ?_⟩
  · intro i x hx
    simp only [Net.setMb, List.getElem?_set] at hx
    split at hx
    · subst_vars; simp only [hjm, if_true, Option.some.injEq] at hx; subst hx; exact ⟨c, hc, hok⟩
    · exact h.mbOk i x hx
  · intro i x y hx hy hcx
    simp only [Net.setMb, List.getElem?_set] at hx hy
    by_cases h1 : a = i
    · subst h1
      simp only [hjm, if_true, Option.some.injEq] at hx; subst hx
      exact h.closed a mb y hm hy (by rw [← hcl]; exact hcx)
    · rw [if_neg h1] at hx; exact h.closed i x y hx hy hcx
  · intro x y hx hy
    simp only [Net.setMb, List.getElem?_set] at hx hy ⊢
    by_cases hj0 : a = 0
    · subst hj0
      simp only [hjm, if_true, Option.some.injEq] at hy; subst hy
      rw [hns]; exact h.src x mb hx hm
    · rw [if_neg hj0] at hy; exact h.src x y hx hy
  · intro i x inp out sub ci hx hinp hout hsub hci
    simp only [Net.setMb, List.getElem?_set] at hx hinp hout
    by_cases h1 : a = i
    · subst h1
      simp only [hjm, if_true, Option.some.injEq] at hinp; subst hinp
      rw [if_neg (by omega)] at hout
      obtain ⟨sub0, hs0, hnx⟩ := hsub0 sub hsub
      have := h.stage a x mb out sub0 ci hx hm hout hs0 hci
      omega
    · rw [if_neg h1] at hinp
      by_cases h2 : a = i + 1
      · subst h2
        simp only [hjm, if_true, Option.some.injEq] at hout; subst hout
        rw [hns]
        exact h.stage i x inp mb sub ci hx hinp hm hsub hci
      · rw [if_neg h2] at hout
        exact h.stage i x inp out sub ci hx hinp hout hsub hci
  · intro i x inp sub ci hi hx hinp hsub hci
    simp only [Net.setMb, List.getElem?_set] at hx hinp ⊢
    by_cases h1 : a = i
    · subst h1
      simp only [hjm, if_true, Option.some.injEq] at hinp; subst hinp
      obtain ⟨sub0, hs0, hnx⟩ := hsub0 sub hsub
      have := h.main a x mb sub0 ci hi hx hm hs0 hci
      omega
    · rw [if_neg h1] at hinp
      exact h.main i x inp sub ci hi hx hinp hsub hci

/-- the source advances: one more emission, one more message in its hands -/
theorem Inv.fetch {w : Wiring} {s : Net} (h : Inv w s) {nd nd' : Node} {r : Nat}
    (hn : s.nodes[0]? = some nd) (hpc : nd.pc = .read) (hb : nd'.batch = nd.batch) (hp : pend nd'.pc = 1) :
    Inv w { (s.setNode 0 nd') with remaining := r, emitted := s.emitted + 1 } := by
  have hjn : 0 < s.nodes.length := (List.getElem?_eq_some_iff.mp hn).1
  have hnd' : ∀ e, nd'.pc ≠ .dead e := by
    intro e he; rw [he] at hp; simp [pend] at hp
  have hndone : nd'.pc ≠ .done := by
    intro he; rw [he] at hp; simp [pend] at hp
  refine ⟨h.lz, by simp [Net.setNode, h.lenM], by simp [Net.setNode, h.lenN], h.pos, h.mbOk, h.sidesOk, ?_, ?_, ?_, ?_, ?_⟩
  · intro i x y hx hy hcx
    simp only [Net.setNode, List.getElem?_set] at hx hy
    by_cases h1 : 0 = i
    · subst h1
      have := h.closed 0 x nd hx hn hcx
      rw [hpc] at this; cases this
    · rw [if_neg h1] at hy; exact h.closed i x y hx hy hcx
  · intro i x e hx
    simp only [Net.setNode, List.getElem?_set] at hx
    split at hx
    · simp only [hjn, if_true, Option.some.injEq] at hx; subst hx; exact hnd' e
    · exact h.notDead i x e hx
  · intro x y hx hy
    simp only [Net.setNode, List.getElem?_set] at hx hy ⊢
    simp only [hjn, if_true, Option.some.injEq] at hx; subst hx
    have ⟨h1, h2⟩ := h.src nd y hn hy
    rw [hpc] at h1; simp only [pend] at h1
    exact ⟨by omega, by rw [hb]; exact h2⟩
  · intro i x inp out sub ci hx hinp hout hsub hci
    simp only [Net.setNode, List.getElem?_set] at hx hinp hout
    rw [if_neg (by omega)] at hx
    exact h.stage i x inp out sub ci hx hinp hout hsub hci
  · intro i x inp sub ci hi hx hinp hsub hci
    simp only [Net.setNode, List.getElem?_set] at hx hinp ⊢
    rw [if_neg (by omega)] at hx
    exact h.main i x inp sub ci hi hx hinp hsub hci

/-! ## Part C — every step preserves the invariant -/

theorem advance_held (nd : Node) : nd.advance.held = nd.batch.length := by
  unfold Node.advance
  split <;> simp_all [Node.held, pend] <;> omega

theorem advance_not_dead (nd : Node) (e : Err) : nd.advance.pc ≠ .dead e := by
  unfold Node.advance
  split <;> simp

theorem setMb_self {s : Net} {i : Nat} {mb : MB} (h : s.mbs[i]? = some mb) : s.setMb i mb = s := by
  obtain ⟨hlt, he⟩ := List.getElem?_eq_some_iff.mp h
  cases s
  simp only [Net.setMb, Net.mk.injEq, and_true, true_and] at *
  subst he
  exact List.set_getElem_self hlt

theorem sub0_map_notify {subs : List Sub} {x : Sub} (h : (subs.map Sub.notify)[0]? = some x) :
    ∃ y, subs[0]? = some y ∧ x.next = y.next := by
  cases subs with
  | nil => simp at h
  | cons a r => simp at h; subst h; exact ⟨a, by simp, rfl⟩

theorem sub0_set0 {subs : List Sub} {s' x sub : Sub} (h0 : subs[0]? = some sub) (h : (subs.set 0 s')[0]? = some x) : x = s' := by
  cases subs with
  | nil => simp at h0
  | cons a r => simp at h; exact h.symm

theorem sub0_set_succ {subs : List Sub} {s' x : Sub} {k : Nat} (hk : 1 ≤ k) (h : (subs.set k s')[0]? = some x) :
    subs[0]? = some x := by
  rw [List.getElem?_set_ne (by omega)] at h; exact h

theorem Inv.capAt {w : Wiring} {s : Net} (h : Inv w s) {j : Nat} {mb : MB} (hm : s.mbs[j]? = some mb) :
    ∃ c, w.caps[j]? = some c ∧ MBOk mb c w.lazy := h.mbOk j mb hm

theorem Inv.stepGate {w : Wiring} {s s' : Net} (h : Inv w s) {j : Nat} {nd : Node} {out mb : MB} {ok : Bool}
    (hn : s.nodes[j]? = some nd) (hpc : nd.pc = .gate) (hm : s.mbs[j]? = some out)
    (hg : out.gateStep = some (ok, mb))
    (hs : s' = (s.setMb j mb).setNode j (if ok then afterGate j nd else nd)) : Inv w s' := by
  obtain ⟨c, hc, hok⟩ := h.capAt hm
  obtain ⟨f, rfl, _⟩ := gateStep_shape hg
  subst hs
  have hncl : out.closed = false := by
    cases hcl : out.closed with
    | false => rfl
    | true => have := h.closed j out nd hm hn hcl; rw [hpc] at this; cases this
  have hheld : nd.held = nd.batch.length := by simp [Node.held, hpc, pend]
  apply h.outUpdate hn hm hc (hok.fetchFlag f)
  · intro sub' hs'; exact ⟨sub', hs', rfl⟩
  · show out.nSent + _ = out.nSent + _
    cases ok
    · simp
    · simp only [if_true, afterGate]
      split
      · simp [Node.held, pend, hpc]
      · rw [advance_held, hheld]
  · cases ok
    · simp
    · simp only [if_true, afterGate]
      split
      · simp [Node.held, pend, hpc]
      · rw [advance_held, hheld]; exact Nat.le_refl _
  · intro hj0; subst hj0
    have := (h.src nd out hn hm).2
    cases ok <;> simp [afterGate, this]
  · intro hcl; simp [hncl] at hcl
  · intro e
    cases ok
    · simp [hpc]
    · simp only [if_true, afterGate]
      split
      · simp
      · exact advance_not_dead _ e

theorem Inv.stepSend {w : Wiring} {s s' : Net} (h : Inv w s) {j : Nat} {nd : Node} {out : MB} {m : Msg}
    (hn : s.nodes[j]? = some nd) (hpc : (∃ m0, nd.pc = .send m0) ∨ nd.pc = .close) (hm : s.mbs[j]? = some out)
    {r : SendOut × MB} (hg : out.sendStep none m = some r)
    (hs : (∃ n, r.1 = .sent n ∧ (((∃ m0, nd.pc = .send m0) ∧ s' = (s.setMb j r.2).setNode j (afterPush s.lazy j nd)) ∨
                               (nd.pc = .close ∧ s' = (s.setMb j { r.2 with closed := true }).setNode j { nd with pc := .done }))) ∨
          (∃ n, r.1 = .waiting n ∧ s' = s.setMb j r.2) ∨ r.1 = .dropped ∨ ∃ e, r.1 = .raised e) : Inv w s' := by
  obtain ⟨c, hc, hok⟩ := h.capAt hm
  have hncl : out.closed = false := by
    cases hcl : out.closed with
    | false => rfl
    | true =>
      have := h.closed j out nd hm hn hcl
      rcases hpc with ⟨m0, hpc⟩ | hpc <;> rw [hpc] at this <;> cases this
  have hheld : nd.held = 1 + nd.batch.length := by
    rcases hpc with ⟨m0, hpc⟩ | hpc <;> simp [Node.held, hpc, pend]
  obtain ⟨o, mb⟩ := r
  rcases hok.sendStep hncl hg with ⟨ho, hmb, hroom⟩ | ⟨ho, hmb⟩
  · -- pushed
    simp only at hs ho
    rcases hs with ⟨n, _, hs⟩ | ⟨n, hw, _⟩ | hd | ⟨e, he⟩
    · have hsub0 : ∀ sub', (out.push out.nSent m).subs[0]? = some sub' → ∃ sub, out.subs[0]? = some sub ∧ sub'.next = sub.next :=
        fun sub' hs' => sub0_map_notify hs'
      rcases hs with ⟨hp, rfl⟩ | ⟨hp, rfl⟩
      · subst hmb
        apply h.outUpdate hn hm hc (hok.push hroom m) hsub0
        · show out.nSent + 1 + _ = out.nSent + _
          rw [hheld]
          simp only [afterPush]
          split
          · simp [Node.held, pend]; omega
          · split
            · simp [Node.held, pend]; omega
            · rw [advance_held]; omega
        · rw [hheld]
          simp only [afterPush]
          split
          · simp [Node.held, pend]
          · split
            · simp [Node.held, pend]
            · rw [advance_held]; omega
        · intro hj0; subst hj0
          have := (h.src nd out hn hm).2
          simp only [afterPush]
          split
          · exact this
          · simp [this]
        · intro hcl; simp [MB.push, MB.notifyRead, hncl] at hcl
        · intro e
          simp only [afterPush]
          split
          · simp
          · split
            · simp
            · exact advance_not_dead _ e
      · subst hmb
        apply h.outUpdate hn hm hc ((hok.push hroom m).setClosed true)
        · intro sub' hs'; exact hsub0 sub' hs'
        · show out.nSent + 1 + _ = out.nSent + _
          rw [hheld]; simp [Node.held, pend]; omega
        · rw [hheld]; simp [Node.held, pend]
        · intro hj0; subst hj0
          exact (h.src nd out hn hm).2
        · intro _; rfl
        · intro e; simp
    · rw [ho] at hw; cases hw
    · rw [ho] at hd; cases hd
    · rw [ho] at he; cases he
  · -- waits for room
    simp only at hs ho
    rcases hs with ⟨n, hsn, _⟩ | ⟨n, _, rfl⟩ | hd | ⟨e, he⟩
    · rw [ho] at hsn; cases hsn
    · subst hmb
      exact h.mbUpdate (sides' := s.sides) hm hc (hok.writeFlag _) rfl rfl (fun sub' hs' => ⟨sub', hs', rfl⟩) h.sidesOk
    · rw [ho] at hd; cases hd
    · rw [ho] at he; cases he

/-- the consumer takes a message out of a batch it already holds or has just collected -/
theorem Inv.stepPull {w : Wiring} {s s' : Net} (h : Inv w s) {i : Nat} {nd : Node} {mb mb' : MB} {c : Nat} {msgs : List Msg}
    (hi : i + 1 = w.caps.length) (hn : s.nodes[i + 1]? = some nd) (hpc : nd.pc = .read) (hm : s.mbs[i]? = some mb)
    (hc : w.caps[i]? = some c) (hok : MBOk mb' c w.lazy) (hns : mb'.nSent = mb.nSent) (hcl : mb'.closed = mb.closed)
    (hnext : ∀ sub sub', mb.subs[0]? = some sub → mb'.subs[0]? = some sub' → sub'.next + nd.batch.length = sub.next + msgs.length)
    (hlen : msgs.length ≤ c)
    (hs : (s.setMb i mb').pull (i + 1) msgs = some s') : Inv w s' := by
  obtain ⟨sub0, hsub0⟩ := (h.capAt hm).elim fun _ hh => hh.2.sub0
  have hold := h.main i nd mb sub0 _ hi hn hm hsub0 hc
  cases msgs with
  | nil => simp [Net.pull] at hs
  | cons m r =>
    have key : ∀ (pc' : Pc) (p' : Nat), (∀ e, pc' ≠ .dead e) → pend pc' + p' = s.pulled + 1 →
        Inv w { ((s.setMb i mb').setNode (i + 1) { pc := pc', batch := r }) with pulled := p' } := by
      intro pc' p' hpc' hp'
      apply h.inUpdate hn hm hc hok hns hcl (by rw [hpc]; simp) hpc'
      · intro hlt; omega
      · intro _ sub sub' h1 h2
        have := hnext sub sub' h1 h2
        rw [hsub0] at h1; cases h1
        have hh : nd.held = nd.batch.length := by simp [Node.held, hpc, pend]
        have hh' : ({ pc := pc', batch := r } : Node).held = pend pc' + r.length := rfl
        simp only [List.length_cons] at this hlen
        rw [hh, hh']
        exact ⟨by omega, by simp only; omega⟩
    have hwait : Inv w ((s.setMb i mb').setNode (i + 1) { pc := .send m, batch := r }) :=
      key (.send m) s.pulled (by simp) (by simp only [pend]; omega)
    cases m with
    | stop => simp only [Net.pull, Option.some.injEq] at hs; subst hs; exact key .done _ (by simp) (by simp only [pend, Net.setMb]; omega)
    | plain v =>
      simp only [Net.pull, unresolved, Bool.false_eq_true, if_false, Option.some.injEq] at hs; subst hs
      exact key .read _ (by simp) (by simp only [pend, Net.setMb]; omega)
    | fut a b =>
      simp only [Net.pull] at hs
      split at hs
      · simp only [Option.some.injEq] at hs; subst hs; exact hwait
      · simp only [Option.some.injEq] at hs; subst hs; exact key .read _ (by simp) (by simp only [pend, Net.setMb]; omega)

theorem Inv.stepRead {w : Wiring} {s s' : Net} (h : Inv w s) {i : Nat} {nd : Node} {inp : MB}
    (hn : s.nodes[i + 1]? = some nd) (hpc : nd.pc = .read) (hb : nd.batch = []) (hm : s.mbs[i]? = some inp)
    {r : ReadOut × MB} (hg : inp.readStep 0 = some r)
    (hs : (r.1 = .waiting ∧ s' = s.setMb i r.2) ∨ r.1 = .killed ∨
          (∃ msgs, r.1 = .took msgs ∧
            if i + 1 = s.mbs.length then (s.setMb i r.2).pull (i + 1) msgs = some s'
            else s' = (s.setMb i r.2).setNode (i + 1) ({ nd with batch := msgs } : Node).advance)) : Inv w s' := by
  obtain ⟨c, hc, hok⟩ := h.capAt hm
  obtain ⟨o, mb⟩ := r
  obtain ⟨hok', hns, hcl, sub, hsub, _, heff⟩ := hok.readStep hg
  simp only at hs
  cases heff with
  | waiting s1 h1 h2 h3 h4 h5 h6 =>
    rcases hs with ⟨_, rfl⟩ | hk | ⟨msgs, hm', _⟩
    · apply h.mbUpdate (sides' := s.sides) hm hc hok' hns hcl _ h.sidesOk
      intro sub' hs'
      rw [h4] at hs'
      exact ⟨sub, hsub, by rw [sub0_set0 hsub hs']; exact h1⟩
    · cases hk
    · cases hm'
  | took msgs s1 h1 h2 h3 h4 h5 h6 =>
    rcases hs with ⟨hw, _⟩ | hk | ⟨msgs', hm', hs⟩
    · cases hw
    · cases hk
    · cases hm'
      have hnext : ∀ sub0 sub', inp.subs[0]? = some sub0 → mb.subs[0]? = some sub' → sub'.next = sub0.next + msgs.length := by
        intro sub0 sub' ha hb'
        rw [hsub] at ha; cases ha
        rw [h4] at hb'
        rw [sub0_set0 hsub hb']; exact h1
      have hlen : msgs.length ≤ c := Nat.le_trans h6 hok.capOk
      split at hs
      · rename_i hlast
        have hi : i + 1 = w.caps.length := by rw [← h.lenM]; exact hlast
        apply h.stepPull hi hn hpc hm hc hok' hns hcl _ hlen hs
        intro sub0 sub' ha hb'
        rw [hb, hnext sub0 sub' ha hb']; simp
      · rename_i hnl
        subst hs
        have hlt : i + 1 < w.caps.length := by
          have := (List.getElem?_eq_some_iff.mp hn).1
          have := h.lenN; have := h.lenM; omega
        have : { (s.setMb i mb).setNode (i + 1) ({ nd with batch := msgs } : Node).advance with pulled := s.pulled } =
            (s.setMb i mb).setNode (i + 1) ({ nd with batch := msgs } : Node).advance := rfl
        rw [← this]
        apply h.inUpdate hn hm hc hok' hns hcl (by rw [hpc]; simp) (advance_not_dead _)
        · intro _
          refine ⟨rfl, ?_⟩
          intro sub0 sub' ha hb'
          rw [advance_held, hnext sub0 sub' ha hb']
          simp only [Node.held, hpc, pend, hb, List.length_nil]
          omega
        · intro hi; omega

/-- the consumer / a stage continues with a batch it already holds (for a stage this cannot happen: after every
push it takes the next message of the batch in the same step) -/
theorem Inv.stepBatch {w : Wiring} {s s' : Net} (h : Inv w s) {i : Nat} {nd : Node}
    (hn : s.nodes[i + 1]? = some nd) (hpc : nd.pc = .read)
    (hs : if i + 1 = s.mbs.length then s.pull (i + 1) nd.batch = some s' else s' = s.setNode (i + 1) nd.advance) :
    Inv w s' := by
  have hlenN := h.lenN
  have hlenM := h.lenM
  have hjn := (List.getElem?_eq_some_iff.mp hn).1
  split at hs
  · rename_i hlast
    have hi : i + 1 = w.caps.length := by omega
    obtain ⟨mb, hm⟩ : ∃ mb, s.mbs[i]? = some mb := ⟨s.mbs[i]'(by omega), List.getElem?_eq_getElem _⟩
    obtain ⟨c, hc, hok⟩ := h.capAt hm
    obtain ⟨sub0, hsub0⟩ := hok.sub0
    have hold := h.main i nd mb sub0 c hi hn hm hsub0 hc
    rw [← setMb_self hm] at hs
    apply h.stepPull hi hn hpc hm hc hok rfl rfl _ _ hs
    · intro sub sub' h1 h2; rw [h1] at h2; cases h2; rfl
    · have := hold.2
      omega
  · rename_i hnl
    subst hs
    obtain ⟨mb, hm⟩ : ∃ mb, s.mbs[i + 1]? = some mb := ⟨s.mbs[i + 1]'(by omega), List.getElem?_eq_getElem _⟩
    obtain ⟨c, hc, hok⟩ := h.capAt hm
    rw [← setMb_self hm]
    have hncl : mb.closed = false := by
      cases hcl : mb.closed with
      | false => rfl
      | true => have := h.closed (i + 1) mb nd hm hn hcl; rw [hpc] at this; cases this
    apply h.outUpdate hn hm hc hok (fun sub' hs' => ⟨sub', hs', rfl⟩)
    · rw [advance_held]; simp [Node.held, hpc, pend]
    · rw [advance_held]; simp [Node.held, hpc, pend]
    · intro h0; omega
    · intro hcl; simp [hncl] at hcl
    · exact advance_not_dead _

/-- the consumer is handed the result of the future it has been holding -/
theorem Inv.stepHand {w : Wiring} {s : Net} (h : Inv w s) {j : Nat} {nd : Node} {m : Msg}
    (hn : s.nodes[j]? = some nd) (hpc : nd.pc = .send m) (hlast : j = s.mbs.length) :
    Inv w { (s.setNode j { nd with pc := .read }) with pulled := s.pulled + 1 } := by
  have hlenM := h.lenM
  have hpos := h.pos
  obtain ⟨i, rfl⟩ : ∃ i, j = i + 1 := ⟨j - 1, by omega⟩
  obtain ⟨mb, hm⟩ : ∃ mb, s.mbs[i]? = some mb := ⟨s.mbs[i]'(by omega), List.getElem?_eq_getElem _⟩
  obtain ⟨c, hc, hok⟩ := h.capAt hm
  obtain ⟨sub0, hsub0⟩ := hok.sub0
  have hold := h.main i nd mb sub0 c (by omega) hn hm hsub0 hc
  rw [← setMb_self hm]
  apply h.inUpdate hn hm hc hok rfl rfl (by rw [hpc]; simp) (by simp)
  · intro hlt; omega
  · intro _ sub sub' h1 h2
    rw [h1] at h2; cases h2
    refine ⟨?_, hold.2⟩
    have e1 : nd.held = 1 + nd.batch.length := by simp [Node.held, hpc, pend]
    have e2 : ({ nd with pc := .read } : Node).held = nd.batch.length := by simp [Node.held, pend]
    rw [e1, e2]; simp only [Net.setMb]; omega

theorem Inv.stepNode {w : Wiring} {s s' : Net} (h : Inv w s) {j : Nat} (hs : Backpressure.stepNode s j = some s') : Inv w s' := by
  unfold Backpressure.stepNode at hs
  dsimp only at hs
  split at hs
  · simp at hs
  · rename_i nd hn
    split at hs
    · -- gate
      rename_i hpc
      split at hs
      · simp at hs
      · rename_i out hm
        split at hs
        · simp at hs
        · rename_i ok mb hg
          simp only [Option.some.injEq] at hs
          exact h.stepGate hn hpc hm hg hs.symm
    · -- read
      rename_i hpc
      split at hs
      · -- the source
        rename_i hj0; subst hj0
        split at hs
        · simp only [Option.some.injEq] at hs; subst hs
          exact h.fetch (r := s.remaining) (nd' := { nd with pc := .close }) hn hpc rfl rfl
        · rename_i r hr
          simp only [Option.some.injEq] at hs; subst hs
          exact h.fetch (r := r) (nd' := { nd with pc := .send (.plain s.emitted) }) hn hpc rfl rfl
      · rename_i hj0
        obtain ⟨i, rfl⟩ : ∃ i, j = i + 1 := ⟨j - 1, by omega⟩
        split at hs
        · rename_i m r hb
          apply h.stepBatch hn hpc
          split at hs
          · rename_i hl; rw [if_pos hl]; exact hs
          · rename_i hl; rw [if_neg hl]; simp only [Option.some.injEq] at hs; exact hs.symm
        · rename_i hb
          simp only [Nat.add_sub_cancel] at hs
          split at hs
          · simp at hs
          · rename_i inp hm
            split at hs
            · simp at hs
            · rename_i mb hg
              simp only [Option.some.injEq] at hs
              exact h.stepRead hn hpc hb hm hg (Or.inl ⟨rfl, hs.symm⟩)
            · rename_i mb hg
              exact h.stepRead hn hpc hb hm hg (Or.inr (Or.inl rfl))
            · rename_i msgs mb hg
              apply h.stepRead hn hpc hb hm hg (Or.inr (Or.inr ⟨msgs, rfl, ?_⟩))
              simp only
              split at hs
              · rename_i hl; rw [if_pos hl]; exact hs
              · rename_i hl; rw [if_neg hl]; simp only [Option.some.injEq] at hs; exact hs.symm
    · -- send
      rename_i m hpc
      split at hs
      · simp at hs
      · split at hs
        · -- the consumer is handed the result of the future it was waiting for
          rename_i hlast
          simp only [Option.some.injEq] at hs; subst hs
          exact h.stepHand hn hpc hlast
        · split at hs
          · simp at hs
          · rename_i out hm
            split at hs
            · simp at hs
            · rename_i n mb hg
              simp only [Option.some.injEq] at hs
              exact h.stepSend hn (Or.inl ⟨m, hpc⟩) hm hg (Or.inl ⟨n, rfl, Or.inl ⟨⟨m, hpc⟩, hs.symm⟩⟩)
            · rename_i mb hg
              exact h.stepSend hn (Or.inl ⟨m, hpc⟩) hm hg (Or.inr (Or.inr (Or.inl rfl)))
            · rename_i n mb hg
              simp only [Option.some.injEq] at hs
              exact h.stepSend hn (Or.inl ⟨m, hpc⟩) hm hg (Or.inr (Or.inl ⟨n, rfl, hs.symm⟩))
            · rename_i e mb hg
              exact h.stepSend hn (Or.inl ⟨m, hpc⟩) hm hg (Or.inr (Or.inr (Or.inr ⟨e, rfl⟩)))
    · -- close
      rename_i hpc
      split at hs
      · simp at hs
      · rename_i out hm
        split at hs
        · simp at hs
        · rename_i n mb hg
          simp only [Option.some.injEq] at hs
          exact h.stepSend (m := .stop) hn (Or.inr hpc) hm hg (Or.inl ⟨n, rfl, Or.inr ⟨hpc, hs.symm⟩⟩)
        · rename_i mb hg
          exact h.stepSend (m := .stop) hn (Or.inr hpc) hm hg (Or.inr (Or.inr (Or.inl rfl)))
        · rename_i n mb hg
          simp only [Option.some.injEq] at hs
          exact h.stepSend (m := .stop) hn (Or.inr hpc) hm hg (Or.inr (Or.inl ⟨n, rfl, hs.symm⟩))
        · rename_i e mb hg
          exact h.stepSend (m := .stop) hn (Or.inr hpc) hm hg (Or.inr (Or.inr (Or.inr ⟨e, rfl⟩)))
    · simp at hs
    · simp at hs

theorem Inv.stepSide {w : Wiring} {s s' : Net} (h : Inv w s) {i : Nat} (hs : Backpressure.stepSide s i = some s') : Inv w s' := by
  unfold Backpressure.stepSide at hs
  split at hs
  · simp at hs
  · rename_i sd hsd
    have hsub1 : 1 ≤ sd.sub := h.sidesOk sd (List.mem_of_getElem? hsd)
    split at hs
    · simp at hs
    · split at hs
      · simp at hs
      · rename_i inp hm
        obtain ⟨c, hc, hok⟩ := h.capAt hm
        have hsides : ∀ d : Bool, ∀ x ∈ s.sides.set i { sd with done := d }, 1 ≤ x.sub := by
          intro d x hx
          rcases List.mem_or_eq_of_mem_set hx with hx | rfl
          · exact h.sidesOk x hx
          · exact hsub1
        split at hs
        · simp at hs
        all_goals
          rename_i hg
          obtain ⟨hok', hns, hcl, sub, hsub, _, heff⟩ := hok.readStep hg
          simp only [Option.some.injEq] at hs
          subst hs
        · cases heff with
          | waiting s1 h1 h2 h3 h4 h5 h6 =>
            apply h.mbUpdate (sides' := s.sides) hm hc hok' hns hcl _ h.sidesOk
            intro sub' hs'
            rw [h4] at hs'
            exact ⟨sub', sub0_set_succ hsub1 hs', rfl⟩
        · cases heff
        · cases heff with
          | took msgs s1 h1 h2 h3 h4 h5 h6 =>
            apply h.mbUpdate hm hc hok' hns hcl _ (hsides _)
            intro sub' hs'
            rw [h4] at hs'
            exact ⟨sub', sub0_set_succ hsub1 hs', rfl⟩

theorem Inv.step {w : Wiring} {s s' : Net} (h : Inv w s) {t : Tid} (hs : Backpressure.step s t = some s') : Inv w s' := by
  cases t with
  | node j => exact h.stepNode hs
  | side i => exact h.stepSide hs
  | resolve id =>
    simp only [Backpressure.step, stepResolve] at hs
    split at hs
    · simp only [Option.some.injEq] at hs; subst hs
      exact ⟨h.lz, h.lenM, h.lenN, h.pos, h.mbOk, h.sidesOk, h.closed, h.notDead, h.src, h.stage, h.main⟩
    · simp at hs

/-! ### the initial state -/

theorem mkMb_ok (lazy : Bool) (c k : Nat) : MBOk (mkMb lazy c k) c lazy := by
  refine ⟨rfl, rfl, rfl, rfl, rfl, by simp [mkMb], ?_, ?_, ?_, ?_, ?_⟩
  · intro x hx; simp [mkMb, hasNum] at hx
  · intro x _ hx; simp [mkMb] at hx
  · intro sub hs
    simp only [mkMb, List.mem_cons, List.mem_replicate] at hs
    rcases hs with rfl | ⟨_, rfl⟩ <;> simp
  · intro sub hs
    simp only [mkMb, List.mem_cons, List.mem_replicate] at hs
    rcases hs with rfl | ⟨_, rfl⟩ <;> simp
  · refine ⟨_, _, rfl, rfl, ?_⟩
    intro x hx
    simp only [List.mem_replicate] at hx
    rw [hx.2]

theorem mkSides_sub : ∀ (savers : List Nat) (j : Nat), ∀ sd ∈ mkSides savers j, 1 ≤ sd.sub := by
  intro savers
  induction savers with
  | nil => intro j sd h; simp [mkSides] at h
  | cons k r ih =>
    intro j sd h
    simp only [mkSides, List.mem_append, sidesOf, List.mem_map, List.mem_range] at h
    rcases h with ⟨a, _, rfl⟩ | h
    · simp
    · exact ih (j + 1) sd h

theorem wire_mbs {w : Wiring} {n j : Nat} {mb : MB} (h : (wire w n).mbs[j]? = some mb) :
    ∃ c, w.caps[j]? = some c ∧ mb = mkMb w.lazy c (w.saversAt j) := by
  simp only [wire, List.getElem?_map, Option.map_eq_some_iff] at h
  obtain ⟨a, ha, rfl⟩ := h
  obtain ⟨hlt, rfl⟩ := List.getElem?_eq_some_iff.mp ha
  simp only [List.length_range] at hlt
  simp only [List.getElem_range]
  exact ⟨w.caps[j], List.getElem?_eq_getElem hlt, by simp [List.getElem?_eq_getElem hlt]⟩

theorem wire_nodes {w : Wiring} {n j : Nat} {nd : Node} (h : (wire w n).nodes[j]? = some nd) :
    nd.batch = [] ∧ pend nd.pc = 0 ∧ (∀ e, nd.pc ≠ .dead e) ∧ nd.pc ≠ .done := by
  simp only [wire, List.getElem?_map, Option.map_eq_some_iff] at h
  obtain ⟨a, _, rfl⟩ := h
  refine ⟨rfl, ?_, ?_, ?_⟩
  · dsimp only; split
    · rfl
    · split <;> rfl
  · intro e; dsimp only; split
    · simp
    · split <;> simp
  · dsimp only; split
    · simp
    · split <;> simp

theorem Inv.init (w : Wiring) (n : Nat) (hpos : 0 < w.caps.length) : Inv w (wire w n) := by
  refine ⟨rfl, by simp [wire], by simp [wire], hpos, ?_, ?_, ?_, ?_, ?_, ?_, ?_⟩
  · intro j mb hm
    obtain ⟨c, hc, rfl⟩ := wire_mbs hm
    exact ⟨c, hc, mkMb_ok _ _ _⟩
  · exact mkSides_sub _ _
  · intro j mb nd hm _ hcl
    obtain ⟨c, _, rfl⟩ := wire_mbs hm
    simp [mkMb] at hcl
  · intro j nd e hn
    exact (wire_nodes hn).2.2.1 e
  · intro nd mb hn hm
    obtain ⟨c, _, rfl⟩ := wire_mbs hm
    obtain ⟨h1, h2, _⟩ := wire_nodes hn
    exact ⟨by rw [h2]; rfl, h1⟩
  · intro j nd inp out sub c hn hi ho hs hc
    obtain ⟨_, _, rfl⟩ := wire_mbs hi
    obtain ⟨_, _, rfl⟩ := wire_mbs ho
    obtain ⟨h1, h2, _⟩ := wire_nodes hn
    simp only [mkMb, List.getElem?_cons_zero, Option.some.injEq] at hs
    subst hs
    simp [Node.held, h1, h2, mkMb]
  · intro j nd inp sub c _ hn hi hs hc
    obtain ⟨_, _, rfl⟩ := wire_mbs hi
    obtain ⟨h1, h2, _⟩ := wire_nodes hn
    simp only [mkMb, List.getElem?_cons_zero, Option.some.injEq] at hs
    subst hs
    simp [h1, h2, Node.held, wire]

theorem Inv.reachable {w : Wiring} {n : Nat} {s : Net} (hpos : 0 < w.caps.length) (h : Reachable w n s) : Inv w s := by
  induction h with
  | init => exact Inv.init w n hpos
  | step _ hs ih => exact ih.step hs

/-! ### consequences: the telescoping sum along the chain -/

theorem down_induction (n : Nat) (P : Nat → Prop) (hbase : 0 < n → P (n - 1)) (hstep : ∀ i, i + 1 < n → P (i + 1) → P i) :
    ∀ i, i < n → P i := by
  intro i hi
  obtain ⟨d, hd⟩ : ∃ d, i + d = n - 1 := ⟨n - 1 - i, by omega⟩
  induction d generalizing i with
  | zero => have : i = n - 1 := by omega
            subst this; exact hbase (by omega)
  | succ d ih => exact hstep i (by omega) (ih (i + 1) (by omega) (by omega))

theorem drop_sum_succ (l : List Nat) (i : Nat) (c : Nat) (h : l[i]? = some c) :
    (l.drop i).sum = c + (l.drop (i + 1)).sum := by
  obtain ⟨hlt, rfl⟩ := List.getElem?_eq_some_iff.mp h
  have := List.drop_eq_getElem_cons hlt
  rw [this, List.sum_cons]

theorem pend_le_one (pc : Pc) : pend pc ≤ 1 := by cases pc <;> simp [pend]

/-- 1 if the consumer's reader holds a future it is waiting for (taken out of the mailbox, not handed over yet) -/
def Net.mainPend (s : Net) : Nat :=
  match s.nodes[s.mbs.length]? with
  | some nd => pend nd.pc
  | none => 0

/-- how far the sender of mailbox `i` can be ahead of the consumer -/
theorem Inv.ahead {w : Wiring} {s : Net} (h : Inv w s) (hcap : ∀ c ∈ w.caps, 1 ≤ c) :
    ∀ i, i < w.caps.length → ∀ mb, s.mbs[i]? = some mb → mb.nSent + 1 ≤ s.pulled + 2 * (w.caps.drop i).sum + s.mainPend := by
  have hlenM := h.lenM
  have hlenN := h.lenN
  apply down_induction
  · intro hpos mb hm
    obtain ⟨c, hc, hok⟩ := h.capAt hm
    obtain ⟨sub, hsub⟩ := hok.sub0
    obtain ⟨nd, hn⟩ : ∃ nd, s.nodes[w.caps.length - 1 + 1]? = some nd :=
      ⟨s.nodes[w.caps.length - 1 + 1]'(by omega), List.getElem?_eq_getElem _⟩
    have h1 := h.main (w.caps.length - 1) nd mb sub c (by omega) hn hm hsub hc
    have h2 := hok.backlog_sub (List.mem_of_getElem? hsub)
    have h3 : 1 ≤ c := hcap c (List.mem_of_getElem? hc)
    rw [drop_sum_succ _ _ c hc]
    have : (w.caps.drop (w.caps.length - 1 + 1)).sum = 0 := by
      rw [List.drop_eq_nil_of_le (by omega)]; rfl
    have hmp : s.mainPend = pend nd.pc := by
      have : w.caps.length - 1 + 1 = s.mbs.length := by omega
      rw [this] at hn
      simp [Net.mainPend, hn]
    simp only [Node.held] at h1
    omega
  · intro i hi ih mb hm
    obtain ⟨c, hc, hok⟩ := h.capAt hm
    obtain ⟨sub, hsub⟩ := hok.sub0
    obtain ⟨nd, hn⟩ : ∃ nd, s.nodes[i + 1]? = some nd := ⟨s.nodes[i + 1]'(by omega), List.getElem?_eq_getElem _⟩
    obtain ⟨out, ho⟩ : ∃ out, s.mbs[i + 1]? = some out := ⟨s.mbs[i + 1]'(by omega), List.getElem?_eq_getElem _⟩
    have h1 := h.stage i nd mb out sub c hn hm ho hsub hc
    have h2 := hok.backlog_sub (List.mem_of_getElem? hsub)
    have h3 := ih out ho
    rw [drop_sum_succ _ _ c hc]
    omega

theorem Inv.behind {w : Wiring} {s : Net} (h : Inv w s) :
    ∀ i, i < w.caps.length → ∀ mb, s.mbs[i]? = some mb → s.pulled ≤ mb.nSent := by
  have hlenM := h.lenM
  have hlenN := h.lenN
  apply down_induction
  · intro hpos mb hm
    obtain ⟨c, hc, hok⟩ := h.capAt hm
    obtain ⟨sub, hsub⟩ := hok.sub0
    obtain ⟨nd, hn⟩ : ∃ nd, s.nodes[w.caps.length - 1 + 1]? = some nd :=
      ⟨s.nodes[w.caps.length - 1 + 1]'(by omega), List.getElem?_eq_getElem _⟩
    have h1 := h.main (w.caps.length - 1) nd mb sub c (by omega) hn hm hsub hc
    have h2 := hok.nextLe sub (List.mem_of_getElem? hsub)
    omega
  · intro i hi ih mb hm
    obtain ⟨c, hc, hok⟩ := h.capAt hm
    obtain ⟨sub, hsub⟩ := hok.sub0
    obtain ⟨nd, hn⟩ : ∃ nd, s.nodes[i + 1]? = some nd := ⟨s.nodes[i + 1]'(by omega), List.getElem?_eq_getElem _⟩
    obtain ⟨out, ho⟩ : ∃ out, s.mbs[i + 1]? = some out := ⟨s.mbs[i + 1]'(by omega), List.getElem?_eq_getElem _⟩
    have h1 := h.stage i nd mb out sub c hn hm ho hsub hc
    have h2 := hok.nextLe sub (List.mem_of_getElem? hsub)
    have h3 := ih out ho
    omega

theorem mainPend_le_one (s : Net) : s.mainPend ≤ 1 := by
  unfold Net.mainPend; split
  · exact pend_le_one _
  · omega

/-- REST BOUND (all modes): the source is never more than `B w` messages ahead of the consumer — plus the one future the
consumer's reader may be holding -/
theorem Inv.bound {w : Wiring} {s : Net} (h : Inv w s) (hcap : ∀ c ∈ w.caps, 1 ≤ c) : s.emitted ≤ s.pulled + B w + s.mainPend := by
  have hlenM := h.lenM
  have hlenN := h.lenN
  have hpos := h.pos
  obtain ⟨mb, hm⟩ : ∃ mb, s.mbs[0]? = some mb := ⟨s.mbs[0]'(by omega), List.getElem?_eq_getElem _⟩
  obtain ⟨nd, hn⟩ : ∃ nd, s.nodes[0]? = some nd := ⟨s.nodes[0]'(by omega), List.getElem?_eq_getElem _⟩
  have h1 := (h.src nd mb hn hm).1
  have h2 := h.ahead hcap 0 hpos mb hm
  have := pend_le_one nd.pc
  simp only [List.drop_zero] at h2
  simp only [B]; omega

theorem Inv.pulled_le {w : Wiring} {s : Net} (h : Inv w s) : s.pulled ≤ s.emitted := by
  have hlenM := h.lenM
  have hlenN := h.lenN
  have hpos := h.pos
  obtain ⟨mb, hm⟩ : ∃ mb, s.mbs[0]? = some mb := ⟨s.mbs[0]'(by omega), List.getElem?_eq_getElem _⟩
  obtain ⟨nd, hn⟩ : ∃ nd, s.nodes[0]? = some nd := ⟨s.nodes[0]'(by omega), List.getElem?_eq_getElem _⟩
  have h1 := (h.src nd mb hn hm).1
  have h2 := h.behind 0 hpos mb hm
  omega

/-! ### steps of threads other than the consumer do not touch `pulled` -/

@[simp] theorem setMb_pulled (s : Net) (j : Nat) (mb : MB) : (s.setMb j mb).pulled = s.pulled := rfl
@[simp] theorem setNode_pulled (s : Net) (j : Nat) (nd : Node) : (s.setNode j nd).pulled = s.pulled := rfl
@[simp] theorem setMb_len (s : Net) (j : Nat) (mb : MB) : (s.setMb j mb).mbs.length = s.mbs.length := by simp [Net.setMb]
@[simp] theorem setNode_len (s : Net) (j : Nat) (nd : Node) : (s.setNode j nd).mbs.length = s.mbs.length := rfl
@[simp] theorem setMb_emitted (s : Net) (j : Nat) (mb : MB) : (s.setMb j mb).emitted = s.emitted := rfl
@[simp] theorem setNode_emitted (s : Net) (j : Nat) (nd : Node) : (s.setNode j nd).emitted = s.emitted := rfl

theorem pull_len {s s' : Net} {j : Nat} {b : List Msg} (h : s.pull j b = some s') : s'.mbs.length = s.mbs.length := by
  unfold Net.pull at h
  repeat' split at h
  all_goals first
    | (simp at h; done)
    | (simp only [Option.some.injEq] at h; subst h; simp; done)

theorem stepNode_len {s s' : Net} {j : Nat} (h : stepNode s j = some s') : s'.mbs.length = s.mbs.length := by
  unfold stepNode at h
  dsimp only at h
  repeat' split at h
  all_goals first
    | (simp at h; done)
    | (simp only [Option.some.injEq] at h; subst h; simp; done)
    | exact (pull_len h).trans (by simp)

theorem stepNode_pulled {s s' : Net} {j : Nat} (h : stepNode s j = some s') (hj : j ≠ s.mbs.length) : s'.pulled = s.pulled := by
  unfold stepNode at h
  dsimp only at h
  repeat' split at h
  all_goals first
    | (simp at h; done)
    | (simp only [Option.some.injEq] at h; subst h; simp; done)
    | omega

theorem stepSide_pulled {s s' : Net} {i : Nat} (h : stepSide s i = some s') : s'.pulled = s.pulled ∧ s'.mbs.length = s.mbs.length := by
  unfold stepSide at h
  repeat' split at h
  all_goals first
    | (simp at h; done)
    | (simp only [Option.some.injEq] at h; subst h; simp; done)

theorem step_len {s s' : Net} {t : Tid} (h : step s t = some s') : s'.mbs.length = s.mbs.length := by
  cases t with
  | node j => exact stepNode_len h
  | side i => exact (stepSide_pulled h).2
  | resolve id =>
    simp only [step, stepResolve] at h
    split at h
    · simp only [Option.some.injEq] at h; subst h; rfl
    · simp at h

theorem step_pulled {s s' : Net} {t : Tid} (h : step s t = some s') (ht : t ≠ s.main) : s'.pulled = s.pulled := by
  cases t with
  | node j => exact stepNode_pulled h (by intro hj; apply ht; simp [Net.main, hj])
  | side i => exact (stepSide_pulled h).1
  | resolve id =>
    simp only [step, stepResolve] at h
    split at h
    · simp only [Option.some.injEq] at h; subst h; rfl
    · simp at h

/-! ### well-formed wirings, schedules -/

/-- the wirings the theorems are about: at least one mailbox, every capacity at least 1 (decidable) -/
def WellFormed (w : Wiring) : Bool := !w.caps.isEmpty && w.caps.all (fun c => decide (1 ≤ c))

theorem wf_pos {w : Wiring} (h : WellFormed w = true) : 0 < w.caps.length := by
  simp only [WellFormed, Bool.and_eq_true, Bool.not_eq_true', List.isEmpty_eq_false_iff] at h
  exact List.length_pos_iff.mpr h.1

theorem wf_caps {w : Wiring} (h : WellFormed w = true) : ∀ c ∈ w.caps, 1 ≤ c := by
  simp only [WellFormed, Bool.and_eq_true, List.all_eq_true, decide_eq_true_eq] at h
  exact h.2

theorem reachable_run {w : Wiring} {n : Nat} {s : Net} (h : Reachable w n s) (σ : List Tid) :
    Reachable w n (Backpressure.run s σ) := by
  induction σ generalizing s with
  | nil => exact h
  | cons t ts ih =>
    simp only [Backpressure.run]
    split
    · rename_i s' hs; exact ih (h.step hs)
    · exact h

theorem run_pulled {s : Net} (σ : List Tid) (hσ : ∀ t ∈ σ, t ≠ s.main) : (Backpressure.run s σ).pulled = s.pulled := by
  induction σ generalizing s with
  | nil => rfl
  | cons t ts ih =>
    simp only [Backpressure.run]
    split
    · rename_i s' hs
      have hlen := step_len hs
      have hp := step_pulled hs (hσ t (by simp))
      rw [ih (s := s'), hp]
      intro u hu
      have := hσ u (by simp [hu])
      simpa [Net.main, hlen] using this
    · rfl

end Strax.Backpressure
