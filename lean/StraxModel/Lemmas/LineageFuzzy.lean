import StraxModel.Lemmas.LineageStep
/-
  Helper lemmas for theory T8 (property C02), part 7: options that are not tracked by the
  ancestors of a type, registry changes outside the ancestors, fuzzy matching, and "a context with
  fuzzy matching on never writes".
-/
namespace Strax.Lineage
open Strax

variable {K : Type} [DecidableEq K]
set_option linter.unusedSectionVars false

/-! ### registry changes outside the ancestors -/

theorem lineage_agree {r r' : Registry} {c : Config} {n : Nat} {d : String} {L : Lineage}
    (hr : ∀ a ∈ visited r n d, r'.lookup a = r.lookup a) (h : lineage r c n d = .ok L) :
    lineage r' c n d = .ok L := by
  induction n generalizing d L with
  | zero => simp [lineage_zero] at h
  | succ n ih =>
    obtain ⟨cls, pc, deps, h1, h2, h3, h4, h5⟩ := lineage_succ_ok.mp h
    have hd : r'.lookup d = some cls := by
      rw [hr d ((mem_visited_succ h1).mpr (Or.inl rfl))]; exact h1
    refine lineage_succ_ok.mpr ⟨cls, pc, deps, hd, h2, h3, ?_, h5⟩
    apply mapE_ok_of_forall _ h4
    intro x hx b hb
    exact ih (fun a ha => hr a ((mem_visited_succ h1).mpr (Or.inr ⟨x, hx, ha⟩))) hb

/-! ### options no ancestor tracks -/

theorem isTracked_false_of {cls : PluginClass} {o : String}
    (h : ∀ opt ∈ cls.options, opt.name = o → opt.track = false) : isTracked cls o = false := by
  unfold isTracked
  cases hf : cls.options.find? (·.name == o) with
  | none => rfl
  | some opt =>
    have h1 := List.find?_some hf
    exact h opt (List.mem_of_find?_eq_some hf) (by simpa using h1)

theorem keptChild_no_parent {cls : PluginClass} {k : String} (h : keptChild cls k = true) :
    ∀ o ∈ cls.options, o.parent ≠ some k := by
  intro o ho hp
  unfold keptChild at h
  have h1 := (Bool.and_eq_true_iff.mp h).1
  have : (cls.options.filterMap (·.parent)).contains k = true := by
    rw [List.contains_iff_mem]
    exact List.mem_filterMap.mpr ⟨o, ho, hp⟩
  rw [this] at h1
  simp at h1

/-- `p.config[k]` for a key that no child option overwrites -/
theorem pluginConfig_lookup {cls : PluginClass} {c pc : Config} {k : String} (h : pluginConfig cls c = .ok pc)
    (hk : cls.child = true → ∀ o ∈ cls.options, o.parent ≠ some k) :
    pc.lookup k = if isOpt cls k then (withDefaults cls.options c).lookup k else none := by
  rw [pluginConfig_eq] at h
  by_cases hc : cls.child = true
  · simp only [hc, if_true] at h
    rw [childOverwrite_untouched h (hk hc), lookup_filter_key]
  · simp only [hc, Bool.false_eq_true, if_false, Except.ok.injEq] at h
    rw [← h, lookup_filter_key]

theorem entryConfig_congr_off {cls : PluginClass} {c c' pc pc' : Config} {o : String}
    (hcc : ∀ k, k ≠ o → CfgEqAt c c' k) (hun : ∀ opt ∈ cls.options, opt.name = o → opt.track = false)
    (h : pluginConfig cls c = .ok pc) (h' : pluginConfig cls c' = .ok pc') :
    CfgEq (entryConfig cls pc) (entryConfig cls pc') := by
  apply entryConfig_congr_kept
  intro k hk
  have htr : isTracked cls k = true := by
    by_cases hc : cls.child = true
    · simp only [hc, if_true] at hk
      unfold keptChild at hk
      exact (Bool.and_eq_true_iff.mp hk).2
    · simpa [hc] using hk
  have hne : k ≠ o := by
    intro e; subst e
    rw [isTracked_false_of hun] at htr; simp at htr
  have hnp : cls.child = true → ∀ o ∈ cls.options, o.parent ≠ some k := by
    intro hc
    simp only [hc, if_true] at hk
    exact keptChild_no_parent hk
  unfold CfgEqAt
  rw [pluginConfig_lookup h hnp, pluginConfig_lookup h' hnp]
  split
  · exact withDefaults_congrAt (hcc k hne) _
  · rfl

theorem trackedPart_congr_off {r : Registry} {c c' : Config} (hc : NodupKeys c) (hc' : NodupKeys c') {o a : String}
    (hcc : ∀ k, k ≠ o → CfgEqAt c c' k)
    (h1 : (ownEntryOf r c a).isSome = true) (h2 : (ownEntryOf r c' a).isSome = true)
    (hun : ∀ cls, r.lookup a = some cls → ∀ opt ∈ cls.options, opt.name = o → opt.track = false) :
    (ownEntryOf r c a).map centry = (ownEntryOf r c' a).map centry := by
  unfold ownEntryOf at *
  cases hl : r.lookup a with
  | none => simp [hl] at h1
  | some cls =>
    simp only [hl] at h1 h2 ⊢
    cases hp : pluginConfig cls c with
    | error e => simp [hp] at h1
    | ok pc =>
      cases hp' : pluginConfig cls c' with
      | error e => simp [hp'] at h2
      | ok pc' =>
        simp only [Option.map_some]
        congr 1
        rw [centry_eq_iff (entryConfig_nodup cls (pluginConfig_nodup hc hp))
          (entryConfig_nodup cls (pluginConfig_nodup hc' hp'))]
        exact ⟨rfl, rfl, entryConfig_congr_off hcc (hun cls hl) hp hp'⟩

/-! ### a tracked option does show up in the lineage entry -/

theorem isOpt_of_isTracked {cls : PluginClass} {k : String} (h : isTracked cls k = true) : isOpt cls k = true := by
  unfold isTracked at h
  unfold isOpt
  cases hf : cls.options.find? (·.name == k) with
  | none => simp [hf] at h
  | some o =>
    rw [List.any_eq_true]
    have h1 := List.find?_some hf
    exact ⟨o, List.mem_of_find?_eq_some hf, by simpa using h1⟩

theorem lookup_foldl_dictSet_of_not_mem (bases : List (String × String)) (a : Config) {k : String}
    (hk : ∀ b ∈ bases, b.1 ≠ k) :
    (bases.foldl (fun acc b => dictSet acc b.1 (.str b.2)) a).lookup k = a.lookup k := by
  induction bases generalizing a with
  | nil => rfl
  | cons b bases ih =>
    simp only [List.foldl_cons]
    rw [ih _ (fun x hx => hk x (List.mem_cons_of_mem _ hx)), lookup_dictSet]
    have : k ≠ b.1 := fun e => hk b (List.mem_cons_self ..) e.symm
    simp [this]

/-- the `configs` dict of the lineage entry holds `p.config[k]` for every key that is kept -/
theorem entryConfig_lookup_kept {cls : PluginClass} {pc : Config} {k : String}
    (hk : (if cls.child then keptChild cls k else isTracked cls k) = true)
    (hb : cls.child = true → ∀ b ∈ cls.bases, b.1 ≠ k) :
    (entryConfig cls pc).lookup k = pc.lookup k := by
  rw [entryConfig_eq]
  by_cases hc : cls.child = true
  · simp only [hc, if_true] at hk ⊢
    rw [lookup_foldl_dictSet_of_not_mem _ _ (hb hc), lookup_filter_key, hk]; rfl
  · simp only [hc, Bool.false_eq_true, if_false] at hk ⊢
    rw [lookup_filter_key, hk]; rfl

/-- the value a tracked option has in the lineage entry: the context's, else the default -/
theorem entryConfig_tracked_value {cls : PluginClass} {c pc : Config} {o : String} (h : pluginConfig cls c = .ok pc)
    (hk : (if cls.child then keptChild cls o else isTracked cls o) = true)
    (hb : cls.child = true → ∀ b ∈ cls.bases, b.1 ≠ o) :
    (entryConfig cls pc).lookup o = (withDefaults cls.options c).lookup o := by
  have htr : isTracked cls o = true := by
    by_cases hc : cls.child = true
    · simp only [hc, if_true] at hk
      unfold keptChild at hk
      exact (Bool.and_eq_true_iff.mp hk).2
    · simpa [hc] using hk
  rw [entryConfig_lookup_kept hk hb, pluginConfig_lookup h (fun hc => by
    simp only [hc, if_true] at hk
    exact keptChild_no_parent hk), isOpt_of_isTracked htr]
  rfl

/-! ### the JSON round trip of stored metadata is invisible to `hashablize` -/

mutual
theorem canon_jsonRT : ∀ v : Val, canon (jsonRT v) = canon v
  | .int _ => rfl
  | .str _ => rfl
  | .seq t l => by
      simp only [jsonRT, canon, canonWith]
      have := canonList_jsonRT l
      simp only [canonList] at this
      rw [this]
  | .dict d => by
      simp only [jsonRT, canon, canonWith]
      have := canonPairs_jsonRT d
      simp only [canonPairs] at this
      rw [this]
  | .sset _ => rfl
  | .bool _ => rfl
  | .none => rfl
  | .float _ _ _ _ => rfl
theorem canonList_jsonRT : ∀ l : List Val, canonList (jsonRTList l) = canonList l
  | [] => rfl
  | v :: vs => by
      simp only [jsonRTList, canonList, canonListWith]
      have h1 := canon_jsonRT v
      have h2 := canonList_jsonRT vs
      simp only [canon, canonList] at h1 h2
      rw [h1, h2]
theorem canonPairs_jsonRT : ∀ d : List (String × Val), canonPairs (jsonRTPairs d) = canonPairs d
  | [] => rfl
  | (k, v) :: rest => by
      simp only [jsonRTPairs, canonPairs, canonPairsWith]
      have h1 := canon_jsonRT v
      have h2 := canonPairs_jsonRT rest
      simp only [canon, canonPairs] at h1 h2
      rw [h1, h2]
end

theorem jsonRTPairs_eq_map (d : List (String × Val)) : jsonRTPairs d = d.map fun kv => (kv.1, jsonRT kv.2) := by
  induction d with
  | nil => rfl
  | cons a d ih => obtain ⟨k, v⟩ := a; simp [jsonRTPairs, ih]

theorem cfgEq_jsonRTPairs (d : List (String × Val)) : CfgEq (jsonRTPairs d) d := by
  intro k
  unfold CfgEqAt
  rw [jsonRTPairs_eq_map, lookup_map_val, Option.map_map]
  cases d.lookup k with
  | none => rfl
  | some v => simp [canon_jsonRT]

theorem nodupKeys_jsonRTPairs {d : List (String × Val)} (h : NodupKeys d) : NodupKeys (jsonRTPairs d) := by
  unfold NodupKeys; rw [jsonRTPairs_eq_map, keys_map_val]; exact h

/-! ### fuzzy matching -/

/-- a lineage is a dict of entries whose configs are dicts -/
def LineageWF (L : Lineage) : Prop := NodupKeys L ∧ ∀ t e, L.lookup t = some e → NodupKeys e.config

def filterEntry (ffo : List String) (e : Entry) : Entry :=
  { e with config := e.config.filter fun kv => !ffo.contains kv.1 }

theorem filterLineage_eq (L : Lineage) (ff ffo : List String) :
    filterLineage L ff ffo = ((L.filter fun ke => !ff.contains ke.1).map fun ke => (ke.1, filterEntry ffo ke.2)) := rfl

theorem lookup_filterLineage (L : Lineage) (ff ffo : List String) (t : String) :
    (filterLineage L ff ffo).lookup t = if ff.contains t then none else (L.lookup t).map (filterEntry ffo) := by
  rw [filterLineage_eq, lookup_map_val, lookup_filter_key (fun k => !ff.contains k)]
  cases ff.contains t <;> simp

theorem nodupKeys_filterLineage {L : Lineage} (h : NodupKeys L) (ff ffo : List String) :
    NodupKeys (filterLineage L ff ffo) := by
  rw [filterLineage_eq]; unfold NodupKeys; rw [keys_map_val]; exact h.filter _

def storedEntry (e : Entry) : Entry := { e with config := jsonRTPairs e.config }

theorem storedLineage_eq (L : Lineage) : storedLineage L = L.map fun ke => (ke.1, storedEntry ke.2) := rfl

theorem lookup_storedLineage (L : Lineage) (t : String) :
    (storedLineage L).lookup t = (L.lookup t).map storedEntry := by
  rw [storedLineage_eq, lookup_map_val]

theorem nodupKeys_storedLineage {L : Lineage} (h : NodupKeys L) : NodupKeys (storedLineage L) := by
  rw [storedLineage_eq]; unfold NodupKeys; rw [keys_map_val]; exact h

theorem cfgEq_filter_iff {a b : Config} (ffo : List String) :
    CfgEq (a.filter fun kv => !ffo.contains kv.1) (b.filter fun kv => !ffo.contains kv.1) ↔
      ∀ o, o ∉ ffo → CfgEqAt a b o := by
  constructor
  · intro h o ho
    have := h o
    unfold CfgEqAt at this ⊢
    rw [lookup_filter_key (fun k => !ffo.contains k), lookup_filter_key (fun k => !ffo.contains k)] at this
    simpa [ho] using this
  · intro h o
    unfold CfgEqAt
    rw [lookup_filter_key (fun k => !ffo.contains k), lookup_filter_key (fun k => !ffo.contains k)]
    by_cases hm : o ∈ ffo
    · simp [hm]
    · simp [hm]; exact h o hm

theorem fuzzyMatches_iff {stored want : Lineage} {ff ffo : List String} (hs : LineageWF stored) (hw : LineageWF want) :
    fuzzyMatches .textEq stored want ff ffo = true ↔
      ∀ t, t ∉ ff →
        match stored.lookup t, want.lookup t with
        | none, none => True
        | some e, some e' => e.cls = e'.cls ∧ e.version = e'.version ∧ ∀ o, o ∉ ffo → CfgEqAt e.config e'.config o
        | _, _ => False := by
  simp only [fuzzyMatches, decide_eq_true_eq]
  rw [lineageCanon_eq_iff (nodupKeys_filterLineage (nodupKeys_storedLineage hs.1) ff ffo)
    (nodupKeys_filterLineage hw.1 ff ffo)]
  unfold LinEq
  constructor
  · intro h t ht
    have hc : ff.contains t = false := by simpa using ht
    have := h t
    rw [lookup_filterLineage, lookup_filterLineage, lookup_storedLineage, hc] at this
    simp only [Bool.false_eq_true, if_false, Option.map_map] at this
    cases h1 : stored.lookup t with
    | none =>
      cases h2 : want.lookup t with
      | none => trivial
      | some e' => simp [h1, h2] at this
    | some e =>
      cases h2 : want.lookup t with
      | none => simp [h1, h2] at this
      | some e' =>
        simp only [h1, h2, Option.map_some, Option.some.injEq, Function.comp] at this
        have n1 : NodupKeys e.config := hs.2 t e h1
        have n2 : NodupKeys e'.config := hw.2 t e' h2
        rw [centry_eq_iff (e := filterEntry ffo (storedEntry e)) (e' := filterEntry ffo e')
          ((nodupKeys_jsonRTPairs n1).filter _) (n2.filter _)] at this
        obtain ⟨a, b, c⟩ := this
        refine ⟨a, b, fun o ho => ?_⟩
        have := (cfgEq_filter_iff ffo).mp c o ho
        exact ((cfgEq_jsonRTPairs e.config) o).symm.trans this
  · intro h t
    rw [lookup_filterLineage, lookup_filterLineage, lookup_storedLineage]
    by_cases hc : ff.contains t = true
    · rw [hc]; rfl
    · have ht : t ∉ ff := by simpa using hc
      have := h t ht
      have hc' : ff.contains t = false := by simpa using hc
      rw [hc']
      simp only [Bool.false_eq_true, if_false, Option.map_map]
      cases h1 : stored.lookup t with
      | none =>
        cases h2 : want.lookup t with
        | none => rfl
        | some e' => simp [h1, h2] at this
      | some e =>
        cases h2 : want.lookup t with
        | none => simp [h1, h2] at this
        | some e' =>
          simp only [h1, h2] at this
          simp only [Option.map_some, Option.some.injEq, Function.comp]
          have n1 : NodupKeys e.config := hs.2 t e h1
          have n2 : NodupKeys e'.config := hw.2 t e' h2
          rw [centry_eq_iff (e := filterEntry ffo (storedEntry e)) (e' := filterEntry ffo e')
            ((nodupKeys_jsonRTPairs n1).filter _) (n2.filter _)]
          refine ⟨this.1, this.2.1, (cfgEq_filter_iff ffo).mpr fun o ho => ?_⟩
          exact ((cfgEq_jsonRTPairs e.config) o).trans (this.2.2 o ho)

/-! ### a context with fuzzy matching on never writes -/

theorem getCore_fuzzy_storage (rules : Rules) (H : String → K) (ctx : Ctx K) (s : List (Item K)) (d : String)
    (h : ctx.fuzzy = true) : (getCore rules H ctx s d).2.2 = s := by
  rw [getCore_eq]
  split
  · rfl
  · split
    · rename_i ff _ m hff _
      split
      · rfl
      · rename_i prov new hc
        have hfz : (ff.isEmpty && ctx.fuzzyOpts.isEmpty) = false := by
          rw [findOpts_isEmpty hff]
          unfold Ctx.fuzzy at h
          cases h1 : ctx.fuzzyFor.isEmpty <;> cases h2 : ctx.fuzzyOpts.isEmpty <;> simp [h1, h2] at h ⊢
        rw [components_fuzzy_new hfz _ _ _ _ hc]
        rfl
    · rfl
    · rfl

theorem stepCtx_fuzzy_storage (rules : Rules) (H : String → K) (ctx : Ctx K) (s : List (Item K)) (op : CtxOp)
    (h : ctx.fuzzy = true) : (stepCtx rules H ctx s op).2.2 = s := by
  cases op with
  | setConfig kvs => rfl
  | register cls => rfl
  | newContext => rfl
  | setFuzzy ff ffo => rfl
  | lineage d =>
    simp only [stepCtx]
    cases getPlugin ctx.registry ctx.config (contextHash rules H ctx.registry ctx.config) (fuelOf ctx.registry) d ctx.cache with
    | mk res cache => cases res <;> rfl
  | isStored d =>
    simp only [stepCtx]
    cases isStoredCore rules H ctx s d with
    | mk res cache => cases res <;> rfl
  | make d =>
    simp only [stepCtx]
    cases isStoredCore rules H ctx s d with
    | mk res cache =>
      cases res with
      | error e => rfl
      | ok b =>
        cases b with
        | true => rfl
        | false =>
          simp only
          have := getCore_fuzzy_storage rules H { ctx with cache := cache } s d h
          cases hg : getCore rules H { ctx with cache := cache } s d with
          | mk o rest =>
            obtain ⟨cache', s'⟩ := rest
            rw [hg] at this
            cases o <;> exact this
  | get d =>
    simp only [stepCtx]
    have := getCore_fuzzy_storage rules H ctx s d h
    cases hg : getCore rules H ctx s d with
    | mk o rest =>
      obtain ⟨cache', s'⟩ := rest
      rw [hg] at this
      exact this

end Strax.Lineage
