import StraxModel.Lemmas.ChunkAlgSplit
import StraxModel.Lemmas.ChunkAlgChunk
import StraxModel.Lemmas.ChunkAlgRechunk
import StraxModel.Lemmas.RunOrder
import StraxModel.Lemmas.SuperrunBad
import StraxModel.Lemmas.ChunkAlgRuns
import StraxModel.Lemmas.ChunkAlgPartial
import StraxModel.Lemmas.ChunkAlgShift
/-
  Helper lemmas for property C07 (laws of chunking).  Core Lean only.
  The lemmas live in ChunkAlgSplit (rows, scan, split_array), ChunkAlgChunk (Chunk.__init__,
  split, concatenate, merge), ChunkAlgRechunk (diff, get_splits, Rechunker) and ChunkAlgRuns
  (annotated chunks, merge totality).
-/
