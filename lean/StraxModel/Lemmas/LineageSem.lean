import StraxModel.Lemmas.Lineage
/-
  Helper lemmas for theory T8 (property C02), part 2: what a lineage depends on.
  Configs are compared the way `hashablize` sees them (`CfgEq`), lineages likewise (`LinEq`);
  every stage of `_set_plugin_config` / `__add_lineage_to_plugin` respects these relations.
-/
namespace Strax.Lineage
open Strax

/-! ### configs up to `hashablize` -/

/-- the two configs agree on key `k`: both lack it or their values hash alike -/
def CfgEqAt (c c' : List (String × Val)) (k : String) : Prop :=
  (c.lookup k).map canon = (c'.lookup k).map canon

/-- the two configs are the same as far as hashing can tell -/
def CfgEq (c c' : List (String × Val)) : Prop := ∀ k, CfgEqAt c c' k

theorem CfgEq.refl (c : List (String × Val)) : CfgEq c c := fun _ => rfl
theorem CfgEq.symm {c c' : List (String × Val)} (h : CfgEq c c') : CfgEq c' c := fun k => (h k).symm
theorem CfgEq.trans {a b c : List (String × Val)} (h : CfgEq a b) (h' : CfgEq b c) : CfgEq a c :=
  fun k => (h k).trans (h' k)

theorem CfgEqAt.isSome {c c' : List (String × Val)} {k : String} (h : CfgEqAt c c' k) :
    (c.lookup k).isSome = (c'.lookup k).isSome := by
  unfold CfgEqAt at h
  cases h1 : c.lookup k <;> cases h2 : c'.lookup k <;> simp [h1, h2] at h ⊢

theorem CfgEqAt.hasKey {c c' : List (String × Val)} {k : String} (h : CfgEqAt c c' k) :
    hasKey c k = hasKey c' k := by
  rw [hasKey_eq, hasKey_eq, h.isSome]

/-- permuting a dict changes nothing -/
theorem CfgEq.of_perm {c c' : List (String × Val)} (hp : c.Perm c') (hn : NodupKeys c) : CfgEq c c' := by
  intro k; unfold CfgEqAt; rw [lookup_perm hp hn k]

/-- `hashablize` of two dicts agrees iff they are `CfgEq` -/
theorem canon_dict_eq_iff_cfgEq {d₁ d₂ : List (String × Val)} (h1 : NodupKeys d₁) (h2 : NodupKeys d₂) :
    canon (.dict d₁) = canon (.dict d₂) ↔ CfgEq d₁ d₂ := canon_dict_eq_iff h1 h2

/-- exception-aware lifting of a relation -/
def RelE (R : α → β → Prop) : Except Err α → Except Err β → Prop
  | .ok a, .ok b => R a b
  | .error e, .error e' => e = e'
  | _, _ => False

/-! ### `withDefaults` -/

theorem withDefaults_cons (o : Opt) (opts : List Opt) (c : Config) :
    withDefaults (o :: opts) c = withDefaults opts
      (if hasKey c o.name then c else
        match o.default with
        | some v => c ++ [(o.name, v)]
        | none => c) := rfl

/-- the default `Option.validate` fills in for key `k` -/
def firstDefault : List Opt → String → Option Val
  | [], _ => none
  | o :: opts, k =>
    if o.name = k then
      match o.default with
      | some v => some v
      | none => firstDefault opts k
    else firstDefault opts k

theorem lookup_withDefaults (opts : List Opt) (c : Config) (k : String) :
    (withDefaults opts c).lookup k = match c.lookup k with
      | some v => some v
      | none => firstDefault opts k := by
  induction opts generalizing c with
  | nil => simp [withDefaults, firstDefault]; cases c.lookup k <;> rfl
  | cons o opts ih =>
    rw [withDefaults_cons, ih]
    by_cases hk : hasKey c o.name = true
    · simp only [hk, if_true]
      cases h : c.lookup k with
      | some v => rfl
      | none =>
        have : o.name ≠ k := by
          intro e; subst e
          rw [hasKey_eq, h] at hk; simp at hk
        simp [firstDefault, this]
    · simp only [hk]
      cases hd : o.default with
      | none =>
        have : firstDefault (o :: opts) k = firstDefault opts k := by simp [firstDefault, hd]
        rw [this]; simp
      | some v =>
        simp only [Bool.false_eq_true, if_false, lookup_append, lookup_cons', List.lookup_nil, firstDefault, hd]
        cases h : c.lookup k with
        | some w => rfl
        | none =>
          by_cases e : k = o.name
          · simp [e]
          · have e' : ¬ o.name = k := fun x => e x.symm
            simp [e, e']

theorem NodupKeys.withDefaults {c : Config} (hn : NodupKeys c) (opts : List Opt) : NodupKeys (withDefaults opts c) := by
  induction opts generalizing c with
  | nil => exact hn
  | cons o opts ih =>
    rw [withDefaults_cons]
    apply ih
    by_cases hk : hasKey c o.name = true
    · simp [hk, hn]
    · simp only [hk]
      cases hd : o.default with
      | none => simpa using hn
      | some v =>
        simp only [Bool.false_eq_true, if_false]
        unfold NodupKeys at *
        rw [keys_append, List.nodup_append]
        refine ⟨hn, by simp, ?_⟩
        intro a ha b hb
        simp at hb; subst hb
        intro e; subst e
        exact hk (hasKey_iff.mpr ha)

theorem withDefaults_congrAt {c c' : Config} {k : String} (h : CfgEqAt c c' k) (opts : List Opt) :
    CfgEqAt (withDefaults opts c) (withDefaults opts c') k := by
  unfold CfgEqAt at *
  rw [lookup_withDefaults, lookup_withDefaults]
  cases h1 : c.lookup k <;> cases h2 : c'.lookup k <;> simp [h1, h2] at h ⊢
  exact h

theorem filterKey_congrAt {c c' : Config} {k : String} (h : CfgEqAt c c' k) (p : String → Bool) :
    CfgEqAt (c.filter fun kv => p kv.1) (c'.filter fun kv => p kv.1) k := by
  unfold CfgEqAt at *
  rw [lookup_filter_key, lookup_filter_key]
  split <;> simp [h]

/-! ### child plugins -/

theorem childOverwrite_congr {full full' : Config} (hf : CfgEq full full') (opts : List Opt) {pc pc' : Config}
    (hp : CfgEq pc pc') : RelE CfgEq (childOverwrite full opts pc) (childOverwrite full' opts pc') := by
  induction opts generalizing pc pc' with
  | nil => exact hp
  | cons o opts ih =>
    unfold childOverwrite
    cases ho : o.parent with
    | none => exact ih hp
    | some pn =>
      have hk := hf o.name
      unfold CfgEqAt at hk
      cases h1 : full.lookup o.name <;> cases h2 : full'.lookup o.name <;> simp [h1, h2] at hk
      · simp [RelE]
      · rename_i v v'
        have hh := (hp pn).hasKey
        by_cases hpn : hasKey pc pn = true
        · have hpn' : hasKey pc' pn = true := hh ▸ hpn
          simp only [hpn, hpn', if_true]
          apply ih
          intro k
          unfold CfgEqAt
          rw [lookup_dictSet, lookup_dictSet]
          by_cases e : k = pn
          · simp [e, hk]
          · simp [e]; exact hp k
        · have hpn' : ¬ hasKey pc' pn = true := hh ▸ hpn
          simp [hpn, hpn', RelE]

theorem childOverwrite_untouched {full : Config} {opts : List Opt} {pc pc₁ : Config} {k : String}
    (h : childOverwrite full opts pc = .ok pc₁) (hk : ∀ o ∈ opts, o.parent ≠ some k) :
    pc₁.lookup k = pc.lookup k := by
  induction opts generalizing pc with
  | nil => simp [childOverwrite] at h; rw [h]
  | cons o opts ih =>
    unfold childOverwrite at h
    have hk' : ∀ o ∈ opts, o.parent ≠ some k := fun o ho => hk o (List.mem_cons_of_mem _ ho)
    cases ho : o.parent with
    | none => rw [ho] at h; exact ih h hk'
    | some pn =>
      rw [ho] at h
      cases h1 : full.lookup o.name with
      | none => simp [h1] at h
      | some v =>
        simp only [h1] at h
        by_cases hpn : hasKey pc pn = true
        · simp only [hpn, if_true] at h
          rw [ih h hk', lookup_dictSet]
          have : k ≠ pn := by
            intro e; subst e
            exact hk o (List.mem_cons_self ..) ho
          simp [this]
        · simp [hpn] at h

theorem childOverwrite_nodup {full : Config} {opts : List Opt} {pc pc₁ : Config}
    (h : childOverwrite full opts pc = .ok pc₁) (hn : NodupKeys pc) : NodupKeys pc₁ := by
  induction opts generalizing pc with
  | nil => simp [childOverwrite] at h; rw [← h]; exact hn
  | cons o opts ih =>
    unfold childOverwrite at h
    cases ho : o.parent with
    | none => rw [ho] at h; exact ih h hn
    | some pn =>
      rw [ho] at h
      cases h1 : full.lookup o.name with
      | none => simp [h1] at h
      | some v =>
        simp only [h1] at h
        by_cases hpn : hasKey pc pn = true
        · simp only [hpn, if_true] at h
          exact ih h (hn.dictSet pn v)
        · simp [hpn] at h

/-! ### `pluginConfig`, `entryConfig` -/

def isOpt (cls : PluginClass) (k : String) : Bool := cls.options.any (·.name == k)

theorem pluginConfig_eq (cls : PluginClass) (c : Config) :
    pluginConfig cls c =
      if cls.child then
        childOverwrite (withDefaults cls.options c) cls.options
          ((withDefaults cls.options c).filter fun kv => isOpt cls kv.1)
      else .ok ((withDefaults cls.options c).filter fun kv => isOpt cls kv.1) := rfl

theorem pluginConfig_congr (cls : PluginClass) {c c' : Config} (h : CfgEq c c') :
    RelE CfgEq (pluginConfig cls c) (pluginConfig cls c') := by
  have hf : CfgEq (withDefaults cls.options c) (withDefaults cls.options c') :=
    fun k => withDefaults_congrAt (h k) _
  have hp : CfgEq ((withDefaults cls.options c).filter fun kv => isOpt cls kv.1)
      ((withDefaults cls.options c').filter fun kv => isOpt cls kv.1) :=
    fun k => filterKey_congrAt (hf k) _
  rw [pluginConfig_eq, pluginConfig_eq]
  split
  · exact childOverwrite_congr hf _ hp
  · exact hp

theorem pluginConfig_nodup {cls : PluginClass} {c pc : Config} (hn : NodupKeys c)
    (h : pluginConfig cls c = .ok pc) : NodupKeys pc := by
  rw [pluginConfig_eq] at h
  have hp : NodupKeys ((withDefaults cls.options c).filter fun kv => isOpt cls kv.1) :=
    (hn.withDefaults _).filter _
  split at h
  · exact childOverwrite_nodup h hp
  · simp at h; rw [← h]; exact hp

theorem foldl_dictSet_congr (bases : List (String × String)) {a a' : Config} (h : CfgEq a a') :
    CfgEq (bases.foldl (fun acc b => dictSet acc b.1 (.str b.2)) a)
      (bases.foldl (fun acc b => dictSet acc b.1 (.str b.2)) a') := by
  induction bases generalizing a a' with
  | nil => exact h
  | cons b bases ih =>
    simp only [List.foldl_cons]
    apply ih
    intro k
    unfold CfgEqAt
    rw [lookup_dictSet, lookup_dictSet]
    by_cases e : k = b.1
    · simp [e]
    · simp [e]; exact h k

theorem foldl_dictSet_nodup (bases : List (String × String)) {a : Config} (h : NodupKeys a) :
    NodupKeys (bases.foldl (fun acc b => dictSet acc b.1 (.str b.2)) a) := by
  induction bases generalizing a with
  | nil => exact h
  | cons b bases ih => simp only [List.foldl_cons]; exact ih (h.dictSet _ _)

/-- the keys of `p.config` that go into a child plugin's lineage entry -/
def keptChild (cls : PluginClass) (k : String) : Bool :=
  !(cls.options.filterMap (·.parent)).contains k && isTracked cls k

theorem entryConfig_eq (cls : PluginClass) (pc : Config) :
    entryConfig cls pc =
      if cls.child then
        cls.bases.foldl (fun acc b => dictSet acc b.1 (.str b.2)) (pc.filter fun kv => keptChild cls kv.1)
      else pc.filter fun kv => isTracked cls kv.1 := rfl

theorem entryConfig_congr (cls : PluginClass) {pc pc' : Config} (h : CfgEq pc pc') :
    CfgEq (entryConfig cls pc) (entryConfig cls pc') := by
  rw [entryConfig_eq, entryConfig_eq]
  split
  · exact foldl_dictSet_congr _ fun k => filterKey_congrAt (h k) _
  · exact fun k => filterKey_congrAt (h k) _

theorem entryConfig_nodup (cls : PluginClass) {pc : Config} (h : NodupKeys pc) : NodupKeys (entryConfig cls pc) := by
  rw [entryConfig_eq]
  split
  · exact foldl_dictSet_nodup _ (h.filter _)
  · exact h.filter _

/-- agreement on the keys that are kept is enough -/
theorem entryConfig_congr_kept (cls : PluginClass) {pc pc' : Config}
    (h : ∀ k, (if cls.child then keptChild cls k else isTracked cls k) = true → CfgEqAt pc pc' k) :
    CfgEq (entryConfig cls pc) (entryConfig cls pc') := by
  rw [entryConfig_eq, entryConfig_eq]
  by_cases hc : cls.child = true
  · simp only [hc, if_true] at h ⊢
    apply foldl_dictSet_congr
    intro k
    unfold CfgEqAt
    rw [lookup_filter_key, lookup_filter_key]
    by_cases hk : keptChild cls k = true
    · simp [hk]; exact h k hk
    · simp [hk]
  · simp only [hc, Bool.false_eq_true, if_false] at h ⊢
    intro k
    unfold CfgEqAt
    rw [lookup_filter_key, lookup_filter_key]
    by_cases hk : isTracked cls k = true
    · simp [hk]; exact h k (by simpa using hk)
    · simp [hk]

/-! ### lineages up to `hashablize` -/

/-- what `hashablize` makes of one lineage entry -/
def centry (e : Entry) : Canon := canon (entryVal e)

theorem centry_eq (e : Entry) : centry e = .list [.str e.cls, .str e.version, canon (.dict e.config)] := by
  simp [centry, entryVal, canon, canonWith, canonListWith]

/-- two lineages have the same entries as far as hashing can tell -/
def LinEq (L L' : Lineage) : Prop := ∀ a, (L.lookup a).map centry = (L'.lookup a).map centry

theorem LinEq.refl (L : Lineage) : LinEq L L := fun _ => rfl
theorem LinEq.symm {L L' : Lineage} (h : LinEq L L') : LinEq L' L := fun a => (h a).symm
theorem LinEq.trans {A B C : Lineage} (h : LinEq A B) (h' : LinEq B C) : LinEq A C :=
  fun a => (h a).trans (h' a)

theorem lineageCanon_eq_iff {L L' : Lineage} (h : NodupKeys L) (h' : NodupKeys L') :
    lineageCanon L = lineageCanon L' ↔ LinEq L L' := by
  unfold lineageCanon Lineage.toVal
  rw [canon_dict_eq_iff]
  · constructor
    · intro hh a
      have := hh a
      rw [lookup_map_val, lookup_map_val, Option.map_map, Option.map_map] at this
      exact this
    · intro hh a
      rw [lookup_map_val, lookup_map_val, Option.map_map, Option.map_map]
      exact hh a
  · unfold NodupKeys; rw [keys_map_val]; exact h
  · unfold NodupKeys; rw [keys_map_val]; exact h'

theorem centry_eq_iff {e e' : Entry} (h : NodupKeys e.config) (h' : NodupKeys e'.config) :
    centry e = centry e' ↔ e.cls = e'.cls ∧ e.version = e'.version ∧ CfgEq e.config e'.config := by
  rw [centry_eq, centry_eq, ← canon_dict_eq_iff_cfgEq h h']
  constructor
  · intro hh
    injection hh with hh
    simp at hh
    exact hh
  · rintro ⟨a, b, c⟩
    rw [a, b, c]

theorem ownEntry_linEq (cls : PluginClass) {pc pc' : Config} (h : CfgEq pc pc') (hn : NodupKeys pc)
    (hn' : NodupKeys pc') : LinEq (ownEntry cls pc) (ownEntry cls pc') := by
  intro a
  unfold ownEntry
  simp only [lookup_cons', List.lookup_nil]
  by_cases e : a = cls.provides
  · simp only [e, if_true, Option.map_some]
    congr 1
    rw [centry_eq_iff (entryConfig_nodup cls hn) (entryConfig_nodup cls hn')]
    exact ⟨rfl, rfl, entryConfig_congr cls h⟩
  · simp [e]

theorem ownEntry_nodup (cls : PluginClass) (pc : Config) : NodupKeys (ownEntry cls pc) := by
  simp [ownEntry, NodupKeys]

theorem mergeLineage_cons (own d : Lineage) (ds : List Lineage) :
    mergeLineage own (d :: ds) = mergeLineage (dictUpdate own d) ds := rfl

theorem mergeLineage_nodup {own : Lineage} (h : NodupKeys own) (deps : List Lineage) :
    NodupKeys (mergeLineage own deps) := by
  induction deps generalizing own with
  | nil => exact h
  | cons d ds ih => rw [mergeLineage_cons]; exact ih (h.dictUpdate d)

theorem dictUpdate_linEq {a a' b b' : Lineage} (ha : LinEq a a') (hb : LinEq b b') (nb : NodupKeys b)
    (nb' : NodupKeys b') : LinEq (dictUpdate a b) (dictUpdate a' b') := by
  intro k
  rw [lookup_dictUpdate _ _ nb, lookup_dictUpdate _ _ nb']
  have h1 := hb k
  have h2 := ha k
  cases e1 : b.lookup k <;> cases e2 : b'.lookup k <;> simp [e1, e2] at h1 ⊢
  · exact h2
  · exact h1

/-- dependencies related pairwise, each a dict -/
def DepsEq : List Lineage → List Lineage → Prop
  | [], [] => True
  | d :: ds, d' :: ds' => (LinEq d d' ∧ NodupKeys d ∧ NodupKeys d') ∧ DepsEq ds ds'
  | _, _ => False

theorem mergeLineage_congr {own own' : Lineage} (h : LinEq own own') {deps deps' : List Lineage}
    (hd : DepsEq deps deps') : LinEq (mergeLineage own deps) (mergeLineage own' deps') := by
  induction deps generalizing own own' deps' with
  | nil =>
    cases deps' with
    | nil => exact h
    | cons _ _ => simp [DepsEq] at hd
  | cons d ds ih =>
    cases deps' with
    | nil => simp [DepsEq] at hd
    | cons d' ds' =>
      simp only [DepsEq] at hd
      rw [mergeLineage_cons, mergeLineage_cons]
      exact ih (dictUpdate_linEq h hd.1.1 hd.1.2.1 hd.1.2.2) hd.2

end Strax.Lineage
