import StraxModel.Lemmas.LineageCtx
/-
  Helper lemmas for theory T8 (property C02), part 5: the context / storage invariant of the state
  machine under the rules of the code as it is now (`Rules.fixed`), and what `components`
  (load-or-compute) returns under that invariant.
-/
namespace Strax.Lineage
open Strax

variable {K : Type} [DecidableEq K]
set_option linter.unusedSectionVars false

/-- the assumption about SHA-1 ∘ JSON printing: different canonical forms get different hashes -/
def HashInj (H : String → K) : Prop := ∀ c c' : Canon, H (canonString c) = H (canonString c') → c = c'

theorem contextHash_cfgEq {H : String → K} (hH : HashInj H) {r r' : Registry} {c c' : Config}
    (hn : NodupKeys c) (hn' : NodupKeys c')
    (h : contextHash Rules.fixed H r c = contextHash Rules.fixed H r' c') : CfgEq c c' := by
  have h1 := hH _ _ h
  simp only [contextHashInput, Rules.fixed, if_true, canon, canonWith, canonListWith] at h1
  injection h1 with h1
  simp only [List.cons.injEq] at h1
  exact (canon_dict_eq_iff_cfgEq hn hn').mp h1.1

theorem keyOf_linEq {H : String → K} (hH : HashInj H) {L L' : Lineage} (hn : NodupKeys L) (hn' : NodupKeys L')
    (h : keyOf H L = keyOf H L') : LinEq L L' :=
  (lineageCanon_eq_iff hn hn').mp (hH _ _ h)

theorem keyOf_eq_of_linEq {H : String → K} {L L' : Lineage} (hn : NodupKeys L) (hn' : NodupKeys L')
    (h : LinEq L L') : keyOf H L = keyOf H L' := by
  unfold keyOf; rw [(lineageCanon_eq_iff hn hn').mpr h]

/-! ### invariants -/

/-- a directory entry is filed under the hash of its lineage and holds rows computed from
exactly that lineage -/
def ItemOK (H : String → K) (it : Item K) : Prop :=
  it.key = keyOf H it.lineage ∧ LinEq it.prov it.lineage ∧ NodupKeys it.lineage ∧ NodupKeys it.prov

def StorageInv (H : String → K) (s : List (Item K)) : Prop := ∀ it ∈ s, ItemOK H it

/-- the config is a dict, and the plugin cache was good for some settings with the hash it is
filed under and the registry as it is now -/
def CtxInv (H : String → K) (ctx : Ctx K) : Prop :=
  ctx.registry.WF ∧ NodupKeys ctx.config ∧
  ∀ h m, ctx.cache = some (h, m) →
    ∃ r₀ c₀, h = contextHash Rules.fixed H r₀ c₀ ∧ NodupKeys c₀ ∧ GoodMap ctx.registry c₀ m

theorem goodMap_congr_cfg {r : Registry} {c₀ c : Config} {m : CacheMap} (hc : CfgEq c₀ c) (hn₀ : NodupKeys c₀)
    (hn : NodupKeys c) (hm : GoodMap r c₀ m) : GoodMap r c m := by
  intro d inst hl
  obtain ⟨a, ⟨n, L, hL, hlin⟩, b, cc⟩ := hm d inst hl
  obtain ⟨L', hL', hlin'⟩ := lineage_congr_cfg hc hn₀ hn hL
  exact ⟨a, ⟨n, L', hL', hlin.trans hlin'⟩, b, cc⟩

theorem goodMap_ext {r r' : Registry} {c : Config} {m : CacheMap} (hr : r.Extends r') (hm : GoodMap r c m) :
    GoodMap r' c m := by
  intro d inst hl
  obtain ⟨a, ⟨n, L, hL, hlin⟩, b, cc⟩ := hm d inst hl
  exact ⟨hr _ _ a, ⟨n, L, lineage_ext hr hL, hlin⟩, b, cc⟩

theorem CtxInv.goodCache {H : String → K} (hH : HashInj H) {ctx : Ctx K} (hi : CtxInv H ctx) :
    GoodCache ctx.registry ctx.config (contextHash Rules.fixed H ctx.registry ctx.config) ctx.cache := by
  intro m hm
  obtain ⟨r₀, c₀, hh, hn₀, hg⟩ := hi.2.2 _ m hm
  exact goodMap_congr_cfg (contextHash_cfgEq hH hn₀ hi.2.1 hh.symm) hn₀ hi.2.1 hg

theorem CtxInv.of_cacheStep {H : String → K} {ctx : Ctx K} (hi : CtxInv H ctx) {cache' : Cache K}
    (hs : CacheStep ctx.registry ctx.config (contextHash Rules.fixed H ctx.registry ctx.config) ctx.cache cache') :
    CtxInv H { ctx with cache := cache' } := by
  refine ⟨hi.1, hi.2.1, ?_⟩
  intro h m hm
  simp only at hm
  rcases hs.shape with e | ⟨m', e⟩
  · rw [e] at hm; exact hi.2.2 h m hm
  · rw [e] at hm
    cases hm
    exact ⟨ctx.registry, ctx.config, rfl, hi.2.1, hs.good m e⟩

/-! ### registry updates -/

theorem Registry.set_eq (r : Registry) (cls : PluginClass) :
    r.set cls =
      if (r.filter fun c => c == cls || !c.overlaps cls).contains cls then r.filter fun c => c == cls || !c.overlaps cls
      else (r.filter fun c => c == cls || !c.overlaps cls) ++ [cls] := rfl

/-- `register` keeps the outputs of the registered classes pairwise disjoint -/
theorem Registry.set_wf {r : Registry} (hw : r.WF) (cls : PluginClass) : (r.set cls).WF := by
  have hk : Registry.WF (r.filter fun c => c == cls || !c.overlaps cls) := by
    unfold Registry.WF at *
    exact hw.sublist List.filter_sublist
  rw [Registry.set_eq]
  split
  · exact hk
  · rename_i hc
    unfold Registry.WF at *
    rw [List.pairwise_append]
    refine ⟨hk, by simp, ?_⟩
    intro a ha b hb
    simp at hb; subst hb
    have hf := (List.mem_filter.mp ha).2
    rcases Bool.or_eq_true_iff.mp hf with e | e
    · have : a = b := by simpa using e
      subst this
      exact absurd (List.contains_iff_mem.mpr ha) hc
    · simpa using e

/-- when `register` replaces nothing, everything that was registered stays registered -/
theorem Registry.extends_set {r : Registry} {cls : PluginClass} (h : r.replaces cls = false) :
    r.Extends (r.set cls) := by
  have hk : (r.filter fun c => c == cls || !c.overlaps cls) = r := by
    apply List.filter_eq_self.mpr
    intro c hc
    unfold Registry.replaces at h
    have := (List.any_eq_false.mp h) c hc
    simp only [Bool.and_eq_true, bne_iff_ne, ne_eq, not_and, Bool.not_eq_true] at this
    by_cases e : c = cls
    · simp [e]
    · simp [this e]
  intro x c hx
  rw [Registry.set_eq, hk]
  split
  · exact hx
  · unfold Registry.lookup at *
    rw [List.find?_append, hx]
    rfl

/-- `register(cls)` does not touch the registration of a data type that `cls` does not provide and
whose class shares no output with `cls` -/
theorem Registry.lookup_set_other {r : Registry} {cls : PluginClass} {x : String} (hx : cls.makes x = false)
    (hc : ∀ c, r.lookup x = some c → c.overlaps cls = false ∨ c = cls) : (r.set cls).lookup x = r.lookup x := by
  have hk : Registry.lookup (r.filter fun c => c == cls || !c.overlaps cls) x = r.lookup x := by
    unfold Registry.lookup at hc ⊢
    induction r with
    | nil => rfl
    | cons a r ih =>
      rw [List.find?_cons] at hc ⊢
      by_cases ha : a.makes x = true
      · simp only [ha] at hc ⊢
        have hp : (a == cls || !a.overlaps cls) = true := by
          rcases hc a rfl with e | e
          · simp [e]
          · simp [e]
        rw [List.filter_cons, hp]
        simp only [if_true, List.find?_cons, ha]
      · have ha' : a.makes x = false := by simpa using ha
        simp only [ha'] at hc ⊢
        rw [List.filter_cons]
        split
        · rw [List.find?_cons, ha']; exact ih hc
        · exact ih hc
  rw [Registry.set_eq]
  split
  · exact hk
  · unfold Registry.lookup at hk ⊢
    rw [List.find?_append, hk]
    cases r.find? (·.makes x) with
    | some c => rfl
    | none => simp [hx]

/-! ### `findItem`, `findOpts`, `addItems` -/

theorem findItem_exact {rules : Rules} {H : String → K} {s : List (Item K)} {d : String} {want : Lineage}
    {it : Item K} (h : findItem rules H s d want [] [] = some it) :
    it ∈ s ∧ it.dataType = d ∧ it.key = keyOf H want := by
  unfold findItem at h
  cases hf : s.find? (fun it => it.dataType == d && decide (it.key = keyOf H want)) with
  | none => simp [hf] at h
  | some it' =>
    simp [hf] at h
    subst h
    have := List.find?_some hf
    simp at this
    exact ⟨List.mem_of_find?_eq_some hf, this.1, this.2⟩

theorem findItem_empty (rules : Rules) (H : String → K) (d : String) (want : Lineage) (ff ffo : List String) :
    findItem rules H ([] : List (Item K)) d want ff ffo = none := by
  unfold findItem
  simp

theorem findOpts_isEmpty {r : Registry} {ff l : List String} (h : findOpts r ff = .ok l) :
    l.isEmpty = ff.isEmpty := by
  cases ff with
  | nil => simp [findOpts] at h; subst h; rfl
  | cons k ks =>
    unfold findOpts at h
    cases h1 : r.lookup k with
    | none => simp [h1] at h
    | some cls =>
      cases h2 : findOpts r ks with
      | error e => simp [h1, h2] at h
      | ok rest => simp [h1, h2] at h; subst h; rfl

theorem findOpts_nil (r : Registry) : findOpts r [] = .ok [] := rfl

theorem addItems_inv {H : String → K} {s new : List (Item K)} (hs : StorageInv H s)
    (hn : ∀ it ∈ new, ItemOK H it) : StorageInv H (addItems s new) := by
  induction new generalizing s with
  | nil => exact hs
  | cons it rest ih =>
    unfold addItems
    have hr : ∀ it ∈ rest, ItemOK H it := fun x hx => hn x (List.mem_cons_of_mem _ hx)
    split
    · exact ih hs hr
    · apply ih _ hr
      intro x hx
      rcases List.mem_append.mp hx with e | e
      · exact hs x e
      · simp at e; subst e; exact hn _ (List.mem_cons_self ..)

theorem addItems_nil (s : List (Item K)) : addItems s [] = s := rfl

/-! ### `components` -/

theorem components_zero (rules : Rules) (H : String → K) (m : CacheMap) (cfg : Config) (s : List (Item K))
    (ff ffo : List String) (d : String) : components rules H m cfg s ff ffo 0 d = .error .runtimeError := rfl

theorem components_succ (rules : Rules) (H : String → K) (m : CacheMap) (cfg : Config) (s : List (Item K))
    (ff ffo : List String) (n : Nat) (d : String) :
    components rules H m cfg s ff ffo (n + 1) d =
      match m.lookup d with
      | none => .error .other
      | some inst =>
        match findItem rules H s d inst.lineage ff ffo with
        | some it => .ok (it.prov, [])
        | none =>
          match mapE (components rules H m cfg s ff ffo n) inst.cls.dependsOn with
          | .error e => .error e
          | .ok deps =>
            if missingOption inst.cls cfg then .error .other else
            match pluginConfig inst.cls cfg with
            | .error e => .error e
            | .ok pc =>
              .ok (mergeLineage (ownEntry inst.cls pc) (deps.map (·.1)),
                (deps.map (·.2)).flatten ++
                  (if ff.isEmpty && ffo.isEmpty then
                    inst.cls.outputs.map fun o =>
                      ⟨o, keyOf H inst.lineage, inst.lineage, mergeLineage (ownEntry inst.cls pc) (deps.map (·.1))⟩
                   else [])) := rfl

/-- the outcomes of `components (n+1) d` -/
theorem components_succ_ok {rules : Rules} {H : String → K} {m : CacheMap} {cfg : Config} {s : List (Item K)}
    {ff ffo : List String} {n : Nat} {d : String} {prov : Lineage} {new : List (Item K)}
    (h : components rules H m cfg s ff ffo (n + 1) d = .ok (prov, new)) :
    ∃ inst, m.lookup d = some inst ∧
      ((∃ it, findItem rules H s d inst.lineage ff ffo = some it ∧ prov = it.prov ∧ new = []) ∨
       (findItem rules H s d inst.lineage ff ffo = none ∧
        ∃ deps pc, mapE (components rules H m cfg s ff ffo n) inst.cls.dependsOn = .ok deps ∧
          missingOption inst.cls cfg = false ∧ pluginConfig inst.cls cfg = .ok pc ∧
          prov = mergeLineage (ownEntry inst.cls pc) (deps.map (·.1)) ∧
          new = (deps.map (·.2)).flatten ++
            (if ff.isEmpty && ffo.isEmpty then
              inst.cls.outputs.map fun o => (⟨o, keyOf H inst.lineage, inst.lineage, prov⟩ : Item K) else []))) := by
  rw [components_succ] at h
  split at h
  · simp at h
  · rename_i inst hl
    refine ⟨inst, hl, ?_⟩
    split at h
    · rename_i it hf
      have h' := Prod.mk.inj (Except.ok.inj h)
      exact Or.inl ⟨it, hf, h'.1.symm, h'.2.symm⟩
    · rename_i hf
      right
      refine ⟨hf, ?_⟩
      split at h
      · simp at h
      · rename_i deps hd
        split at h
        · simp at h
        · rename_i hmiss
          split at h
          · simp at h
          · rename_i pc hpc
            have h' := Prod.mk.inj (Except.ok.inj h)
            refine ⟨deps, pc, hd, by simpa using hmiss, hpc, h'.1.symm, ?_⟩
            rw [← h'.2, ← h'.1]

/-- two `mapE`s over the same dependency list, related result by result -/
theorem mapE_depsEq2 {α : Type} {f : String → Except Err (Lineage × α)} {g : String → Except Err Lineage}
    {l : List String} {as : List (Lineage × α)} {bs : List Lineage}
    (hf : mapE f l = .ok as) (hg : mapE g l = .ok bs)
    (h : ∀ x ∈ l, ∀ a b, f x = .ok a → g x = .ok b → LinEq a.1 b ∧ NodupKeys a.1 ∧ NodupKeys b) :
    DepsEq (as.map (·.1)) bs := by
  induction l generalizing as bs with
  | nil => simp [mapE] at hf hg; subst hf; subst hg; simp [DepsEq]
  | cons x l ih =>
    obtain ⟨a, as', h1, h2, e⟩ := mapE_cons_ok.mp hf
    obtain ⟨b, bs', g1, g2, e'⟩ := mapE_cons_ok.mp hg
    subst e; subst e'
    simp only [List.map_cons, DepsEq]
    exact ⟨h x (List.mem_cons_self ..) a b h1 g1, ih h2 g2 fun y hy => h y (List.mem_cons_of_mem _ hy)⟩

/-- what `components` returns was computed from the lineage a cache-less context computes for the
current settings, and everything it saves is filed correctly (exact matching) -/
theorem components_sound {H : String → K} (hH : HashInj H) {r : Registry} {c : Config} {m : CacheMap}
    {s : List (Item K)} (hm : GoodMap r c m) (hs : StorageInv H s) (n : Nat) (d : String) (prov : Lineage)
    (new : List (Item K)) (h : components Rules.fixed H m c s [] [] n d = .ok (prov, new)) :
    (∃ n' L, lineage r c n' d = .ok L ∧ LinEq prov L) ∧ NodupKeys prov ∧ ∀ it ∈ new, ItemOK H it := by
  induction n generalizing d prov new with
  | zero => simp [components_zero] at h
  | succ n ih =>
    obtain ⟨inst, hl, hcase⟩ := components_succ_ok h
    obtain ⟨hreg, ⟨n₀, L₀, hL₀, hlin₀⟩, hnod, _⟩ := hm d inst hl
    rcases hcase with ⟨it, hf, hp, hnew⟩ | ⟨_, deps, pc, hd, _, hpc, hp, hnew⟩
    · obtain ⟨hmem, _, hkey⟩ := findItem_exact hf
      obtain ⟨k1, k2, k3, k4⟩ := hs it hmem
      have : LinEq it.lineage inst.lineage := keyOf_linEq hH k3 hnod (k1.symm.trans hkey)
      subst hp; subst hnew
      exact ⟨⟨n₀, L₀, hL₀, (k2.trans this).trans hlin₀⟩, k4, by simp⟩
    · -- computed
      cases n₀ with
      | zero => simp [lineage_zero] at hL₀
      | succ k =>
        obtain ⟨cls', pc', depsPure, e1, _, e3, e4, e5⟩ := lineage_succ_ok.mp hL₀
        rw [hreg] at e1; cases e1
        rw [hpc] at e3; cases e3
        have hde : DepsEq (deps.map (·.1)) depsPure := by
          apply mapE_depsEq2 hd e4
          intro x _ a b ha hb
          obtain ⟨⟨n', L, hL, hlin⟩, hn, _⟩ := ih x a.1 a.2 ha
          have := lineage_det hL hb
          subst this
          exact ⟨hlin, hn, lineage_nodupKeys hb⟩
        have hprov : LinEq prov L₀ := by
          rw [hp, e5]; exact mergeLineage_congr (LinEq.refl _) hde
        have hpn : NodupKeys prov := by rw [hp]; exact mergeLineage_nodup (ownEntry_nodup _ _) _
        refine ⟨⟨_, L₀, hL₀, hprov⟩, hpn, ?_⟩
        intro it hit
        rw [hnew] at hit
        rcases List.mem_append.mp hit with e | e
        · obtain ⟨l, hl', hil⟩ := List.mem_flatten.mp e
          obtain ⟨res, hres, rfl⟩ := List.mem_map.mp hl'
          obtain ⟨x, _, hx⟩ := mapE_ok_mem' hd res hres
          exact (ih x res.1 res.2 hx).2.2 it hil
        · simp at e
          obtain ⟨o, _, rfl⟩ := e
          exact ⟨rfl, hprov.trans hlin₀.symm, hnod, hpn⟩

/-- whatever a brand-new context (empty directory) manages to compute, a context with any good
cache and any directory manages too -/
theorem components_complete {H : String → K} {r : Registry} {c : Config} {m₁ m₂ : CacheMap} {s : List (Item K)}
    (h1 : GoodMap r c m₁) (h2 : GoodMap r c m₂) (n : Nat) (d : String) (res : Lineage × List (Item K))
    (h : components Rules.fixed H m₁ c ([] : List (Item K)) [] [] n d = .ok res)
    (hd : (m₂.lookup d).isSome = true) :
    ∃ res', components Rules.fixed H m₂ c s [] [] n d = .ok res' := by
  induction n generalizing d res with
  | zero => simp [components_zero] at h
  | succ n ih =>
    obtain ⟨prov, new⟩ := res
    obtain ⟨i₁, hl₁, hcase⟩ := components_succ_ok h
    cases hl₂ : m₂.lookup d with
    | none => simp [hl₂] at hd
    | some i₂ =>
      have hc1 := (h1 d i₁ hl₁).1
      obtain ⟨hc2, _, _, hclosed⟩ := h2 d i₂ hl₂
      have hcls : i₁.cls = i₂.cls := by rw [hc1] at hc2; exact Option.some.inj hc2
      rcases hcase with ⟨it, hf, _, _⟩ | ⟨_, deps, pc, hdeps, hmiss, hpc, _, _⟩
      · rw [findItem_empty] at hf; simp at hf
      · rw [components_succ, hl₂]
        simp only
        cases findItem Rules.fixed H s d i₂.lineage [] [] with
        | some it => exact ⟨_, rfl⟩
        | none =>
          simp only
          have : ∃ deps', mapE (components Rules.fixed H m₂ c s [] [] n) i₂.cls.dependsOn = .ok deps' := by
            apply mapE_isOk_of_forall
            intro x hx
            rw [← hcls] at hx
            obtain ⟨b, hb, _⟩ := mapE_ok_mem hdeps x hx
            exact ih x b hb (hclosed x (hcls ▸ hx))
          obtain ⟨deps', hd'⟩ := this
          rw [hd', ← hcls, hmiss, hpc]
          exact ⟨_, rfl⟩

/-- under fuzzy matching `components` has nothing to save -/
theorem components_fuzzy_new {rules : Rules} {H : String → K} {m : CacheMap} {cfg : Config} {s : List (Item K)}
    {ff ffo : List String} (hfz : (ff.isEmpty && ffo.isEmpty) = false) (n : Nat) (d : String) (prov : Lineage)
    (new : List (Item K)) (h : components rules H m cfg s ff ffo n d = .ok (prov, new)) : new = [] := by
  induction n generalizing d prov new with
  | zero => simp [components_zero] at h
  | succ n ih =>
    obtain ⟨inst, _, hcase⟩ := components_succ_ok h
    rcases hcase with ⟨_, _, _, hnew⟩ | ⟨_, deps, pc, hd, _, _, _, hnew⟩
    · exact hnew
    · rw [hnew, hfz]
      simp only [Bool.false_eq_true, if_false, List.append_nil, List.flatten_eq_nil_iff, List.mem_map]
      rintro l ⟨res, hres, rfl⟩
      obtain ⟨x, _, hx⟩ := mapE_ok_mem' hd res hres
      exact ih x res.1 res.2 hx

end Strax.Lineage
