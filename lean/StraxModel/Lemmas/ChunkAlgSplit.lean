import StraxModel.Model.Rechunk
/-
  Helper lemmas for property C07 (laws of chunking), part 1: rows, `scan`, `split_array`.
  Core Lean only.
-/
namespace Strax

/-! ### basic list / row facts -/

instance instDecEqExcept {ε α} [DecidableEq ε] [DecidableEq α] : DecidableEq (Except ε α)
  | .ok a, .ok b => if h : a = b then isTrue (by rw [h]) else isFalse (by intro h'; cases h'; exact h rfl)
  | .error a, .error b => if h : a = b then isTrue (by rw [h]) else isFalse (by intro h'; cases h'; exact h rfl)
  | .ok _, .error _ => isFalse (by intro h; cases h)
  | .error _, .ok _ => isFalse (by intro h; cases h)

theorem sortedByTimeB_iff (l : List Row) : sortedByTimeB l = true ↔ SortedByTime l := by
  induction l with
  | nil => simp [sortedByTimeB, SortedByTime]
  | cons a t ih =>
    cases t with
    | nil => simp [sortedByTimeB, SortedByTime]
    | cons b r => simp [sortedByTimeB, SortedByTime, ih]

theorem positiveRowsB_iff (l : List Row) : positiveRowsB l = true ↔ PositiveRows l := by
  simp [positiveRowsB, PositiveRows]

instance (l : List Row) : Decidable (SortedByTime l) := decidable_of_iff _ (sortedByTimeB_iff l)
instance (l : List Row) : Decidable (PositiveRows l) := decidable_of_iff _ (positiveRowsB_iff l)

theorem SortedByTime.tail {a : Row} {l : List Row} (h : SortedByTime (a :: l)) : SortedByTime l := by
  cases l with
  | nil => trivial
  | cons b r => exact h.2

theorem SortedByTime.head_le {a : Row} {l : List Row} (h : SortedByTime (a :: l)) :
    ∀ x ∈ l, a.time ≤ x.time := by
  induction l generalizing a with
  | nil => simp
  | cons b r ih =>
    intro x hx
    have h1 : a.time ≤ b.time := h.1
    have h2 := ih h.2
    simp at hx
    rcases hx with rfl | hx
    · exact h1
    · have := h2 x hx; omega

theorem sortedByTime_iff_pairwise (l : List Row) :
    SortedByTime l ↔ l.Pairwise (fun a b => a.time ≤ b.time) := by
  induction l with
  | nil => simp [SortedByTime]
  | cons a t ih =>
    constructor
    · intro h
      exact List.pairwise_cons.2 ⟨h.head_le, ih.1 h.tail⟩
    · intro h
      have h' := List.pairwise_cons.1 h
      cases t with
      | nil => trivial
      | cons b r => exact ⟨h'.1 b (by simp), ih.2 h'.2⟩

theorem SortedByTime.append_right {a b : List Row} (h : SortedByTime (a ++ b)) : SortedByTime b := by
  rw [sortedByTime_iff_pairwise] at *
  exact (List.pairwise_append.1 h).2.1

theorem SortedByTime.append_left {a b : List Row} (h : SortedByTime (a ++ b)) : SortedByTime a := by
  rw [sortedByTime_iff_pairwise] at *
  exact (List.pairwise_append.1 h).1

theorem SortedByTime.append_le {a b : List Row} (h : SortedByTime (a ++ b)) :
    ∀ x ∈ a, ∀ y ∈ b, x.time ≤ y.time := by
  rw [sortedByTime_iff_pairwise] at *
  exact (List.pairwise_append.1 h).2.2

theorem maxEnd_ge (d : Int) (l : List Row) : d ≤ maxEnd d l ∧ ∀ x ∈ l, x.endt ≤ maxEnd d l := by
  induction l generalizing d with
  | nil => simp [maxEnd]
  | cons a t ih =>
    have := ih (max d a.endt)
    simp only [maxEnd]
    refine ⟨by omega, ?_⟩
    intro x hx
    simp at hx
    rcases hx with rfl | hx
    · omega
    · exact this.2 x hx

theorem maxEnd_le {d B : Int} {l : List Row} (hd : d ≤ B) (h : ∀ x ∈ l, x.endt ≤ B) : maxEnd d l ≤ B := by
  induction l generalizing d with
  | nil => simpa [maxEnd]
  | cons a t ih =>
    simp only [maxEnd]
    apply ih
    · have := h a (by simp); omega
    · intro x hx; exact h x (by simp [hx])

/-! ### `scan` / `splitArray` -/

/-- the split index never leaves the array -/
theorem scan_splitI_lt (t : Int) (rows : List Row) (i : Nat) (latest : Int) (splitI n : Nat)
    (h1 : splitI < n) (h2 : i + rows.length ≤ n) : (scan t rows i latest splitI).splitI < n := by
  induction rows generalizing i latest splitI with
  | nil => simpa [scan]
  | cons d rest ih =>
    simp only [scan]
    simp only [List.length_cons] at h2
    split
    · split <;> simp <;> omega
    · split
      · split <;> simp <;> omega
      · apply ih
        · split <;> omega
        · omega

/-- Facts about the scan that need no hypothesis on the data.  `a`/`b` are the rows before /
from the final `splittable_i`. -/
structure ScanPost (t : Int) (data : List Row) (s : ScanRes) : Prop where
  decomp : ∃ a b, data = a ++ b ∧ a.length = s.splitI ∧
    (∀ x ∈ a, x.endt ≤ t) ∧ (∀ y, b.head? = some y → ∀ x ∈ a, x.endt ≤ y.time)
  notBroke : s.broke = false → ∀ x ∈ data, x.endt ≤ s.latest
  beyond : ∀ j, s.beyond = some j → ∃ a b y, data = a ++ y :: b ∧ a.length = j ∧ t ≤ y.time ∧
    ∀ x ∈ a, x.endt ≤ t

theorem scan_post (t : Int) (rows pre : List Row) (latest : Int) (a b : List Row)
    (hpre : pre = a ++ b)
    (hb : b = [] → pre = [])
    (h2 : ∀ x ∈ pre, x.endt ≤ latest)
    (h3 : ∀ x ∈ pre, x.endt ≤ t)
    (h4 : ∀ y, b.head? = some y → ∀ x ∈ a, x.endt ≤ y.time) :
    ScanPost t (pre ++ rows) (scan t rows pre.length latest a.length) := by
  induction rows generalizing pre latest a b with
  | nil =>
    simp only [scan, List.append_nil]
    refine ⟨⟨a, b, hpre, rfl, ?_, h4⟩, ?_, ?_⟩
    · intro x hx; exact h3 x (by simp [hpre, hx])
    · intro _; exact h2
    · simp
  | cons d rest ih =>
    simp only [scan]
    by_cases hlat : d.time ≥ latest
    · -- new splittable index: a' = pre, b' = [d]
      simp only [hlat, if_true]
      by_cases hbey : d.time ≥ t
      · simp only [hbey, if_true]
        refine ⟨⟨pre, d :: rest, rfl, rfl, h3, ?_⟩, by simp, ?_⟩
        · intro y hy x hx
          simp at hy; subst hy
          have := h2 x hx; omega
        · intro j hj
          simp at hj
          exact ⟨pre, rest, d, rfl, hj, hbey, h3⟩
      · simp only [hbey, if_false]
        by_cases hbrk : max latest d.endt > t
        · simp only [hbrk, if_true]
          refine ⟨⟨pre, d :: rest, rfl, rfl, h3, ?_⟩, by simp, by simp⟩
          intro y hy x hx
          simp at hy; subst hy
          have := h2 x hx; omega
        · simp only [hbrk, if_false]
          have := ih (pre ++ [d]) (max latest d.endt) pre [d] rfl (by simp)
            (by intro x hx; simp at hx; rcases hx with hx | rfl
                · have := h2 x hx; omega
                · omega)
            (by intro x hx; simp at hx; rcases hx with hx | rfl
                · exact h3 x hx
                · omega)
            (by intro y hy x hx; simp at hy; subst hy; have := h2 x hx; omega)
          simpa using this
    · simp only [hlat, if_false]
      by_cases hbey : d.time ≥ t
      · simp only [hbey, if_true]
        refine ⟨⟨a, b ++ d :: rest, by simp [hpre], rfl, ?_, ?_⟩, by simp, ?_⟩
        · intro x hx; exact h3 x (by simp [hpre, hx])
        · intro y hy x hx
          cases b with
          | nil => have := hb rfl; subst this; simp at hpre; subst hpre; simp at hx
          | cons b0 bs => simp at hy; subst hy; exact h4 _ (by simp) x hx
        · intro j hj
          simp at hj
          exact ⟨pre, rest, d, rfl, hj, hbey, h3⟩
      · simp only [hbey, if_false]
        by_cases hbrk : max latest d.endt > t
        · simp only [hbrk, if_true]
          refine ⟨⟨a, b ++ d :: rest, by simp [hpre], rfl, ?_, ?_⟩, by simp, by simp⟩
          · intro x hx; exact h3 x (by simp [hpre, hx])
          · intro y hy x hx
            cases b with
            | nil => have := hb rfl; subst this; simp at hpre; subst hpre; simp at hx
            | cons b0 bs => simp at hy; subst hy; exact h4 _ (by simp) x hx
        · simp only [hbrk, if_false]
          have := ih (pre ++ [d]) (max latest d.endt) a (b ++ [d]) (by simp [hpre]) (by simp)
            (by intro x hx; simp at hx; rcases hx with hx | rfl
                · have := h2 x hx; omega
                · omega)
            (by intro x hx; simp at hx; rcases hx with hx | rfl
                · exact h3 x hx
                · omega)
            (by intro y hy x hx
                cases b with
                | nil => have := hb rfl; subst this; simp at hpre; subst hpre; simp at hx
                | cons b0 bs => simp at hy; subst hy; exact h4 _ (by simp) x hx)
          simpa using this

/-- With `latest ≤ t` on entry the loop can only end in three ways: exhausted with `latest ≤ t`,
`break` at a row starting at/after `t` (then that row is the splittable one), or `break` on a
row that straddles `t`. -/
theorem scan_tight (t : Int) (rows : List Row) (i : Nat) (latest : Int) (splitI : Nat)
    (h : latest ≤ t) :
    ((scan t rows i latest splitI).latest ≤ t →
        (scan t rows i latest splitI).beyond = some (scan t rows i latest splitI).splitI ∨
        (scan t rows i latest splitI).broke = false) ∧
    ((scan t rows i latest splitI).latest > t → ∃ r ∈ rows, r.straddles t) := by
  induction rows generalizing i latest splitI with
  | nil => simp [scan]; omega
  | cons d rest ih =>
    simp only [scan]
    by_cases hbey : d.time ≥ t
    · simp only [hbey, if_true]
      have : d.time ≥ latest := by omega
      simp [this]; omega
    · simp only [hbey, if_false]
      by_cases hbrk : max latest d.endt > t
      · simp only [hbrk, if_true]
        refine ⟨by intro h'; omega, ?_⟩
        intro _
        exact ⟨d, by simp, by unfold Row.straddles; omega⟩
      · simp only [hbrk, if_false]
        have := ih (i+1) (max latest d.endt) (if d.time ≥ latest then i else splitI) (by omega)
        refine ⟨this.1, ?_⟩
        intro h'
        obtain ⟨r, hr, hs⟩ := this.2 h'
        exact ⟨r, by simp [hr], hs⟩

/-- on sorted data a straddling row always stops the loop with `latest > t` -/
theorem scan_straddler (t : Int) (rows : List Row) (i : Nat) (latest : Int) (splitI : Nat)
    (hs : SortedByTime rows) (h : ∃ r ∈ rows, r.straddles t) :
    (scan t rows i latest splitI).latest > t := by
  induction rows generalizing i latest splitI with
  | nil => simp at h
  | cons d rest ih =>
    obtain ⟨r, hr, hst⟩ := h
    unfold Row.straddles at hst
    have hd : d.time < t := by
      simp at hr
      rcases hr with rfl | hr
      · exact hst.1
      · have := hs.head_le r hr; omega
    simp only [scan]
    have hbey : ¬ d.time ≥ t := by omega
    simp only [hbey, if_false]
    by_cases hbrk : max latest d.endt > t
    · simp only [hbrk, if_true]
    · simp only [hbrk, if_false]
      apply ih _ _ _ hs.tail
      simp at hr
      rcases hr with rfl | hr
      · omega
      · exact ⟨r, hr, hst⟩

/-- The "chain" fact behind early splitting: every time strictly between the start of the
splittable row and the latest end seen is straddled by some row. -/
theorem scan_chain (t : Int) (data : List Row) (hpos : PositiveRows data) (hnn : ∀ r ∈ data, 0 ≤ r.time)
    (rows pre : List Row) (latest : Int) (a b : List Row)
    (hdata : data = pre ++ rows)
    (hpre : pre = a ++ b)
    (hb : b = [] → latest < 0)
    (h2 : ∀ x ∈ pre, x.endt ≤ latest)
    (h4 : ∀ y, b.head? = some y → ∀ τ, y.time < τ → τ < latest → ∃ r ∈ b, r.straddles τ) :
    ∃ a' b', data = a' ++ b' ∧ a'.length = (scan t rows pre.length latest a.length).splitI ∧
      ∀ y, b'.head? = some y → ∀ τ, y.time < τ → τ < (scan t rows pre.length latest a.length).latest →
        ∃ r ∈ data, r.straddles τ := by
  induction rows generalizing pre latest a b with
  | nil =>
    simp only [scan]
    refine ⟨a, b, by simp [hdata, hpre], rfl, ?_⟩
    intro y hy τ h1 h2'
    obtain ⟨r, hr, hs⟩ := h4 y hy τ h1 h2'
    exact ⟨r, by simp [hdata, hpre, hr], hs⟩
  | cons d rest ih =>
    have hdpos : d.time < d.endt := hpos d (by simp [hdata])
    have hdnn : 0 ≤ d.time := hnn d (by simp [hdata])
    simp only [scan]
    by_cases hlat : d.time ≥ latest
    · simp only [hlat, if_true]
      have hone : ∀ τ, d.time < τ → τ < max latest d.endt → ∃ r ∈ data, r.straddles τ := by
        intro τ h1 h2'
        exact ⟨d, by simp [hdata], by unfold Row.straddles; omega⟩
      by_cases hbey : d.time ≥ t
      · simp only [hbey, if_true]
        refine ⟨pre, d :: rest, hdata, rfl, ?_⟩
        intro y hy τ h1 h2'
        simp at hy; subst hy
        exact hone τ h1 (by omega)
      · simp only [hbey, if_false]
        by_cases hbrk : max latest d.endt > t
        · simp only [hbrk, if_true]
          refine ⟨pre, d :: rest, hdata, rfl, ?_⟩
          intro y hy τ h1 h2'
          simp at hy; subst hy
          exact hone τ h1 h2'
        · simp only [hbrk, if_false]
          have := ih (pre ++ [d]) (max latest d.endt) pre [d] (by simp [hdata]) rfl (by simp)
            (by intro x hx; simp at hx; rcases hx with hx | rfl
                · have := h2 x hx; omega
                · omega)
            (by intro y hy τ h1 h2'
                simp at hy; subst hy
                exact ⟨d, by simp, by unfold Row.straddles; omega⟩)
          simpa using this
    · simp only [hlat, if_false]
      -- b is non-empty, otherwise latest < 0 ≤ d.time
      cases b with
      | nil => have := hb rfl; omega
      | cons b0 bs =>
      have hext : ∀ τ, b0.time < τ → τ < max latest d.endt → ∃ r ∈ (b0 :: bs) ++ [d], r.straddles τ := by
        intro τ h1 h2'
        by_cases hτ : τ < latest
        · obtain ⟨r, hr, hs⟩ := h4 b0 (by simp) τ h1 hτ
          exact ⟨r, by simp at hr ⊢; rcases hr with h | h <;> simp [h], hs⟩
        · exact ⟨d, by simp, by unfold Row.straddles; omega⟩
      have hsub : ∀ r, r ∈ (b0 :: bs) ++ [d] → r ∈ data := by
        intro r hr
        simp at hr
        rcases hr with h | h | h <;> simp [hdata, hpre, h]
      by_cases hbey : d.time ≥ t
      · simp only [hbey, if_true]
        refine ⟨a, (b0 :: bs) ++ d :: rest, by simp [hdata, hpre], rfl, ?_⟩
        intro y hy τ h1 h2'
        simp at hy; subst hy
        obtain ⟨r, hr, hs⟩ := hext τ h1 (by omega)
        exact ⟨r, hsub r hr, hs⟩
      · simp only [hbey, if_false]
        by_cases hbrk : max latest d.endt > t
        · simp only [hbrk, if_true]
          refine ⟨a, (b0 :: bs) ++ d :: rest, by simp [hdata, hpre], rfl, ?_⟩
          intro y hy τ h1 h2'
          simp at hy; subst hy
          obtain ⟨r, hr, hs⟩ := hext τ h1 h2'
          exact ⟨r, hsub r hr, hs⟩
        · simp only [hbrk, if_false]
          have := ih (pre ++ [d]) (max latest d.endt) a ((b0 :: bs) ++ [d]) (by simp [hdata])
            (by simp [hpre]) (by simp)
            (by intro x hx; simp at hx; rcases hx with hx | rfl
                · have := h2 x hx; omega
                · omega)
            (by intro y hy τ h1 h2'
                simp at hy; subst hy
                exact hext τ h1 h2')
          simpa using this

theorem take_drop_of_append {α} {data a b : List α} {n : Nat} (hd : data = a ++ b) (hl : a.length = n) :
    data.take n = a ∧ data.drop n = b ∧ data[n]? = b.head? := by
  subst hd
  refine ⟨List.take_left' hl, List.drop_left' hl, ?_⟩
  rw [← List.head?_drop, List.drop_left' hl]

/-- the scan started by `split_array` -/
theorem scan0_post (t : Int) (data : List Row) : ScanPost t data (scan t data 0 (-1) 0) := by
  have := scan_post t data [] (-1) [] [] rfl (by simp) (by simp) (by simp) (by simp)
  simpa using this

theorem splitArray_time_le {data : List Row} {t : Int} {early : Bool} {l r : List Row} {t' : Int}
    (h : splitArray data t early = .ok (l, r, t')) : t' ≤ t := by
  unfold splitArray at h
  split at h
  · simp at h; omega
  · split at h
    · simp at h; omega
    · simp only at h
      split at h
      · simp at h; omega
      · split at h
        · split at h
          · simp at h
          · split at h
            · simp at h; omega
            · simp at h
        · simp at h; omega

theorem splitArray_strict {data : List Row} {t : Int} {l r : List Row} {t' : Int}
    (h : splitArray data t false = .ok (l, r, t')) : t' = t := by
  unfold splitArray at h
  split at h
  · simp at h; omega
  · split at h
    · simp at h; omega
    · simp only at h
      split at h
      · simp at h; omega
      · split at h
        · simp at h
        · simp at h; omega

theorem splitArray_early_ok (data : List Row) (t : Int) :
    ∃ res, splitArray data t true = .ok res := by
  unfold splitArray
  split
  · exact ⟨_, rfl⟩
  · rename_i d0 tl
    split
    · exact ⟨_, rfl⟩
    · simp only
      split
      · exact ⟨_, rfl⟩
      · split
        · have hlt := scan_splitI_lt t (d0 :: tl) 0 (-1) 0 (d0 :: tl).length (by simp) (by simp)
          simp only [Bool.not_true, Bool.false_eq_true, if_false]
          split
          · exact ⟨_, rfl⟩
          · rename_i hnone
            rw [List.getElem?_eq_none_iff] at hnone
            omega
        · exact ⟨_, rfl⟩

/-- with `allow_early_split = False` the only possible failure is `CannotSplit` -/
theorem splitArray_strict_error {data : List Row} {t : Int} {e : Err}
    (h : splitArray data t false = .error e) : e = .cannotSplit := by
  unfold splitArray at h
  split at h
  · simp at h
  · split at h
    · simp at h
    · simp only at h
      split at h
      · simp at h
      · split at h
        · simp at h; exact h.symm
        · simp at h

theorem splitArray_sep {data : List Row} {t : Int} {early : Bool} {l r : List Row} {t' : Int}
    (hs : SortedByTime data) (h : splitArray data t early = .ok (l, r, t')) :
    (∀ x ∈ l, x.endt ≤ t') ∧ (∀ x ∈ r, t' ≤ x.time) := by
  have post := scan0_post t data
  unfold splitArray at h
  split at h
  · simp at h; obtain ⟨rfl, rfl, rfl⟩ := h; simp
  · rename_i d0 tl
    split at h
    · rename_i h0
      simp at h; obtain ⟨rfl, rfl, rfl⟩ := h
      refine ⟨by simp, ?_⟩
      intro x hx
      simp at hx
      rcases hx with rfl | hx
      · exact h0
      · have := hs.head_le x hx; omega
    · simp only at h
      split at h
      · rename_i hc
        simp at h; obtain ⟨rfl, rfl, rfl⟩ := h
        simp at hc
        refine ⟨?_, by simp⟩
        intro x hx
        have := post.notBroke hc.1 x hx
        omega
      · split at h
        · split at h
          · simp at h
          · obtain ⟨a, b, hd, hl, ha, hab⟩ := post.decomp
            obtain ⟨htk, hdr, hget⟩ := take_drop_of_append hd hl
            rw [htk, hdr, hget] at h
            split at h
            · rename_i y hy
              simp at h; obtain ⟨rfl, rfl, rfl⟩ := h
              refine ⟨?_, ?_⟩
              · intro x hx
                have := ha x hx
                have := hab y hy x hx
                omega
              · intro x hx
                cases b with
                | nil => simp at hx
                | cons b0 bs =>
                  simp at hy; subst hy
                  rw [hd] at hs
                  have hs' := hs.append_right
                  simp at hx
                  rcases hx with rfl | hx
                  · omega
                  · have := hs'.head_le x hx; omega
            · simp at h
        · rename_i hc1 hc2
          simp at h; obtain ⟨rfl, rfl, rfl⟩ := h
          simp at hc2
          obtain ⟨a, b, y, hd, hl, hy, ha⟩ := post.beyond _ hc2.1
          obtain ⟨htk, hdr, -⟩ := take_drop_of_append hd hl
          rw [htk, hdr]
          refine ⟨ha, ?_⟩
          intro x hx
          rw [hd] at hs
          have hs' := hs.append_right
          simp at hx
          rcases hx with rfl | hx
          · omega
          · have := hs'.head_le x hx; omega

theorem no_straddler_of_sep {l r : List Row} {t : Int}
    (h1 : ∀ x ∈ l, x.endt ≤ t) (h2 : ∀ x ∈ r, t ≤ x.time) : ¬ ∃ x ∈ l ++ r, x.straddles t := by
  rintro ⟨x, hx, hs⟩
  unfold Row.straddles at hs
  simp at hx
  rcases hx with hx | hx
  · have := h1 x hx; omega
  · have := h2 x hx; omega

theorem splitArray_append {data : List Row} {t : Int} {early : Bool} {l r : List Row} {t' : Int}
    (h : splitArray data t early = .ok (l, r, t')) : l ++ r = data := by
  unfold splitArray at h
  grind [List.take_append_drop]

theorem splitArray_refuses_of_straddler {data : List Row} {t : Int} (hs : SortedByTime data)
    (h : ∃ r ∈ data, r.straddles t) : splitArray data t false = .error .cannotSplit := by
  cases data with
  | nil => simp at h
  | cons d0 tl =>
    have hlat := scan_straddler t (d0 :: tl) 0 (-1) 0 hs h
    obtain ⟨r, hr, hst⟩ := h
    unfold Row.straddles at hst
    have h0 : ¬ d0.time ≥ t := by
      simp at hr
      rcases hr with rfl | hr
      · omega
      · have := hs.head_le r hr; omega
    unfold splitArray
    simp only [h0, if_false]
    have h1 : ¬ (scan t (d0 :: tl) 0 (-1) 0).latest ≤ t := by omega
    simp [h1, hlat]

theorem splitArray_cons (d0 : Row) (tl : List Row) (t : Int) (early : Bool) :
    splitArray (d0 :: tl) t early =
      if d0.time ≥ t then .ok ([], d0 :: tl, t)
      else
        if !(scan t (d0 :: tl) 0 (-1) 0).broke && (scan t (d0 :: tl) 0 (-1) 0).latest ≤ t then
          .ok (d0 :: tl, [], t)
        else if ((scan t (d0 :: tl) 0 (-1) 0).beyond != some (scan t (d0 :: tl) 0 (-1) 0).splitI)
            || (scan t (d0 :: tl) 0 (-1) 0).latest > t then
          if !early then .error .cannotSplit
          else
            match (d0 :: tl)[(scan t (d0 :: tl) 0 (-1) 0).splitI]? with
            | some r => .ok ((d0 :: tl).take (scan t (d0 :: tl) 0 (-1) 0).splitI,
                (d0 :: tl).drop (scan t (d0 :: tl) 0 (-1) 0).splitI, min r.time t)
            | none => .error .other
        else .ok ((d0 :: tl).take (scan t (d0 :: tl) 0 (-1) 0).splitI,
                (d0 :: tl).drop (scan t (d0 :: tl) 0 (-1) 0).splitI, t) := rfl

/-- if the scan ends with `latest ≤ t` (and `-1 ≤ t`), `split_array` does not take the
refusal / early branch -/
theorem scan_latest_gt_of_branch {t : Int} {data : List Row} (ht : -1 ≤ t)
    (hc1 : ¬ ((!(scan t data 0 (-1) 0).broke && decide ((scan t data 0 (-1) 0).latest ≤ t)) = true))
    (hc2 : (((scan t data 0 (-1) 0).beyond != some (scan t data 0 (-1) 0).splitI)
            || decide ((scan t data 0 (-1) 0).latest > t)) = true) :
    (scan t data 0 (-1) 0).latest > t := by
  have tight := scan_tight t data 0 (-1) 0 ht
  apply Classical.byContradiction
  intro hl
  have hl' : (scan t data 0 (-1) 0).latest ≤ t := by omega
  rcases tight.1 hl' with hb | hb
  · simp [hb] at hc2
    omega
  · simp [hb, hl'] at hc1

theorem straddler_of_splitArray_refuses {data : List Row} {t : Int} (hnn : ∀ r ∈ data, 0 ≤ r.time)
    (h : splitArray data t false = .error .cannotSplit) : ∃ r ∈ data, r.straddles t := by
  cases data with
  | nil => simp [splitArray] at h
  | cons d0 tl =>
    have h00 := hnn d0 (by simp)
    rw [splitArray_cons] at h
    split at h
    · simp at h
    · rename_i h0
      have tight := scan_tight t (d0 :: tl) 0 (-1) 0 (by omega)
      split at h
      · simp at h
      · rename_i hc1
        split at h
        · rename_i hc2
          exact tight.2 (scan_latest_gt_of_branch (by omega) hc1 hc2)
        · simp at h

/-- in the early-split branch the loop stopped with `latest > t` -/
theorem splitArray_early_chain {data : List Row} {t : Int} {l r : List Row} {t' : Int}
    (hpos : PositiveRows data) (hnn : ∀ r ∈ data, 0 ≤ r.time)
    (h : splitArray data t true = .ok (l, r, t')) :
    ∀ τ, t' < τ → τ ≤ t → ∃ x ∈ data, x.straddles τ := by
  intro τ hτ1 hτ2
  cases data with
  | nil => simp [splitArray] at h; omega
  | cons d0 tl =>
    have h00 := hnn d0 (by simp)
    rw [splitArray_cons] at h
    split at h
    · simp at h; omega
    · rename_i h0
      have chain := scan_chain t (d0 :: tl) hpos hnn (d0 :: tl) [] (-1) [] [] (by simp) rfl (by simp)
        (by simp) (by simp)
      simp only [List.length_nil] at chain
      split at h
      · simp at h; omega
      · rename_i hc1
        split at h
        · rename_i hc2
          have hl := scan_latest_gt_of_branch (by omega) hc1 hc2
          obtain ⟨a, b, hd, hlen, hch⟩ := chain
          obtain ⟨-, -, hget⟩ := take_drop_of_append hd hlen
          simp only [Bool.not_true, Bool.false_eq_true, if_false] at h
          rw [hget] at h
          split at h
          · rename_i y hy
            simp at h
            obtain ⟨-, -, rfl⟩ := h
            exact hch y hy τ (by omega) (by omega)
          · simp at h
        · simp at h; omega

theorem splitArray_time_cases {data : List Row} {t : Int} {early : Bool} {l r : List Row} {t' : Int}
    (h : splitArray data t early = .ok (l, r, t')) : t' = t ∨ ∃ x ∈ data, t' = x.time := by
  cases data with
  | nil => simp [splitArray] at h; omega
  | cons d0 tl =>
    rw [splitArray_cons] at h
    split at h
    · simp at h; omega
    · split at h
      · simp at h; omega
      · split at h
        · split at h
          · simp at h
          · split at h
            · rename_i y hy
              simp at h
              obtain ⟨-, -, rfl⟩ := h
              have := List.mem_of_getElem? hy
              by_cases hc : y.time ≤ t
              · right; exact ⟨y, this, by omega⟩
              · left; omega
            · simp at h
        · simp at h; omega

end Strax
