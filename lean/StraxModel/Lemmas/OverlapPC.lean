import StraxModel.Lemmas.Overlap
import StraxModel.Model.Pipeline
/-
  Helper lemmas for property C09, part 2: partial correctness of the single-output overlap-window
  state machine for chunks with ARBITRARY annotations (data type, run id, subruns, superrun, target),
  in the form the pipeline layer (property C01, `Strax.Pipeline.StreamSpec`) consumes it.

  Part 1 (Lemmas/Overlap.lean) proves existence + correctness on `good` chunks (forward).  Here the
  success of every operation is a hypothesis, so only the rows and ranges matter (`Chunk.wf`).
-/
namespace Strax.Overlap
open Strax

/-- `split` of a well-formed chunk, whenever it succeeds (whatever the annotations are) -/
theorem split_wf' {c : Chunk} {t : Int} {early : Bool} {c1 c2 : Chunk}
    (hwf : c.wf = true) (h : c.split t early = .ok (c1, c2)) :
    ∃ t', c.start ≤ t' ∧ t' ≤ c.stop ∧ t' ≤ max t c.start ∧ (early = false → t' = max (min t c.stop) c.start) ∧
      c1.start = c.start ∧ c1.stop = t' ∧ c2.start = t' ∧ c2.stop = c.stop ∧
      c1.rows ++ c2.rows = c.rows ∧ (∀ x ∈ c1.rows, x.endt ≤ t') ∧ (∀ x ∈ c2.rows, t' ≤ x.time) ∧
      c1.wf = true ∧ c2.wf = true := by
  obtain ⟨h0, hse, hs, hpos, hin⟩ := (Chunk.wf_iff c).1 hwf
  obtain ⟨d1, d2, t', hv, h1, h2⟩ := Chunk.split_ok_inv h
  obtain ⟨ha, hst, hts, hl, hr⟩ := splitData_wf hwf hv
  obtain ⟨-, -, -, f1s, f1e, f1r, -⟩ := mkChunk_fields h1
  obtain ⟨-, -, -, f2s, f2e, f2r, -⟩ := mkChunk_fields h2
  have htle : t' ≤ max t c.start := by have := splitData_time_le hv; omega
  have e1 : c1.stop = t' := by rw [f1e]; omega
  have e2 : c2.start = t' := by rw [f2s]; omega
  have e3 : c2.stop = c.stop := by rw [f2e]; omega
  rw [← ha] at hs hpos
  refine ⟨t', hst, hts, htle, ?_, f1s, e1, e2, e3, by rw [f1r, f2r, ha], by rw [f1r]; exact hl, by rw [f2r]; exact hr, ?_, ?_⟩
  · intro he; subst he; exact splitData_strict_time hv
  · refine (Chunk.wf_iff _).2 ⟨by rw [f1s]; exact h0, by rw [f1s, e1]; exact hst, by rw [f1r]; exact hs.append_left,
      by rw [f1r]; exact hpos.of_append.1, ?_⟩
    intro r hr'
    rw [f1r] at hr'
    rw [f1s, e1]
    exact ⟨(hin r (by rw [← ha]; simp [hr'])).1, hl r hr'⟩
  · refine (Chunk.wf_iff _).2 ⟨by rw [e2]; omega, by rw [e2, e3]; exact hts, by rw [f2r]; exact hs.append_right,
      by rw [f2r]; exact hpos.of_append.2, ?_⟩
    intro r hr'
    rw [f2r] at hr'
    rw [e2, e3]
    exact ⟨hr r hr', (hin r (by rw [← ha]; simp [hr'])).2⟩

/-- `concatenate [a, b]` of well-formed chunks, whenever it succeeds -/
theorem concat2_wf {a b c : Chunk} (ha : a.wf = true) (hb : b.wf = true) (h : concatenate [a, b] false = .ok c) :
    c.start = a.start ∧ c.stop = b.stop ∧ c.rows = a.rows ++ b.rows ∧ a.stop ≤ b.start ∧ c.wf = true := by
  obtain ⟨c1, c2, c3, c4, c5, c6⟩ := concat2_inv h
  obtain ⟨a0, ase, asrt, apos, ain⟩ := (Chunk.wf_iff a).1 ha
  obtain ⟨b0, bse, bsrt, bpos, bin⟩ := (Chunk.wf_iff b).1 hb
  refine ⟨c1, c2, c3, c4, (Chunk.wf_iff c).2 ⟨c5, c6, ?_, ?_, ?_⟩⟩
  · rw [c3]
    apply sortedByTime_append asrt bsrt
    intro x hx y hy
    have := ain x hx; have := bin y hy; have := apos x hx
    omega
  · rw [c3]; intro x hx
    rcases List.mem_append.1 hx with hx | hx
    · exact apos x hx
    · exact bpos x hx
  · rw [c3, c1, c2]; intro x hx
    rcases List.mem_append.1 hx with hx | hx
    · have := ain x hx; omega
    · have := bin x hx; omega

/-- The step, partial-correctness form: if the call succeeds on well-formed chunks (whatever their
annotations), it did what `step1_good` says.  `f` only has to agree with the kernel form on lists
of positive-duration rows. -/
theorem step1_wf {g : Row → List Row → Row} (hg : Keeps g) {f : List Row → List Row} {wl wr : Int}
    (hf : ∀ rows, PositiveRows rows → f rows = perRow wl wr g rows)
    {rid : String} {old : Option Chunk} {s : Int} {X out cr ci : Chunk} {S2 P : List Row}
    (hX : X.wf = true)
    (hold : (old = none ∧ S2 = [] ∧ P = [] ∧ s ≤ X.start) ∨
      (∃ o, old = some o ∧ o.wf = true ∧ o.stop = X.start ∧ o.rows = S2 ++ P ∧ o.start ≤ s ∧ s ≤ o.stop))
    (hS2 : ∀ r ∈ S2, r.endt ≤ s) (hP : ∀ r ∈ P, s ≤ r.time)
    (h : step1 f (wl, wr) rid old s X = .ok (out, cr, ci)) :
    ∃ Qo Qc D2 S2', 0 ≤ wl ∧ 0 ≤ wr ∧
      P ++ X.rows = Qo ++ Qc ∧
      out.rows = ctxMap wl wr g (S2 ++ P ++ X.rows) Qo ∧
      cr.rows = ctxMap wl wr g (S2 ++ P ++ X.rows) Qc ∧
      (∀ r ∈ Qo, r.endt ≤ X.stop - 2 * wr - 1) ∧ (∀ r ∈ Qo ++ Qc, s ≤ r.time) ∧
      ci.wf = true ∧ out.wf = true ∧ cr.wf = true ∧ ci.stop = X.stop ∧
      ci.start ≤ cr.start ∧ cr.start ≤ ci.stop ∧ s ≤ cr.start ∧
      S2 ++ Qo = D2 ++ S2' ∧ ci.rows = S2' ++ Qc ∧
      (∀ n ∈ D2, n.endt ≤ cr.start - 2 * wl - 1) ∧ (∀ r ∈ S2', r.endt ≤ cr.start) ∧
      (∀ r ∈ Qc, cr.start ≤ r.time) := by
  obtain ⟨I, R, r0, R', i0, hI, hwl, hwr, hR, hs1, hs2, hs3⟩ := step1_inv h
  simp only at hwl hwr hs2 hs3
  obtain ⟨x0, xse, -, -, xin⟩ := (Chunk.wf_iff X).1 hX
  -- the input of this call
  obtain ⟨a, hIwf, hIrows, hIstop, ha, hsa, hIa, haI, hXa, hPa⟩ :
      ∃ a, I.wf = true ∧ I.rows = S2 ++ P ++ X.rows ∧ I.stop = X.stop ∧ a = max (min s I.stop) I.start ∧ s ≤ a ∧
        I.start ≤ a ∧ a ≤ I.stop ∧ (∀ r ∈ X.rows, a ≤ r.time) ∧ (P ≠ [] → a = s) := by
    rcases hold with ⟨rfl, rfl, rfl, hs⟩ | ⟨o, rfl, ho, hadj, hrows, hs1', hs2'⟩
    · simp only [Except.ok.injEq] at hI; subst hI
      refine ⟨X.start, hX, by simp, rfl, by omega, hs, Int.le_refl _, xse, ?_, by simp⟩
      intro r hr; exact (xin r hr).1
    · obtain ⟨c1, c2, c3, c4, c5⟩ := concat2_wf ho hX hI
      obtain ⟨o0, ose, -, -, -⟩ := (Chunk.wf_iff o).1 ho
      refine ⟨s, c5, by rw [c3, hrows], c2, by rw [c1, c2]; omega, Int.le_refl _, by rw [c1]; exact hs1',
        by rw [c2]; omega, ?_, fun _ => rfl⟩
      intro r hr; have := (xin r hr).1; omega
  obtain ⟨hI0, hIse, hIsorted, hIpos, hIin⟩ := (Chunk.wf_iff I).1 hIwf
  have hPa' : ∀ r ∈ P, a ≤ r.time := by
    intro r hr
    have : P ≠ [] := by intro h; rw [h] at hr; simp at hr
    rw [hPa this]; exact hP r hr
  have hQa : ∀ r ∈ P ++ X.rows, a ≤ r.time := by
    intro r hr
    rcases List.mem_append.1 hr with h | h
    · exact hPa' r h
    · exact hXa r h
  -- the result chunk
  rw [hf I.rows hIpos] at hR
  obtain ⟨-, -, -, hRs, hRe, hRr, -⟩ := mkChunk_fields hR
  have hRrows : R.rows = ctxMap wl wr g I.rows S2 ++ ctxMap wl wr g I.rows (P ++ X.rows) := by
    rw [hRr, perRow_eq_ctxMap, ← ctxMap_append, hIrows, List.append_assoc]
  have hRin : ∀ x ∈ R.rows, R.start ≤ x.time ∧ x.endt ≤ R.stop := by
    intro x hx
    rw [hRr, perRow_eq_ctxMap] at hx
    obtain ⟨r, hr, h1, h2⟩ := ctxMap_mem hg hx
    have := hIin r hr; rw [hRs, hRe]; omega
  have hRpos : PositiveRows R.rows := by
    rw [hRr, perRow_eq_ctxMap]; exact ctxMap_positive hg hIpos
  have hRwf : R.wf = true :=
    (Chunk.wf_iff R).2 ⟨by rw [hRs]; exact hI0, by rw [hRs, hRe]; exact hIse,
      by rw [hRr, perRow_eq_ctxMap]; exact ctxMap_sorted hg hIsorted, hRpos, hRin⟩
  -- drop what has been sent
  obtain ⟨t1, -, -, -, ht1, -, -, hR's, hR'e, hrows1, hl1, hr1, -, hR'wf⟩ := split_wf' hRwf hs1
  have ht1 : t1 = a := by rw [ht1 rfl, ha, hRs, hRe]
  subst ht1
  have hR'rows : R'.rows = ctxMap wl wr g I.rows (P ++ X.rows) := by
    have := sep_unique (t := t1) (by rw [hrows1]; exact hRpos) (hrows1.trans hRrows) hl1 hr1
      (by
        intro y hy
        obtain ⟨r, hr, h1, -⟩ := ctxMap_mem hg hy
        have := hQa r hr; omega)
      (by
        intro y hy
        obtain ⟨r, hr, -, h2⟩ := ctxMap_mem hg hy
        have := hS2 r hr; omega)
    exact this.2
  -- send what is final, keep the rest
  obtain ⟨t2, ht2a, ht2b, ht2c, -, hos, hoe, hcs, hce, hrows2, hl2, hr2, howf, hcwf⟩ := split_wf' hR'wf hs2
  rw [hR's] at ht2a ht2c hos
  rw [hR'e, hRe] at ht2b hce
  obtain ⟨Qo, Qc, hQ, hQo, hQc⟩ : ∃ Qo Qc, P ++ X.rows = Qo ++ Qc ∧ out.rows = ctxMap wl wr g I.rows Qo ∧
      cr.rows = ctxMap wl wr g I.rows Qc := by
    have h := hrows2.trans hR'rows
    simp only [ctxMap] at h
    obtain ⟨l1, l2, e1, e2, e3⟩ := List.append_eq_map_iff.1 h
    exact ⟨l1, l2, e1, e2.symm, e3.symm⟩
  have hQo_end : ∀ r ∈ Qo, r.endt ≤ t2 := by
    intro r hr
    have hy : g r (I.rows.filter (near wl wr r)) ∈ out.rows := by
      rw [hQo]; simp only [ctxMap, List.mem_map]; exact ⟨r, hr, rfl⟩
    have := hl2 _ hy
    rw [(hg r _).2] at this; exact this
  have hQc_start : ∀ r ∈ Qc, t2 ≤ r.time := by
    intro r hr
    have hy : g r (I.rows.filter (near wl wr r)) ∈ cr.rows := by
      rw [hQc]; simp only [ctxMap, List.mem_map]; exact ⟨r, hr, rfl⟩
    have := hr2 _ hy
    rw [(hg r _).1] at this; exact this
  obtain ⟨-, -, -, hopos, hoin⟩ := (Chunk.wf_iff out).1 howf
  have hQo_final : ∀ r ∈ Qo, r.endt ≤ X.stop - 2 * wr - 1 := by
    intro r hr
    have hy : g r (I.rows.filter (near wl wr r)) ∈ out.rows := by
      rw [hQo]; simp only [ctxMap, List.mem_map]; exact ⟨r, hr, rfl⟩
    have h1 := hoin _ hy
    have h2 := hopos _ hy
    have h3 := hQo_end r hr
    rw [(hg r _).1, (hg r _).2, hos, hoe] at h1
    rw [(hg r _).1, (hg r _).2] at h2
    rw [← hIstop]
    omega
  -- cache the input that later results may need
  obtain ⟨t3, ht3a, ht3b, ht3c, -, -, -, his, hie, hrows3, hl3, hr3, -, hiwf⟩ := split_wf' hIwf hs3
  rw [hcs] at ht3c
  have hD2 : ∀ n ∈ i0.rows, n.endt ≤ t2 - 2 * wl - 1 := by
    intro n hn
    have h1 := hl3 n hn
    have hn' : n ∈ I.rows := by rw [← hrows3]; simp [hn]
    have h2 := hIin n hn'
    have h3 := hIpos n hn'
    omega
  have hsplit : (S2 ++ Qo) ++ Qc = i0.rows ++ ci.rows := by
    rw [hrows3, hIrows, List.append_assoc, List.append_assoc, hQ]
  obtain ⟨S2', hK1, hK2⟩ := append_split_sep (t := t2 - 2 * wl - 1) (t' := t2)
    (by rw [hsplit, hrows3]; exact hIpos) hsplit hD2 hQc_start (by omega)
  refine ⟨Qo, Qc, i0.rows, S2', hwl, hwr, hQ, by rw [hQo, hIrows], by rw [hQc, hIrows], hQo_final, ?_, hiwf, howf, hcwf,
    by rw [hie, hIstop], by rw [his, hcs]; omega, by rw [hcs, hie]; exact ht2b, by rw [hcs]; omega, hK1, hK2,
    by rw [hcs]; exact hD2, ?_, by rw [hcs]; exact hQc_start⟩
  · intro r hr
    rw [← hQ] at hr
    have := hQa r hr; omega
  · intro r hr
    have hr' : r ∈ S2 ++ Qo := by rw [hK1]; simp [hr]
    rw [hcs]
    rcases List.mem_append.1 hr' with h | h
    · have := hS2 r h; omega
    · exact hQo_end r h

/-- a chunk obeying the laws (no condition on the sign of `start`, none on the annotations) -/
def Cok (c : Chunk) : Prop :=
  c.start ≤ c.stop ∧ SortedByTime c.rows ∧ PositiveRows c.rows ∧ ∀ r ∈ c.rows, c.start ≤ r.time ∧ r.endt ≤ c.stop

theorem wf_of_cok {c : Chunk} (h : Cok c) (h0 : 0 ≤ c.start) : c.wf = true :=
  (Chunk.wf_iff c).2 ⟨h0, h.1, h.2.1, h.2.2.1, h.2.2.2⟩

theorem chain_rows_later' {e : Int} {rest : List Chunk} (hc : Chain e rest) (hg : ∀ c ∈ rest, Cok c) :
    ∀ n ∈ allRows rest, e ≤ n.time := by
  induction rest generalizing e with
  | nil => intro n hn; simp [allRows] at hn
  | cons c rest ih =>
    intro n hn
    obtain ⟨h1, h2⟩ := hc
    obtain ⟨cse, -, -, cin⟩ := hg c (by simp)
    rw [allRows_cons] at hn
    rcases List.mem_append.1 hn with h | h
    · have := (cin n h).1; omega
    · have := ih h2 (fun c hc => hg c (by simp [hc])) n h; omega

theorem iterLoop_pc {g : Row → List Row → Row} (hg : Keeps g) {f : List Row → List Row} {wl wr : Int}
    (hf : ∀ rows, PositiveRows rows → f rows = perRow wl wr g rows) (rid kind : String) (T : List Row) :
    ∀ (rest : List Chunk) (old : Option Chunk) (crd : Dict Chunk) (s : Int) (buf : Chunk) (Dtot S2 P : List Row)
      (outs : List (Dict Chunk)) (st' : State),
    buf.wf = true → (∀ c ∈ rest, Cok c) → Chain buf.stop rest →
    ((old = none ∧ S2 = [] ∧ P = [] ∧ s ≤ buf.start) ∨
      (∃ o, old = some o ∧ o.wf = true ∧ o.stop = buf.start ∧ o.rows = S2 ++ P ∧ o.start ≤ s ∧ s ≤ o.stop)) →
    (∀ r ∈ S2, r.endt ≤ s) → (∀ r ∈ P, s ≤ r.time) →
    T = Dtot ++ (S2 ++ P ++ buf.rows) ++ allRows rest →
    (∀ n ∈ Dtot, n.endt ≤ s - 2 * wl - 1) →
    iterLoop (spec1 f (wl, wr) rid) kind ⟨optDict kind old, crd, s⟩ buf rest = .ok (outs, st') →
    ∃ cs cr, outs = cs.map (fun c => [(outType, c)]) ∧ st'.cachedResults = [(outType, cr)] ∧
      allRows cs ++ cr.rows = ctxMap wl wr g T (P ++ buf.rows ++ allRows rest) ∧
      (∀ c ∈ cs ++ [cr], c.wf = true) := by
  intro rest
  induction rest with
  | nil =>
    intro old crd s buf Dtot S2 P outs st' hbwf hrest hchain hold hS2 hP hT hD h
    obtain ⟨-, bse, -, -, -⟩ := (Chunk.wf_iff buf).1 hbwf
    unfold iterLoop at h
    split at h; · cases h
    rename_i inp buf' hsp
    rw [doCompute_spec1] at h
    split at h; · cases h
    rename_i out st1 hdc
    split at hdc; · cases hdc
    rename_i o cr ci hst
    simp only [Except.ok.injEq, Prod.mk.injEq] at hdc
    obtain ⟨rfl, rfl⟩ := hdc
    simp only at h
    by_cases hstrict : ((spec1 f (wl, wr) rid).strict && !buf'.rows.isEmpty) = true
    · rw [if_pos hstrict] at h; cases h
    rw [if_neg hstrict] at h
    simp only [Except.ok.injEq, Prod.mk.injEq] at h
    obtain ⟨rfl, rfl⟩ := h
    obtain ⟨i1, i2, i3, -⟩ := split_at_stop bse hsp
    obtain ⟨_, -, -, -, -, -, -, -, -, -, -, -, hiwf, -⟩ := split_wf' hbwf hsp
    have hold' : (old = none ∧ S2 = [] ∧ P = [] ∧ s ≤ inp.start) ∨
      (∃ o, old = some o ∧ o.wf = true ∧ o.stop = inp.start ∧ o.rows = S2 ++ P ∧ o.start ≤ s ∧ s ≤ o.stop) := by
      rw [i1]; exact hold
    obtain ⟨Qo, Qc, D2, S2', hwl, hwr, hQ, hout, hcr, hQof, hQs, hciwf, howf, hcrwf, -⟩ :=
      step1_wf hg hf hiwf hold' hS2 hP hst
    rw [i3] at hQ hout hcr
    refine ⟨[o], cr, rfl, rfl, ?_, ?_⟩
    · simp only [allRows, List.flatMap_cons, List.flatMap_nil, List.append_nil]
      rw [hout, hcr, ← ctxMap_append, ← hQ]
      apply ctxMap_congr
      intro r hr
      rw [hT]
      simp only [allRows, List.flatMap_nil, List.append_nil]
      have := filter_near_ctx wl wr r Dtot (S2 ++ P ++ buf.rows) [] (by
        intro n hn
        have h1 := hD n hn
        have h2 := hQs r (by rw [← hQ]; exact hr)
        omega) (by simp)
      simpa using this.symm
    · intro c hc
      simp only [List.cons_append, List.nil_append, List.mem_cons, List.not_mem_nil, or_false] at hc
      rcases hc with rfl | rfl
      · exact howf
      · exact hcrwf
  | cons c rest ih =>
    intro old crd s buf Dtot S2 P outs st' hbwf hrest hchain hold hS2 hP hT hD h
    obtain ⟨b0, bse, -, -, -⟩ := (Chunk.wf_iff buf).1 hbwf
    unfold iterLoop at h
    split at h; · cases h
    rename_i inp buf' hsp
    rw [doCompute_spec1] at h
    split at h; · cases h
    rename_i out st1 hdc
    split at hdc; · cases hdc
    rename_i o cr ci hst
    simp only [Except.ok.injEq, Prod.mk.injEq] at hdc
    obtain ⟨rfl, rfl⟩ := hdc
    simp only at h
    split at h; · cases h
    rename_i buf2 hcat
    split at h; · cases h
    rename_i outs2 st2 hrec
    simp only [Except.ok.injEq, Prod.mk.injEq] at h
    obtain ⟨rfl, rfl⟩ := h
    obtain ⟨i1, i2, i3, b1, b2, b3, -⟩ := split_at_stop bse hsp
    obtain ⟨_, -, -, -, -, -, -, -, -, -, -, -, hiwf, hb'wf⟩ := split_wf' hbwf hsp
    have hold' : (old = none ∧ S2 = [] ∧ P = [] ∧ s ≤ inp.start) ∨
      (∃ o, old = some o ∧ o.wf = true ∧ o.stop = inp.start ∧ o.rows = S2 ++ P ∧ o.start ≤ s ∧ s ≤ o.stop) := by
      rw [i1]; exact hold
    obtain ⟨Qo, Qc, D2, S2', hwl, hwr, hQ, hout, hcr, hQof, hQs, hciwf, howf, hcrwf, hcie, hci1, hci2, hss,
      hK1, hK2, hD2, hS2', hQc⟩ := step1_wf hg hf hiwf hold' hS2 hP hst
    rw [i3] at hQ hout hcr
    obtain ⟨hch1, hch2⟩ := hchain
    have hcok := hrest c (by simp)
    have hcwf : c.wf = true := wf_of_cok hcok (by omega)
    obtain ⟨c1, c2, c3, -, hb2wf⟩ := concat2_wf hb'wf hcwf hcat
    have hT' : T = (Dtot ++ D2) ++ (S2' ++ Qc ++ buf2.rows) ++ allRows rest := by
      rw [hT, allRows_cons, c3, b3]
      have e1 : S2 ++ P ++ buf.rows = S2 ++ (Qo ++ Qc) := by rw [List.append_assoc, hQ]
      rw [e1, ← List.append_assoc S2 Qo Qc, hK1]
      simp only [List.append_assoc, List.nil_append]
    have hrec' : iterLoop (spec1 f (wl, wr) rid) kind ⟨optDict kind (some ci), [(outType, cr)], cr.start⟩ buf2 rest
        = .ok (outs2, st2) := hrec
    obtain ⟨cs2, crf, hcs2, hcrf, hrows, hwfs⟩ := ih (some ci) [(outType, cr)] cr.start buf2 (Dtot ++ D2) S2' Qc
      outs2 st2 hb2wf (fun c' hc' => hrest c' (by simp [hc'])) (by rw [c2]; exact hch2)
      (Or.inr ⟨ci, rfl, hciwf, by rw [hcie, i2, c1, b1], hK2, hci1, hci2⟩)
      hS2' hQc hT'
      (by
        intro n hn
        rcases List.mem_append.1 hn with h | h
        · have := hD n h; omega
        · exact hD2 n h)
      hrec'
    refine ⟨o :: cs2, crf, by rw [hcs2]; rfl, hcrf, ?_, ?_⟩
    · rw [allRows_cons, List.append_assoc, hrows, c3, b3, allRows_cons]
      simp only [List.nil_append]
      have hout' : o.rows = ctxMap wl wr g T Qo := by
        rw [hout]
        apply ctxMap_congr
        intro r hr
        rw [hT]
        have hlater := chain_rows_later' (e := buf.stop) (rest := c :: rest) ⟨hch1, hch2⟩ hrest
        exact (filter_near_ctx wl wr r Dtot (S2 ++ P ++ buf.rows) (allRows (c :: rest)) (by
          intro n hn
          have h1 := hD n hn
          have h2 := hQs r (by simp [hr])
          omega) (by
          intro n hn
          have h1 := hlater n hn
          have h2 := hQof r hr
          rw [i2] at h2
          omega)).symm
      rw [hout', ← ctxMap_append, ← List.append_assoc Qo, ← List.append_assoc Qo, ← hQ]
      simp only [List.append_assoc]
    · intro c' hc'
      simp only [List.cons_append, List.mem_cons] at hc'
      rcases hc' with rfl | hc'
      · exact howf
      · exact hwfs c' hc'

/-! ### the interface of the pipeline layer (`Strax.Pipeline.StreamSpec`) -/

theorem cok_of_chunkOKB {c : Chunk} (h : Pipeline.chunkOKB c = true) : Cok c := by
  simp only [Pipeline.chunkOKB, Bool.and_eq_true, decide_eq_true_eq, List.all_eq_true, Pipeline.rowInB] at h
  obtain ⟨⟨h1, h2⟩, h3⟩ := h
  exact ⟨h1, (sortedByTimeB_iff _).1 h3, fun r hr => (h2 r hr).1.2, fun r hr => ⟨(h2 r hr).1.1, (h2 r hr).2⟩⟩

theorem chunkOKB_of_wf {c : Chunk} (h : c.wf = true) : Pipeline.chunkOKB c = true := by
  obtain ⟨-, hse, hs, hpos, hin⟩ := (Chunk.wf_iff c).1 h
  simp only [Pipeline.chunkOKB, Bool.and_eq_true, decide_eq_true_eq, List.all_eq_true, Pipeline.rowInB]
  exact ⟨⟨hse, fun r hr => ⟨⟨(hin r hr).1, hpos r hr⟩, (hin r hr).2⟩⟩, (sortedByTimeB_iff _).2 hs⟩

theorem chain_of_padjacent {c : Chunk} {rest : List Chunk} (h : Pipeline.adjacentB (c :: rest) = true) :
    Chain c.stop rest := by
  induction rest generalizing c with
  | nil => trivial
  | cons d rest ih =>
    simp only [Pipeline.adjacentB, Bool.and_eq_true, decide_eq_true_eq] at h
    exact ⟨h.1.symm, ih h.2⟩

theorem plastStop_eq (b : Chunk) (rest : List Chunk) : Pipeline.lastStop b.stop rest = lastStop b rest := by
  induction rest generalizing b with
  | nil => rfl
  | cons c rest ih => simp only [Pipeline.lastStop, lastStop]; exact ih c

/-- `Tiles` in the vocabulary of the pipeline layer -/
theorem tiles_span : ∀ (outs : List Chunk) (a b : Int), Tiles a b outs →
    Pipeline.lastStop a outs = b ∧ Pipeline.adjacentB outs = true ∧ (∀ c, outs.head? = some c → c.start = a) := by
  intro outs
  induction outs with
  | nil => intro a b h; exact ⟨h, rfl, by simp⟩
  | cons c rest ih =>
    intro a b h
    obtain ⟨h1, h2, h3⟩ := h
    obtain ⟨i1, i2, i3⟩ := ih c.stop b h3
    refine ⟨by simp only [Pipeline.lastStop]; exact i1, ?_, by simp [h1]⟩
    cases rest with
    | nil => rfl
    | cons d rest =>
      simp only [Pipeline.adjacentB, Bool.and_eq_true, decide_eq_true_eq]
      exact ⟨(i3 d rfl).symm, i2⟩

theorem iterLoop_ok_start {P : Spec} {kind : String} {st : State} {buf : Chunk} {rest : List Chunk}
    {r : List (Dict Chunk) × State} (h : iterLoop P kind st buf rest = .ok r) : 0 ≤ buf.start := by
  unfold iterLoop at h
  split at h; · cases h
  rename_i inp buf' hsp
  obtain ⟨_, -, -, -, -, -, -, h0, -⟩ := split_ranges hsp
  exact h0

/-- **The theorem the pipeline layer (C01) consumes.**  For a computation that agrees, on lists of
positive-duration rows, with a per-row window-local computation (kernel `g`, window `(wl, wr)`): on
EVERY law-abiding stream `s` over `R` (laws in the pipeline's sense; data types, run ids and run
annotations arbitrary) on which the plugin does not raise, its output is a law-abiding stream over
the same `R` whose rows are `f (rows s)`. -/
theorem runOverlap_streamSpec {g : Row → List Row → Row} (hg : Keeps g) {f : List Row → List Row} {wl wr : Int}
    (hf : ∀ rows, PositiveRows rows → f rows = perRow wl wr g rows) :
    Pipeline.StreamSpec (runOverlap f (wl, wr)) f := by
  intro R s out hlaw hspan h
  have hlaw' := hlaw
  simp only [Pipeline.LawAbiding, Pipeline.lawAbidingB, Bool.and_eq_true, List.all_eq_true] at hlaw'
  obtain ⟨hall, hadj⟩ := hlaw'
  have hcok : ∀ c ∈ s, Cok c := fun c hc => cok_of_chunkOKB (hall c hc)
  obtain ⟨c0, cl, hhead, hlast, htiles, hlen⟩ := runOverlap_tiles (fun c hc => (hcok c hc).1) h
  unfold runOverlap at h
  split at h; · cases h
  rename_i c rest
  split at h; · cases h
  rename_i rid hrid
  split at h; · cases h
  rename_i ds hds
  simp only [runDicts] at hds
  split at hds; · cases hds
  rename_i outs1 st1 hloop
  simp only [Except.ok.injEq] at hds
  subst hds
  have hloop' : iterLoop (spec1 f (wl, wr) rid) c.kind ⟨optDict c.kind none, [], 0⟩ c rest = .ok (outs1, st1) := hloop
  have h0 := iterLoop_ok_start hloop
  have hcwf : c.wf = true := wf_of_cok (hcok c (by simp)) h0
  obtain ⟨ocs, cr, h1, h2, hrows, hwfs⟩ := iterLoop_pc hg hf rid c.kind (allRows (c :: rest)) rest none [] 0 c [] [] []
    outs1 st1 hcwf (fun c' hc' => hcok c' (by simp [hc'])) (chain_of_padjacent hadj)
    (Or.inl ⟨rfl, rfl, rfl, h0⟩) (by simp) (by simp) (by simp [allRows_cons]) (by simp) hloop'
  rw [h1, h2, mapE_single_append] at h
  simp only [Except.ok.injEq] at h
  subst h
  simp only [List.head?_cons, Option.some.injEq] at hhead
  subst hhead
  obtain ⟨t1, t2, t3⟩ := tiles_span _ _ _ htiles
  simp only [Pipeline.span, Option.some.injEq] at hspan
  refine ⟨?_, ?_, ?_⟩
  · simp only [Pipeline.LawAbiding, Pipeline.lawAbidingB, Bool.and_eq_true, List.all_eq_true]
    exact ⟨fun c' hc' => chunkOKB_of_wf (hwfs c' hc'), t2⟩
  · cases hout : ocs ++ [cr] with
    | nil => simp at hout
    | cons d ds =>
      rw [hout] at t1 t3
      simp only [Pipeline.span, Pipeline.lastStop] at t1 ⊢
      rw [t3 d rfl, t1, ← hspan, plastStop_eq, lastStop_spec c rest cl hlast]
  · have hposT : PositiveRows (allRows (c :: rest)) := by
      intro r hr
      simp only [allRows, List.mem_flatMap] at hr
      obtain ⟨c', hc', hr'⟩ := hr
      exact (hcok c' hc').2.2.1 r hr'
    have e : Pipeline.rows (ocs ++ [cr]) = allRows ocs ++ cr.rows := by simp [Pipeline.rows, allRows]
    have e2 : Pipeline.rows (c :: rest) = allRows (c :: rest) := rfl
    rw [e, hrows, e2, hf _ hposT, perRow_eq_ctxMap, allRows_cons]
    simp

end Strax.Overlap
