import StraxModel.Lemmas.Mailbox
/-
  Mailbox runs inside the domain of C05 (valid numbering, no kill, no failing source): the sender's
  bookkeeping invariant `ProgInv` and exact delivery at termination.
-/
namespace Strax.Mailbox
open Strax

/-! ### programs inside the property's domain -/

/-- the (number, message) pairs a program sends when nothing is dropped: explicit numbers as given,
`_send_from` numbering = position -/
def numbered : List SrcItem → Nat → List (Nat × Msg)
  | [], _ => []
  | .item (some n) m :: r, p => (n, m) :: numbered r (p + 1)
  | .item none m :: r, p => (p, m) :: numbered r (p + 1)
  | .raise :: r, p => numbered r (p + 1)

def SrcItem.ok : SrcItem → Bool
  | .item _ .stop => false
  | .item _ _ => true
  | .raise => false

/-- decidable: the source never raises and never yields the end marker itself, nobody calls `kill`, and the
message numbers (explicit, or the position for `_send_from` numbering) are exactly `0 … n-1`, each once -/
def Config.valid (c : Config) : Bool :=
  c.prog.all SrcItem.ok && c.killers.isEmpty &&
  decide ((numbered c.prog 0).map (·.1)).Nodup && ((numbered c.prog 0).map (·.1)).all (fun n => decide (n < c.prog.length)) &&
  (List.range c.prog.length).all (fun j => ((numbered c.prog 0).map (·.1)).contains j)

theorem numbered_length (prog : List SrcItem) (p : Nat) (h : prog.all SrcItem.ok = true) :
    (numbered prog p).length = prog.length := by
  induction prog generalizing p with
  | nil => rfl
  | cons a r ih =>
    simp only [List.all_cons, Bool.and_eq_true] at h
    cases a with
    | raise => simp [SrcItem.ok] at h
    | item num m => cases num <;> simp [numbered, ih _ h.2]

theorem numbered_getElem? (prog : List SrcItem) (p k : Nat) (num : Option Nat) (m : Msg)
    (h : prog.all SrcItem.ok = true) (hk : prog[k]? = some (.item num m)) :
    (numbered prog p)[k]? = some (resolveNum num (p + k), m) := by
  induction prog generalizing p k with
  | nil => simp at hk
  | cons a r ih =>
    simp only [List.all_cons, Bool.and_eq_true] at h
    cases k with
    | zero =>
      simp at hk; subst hk
      cases num <;> simp [numbered, resolveNum]
    | succ j =>
      simp at hk
      have := ih (p + 1) j h.2 hk
      cases a with
      | raise => simp [SrcItem.ok] at h
      | item num' m' =>
        cases num' <;> simp only [numbered, List.getElem?_cons_succ, this] <;> cases num <;> simp [resolveNum] <;> omega

theorem numbered_no_stop (prog : List SrcItem) (p : Nat) (h : prog.all SrcItem.ok = true) :
    ∀ e ∈ numbered prog p, e.2 ≠ .stop := by
  induction prog generalizing p with
  | nil => intro e he; cases he
  | cons a r ih =>
    simp only [List.all_cons, Bool.and_eq_true] at h
    cases a with
    | raise => simp [SrcItem.ok] at h
    | item num m =>
      have hm : m ≠ .stop := by
        intro e; subst e; simp [SrcItem.ok] at h
      cases num <;> (simp only [numbered, List.mem_cons]; rintro e (rfl | he); exact hm; exact ih _ h.2 e he)

theorem getMsg_isSome_mem {l : List (Nat × Msg)} {j : Nat} (h : (getMsg l j).isSome) : j ∈ l.map (·.1) := by
  induction l with
  | nil => simp [getMsg] at h
  | cons a r ih =>
    simp only [getMsg] at h
    by_cases ha : a.1 = j
    · simp [ha]
    · simp [ha] at h; simp [ih h]

theorem getMsg_mem {l : List (Nat × Msg)} {j : Nat} {m : Msg} (h : getMsg l j = some m) : (j, m) ∈ l := by
  induction l with
  | nil => simp [getMsg] at h
  | cons a r ih =>
    simp only [getMsg] at h
    by_cases ha : a.1 = j
    · simp [ha] at h; simp [← ha, ← h]
    · simp [ha] at h; simp [ih h]

theorem mem_getMsg_isSome {l : List (Nat × Msg)} {j : Nat} (h : j ∈ l.map (·.1)) : (getMsg l j).isSome := by
  induction l with
  | nil => simp at h
  | cons a r ih =>
    simp only [getMsg]
    by_cases ha : a.1 = j
    · simp [ha]
    · simp only [ha, if_false]
      simp only [List.map_cons, List.mem_cons] at h
      rcases h with h | h
      · exact absurd h.symm ha
      · exact ih h

/-- a number that has not been sent is not behind any subscriber -/
theorem le_minNext_of_not_sent {mb : MB} {sent} (h : MBInv mb sent) {n : Nat} (hn : n ∉ sent.map (·.1)) :
    ¬ n < minNext mb.subs := by
  intro hlt
  cases hs : mb.subs with
  | nil => simp [hs, minNext] at hlt
  | cons a r =>
    obtain ⟨sub, hm, he⟩ := minNext_mem (subs := mb.subs) (by simp [hs])
    obtain ⟨i, hi1, hi2⟩ := List.getElem_of_mem hm
    have hi : mb.subs[i]? = some sub := by rw [List.getElem?_eq_getElem hi1, hi2]
    exact hn (getMsg_isSome_mem (h.found i sub hi n (by omega)))


/-- `send` on a mailbox that is neither closed nor killed, with a number nobody has passed: push or wait -/
theorem sendCore_alive {mb mb' : MB} {n : Nat} {m : Msg} {out : SendOut} (hc : mb.closed = false)
    (hfk : mb.forceKilled = false) (hk : mb.killed = false) (hn : ¬ n < minNext mb.subs)
    (hs : mb.sendCore n m = some (out, mb')) :
    (out = .sent n ∧ mb' = mb.push n m ∧ mb.canWrite = true) ∨
    (out = .waiting n ∧ mb' = { mb with writeFlag := some false } ∧ mb.canWrite = false) := by
  simp only [MB.sendCore, hc, hfk, hk, hn, Bool.false_eq_true, if_false] at hs
  split at hs
  · simp at hs
  · split at hs
    · rename_i hw
      simp only [Option.some.injEq, Prod.mk.injEq] at hs; obtain ⟨rfl, rfl⟩ := hs
      exact Or.inl ⟨rfl, rfl, hw⟩
    · rename_i hw
      simp only [Option.some.injEq, Prod.mk.injEq] at hs; obtain ⟨rfl, rfl⟩ := hs
      exact Or.inr ⟨rfl, by simp [hc, hfk, hk], by simpa using hw⟩
  · split at hs
    · rename_i hw
      simp only [Option.some.injEq, Prod.mk.injEq] at hs; obtain ⟨rfl, rfl⟩ := hs
      exact Or.inr ⟨rfl, by simp [hc, hfk, hk], by simpa using hw⟩
    · rename_i hw
      simp only [Option.some.injEq, Prod.mk.injEq] at hs; obtain ⟨rfl, rfl⟩ := hs
      exact Or.inl ⟨rfl, rfl, by simpa using hw⟩

/-- where the sender is in its program, as long as nothing was dropped -/
def progPc (c : Config) (s : Sys) : Prop :=
  match s.spc with
  | .gate => s.prog = c.prog.drop s.sent.length ∧ s.sent = (numbered c.prog 0).take s.sent.length ∧ s.mb.closed = false
  | .fetch => s.prog = c.prog.drop s.sent.length ∧ s.sent = (numbered c.prog 0).take s.sent.length ∧ s.mb.closed = false
  | .send num m =>
    s.prog = c.prog.drop (s.sent.length + 1) ∧ s.sent = (numbered c.prog 0).take s.sent.length ∧ s.mb.closed = false ∧
    (numbered c.prog 0)[s.sent.length]? = some (resolveNum num s.sent.length, m)
  | .close => s.prog = [] ∧ s.sent = numbered c.prog 0 ∧ s.mb.closed = false
  | .done => s.sent = numbered c.prog 0 ++ [(c.prog.length, .stop)]
  | .exc _ => False
  | .dead _ => False

structure ProgInv (c : Config) (s : Sys) : Prop where
  killed : s.mb.killed = false
  fkilled : s.mb.forceKilled = false
  noKill : s.killers = []
  nsent : s.mb.nSent = s.sent.length
  pc : progPc c s
  noDead : ∀ r ∈ s.readers, ∀ e, r.pc ≠ .dead e

theorem drop_eq_cons {α} {l : List α} {k : Nat} {a : α} {r : List α} (h : l.drop k = a :: r) :
    l[k]? = some a ∧ l.drop (k + 1) = r := by
  induction l generalizing k with
  | nil => simp at h
  | cons b t ih =>
    cases k with
    | zero => simp at h; simp [h.1, h.2]
    | succ j => simp at h; simpa using ih h

theorem valid_parts {c : Config} (hv : c.valid = true) :
    c.prog.all SrcItem.ok = true ∧ c.killers = [] ∧ ((numbered c.prog 0).map (·.1)).Nodup ∧
    (∀ n ∈ (numbered c.prog 0).map (·.1), n < c.prog.length) := by
  simp only [Config.valid, Bool.and_eq_true, decide_eq_true_eq, List.isEmpty_iff, List.all_eq_true] at hv
  exact ⟨by simpa [List.all_eq_true] using hv.1.1.1.1, hv.1.1.1.2, hv.1.1.2, hv.1.2⟩

theorem valid_surj {c : Config} (hv : c.valid = true) : ∀ j, j < c.prog.length → j ∈ (numbered c.prog 0).map (·.1) := by
  simp only [Config.valid, Bool.and_eq_true, List.all_eq_true, List.mem_range, List.contains_iff_mem] at hv
  exact hv.2

theorem ProgInv.init {c : Config} (hv : c.valid = true) : ProgInv c (init c) := by
  obtain ⟨_, hk, _, _⟩ := valid_parts hv
  refine ⟨rfl, rfl, by simp [Mailbox.init, hk], rfl, ?_, ?_⟩
  · simp only [progPc, Mailbox.init]
    cases c.lazy <;> simp
  · intro r hr e
    simp only [Mailbox.init, List.mem_map] at hr
    obtain ⟨_, _, rfl⟩ := hr
    simp

/-- the number at position `k` of a duplicate-free list does not occur among the first `k` -/
theorem nodup_take_not_mem {l : List (Nat × Msg)} (hnd : (l.map (·.1)).Nodup) {k : Nat} {e : Nat × Msg}
    (hk : l[k]? = some e) : e.1 ∉ (l.take k).map (·.1) := by
  induction l generalizing k with
  | nil => simp at hk
  | cons a r ih =>
    simp only [List.map_cons, List.nodup_cons] at hnd
    cases k with
    | zero => simp
    | succ j =>
      simp at hk
      simp only [List.take_succ_cons, List.map_cons, List.mem_cons, not_or]
      refine ⟨?_, ih hnd.2 hk⟩
      intro he
      apply hnd.1
      rw [← he]
      exact List.mem_map_of_mem (List.mem_of_getElem? hk)


theorem push_fields (mb : MB) (n : Nat) (m : Msg) :
    (mb.push n m).killed = mb.killed ∧ (mb.push n m).forceKilled = mb.forceKilled ∧
    (mb.push n m).closed = mb.closed ∧ (mb.push n m).nSent = mb.nSent + 1 := by
  simp [MB.push, MB.notifyRead]

theorem ProgInv.stepSender {c : Config} {s s' : Sys} (hv : c.valid = true) (hinv : Inv s) (h : ProgInv c s)
    (hs : stepSender s = some s') : ProgInv c s' := by
  obtain ⟨hok, _, hnd, hlt⟩ := valid_parts hv
  have hlen := numbered_length c.prog 0 hok
  have hpc := h.pc
  unfold Mailbox.stepSender at hs
  split at hs
  · -- gate
    rename_i hspc
    simp only [progPc, hspc] at hpc
    split at hs
    · simp at hs
    · rename_i ok mb hg
      simp only [Option.some.injEq] at hs; subst hs
      simp only [MB.gateStep] at hg
      split at hg
      · simp at hg
      · split at hg <;>
          (simp only [Option.some.injEq, Prod.mk.injEq] at hg; obtain ⟨rfl, rfl⟩ := hg
           exact ⟨h.killed, h.fkilled, h.noKill, h.nsent, by simpa [progPc] using hpc, h.noDead⟩)
  · -- fetch
    rename_i hspc
    simp only [progPc, hspc] at hpc
    obtain ⟨hprog, hsent, hcl⟩ := hpc
    split at hs
    · rename_i hnil
      simp only [Option.some.injEq] at hs; subst hs
      refine ⟨h.killed, h.fkilled, h.noKill, h.nsent, ?_, h.noDead⟩
      simp only [progPc]
      refine ⟨hnil, ?_, hcl⟩
      rw [hnil] at hprog
      have : c.prog.length ≤ s.sent.length := List.drop_eq_nil_iff.mp hprog.symm
      rw [hsent, List.take_of_length_le (by rw [hlen]; exact this)]
    · rename_i num m rest hcons
      simp only [Option.some.injEq] at hs; subst hs
      rw [hcons] at hprog
      obtain ⟨hget, hdrop⟩ := drop_eq_cons hprog.symm
      refine ⟨h.killed, h.fkilled, h.noKill, h.nsent, ?_, h.noDead⟩
      simp only [progPc]
      refine ⟨hdrop.symm, hsent, hcl, ?_⟩
      have := numbered_getElem? c.prog 0 s.sent.length num m hok hget
      simpa using this
    · rename_i rest hcons
      rw [hcons] at hprog
      obtain ⟨hget, _⟩ := drop_eq_cons hprog.symm
      have hm : SrcItem.raise ∈ c.prog := List.mem_of_getElem? hget
      have := (List.all_eq_true.mp hok) _ hm
      simp [SrcItem.ok] at this
  · -- send
    rename_i num m hspc
    simp only [progPc, hspc] at hpc
    obtain ⟨hprog, hsent, hcl, hget⟩ := hpc
    have hres : resolveNum num s.mb.nSent = resolveNum num s.sent.length := by rw [h.nsent]
    have hnot : ¬ resolveNum num s.sent.length < minNext s.mb.subs := by
      apply le_minNext_of_not_sent hinv.mb
      have := nodup_take_not_mem hnd hget
      rw [← hsent] at this
      exact this
    have hsentCase : ∀ mb', mb' = s.mb.push (resolveNum num s.sent.length) m →
        ProgInv c { s with mb := mb', sent := s.sent ++ [(resolveNum num s.sent.length, m)], spc := s.afterSend } := by
      intro mb' hmb
      obtain ⟨p1, p2, p3, p4⟩ := push_fields s.mb (resolveNum num s.sent.length) m
      refine ⟨by rw [hmb, p1]; exact h.killed, by rw [hmb, p2]; exact h.fkilled, h.noKill,
        by rw [hmb, p4, h.nsent]; simp, ?_, h.noDead⟩
      have hsent' : s.sent ++ [(resolveNum num s.sent.length, m)] =
          (numbered c.prog 0).take (s.sent.length + 1) := by
        rw [List.take_add_one, hget, ← hsent]; rfl
      simp only [progPc, Sys.afterSend]
      cases s.mb.lazy <;>
        simp only [Bool.false_eq_true, if_false, if_true, List.length_append, List.length_cons, List.length_nil] <;>
        exact ⟨hprog, hsent', by rw [hmb, p3]; exact hcl⟩
    have hwaitCase : ∀ mb', mb' = ({ s.mb with writeFlag := some false } : MB) →
        ProgInv c { s with mb := mb', spc := .send (some (resolveNum num s.sent.length)) m } := by
      intro mb' hmb
      refine ⟨by rw [hmb]; exact h.killed, by rw [hmb]; exact h.fkilled, h.noKill, by rw [hmb]; exact h.nsent, ?_, h.noDead⟩
      simp only [progPc]
      exact ⟨hprog, hsent, by rw [hmb]; exact hcl, by simpa [resolveNum] using hget⟩
    split at hs
    · simp at hs
    · rename_i n mb hst
      simp only [Option.some.injEq] at hs; subst hs
      unfold MB.sendStep at hst; rw [hres] at hst
      rcases sendCore_alive hcl h.fkilled h.killed hnot hst with ⟨ho, hmb, _⟩ | ⟨ho, hmb, _⟩
      · cases ho; exact hsentCase _ hmb
      · cases ho
    · rename_i mb hst
      unfold MB.sendStep at hst; rw [hres] at hst
      rcases sendCore_alive hcl h.fkilled h.killed hnot hst with ⟨ho, hmb, _⟩ | ⟨ho, hmb, _⟩ <;> cases ho
    · rename_i n mb hst
      simp only [Option.some.injEq] at hs; subst hs
      unfold MB.sendStep at hst; rw [hres] at hst
      rcases sendCore_alive hcl h.fkilled h.killed hnot hst with ⟨ho, hmb, _⟩ | ⟨ho, hmb, _⟩
      · cases ho
      · cases ho; exact hwaitCase _ hmb
    · rename_i e mb hst
      unfold MB.sendStep at hst; rw [hres] at hst
      rcases sendCore_alive hcl h.fkilled h.killed hnot hst with ⟨ho, hmb, _⟩ | ⟨ho, hmb, _⟩ <;> cases ho
  · -- close
    rename_i hspc
    simp only [progPc, hspc] at hpc
    obtain ⟨hprog, hsent, hcl⟩ := hpc
    have hK : s.mb.nSent = c.prog.length := by rw [h.nsent, hsent, hlen]
    have hnot : ¬ s.mb.nSent < minNext s.mb.subs := by
      apply le_minNext_of_not_sent hinv.mb
      intro hmem
      rw [hsent] at hmem
      have := hlt _ hmem
      omega
    split at hs
    · simp at hs
    · rename_i n mb hst
      simp only [Option.some.injEq] at hs; subst hs
      simp only [MB.sendStep, resolveNum] at hst
      rcases sendCore_alive hcl h.fkilled h.killed hnot hst with ⟨ho, hmb, _⟩ | ⟨ho, hmb, _⟩
      · cases ho
        obtain ⟨p1, p2, p3, p4⟩ := push_fields s.mb s.mb.nSent .stop
        refine ⟨by simp only [hmb, p1]; exact h.killed, by simp only [hmb, p2]; exact h.fkilled, h.noKill, ?_, ?_, h.noDead⟩
        · simp only [hmb, p4, List.length_append, List.length_cons, List.length_nil]; rw [h.nsent]
        · simp only [progPc]; rw [hsent, hK]
      · cases ho
    · rename_i mb hst
      simp only [MB.sendStep, resolveNum] at hst
      rcases sendCore_alive hcl h.fkilled h.killed hnot hst with ⟨ho, hmb, _⟩ | ⟨ho, hmb, _⟩ <;> cases ho
    · rename_i n mb hst
      simp only [Option.some.injEq] at hs; subst hs
      simp only [MB.sendStep, resolveNum] at hst
      rcases sendCore_alive hcl h.fkilled h.killed hnot hst with ⟨ho, hmb, _⟩ | ⟨ho, hmb, _⟩
      · cases ho
      · cases ho
        refine ⟨by rw [hmb]; exact h.killed, by rw [hmb]; exact h.fkilled, h.noKill, by rw [hmb]; exact h.nsent, ?_, h.noDead⟩
        simp only [progPc, hspc]
        exact ⟨hprog, hsent, by rw [hmb]; exact hcl⟩
    · rename_i e mb hst
      simp only [MB.sendStep, resolveNum] at hst
      rcases sendCore_alive hcl h.fkilled h.killed hnot hst with ⟨ho, hmb, _⟩ | ⟨ho, hmb, _⟩ <;> cases ho
  · rename_i hspc; simp only [progPc, hspc] at hpc
  · simp at hs
  · simp at hs


theorem deliver_ne_dead (fd : List Nat) (msgs g : List Msg) : ∀ e, (deliver fd msgs g).pc ≠ .dead e := by
  induction msgs generalizing g with
  | nil => intro e; simp [deliver]
  | cons m r ih =>
    cases m with
    | stop => intro e; simp [deliver]
    | plain v => simp only [deliver]; exact ih _
    | fut id v =>
      simp only [deliver]
      split
      · exact ih _
      · intro e; simp

theorem progPc_congr {c : Config} {s s' : Sys} (h1 : s'.spc = s.spc) (h2 : s'.prog = s.prog) (h3 : s'.sent = s.sent)
    (h4 : s'.mb.closed = s.mb.closed) (h : progPc c s) : progPc c s' := by
  unfold progPc at h ⊢
  rw [h1, h2, h3, h4]; exact h

theorem ProgInv.step {c : Config} {s s' : Sys} {t : ThreadId} (hv : c.valid = true) (hinv : Inv s) (h : ProgInv c s)
    (hs : step s t = some s') : ProgInv c s' := by
  cases t with
  | sender => exact h.stepSender hv hinv hs
  | reader i =>
    have hset : ∀ (r' : Reader), (∀ e, r'.pc ≠ .dead e) → ∀ r ∈ s.readers.set i r', ∀ e, r.pc ≠ .dead e := by
      intro r' hr' r hr
      rcases List.mem_or_eq_of_mem_set hr with hm | rfl
      · exact h.noDead r hm
      · exact hr'
    simp only [Mailbox.step, stepReader] at hs
    split at hs
    · simp at hs
    · rename_i r0 hr0
      split at hs
      · split at hs
        · simp at hs
        · rename_i mb hst
          simp only [Option.some.injEq] at hs; subst hs
          obtain ⟨hk, _, hn, hcl, hfk, _⟩ := readStep_shape hst
          exact ⟨by rw [hk]; exact h.killed, by rw [hfk]; exact h.fkilled, h.noKill, by rw [hn]; exact h.nsent,
            progPc_congr (s := s) rfl rfl rfl hcl h.pc, h.noDead⟩
        · rename_i mb hst
          obtain ⟨_, _, _, _, _, _, sub, s2, _, _, _, hout⟩ := readStep_shape hst
          simp only at hout
          rw [h.killed] at hout; cases hout
        · rename_i msgs mb hst
          simp only [Option.some.injEq] at hs; subst hs
          obtain ⟨hk, _, hn, hcl, hfk, _⟩ := readStep_shape hst
          exact ⟨by rw [hk]; exact h.killed, by rw [hfk]; exact h.fkilled, h.noKill, by rw [hn]; exact h.nsent,
            progPc_congr (s := s) rfl rfl rfl hcl h.pc, hset _ (deliver_ne_dead _ _ _)⟩
      · split at hs
        · split at hs
          · simp only [Option.some.injEq] at hs; subst hs
            exact ⟨h.killed, h.fkilled, h.noKill, h.nsent, progPc_congr (s := s) rfl rfl rfl rfl h.pc,
              hset _ (deliver_ne_dead _ _ _)⟩
          · simp at hs
        · simp at hs
      · simp at hs
      · simp at hs
  | worker j =>
    simp only [Mailbox.step, stepWorker] at hs
    split at hs
    · simp only [Option.some.injEq] at hs; subst hs
      exact ⟨h.killed, h.fkilled, h.noKill, h.nsent, progPc_congr (s := s) rfl rfl rfl rfl h.pc, h.noDead⟩
    · simp at hs
  | killer k =>
    simp only [Mailbox.step, stepKiller, h.noKill] at hs
    simp at hs

theorem ProgInv.reachable {c : Config} {s : Sys} (hv : c.valid = true) (h : Reachable c s) : ProgInv c s := by
  induction h with
  | init => exact ProgInv.init hv
  | step hr hs ih => exact ih.step hv (Inv.reachable hr) hs

/-! ### the log once the sender is done -/

theorem getMsg_append_left {l r : List (Nat × Msg)} {j : Nat} (h : (getMsg l j).isSome) : getMsg (l ++ r) j = getMsg l j := by
  induction l with
  | nil => simp [getMsg] at h
  | cons a t ih =>
    simp only [List.cons_append, getMsg] at h ⊢
    by_cases ha : a.1 = j
    · simp [ha]
    · simp [ha] at h ⊢; exact ih h

theorem getMsg_append_right {l r : List (Nat × Msg)} {j : Nat} (h : j ∉ l.map (·.1)) : getMsg (l ++ r) j = getMsg r j := by
  induction l with
  | nil => rfl
  | cons a t ih =>
    simp only [List.map_cons, List.mem_cons, not_or] at h
    simp only [List.cons_append, getMsg, if_neg (Ne.symm h.1)]
    exact ih h.2

theorem inOrder_append_left {l r : List (Nat × Msg)} {k : Nat} (h : ∀ j, j < k → (getMsg l j).isSome) :
    inOrder (l ++ r) k = inOrder l k := by
  induction k with
  | zero => rfl
  | succ k ih =>
    simp only [inOrder]
    rw [ih (fun j hj => h j (by omega)), getMsg_append_left (h k (by omega))]

theorem inOrder_no_stop {l : List (Nat × Msg)} (h : ∀ e ∈ l, e.2 ≠ .stop) (k : Nat) : Msg.stop ∉ inOrder l k := by
  induction k with
  | zero => simp [inOrder]
  | succ k ih =>
    simp only [inOrder, List.mem_append, not_or]
    refine ⟨ih, ?_⟩
    cases hg : getMsg l k with
    | none => simp
    | some m =>
      simp only [Option.toList_some, List.mem_singleton]
      intro e
      exact h _ (getMsg_mem hg) e.symm

theorem inOrder_none {l : List (Nat × Msg)} {k n : Nat} (hkn : k ≤ n) (h : ∀ j, k ≤ j → getMsg l j = none) :
    inOrder l n = inOrder l k := by
  induction n with
  | zero => have : k = 0 := by omega
            subst this; rfl
  | succ n ih =>
    by_cases hk : k = n + 1
    · subst hk; rfl
    · simp only [inOrder]
      rw [h n (by omega), ih (by omega)]; simp

/-- splitting a list at its first end marker is unique -/
theorem split_at_stop {a b c d : List Msg} (ha : Msg.stop ∉ a) (hc : Msg.stop ∉ c)
    (h : a ++ Msg.stop :: b = c ++ Msg.stop :: d) : a = c ∧ b = d := by
  induction a generalizing c with
  | nil =>
    cases c with
    | nil => simp at h; exact ⟨rfl, h⟩
    | cons x c' =>
      simp at h; simp at hc; exact absurd h.1 hc.1
  | cons y a' ih =>
    cases c with
    | nil => simp at h; simp at ha; exact absurd h.1.symm ha.1
    | cons x c' =>
      simp at h ha hc
      obtain ⟨r1, r2⟩ := ih ha.2 hc.2 h.2
      exact ⟨by rw [h.1, r1], r2⟩


theorem getMsg_none_of_not_mem {l : List (Nat × Msg)} {j : Nat} (h : j ∉ l.map (·.1)) : getMsg l j = none := by
  cases hg : getMsg l j with
  | none => rfl
  | some m => exact absurd (getMsg_isSome_mem (by simp [hg])) h

/-- at termination of a run inside the domain, every subscriber has been handed exactly the messages of
the program, in number order -/
theorem delivery_exact_core {c : Config} {s : Sys} (hv : c.valid = true) (h : Reachable c s) (hf : s.final = true)
    (i : Nat) (r : Reader) (hr : s.readers[i]? = some r) :
    r.got = inOrder (numbered c.prog 0) c.prog.length ∧ ∃ rest, r.pc = .done rest := by
  obtain ⟨hok, _, hnd, hlt⟩ := valid_parts hv
  have hsurj := valid_surj hv
  have hlen := numbered_length c.prog 0 hok
  have hp := ProgInv.reachable hv h
  have hinv := Inv.reachable h
  simp only [Sys.final, Bool.and_eq_true, List.all_eq_true] at hf
  obtain ⟨⟨⟨hsf, hrf⟩, _⟩, _⟩ := hf
  -- the sender is done: the log is the program followed by the end marker
  have hsent : s.sent = numbered c.prog 0 ++ [(c.prog.length, .stop)] := by
    have := hp.pc
    unfold progPc at this
    cases hspc : s.spc <;> simp only [hspc, SPc.finished] at this hsf <;> first | exact this | cases hsf | cases this
  have hrmem : r ∈ s.readers := List.mem_of_getElem? hr
  have hfin := hrf r hrmem
  obtain ⟨rest, hpc⟩ : ∃ rest, r.pc = .done rest := by
    cases hpc : r.pc with
    | read => simp [hpc, RPc.finished] at hfin
    | futW p => simp [hpc, RPc.finished] at hfin
    | done rest => exact ⟨rest, rfl⟩
    | dead e => exact absurd hpc (hp.noDead r hrmem e)
  refine ⟨?_, rest, hpc⟩
  have hilt : i < s.mb.subs.length := by
    rw [← hinv.rd.len]; exact (List.getElem?_eq_some_iff.mp hr).1
  have hsub : s.mb.subs[i]? = some s.mb.subs[i] := List.getElem?_eq_getElem hilt
  obtain ⟨hns, hd⟩ := hinv.rd.deliv i _ r hsub hr
  rw [hpc] at hd
  simp only [tailOf] at hd
  generalize s.mb.subs[i].next = nx at hd
  -- the log in number order
  have hfound : ∀ j, j < c.prog.length → (getMsg (numbered c.prog 0) j).isSome := fun j hj => mem_getMsg_isSome (hsurj j hj)
  have hKnot : c.prog.length ∉ (numbered c.prog 0).map (·.1) := fun hm => by have := hlt _ hm; omega
  have hP : ∀ n, n ≤ c.prog.length → inOrder s.sent n = inOrder (numbered c.prog 0) n := by
    intro n hn; rw [hsent]; exact inOrder_append_left (fun j hj => hfound j (by omega))
  have hnostop : ∀ n, Msg.stop ∉ inOrder (numbered c.prog 0) n := inOrder_no_stop (numbered_no_stop c.prog 0 hok)
  by_cases hnx : nx ≤ c.prog.length
  · -- impossible: the subscriber has seen the end marker
    have : Msg.stop ∈ inOrder s.sent nx := by rw [← hd]; simp
    rw [hP nx hnx] at this
    exact absurd this (hnostop nx)
  · have hK1 : inOrder s.sent (c.prog.length + 1) = inOrder (numbered c.prog 0) c.prog.length ++ [Msg.stop] := by
      simp only [inOrder]
      rw [hP _ (Nat.le_refl _), hsent, getMsg_append_right hKnot]
      simp [getMsg]
    have hbeyond : ∀ j, c.prog.length + 1 ≤ j → getMsg s.sent j = none := by
      intro j hj
      apply getMsg_none_of_not_mem
      rw [hsent]
      simp only [List.map_append, List.map_cons, List.map_nil, List.mem_append, List.mem_singleton, not_or]
      exact ⟨fun hm => by have := hlt _ hm; omega, by omega⟩
    have hall : inOrder s.sent nx = inOrder (numbered c.prog 0) c.prog.length ++ [Msg.stop] := by
      rw [inOrder_none (k := c.prog.length + 1) (by omega) hbeyond, hK1]
    rw [hall] at hd
    exact (split_at_stop hns (hnostop _) hd).1

end Strax.Mailbox
