import StraxModel.Model.Peaks
/-
  Helper lemmas for property C19 (theory T15 Peaks).  Core tactics only (`grind`, `omega`, `simp`).
-/
namespace Strax.Peaks
open Strax

/-! ## slices and sums -/

theorem slice_nil_of_le {α} (a : List α) {lo hi : Nat} (h : hi ≤ lo) : slice a lo hi = [] := by
  unfold slice; have : hi - lo = 0 := by omega
  simp [this]

theorem slice_length {α} (a : List α) (lo hi : Nat) (h : hi ≤ a.length) : (slice a lo hi).length = hi - lo := by
  unfold slice; simp; omega

theorem sum_take_succ (a : List Rat) (k : Nat) (h : k < a.length) :
    (a.take (k+1)).sum = (a.take k).sum + a.getD k 0 := by
  rw [List.take_add_one, List.sum_append]
  simp [List.getD_eq_getElem?_getD, List.getElem?_eq_getElem h, Rat.add_zero]

/-- extending a slice to the right by one sample -/
theorem sum_slice_succ_right (a : List Rat) (lo hi : Nat) (h1 : lo ≤ hi) (h2 : hi < a.length) :
    (slice a lo (hi+1)).sum = (slice a lo hi).sum + a.getD hi 0 := by
  unfold slice
  have e : hi + 1 - lo = (hi - lo) + 1 := by omega
  rw [e, sum_take_succ _ _ (by simp; omega)]
  congr 1
  simp [List.getD_eq_getElem?_getD]
  congr 2; omega

/-- shrinking a non-empty slice from the left by one sample -/
theorem sum_slice_succ_left (a : List Rat) (lo hi : Nat) (h1 : lo < hi) (h2 : lo < a.length) :
    (slice a (lo+1) hi).sum = (slice a lo hi).sum - a.getD lo 0 := by
  unfold slice
  rw [List.drop_eq_getElem_cons h2]
  have e : hi - lo = (hi - (lo+1)) + 1 := by omega
  rw [e, List.take_succ_cons, List.sum_cons]
  simp [List.getD_eq_getElem?_getD, List.getElem?_eq_getElem h2]
  grind

/-! ## symmetric_moving_average -/

/-- one iteration of the moving-average loop keeps "asum = sum of the current window, count = its size" -/
theorem sma_step (a : List Rat) (w i : Nat) (hw : 1 ≤ w) (hin : i < a.length) :
    smaStep true a w a.length i
        ((slice a (i - (w+1)) (min a.length (i+w))).sum, ((min a.length (i+w) - (i - (w+1)) : Nat) : Int))
      = ((slice a (i - w) (min a.length (i+w+1))).sum, ((min a.length (i+w+1) - (i - w) : Nat) : Int)) := by
  unfold smaStep
  by_cases h1 : (i : Int) - w - 1 ≥ 0 <;> by_cases h2 : i + w < a.length
  · have e1 : ((i : Int) - w - 1).toNat = i - (w+1) := by omega
    have e2 : min a.length (i+w) = i + w := by omega
    have e3 : min a.length (i+w+1) = i + w + 1 := by omega
    have e4 : i - w = (i - (w+1)) + 1 := by omega
    simp only [h1, h2, if_true, decide_true, e1, e2, e3]
    rw [e4, sum_slice_succ_left a _ (i+w+1) (by omega) (by omega), sum_slice_succ_right a _ (i+w) (by omega) h2]
    refine Prod.ext ?_ ?_
    · grind
    · simp only; omega
  · have e1 : ((i : Int) - w - 1).toNat = i - (w+1) := by omega
    have e2 : min a.length (i+w) = a.length := by omega
    have e3 : min a.length (i+w+1) = a.length := by omega
    have e4 : i - w = (i - (w+1)) + 1 := by omega
    simp only [h1, h2, if_true, if_false, decide_true, e1, e2, e3]
    rw [e4, sum_slice_succ_left a _ a.length (by omega) (by omega)]
    refine Prod.ext rfl ?_
    simp only; omega
  · have e2 : min a.length (i+w) = i + w := by omega
    have e3 : min a.length (i+w+1) = i + w + 1 := by omega
    have e4 : i - w = 0 := by omega
    have e5 : i - (w+1) = 0 := by omega
    simp only [h1, h2, if_true, if_false, decide_false, Bool.false_eq_true, e2, e3, e4, e5]
    rw [sum_slice_succ_right a 0 (i+w) (by omega) h2]
    refine Prod.ext rfl ?_
    simp only; omega
  · have e2 : min a.length (i+w) = a.length := by omega
    have e3 : min a.length (i+w+1) = a.length := by omega
    have e4 : i - w = 0 := by omega
    have e5 : i - (w+1) = 0 := by omega
    simp only [h1, h2, if_true, if_false, decide_false, Bool.false_eq_true, e2, e3, e4, e5]

theorem smaLoop_spec (a : List Rat) (w : Nat) (hw : 1 ≤ w) :
    ∀ (fuel i : Nat), i + fuel = a.length →
      smaLoop true a w a.length fuel i
          ((slice a (i - (w+1)) (min a.length (i+w))).sum, ((min a.length (i+w) - (i - (w+1)) : Nat) : Int))
        = (List.range' i fuel).map (windowMean a w) := by
  intro fuel
  induction fuel with
  | zero => intros; simp [smaLoop]
  | succ fuel ih =>
    intro i hi
    have hin : i < a.length := by omega
    rw [List.range'_succ, List.map_cons]
    unfold smaLoop
    simp only [sma_step a w i hw hin]
    have e : i - w = (i + 1) - (w + 1) := by omega
    have e' : i + w + 1 = i + 1 + w := by omega
    refine List.cons_eq_cons.mpr ⟨?_, ?_⟩
    · unfold windowMean; simp [Rat.intCast_natCast]
    · rw [e, e']; exact ih (i+1) (by omega)



theorem windowMean_zero (a : List Rat) (i : Nat) (h : i < a.length) : windowMean a 0 i = a.getD i 0 := by
  unfold windowMean
  have e : min a.length (i + 0 + 1) = i + 1 := by omega
  simp only [Nat.sub_zero, e]
  rw [sum_slice_succ_right a i i (Nat.le_refl _) h, slice_nil_of_le a (Nat.le_refl i)]
  have : ((i + 1 - i : Nat) : Rat) = 1 := by
    have : i + 1 - i = 1 := by omega
    rw [this]; rfl
  rw [this]; grind

theorem map_getD_range (a : List Rat) : (List.range a.length).map (fun i => a.getD i 0) = a := by
  apply List.ext_getElem
  · simp
  · intro i h1 h2
    simp [List.getD_eq_getElem?_getD, List.getElem?_eq_getElem h2]

/-- the moving average as it is now equals its defining formula, for every waveform and wing width -/
theorem symmetricMovingAverage_eq (a : List Rat) (w : Nat) :
    symmetricMovingAverage a w = (List.range a.length).map (windowMean a w) := by
  unfold symmetricMovingAverage smaGen
  by_cases hw : w = 0
  · subst hw
    simp only [if_true]
    conv => lhs; rw [← map_getD_range a]
    apply List.map_congr_left
    intro i hi
    exact (windowMean_zero a i (by simpa using hi)).symm
  · simp only [hw, if_false, if_true]
    have h := smaLoop_spec a w (by omega) a.length 0 (by omega)
    rw [List.range_eq_range']
    rw [← h]
    congr 2
    · unfold slice; simp
      congr 1
      rw [List.take_eq_take_iff]; omega
    · simp; omega


/-! ## _split_peaks -/

/-- fragments start at `a`, follow each other without gap or overlap, are non-empty, and end at `b` -/
def Tiles : List Frag → Int → Int → Prop
  | [], a, b => a = b
  | f :: fs, a, b => f.time = a ∧ 0 < f.length ∧ Tiles fs f.endt b

/-- as `Tiles` but gaps are allowed (never overlaps) -/
def NoOverlap : List Frag → Int → Prop
  | [], _ => True
  | f :: fs, a => a ≤ f.time ∧ 0 < f.length ∧ NoOverlap fs f.endt

/-- the last split index actually used (entries equal to `NO_MORE_SPLITS` are skipped) -/
def lastSplit : Int → List Int → Int
  | prev, [] => prev
  | prev, s :: rest => if s = NO_MORE_SPLITS then lastSplit prev rest else lastSplit s rest

theorem splitOne_tiles (pTime pDt origDt : Int) (hdiv : origDt ∣ pDt) :
    ∀ (splits : List Int) (prev : Int) (frags : List Frag),
      splitOne pTime pDt origDt prev splits = .ok frags →
      Tiles frags (pTime + prev * pDt) (pTime + lastSplit prev splits * pDt) := by
  intro splits
  induction splits with
  | nil => intro prev frags h; simp [splitOne] at h; subst h; simp [Tiles, lastSplit]
  | cons s rest ih =>
    intro prev frags h
    unfold splitOne at h
    by_cases hs : s = NO_MORE_SPLITS
    · simp only [hs, if_true] at h
      simp only [lastSplit, hs, if_true]
      exact ih prev frags h
    · simp only [hs, if_false] at h
      by_cases h0 : origDt = 0
      · simp [h0] at h
      · simp only [h0, if_false] at h
        obtain ⟨k, hk⟩ := hdiv
        split at h
        · simp at h
        · rename_i hlen
          split at h
          · simp at h
          · rename_i fr hfr
            simp only [Except.ok.injEq] at h
            subst h
            have e : ((s - prev) * pDt).tdiv origDt = (s - prev) * k := by
              rw [hk, show (s - prev) * (origDt * k) = origDt * ((s - prev) * k) by grind]
              exact Int.mul_tdiv_cancel_left _ h0
            simp only [Tiles, lastSplit, hs, if_false]
            refine ⟨trivial, by omega, ?_⟩
            have := ih s fr hfr
            have e2 : Frag.endt { time := pTime + prev * pDt, length := ((s - prev) * pDt).tdiv origDt, dt := origDt } = pTime + s * pDt := by
              simp only [Frag.endt, hk]; grind
            rw [e2]; exact this


theorem tdiv_pos_imp {x d : Int} (hd : 0 < d) (h : 0 < x.tdiv d) : 0 ≤ x ∧ d * x.tdiv d ≤ x := by
  have hx : 0 ≤ x := by
    false_or_by_contra
    have h1 : (-(-x)).tdiv d = -((-x).tdiv d) := Int.neg_tdiv (-x) d
    have h2 : 0 ≤ (-x).tdiv d := Int.tdiv_nonneg (by omega) (by omega)
    rw [Int.neg_neg] at h1
    omega
  exact ⟨hx, Int.mul_tdiv_self_le hx⟩

theorem NoOverlap_mono {fs : List Frag} {a a' : Int} (h : a' ≤ a) (hn : NoOverlap fs a) : NoOverlap fs a' := by
  cases fs with
  | nil => trivial
  | cons f fs => exact ⟨by have := hn.1; omega, hn.2.1, hn.2.2⟩

theorem splitOne_noOverlap (pTime pDt origDt : Int) (hd : 0 < origDt) :
    ∀ (splits : List Int) (prev : Int) (frags : List Frag),
      splitOne pTime pDt origDt prev splits = .ok frags →
      NoOverlap frags (pTime + prev * pDt) := by
  intro splits
  induction splits with
  | nil => intro prev frags h; simp [splitOne] at h; subst h; simp [NoOverlap]
  | cons s rest ih =>
    intro prev frags h
    unfold splitOne at h
    by_cases hs : s = NO_MORE_SPLITS
    · simp only [hs, if_true] at h
      exact ih prev frags h
    · simp only [hs, if_false] at h
      have h0 : origDt ≠ 0 := by omega
      simp only [h0, if_false] at h
      split at h
      · simp at h
      · rename_i hlen
        split at h
        · simp at h
        · rename_i fr hfr
          simp only [Except.ok.injEq] at h
          subst h
          have hp := tdiv_pos_imp hd (show 0 < ((s - prev) * pDt).tdiv origDt by omega)
          simp only [NoOverlap]
          refine ⟨Int.le_refl _, by omega, ?_⟩
          refine NoOverlap_mono ?_ (ih s fr hfr)
          simp only [Frag.endt]
          have e : prev * pDt + (s - prev) * pDt = s * pDt := by grind
          omega



/-! ## find_peaks -/

/-- one iteration of the hit loop on the candidate -/
def Cand.step (P : FPParams) (toPe : List Rat) (nCh : Nat) (c : Option Cand) (h : Hit) : Cand :=
  (Cand.enter P nCh c h).add toPe h

/-- the candidate built from a group of hits -/
def buildCand (P : FPParams) (toPe : List Rat) (nCh : Nat) : List Hit → Option Cand
  | [] => none
  | h :: t => some (t.foldl (fun c x => Cand.step P toPe nCh (some c) x) (Cand.step P toPe nCh none h))

theorem scanHits_cons (P : FPParams) (toPe : List Rat) (nCh : Nat) (c : Option Cand) (h : Hit) (rest : List Hit) :
    scanHits P toPe nCh c (h :: rest) =
      match rest with
      | [] => [Cand.step P toPe nCh c h]
      | nx :: _ =>
        if isFar P (Cand.step P toPe nCh c h) nx || tooLong P (Cand.step P toPe nCh c h) nx
        then Cand.step P toPe nCh c h :: scanHits P toPe nCh none rest
        else scanHits P toPe nCh (some (Cand.step P toPe nCh c h)) rest := by
  cases rest <;> simp [scanHits, Cand.step]

def membersOf (c : Option Cand) : List Hit := match c with | some c => c.members | none => []

theorem step_members (P : FPParams) (toPe : List Rat) (nCh : Nat) (c : Option Cand) (h : Hit) :
    (Cand.step P toPe nCh c h).members = membersOf c ++ [h] := by
  cases c <;> simp [Cand.step, Cand.enter, Cand.add, membersOf]

/-- the candidate is the fold of the loop body over its members -/
def Inv (P : FPParams) (toPe : List Rat) (nCh : Nat) (c : Cand) : Prop := buildCand P toPe nCh c.members = some c

def InvO (P : FPParams) (toPe : List Rat) (nCh : Nat) : Option Cand → Prop
  | none => True
  | some c => Inv P toPe nCh c

theorem step_inv (P : FPParams) (toPe : List Rat) (nCh : Nat) (c : Option Cand) (h : Hit) (hc : InvO P toPe nCh c) :
    Inv P toPe nCh (Cand.step P toPe nCh c h) := by
  unfold Inv
  rw [step_members]
  cases c with
  | none => simp [membersOf, buildCand]
  | some c =>
    simp only [InvO, Inv] at hc
    simp only [membersOf]
    cases hm : c.members with
    | nil => rw [hm] at hc; simp [buildCand] at hc
    | cons h0 t =>
      rw [hm] at hc
      simp only [buildCand, Option.some.injEq] at hc
      simp only [List.cons_append, buildCand, List.foldl_append, List.foldl_cons, List.foldl_nil, hc]

/-- partition: the members of the closed candidates, concatenated, are the hits (after what the open candidate holds) -/
theorem scanHits_flatten (P : FPParams) (toPe : List Rat) (nCh : Nat) :
    ∀ (hits : List Hit) (c : Option Cand), hits ≠ [] →
      ((scanHits P toPe nCh c hits).map (·.members)).flatten = membersOf c ++ hits := by
  intro hits
  induction hits with
  | nil => intro c h; exact absurd rfl h
  | cons h rest ih =>
    intro c _
    rw [scanHits_cons]
    cases rest with
    | nil => simp [step_members]
    | cons nx r =>
      simp only
      split
      · simp [step_members, ih none (by simp), membersOf]
      · rw [ih _ (by simp)]; simp [membersOf, step_members]

theorem scanHits_inv (P : FPParams) (toPe : List Rat) (nCh : Nat) :
    ∀ (hits : List Hit) (c : Option Cand), InvO P toPe nCh c →
      ∀ c' ∈ scanHits P toPe nCh c hits, Inv P toPe nCh c' := by
  intro hits
  induction hits with
  | nil => intro c _ c' hc'; simp [scanHits] at hc'
  | cons h rest ih =>
    intro c hc c' hc'
    rw [scanHits_cons] at hc'
    have hs := step_inv P toPe nCh c h hc
    cases rest with
    | nil => simp at hc'; subst hc'; exact hs
    | cons nx r =>
      simp only at hc'
      split at hc'
      · simp only [List.mem_cons] at hc'
        rcases hc' with rfl | hc'
        · exact hs
        · exact ih none trivial c' hc'
      · exact ih (some _) hs c' hc'


/-- inside a group: every further hit is neither far from nor too long for the candidate built so far -/
def ChainOK (P : FPParams) (toPe : List Rat) (nCh : Nat) : Cand → List Hit → Prop
  | _, [] => True
  | c, h :: rest => isFar P c h = false ∧ tooLong P c h = false ∧ ChainOK P toPe nCh (Cand.step P toPe nCh (some c) h) rest

def IsChain (P : FPParams) (toPe : List Rat) (nCh : Nat) : List Hit → Prop
  | [] => False
  | h :: t => ChainOK P toPe nCh (Cand.step P toPe nCh none h) t

theorem ChainOK_append (P : FPParams) (toPe : List Rat) (nCh : Nat) (h : Hit) :
    ∀ (l : List Hit) (c : Cand), ChainOK P toPe nCh c (l ++ [h]) ↔
      ChainOK P toPe nCh c l ∧
        isFar P (l.foldl (fun c x => Cand.step P toPe nCh (some c) x) c) h = false ∧
        tooLong P (l.foldl (fun c x => Cand.step P toPe nCh (some c) x) c) h = false := by
  intro l
  induction l with
  | nil => intro c; simp [ChainOK]
  | cons x l ih => intro c; simp only [List.cons_append, ChainOK, List.foldl_cons, ih]; grind

def ChainO (P : FPParams) (toPe : List Rat) (nCh : Nat) : Option Cand → Prop
  | none => True
  | some c => IsChain P toPe nCh c.members

theorem step_chain (P : FPParams) (toPe : List Rat) (nCh : Nat) (c : Option Cand) (h : Hit)
    (hi : InvO P toPe nCh c) (hc : ChainO P toPe nCh c)
    (hn : ∀ c0, c = some c0 → isFar P c0 h = false ∧ tooLong P c0 h = false) :
    IsChain P toPe nCh (Cand.step P toPe nCh c h).members := by
  rw [step_members]
  cases c with
  | none => simp [membersOf, IsChain, ChainOK]
  | some c =>
    simp only [membersOf]
    simp only [InvO, Inv] at hi
    simp only [ChainO] at hc
    cases hm : c.members with
    | nil => rw [hm] at hi; simp [buildCand] at hi
    | cons h0 t =>
      rw [hm] at hi hc
      simp only [buildCand, Option.some.injEq] at hi
      simp only [List.cons_append, IsChain] at hc ⊢
      rw [ChainOK_append, hi]
      exact ⟨hc, hn c rfl⟩

theorem scanHits_chain (P : FPParams) (toPe : List Rat) (nCh : Nat) :
    ∀ (hits : List Hit) (c : Option Cand), InvO P toPe nCh c → ChainO P toPe nCh c →
      (∀ c0 h r, c = some c0 → hits = h :: r → isFar P c0 h = false ∧ tooLong P c0 h = false) →
      ∀ c' ∈ scanHits P toPe nCh c hits, IsChain P toPe nCh c'.members := by
  intro hits
  induction hits with
  | nil => intro c _ _ _ c' hc'; simp [scanHits] at hc'
  | cons h rest ih =>
    intro c hi hc hn c' hc'
    rw [scanHits_cons] at hc'
    have hs := step_inv P toPe nCh c h hi
    have hch := step_chain P toPe nCh c h hi hc (fun c0 e => hn c0 h rest e rfl)
    cases rest with
    | nil => simp at hc'; subst hc'; exact hch
    | cons nx r =>
      simp only at hc'
      split at hc'
      · simp only [List.mem_cons] at hc'
        rcases hc' with rfl | hc'
        · exact hch
        · exact ih none trivial trivial (by intro c0 _ _ e; cases e) c' hc'
      · rename_i hcond
        refine ih (some _) hs hch ?_ c' hc'
        intro c0 h' r' e1 e2
        cases e1; cases e2
        simpa using hcond

/-- `f c h` holds between every closed candidate `c` and the first hit `h` of the next group -/
def sepBy (f : Cand → Hit → Bool) : List Cand → Bool
  | c :: c' :: rest => (match c'.members with | h :: _ => f c h | [] => false) && sepBy f (c' :: rest)
  | _ => true

/-- between consecutive groups: the first hit of the next group is far from (`>= gap_threshold` behind the
running end of), or too long for, the closed candidate -/
def Separated (P : FPParams) (cs : List Cand) : Prop := sepBy (fun c h => isFar P c h || tooLong P c h) cs = true

/-- every boundary is a gap boundary (no `max_duration` cut happened) -/
def SeparatedFar (P : FPParams) (cs : List Cand) : Prop := sepBy (fun c h => isFar P c h) cs = true

instance (P : FPParams) (cs : List Cand) : Decidable (Separated P cs) := by unfold Separated; infer_instance
instance (P : FPParams) (cs : List Cand) : Decidable (SeparatedFar P cs) := by unfold SeparatedFar; infer_instance

theorem scanHits_head (P : FPParams) (toPe : List Rat) (nCh : Nat) :
    ∀ (r : List Hit) (h : Hit) (c : Option Cand),
      ∃ c' rest' t, scanHits P toPe nCh c (h :: r) = c' :: rest' ∧ c'.members = membersOf c ++ h :: t := by
  intro r
  induction r with
  | nil => intro h c; exact ⟨Cand.step P toPe nCh c h, [], [], by simp [scanHits_cons], by simp [step_members]⟩
  | cons nx r ih =>
    intro h c
    rw [scanHits_cons]
    simp only
    split
    · exact ⟨_, _, [], rfl, by simp [step_members]⟩
    · obtain ⟨c', rest', t, e1, e2⟩ := ih nx (some (Cand.step P toPe nCh c h))
      exact ⟨c', rest', nx :: t, e1, by simp [e2, membersOf, step_members]⟩

theorem scanHits_separated (P : FPParams) (toPe : List Rat) (nCh : Nat) :
    ∀ (hits : List Hit) (c : Option Cand), Separated P (scanHits P toPe nCh c hits) := by
  intro hits
  induction hits with
  | nil => intro c; simp [scanHits, Separated, sepBy]
  | cons h rest ih =>
    intro c
    rw [scanHits_cons]
    cases rest with
    | nil => simp [Separated, sepBy]
    | cons nx r =>
      simp only
      split
      · rename_i hcond
        obtain ⟨c', rest', t, e1, e2⟩ := scanHits_head P toPe nCh r nx none
        have := ih none
        rw [e1] at this ⊢
        simp only [membersOf, List.nil_append] at e2
        simp only [Separated, sepBy, e2, Bool.and_eq_true] at this ⊢
        exact ⟨hcond, this⟩
      · exact ih _

/-! ### closed forms of the candidate's fields -/

theorem addIdx_length (l : List Rat) (k : Nat) (v : Rat) : (addIdx l k v).length = l.length := by
  induction l generalizing k with
  | nil => simp [addIdx]
  | cons b bs ih => cases k <;> simp [addIdx, ih]

theorem addIdx_getD (l : List Rat) (k j : Nat) (v : Rat) (hk : k < l.length) :
    (addIdx l k v).getD j 0 = l.getD j 0 + (if j = k then v else 0) := by
  induction l generalizing k j with
  | nil => simp at hk
  | cons b bs ih =>
    cases k with
    | zero => cases j <;> simp [addIdx, Rat.add_zero]
    | succ k =>
      cases j with
      | zero => simp [addIdx, Rat.add_zero]
      | succ j =>
        simp only [addIdx, List.getD_cons_succ]
        rw [ih k j (by simpa using hk)]
        simp

/-- what a hit adds to the area of its peak, in PE -/
def hitPE (toPe : List Rat) (x : Hit) : Rat := x.area * toPe.getD x.channel 0

def stepF (P : FPParams) (toPe : List Rat) (nCh : Nat) : Cand → Hit → Cand :=
  fun c x => Cand.step P toPe nCh (some c) x

theorem fold_fields (P : FPParams) (toPe : List Rat) (nCh : Nat) :
    ∀ (t : List Hit) (c : Cand),
      (t.foldl (stepF P toPe nCh) c).time = c.time ∧
      (t.foldl (stepF P toPe nCh) c).dt = c.dt ∧
      (t.foldl (stepF P toPe nCh) c).endt = t.foldl (fun e x => max e x.endt) c.endt ∧
      (t.foldl (stepF P toPe nCh) c).nHits = c.nHits + t.length ∧
      (t.foldl (stepF P toPe nCh) c).area = c.area + (t.map (hitPE toPe)).sum ∧
      (t.foldl (stepF P toPe nCh) c).apc.length = c.apc.length := by
  intro t
  induction t with
  | nil => intro c; simp [Rat.add_zero]
  | cons x t ih =>
    intro c
    simp only [List.foldl_cons]
    obtain ⟨h1, h2, h3, h4, h5, h6⟩ := ih (stepF P toPe nCh c x)
    rw [h1, h2, h3, h4, h5, h6]
    simp only [stepF, Cand.step, Cand.enter, Cand.add, List.map_cons, List.sum_cons, List.length_cons, hitPE, addIdx_length]
    refine ⟨trivial, trivial, trivial, by omega, by grind, trivial⟩

theorem fold_apc (P : FPParams) (toPe : List Rat) (nCh : Nat) (k : Nat) :
    ∀ (t : List Hit) (c : Cand), (∀ x ∈ t, x.channel < c.apc.length) →
      (t.foldl (stepF P toPe nCh) c).apc.getD k 0
        = c.apc.getD k 0 + ((t.filter (fun x => x.channel = k)).map (hitPE toPe)).sum := by
  intro t
  induction t with
  | nil => intro c _; simp [Rat.add_zero]
  | cons x t ih =>
    intro c hch
    simp only [List.foldl_cons]
    have hx : x.channel < c.apc.length := hch x (by simp)
    rw [ih (stepF P toPe nCh c x) (by
      intro y hy
      simp only [stepF, Cand.step, Cand.enter, Cand.add, addIdx_length]
      exact hch y (by simp [hy]))]
    simp only [stepF, Cand.step, Cand.enter, Cand.add]
    rw [addIdx_getD _ _ _ _ hx]
    by_cases hk : x.channel = k
    · subst hk; simp [List.filter_cons, hitPE]; grind
    · have : ¬ k = x.channel := fun e => hk e.symm
      simp [List.filter_cons, hk, this]; grind


/-- latest end among the hits of a group (0 for the empty group) -/
def maxEndt : List Hit → Int
  | [] => 0
  | h :: t => t.foldl (fun e x => max e x.endt) h.endt

theorem foldmax_ge (t : List Hit) (e : Int) :
    e ≤ t.foldl (fun e x => max e x.endt) e ∧ ∀ x ∈ t, x.endt ≤ t.foldl (fun e x => max e x.endt) e := by
  induction t generalizing e with
  | nil => simp
  | cons y t ih =>
    simp only [List.foldl_cons, List.mem_cons]
    obtain ⟨h1, h2⟩ := ih (max e y.endt)
    refine ⟨by omega, ?_⟩
    intro x hx
    rcases hx with rfl | hx
    · omega
    · exact h2 x hx

theorem le_maxEndt (g : List Hit) : ∀ x ∈ g, x.endt ≤ maxEndt g := by
  cases g with
  | nil => simp
  | cons h t =>
    intro x hx
    simp only [maxEndt, List.mem_cons] at *
    rcases hx with rfl | hx
    · exact (foldmax_ge t _).1
    · exact (foldmax_ge t _).2 x hx

theorem foldmax_dvd (d : Int) (t : List Hit) (e : Int) (he : d ∣ e) (ht : ∀ x ∈ t, d ∣ x.endt) :
    d ∣ t.foldl (fun e x => max e x.endt) e := by
  induction t generalizing e with
  | nil => simpa
  | cons y t ih =>
    simp only [List.foldl_cons]
    apply ih
    · rcases Int.le_total e y.endt with h | h
      · rw [Int.max_eq_right h]; exact ht y (by simp)
      · rw [Int.max_eq_left h]; exact he
    · intro x hx; exact ht x (by simp [hx])

/-- the fields of the candidate of a group, in closed form -/
theorem buildCand_spec (P : FPParams) (toPe : List Rat) (nCh : Nat) (h : Hit) (t : List Hit) (c : Cand)
    (hb : buildCand P toPe nCh (h :: t) = some c) :
    c.time = h.time - P.left ∧ c.dt = h.dt ∧ c.endt = maxEndt (h :: t) ∧ c.nHits = ((h :: t).length : Int) ∧
    c.area = ((h :: t).map (hitPE toPe)).sum ∧ c.apc.length = nCh ∧
    ((∀ x ∈ h :: t, x.channel < nCh) → ∀ k, c.apc.getD k 0 = (((h :: t).filter (fun x => x.channel = k)).map (hitPE toPe)).sum) := by
  simp only [buildCand, Option.some.injEq] at hb
  subst hb
  obtain ⟨h1, h2, h3, h4, h5, h6⟩ := fold_fields P toPe nCh t (Cand.step P toPe nCh none h)
  have f : ∀ (c0 : Cand), t.foldl (fun c x => Cand.step P toPe nCh (some c) x) c0 = t.foldl (stepF P toPe nCh) c0 := fun _ => rfl
  rw [f]
  refine ⟨by rw [h1]; simp [Cand.step, Cand.enter, Cand.add], by rw [h2]; simp [Cand.step, Cand.enter, Cand.add], ?_, ?_, ?_, ?_, ?_⟩
  · rw [h3]; simp [Cand.step, Cand.enter, Cand.add, maxEndt]
  · rw [h4]; simp [Cand.step, Cand.enter, Cand.add]; omega
  · rw [h5]; simp [Cand.step, Cand.enter, Cand.add, hitPE, Rat.zero_add]
  · rw [h6]; simp [Cand.step, Cand.enter, Cand.add, addIdx_length, zeros]
  · intro hch k
    have hz : (zeros nCh).length = nCh := by simp [zeros]
    rw [fold_apc P toPe nCh k t _ (by
      intro x hx
      simp only [Cand.step, Cand.enter, Cand.add, addIdx_length, hz]
      exact hch x (by simp [hx]))]
    simp only [Cand.step, Cand.enter, Cand.add]
    rw [addIdx_getD _ _ _ _ (by rw [hz]; exact hch h (by simp))]
    have hzero : (zeros nCh).getD k 0 = 0 := by
      simp [zeros, List.getD_eq_getElem?_getD, List.getElem?_replicate]; split <;> rfl
    rw [hzero]
    by_cases hk : h.channel = k
    · subst hk; simp [hitPE, Rat.zero_add]
    · have : ¬ k = h.channel := fun e => hk e.symm
      simp [hk, this, Rat.zero_add, Rat.add_zero]


/-! ### the cuts -/

/-- the peak a closed candidate becomes, if it passes the cuts -/
def Cand.toPeak (P : FPParams) (nS : Nat) (c : Cand) : Option Peak :=
  match c.finish P nS with
  | .ok (some p) => some p
  | _ => none

theorem finishAll_ok (P : FPParams) (nS : Nat) :
    ∀ (cs : List Cand) (peaks : List Peak), finishAll P nS cs = .ok peaks →
      peaks = cs.filterMap (Cand.toPeak P nS) ∧ ∀ c ∈ cs, ∃ r, c.finish P nS = .ok r := by
  intro cs
  induction cs with
  | nil => intro peaks h; simp [finishAll] at h; subst h; simp
  | cons c cs ih =>
    intro peaks h
    unfold finishAll at h
    split at h
    · simp at h
    · rename_i hf
      obtain ⟨e, he⟩ := ih peaks h
      refine ⟨by simp [List.filterMap_cons, Cand.toPeak, hf, e], ?_⟩
      intro c' hc'
      rcases List.mem_cons.mp hc' with rfl | hc'
      · exact ⟨_, hf⟩
      · exact he c' hc'
    · rename_i p hf
      split at h
      · simp at h
      · rename_i ps hps
        simp only [Except.ok.injEq] at h
        obtain ⟨e, he⟩ := ih ps hps
        refine ⟨by simp [List.filterMap_cons, Cand.toPeak, hf, ← h, e], ?_⟩
        intro c' hc'
        rcases List.mem_cons.mp hc' with rfl | hc'
        · exact ⟨_, hf⟩
        · exact he c' hc'

/-- a candidate becomes a peak exactly when it passes both cuts; the peak carries its fields -/
theorem toPeak_some (P : FPParams) (nS : Nat) (c : Cand) (p : Peak) (h : c.toPeak P nS = some p) :
    ¬ c.area < P.minArea ∧ ¬ nonzeroCount c.apc < P.minChannels ∧
    p.time = c.time ∧ p.dt = c.dt ∧ p.length = Int.tdiv (c.endt - c.time + P.right) c.lastDt ∧ 0 < p.length ∧
    p.area = c.area ∧ p.apc = c.apc ∧ p.nHits = c.nHits ∧ p.maxGap = c.maxGap := by
  unfold Cand.toPeak Cand.finish at h
  split at h
  · rename_i q hq
    split at hq
    · simp at hq
    · split at hq
      · simp at hq
      · split at hq
        · simp at hq
        · simp only [] at hq
          split at hq
          · simp at hq
          · simp only [Except.ok.injEq, Option.some.injEq] at hq h
            subst hq; subst h
            refine ⟨by assumption, by assumption, rfl, rfl, rfl, by simp only; omega, rfl, rfl, rfl, rfl⟩
  · simp at h

theorem toPeak_none_of_cut (P : FPParams) (nS : Nat) (c : Cand)
    (h : c.area < P.minArea ∨ nonzeroCount c.apc < P.minChannels) : c.toPeak P nS = none := by
  unfold Cand.toPeak Cand.finish
  rcases h with h | h
  · simp [h]
  · by_cases h' : c.area < P.minArea <;> simp [h, h']


/-! ### order and separation of the closed candidates -/

theorem inv_first (P : FPParams) (toPe : List Rat) (nCh : Nat) (c : Cand) (hi : Inv P toPe nCh c) :
    ∃ f t, c.members = f :: t ∧ c.time = f.time - P.left := by
  unfold Inv at hi
  cases hm : c.members with
  | nil => rw [hm] at hi; simp [buildCand] at hi
  | cons f t =>
    rw [hm] at hi
    exact ⟨f, t, rfl, (buildCand_spec P toPe nCh f t c hi).1⟩

theorem sorted_flatten_cons {l : List Hit} {L : List (List Hit)}
    (h : (l :: L).flatten.Pairwise (fun a b => a.time ≤ b.time)) :
    L.flatten.Pairwise (fun a b => a.time ≤ b.time) ∧ ∀ x ∈ l, ∀ l' ∈ L, ∀ y ∈ l', x.time ≤ y.time := by
  simp only [List.flatten_cons, List.pairwise_append] at h
  refine ⟨h.2.1, ?_⟩
  intro x hx l' hl' y hy
  exact h.2.2 x hx y (List.mem_flatten.mpr ⟨l', hl', hy⟩)

/-- with time-sorted hits, candidates closed by the gap rule are separated by at least the threshold
(measured between the running end of the earlier and the first hit of the later one) -/
theorem pairwise_far (P : FPParams) (toPe : List Rat) (nCh : Nat) :
    ∀ (cs : List Cand), (∀ c ∈ cs, Inv P toPe nCh c) →
      (cs.map (·.members)).flatten.Pairwise (fun a b => a.time ≤ b.time) →
      SeparatedFar P cs →
      cs.Pairwise (fun c c' => c.endt + P.gap ≤ c'.time + P.left) := by
  intro cs
  induction cs with
  | nil => intros; exact List.Pairwise.nil
  | cons c rest ih =>
    intro hinv hsort hsep
    simp only [List.map_cons] at hsort
    obtain ⟨hs1, hs2⟩ := sorted_flatten_cons hsort
    cases rest with
    | nil => exact List.pairwise_singleton _ _
    | cons c' rest' =>
      simp only [SeparatedFar, sepBy, Bool.and_eq_true] at hsep
      obtain ⟨hfar, hsep'⟩ := hsep
      refine List.Pairwise.cons ?_ (ih (fun x hx => hinv x (by simp [hx])) hs1 hsep')
      obtain ⟨f', t', hm', ht'⟩ := inv_first P toPe nCh c' (hinv c' (by simp))
      rw [hm'] at hfar
      simp only [isFar, decide_eq_true_eq] at hfar
      intro c'' hc''
      rcases List.mem_cons.mp hc'' with rfl | hc''
      · omega
      · obtain ⟨f'', t'', hm'', ht''⟩ := inv_first P toPe nCh c'' (hinv c'' (by simp [hc'']))
        simp only [List.map_cons] at hs1
        have := (sorted_flatten_cons hs1).2 f' (by simp [hm']) c''.members (List.mem_map.mpr ⟨c'', hc'', rfl⟩) f'' (by simp [hm''])
        omega

/-- with time-sorted hits the candidates start in time order, duration cuts or not -/
theorem pairwise_time (P : FPParams) (toPe : List Rat) (nCh : Nat) :
    ∀ (cs : List Cand), (∀ c ∈ cs, Inv P toPe nCh c) →
      (cs.map (·.members)).flatten.Pairwise (fun a b => a.time ≤ b.time) →
      cs.Pairwise (fun c c' => c.time ≤ c'.time) := by
  intro cs
  induction cs with
  | nil => intros; exact List.Pairwise.nil
  | cons c rest ih =>
    intro hinv hsort
    simp only [List.map_cons] at hsort
    obtain ⟨hs1, hs2⟩ := sorted_flatten_cons hsort
    refine List.Pairwise.cons ?_ (ih (fun x hx => hinv x (by simp [hx])) hs1)
    obtain ⟨f, t, hm, ht⟩ := inv_first P toPe nCh c (hinv c (by simp))
    intro c'' hc''
    obtain ⟨f'', t'', hm'', ht''⟩ := inv_first P toPe nCh c'' (hinv c'' (by simp [hc'']))
    have := hs2 f (by simp [hm]) c''.members (List.mem_map.mpr ⟨c'', hc'', rfl⟩) f'' (by simp [hm''])
    omega


/-! ### the span of a peak -/

theorem fold_lastDt (P : FPParams) (toPe : List Rat) (nCh : Nat) (d : Int) :
    ∀ (t : List Hit) (c : Cand), c.lastDt = d → (∀ x ∈ t, x.dt = d) → (t.foldl (stepF P toPe nCh) c).lastDt = d := by
  intro t
  induction t with
  | nil => intro c h _; simpa
  | cons x t ih =>
    intro c _ hx
    simp only [List.foldl_cons]
    exact ih _ (by simp [stepF, Cand.step, Cand.enter, Cand.add, hx x (by simp)]) (fun y hy => hx y (by simp [hy]))

/-- hits of one sampling width `d`, on the sample grid -/
def OnGrid (d : Int) (g : List Hit) : Prop := ∀ x ∈ g, x.dt = d ∧ d ∣ x.time

/-- a peak spans its hits plus the extensions: it starts `left_extension` before the first hit and
ends `right_extension` after the latest hit end (hits on a common sample grid) -/
theorem peak_span (P : FPParams) (toPe : List Rat) (nCh nS : Nat) (c : Cand) (p : Peak) (d : Int)
    (hi : Inv P toPe nCh c) (hd : 0 < d) (hg : OnGrid d c.members) (hl : d ∣ P.left) (hr : d ∣ P.right)
    (hp : c.toPeak P nS = some p) :
    ∃ f t, c.members = f :: t ∧ p.time = f.time - P.left ∧ p.endt = maxEndt c.members + P.right ∧ p.dt = d := by
  obtain ⟨_, _, ht, hdt, hlen, _, _⟩ := toPeak_some P nS c p hp
  unfold Inv at hi
  cases hm : c.members with
  | nil => rw [hm] at hi; simp [buildCand] at hi
  | cons f t =>
    rw [hm] at hi hg
    obtain ⟨s1, s2, s3, _⟩ := buildCand_spec P toPe nCh f t c hi
    have hlast : c.lastDt = d := by
      simp only [buildCand, Option.some.injEq] at hi
      rw [← hi]
      exact fold_lastDt P toPe nCh d t _ (by simp [Cand.step, Cand.enter, Cand.add, (hg f (by simp)).1])
        (fun x hx => (hg x (by simp [hx])).1)
    have hfd : f.dt = d := (hg f (by simp)).1
    have hdvd : d ∣ c.endt - c.time + P.right := by
      have h1 : d ∣ c.endt := by
        rw [s3]
        apply foldmax_dvd
        · simp only [Hit.endt, hfd]; exact Int.dvd_add (hg f (by simp)).2 (Int.dvd_mul_right _ _)
        · intro x hx
          simp only [Hit.endt, (hg x (by simp [hx])).1]
          exact Int.dvd_add (hg x (by simp [hx])).2 (Int.dvd_mul_right _ _)
      have h2 : d ∣ c.time := by rw [s1]; exact Int.dvd_sub (hg f (by simp)).2 hl
      exact Int.dvd_add (Int.dvd_sub h1 h2) hr
    refine ⟨f, t, rfl, by rw [ht, s1], ?_, by rw [hdt, s2, hfd]⟩
    obtain ⟨k, hk⟩ := hdvd
    have : p.length = k := by
      rw [hlen, hlast, hk]; exact Int.mul_tdiv_cancel_left _ (by omega)
    simp only [Peak.endt, ht, hdt, s2, hfd, this, ← s3]
    omega


end Strax.Peaks
