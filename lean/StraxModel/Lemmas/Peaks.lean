import StraxModel.Model.Peaks
/-
  Helper lemmas for property C19 (theory T15 Peaks).  Core tactics only (`grind`, `omega`, `simp`).
-/
namespace Strax.Peaks
open Strax

/-! ## slices and sums -/

theorem slice_nil_of_le {α} (a : List α) {lo hi : Nat} (h : hi ≤ lo) : slice a lo hi = [] := by
  unfold slice; have : hi - lo = 0 := by omega
  simp [this]

theorem slice_length {α} (a : List α) (lo hi : Nat) (h : hi ≤ a.length) : (slice a lo hi).length = hi - lo := by
  unfold slice; simp; omega

theorem sum_take_succ (a : List Rat) (k : Nat) (h : k < a.length) :
    (a.take (k+1)).sum = (a.take k).sum + a.getD k 0 := by
  rw [List.take_add_one, List.sum_append]
  simp [List.getD_eq_getElem?_getD, List.getElem?_eq_getElem h, Rat.add_zero]

/-- extending a slice to the right by one sample -/
theorem sum_slice_succ_right (a : List Rat) (lo hi : Nat) (h1 : lo ≤ hi) (h2 : hi < a.length) :
    (slice a lo (hi+1)).sum = (slice a lo hi).sum + a.getD hi 0 := by
  unfold slice
  have e : hi + 1 - lo = (hi - lo) + 1 := by omega
  rw [e, sum_take_succ _ _ (by simp; omega)]
  congr 1
  simp [List.getD_eq_getElem?_getD]
  congr 2; omega

/-- shrinking a non-empty slice from the left by one sample -/
theorem sum_slice_succ_left (a : List Rat) (lo hi : Nat) (h1 : lo < hi) (h2 : lo < a.length) :
    (slice a (lo+1) hi).sum = (slice a lo hi).sum - a.getD lo 0 := by
  unfold slice
  rw [List.drop_eq_getElem_cons h2]
  have e : hi - lo = (hi - (lo+1)) + 1 := by omega
  rw [e, List.take_succ_cons, List.sum_cons]
  simp [List.getD_eq_getElem?_getD, List.getElem?_eq_getElem h2]
  grind

/-! ## symmetric_moving_average -/

/-- one iteration of the moving-average loop keeps "asum = sum of the current window, count = its size" -/
theorem sma_step (a : List Rat) (w i : Nat) (hw : 1 ≤ w) (hin : i < a.length) :
    smaStep true a w a.length i
        ((slice a (i - (w+1)) (min a.length (i+w))).sum, ((min a.length (i+w) - (i - (w+1)) : Nat) : Int))
      = ((slice a (i - w) (min a.length (i+w+1))).sum, ((min a.length (i+w+1) - (i - w) : Nat) : Int)) := by
  unfold smaStep
  by_cases h1 : (i : Int) - w - 1 ≥ 0 <;> by_cases h2 : i + w < a.length
  · have e1 : ((i : Int) - w - 1).toNat = i - (w+1) := by omega
    have e2 : min a.length (i+w) = i + w := by omega
    have e3 : min a.length (i+w+1) = i + w + 1 := by omega
    have e4 : i - w = (i - (w+1)) + 1 := by omega
    simp only [h1, h2, if_true, decide_true, e1, e2, e3]
    rw [e4, sum_slice_succ_left a _ (i+w+1) (by omega) (by omega), sum_slice_succ_right a _ (i+w) (by omega) h2]
    refine Prod.ext ?_ ?_
    · grind
    · simp only; omega
  · have e1 : ((i : Int) - w - 1).toNat = i - (w+1) := by omega
    have e2 : min a.length (i+w) = a.length := by omega
    have e3 : min a.length (i+w+1) = a.length := by omega
    have e4 : i - w = (i - (w+1)) + 1 := by omega
    simp only [h1, h2, if_true, if_false, decide_true, e1, e2, e3]
    rw [e4, sum_slice_succ_left a _ a.length (by omega) (by omega)]
    refine Prod.ext rfl ?_
    simp only; omega
  · have e2 : min a.length (i+w) = i + w := by omega
    have e3 : min a.length (i+w+1) = i + w + 1 := by omega
    have e4 : i - w = 0 := by omega
    have e5 : i - (w+1) = 0 := by omega
    simp only [h1, h2, if_true, if_false, decide_false, Bool.false_eq_true, e2, e3, e4, e5]
    rw [sum_slice_succ_right a 0 (i+w) (by omega) h2]
    refine Prod.ext rfl ?_
    simp only; omega
  · have e2 : min a.length (i+w) = a.length := by omega
    have e3 : min a.length (i+w+1) = a.length := by omega
    have e4 : i - w = 0 := by omega
    have e5 : i - (w+1) = 0 := by omega
    simp only [h1, h2, if_true, if_false, decide_false, Bool.false_eq_true, e2, e3, e4, e5]

theorem smaLoop_spec (a : List Rat) (w : Nat) (hw : 1 ≤ w) :
    ∀ (fuel i : Nat), i + fuel = a.length →
      smaLoop true a w a.length fuel i
          ((slice a (i - (w+1)) (min a.length (i+w))).sum, ((min a.length (i+w) - (i - (w+1)) : Nat) : Int))
        = (List.range' i fuel).map (windowMean a w) := by
  intro fuel
  induction fuel with
  | zero => intros; simp [smaLoop]
  | succ fuel ih =>
    intro i hi
    have hin : i < a.length := by omega
    rw [List.range'_succ, List.map_cons]
    unfold smaLoop
    simp only [sma_step a w i hw hin]
    have e : i - w = (i + 1) - (w + 1) := by omega
    have e' : i + w + 1 = i + 1 + w := by omega
    refine List.cons_eq_cons.mpr ⟨?_, ?_⟩
    · unfold windowMean; simp [Rat.intCast_natCast]
    · rw [e, e']; exact ih (i+1) (by omega)



theorem windowMean_zero (a : List Rat) (i : Nat) (h : i < a.length) : windowMean a 0 i = a.getD i 0 := by
  unfold windowMean
  have e : min a.length (i + 0 + 1) = i + 1 := by omega
  simp only [Nat.sub_zero, e]
  rw [sum_slice_succ_right a i i (Nat.le_refl _) h, slice_nil_of_le a (Nat.le_refl i)]
  have : ((i + 1 - i : Nat) : Rat) = 1 := by
    have : i + 1 - i = 1 := by omega
    rw [this]; rfl
  rw [this]; grind

theorem map_getD_range (a : List Rat) : (List.range a.length).map (fun i => a.getD i 0) = a := by
  apply List.ext_getElem
  · simp
  · intro i h1 h2
    simp [List.getD_eq_getElem?_getD, List.getElem?_eq_getElem h2]

/-- the moving average as it is now equals its defining formula, for every waveform and wing width -/
theorem symmetricMovingAverage_eq (a : List Rat) (w : Nat) :
    symmetricMovingAverage a w = (List.range a.length).map (windowMean a w) := by
  unfold symmetricMovingAverage smaGen
  by_cases hw : w = 0
  · subst hw
    simp only [if_true]
    conv => lhs; rw [← map_getD_range a]
    apply List.map_congr_left
    intro i hi
    exact (windowMean_zero a i (by simpa using hi)).symm
  · simp only [hw, if_false, if_true]
    have h := smaLoop_spec a w (by omega) a.length 0 (by omega)
    rw [List.range_eq_range']
    rw [← h]
    congr 2
    · unfold slice; simp
      congr 1
      rw [List.take_eq_take_iff]; omega
    · simp; omega


/-! ## _split_peaks -/

/-- fragments start at `a`, follow each other without gap or overlap, are non-empty, and end at `b` -/
def Tiles : List Frag → Int → Int → Prop
  | [], a, b => a = b
  | f :: fs, a, b => f.time = a ∧ 0 < f.length ∧ Tiles fs f.endt b

/-- as `Tiles` but gaps are allowed (never overlaps) -/
def NoOverlap : List Frag → Int → Prop
  | [], _ => True
  | f :: fs, a => a ≤ f.time ∧ 0 < f.length ∧ NoOverlap fs f.endt

/-- the last split index actually used (entries equal to `NO_MORE_SPLITS` are skipped) -/
def lastSplit : Int → List Int → Int
  | prev, [] => prev
  | prev, s :: rest => if s = NO_MORE_SPLITS then lastSplit prev rest else lastSplit s rest

theorem splitOne_tiles (pTime pDt origDt : Int) (hdiv : origDt ∣ pDt) :
    ∀ (splits : List Int) (prev : Int) (frags : List Frag),
      splitOne pTime pDt origDt prev splits = .ok frags →
      Tiles frags (pTime + prev * pDt) (pTime + lastSplit prev splits * pDt) := by
  intro splits
  induction splits with
  | nil => intro prev frags h; simp [splitOne] at h; subst h; simp [Tiles, lastSplit]
  | cons s rest ih =>
    intro prev frags h
    unfold splitOne at h
    by_cases hs : s = NO_MORE_SPLITS
    · simp only [hs, if_true] at h
      simp only [lastSplit, hs, if_true]
      exact ih prev frags h
    · simp only [hs, if_false] at h
      by_cases h0 : origDt = 0
      · simp [h0] at h
      · simp only [h0, if_false] at h
        obtain ⟨k, hk⟩ := hdiv
        split at h
        · simp at h
        · rename_i hlen
          split at h
          · simp at h
          · rename_i fr hfr
            simp only [Except.ok.injEq] at h
            subst h
            have e : ((s - prev) * pDt).tdiv origDt = (s - prev) * k := by
              rw [hk, show (s - prev) * (origDt * k) = origDt * ((s - prev) * k) by grind]
              exact Int.mul_tdiv_cancel_left _ h0
            simp only [Tiles, lastSplit, hs, if_false]
            refine ⟨trivial, by omega, ?_⟩
            have := ih s fr hfr
            have e2 : Frag.endt { time := pTime + prev * pDt, length := ((s - prev) * pDt).tdiv origDt, dt := origDt } = pTime + s * pDt := by
              simp only [Frag.endt, hk]; grind
            rw [e2]; exact this


theorem tdiv_pos_imp {x d : Int} (hd : 0 < d) (h : 0 < x.tdiv d) : 0 ≤ x ∧ d * x.tdiv d ≤ x := by
  have hx : 0 ≤ x := by
    false_or_by_contra
    have h1 : (-(-x)).tdiv d = -((-x).tdiv d) := Int.neg_tdiv (-x) d
    have h2 : 0 ≤ (-x).tdiv d := Int.tdiv_nonneg (by omega) (by omega)
    rw [Int.neg_neg] at h1
    omega
  exact ⟨hx, Int.mul_tdiv_self_le hx⟩

theorem NoOverlap_mono {fs : List Frag} {a a' : Int} (h : a' ≤ a) (hn : NoOverlap fs a) : NoOverlap fs a' := by
  cases fs with
  | nil => trivial
  | cons f fs => exact ⟨by have := hn.1; omega, hn.2.1, hn.2.2⟩

theorem splitOne_noOverlap (pTime pDt origDt : Int) (hd : 0 < origDt) :
    ∀ (splits : List Int) (prev : Int) (frags : List Frag),
      splitOne pTime pDt origDt prev splits = .ok frags →
      NoOverlap frags (pTime + prev * pDt) := by
  intro splits
  induction splits with
  | nil => intro prev frags h; simp [splitOne] at h; subst h; simp [NoOverlap]
  | cons s rest ih =>
    intro prev frags h
    unfold splitOne at h
    by_cases hs : s = NO_MORE_SPLITS
    · simp only [hs, if_true] at h
      exact ih prev frags h
    · simp only [hs, if_false] at h
      have h0 : origDt ≠ 0 := by omega
      simp only [h0, if_false] at h
      split at h
      · simp at h
      · rename_i hlen
        split at h
        · simp at h
        · rename_i fr hfr
          simp only [Except.ok.injEq] at h
          subst h
          have hp := tdiv_pos_imp hd (show 0 < ((s - prev) * pDt).tdiv origDt by omega)
          simp only [NoOverlap]
          refine ⟨Int.le_refl _, by omega, ?_⟩
          refine NoOverlap_mono ?_ (ih s fr hfr)
          simp only [Frag.endt]
          have e : prev * pDt + (s - prev) * pDt = s * pDt := by grind
          omega


end Strax.Peaks
